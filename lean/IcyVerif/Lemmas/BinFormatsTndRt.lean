import IcyVerif.Lemmas.BinFormatsTndRun
set_option linter.unusedSimpArgs false
set_option linter.unusedVariables false
/-!
# C05, Tundra: the round trip theorem
-/
namespace IcyVerif.BinFormats
open IcyVerif.XbCompress IcyVerif.Gen

theorem tndLoop_nil (F : Nat) (s : TL) : tndLoop F [] s = .ok s := by
  cases F <;> simp [tndLoop]

/-- the joint start state: the writer starts from attribute byte 0, the loader from black-only palette and its default
    colours; nothing is assumed about how they relate (`first = true`) -/
def js0 (p : Pic) : JS :=
  { wattr := fromU8' p.ice 0, first := true, lpal := [(0, 0, 0)], lfg := Xb.defaultFg, lbg := Xb.defaultBg }

theorem js0_inv (p : Pic) : JInv p.pal (js0 p) := by
  intro h; exact absurd (show true = false from h) (by decide)

/-- the buffer the Tundra loader produces for a representable picture -/
def tndLoaded (p : Pic) (m : Option Sauce.Meta) : LBuf :=
  { bw := p.w, bh := (p.h : Int), lw := p.w, lh := (p.h : Int),
    lines := (jrows p.pal (js0 p) p.rows).2.map (partRow p.w), ice := .ice, pal := (jrows p.pal (js0 p) p.rows).1.lpal,
    fonts := [(0, defaultFont)], sauce := m }

/-- the start buffer of the Tundra loader: the record's width, whatever it is (1..=65535) -/
theorem tnd_start (s : Sauce.Sauce) (hw1 : 1 ≤ s.width) (hf : s.font = none) :
    tndStart (some s) = { bw := s.width, bh := s.height, lw := s.width, lh := s.height, lines := [],
                          ice := if s.ice then .ice else .unlimited, pal := dosPalette, fonts := [(0, defaultFont)], sauce := some (metaOf s) } := by
  unfold tndStart
  have hc : (BinFmt.tndClearsRows == 1) = true := by decide
  have hm : BinFmt.tndWideAbove = 1000 := rfl
  by_cases hw : s.width ≤ 1000
  · rw [hc, start_setSauce _ _ s hw1 hw]
    have : ¬ (s.width > BinFmt.tndWideAbove) := by rw [hm]; omega
    simp only [this, if_false]
    unfold startFonts; simp [hf]
  · unfold LBuf.setSauce LBuf.start
    have hm2 : BinFmt.sauceMaxWidth = 1000 := rfl
    have hcond : (s.width = 0 ∨ s.width > BinFmt.sauceMaxWidth) := by rw [hm2]; omega
    have : s.width > BinFmt.tndWideAbove := by rw [hm]; omega
    simp only [hc, if_true, hcond, this, hf, Option.bind_none]

theorem tnd_start_none : tndStart none =
    ({ bw := 80, bh := 25, lw := 80, lh := 25, lines := [], ice := IceMode.unlimited, pal := dosPalette,
       fonts := [(0, defaultFont)], sauce := none } : LBuf) := by
  unfold tndStart
  have hc : (BinFmt.tndClearsRows == 1) = true := by decide
  rw [hc, start_setSauce_none]
  rfl

theorem tnd_cells_cond (p : Pic)
    (hcells : allCells p (fun c => decide (c.ch ≤ 255) && isVisible c && !isBlink c.attr && decide (c.attr.fg < 2147483648) &&
      decide (c.attr.bg < 2147483648)) = true) :
    ∀ r ∈ p.rows, ∀ c ∈ r, c.ch ≤ 255 ∧ isVisible c = true ∧ isBlink c.attr = false ∧ c.attr.fg < 2147483648 ∧ c.attr.bg < 2147483648 := by
  intro r hr c hc
  unfold allCells at hcells
  have := List.all_eq_true.mp (List.all_eq_true.mp hcells r hr) c hc
  simp only [Bool.and_eq_true, decide_eq_true_eq, Bool.not_eq_true'] at this
  obtain ⟨⟨⟨⟨h1, h2⟩, h3⟩, h4⟩, h5⟩ := this
  exact ⟨h1, h2, h3, h4, h5⟩

/-- the loader on the file body the writer produced, for either start buffer -/
theorem tnd_load (p : Pic) (s : Option Sauce.Sauce) (bytes : List Nat)
    (hwf : wellFormed p = true) (hw1 : 1 ≤ p.w)
    (hs : (s = none ∧ p.w = 80) ∨ (∃ s', s = some s' ∧ s'.width = p.w ∧ s'.font = none))
    (hcells : ∀ r ∈ p.rows, ∀ c ∈ r, c.ch ≤ 255 ∧ isVisible c = true)
    (hw : tndCells p.pal ⟨[BinFmt.tndVersion] ++ BinFmt.tndHeader, fromU8' p.ice 0, true, none⟩ 0 p.rows.flatten =
      some { out := ([BinFmt.tndVersion] ++ BinFmt.tndHeader) ++ bytes, attr := (jrow p.pal (js0 p) p.rows.flatten).1.wattr,
             first := (jrow p.pal (js0 p) p.rows.flatten).1.first, skip := none })
    (hrun : ∀ (sl : TL) (F : Nat), sl.buf.pal = [(0, 0, 0)] → sl.fg = Xb.defaultFg → sl.bg = Xb.defaultBg → sl.x = 0 → sl.y = 0 → 1 ≤ sl.buf.bw →
      tndLoop (F + p.rows.flatten.length) (bytes ++ []) sl = tndLoop F [] (runResult p.pal (js0 p) sl 0 0 p.rows.flatten))
    (hlen : p.rows.flatten.length ≤ bytes.length) :
    tndLoad (([BinFmt.tndVersion] ++ BinFmt.tndHeader) ++ bytes) s = .ok (tndLoaded p (s.map metaOf)) := by
  obtain ⟨hne, hrows, hwid⟩ := rows_nonempty p hwf
  -- the start buffer
  have hstart : ∃ bh0 lh0 : Int, ∃ im : IceMode, tndStart s =
      { bw := p.w, bh := bh0, lw := p.w, lh := lh0, lines := [], ice := im, pal := dosPalette, fonts := [(0, defaultFont)],
        sauce := s.map metaOf } := by
    rcases hs with ⟨h1, h2⟩ | ⟨s', h1, h2, h3⟩
    · subst h1
      rw [tnd_start_none, h2]
      exact ⟨_, _, _, rfl⟩
    · subst h1
      rw [tnd_start s' (by omega) h3, h2]
      exact ⟨_, _, _, rfl⟩
  obtain ⟨bh0, lh0, im, hst⟩ := hstart
  unfold tndLoad
  rw [hst]
  have hhl : BinFmt.tndHeader.length = 8 := rfl
  have c1 : ¬ ((([BinFmt.tndVersion] ++ BinFmt.tndHeader) ++ bytes).length < 1 + BinFmt.tndHeader.length) := by
    simp only [List.length_append, List.length_cons, List.length_nil, hhl]; omega
  have c2 : ((((([BinFmt.tndVersion] ++ BinFmt.tndHeader) ++ bytes).drop 1).take BinFmt.tndHeader.length) != BinFmt.tndHeader) = false := by
    have : (([BinFmt.tndVersion] ++ BinFmt.tndHeader) ++ bytes).drop 1 = BinFmt.tndHeader ++ bytes := by simp
    rw [this, List.take_left' rfl]; simp
  have c3 : (([BinFmt.tndVersion] ++ BinFmt.tndHeader) ++ bytes).drop (1 + BinFmt.tndHeader.length) = bytes :=
    List.drop_left' (by simp [hhl])
  simp only [c1, if_false, c2, Bool.false_eq_true, c3]
  -- the command loop
  let b1 : LBuf := { bw := p.w, bh := bh0, lw := p.w, lh := lh0, lines := [], ice := IceMode.ice, pal := [(0, 0, 0)], fonts := [(0, defaultFont)],
                     sauce := s.map metaOf }
  have hfuel : bytes.length + 1 = (bytes.length + 1 - p.rows.flatten.length) + p.rows.flatten.length := by omega
  have hl := hrun ⟨b1, Xb.defaultFg, Xb.defaultBg, 0, 0⟩ (bytes.length + 1 - p.rows.flatten.length) rfl rfl rfl rfl rfl hw1
  rw [List.append_nil] at hl
  show (match tndLoop (bytes.length + 1) bytes ⟨b1, Xb.defaultFg, Xb.defaultBg, 0, 0⟩ with
        | .ok s => Out.ok ({ s.buf with bw := s.buf.lw, bh := s.buf.lh } : LBuf)
        | .err => .err
        | .panic => .panic) = _
  rw [hfuel, hl, tndLoop_nil]
  simp only
  -- placement of the loaded cells
  let rows'' := (jrows p.pal (js0 p) p.rows).2
  obtain ⟨hl1, hl2⟩ := jrows_lengths p.pal p.rows (js0 p)
  have hrw : ∀ r ∈ rows'', r.length = p.w := by
    intro r hr
    obtain ⟨i, hi, rfl⟩ := List.getElem_of_mem hr
    have h2 := hl2 i
    have hi' : i < p.rows.length := by rw [← hl1]; exact hi
    have e1 : rows''.getD i [] = rows''[i] := by
      rw [List.getD_eq_getElem?_getD, List.getElem?_eq_getElem hi]; rfl
    have e2 : p.rows.getD i [] = p.rows[i] := by
      rw [List.getD_eq_getElem?_getD, List.getElem?_eq_getElem hi']; rfl
    rw [e1, e2] at h2
    rw [h2]
    exact hwid _ (List.getElem_mem hi')
  have hflat := jrows_flatten p.pal p.rows (js0 p)
  have hplace := placeAll_rows true false p.w hw1 rows'' b1 hrw (Nat.le_refl _) (Or.inl rfl)
  have hrne : rows'' ≠ [] := by
    intro he
    have : rows''.length = 0 := by rw [he]; rfl
    rw [hl1, hrows] at this
    unfold wellFormed at hwf
    simp only [Bool.and_eq_true, decide_eq_true_eq] at hwf
    omega
  have hb1l : b1.lines = [] := rfl
  rw [hb1l] at hplace
  simp only [List.length_nil, List.nil_append, hrne, ne_eq, not_false_eq_true, and_true, if_true, Bool.false_eq_true, false_and,
    if_false, hl1, hrows] at hplace
  unfold runResult
  simp only [hflat]
  have hbw : b1.bw = p.w := rfl
  rw [hbw, hplace]
  unfold tndLoaded withPal
  simp [b1, rows'', hl1, hrows]


theorem flatten_length_wf (w : Nat) : ∀ rows : List (List Cell), (∀ r ∈ rows, r.length = w) → rows.flatten.length = rows.length * w := by
  intro rows
  induction rows with
  | nil => intro _; simp
  | cons r rs ih =>
    intro h
    simp only [List.flatten_cons, List.length_append, List.length_cons, h r (by simp), ih (fun r' hr' => h r' (by simp [hr']))]
    rw [Nat.add_mul]; omega

theorem getD_mem' {α : Type} (l : List α) (i : Nat) (d : α) (h : i < l.length) : l.getD i d ∈ l := by
  rw [List.getD_eq_getElem?_getD, List.getElem?_eq_getElem h]
  exact List.getElem_mem _

theorem isVisible_flags0 (c : Cell) (h : c.attr.flags = 0) : isVisible c = true := by
  unfold isVisible; rw [h]; decide

theorem tnd_same (p : Pic) (m : Option Sauce.Meta) (hwf : wellFormed p = true) (hice : p.ice = .ice) (hpages : analyzeFontUsage p.rows.flatten = [0])
    (hsize : p.w * p.h < 1073741824)
    (hcells : ∀ r ∈ p.rows, ∀ c ∈ r, c.ch ≤ 255 ∧ isVisible c = true ∧ isBlink c.attr = false ∧ c.attr.fg < 2147483648 ∧ c.attr.bg < 2147483648) :
    SamePicture .tnd p (tndLoaded p m) := by
  obtain ⟨hne, hrows, hwid⟩ := rows_nonempty p hwf
  obtain ⟨hl1, hl2⟩ := jrows_lengths p.pal p.rows (js0 p)
  obtain ⟨_, _, hgood, hlen⟩ := jrows_good p.pal p.rows (js0 p) (js0_inv p)
  have hpl : (jrows p.pal (js0 p) p.rows).1.lpal.length < 2147483648 := by
    have h1 : (js0 p).lpal.length = 1 := rfl
    rw [h1, flatten_length_wf p.w p.rows hwid, hrows] at hlen
    have : p.h * p.w = p.w * p.h := Nat.mul_comm _ _
    omega
  refine ⟨rfl, rfl, ?_, ?_, ?_, ?_, ?_⟩
  · show ((((jrows p.pal (js0 p) p.rows).2.map (partRow p.w)).length : Nat) : Int) ≤ (p.h : Int)
    simp [hl1, hrows]
  · show isIce IceMode.ice = isIce p.ice
    rw [hice]
  · intro y x hy hx
    obtain ⟨hrl, hyr⟩ := row_length_of_wf p hwf y hy
    have hy'' : y < (jrows p.pal (js0 p) p.rows).2.length := by rw [hl1]; exact hyr
    have hx'' : x < ((jrows p.pal (js0 p) p.rows).2.getD y []).length := by rw [hl2 y, hrl]; exact hx
    have hg := allGood2_get p.pal _ p.rows _ y x hgood hyr (by rw [hrl]; exact hx)
    obtain ⟨g1, g2, g3, g4, g5, g6, g7⟩ := hg
    have hcell : (tndLoaded p m).getCell x y = ((jrows p.pal (js0 p) p.rows).2.getD y []).getD x Cell.invisible := by
      unfold LBuf.getCell
      have h1 : x < (tndLoaded p m).lw ∧ (y : Int) < (tndLoaded p m).lh := ⟨hx, by show (y : Int) < (p.h : Int); omega⟩
      simp only [h1, and_self, if_true]
      show (let c := (((jrows p.pal (js0 p) p.rows).2.map (partRow p.w)).getD y []).getD x Cell.invisible
            if isVisible c = true then c else Cell.dflt) = _
      rw [getD_map_partRow _ _ _ hy'', getD_partRow _ _ _ hx'']
      simp only [isVisible_flags0 _ g2, if_true]
    rw [hcell]
    have hsrc : p.cell x y ∈ p.rows.getD y [] := getD_mem' _ _ _ (by rw [hrl]; exact hx)
    have hrmem : p.rows.getD y [] ∈ p.rows := getD_mem' _ _ _ hyr
    obtain ⟨_, _, hnb, _, _⟩ := hcells _ hrmem _ hsrc
    have hp0 := page_zero p.rows hpages _ hrmem _ hsrc
    generalize hd : ((jrows p.pal (js0 p) p.rows).2.getD y []).getD x Cell.invisible = d at g1 g2 g3 g4 g5 g6 g7
    refine ⟨?_, by rw [g3, hp0]⟩
    unfold cellSame
    have hnbold : isBold d.attr = false := by unfold isBold; rw [g2]; decide
    have hnblink : isBlink d.attr = false := by unfold isBlink; rw [g2]; decide
    have hfg : dispFg (tndLoaded p m).pal d = dispFg p.pal (p.cell x y) := by
      unfold dispFg
      simp only [hnbold, Bool.false_eq_true, false_and, if_false]
      show getRgb (jrows p.pal (js0 p) p.rows).1.lpal d.attr.fg = _
      have : ¬ (d.attr.fg ≥ 2147483648) := by omega
      unfold getRgb
      simp only [this, if_false]
      rw [g6]
      rfl
    have hbg : dispBg (tndLoaded p m).pal d = dispBg p.pal (p.cell x y) := by
      unfold dispBg
      show getRgb (jrows p.pal (js0 p) p.rows).1.lpal d.attr.bg = _
      have : ¬ (d.attr.bg ≥ 2147483648) := by omega
      conv => lhs; unfold getRgb
      simp only [this, if_false]
      rw [g7]
      rfl
    have g1' : d.ch = (p.cell x y).ch := g1
    simp only [g1', hfg, hbg, hnblink, hnb, beq_self_eq_true, Bool.and_self]
  · intro h; exact absurd h (by decide)
  · intro h; exact absurd h (by decide)

/-- Tundra: every representable picture is written, and — unless it was saved without a SAUCE record and its tail reads as
    one — loaded back as the same picture (any width the SAUCE record can hold) -/
theorem tnd_roundtrip (o : Opts) (date : List Nat) (p : Pic) (hrep : Representable .tnd o p = true) (hdate : dateOk date = true) :
    ∃ bytes, save .tnd o date p = .ok bytes ∧
      ((o.sauce = true ∨ tailReadsAsSauce bytes = false) → ∃ g, fromBytes .tnd bytes = .ok g ∧ SamePicture .tnd p g) := by
  unfold Representable at hrep
  simp only [Bool.and_eq_true, beq_iff_eq, decide_eq_true_eq, Bool.or_eq_true, Bool.not_eq_true'] at hrep
  obtain ⟨⟨hmeta, hwf⟩, ⟨⟨⟨⟨⟨hwidth, hsize⟩, hice⟩, hpages⟩, hfont⟩, hcells⟩⟩ := hrep
  obtain ⟨hne, hrows, hwid⟩ := rows_nonempty p hwf
  have hcc := tnd_cells_cond p hcells
  have hw1 : 1 ≤ p.w := by
    rcases hwidth with h | h
    · omega
    · exact h.1.2
  have hvis : ∀ c ∈ p.rows.flatten, isVisible c = true ∧ c.ch ≤ 255 := by
    intro c hc
    obtain ⟨r, hr, hcr⟩ := List.mem_flatten.mp hc
    obtain ⟨h1, h2, _⟩ := hcc r hr c hcr
    exact ⟨h2, h1⟩
  -- writer and loader in lock step, for any loader start state of the right shape
  have hrun : ∀ (sl : TL) (F : Nat), sl.buf.pal = [(0, 0, 0)] → sl.fg = Xb.defaultFg → sl.bg = Xb.defaultBg → sl.x = 0 → sl.y = 0 → 1 ≤ sl.buf.bw →
      ∃ bytes, tndCells p.pal ⟨[BinFmt.tndVersion] ++ BinFmt.tndHeader, fromU8' p.ice 0, true, none⟩ 0 p.rows.flatten =
          some { out := ([BinFmt.tndVersion] ++ BinFmt.tndHeader) ++ bytes, attr := (jrow p.pal (js0 p) p.rows.flatten).1.wattr,
                 first := (jrow p.pal (js0 p) p.rows.flatten).1.first, skip := none } ∧
        tndLoop (F + p.rows.flatten.length) (bytes ++ []) sl = tndLoop F [] (runResult p.pal (js0 p) sl 0 0 p.rows.flatten) ∧
        p.rows.flatten.length ≤ bytes.length := by
    intro sl F h1 h2 h3 h4 h5 h6
    exact tnd_run p.pal p.rows.flatten (js0 p) ⟨[BinFmt.tndVersion] ++ BinFmt.tndHeader, fromU8' p.ice 0, true, none⟩ sl 0 0 0 F []
      rfl rfl rfl h1 h2 h3 h4 h5 h6 hvis
  -- fix the bytes once
  obtain ⟨bytes, hwr, _, hlen⟩ := hrun ⟨{ bw := 1, bh := 0, lw := 1, lh := 0, lines := [], ice := .ice, pal := [(0, 0, 0)], fonts := [] },
    Xb.defaultFg, Xb.defaultBg, 0, 0⟩ 0 rfl rfl rfl rfl rfl (Nat.le_refl _)
  have hrun' : ∀ (sl : TL) (F : Nat), sl.buf.pal = [(0, 0, 0)] → sl.fg = Xb.defaultFg → sl.bg = Xb.defaultBg → sl.x = 0 → sl.y = 0 → 1 ≤ sl.buf.bw →
      tndLoop (F + p.rows.flatten.length) (bytes ++ []) sl = tndLoop F [] (runResult p.pal (js0 p) sl 0 0 p.rows.flatten) := by
    intro sl F h1 h2 h3 h4 h5 h6
    obtain ⟨bytes2, hwr2, hl2, _⟩ := hrun sl F h1 h2 h3 h4 h5 h6
    have : bytes2 = bytes := by
      rw [hwr] at hwr2
      have := congrArg TW.out (Option.some.inj hwr2)
      simp only at this
      exact (List.append_cancel_left this).symm
    rw [← this]; exact hl2
  let body := ([BinFmt.tndVersion] ++ BinFmt.tndHeader) ++ bytes
  have hsave0 : tndSave o.sauce date p = if o.sauce then writeSauce .tundra p date body else .ok body := by
    unfold tndSave
    have h4 : ¬ ((analyzeFontUsage p.rows.flatten).length > 1) := by rw [hpages]; decide
    simp only [h4, if_false, hwr, List.append_nil]
    rfl
  have hsame := fun m => tnd_same p m hwf hice hpages hsize hcc
  have hvis2 : ∀ r ∈ p.rows, ∀ c ∈ r, c.ch ≤ 255 ∧ isVisible c = true := fun r hr c hc => ⟨(hcc r hr c hc).1, (hcc r hr c hc).2.1⟩
  cases hsa : o.sauce with
  | true =>
    have hf0 : ∃ f0, lookupFont p.fonts 0 = some f0 := by
      rcases hfont with h | h
      · rw [hsa] at h; exact absurd h (by decide)
      · exact Option.isSome_iff_exists.mp h
    obtain ⟨f0, hf0⟩ := hf0
    have hw65 : p.w ≤ 65535 := by
      rcases hwidth with h | h
      · omega
      · exact h.2
    obtain ⟨fbytes, hw, _, hfb⟩ := fromBytes_sauced .tnd .tundra p date body f0 hf0 hmeta (fun h => by cases h) hdate
    obtain ⟨c1, _, _, c4⟩ := carry_tundra p f0.name (fbytes.length - body.length) (by omega)
    generalize Sauce.carry SauceKind.tundra.idx (bufInfo p f0.name) (fbytes.length - body.length) = sc at hfb c1 c4
    refine ⟨fbytes, ?_, fun _ => ⟨tndLoaded p (some (metaOf sc)), ?_, hsame _⟩⟩
    · show tndSave o.sauce date p = _
      rw [hsave0, hsa]; exact hw
    · rw [hfb]
      exact tnd_load p (some sc) bytes hwf hw1 (Or.inr ⟨sc, rfl, c1, c4⟩) hvis2 hwr hrun' hlen
  | false =>
    have hw80 : p.w = 80 := by
      rcases hwidth with h | h
      · exact h
      · rw [hsa] at h; exact absurd h.1.1 (by decide)
    refine ⟨body, ?_, fun hor => ?_⟩
    · show tndSave o.sauce date p = _
      rw [hsave0, hsa]; rfl
    · have hl : tailReadsAsSauce body = false := by
        rcases hor with h | h
        · exact absurd h (by simp)
        · exact h
      refine ⟨tndLoaded p none, ?_, hsame _⟩
      rw [fromBytes_plain' .tnd body hl]
      exact tnd_load p none bytes hwf hw1 (Or.inl ⟨rfl, hw80⟩) hvis2 hwr hrun' hlen

end IcyVerif.BinFormats
