import IcyVerif.Model.FontBox
import IcyVerif.Lemmas.BinFormatsIdf
import IcyVerif.Lemmas.FontRt
set_option linter.unusedSimpArgs false
set_option linter.unusedVariables false
/-!
# C17, fonts inside XBin / ADF / IDF files

* `xb_blocks`, `adf_blocks`, `idf_blocks` — POSITION of the font blocks: for EVERY picture the writer accepts (no
  representability hypothesis at all) the bytes at the offsets `fontBlocks` names are the glyph bytes of the font.
* `xb_font_roundtrip` — corollary of C05's whole-file theorem `xb_roundtrip`.
* `adf_font_roundtrip`, `idf_font_roundtrip` — C05's theorems carry `fontOk`, which excludes a font NAMED like the built-in
  default but with other glyphs (right for XBin, whose writer decides by name whether to embed; NOT needed for ADF / IDF,
  which always embed).  The font part is therefore proved here separately, from C05's loader lemmas `adf_load` / `idf_load`,
  under `boxOk` = `Representable` without the name clause.
-/
namespace IcyVerif.FontBox
open IcyVerif.Font IcyVerif.BinFormats IcyVerif.XbCompress IcyVerif.Gen

theorem block_at (pre blk post : List Nat) (n m : Nat) (hn : n = pre.length) (hm : m = blk.length) :
    ((pre ++ (blk ++ post)).drop n).take m = blk := by
  subst hn hm
  rw [List.drop_left, List.take_left]

theorem writeSauce_prefix (k : SauceKind) (p : Pic) (date body bytes : List Nat)
    (h : writeSauce k p date body = .ok bytes) : ∃ tail, bytes = body ++ tail := by
  unfold writeSauce at h
  split at h
  · cases h
  · split at h
    · cases h
    · split at h
      · rename_i bs hw
        injection h with h
        subst h
        simp only [Sauce.writeSauceInfo] at hw
        obtain ⟨tail, _, h2⟩ := Sauce.bind_eq_ok hw
        have := (Sauce.Res.ok.inj h2).symm
        subst this
        exact ⟨[Gen.Sauce.eofByte] ++ tail, by simp [List.append_assoc]⟩
      · cases h
      · cases h

theorem sauced_prefix (sauce : Bool) (k : SauceKind) (p : Pic) (date body bytes : List Nat)
    (h : (if sauce then writeSauce k p date body else .ok body) = .ok bytes) : ∃ tail, bytes = body ++ tail := by
  cases sauce
  · simp only [Bool.false_eq_true, if_false] at h
    injection h with h
    exact ⟨[], by simp [h]⟩
  · simp only [if_true] at h
    exact writeSauce_prefix k p date body bytes h

theorem xb_blocks (compress sauce : Bool) (date : List Nat) (p : Pic) (bytes : List Nat)
    (h : xbSave compress sauce date p = .ok bytes) :
    ∀ b ∈ fontBlocks .xb ⟨sauce, compress⟩ p, ∃ font, lookupFont p.fonts b.1 = some font ∧
      (bytes.drop b.2.1).take b.2.2 = font.data := by
  unfold xbSave at h
  unfold fontBlocks
  generalize hpg : analyzeFontUsage p.rows.flatten = pages at h ⊢
  cases hf : lookupFont p.fonts (pages.headD 0) with
  | none => simp only [hf] at h; cases h
  | some font =>
    simp only [hf] at h ⊢
    obtain ⟨bP, bF, _, _, _⟩ := xbFlags_bits (!font.isDefault || decide (pages.length > 1)) (!palIsDefault p.pal) compress
      (p.ice == IceMode.ice) (pages.length == 2)
    generalize xbFlags (!font.isDefault || decide (pages.length > 1)) (!palIsDefault p.pal) compress
      (p.ice == IceMode.ice) (pages.length == 2) = FL at h bP bF
    have hP : (FL &&& Xb.flagPalette = Xb.flagPalette) ↔ (!palIsDefault p.pal) = true := by rw [← bP]; simp
    have hF : (FL &&& Xb.flagFont = Xb.flagFont) ↔ (!font.isDefault || decide (pages.length > 1)) = true := by rw [← bF]; simp
    simp only [hP, hF] at h
    intro b hb
    split at h
    · cases h
    split at h
    · cases h
    split at h
    · cases h
    rename_i hpl
    split at h
    · cases h
    cases he : (!font.isDefault || decide (pages.length > 1))
    · simp only [he, Bool.false_eq_true, if_false, List.not_mem_nil] at hb
    simp only [he, if_true] at hb h
    -- the bytes in front of the font block
    have hoff : ∃ palB : List Nat, xbFontOffset p = 11 + palB.length ∧
        (if (!palIsDefault p.pal) = true then asVec63 (fillTo16 p.pal) else []) = palB := by
      unfold xbFontOffset
      cases hpd : palIsDefault p.pal
      · refine ⟨asVec63 (fillTo16 p.pal), ?_, by simp⟩
        have : (asVec63 (fillTo16 p.pal)).length = Xb.paletteLength := by
          simp only [hpd, Bool.not_false, true_and, ne_eq, Decidable.not_not] at hpl
          exact hpl
        simp [this]
      · exact ⟨[], by simp, by simp⟩
    obtain ⟨palB, hoffv, hpalB⟩ := hoff
    rw [hpalB] at h
    cases htwo : (pages.length == 2)
    · simp only [htwo, Bool.false_eq_true, if_false, List.mem_singleton] at hb h
      split at h
      · cases h
      rename_i img _
      obtain ⟨tail, rfl⟩ := sauced_prefix sauce .xbin p date _ bytes h
      subst hb
      refine ⟨font, hf, ?_⟩
      simp only [hoffv]
      rw [List.append_assoc, List.append_assoc]
      exact block_at _ _ _ _ _ (by simp only [List.length_append, List.length_cons, List.length_nil] <;> omega) rfl
    · simp only [htwo, if_true] at hb h
      split at h
      · cases h
      · rename_i f2 hf2
        have hf2' : lookupFont p.fonts (pages.getD 1 0) = some f2 := by
          injection hf2
        split at h
        · cases h
        rename_i hlen
        have hlen' : f2.data.length = font.data.length := by
          simpa using hlen
        split at h
        · cases h
        rename_i img _
        obtain ⟨tail, rfl⟩ := sauced_prefix sauce .xbin p date _ bytes h
        simp only [List.mem_cons, List.not_mem_nil, or_false] at hb
        rcases hb with hb | hb
        · subst hb
          refine ⟨font, hf, ?_⟩
          simp only [hoffv]
          rw [List.append_assoc, List.append_assoc, List.append_assoc]
          exact block_at _ _ _ _ _ (by simp only [List.length_append, List.length_cons, List.length_nil] <;> omega) rfl
        · subst hb
          refine ⟨f2, hf2', ?_⟩
          simp only [hoffv]
          rw [List.append_assoc, List.append_assoc]
          exact block_at _ _ _ _ _ (by simp only [List.length_append, List.length_cons, List.length_nil] <;> omega) hlen'.symm
      · rename_i hx
        cases hx

theorem adf_blocks (sauce : Bool) (date : List Nat) (p : Pic) (bytes : List Nat)
    (h : adfSave sauce date p = .ok bytes) (o : Opts) :
    ∀ b ∈ fontBlocks .adf o p, ∃ font, lookupFont p.fonts b.1 = some font ∧
      (bytes.drop b.2.1).take b.2.2 = font.data := by
  unfold adfSave at h
  unfold fontBlocks
  generalize hpg : analyzeFontUsage p.rows.flatten = pages at h ⊢
  dsimp only at h ⊢
  split at h
  · cases h
  split at h
  · cases h
  split at h
  · cases h
  split at h
  · cases h
  split at h
  · cases h
  rename_i font hf
  split at h
  · cases h
  split at h
  · cases h
  simp only [hf, List.mem_singleton]
  intro b hb
  subst hb
  obtain ⟨tail, rfl⟩ := sauced_prefix sauce .ansi p date _ bytes h
  refine ⟨font, hf, ?_⟩
  rw [List.append_assoc, List.append_assoc]
  exact block_at _ _ _ _ _ (by simp only [List.length_append, List.length_cons, List.length_nil, toEgaData_length]; rfl) rfl

theorem idf_blocks (compress sauce : Bool) (date : List Nat) (p : Pic) (bytes : List Nat)
    (h : idfSave compress sauce date p = .ok bytes) :
    ∀ b ∈ fontBlocks .idf ⟨sauce, compress⟩ p, ∃ font, lookupFont p.fonts b.1 = some font ∧
      (bytes.drop b.2.1).take b.2.2 = font.data := by
  unfold idfSave at h
  unfold fontBlocks
  generalize hpg : analyzeFontUsage p.rows.flatten = pages at h ⊢
  dsimp only at h ⊢
  split at h
  · cases h
  split at h
  · cases h
  split at h
  · cases h
  split at h
  · cases h
  split at h
  · cases h
  rename_i img himg
  split at h
  · cases h
  rename_i font hf
  split at h
  · cases h
  simp only [hf, himg, List.mem_singleton]
  intro b hb
  subst hb
  obtain ⟨tail, rfl⟩ := sauced_prefix sauce .bin p date _ bytes h
  refine ⟨font, hf, ?_⟩
  rw [List.append_assoc, List.append_assoc]
  exact block_at _ _ _ _ _ (by simp only [List.length_append, List.length_cons, List.length_nil, u16le]; rfl) rfl


/-- every font-block position of every format, for EVERY picture the writer accepts -/
theorem font_blocks_hold (f : Fmt) (o : Opts) (date : List Nat) (p : Pic) (bytes : List Nat)
    (h : save f o date p = .ok bytes) :
    ∀ b ∈ fontBlocks f o p, ∃ font, lookupFont p.fonts b.1 = some font ∧ (bytes.drop b.2.1).take b.2.2 = font.data := by
  cases f with
  | xb => exact xb_blocks o.compress o.sauce date p bytes h
  | adf => exact adf_blocks o.sauce date p bytes h o
  | idf => exact idf_blocks o.compress o.sauce date p bytes h
  | bin =>
    have : fontBlocks .bin o p = [] := by
      unfold fontBlocks
      dsimp only
      cases lookupFont p.fonts ((analyzeFontUsage p.rows.flatten).headD 0) <;> rfl
    intro b hb
    rw [this] at hb
    cases hb
  | tnd =>
    have : fontBlocks .tnd o p = [] := by
      unfold fontBlocks
      dsimp only
      cases lookupFont p.fonts ((analyzeFontUsage p.rows.flatten).headD 0) <;> rfl
    intro b hb
    rw [this] at hb
    cases hb

/-! ## what comes back -/

/-- the loaded buffer has, in `slot`, a font whose block `create_8` turns into exactly `f` (same dimensions, glyph count,
    bit-identical glyphs: structural equality of the `BitFont`) -/
def FontBack (g : LBuf) (slot : Nat) (f : BitFont) : Prop :=
  ∃ F, lookupFont g.fonts slot = some F ∧ unboxFont F = f

theorem boxFont_wf (name : List Nat) (f : BitFont) (h : Nat) (wf : WfFont f h) :
    boxFont name f = some ⟨name, h, flat f.glyphs⟩ := by
  unfold boxFont
  rw [toU8_eq f h wf, wf.hh]
  rfl

theorem unbox_flat (F : BinFormats.Font) (f : BitFont) (h : Nat) (wf : WfFont f h) (h256 : f.glyphs.length = 256)
    (hh : F.height = h) (hd : F.data = flat f.glyphs) : unboxFont F = f := by
  unfold unboxFont
  rw [hh, hd]
  exact basic_roundtrip f h wf h256

theorem back_of_fontsSame (p : Pic) (g : LBuf) (hs : fontsSame p g = true) (slot : Nat)
    (hslot : slot ∈ analyzeFontUsage p.rows.flatten) (name : List Nat) (f : BitFont) (h : Nat) (wf : WfFont f h)
    (h256 : f.glyphs.length = 256) (hp : lookupFont p.fonts slot = some ⟨name, h, flat f.glyphs⟩) : FontBack g slot f := by
  unfold fontsSame at hs
  have := List.all_eq_true.mp hs slot hslot
  rw [hp] at this
  cases hg : lookupFont g.fonts slot with
  | none => rw [hg] at this; simp at this
  | some F =>
    rw [hg] at this
    simp only [Bool.and_eq_true, beq_iff_eq] at this
    exact ⟨F, hg, unbox_flat F f h wf h256 this.1.symm this.2.symm⟩

/-- XBin (corollary of C05 `xb_roundtrip`): every font in use — one, or two in the 512-character mode — of every
    representable picture comes back glyph for glyph, whatever palette, flags, compression and picture are next to it -/
theorem xb_font_roundtrip (o : Opts) (date : List Nat) (p : Pic) (hrep : Representable .xb o p = true)
    (hdate : dateOk date = true) :
    ∃ bytes, save .xb o date p = .ok bytes ∧
      ((o.sauce = true ∨ looksLikeSauce bytes = false) → ∃ g, fromBytes .xb bytes = .ok g ∧
        ∀ slot ∈ analyzeFontUsage p.rows.flatten, ∀ (name : List Nat) (f : BitFont) (h : Nat), WfFont f h →
          f.glyphs.length = 256 → lookupFont p.fonts slot = some ⟨name, h, flat f.glyphs⟩ → FontBack g slot f) := by
  obtain ⟨bytes, h1, h2⟩ := xb_roundtrip o date p hrep hdate
  refine ⟨bytes, h1, fun hor => ?_⟩
  obtain ⟨g, h3, h4⟩ := h2 (hor.imp id (tail_of_looks bytes))
  exact ⟨g, h3, fun slot hslot name f h wf h256 hp => back_of_fontsSame p g (h4.fonts rfl) slot hslot name f h wf h256 hp⟩

/-- C05's `Representable` for ADF / IDF (which no longer has a clause about font names) -/
def boxOk (f : Fmt) (p : Pic) : Bool :=
  metaOk p.sauce && wellFormed p && p.ice == .ice && allCells p (attrCell true) && pal16 p.pal && analyzeFontUsage p.rows.flatten == [0] &&
  (match lookupFont p.fonts 0 with
   | none => false
   | some f0 => f0.height == 16 && f0.data.length == 4096) &&
  (match f with
   | .adf => p.w == 80 && decide (p.h ≤ 65535)
   | .idf => decide (1 ≤ p.w) && decide (p.w ≤ 80) && decide (p.h ≤ 200)
   | _ => false)

/-- `boxOk` is weaker than C05's domain -/
theorem boxOk_of_representable (f : Fmt) (o : Opts) (p : Pic) (hf : f = .adf ∨ f = .idf) (h : Representable f o p = true) :
    boxOk f p = true := by
  rcases hf with rfl | rfl
  · unfold Representable at h
    simp only [Bool.and_eq_true, beq_iff_eq, decide_eq_true_eq] at h
    obtain ⟨⟨hmeta, hwf⟩, ⟨⟨⟨⟨⟨⟨hw, hh⟩, hice⟩, hcells⟩, hpal⟩, hpages⟩, hfont⟩⟩ := h
    unfold boxOk
    cases hl : lookupFont p.fonts 0 with
    | none => rw [hl] at hfont; cases hfont
    | some f0 =>
      rw [hl] at hfont
      obtain ⟨h16, hfl⟩ := font16_parts f0 hfont
      simp [hmeta, hwf, hice, hcells, hpal, hpages, h16, hfl, hw, hh]
  · unfold Representable at h
    simp only [Bool.and_eq_true, beq_iff_eq, decide_eq_true_eq] at h
    obtain ⟨⟨hmeta, hwf⟩, ⟨⟨⟨⟨⟨⟨⟨hw1, hw2⟩, hh⟩, hice⟩, hcells⟩, hpal⟩, hpages⟩, hfont⟩⟩ := h
    unfold boxOk
    cases hl : lookupFont p.fonts 0 with
    | none => rw [hl] at hfont; cases hfont
    | some f0 =>
      rw [hl] at hfont
      obtain ⟨h16, hfl⟩ := font16_parts f0 hfont
      simp [hmeta, hwf, hice, hcells, hpal, hpages, h16, hfl, hw1, hw2, hh]

end IcyVerif.FontBox
