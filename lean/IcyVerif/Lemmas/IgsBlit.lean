import IcyVerif.Lemmas.IgsLine
set_option linter.unusedSimpArgs false
set_option linter.unusedVariables false
/-! Lemmas about the IGS `DrawExecutor` model, part 5: `blit_screen_to_screen` — total for corner coordinates within
±2^20, at most width x height cells copied. -/
namespace IcyVerif.IgsPaint

theorem getPixel_total (p : Paint) (hr : p.res < 3) (x y : Int) (hx : -2097152 ≤ x ∧ x ≤ 2097152) (hy : -1048576 - 400 ≤ y ∧ y ≤ 1048576 + 400) :
    ∃ v, getPixel p x y = .ok v := by
  obtain ⟨hw, _⟩ := resWH p hr
  unfold getPixel offsetOf
  have h1 : chk (y * resW p) = .ok (y * resW p) := by
    apply chk_of_range <;> simp only [i32Min, i32Max] <;> rcases hw with h | h <;> rw [h] <;> omega
  have h2 : chk (y * resW p + x) = .ok (y * resW p + x) := by
    apply chk_of_range <;> simp only [i32Min, i32Max] <;> rcases hw with h | h <;> rw [h] <;> omega
  simp only [bind, Res.bind, h1, h2]
  split <;> exact ⟨_, rfl⟩

theorem setPixel_total' (p : Paint) (hr : p.res < 3) (x y : Int) (c : Nat) (hx : -2097152 ≤ x ∧ x ≤ 2097152) (hy : -1048576 - 400 ≤ y ∧ y ≤ 1048576 + 400) :
    ∃ p', setPixel p x y c = .ok p' := by
  obtain ⟨hw, _⟩ := resWH p hr
  unfold setPixel offsetOf
  have h1 : chk (y * resW p) = .ok (y * resW p) := by
    apply chk_of_range <;> simp only [i32Min, i32Max] <;> rcases hw with h | h <;> rw [h] <;> omega
  have h2 : chk (y * resW p + x) = .ok (y * resW p + x) := by
    apply chk_of_range <;> simp only [i32Min, i32Max] <;> rcases hw with h | h <;> rw [h] <;> omega
  simp only [bind, Res.bind, h1, h2]
  split <;> exact ⟨_, rfl⟩

theorem blitSSRow_total (fx fy dx dy y : Int) (hfx : Bd fx) (hfy : Bd fy) (hdx : Bd dx) (hdy : Bd dy) (hy : 0 ≤ y ∧ y ≤ 400) :
    ∀ (n : Nat) (p : Paint) (x : Int), p.res < 3 → 0 ≤ x → x + n ≤ 640 → ∃ p', blitSSRow fx fy dx dy y n p x = .ok p' := by
  unfold Bd at hfx hfy hdx hdy
  intro n
  induction n with
  | zero => intro p x _ _ _; exact ⟨p, rfl⟩
  | succ k ih =>
    intro p x hr h0 h1
    unfold blitSSRow
    rw [chk_of_range (v := fx + x) (by simp only [i32Min]; omega) (by simp only [i32Max]; omega), ok_bind]
    rw [chk_of_range (v := fy + y) (by simp only [i32Min]; omega) (by simp only [i32Max]; omega), ok_bind]
    obtain ⟨c, hc⟩ := getPixel_total p hr (fx + x) (fy + y) (by omega) (by omega)
    rw [hc, ok_bind]
    rw [chk_of_range (v := dx + x) (by simp only [i32Min]; omega) (by simp only [i32Max]; omega), ok_bind]
    rw [chk_of_range (v := dy + y) (by simp only [i32Min]; omega) (by simp only [i32Max]; omega), ok_bind]
    obtain ⟨p1, h1'⟩ := setPixel_total' p hr (dx + x) (dy + y) c (by omega) (by omega)
    rw [h1', ok_bind]
    exact ih p1 (x + 1) (by rw [setPixel_res h1']; exact hr) (by omega) (by omega)

theorem blitSSRow_res (fx fy dx dy y : Int) : ∀ (n : Nat) (p p' : Paint) (x : Int), blitSSRow fx fy dx dy y n p x = .ok p' → p'.res = p.res := by
  intro n p p' x h
  obtain ⟨e, _⟩ := (blitSSRow_keeps fx fy dx dy y n p p' x h).1
  rw [e]

theorem blitSSRows_total (fx fy dx dy : Int) (cols : Nat) (hfx : Bd fx) (hfy : Bd fy) (hdx : Bd dx) (hdy : Bd dy) (hc : cols ≤ 640) :
    ∀ (n : Nat) (p : Paint) (y : Int), p.res < 3 → 0 ≤ y → y + n ≤ 400 → ∃ p', blitSSRows fx fy dx dy cols n p y = .ok p' := by
  intro n
  induction n with
  | zero => intro p y _ _ _; exact ⟨p, rfl⟩
  | succ k ih =>
    intro p y hr h0 h1
    obtain ⟨p1, h⟩ := blitSSRow_total fx fy dx dy y hfx hfy hdx hdy (by omega) cols p 0 hr (by omega) (by omega)
    unfold blitSSRows
    rw [h, ok_bind]
    exact ih p1 (y + 1) (by rw [blitSSRow_res _ _ _ _ _ _ _ _ _ h]; exact hr) (by omega) (by omega)

/-- cells copied by `blit_screen_to_screen`: (to - from) clipped to the resolution in both directions -/
def blitCost (p : Paint) (fx fy tx ty : Int) : Nat := (min (tx - fx) (resW p)).toNat * (min (ty - fy) (resH p)).toNat

theorem blitCost_le (p : Paint) (fx fy tx ty : Int) : blitCost p fx fy tx ty ≤ (resW p).toNat * (resH p).toNat := by
  unfold blitCost
  apply Nat.mul_le_mul <;> omega

theorem blitScreenToScreen_total (p : Paint) (hr : p.res < 3) (fx fy tx ty dx dy : Int)
    (hfx : Bd fx) (hfy : Bd fy) (htx : Bd tx) (hty : Bd ty) (hdx : Bd dx) (hdy : Bd dy) :
    ∃ p', blitScreenToScreen p fx fy tx ty dx dy = .ok p' := by
  obtain ⟨hw, hh⟩ := resWH p hr
  have b1 := hfx; have b2 := hfy; have b3 := htx; have b4 := hty
  unfold Bd at b1 b2 b3 b4
  unfold blitScreenToScreen
  rw [chk_of_range (v := tx - fx) (by simp only [i32Min]; omega) (by simp only [i32Max]; omega), ok_bind]
  rw [chk_of_range (v := ty - fy) (by simp only [i32Min]; omega) (by simp only [i32Max]; omega), ok_bind]
  apply blitSSRows_total fx fy dx dy _ hfx hfy hdx hdy ?_ _ p 0 hr (by omega) ?_
  · rcases hw with h | h <;> rw [h] <;> omega
  · rcases hh with h | h <;> rw [h] <;> omega

end IcyVerif.IgsPaint
