import IcyVerif.Lemmas.ArtPic
/-! # Generic simulation: a cell writer against a reader (C15)

If every cell the writer emits makes the reader print (the image of) that cell and keeps the writer-state /
reader-state relation `R`, and the end-of-row bytes make the reader do CR LF, then the bytes of the whole row loop
(`writeRows`) drive the reader's screen through exactly the screen program `picOps`. -/
set_option linter.unusedSimpArgs false
namespace IcyVerif.ArtIO

theorem mem_trimRow {r : List Cell} {c : Cell} (h : c ∈ trimRow r) : c ∈ r := by
  obtain ⟨t, e, _⟩ := trimRow_prefix r
  rw [e]; exact List.mem_append_left _ h

section
variable {σ ρ : Type} (emit : σ → Cell → Option (List Nat × σ)) (eol : List Nat) (stp : ρ → Nat → ρ)
  (scr : ρ → Screen) (img : Cell → Cell) (R : σ → ρ → Prop) (Dom : Cell → Prop)

theorem writeCells_sim
    (hcell : ∀ s r c, R s r → Dom c →
      ∃ b s', emit s c = some (b, s') ∧ R s' (b.foldl stp r) ∧ scr (b.foldl stp r) = (scr r).put (img c)) :
    ∀ (cells : List Cell) (s : σ) (r : ρ), R s r → (∀ c ∈ cells, Dom c) →
      ∃ b s', writeCells emit s cells = some (b, s') ∧ R s' (b.foldl stp r) ∧
        scr (b.foldl stp r) = (scr r).runOps (putOps (cells.map img)) := by
  intro cells
  induction cells with
  | nil => intro s r hR _; exact ⟨[], s, rfl, hR, rfl⟩
  | cons c cs ih =>
    intro s r hR hd
    obtain ⟨b, s1, e1, R1, sc1⟩ := hcell s r c hR (hd c List.mem_cons_self)
    obtain ⟨bs, s2, e2, R2, sc2⟩ := ih s1 (b.foldl stp r) R1 (fun c' h => hd c' (List.mem_cons_of_mem _ h))
    refine ⟨b ++ bs, s2, ?_, ?_, ?_⟩
    · simp [writeCells, e1, e2]
    · rw [List.foldl_append]; exact R2
    · rw [List.foldl_append, sc2, sc1]; rfl

theorem writeRows_sim (w : Nat)
    (hcell : ∀ s r c, R s r → Dom c →
      ∃ b s', emit s c = some (b, s') ∧ R s' (b.foldl stp r) ∧ scr (b.foldl stp r) = (scr r).put (img c))
    (heol : ∀ s r, R s r → R s (eol.foldl stp r) ∧ scr (eol.foldl stp r) = (scr r).exec Op.nl) :
    ∀ (rows : List (List Cell)) (s : σ) (r : ρ), R s r → (∀ row ∈ rows, ∀ c ∈ row, Dom c) →
      ∃ b, writeRows emit eol w s rows = some b ∧ (∃ s', R s' (b.foldl stp r)) ∧
        scr (b.foldl stp r) = (scr r).runOps (picOps trimRow img w rows) := by
  intro rows
  induction rows with
  | nil => intro s r hR _; exact ⟨[], rfl, ⟨s, hR⟩, rfl⟩
  | cons row rest ih =>
    intro s r hR hd
    have hdr : ∀ c ∈ trimRow row, Dom c := fun c h => hd row List.mem_cons_self c (mem_trimRow h)
    obtain ⟨b, s1, e1, R1, sc1⟩ := writeCells_sim emit stp scr img R Dom hcell (trimRow row) s r hR hdr
    by_cases hnl : (trimRow row).length < w ∧ (!rest.isEmpty) = true
    · obtain ⟨R2, sc2⟩ := heol s1 (b.foldl stp r) R1
      obtain ⟨bs, e3, R3, sc3⟩ := ih s1 (eol.foldl stp (b.foldl stp r)) R2 (fun q h => hd q (List.mem_cons_of_mem _ h))
      refine ⟨b ++ eol ++ bs, ?_, ?_, ?_⟩
      · simp only [writeRows, e1, e3]; rw [if_pos hnl]
      · rw [List.foldl_append, List.foldl_append]; exact R3
      · rw [List.foldl_append, List.foldl_append, sc3, sc2, sc1]
        show _ = (scr r).runOps (rowOps trimRow img w row (!rest.isEmpty) ++ picOps trimRow img w rest)
        unfold rowOps
        rw [if_pos hnl, runOps_append, runOps_append]; rfl
    · obtain ⟨bs, e3, R3, sc3⟩ := ih s1 (b.foldl stp r) R1 (fun q h => hd q (List.mem_cons_of_mem _ h))
      refine ⟨b ++ [] ++ bs, ?_, ?_, ?_⟩
      · simp only [writeRows, e1, e3]; rw [if_neg hnl]
      · rw [List.append_nil, List.foldl_append]; exact R3
      · rw [List.append_nil, List.foldl_append, sc3, sc1]
        show _ = (scr r).runOps (rowOps trimRow img w row (!rest.isEmpty) ++ picOps trimRow img w rest)
        unfold rowOps
        rw [if_neg hnl, runOps_append, runOps_append]; rfl
end

end IcyVerif.ArtIO
