import IcyVerif.Model.FontLoad
import IcyVerif.Lemmas.LoadersBase
set_option linter.unusedSimpArgs false
set_option linter.unusedVariables false
/-! `BitFont::from_bytes` never panics and its loops are bounded by the file length (C02 / C03). -/
namespace IcyVerif.FontLoad
open IcyVerif.Bytes IcyVerif.Bytes.Res IcyVerif.Gen.FontPal

theorem chkI64_sat {s : String} {v : Int} (h : -9223372036854775808 ≤ v ∧ v ≤ 9223372036854775807) :
    (chkI64 s v).Sat (fun w => w = v) := by
  simp only [chkI64, h, and_self, if_true, sat_ok]

theorem chkU64_sat {s : String} {v : Nat} (h : v < 18446744073709551616) : (chkU64 s v).Sat (fun w => w = v) := by
  simp only [chkU64, h, if_true, sat_ok]

/-- product of two `i32` values fits an `i64` with room to spare -/
theorem mul_i32_bound (a b : Int) (ha : -2147483648 ≤ a ∧ a ≤ 2147483647) (hb : -2147483648 ≤ b ∧ b ≤ 2147483647) :
    -4611686018427387904 ≤ a * b ∧ a * b ≤ 4611686018427387904 := by
  have h1 : a.natAbs ≤ 2147483648 := by omega
  have h2 : b.natAbs ≤ 2147483648 := by omega
  have h3 : a.natAbs * b.natAbs ≤ 2147483648 * 2147483648 := Nat.mul_le_mul h1 h2
  have h4 : (a * b).natAbs = a.natAbs * b.natAbs := Int.natAbs_mul a b
  omega

/-- with a glyph height of at least one byte the loop stops before the fuel runs out; it never slices out of range;
    `k` iterations consume `k * h` bytes -/
theorem glyphLoop_sat (h : Nat) (d : Bytes) (hh : 1 ≤ h) :
    ∀ (fuel o n : Nat), o ≤ d.size → d.size - o < fuel →
      (glyphLoop h d fuel o n).Sat (fun r => ∃ k, r = n + k ∧ k * h ≤ d.size - o) := by
  intro fuel
  induction fuel with
  | zero => intro o n _ hf; omega
  | succ fuel ih =>
    intro o n ho hf
    unfold glyphLoop
    split
    · rename_i hle
      apply Sat.bind (slice_sat (by omega)); intro _ _
      apply Sat.bind (slice_sat (by omega)); intro _ _
      apply Sat.mono (ih (o + h) (n + 1) (by omega) (by omega))
      intro r hr
      obtain ⟨k, hk, hb⟩ := hr
      refine ⟨k + 1, by omega, ?_⟩
      rw [Nat.succ_mul]; omega
    · exact ⟨0, by omega, by omega⟩

/-- a glyph height of 0 never consumes the data: whatever the fuel, the loop does not end -/
theorem glyphLoop_zero_diverges (d : Bytes) : ∀ (fuel o n : Nat), o ≤ d.size → glyphLoop 0 d fuel o n = .panic sDiverge := by
  intro fuel
  induction fuel with
  | zero => intro o n _; rfl
  | succ fuel ih =>
    intro o n ho
    unfold glyphLoop
    have h0 : 0 ≤ d.size - o := Nat.zero_le _
    have e1 : slice sGlyphs d o (o + 0) = .ok () := by
      have : o ≤ o + 0 ∧ o + 0 ≤ d.size := by omega
      simp only [slice, this, and_self, if_true]
    have e2 : slice sGlyphs d (o + 0) d.size = .ok () := by
      have : o + 0 ≤ d.size ∧ d.size ≤ d.size := by omega
      simp only [slice, this, and_self, if_true]
    rw [if_pos h0, e1, e2]
    show glyphLoop 0 d fuel (o + 0) (n + 1) = _
    exact ih (o + 0) (n + 1) (by omega)

/-- `glyphs_from_u8_data` with the zero-height guard: no panic, no divergence, at most one iteration per byte -/
theorem glyphsFrom_sat (hg : glyphZeroGuard = true) (h : Nat) (d : Bytes) (o : Nat) (ho : o ≤ d.size) :
    (glyphsFrom h d o).Sat (fun r => r * h ≤ d.size - o ∧ r ≤ d.size - o) := by
  unfold glyphsFrom
  rw [hg]
  by_cases h0 : h = 0
  · subst h0; simp
  · have hb : (true && h == 0) = false := by simp [h0]
    rw [hb]
    simp only [Bool.false_eq_true, if_false]
    apply Sat.mono (glyphLoop_sat h d (by omega) _ o 0 ho (by omega))
    intro r hr
    obtain ⟨k, hk, hb⟩ := hr
    have hk' : r = k := by omega
    subst hk'
    refine ⟨hb, ?_⟩
    have : r * 1 ≤ r * h := Nat.mul_le_mul_left r (by omega)
    omega

/-- without the guard (flag regenerated as `false`) a height of 0 is a non-terminating loop -/
theorem glyphsFrom_needs_guard (hg : glyphZeroGuard = false) (d : Bytes) (o : Nat) (ho : o ≤ d.size) :
    glyphsFrom 0 d o = .panic sDiverge := by
  unfold glyphsFrom
  rw [hg]
  simp only [Bool.false_and, Bool.false_eq_true, if_false]
  exact glyphLoop_zero_diverges d _ o 0 ho

/-- bound on the two loop counters of a loaded font, in terms of the file length only -/
def CostOk (d : Bytes) (f : Font) : Prop := f.iters ≤ d.size ∧ f.cksum ≤ max 512 d.size

theorem loadPsf1_sat (hg : glyphZeroGuard = true) (d : Bytes) (hd : 4 ≤ d.size) : (loadPsf1 d).Sat (CostOk d) := by
  unfold loadPsf1
  apply Sat.bind (rd_sat (by omega)); intro mode _
  apply Sat.bind (rd_sat (by omega)); intro charsize _
  apply Sat.bind (slice_sat (by omega)); intro _ _
  apply Sat.bind (glyphsFrom_sat hg charsize d 4 (by omega)); intro n hn
  simp only [sat_pure, CostOk, mkFont, cksumIters]
  constructor
  · omega
  · split <;> simp <;> omega

theorem loadPlain_sat (hg : glyphZeroGuard = true) (d : Bytes) : (loadPlain d).Sat (CostOk d) := by
  unfold loadPlain
  split
  · trivial
  · apply Sat.bind (glyphsFrom_sat hg _ d 0 (by omega)); intro n hn
    simp only [sat_pure, CostOk, mkFont, cksumIters]
    constructor
    · omega
    · simp; omega

theorem loadPsf2_sat (hg : glyphZeroGuard = true) (d : Bytes) : (loadPsf2 d).Sat (CostOk d) := by
  unfold loadPsf2
  split
  · trivial
  · rename_i hlen
    have h32 : 32 ≤ d.size := by
      have : psf2HeaderLen = 32 := rfl
      omega
    apply Sat.bind (rdU32_sat (by omega)); intro version _
    split
    · trivial
    · apply Sat.bind (rdU32_sat (by omega)); intro hs hhs
      apply Sat.bind (rdU32_sat (by omega)); intro len _
      apply Sat.bind (rdU32_sat (by omega)); intro cs _
      apply Sat.bind (rdU32_sat (by omega)); intro height hheight
      apply Sat.bind (rdU32_sat (by omega)); intro width hwidth
      have hb := mul_i32_bound (asI32 len) (asI32 cs) (asI32_range len) (asI32_range cs)
      apply Sat.bind (chkI64_sat (by omega)); intro prod hprod
      apply Sat.bind (chkI64_sat (by omega)); intro expected hexp
      apply Sat.bind (chkU64_sat (by omega)); intro w7 hw7
      have hrb : height * (w7 / 8) < 18446744073709551616 := by
        have h1 : w7 / 8 ≤ 536870912 := by omega
        have h2 : height * (w7 / 8) ≤ 4294967296 * 536870912 := Nat.mul_le_mul (by omega) h1
        omega
      apply Sat.bind (chkU64_sat hrb); intro rowBytes _
      split
      · trivial
      · rename_i hc
        have hl : ¬ asI32 len < 0 := fun h => hc (Or.inl h)
        have hcs : ¬ asI32 cs ≤ 0 := fun h => hc (Or.inr (Or.inl h))
        have hex : expected = (d.size : Int) := by
          apply Classical.byContradiction
          intro h; exact hc (Or.inr (Or.inr (Or.inl h)))
        subst hprod; subst hexp
        have hge : asI32 len * 1 ≤ asI32 len * asI32 cs := Int.mul_le_mul_of_nonneg_left (by omega) (by omega)
        have hnn : 0 ≤ asI32 len * asI32 cs := Int.mul_nonneg (by omega) (by omega)
        apply Sat.bind (slice_sat (by omega)); intro _ _
        apply Sat.bind (glyphsFrom_sat hg height d hs (by omega)); intro n hn
        simp only [sat_pure, CostOk, mkFont, cksumIters]
        constructor
        · omega
        · omega

theorem fontFromBytes_sat (hg : glyphZeroGuard = true) (d : Bytes) : (fontFromBytes d).Sat (CostOk d) := by
  unfold fontFromBytes
  split
  · trivial
  · rename_i hlen
    have h4 : 4 ≤ d.size := by
      have : fontMinLen = 4 := rfl
      omega
    apply Sat.bind (rdU16s_sat (by omega)); intro m16 _
    split
    · apply Sat.bind (rd_sat (by omega)); intro cs _
      split
      · trivial
      · exact loadPsf1_sat hg d h4
    · apply Sat.bind (rdU32_sat (by omega)); intro m32 _
      split
      · exact loadPsf2_sat hg d
      · exact loadPlain_sat hg d


/-! ## no accepted font has a zero dimension -/
theorem asI32_ne_zero {x : Nat} (h1 : 1 ≤ x) (h2 : x < 4294967296) : asI32 x ≠ 0 := by
  unfold asI32
  have : x % 4294967296 = x := Nat.mod_eq_of_lt h2
  simp only [this]
  split <;> omega

def SizeOk (f : Font) : Prop := f.w ≠ 0 ∧ f.h ≠ 0

theorem loadPsf1_size (hg : glyphZeroGuard = true) (d : Bytes) (hd : 4 ≤ d.size) (hcs : byteAt d 3 ≠ 0) : (loadPsf1 d).Sat SizeOk := by
  unfold loadPsf1
  apply Sat.bind (rd_sat (by omega)); intro mode _
  apply Sat.bind (rd_sat_eq (by omega)); intro charsize hc
  apply Sat.bind (slice_sat (by omega)); intro _ _
  apply Sat.bind (glyphsFrom_sat hg charsize d 4 (by omega)); intro n hn
  simp only [sat_pure, SizeOk, mkFont]
  subst hc
  constructor <;> omega

theorem loadPlain_size (hg : glyphZeroGuard = true) (d : Bytes) (h4 : 4 ≤ d.size) (hbig : d.size < 1099511627776) : (loadPlain d).Sat SizeOk := by
  unfold loadPlain
  have hp : plainGlyphs = 256 := rfl
  split
  · trivial
  · rename_i hm
    apply Sat.bind (glyphsFrom_sat hg _ d 0 (by omega)); intro n hn
    simp only [sat_pure, SizeOk, mkFont]
    refine ⟨by omega, asI32_ne_zero ?_ ?_⟩
    · rw [hp] at hm ⊢; omega
    · rw [hp]; omega

theorem loadPsf2_size (hg : glyphZeroGuard = true) (d : Bytes) : (loadPsf2 d).Sat SizeOk := by
  unfold loadPsf2
  split
  · trivial
  · rename_i hlen
    have h32 : 32 ≤ d.size := by
      have : psf2HeaderLen = 32 := rfl
      omega
    apply Sat.bind (rdU32_sat (by omega)); intro version _
    split
    · trivial
    · apply Sat.bind (rdU32_sat (by omega)); intro hs hhs
      apply Sat.bind (rdU32_sat (by omega)); intro len _
      apply Sat.bind (rdU32_sat (by omega)); intro cs _
      apply Sat.bind (rdU32_sat (by omega)); intro height hheight
      apply Sat.bind (rdU32_sat (by omega)); intro width hwidth
      have hb := mul_i32_bound (asI32 len) (asI32 cs) (asI32_range len) (asI32_range cs)
      apply Sat.bind (chkI64_sat (by omega)); intro prod hprod
      apply Sat.bind (chkI64_sat (by omega)); intro expected hexp
      apply Sat.bind (chkU64_sat (by omega)); intro w7 hw7
      have hrb : height * (w7 / 8) < 18446744073709551616 := by
        have h1 : w7 / 8 ≤ 536870912 := by omega
        have h2 : height * (w7 / 8) ≤ 4294967296 * 536870912 := Nat.mul_le_mul (by omega) h1
        omega
      apply Sat.bind (chkU64_sat hrb); intro rowBytes hrow
      split
      · trivial
      · rename_i hc
        have hl : ¬ asI32 len < 0 := fun h => hc (Or.inl h)
        have hcs : ¬ asI32 cs ≤ 0 := fun h => hc (Or.inr (Or.inl h))
        have hex : expected = (d.size : Int) := by
          apply Classical.byContradiction
          intro h; exact hc (Or.inr (Or.inr (Or.inl h)))
        have hrw : asI32 cs = (rowBytes : Int) := by
          apply Classical.byContradiction
          intro h; exact hc (Or.inr (Or.inr (Or.inr h)))
        subst hprod; subst hexp; subst hrow; subst hw7
        -- charsize = height * ((width + 7) / 8) > 0: neither factor is 0
        have hpos : 0 < height * ((width + 7) / 8) := by omega
        have hh1 : 1 ≤ height := by
          rcases Nat.eq_zero_or_pos height with h0 | h0
          · rw [h0] at hpos; simp at hpos
          · exact h0
        have hw1 : 1 ≤ width := by
          rcases Nat.eq_zero_or_pos width with h0 | h0
          · rw [h0] at hpos; simp at hpos
          · exact h0
        have hge : asI32 len * 1 ≤ asI32 len * asI32 cs := Int.mul_le_mul_of_nonneg_left (by omega) (by omega)
        have hnn : 0 ≤ asI32 len * asI32 cs := Int.mul_nonneg (by omega) (by omega)
        apply Sat.bind (slice_sat (by omega)); intro _ _
        apply Sat.bind (glyphsFrom_sat hg height d hs (by omega)); intro n hn
        simp only [sat_pure, SizeOk, mkFont]
        exact ⟨asI32_ne_zero hw1 hwidth, asI32_ne_zero hh1 hheight⟩

theorem fontFromBytes_sizeSat (hg : glyphZeroGuard = true) (hz : psf1ZeroRejected = true) (d : Bytes) (hbig : d.size < 1099511627776) :
    (fontFromBytes d).Sat SizeOk := by
  unfold fontFromBytes
  split
  · trivial
  · rename_i hlen
    have h4 : 4 ≤ d.size := by
      have : fontMinLen = 4 := rfl
      omega
    apply Sat.bind (rdU16s_sat (by omega)); intro m16 _
    split
    · apply Sat.bind (rd_sat_eq (by omega)); intro cs hcs
      rw [hz]
      by_cases h0 : cs = 0
      · simp only [h0, Bool.true_and, beq_self_eq_true, if_true]; trivial
      · have : (cs == 0) = false := by simpa using h0
        simp only [this, Bool.and_false, Bool.false_eq_true, if_false]
        exact loadPsf1_size hg d h4 (by rw [← hcs]; exact h0)
    · apply Sat.bind (rdU32_sat (by omega)); intro m32 _
      split
      · exact loadPsf2_size hg d
      · exact loadPlain_size hg d h4 hbig

theorem fontFromBytes_size (hg : glyphZeroGuard = true) (hz : psf1ZeroRejected = true) (d : Bytes) (hbig : d.size < 1099511627776)
    (f : Font) (h : fontFromBytes d = .ok f) : f.w ≠ 0 ∧ f.h ≠ 0 := by
  have := fontFromBytes_sizeSat hg hz d hbig
  rw [h] at this
  exact this

end IcyVerif.FontLoad
