import IcyVerif.Model.RowsOther
import IcyVerif.Lemmas.TermPrim
set_option linter.unusedSimpArgs false
set_option linter.unusedVariables false
/-! # Totality of the content operations of `Model/Rows` under their explicit preconditions
For ALL row tables (`rows : List Nat` is never constrained: any ragged shape, any number of rows including none and
more than the screen height).  Every lemma states the precondition of the operation it is about; what the operations
keep is the layer width (`lw`, which `Line::create` / `Line::with_capacity` need non-negative). -/
namespace IcyVerif.Rows
open IcyVerif.Term

/-- the operation does not panic and its result satisfies `P` -/
def Ok {α : Type} (r : RRes α) (P : α → Prop) : Prop :=
  match r with
  | .ok a => P a
  | .error _ => False

@[simp] theorem ok_ok {α : Type} (a : α) (P : α → Prop) : Ok (.ok a : RRes α) P = P a := rfl
@[simp] theorem ok_error {α : Type} (e : String) (P : α → Prop) : Ok (.error e : RRes α) P = False := rfl

theorem ok_mono {α : Type} {r : RRes α} {P Q : α → Prop} (h : Ok r P) (hpq : ∀ a, P a → Q a) : Ok r Q := by
  cases r with
  | ok a => exact hpq a h
  | error e => exact h

theorem ok_andThen {α β : Type} {r : RRes α} {f : α → RRes β} {P : α → Prop} {Q : β → Prop}
    (h : Ok r P) (hf : ∀ a, P a → Ok (f a) Q) : Ok (andThen r f) Q := by
  cases r with
  | ok a => exact hf a h
  | error e => exact h.elim

theorem ok_ite {α : Type} {c : Prop} [Decidable c] {a b : RRes α} {P : α → Prop}
    (ha : c → Ok a P) (hb : ¬ c → Ok b P) : Ok (if c then a else b) P := by
  by_cases h : c
  · rw [if_pos h]; exact ha h
  · rw [if_neg h]; exact hb h

theorem ok_exists {α : Type} {r : RRes α} {P : α → Prop} (h : Ok r P) : ∃ a, r = .ok a ∧ P a := by
  cases r with
  | ok a => exact ⟨a, rfl, h⟩
  | error e => exact h.elim

/-! ## loops -/
theorem loopFrom_ok {σ : Type} (f : Int → σ → RRes σ) (P : σ → Prop) (lo : Int)
    (hf : ∀ i s, lo ≤ i → P s → Ok (f i s) P) :
    ∀ (n : Nat) (i : Int) (s : σ), lo ≤ i → P s → Ok (loopFrom f n i s) P := by
  intro n
  induction n with
  | zero => intro i s _ hs; exact hs
  | succ n ih =>
    intro i s hi hs
    unfold loopFrom
    have h1 := hf i s hi hs
    cases hfi : f i s with
    | error e => rw [hfi] at h1; exact h1.elim
    | ok s' => rw [hfi] at h1; exact ih (i + 1) s' (by omega) h1

theorem loopDown_ok {σ : Type} (f : Int → σ → RRes σ) (P : σ → Prop)
    (hf : ∀ i s, P s → Ok (f i s) P) :
    ∀ (n : Nat) (i : Int) (s : σ), P s → Ok (loopDown f n i s) P := by
  intro n
  induction n with
  | zero => intro i s hs; exact hs
  | succ n ih =>
    intro i s hs
    unfold loopDown
    have h1 := hf i s hs
    cases hfi : f i s with
    | error e => rw [hfi] at h1; exact h1.elim
    | ok s' => rw [hfi] at h1; exact ih (i - 1) s' h1

theorem forRange_ok {σ : Type} (lo hi : Int) (f : Int → σ → RRes σ) (P : σ → Prop) (s : σ)
    (hf : ∀ i s, lo ≤ i → P s → Ok (f i s) P) (hs : P s) : Ok (forRange lo hi f s) P :=
  loopFrom_ok f P lo hf _ lo s (Int.le_refl _) hs

theorem forRangeRev_ok {σ : Type} (lo hi : Int) (f : Int → σ → RRes σ) (P : σ → Prop) (s : σ)
    (hf : ∀ i s, P s → Ok (f i s) P) (hs : P s) : Ok (forRangeRev lo hi f s) P :=
  loopDown_ok f P hf _ _ s hs

theorem times_ok {σ : Type} (n : Int) (f : σ → RRes σ) (P : σ → Prop) (s : σ)
    (hf : ∀ s, P s → Ok (f s) P) (hs : P s) : Ok (times n f s) P :=
  loopFrom_ok (fun _ => f) P 0 (fun _ s _ h => hf s h) _ 0 s (Int.le_refl _) hs

/-! ## rows -/
theorem lineSetChar_ok (n : Nat) (i : Int) (hi : 0 ≤ i) : Ok (lineSetChar n i) (fun _ => True) := by
  unfold lineSetChar
  simp only []
  apply ok_ite
  · intro h
    split at h <;> omega
  · intro _; trivial

theorem lineInsertChar_ok (n : Nat) (i : Int) (hi : 0 ≤ i) : Ok (lineInsertChar n i) (fun n' => (i : Int) < n' ∧ n < n') := by
  unfold lineInsertChar lenInsert
  simp only []
  apply ok_ite
  · intro h
    split at h <;> omega
  · intro _
    simp only [ok_ok]
    split <;> omega

/-- the invariant every operation keeps: the layer width -/
abbrev W (w : Int) (t : Tab) : Prop := t.lw = w

theorem layerGetChar_ok (t : Tab) (x y : Int) : Ok (layerGetChar t x y) (fun _ => True) := by
  unfold layerGetChar
  apply ok_ite
  · intro _; trivial
  · intro hg
    apply ok_ite
    · intro hy
      unfold vecIndex
      have hy0 : ¬ y < 0 := by omega
      simp only [hy0, if_false]
      have : y.toNat < t.rows.length := by omega
      rw [List.getElem?_eq_getElem this]
      simp only [andThen]
      apply ok_ite
      · intro _
        apply ok_ite
        · intro _; omega
        · intro _; trivial
      · intro _; trivial
    · intro _; trivial

/-- `Layer::set_char` never panics (needs only a non-negative layer width for `Line::create`) -/
theorem layerSetChar_ok (w : Int) (hw : 0 ≤ w) (t : Tab) (x y : Int) (ht : W w t) :
    Ok (layerSetChar t x y) (fun t' => W w t' ∧ t'.lh = t.lh) := by
  unfold layerSetChar
  apply ok_ite
  · intro _; exact ⟨ht, rfl⟩
  · intro hg
    have hx : 0 ≤ x := by omega
    have hy : 0 ≤ y := by omega
    apply ok_andThen (P := fun rows => (y : Int) < rows.length)
    · apply ok_ite
      · intro hlen
        unfold lineCreate
        have : ¬ t.lw < 0 := by rw [ht]; omega
        simp only [this, if_false, andThen, vecResize]
        have : ¬ y + 1 < 0 := by omega
        simp only [this, if_false, ok_ok]
        split
        · rename_i h1; omega
        · rw [List.length_append, List.length_replicate]; omega
      · intro hlen; simp only [ok_ok]; omega
    · intro rows hrows
      unfold vecIndex
      have hy0 : ¬ y < 0 := by omega
      simp only [hy0, if_false]
      have : y.toNat < rows.length := by omega
      rw [List.getElem?_eq_getElem this]
      simp only [andThen]
      have hl := lineSetChar_ok (rows[y.toNat]) x hx
      cases hls : lineSetChar (rows[y.toNat]) x with
      | error e => rw [hls] at hl; exact hl.elim
      | ok n' =>
        show W w (if n' = rows[y.toNat] then _ else _) ∧ (if n' = rows[y.toNat] then _ else _ : Tab).lh = t.lh
        split <;> exact ⟨ht, rfl⟩

theorem layerRemoveLine_ok (w : Int) (t : Tab) (i : Int) (ht : W w t) (h0 : 0 ≤ i) (h1 : i < t.rows.length) :
    Ok (layerRemoveLine t i) (fun t' => W w t' ∧ t'.lh = t.lh) := by
  unfold layerRemoveLine vecRemove
  have : ¬ (i < 0 ∨ i ≥ t.rows.length) := by omega
  simp only [this, if_false, andThen, ok_ok]
  exact ⟨ht, trivial⟩

theorem layerInsertLine_ok (w : Int) (hw : 0 ≤ w) (t : Tab) (i : Int) (l : Nat) (ht : W w t) (h0 : 0 ≤ i) :
    Ok (layerInsertLine t i l) (fun t' => W w t' ∧ t'.lh = t.lh) := by
  unfold layerInsertLine
  have : ¬ i < 0 := by omega
  simp only [this, if_false]
  apply ok_andThen (P := fun rows => (i : Int) ≤ rows.length)
  · apply ok_ite
    · intro hlen
      unfold lineCreate
      have : ¬ t.lw < 0 := by rw [ht]; omega
      simp only [this, if_false, andThen, vecResize]
      have : ¬ i < 0 := by omega
      simp only [this, if_false, ok_ok]
      split
      · rename_i h1; omega
      · rw [List.length_append, List.length_replicate]; omega
    · intro hlen; simp only [ok_ok]; omega
  · intro rows hrows
    unfold vecInsert
    have : ¬ (i < 0 ∨ i > rows.length) := by omega
    simp only [this, if_false, andThen, ok_ok]
    exact ⟨ht, trivial⟩

/-- what the loops carry: layer width and height -/
abbrev WH (w h : Int) (t : Tab) : Prop := t.lw = w ∧ t.lh = h

theorem setChar_wh (w h : Int) (hw : 0 ≤ w) (t : Tab) (x y : Int) (ht : WH w h t) : Ok (layerSetChar t x y) (WH w h) := by
  refine ok_mono (layerSetChar_ok w hw t x y ht.1) ?_
  intro t' ⟨h1, h2⟩
  exact ⟨h1, by rw [h2]; exact ht.2⟩

theorem getSet_wh (w h : Int) (hw : 0 ≤ w) (t : Tab) (x y y' : Int) (ht : WH w h t) :
    Ok (andThen (layerGetChar t x y') fun _ => layerSetChar t x y) (WH w h) :=
  ok_andThen (layerGetChar_ok t x y') (fun _ _ => setChar_wh w h hw t x y ht)

theorem scrollUp_ok (w h : Int) (hw : 0 ≤ w) (s : Scr) (t : Tab) (ht : WH w h t) : Ok (scrollUp s t) (WH w h) := by
  unfold scrollUp
  apply forRange_ok _ _ _ (WH w h) t _ ht
  intro x t _ ht
  apply ok_andThen (P := WH w h)
  · apply forRange_ok _ _ _ (WH w h) t _ ht
    intro y t _ ht
    exact getSet_wh w h hw t x y (y + 1) ht
  · intro t ht; exact setChar_wh w h hw t x _ ht

theorem scrollDown_ok (w h : Int) (hw : 0 ≤ w) (s : Scr) (t : Tab) (ht : WH w h t) : Ok (scrollDown s t) (WH w h) := by
  unfold scrollDown
  apply forRange_ok _ _ _ (WH w h) t _ ht
  intro x t _ ht
  apply ok_andThen (P := WH w h)
  · apply forRangeRev_ok _ _ _ (WH w h) t _ ht
    intro y t ht
    exact getSet_wh w h hw t x y (y - 1) ht
  · intro t ht; exact setChar_wh w h hw t x _ ht

/-- `scroll_left`: the column after the last editable one must not be negative (`Line::insert_char(end_column)`) -/
theorem scrollLeft_ok (w h : Int) (s : Scr) (t : Tab) (ht : WH w h t) (hcol : 0 ≤ lastCol s + 1) :
    Ok (scrollLeft s t) (WH w h) := by
  unfold scrollLeft
  apply forRange_ok _ _ _ (WH w h) t _ ht
  intro i t _ ht
  split
  · exact ht
  · rename_i n hn
    apply ok_ite
    · intro ⟨hsc, hlen⟩
      refine ok_andThen (lineInsertChar_ok n _ hcol) ?_
      intro n1 hn1
      unfold lenRemove
      have : ¬ (firstCol s < 0 ∨ firstCol s ≥ (n1 : Int)) := by omega
      simp only [this, if_false, andThen, ok_ok]
      exact ht
    · intro _; exact ht

/-- `scroll_right`: the last editable column must not be negative (`end_column as usize + 1`) -/
theorem scrollRight_ok (w h : Int) (s : Scr) (t : Tab) (ht : WH w h t) (hcol : 0 ≤ lastCol s) :
    Ok (scrollRight s t) (WH w h) := by
  unfold scrollRight
  apply forRange_ok _ _ _ (WH w h) t _ ht
  intro i t _ ht
  split
  · exact ht
  · rename_i n hn
    apply ok_ite
    · intro ⟨hsc, hlen⟩
      unfold lenInsert
      have : ¬ (firstCol s < 0 ∨ firstCol s > (n : Int)) := by omega
      simp only [this, if_false, andThen]
      have : ¬ (lastCol s = -1) := by omega
      simp only [this, if_false]
      apply ok_ite
      · intro ⟨h1, h2⟩
        unfold lenRemove
        have : ¬ (lastCol s + 1 < 0 ∨ lastCol s + 1 ≥ ((n + 1 : Nat) : Int)) := by omega
        simp only [this, if_false, ok_ok]
        exact ht
      · intro _; exact ht
    · intro _; exact ht

theorem setRect_ok (w h : Int) (hw : 0 ≤ w) (x0 x1 y0 y1 : Int) (t : Tab) (ht : WH w h t) :
    Ok (setRect x0 x1 y0 y1 t) (WH w h) := by
  unfold setRect
  apply forRange_ok _ _ _ (WH w h) t _ ht
  intro y t _ ht
  apply forRange_ok _ _ _ (WH w h) t _ ht
  intro x t _ ht
  exact setChar_wh w h hw t x y ht

theorem clearBufferDown_ok (w h : Int) (hw : 0 ≤ w) (s : Scr) (c : Car) (t : Tab) (ht : WH w h t) :
    Ok (clearBufferDown s c t) (WH w h) := setRect_ok w h hw _ _ _ _ t ht
theorem clearBufferUp_ok (w h : Int) (hw : 0 ≤ w) (s : Scr) (c : Car) (t : Tab) (ht : WH w h t) :
    Ok (clearBufferUp s c t) (WH w h) := setRect_ok w h hw _ _ _ _ t ht
theorem clearLine_ok (w h : Int) (hw : 0 ≤ w) (s : Scr) (c : Car) (t : Tab) (ht : WH w h t) :
    Ok (clearLine s c t) (WH w h) :=
  forRange_ok _ _ _ (WH w h) t (fun x t _ ht => setChar_wh w h hw t x _ ht) ht
theorem clearLineEnd_ok (w h : Int) (hw : 0 ≤ w) (s : Scr) (c : Car) (t : Tab) (ht : WH w h t) :
    Ok (clearLineEnd s c t) (WH w h) :=
  forRange_ok _ _ _ (WH w h) t (fun x t _ ht => setChar_wh w h hw t x _ ht) ht
theorem clearLineStart_ok (w h : Int) (hw : 0 ≤ w) (s : Scr) (c : Car) (t : Tab) (ht : WH w h t) :
    Ok (clearLineStart s c t) (WH w h) :=
  forRange_ok _ _ _ (WH w h) t (fun x t _ ht => setChar_wh w h hw t x _ ht) ht
theorem repaintAll_ok (w h : Int) (hw : 0 ≤ w) (s : Scr) (t : Tab) (ht : WH w h t) :
    Ok (repaintAll s t) (WH w h) := setRect_ok w h hw _ _ _ _ t ht
theorem fillToEol_ok (w h : Int) (hw : 0 ≤ w) (s : Scr) (c : Car) (cnt : Nat) (t : Tab) (ht : WH w h t) :
    Ok (fillToEol s c cnt t) (WH w h) := by
  unfold fillToEol
  apply ok_ite
  · intro _; exact ht
  · intro _; exact forRange_ok _ _ _ (WH w h) t (fun x t _ ht => setChar_wh w h hw t x _ ht) ht

/-- the bottom margin, when there is one, is not negative -/
def BottomOk (s : Scr) : Prop := ∀ a e, s.mtb = some (a, e) → 0 ≤ e

theorem lineWithCapacity_ok (w : Int) (hw : 0 ≤ w) : lineWithCapacity w = .ok 0 := by
  unfold lineWithCapacity
  have : ¬ w < 0 := by omega
  simp only [this, if_false]

/-- `remove_terminal_line(line)`: a row that exists must not have a negative index; bottom margin not negative -/
theorem removeTerminalLine_ok (w h : Int) (hw : 0 ≤ w) (s : Scr) (line : Int) (t : Tab) (ht : WH w h t)
    (hline : 0 ≤ line) (hb : BottomOk s) : Ok (removeTerminalLine s line t) (WH w h) := by
  unfold removeTerminalLine
  apply ok_ite
  · intro _; exact ht
  · intro hlen
    refine ok_andThen (layerRemoveLine_ok w t line ht.1 hline (by omega)) ?_
    intro t1 ⟨h1, h2⟩
    have ht1 : WH w h t1 := ⟨h1, by rw [h2]; exact ht.2⟩
    split
    · rename_i a e he
      rw [show t1.lw = w from h1, lineWithCapacity_ok w hw]
      simp only [andThen]
      refine ok_mono (layerInsertLine_ok w hw t1 e 0 h1 (hb a e he)) ?_
      intro t2 ⟨g1, g2⟩
      exact ⟨g1, by rw [g2]; exact ht1.2⟩
    · exact ht1

/-- `insert_terminal_line(line)`: `line` and the bottom margin must not be negative -/
theorem insertTerminalLine_ok (w h : Int) (hw : 0 ≤ w) (s : Scr) (line : Int) (t : Tab) (ht : WH w h t)
    (hline : 0 ≤ line) (hb : BottomOk s) : Ok (insertTerminalLine s line t) (WH w h) := by
  unfold insertTerminalLine
  apply ok_andThen (P := WH w h)
  · split
    · rename_i a e he
      apply ok_ite
      · intro hlen
        unfold vecRemove
        have := hb a e he
        have : ¬ (e < 0 ∨ e ≥ (t.rows.length : Int)) := by omega
        simp only [this, if_false, andThen, ok_ok]
        exact ht
      · intro _; exact ht
    · exact ht
  · intro t1 ht1
    rw [show t1.lw = w from ht1.1, lineWithCapacity_ok w hw]
    simp only [andThen]
    refine ok_mono (layerInsertLine_ok w hw t1 line 0 ht1.1 hline) ?_
    intro t2 ⟨g1, g2⟩
    exact ⟨g1, by rw [g2]; exact ht1.2⟩

theorem checkScrollDownT_ok (w h : Int) (hw : 0 ≤ w) (s : Scr) (c : Car) (force : Bool) (t : Tab) (ht : WH w h t) :
    Ok (checkScrollDownT s c force t) (WH w h) := by
  unfold checkScrollDownT
  apply ok_ite
  · intro _; exact scrollUp_ok w h hw s t ht
  · intro _; exact ht

theorem checkScrollUpT_ok (w h : Int) (hw : 0 ≤ w) (s : Scr) (c : Car) (force : Bool) (t : Tab) (ht : WH w h t) :
    Ok (checkScrollUpT s c force t) (WH w h) := by
  unfold checkScrollUpT
  apply ok_ite
  · intro _; exact times_ok _ _ (WH w h) t (fun t ht => scrollDown_ok w h hw s t ht) ht
  · intro _; exact ht

/-- `Caret::lf`: the terminal width must not be negative (`Line::with_capacity(terminal width)`) -/
theorem lfT_ok (w h : Int) (hw : 0 ≤ w) (s : Scr) (c : Car) (t : Tab) (ht : WH w h t) (htw : 0 ≤ s.tw) :
    Ok (lfT s c t) (WH w h) := by
  unfold lfT
  apply ok_andThen (P := WH w h)
  · apply ok_ite
    · intro _
      rw [lineWithCapacity_ok s.tw htw]
      exact ht
    · intro _; exact ht
  · intro t1 ht1
    apply ok_ite
    · intro _; exact ht1
    · intro _; exact checkScrollDownT_ok w h hw _ _ _ t1 ht1

theorem bsT_ok (w h : Int) (hw : 0 ≤ w) (c : Car) (t : Tab) (ht : WH w h t) : Ok (bsT c t) (WH w h) :=
  setChar_wh w h hw t _ _ ht

theorem vecGet?_some {α : Type} (v : List α) (i : Int) (a : α) (h : vecGet? v i = some a) : 0 ≤ i ∧ i < v.length := by
  unfold vecGet? at h
  split at h
  · cases h
  · have := List.getElem?_eq_some_iff.mp h
    obtain ⟨h1, _⟩ := this
    omega

/-- `Caret::del` / `Caret::ins` never panic: both are guarded by `lines.get_mut` and `i < len` -/
theorem delT_ok (w h : Int) (c : Car) (t : Tab) (ht : WH w h t) : Ok (delT c t) (WH w h) := by
  unfold delT
  split
  · exact ht
  · rename_i n hn
    apply ok_ite
    · intro ⟨h1, h2⟩
      unfold lenRemove
      have : ¬ (c.x < 0 ∨ c.x ≥ (n : Int)) := by omega
      simp only [this, if_false, andThen, ok_ok]
      exact ht
    · intro _; exact ht

theorem insT_ok (w h : Int) (c : Car) (t : Tab) (ht : WH w h t) : Ok (insT c t) (WH w h) := by
  unfold insT
  split
  · exact ht
  · rename_i n hn
    apply ok_ite
    · intro ⟨h1, h2⟩
      unfold lenInsert
      have : ¬ (c.x < 0 ∨ c.x > (n : Int)) := by omega
      simp only [this, if_false, andThen, ok_ok]
      exact ht
    · intro _; exact ht

/-- `Caret::erase_charcter`: the cursor column must not be negative (`Line::set_char(x)`) -/
theorem echT_ok (w h : Int) (s : Scr) (c : Car) (number : Int) (t : Tab) (ht : WH w h t) (hx : 0 ≤ c.x) :
    Ok (echT s c number t) (WH w h) := by
  unfold echT
  simp only []
  apply ok_ite
  · intro _; exact ht
  · intro _
    split
    · exact ht
    · rename_i n hn
      apply ok_andThen (P := fun _ => True)
      · exact loopFrom_ok _ (fun _ => True) c.x (fun i n hi _ => lineSetChar_ok n i (by omega)) _ c.x n (Int.le_refl _) trivial
      · intro n' _; exact ht

/-- `Buffer::print_char`: in insert mode the cursor must not have a negative coordinate; the terminal width must not be
    negative (line feed at the right edge) -/
theorem printCharT_ok (w : Int) (hw : 0 ≤ w) (s : Scr) (c : Car) (t : Tab) (ht : W w t)
    (hins : c.ins = true → 0 ≤ c.x ∧ 0 ≤ c.y) (htw : 0 ≤ s.tw) : Ok (printCharT s c t) (W w) := by
  unfold printCharT
  apply ok_andThen (P := W w)
  · apply ok_ite
    · intro hi
      obtain ⟨hx, hy⟩ := hins hi
      have : ¬ c.y < 0 := by omega
      simp only [this, if_false]
      apply ok_andThen (P := fun rows => (c.y : Int) < rows.length)
      · apply ok_ite
        · intro hlen
          rw [show t.lw = w from ht, lineWithCapacity_ok w hw]
          simp only [andThen, vecResize]
          have : ¬ c.y + 1 < 0 := by omega
          simp only [this, if_false, ok_ok]
          split
          · rename_i h1; omega
          · rw [List.length_append, List.length_replicate]; omega
        · intro hlen; simp only [ok_ok]; omega
      · intro rows hrows
        unfold vecIndex
        simp only [this, if_false]
        have : c.y.toNat < rows.length := by omega
        rw [List.getElem?_eq_getElem this]
        simp only [andThen]
        have hl := lineInsertChar_ok (rows[c.y.toNat]) c.x hx
        cases hls : lineInsertChar (rows[c.y.toNat]) c.x with
        | error e => rw [hls] at hl; exact hl.elim
        | ok n' => exact ht
    · intro _; exact ht
  · intro t1 ht1
    simp only []
    have ht2 : W w (if c.y + 1 > t1.lh then { t1 with lh := c.y + 1 } else t1) := by
      split
      · exact ht1
      · exact ht1
    generalize (if c.y + 1 > t1.lh then ({ t1 with lh := c.y + 1 } : Tab) else t1) = t2 at ht2
    refine ok_andThen (layerSetChar_ok w hw t2 c.x c.y ht2) ?_
    intro t3 ⟨ht3, _⟩
    apply ok_ite
    · intro _
      apply ok_ite
      · intro _
        exact ok_mono (lfT_ok w t3.lh hw _ _ t3 ⟨ht3, rfl⟩ htw) (fun a ha => ha.1)
      · intro _; exact ht3
    · intro _; exact ht3

/-- REP: `print_char` as often as the geometry model allows -/
theorem printNT_ok (w : Int) (hw : 0 ≤ w) : ∀ (n : Nat) (s : Scr) (c : Car) (t : Tab), ScrOk s → CurOk s c → W w t →
    Ok (printNT n s c t) (W w) := by
  intro n
  induction n with
  | zero => intro s c t _ _ ht; exact ht
  | succ n ih =>
    intro s c t hk hc ht
    unfold printNT
    apply ok_ite
    · intro _; exact ht
    · intro hr
      have hr' : RangeOk s c := Classical.not_not.mp hr
      have hb := rangeOk_bh s c hk hr'
      have hp := printChar_spec s c hk hc (by omega)
      cases hpc : printChar s c with
      | error e => exact ht
      | ok r =>
        rw [hpc] at hp
        obtain ⟨s1, c1⟩ := r
        obtain ⟨h1, h2, h3, h4, h5, h6⟩ := hp
        simp only at h1 h2 h3 h4 h5 h6
        have hk1 : ScrOk s1 := by rw [h1]; exact scrOk_bh s _ hk (by have := hk.bh0; omega)
        simp only []
        refine ok_andThen (printCharT_ok w hw s c t ht (fun _ => ⟨hc.1, hc.2.2.1⟩) (by have := hk.tw1; omega)) ?_
        intro t' ht'
        exact ih s1 c1 t' hk1 h4 ht'

theorem vecIndex_ok {α : Type} (v : List α) (i : Nat) (site : String) (h : i < v.length) :
    vecIndex v (i : Int) site = .ok v[i] := by
  unfold vecIndex
  have : ¬ ((i : Int) < 0) := by omega
  simp only [this, if_false, Int.toNat_natCast, List.getElem?_eq_getElem h]

/-- rectangles: the parameter list must hold the four numbers that are indexed -/
theorem fillArea_ok (w h : Int) (hw : 0 ≤ w) (s : Scr) (t : Tab) (nums : List Int) (off : Nat) (ht : WH w h t)
    (hn : off + 3 < nums.length) : Ok (fillArea s t nums off) (WH w h) := by
  unfold fillArea rectArea
  rw [vecIndex_ok nums off _ (by omega)]
  simp only [andThen]
  rw [vecIndex_ok nums (off + 1) _ (by omega)]
  simp only []
  rw [vecIndex_ok nums (off + 2) _ (by omega)]
  simp only []
  rw [vecIndex_ok nums (off + 3) _ (by omega)]
  simp only []
  exact setRect_ok w h hw _ _ _ _ t ht

end IcyVerif.Rows
