import IcyVerif.Model.RipText
set_option linter.unusedSimpArgs false
/-! Lemmas about the RIP text path model: the clamp puts the size inside both scale tables, no divisor is zero, every
FontType variant has its font. -/
namespace IcyVerif.RipText

theorem clamp_range (v lo hi : Int) (h : lo ≤ hi) : lo ≤ clamp v lo hi ∧ clamp v lo hi ≤ hi := by
  unfold clamp
  split
  · omega
  · split <;> omega

/-- the regenerated tables: every size the clamp lets through has a scale pair with a non-zero divisor -/
theorem scale_table_ok : ∀ s : Fin 11, (scaleAt ((s : Nat) : Int)).isSome = true := by decide

theorem clamp_bounds_ok : Gen.RipText.sizeLo = 1 ∧ Gen.RipText.sizeHi = 10 ∧ (0 : Int) ≤ Gen.RipText.sizeLo ∧
    Gen.RipText.sizeLo ≤ Gen.RipText.sizeHi ∧ Gen.RipText.sizeHi < Gen.RipText.scaleUp.length ∧
    Gen.RipText.sizeHi < Gen.RipText.scaleDown.length := by decide

theorem scaleAt_clamped (size : Int) : ∃ r, scaleAt (clamp size Gen.RipText.sizeLo Gen.RipText.sizeHi) = some r := by
  obtain ⟨h1, h2, _, _, _, _⟩ := clamp_bounds_ok
  have hc := clamp_range size Gen.RipText.sizeLo Gen.RipText.sizeHi (by rw [h1, h2]; decide)
  rw [h1, h2] at hc ⊢
  generalize clamp size 1 10 = c at hc
  have h := scale_table_ok ⟨c.toNat, by omega⟩
  have e : ((c.toNat : Nat) : Int) = c := by omega
  simp only [e] at h
  exact Option.isSome_iff_exists.mp h

theorem fontFrom_lt (v : Nat) : fontFrom v < Gen.RipText.fontVariants.length := by
  unfold fontFrom
  have h : ∀ b : Fin 256, (match Gen.RipText.fontFrom.find? (fun p => p.1 = (b : Nat)) with
      | some (_, i) => i | none => Gen.RipText.fontFromDefault) < Gen.RipText.fontVariants.length := by decide +kernel
  exact h ⟨v % 256, Nat.mod_lt _ (by decide)⟩

theorem fontChars_some : ∀ f : Fin 12, (fontChars (f : Nat)).isSome = true := by decide

theorem charLookups_some (chars : Nat) (size : Int) (code : Nat) (h : ∃ r, scaleAt size = some r) :
    charLookups chars size code = some () := by
  obtain ⟨r, hr⟩ := h
  unfold charLookups
  split
  · rfl
  · rw [hr]

theorem fold_some (chars : Nat) (size : Int) (h : ∃ r, scaleAt size = some r) : ∀ text : List Nat,
    text.foldl (fun acc c => acc.bind fun _ => charLookups chars size c) (some ()) = some () := by
  intro text
  induction text with
  | nil => rfl
  | cons c t ih =>
    simp only [List.foldl_cons, Option.bind_some, charLookups_some chars size c h]
    exact ih

end IcyVerif.RipText
