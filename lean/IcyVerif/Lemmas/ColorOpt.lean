import IcyVerif.Model.ColorOpt
import IcyVerif.Lemmas.Comp
set_option linter.unusedSimpArgs false
set_option linter.unusedVariables false
/-! Helper lemmas for C12: blank glyphs render without their foreground, full glyphs without their
background; the per-glyph font condition `FontOk` and how it follows from a regenerated font summary. -/
namespace IcyVerif.ColorOpt
open IcyVerif.Comp IcyVerif.Gen.Fonts

/-! ### bits -/

theorem sum_eq_zero {l : List Nat} (h : l.sum = 0) : ∀ x ∈ l, x = 0 := by
  induction l with
  | nil => intro x hx; cases hx
  | cons a l ih =>
    simp only [List.sum_cons] at h
    intro x hx
    rcases List.mem_cons.mp hx with rfl | hx
    · omega
    · exact ih (by omega) x hx

theorem popcount8_zero {b : Nat} (h : popcount8 b = 0) : ∀ i < 8, b.testBit i = false := by
  unfold popcount8 at h
  have hnil := List.length_eq_zero_iff.mp h
  intro i hi
  have := (List.filter_eq_nil_iff.mp hnil) i (List.mem_range.mpr hi)
  simpa using this

/-- a byte without set bits fails the bit test of the renderer at every column -/
theorem bitSet_of_popcount_zero {b : Nat} (h : popcount8 b = 0) {cx : Nat} (hcx : cx < 8) : bitSet b cx = false := by
  have hb := popcount8_zero h
  have hpow : msbMask >>> cx = 2 ^ (7 - cx) := by
    have : ∀ cx < 8, msbMask >>> cx = 2 ^ (7 - cx) := by decide
    exact this cx hcx
  unfold bitSet
  rw [hpow]
  have hz : b &&& 2 ^ (7 - cx) = 0 := by
    apply Nat.eq_of_testBit_eq
    intro i
    rw [Nat.testBit_and, Nat.testBit_two_pow, Nat.zero_testBit]
    by_cases hi : 7 - cx = i
    · subst hi; rw [hb (7 - cx) (by omega)]; rfl
    · simp [hi]
  rw [hz]; rfl

/-- every byte of a glyph whose bit count is 0 -/
def Blank (rows : List Nat) : Prop := ones rows = 0

theorem blank_byte {rows : List Nat} (h : Blank rows) {cy b : Nat} (hb : rows[cy]? = some b) : popcount8 b = 0 := by
  unfold Blank ones at h
  have hmem : b ∈ rows := List.mem_of_getElem? hb
  exact sum_eq_zero h _ (List.mem_map.mpr ⟨b, hmem, rfl⟩)

/-! ### glyph blocks -/

/-- all in-range bits set (`w ≤ 8`): rows `0..h` exist and pass the bit test at columns `0..w` -/
def isFull (w h : Nat) (rows : List Nat) : Bool :=
  (List.range h).all fun cy => match rows[cy]? with
    | some b => (List.range w).all fun cx => bitSet b cx
    | none => false

theorem renderGlyph_congr (w0 h0 : Nat) (f : Font) (rows rows' : List Nat) (fgc bgc fgc' bgc' : Rgb)
    (h : ∀ cy cx, cy < min f.h h0 → cx < min f.w w0 →
      (match rows[cy]? with
        | none => Px.panic
        | some b => if 8 ≤ cx then Px.panic else if bitSet b cx then Px.rgb fgc else Px.rgb bgc) =
      (match rows'[cy]? with
        | none => Px.panic
        | some b => if 8 ≤ cx then Px.panic else if bitSet b cx then Px.rgb fgc' else Px.rgb bgc')) :
    renderGlyph w0 h0 f rows fgc bgc = renderGlyph w0 h0 f rows' fgc' bgc' := by
  unfold renderGlyph
  apply List.map_congr_left
  intro cy _
  apply List.map_congr_left
  intro cx _
  by_cases hc : cy < min f.h h0 ∧ cx < min f.w w0
  · simp only [hc, and_self, if_true]
    exact h cy cx hc.1 hc.2
  · simp only [hc, if_false]

/-- two blank glyphs with the same number of data bytes render alike, whatever the foreground -/
theorem renderGlyph_blank (w0 h0 : Nat) (f : Font) (rows rows' : List Nat) (fgc fgc' bgc : Rgb)
    (hb : Blank rows) (hb' : Blank rows') (hl : rows.length = rows'.length) :
    renderGlyph w0 h0 f rows fgc bgc = renderGlyph w0 h0 f rows' fgc' bgc := by
  apply renderGlyph_congr
  intro cy cx _ _
  by_cases hlt : cy < rows.length
  · have hlt' : cy < rows'.length := by omega
    rw [List.getElem?_eq_getElem hlt, List.getElem?_eq_getElem hlt']
    simp only
    by_cases h8 : 8 ≤ cx
    · simp [h8]
    · have hcx : cx < 8 := by omega
      have h1 := bitSet_of_popcount_zero (blank_byte hb (List.getElem?_eq_getElem hlt)) hcx
      have h2 := bitSet_of_popcount_zero (blank_byte hb' (List.getElem?_eq_getElem hlt')) hcx
      simp [h8, h1, h2]
  · have hn : rows[cy]? = none := List.getElem?_eq_none (by omega)
    have hn' : rows'[cy]? = none := List.getElem?_eq_none (by omega)
    rw [hn, hn']

/-- two blank glyphs of two fonts whose painted region (the `min` with font 0's size) is the same render alike -/
theorem renderGlyph_blank2 (w0 h0 : Nat) (f f' : Font) (rows rows' : List Nat) (fgc fgc' bgc : Rgb)
    (hb : Blank rows) (hb' : Blank rows') (hl : f.h ≤ rows.length) (hl' : f'.h ≤ rows'.length)
    (hw : min f.w w0 = min f'.w w0) (hh : min f.h h0 = min f'.h h0) (h8 : f.w ≤ 8) :
    renderGlyph w0 h0 f rows fgc bgc = renderGlyph w0 h0 f' rows' fgc' bgc := by
  unfold renderGlyph
  apply List.map_congr_left
  intro cy _
  apply List.map_congr_left
  intro cx _
  rw [← hw, ← hh]
  by_cases hc : cy < min f.h h0 ∧ cx < min f.w w0
  · simp only [hc, and_self, if_true]
    have hcy : cy < rows.length := by have := hc.1; omega
    have hcy' : cy < rows'.length := by have := hc.1; rw [hh] at this; omega
    have hcx : cx < 8 := by have := hc.2; omega
    rw [List.getElem?_eq_getElem hcy, List.getElem?_eq_getElem hcy']
    have h1 := bitSet_of_popcount_zero (blank_byte hb (List.getElem?_eq_getElem hcy)) hcx
    have h2 := bitSet_of_popcount_zero (blank_byte hb' (List.getElem?_eq_getElem hcy')) hcx
    have h8' : ¬ 8 ≤ cx := by omega
    simp [h8', h1, h2]
  · simp only [hc, if_false]

theorem isFull_bit {w h : Nat} {rows : List Nat} (hf : isFull w h rows = true) {cy cx : Nat} (hcy : cy < h) (hcx : cx < w) :
    ∃ b, rows[cy]? = some b ∧ bitSet b cx = true := by
  unfold isFull at hf
  have h1 := (List.all_eq_true.mp hf) cy (List.mem_range.mpr hcy)
  cases hr : rows[cy]? with
  | none => rw [hr] at h1; simp at h1
  | some b =>
    rw [hr] at h1
    exact ⟨b, rfl, (List.all_eq_true.mp h1) cx (List.mem_range.mpr hcx)⟩

/-- a glyph with every in-range bit set renders without its background -/
theorem renderGlyph_full (w0 h0 : Nat) (f : Font) (rows : List Nat) (fgc bgc bgc' : Rgb)
    (hw : f.w ≤ 8) (hf : isFull f.w f.h rows = true) :
    renderGlyph w0 h0 f rows fgc bgc = renderGlyph w0 h0 f rows fgc bgc' := by
  apply renderGlyph_congr
  intro cy cx hcy hcx
  obtain ⟨b, hb, hbit⟩ := isFull_bit hf (Nat.lt_of_lt_of_le hcy (Nat.min_le_left _ _))
    (Nat.lt_of_lt_of_le hcx (Nat.min_le_left _ _))
  have h8 : ¬ 8 ≤ cx := by
    have := Nat.lt_of_lt_of_le hcx (Nat.min_le_left _ _)
    omega
  rw [hb]
  simp [h8, hbit]

/-! ### the font condition -/

/-- what the optimiser needs from a font: every glyph has `height` data bytes (so a blank glyph and the blank `' '`
    paint the same rows), a NON-BLANK glyph whose bit count is width·height belongs to a font of at most 8 columns
    (so `count_ones` counts rendered columns only and `128 >> cx` cannot overflow on them) and has every in-range bit
    set, and the glyph of `' '` (the normalisation target) is blank whenever the font has a blank glyph at all.  Fonts wider than 8 columns satisfy the second
    clause vacuously (`wide_font_never_block`), 8-column fonts automatically (`eight_wide_block_full`). -/
structure FontOk (f : Font) : Prop where
  rows_len : ∀ ch rows, f.glyph ch = some rows → rows.length = f.h
  block_full : ∀ ch rows, f.glyph ch = some rows → ones rows ≠ 0 → ones rows = f.w * f.h →
    f.w ≤ 8 ∧ isFull f.w f.h rows = true
  space_blank : ∀ ch rows rows', f.glyph ch = some rows → ones rows = 0 → f.glyph spaceCh = some rows' → ones rows' = 0

/-- list traversal of a regenerated summary: every glyph has `h` bytes and "count = w·h ⇒ full" -/
def glyphSumOk (w h : Nat) : List Nat → List Nat → List Nat → Bool
  | l :: ls, o :: os, f :: fs => (l == h) && (o != w * h || f == 1) && glyphSumOk w h ls os fs
  | [], [], [] => true
  | _, _, _ => false

def SummaryOk (s : FontSum) : Bool :=
  decide (s.w ≤ 8) && glyphSumOk s.w s.h s.lens s.ones s.full &&
    (match s.ones[spaceCh]? with
      | some o => o == 0
      | none => true)

theorem glyphSumOk_get {w h : Nat} {ls os fs : List Nat} (hok : glyphSumOk w h ls os fs = true) {i l o fl : Nat}
    (hl : ls[i]? = some l) (ho : os[i]? = some o) (hf : fs[i]? = some fl) : l = h ∧ (o = w * h → fl = 1) := by
  induction ls generalizing os fs i with
  | nil => simp at hl
  | cons l0 ls ih =>
    cases os with
    | nil => simp at ho
    | cons o0 os =>
      cases fs with
      | nil => simp at hf
      | cons f0 fs =>
        simp only [glyphSumOk, Bool.and_eq_true, beq_iff_eq, Bool.or_eq_true, bne_iff_ne, ne_eq] at hok
        cases i with
        | zero =>
          simp only [List.getElem?_cons_zero, Option.some.injEq] at hl ho hf
          subst hl; subst ho; subst hf
          refine ⟨hok.1.1, fun h => ?_⟩
          rcases hok.1.2 with h' | h'
          · exact absurd h h'
          · exact h'
        | succ i =>
          simp only [List.getElem?_cons_succ] at hl ho hf
          exact ih hok.2 hl ho hf

/-- the summary really is the summary of the font (what the harness checks against the compiled crate) -/
def Summarizes (f : Font) (s : FontSum) : Prop :=
  f.w = s.w ∧ f.h = s.h ∧ ∀ ch rows, f.glyph ch = some rows →
    s.lens[ch]? = some rows.length ∧ s.ones[ch]? = some (ones rows) ∧
    s.full[ch]? = some (if isFull f.w f.h rows then 1 else 0)

theorem fontOk_of_summary {f : Font} {s : FontSum} (hs : Summarizes f s) (hok : SummaryOk s = true) : FontOk f := by
  obtain ⟨hw, hh, hg⟩ := hs
  unfold SummaryOk at hok
  simp only [Bool.and_eq_true, decide_eq_true_eq] at hok
  obtain ⟨⟨hle, hsum⟩, hsp⟩ := hok
  refine ⟨?_, ?_, ?_⟩
  · intro ch rows hgl
    obtain ⟨h1, h2, h3⟩ := hg ch rows hgl
    have := (glyphSumOk_get hsum h1 h2 h3).1
    omega
  · intro ch rows hgl _ hones
    obtain ⟨h1, h2, h3⟩ := hg ch rows hgl
    have := (glyphSumOk_get hsum h1 h2 h3).2 (by rw [hones, hw, hh])
    refine ⟨by omega, ?_⟩
    by_cases hfull : isFull f.w f.h rows = true
    · exact hfull
    · simp [hfull] at this
  · intro _ _ rows _ _ hgl
    obtain ⟨_, h2, _⟩ := hg spaceCh rows hgl
    rw [h2] at hsp
    simpa using hsp

/-! ### cells -/

/-- a cell whose glyph is blank renders the same whatever its foreground colour and flags, and whichever
    blank glyph of the same font (with the same number of data bytes) is used -/
theorem renderCell_blank (fonts : Nat → Option Font) (pal : Nat → Rgb) (w0 h0 : Nat) (c X : Cell) (f : Font)
    (rows rows' : List Nat)
    (hfont : fonts c.attr.page = some f) (hg : f.glyph c.ch = some rows) (hg' : f.glyph X.ch = some rows')
    (hb : Blank rows) (hb' : Blank rows') (hl : rows'.length = rows.length)
    (hp : X.attr.page = c.attr.page) (hbg : X.attr.bg = c.attr.bg) :
    renderCell fonts pal w0 h0 X = renderCell fonts pal w0 h0 c := by
  unfold renderCell
  rw [hp, hfont]
  simp only [hg, hg', hbg]
  exact renderGlyph_blank w0 h0 f rows' rows _ _ _ hb' hb hl

/-- a cell whose glyph has every in-range bit set renders the same whatever its background colour -/
theorem renderCell_full (fonts : Nat → Option Font) (pal : Nat → Rgb) (w0 h0 : Nat) (c X : Cell) (f : Font)
    (rows : List Nat)
    (hfont : fonts c.attr.page = some f) (hg : f.glyph c.ch = some rows) (hw : f.w ≤ 8)
    (hfull : isFull f.w f.h rows = true)
    (hch : X.ch = c.ch) (hp : X.attr.page = c.attr.page) (hfg : X.attr.fg = c.attr.fg)
    (hfl : X.attr.flags = c.attr.flags) :
    renderCell fonts pal w0 h0 X = renderCell fonts pal w0 h0 c := by
  unfold renderCell
  rw [hp, hfont, hch]
  simp only [hg]
  have : renderFg X = renderFg c := by unfold renderFg isBold; rw [hfg, hfl]
  rw [this]
  exact renderGlyph_full w0 h0 f rows _ _ _ hw hfull

/-! ### what `flat_clone(false)` stores and what `Buffer::get_char` of the clone shows -/

theorem flatStore_visible (c : Cell) : (flatStore c).isVisible = true := by
  unfold flatStore
  by_cases h : c.isVisible = true
  · simp only [h, if_true]
  · have h' : c.isVisible = false := by cases hc : c.isVisible <;> simp_all
    simp only [h', Bool.false_eq_true, if_false]
    have a : (defaultCell.withPage c.attr.page).isVisible = defaultCell.isVisible := rfl
    rw [a]; decide

theorem flatStore_of_visible {c : Cell} (h : c.isVisible = true) : flatStore c = c := by
  unfold flatStore; simp only [h, if_true]

theorem flatStore_invisible (p : Nat) : flatStore (invisibleCell.withPage p) = defaultCell.withPage p := by
  unfold flatStore
  have : (invisibleCell.withPage p).isVisible = false := by
    have a : (invisibleCell.withPage p).isVisible = invisibleCell.isVisible := rfl
    rw [a]; decide
  simp only [this, Bool.false_eq_true, if_false]
  rfl

theorem flatView_of_visible (t : Bool) {c : Cell} (h : c.isVisible = true) : flatView t c = c := by
  unfold flatView; simp only [h, if_true]

/-- a default blank on page `p` renders exactly like `AttributedChar::invisible()` on page `p`
    (same character, colours 7 on 0, not bold) -/
theorem renderCell_default_invisible (fonts : Nat → Option Font) (pal : Nat → Rgb) (w0 h0 p : Nat) :
    renderCell fonts pal w0 h0 (defaultCell.withPage p) = renderCell fonts pal w0 h0 (invisibleCell.withPage p) := by
  unfold renderCell
  have h1 : (defaultCell.withPage p).attr.page = (invisibleCell.withPage p).attr.page := rfl
  have h2 : (defaultCell.withPage p).ch = (invisibleCell.withPage p).ch := rfl
  have h3 : renderFg (defaultCell.withPage p) = renderFg (invisibleCell.withPage p) := by
    have a : renderFg (defaultCell.withPage p) = renderFg defaultCell := rfl
    have b : renderFg (invisibleCell.withPage p) = renderFg invisibleCell := rfl
    rw [a, b]; decide
  have h4 : (defaultCell.withPage p).attr.bg = (invisibleCell.withPage p).attr.bg := rfl
  rw [h1, h2, h3, h4]

end IcyVerif.ColorOpt
