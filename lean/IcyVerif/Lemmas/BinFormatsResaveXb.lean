import IcyVerif.Lemmas.BinFormatsResaveAdf
import IcyVerif.Lemmas.BinFormatsFonts
set_option linter.unusedSimpArgs false
set_option linter.unusedVariables false
/-!
# C05, XBin: every file the loader accepts loads to a picture the writer reproduces
-/
namespace IcyVerif.BinFormats
open IcyVerif.XbCompress IcyVerif.Gen

/-- a font block of the right size -/
def fontShape (f : Font) : Prop := 1 ≤ f.height ∧ f.height ≤ 32 ∧ f.data.length = 256 * f.height

/-- (merge note: the package's guard `fontHonest f := !f.isDefault || f == defaultFont` is gone.  With `Font.isDefault` =
    name AND glyphs — the repaired `is_default` — and `fontOk` without its clause about names it held for every font.) -/
theorem fontOk_of (f : Font) (h1 : fontShape f) : fontOk f = true := by
  unfold fontOk
  obtain ⟨a, b, c⟩ := h1
  simp only [Bool.and_eq_true, decide_eq_true_eq, beq_iff_eq]
  exact ⟨⟨a, b⟩, c⟩

theorem pal16_from63 (bs : List Nat) (hl : bs.length = 48) (hb : ∀ b ∈ bs, b < 256) : pal16 (from63 bs) = true := by
  unfold pal16 from63
  have htl : ∀ (l : List Nat), (triples l).length = l.length / 3 := by
    intro l
    induction l using triples.induct with
    | case1 r g b rest ih => simp only [triples, List.length_cons, ih]; omega
    | case2 l hl' =>
      have : triples l = [] := by
        unfold triples
        split
        · rename_i r g b rest; exact absurd rfl (hl' r g b rest)
        · rfl
      rw [this]
      match l with
      | [] => rfl
      | [_] => simp
      | [_, _] => simp
      | a :: b :: c :: rest => exact absurd rfl (hl' a b c rest)
  have hmem : ∀ (l : List Nat), (∀ b ∈ l, b < 256) → ∀ c ∈ triples l, c.1 < 256 ∧ c.2.1 < 256 ∧ c.2.2 < 256 := by
    intro l
    induction l using triples.induct with
    | case1 r g b rest ih =>
      intro hbl c hc
      simp only [triples, List.mem_cons] at hc
      rcases hc with rfl | hc
      · exact ⟨hbl _ (by simp), hbl _ (by simp), hbl _ (by simp)⟩
      · exact ih (fun x hx => hbl x (by simp [hx])) c hc
    | case2 l hl' =>
      intro _ c hc
      have : triples l = [] := by
        match l, hl' with
        | [], _ => rfl
        | [_], _ => rfl
        | [_, _], _ => rfl
        | a :: b :: c :: rest, h => exact absurd rfl (h a b c rest)
      rw [this] at hc; cases hc
  simp only [Bool.and_eq_true, beq_iff_eq, List.length_map, List.all_eq_true, List.mem_map]
  refine ⟨by rw [htl, hl], ?_⟩
  rintro c ⟨t, ht, rfl⟩
  obtain ⟨a, b, c'⟩ := hmem bs hb t ht
  exact ⟨⟨sixBit_expand6 _ a, sixBit_expand6 _ b⟩, sixBit_expand6 _ c'⟩

theorem pal16_dos : pal16 dosPalette = true := by decide

/-! ## decoded cells -/

theorem decodeChar_cell (ice ext : Bool) (c a : Nat) (hc : c < 256) (ha : a < 256) :
    attrCell ice (decodeChar ice ext (c, a)) = true ∧
    (if ext then ((decodeChar ice ext (c, a)).attr.page = 0 ∨ (decodeChar ice ext (c, a)).attr.page = 1) ∧
        (decodeChar ice ext (c, a)).attr.fg < 8 ∧ isBold (decodeChar ice ext (c, a)).attr = false
     else (decodeChar ice ext (c, a)).attr.page = 0) := by
  obtain ⟨h1, h2, h3, h4⟩ := fromU8_cell a ha ice
  obtain ⟨k1, k2⟩ := attrCell_fromU8 ice c a hc ha
  unfold decodeChar
  simp only
  by_cases hx : ((fromU8 ice a).fg > 7 && ext) = true
  · simp only [hx, if_true]
    have hext : ext = true := by simp only [Bool.and_eq_true] at hx; exact hx.2
    have hfg : (fromU8 ice a).fg > 7 := by simp only [Bool.and_eq_true, decide_eq_true_eq] at hx; exact hx.1
    subst hext
    simp only [if_true]
    refine ⟨?_, by simp, by show (fromU8 ice a).fg - 8 < 8; omega, ?_⟩
    · unfold attrCell at k1 ⊢
      simp only [Bool.and_eq_true, decide_eq_true_eq] at k1 ⊢
      refine ⟨⟨k1.1.1, by show (fromU8 ice a).fg - 8 < 16; omega⟩, ?_⟩
      exact k1.2
    · exact h4
  · have hx' : ((fromU8 ice a).fg > 7 && ext) = false := by simpa using hx
    simp only [hx', Bool.false_eq_true, if_false]
    refine ⟨k1, ?_⟩
    cases ext
    · simp only [Bool.false_eq_true, if_false]; exact h2
    · simp only [if_true]
      have : ¬ ((fromU8 ice a).fg > 7) := by simpa using hx'
      exact ⟨Or.inl h2, by omega, h4⟩

theorem readUncompressed_mem (bs : List Nat) : ∀ p ∈ readUncompressed bs, p.1 ∈ bs ∧ p.2 ∈ bs := by
  induction bs using readUncompressed.induct with
  | case1 c a rest ih =>
    intro p hp
    simp only [readUncompressed, List.mem_cons] at hp
    rcases hp with rfl | hp
    · simp
    · have := ih p hp
      exact ⟨by simp [this.1], by simp [this.2]⟩
  | case2 l hl =>
    intro p hp
    have : readUncompressed l = [] := by
      unfold readUncompressed
      split
      · rename_i c a rest; exact absurd rfl (hl c a rest)
      · rfl
    rw [this] at hp; cases hp

/-- every pair the run decoders append consists of bytes of the data -/
def PairsIn (bs : List Nat) (ps : List (Nat × Nat)) : Prop := ∀ p ∈ ps, p.1 ∈ bs ∧ p.2 ∈ bs

theorem rdOff_in (all : List Nat) : ∀ (n : Nat) (bs : List Nat) (acc : List (Nat × Nat)), (∀ b ∈ bs, b ∈ all) → PairsIn all acc →
    PairsIn all (rdOff n bs acc).1 ∧ (∀ b ∈ (rdOff n bs acc).2, b ∈ all) := by
  intro n
  induction n with
  | zero => intro bs acc hbs hacc; exact ⟨hacc, hbs⟩
  | succ n ih =>
    intro bs acc hbs hacc
    match bs with
    | c :: a :: rest =>
      simp only [rdOff]
      apply ih
      · intro b hb; exact hbs b (by simp [hb])
      · intro p hp
        rcases List.mem_append.mp hp with h | h
        · exact hacc p h
        · simp only [List.mem_cons, List.not_mem_nil, or_false] at h; subst h
          exact ⟨hbs _ (by simp), hbs _ (by simp)⟩
    | [] => simp only [rdOff]; exact ⟨hacc, hbs⟩
    | [x] => simp only [rdOff]; exact ⟨hacc, hbs⟩

theorem rdChr_in (all : List Nat) (c : Nat) (hc : c ∈ all) : ∀ (n : Nat) (bs : List Nat) (acc : List (Nat × Nat)), (∀ b ∈ bs, b ∈ all) → PairsIn all acc →
    PairsIn all (rdChr c n bs acc).1 ∧ (∀ b ∈ (rdChr c n bs acc).2, b ∈ all) := by
  intro n
  induction n with
  | zero => intro bs acc hbs hacc; exact ⟨hacc, hbs⟩
  | succ n ih =>
    intro bs acc hbs hacc
    match bs with
    | a :: rest =>
      simp only [rdChr]
      apply ih
      · intro b hb; exact hbs b (by simp [hb])
      · intro p hp
        rcases List.mem_append.mp hp with h | h
        · exact hacc p h
        · simp only [List.mem_cons, List.not_mem_nil, or_false] at h; subst h
          exact ⟨hc, hbs _ (by simp)⟩
    | [] => simp only [rdChr]; exact ⟨hacc, by intro b hb; cases hb⟩

theorem rdAtt_in (all : List Nat) (a : Nat) (ha : a ∈ all) : ∀ (n : Nat) (bs : List Nat) (acc : List (Nat × Nat)), (∀ b ∈ bs, b ∈ all) → PairsIn all acc →
    PairsIn all (rdAtt a n bs acc).1 ∧ (∀ b ∈ (rdAtt a n bs acc).2, b ∈ all) := by
  intro n
  induction n with
  | zero => intro bs acc hbs hacc; exact ⟨hacc, hbs⟩
  | succ n ih =>
    intro bs acc hbs hacc
    match bs with
    | c :: rest =>
      simp only [rdAtt]
      apply ih
      · intro b hb; exact hbs b (by simp [hb])
      · intro p hp
        rcases List.mem_append.mp hp with h | h
        · exact hacc p h
        · simp only [List.mem_cons, List.not_mem_nil, or_false] at h; subst h
          exact ⟨hbs _ (by simp), ha⟩
    | [] => simp only [rdAtt]; exact ⟨hacc, by intro b hb; cases hb⟩

theorem readCompressedAux_in (all : List Nat) : ∀ (fuel : Nat) (bs : List Nat) (acc : List (Nat × Nat)) (r : List (Nat × Nat)),
    (∀ b ∈ bs, b ∈ all) → PairsIn all acc → readCompressedAux fuel bs acc = some r → PairsIn all r := by
  intro fuel
  induction fuel with
  | zero =>
    intro bs acc r _ hacc h
    simp only [readCompressedAux] at h
    rw [← Option.some.inj h]; exact hacc
  | succ fuel ih =>
    intro bs acc r hbs hacc h
    match bs with
    | [] =>
      simp only [readCompressedAux] at h
      rw [← Option.some.inj h]; exact hacc
    | b :: bs' =>
      have hbs' : ∀ x ∈ bs', x ∈ all := fun x hx => hbs x (by simp [hx])
      simp only [readCompressedAux] at h
      split at h
      · obtain ⟨h1, h2⟩ := rdOff_in all _ bs' acc hbs' hacc
        exact ih _ _ r h2 h1 h
      · split at h
        · match bs', hbs', h with
          | [], _, h => simp only at h; rw [← Option.some.inj h]; exact hacc
          | c :: bs'', hbs', h =>
            simp only at h
            obtain ⟨h1, h2⟩ := rdChr_in all c (hbs' c (by simp)) _ bs'' acc (fun x hx => hbs' x (by simp [hx])) hacc
            exact ih _ _ r h2 h1 h
        · split at h
          · match bs', hbs', h with
            | [], _, h => simp only at h; rw [← Option.some.inj h]; exact hacc
            | a :: bs'', hbs', h =>
              simp only at h
              obtain ⟨h1, h2⟩ := rdAtt_in all a (hbs' a (by simp)) _ bs'' acc (fun x hx => hbs' x (by simp [hx])) hacc
              exact ih _ _ r h2 h1 h
          · match bs', hbs', h with
            | [], _, h => simp only at h; rw [← Option.some.inj h]; exact hacc
            | [_], _, h => simp only at h; rw [← Option.some.inj h]; exact hacc
            | c :: a :: bs'', hbs', h =>
              simp only at h
              apply ih _ _ r (fun x hx => hbs' x (by simp [hx])) _ h
              intro p hp
              rcases List.mem_append.mp hp with h3 | h3
              · exact hacc p h3
              · rw [List.eq_of_mem_replicate h3]
                exact ⟨hbs' c (by simp), hbs' a (by simp)⟩

theorem readCompressed_mem (bs : List Nat) (r : List (Nat × Nat)) (h : readCompressed bs = some r) : ∀ p ∈ r, p.1 ∈ bs ∧ p.2 ∈ bs :=
  readCompressedAux_in bs _ bs [] r (fun _ hb => hb) (by intro p hp; cases hp) h

end IcyVerif.BinFormats

namespace IcyVerif.BinFormats
open IcyVerif.XbCompress IcyVerif.Gen

/-! ## allocated rows never exceed the layer height when the height is fixed -/

theorem setChar_alloc (b : LBuf) (x y : Nat) (c : Cell) (h : (b.lines.length : Int) ≤ b.lh) :
    ((b.setChar x y c).lines.length : Int) ≤ (b.setChar x y c).lh := by
  unfold LBuf.setChar
  split
  · exact h
  · rename_i hc
    simp only [List.length_set]
    split
    · simp only [List.length_append, List.length_replicate]
      show ((b.lines.length + (y + 1 - b.lines.length) : Nat) : Int) ≤ b.lh
      omega
    · exact h

theorem placeAll_alloc (x0 xl : Nat) (cells : List Cell) : ∀ (b : LBuf) (x y : Nat), (b.lines.length : Int) ≤ b.lh →
    (((placeAll false false x0 xl b x y cells).1.lines.length : Nat) : Int) ≤ (placeAll false false x0 xl b x y cells).1.lh ∧
    (placeAll false false x0 xl b x y cells).1.lh = b.lh ∧ (placeAll false false x0 xl b x y cells).1.bh = b.bh := by
  induction cells with
  | nil => intro b x y h; exact ⟨h, rfl, rfl⟩
  | cons c cs ih =>
    intro b x y h
    unfold placeAll
    simp only [List.foldl_cons]
    have hstep : (placeCell false false x0 xl (b, x, y) c).1 = b.setChar x y c := by
      unfold placeCell
      simp only [Bool.false_eq_true, if_false]
      split <;> rfl
    have h1 := setChar_alloc b x y c h
    have h2 := setChar_frame b x y c
    generalize placeCell false false x0 xl (b, x, y) c = q at hstep ⊢
    have := ih q.1 q.2.1 q.2.2 (by rw [hstep]; exact h1)
    unfold placeAll at this
    have e : (q.1, q.2.1, q.2.2) = q := rfl
    rw [e] at this
    refine ⟨this.1, ?_, ?_⟩
    · rw [this.2.1, hstep, h2.2.1]
    · rw [this.2.2, hstep, h2.2.2]

theorem popEmpty_length (ls : List (List Cell)) : (popEmpty ls).length ≤ ls.length := by
  unfold popEmpty
  split
  · simp
  · rename_i last before hr
    have hsub : ∀ (r : List (List Cell)), (popEmpty.dropEmptyRev r).length ≤ r.length := by
      intro r
      induction r with
      | nil => simp [popEmpty.dropEmptyRev]
      | cons a t ih =>
        cases t with
        | nil => simp [popEmpty.dropEmptyRev]
        | cons a2 t2 =>
          unfold popEmpty.dropEmptyRev
          split
          · simp only [List.length_cons] at ih ⊢; omega
          · simp
    have := hsub (last :: before)
    have hl : (last :: before).length = ls.length := by rw [← hr]; simp
    rw [hl] at this
    simpa using this

/-! ## font pages 0 and 1 -/

theorem usage_fold_01 (cells : List Cell) (h : ∀ c ∈ cells, c.attr.page = 0 ∨ c.attr.page = 1) :
    ∀ acc, (acc = [] ∨ acc = [0] ∨ acc = [1] ∨ acc = [0, 1]) →
      (let r := cells.foldl (fun acc c => insertSorted c.attr.page acc) acc
       r = [] ∨ r = [0] ∨ r = [1] ∨ r = [0, 1]) := by
  induction cells with
  | nil => intro acc hacc; exact hacc
  | cons c cs ih =>
    intro acc hacc
    simp only [List.foldl_cons]
    apply ih (fun d hd => h d (by simp [hd]))
    rcases h c (by simp) with hp | hp <;> rw [hp] <;> rcases hacc with h1 | h1 | h1 | h1 <;> rw [h1] <;> decide

theorem usage_01 (cells : List Cell) (hne : cells ≠ []) (h : ∀ c ∈ cells, c.attr.page = 0 ∨ c.attr.page = 1) :
    analyzeFontUsage cells = [0] ∨ analyzeFontUsage cells = [1] ∨ analyzeFontUsage cells = [0, 1] := by
  unfold analyzeFontUsage
  rcases usage_fold_01 cells h [] (Or.inl rfl) with h1 | h1 | h1 | h1
  · exfalso
    cases cells with
    | nil => exact hne rfl
    | cons c cs =>
      have hc : c ∈ c :: cs := by simp
      have := page_of_usage (c :: cs) c hc
      unfold analyzeFontUsage at this
      rw [h1] at this; cases this
  · exact Or.inl h1
  · exact Or.inr (Or.inl h1)
  · exact Or.inr (Or.inr h1)

/-! ## the fonts `BitFont::from_sauce_name` can install (table facts: `Lemmas/BinFormatsFonts.lean`) -/

theorem sauceFont_ok (name : List Nat) (f : Font) (h : sauceFontByName name = some f) : fontShape f := by
  unfold sauceFontByName at h
  cases hf : BinFonts.sauceFonts.find? (fun e => e.1 == name) with
  | none => rw [hf] at h; cases h
  | some e =>
    rw [hf] at h
    have hm := List.mem_of_find?_eq_some hf
    have := List.all_eq_true.mp sauceFonts_shape e hm
    simp only [Bool.and_eq_true, decide_eq_true_eq, beq_iff_eq, bne_iff_ne, ne_eq] at this
    obtain ⟨⟨⟨a, b⟩, c⟩, d⟩ := this
    have hfe : f = ⟨e.1, e.2.1, e.2.2⟩ := (Option.some.inj h).symm
    subst hfe
    exact ⟨a, b, c⟩

theorem defaultFont_ok : fontShape defaultFont := ⟨by decide, by decide, defaultFont_length⟩

theorem sauceFonts0_ok (s : Option Sauce.Sauce) : ∃ f0, sauceFonts0 s = [(0, f0)] ∧ fontShape f0 := by
  cases s with
  | none => exact ⟨defaultFont, rfl, defaultFont_ok⟩
  | some s' =>
    unfold sauceFonts0 startFonts
    cases hf : s'.font.bind sauceFontByName with
    | none => exact ⟨defaultFont, by simp [hf], defaultFont_ok⟩
    | some f =>
      obtain ⟨name, _, hn⟩ := Option.bind_eq_some_iff.mp hf
      exact ⟨f, by simp [setFont, hf], sauceFont_ok name f hn⟩

end IcyVerif.BinFormats

namespace IcyVerif.BinFormats
open IcyVerif.XbCompress IcyVerif.Gen

/-! ## the range of the XBin loader -/

/-- what the cells of a loaded XBin file look like (`ext` = 512-character mode) -/
def XbCell (ice ext : Bool) (c : Cell) : Prop :=
  attrCell ice c = true ∧
  (if ext then (c.attr.page = 0 ∨ c.attr.page = 1) ∧ c.attr.fg < 8 ∧ isBold c.attr = false else c.attr.page = 0)

structure XbRange (s : Option Sauce.Sauce) (g : LBuf) : Prop where
  w1 : 1 ≤ g.bw
  w2 : g.bw ≤ 4096
  hmax : g.bh ≤ 65535
  hmin : 0 ≤ g.bh
  lh : g.lh = g.bh
  ice : g.ice = .blink ∨ g.ice = .ice
  pal : pal16 g.pal = true
  sauce : g.sauce = s.map metaOf
  fonts : ∃ ext : Bool, CellsOK (XbCell (g.ice == .ice) ext) g.lines ∧
    ((ext = false ∧ ∃ f0, lookupFont g.fonts 0 = some f0 ∧ fontShape f0 ∧ (∀ e ∈ g.fonts, e.2 = f0)) ∨
     (ext = true ∧ ∃ f0 f1, g.fonts = [(0, f0), (1, f1)] ∧ fontShape f0 ∧ fontShape f1 ∧ f1.height = f0.height))

theorem mkFont_shape (fs : Nat) (d : List Nat) (h1 : 1 ≤ fs) (h2 : fs ≤ 32) (h3 : d.length = 256 * fs) : fontShape (mkFont fs d) :=
  ⟨h1, h2, h3⟩

/-- palette and font blocks: what they leave in the buffer -/
theorem xbBlocks_ok (b1 : LBuf) (hasPal hasFont ext : Bool) (fs : Nat) (rest : List Nat) (b3 : LBuf) (rest3 : List Nat)
    (hbr : ∀ b ∈ rest, b < 256) (hfs1 : 1 ≤ fs) (hfs2 : fs ≤ 32) (hp1 : pal16 b1.pal = true)
    (hf1 : ∃ f0, b1.fonts = [(0, f0)] ∧ fontShape f0)
    (h : xbBlocks b1 hasPal hasFont ext fs rest = .ok (b3, rest3)) :
    b3.bw = b1.bw ∧ b3.bh = b1.bh ∧ b3.lw = b1.lw ∧ b3.lh = b1.lh ∧ b3.lines = b1.lines ∧ b3.ice = b1.ice ∧ b3.sauce = b1.sauce ∧
    pal16 b3.pal = true ∧ (∀ b ∈ rest3, b < 256) ∧
    ((ext = false ∧ ∃ f0, lookupFont b3.fonts 0 = some f0 ∧ fontShape f0 ∧ (∀ e ∈ b3.fonts, e.2 = f0)) ∨
     (ext = true ∧ ∃ f0 f1, b3.fonts = [(0, f0), (1, f1)] ∧ fontShape f0 ∧ fontShape f1 ∧ f1.height = f0.height)) := by
  unfold xbBlocks at h
  by_cases hef : ext = true ∧ ¬ hasFont = true
  · rw [if_pos hef] at h; cases h
  rw [if_neg hef] at h
  by_cases hpl : hasPal = true ∧ rest.length < Xb.paletteLength
  · rw [if_pos hpl] at h; cases h
  rw [if_neg hpl] at h
  dsimp only at h
  by_cases hfl1 : hasFont = true ∧ (if hasPal = true then rest.drop Xb.paletteLength else rest).length < fs * 256
  · rw [if_pos hfl1] at h; cases h
  rw [if_neg hfl1] at h
  by_cases hfl2 : hasFont = true ∧ ext = true ∧ (if hasPal = true then rest.drop Xb.paletteLength else rest).length < 2 * (fs * 256)
  · rw [if_pos hfl2] at h; cases h
  rw [if_neg hfl2] at h
  have hg := Out.ok.inj h
  have hg1 := congrArg Prod.fst hg
  have hg2 := congrArg Prod.snd hg
  simp only at hg1 hg2
  have hplen : Xb.paletteLength = 48 := rfl
  obtain ⟨f0, hf0, hs0⟩ := hf1
  -- the palette
  have hpal : pal16 (if hasPal = true then ({ b1 with pal := from63 (rest.take Xb.paletteLength) } : LBuf) else b1).pal = true := by
    cases hasPal
    · exact hp1
    · simp only [if_true]
      apply pal16_from63
      · rw [List.length_take, hplen]
        have : ¬ (rest.length < 48) := by
          intro hc; exact hpl ⟨rfl, by rw [hplen]; exact hc⟩
        omega
      · intro b hbm; exact hbr b (List.mem_of_mem_take hbm)
  have hr2 : ∀ b ∈ (if hasPal = true then rest.drop Xb.paletteLength else rest), b < 256 := by
    intro b hbm
    cases hasPal
    · exact hbr b hbm
    · exact hbr b (List.mem_of_mem_drop hbm)
  generalize hrest2 : (if hasPal = true then rest.drop Xb.paletteLength else rest) = rest2 at hg1 hg2 hfl1 hfl2 hr2
  generalize hb2 : (if hasPal = true then ({ b1 with pal := from63 (rest.take Xb.paletteLength) } : LBuf) else b1) = b2 at hg1 hpal
  have hb2f : b2.bw = b1.bw ∧ b2.bh = b1.bh ∧ b2.lw = b1.lw ∧ b2.lh = b1.lh ∧ b2.lines = b1.lines ∧ b2.ice = b1.ice ∧ b2.sauce = b1.sauce ∧ b2.fonts = b1.fonts := by
    rw [← hb2]; cases hasPal <;> exact ⟨rfl, rfl, rfl, rfl, rfl, rfl, rfl, rfl⟩
  obtain ⟨k1, k2, k3, k4, k5, k6, k7, k8⟩ := hb2f
  have hr3 : ∀ b ∈ rest3, b < 256 := by
    rw [← hg2]
    intro b hbm
    cases hasFont
    · exact hr2 b hbm
    · cases ext
      · exact hr2 b (List.mem_of_mem_drop hbm)
      · exact hr2 b (List.mem_of_mem_drop hbm)
  rw [← hg1]
  cases hasFont with
  | false =>
    have hext : ext = false := by
      cases ext
      · rfl
      · exact absurd ⟨rfl, by simp⟩ hef
    simp only [Bool.false_eq_true, if_false]
    refine ⟨k1, k2, k3, k4, k5, k6, k7, hpal, hr3, Or.inl ⟨hext, f0, ?_, hs0, ?_⟩⟩
    · rw [k8, hf0]; exact lookupFont_single' f0
    · intro e he; rw [k8, hf0] at he; simp only [List.mem_cons, List.not_mem_nil, or_false] at he; rw [he]
  | true =>
    have hl1 : fs * 256 ≤ rest2.length := by
      have : ¬ (rest2.length < fs * 256) := fun hc => hfl1 ⟨rfl, hc⟩
      omega
    cases ext with
    | false =>
      simp only [if_true, Bool.false_eq_true, if_false]
      refine ⟨k1, k2, k3, k4, k5, k6, k7, hpal, hr3, Or.inl ⟨trivial, _, lookupFont_single' _, ?_, ?_⟩⟩
      · exact mkFont_shape fs _ hfs1 hfs2 (by rw [List.length_take]; omega)
      · intro e he; simp only [List.mem_cons, List.not_mem_nil, or_false] at he; rw [he]
    | true =>
      have hl2 : 2 * (fs * 256) ≤ rest2.length := by
        have : ¬ (rest2.length < 2 * (fs * 256)) := fun hc => hfl2 ⟨rfl, rfl, hc⟩
        omega
      simp only [if_true]
      refine ⟨k1, k2, k3, k4, k5, k6, k7, hpal, hr3, Or.inr ⟨trivial, _, _, rfl, ?_, ?_, rfl⟩⟩
      · exact mkFont_shape fs _ hfs1 hfs2 (by rw [List.length_take]; omega)
      · exact mkFont_shape fs _ hfs1 hfs2 (by rw [List.length_take, List.length_drop]; omega)

/-- the image data: cells of the right shape into the buffer, rows cropped -/
theorem xbImage_ok (b3 : LBuf) (w : Nat) (comp ice ext : Bool) (rest3 : List Nat) (g : LBuf) (hr3 : ∀ b ∈ rest3, b < 256)
    (hl : b3.lines = []) (hlh : 0 ≤ b3.lh) (h : xbImage b3 w comp ice ext rest3 = .ok g) :
    SameFrame b3 g ∧ g.lh = g.bh ∧ 0 ≤ g.bh ∧ g.bh ≤ b3.lh ∧ CellsOK (XbCell ice ext) g.lines := by
  unfold xbImage at h
  simp only at h
  split at h
  · cases h
  rename_i ps hps
  have hg := Out.ok.inj h
  have hmem : ∀ p ∈ ps, p.1 ∈ rest3 ∧ p.2 ∈ rest3 := by
    cases comp
    · simp only [Bool.false_eq_true, if_false] at hps
      rw [← Option.some.inj hps]; exact readUncompressed_mem rest3
    · simp only [if_true] at hps
      exact readCompressed_mem rest3 ps hps
  have hfr := placeAll_frame false false 0 (w - 1) (ps.map (decodeChar ice ext)) b3 0 0
  have hal := placeAll_alloc 0 (w - 1) (ps.map (decodeChar ice ext)) b3 0 0 (by rw [hl]; exact hlh)
  have hok := placeAll_lines (XbCell ice ext) false false 0 (w - 1) (ps.map (decodeChar ice ext)) b3 0 0 (by rw [hl]; exact cellsOK_nil _)
    (by
      intro c hc _
      obtain ⟨p, hp, rfl⟩ := List.mem_map.mp hc
      obtain ⟨h1, h2⟩ := hmem p hp
      have := decodeChar_cell ice ext p.1 p.2 (hr3 _ h1) (hr3 _ h2)
      exact this)
  rw [← hg]
  refine ⟨SameFrame.trans hfr (crop_frame _), rfl, ?_, ?_, cellsOK_crop _ _ hok⟩
  · show (0 : Int) ≤ ((popEmpty (placeAll false false 0 (w - 1) b3 0 0 (ps.map (decodeChar ice ext))).1.lines).length : Int)
    omega
  · show ((popEmpty (placeAll false false 0 (w - 1) b3 0 0 (ps.map (decodeChar ice ext))).1.lines).length : Int) ≤ b3.lh
    have := popEmpty_length (placeAll false false 0 (w - 1) b3 0 0 (ps.map (decodeChar ice ext))).1.lines
    have h2 := hal.1
    rw [hal.2.1] at h2
    omega

theorem xb_range (data : List Nat) (hb : ∀ b ∈ data, b < 256) (s : Option Sauce.Sauce) (g : LBuf) (h : xbLoad data s = .ok g) :
    XbRange s g := by
  unfold xbLoad at h
  obtain ⟨bw0, lw0, bh0, lh0, im0, hst⟩ := xb_start s
  rw [hst] at h
  match data, hb, h with
  | i0 :: i1 :: i2 :: i3 :: _eof :: wl :: wh :: hl :: hh :: fs0 :: flags :: rest, hb, h =>
    have hhl : hl < 256 := hb hl (by simp)
    have hhh : hh < 256 := hb hh (by simp)
    have hbr : ∀ b ∈ rest, b < 256 := fun b hbm => hb b (by simp [hbm])
    dsimp only at h
    by_cases c0 : ([i0, i1, i2, i3] != [88, 66, 73, 78]) = true
    · rw [if_pos c0] at h; cases h
    rw [if_neg c0] at h
    by_cases hw : (wl + wh * 256 < 1 ∨ wl + wh * 256 > 4096)
    · rw [if_pos hw] at h; cases h
    rw [if_neg hw] at h
    by_cases hfs : (if fs0 = 0 then 16 else fs0) > 32
    · rw [if_pos hfs] at h; cases h
    rw [if_neg hfs] at h
    generalize hfsv : (if fs0 = 0 then 16 else fs0) = fs at h hfs
    have hfs1 : 1 ≤ fs := by rw [← hfsv]; split <;> omega
    have hfs2 : fs ≤ 32 := by omega
    generalize (flags &&& Xb.flagPalette == Xb.flagPalette) = hasPal at h
    generalize (flags &&& Xb.flagFont == Xb.flagFont) = hasFont at h
    generalize (flags &&& Xb.flagCompress == Xb.flagCompress) = comp at h
    generalize (flags &&& Xb.flagNonBlink == Xb.flagNonBlink) = ice at h
    generalize (flags &&& Xb.flag512 == Xb.flag512) = ext at h
    obtain ⟨b1, hb1'⟩ : ∃ b1 : LBuf, b1 = (⟨wl + wh * 256, ((hl + hh * 256 : Nat) : Int), wl + wh * 256, ((hl + hh * 256 : Nat) : Int), [],
        (if ice = true then IceMode.ice else IceMode.blink), dosPalette, sauceFonts0 s, s.map metaOf⟩ : LBuf) := ⟨_, rfl⟩
    have hb1 := hb1'.symm
    rw [hb1] at h
    cases hx : xbBlocks b1 hasPal hasFont ext fs rest with
    | err => rw [hx] at h; cases h
    | panic => rw [hx] at h; cases h
    | ok r =>
      rw [hx] at h
      obtain ⟨b3, rest3⟩ := r
      dsimp only at h
      obtain ⟨f00, hf00, hs00⟩ := sauceFonts0_ok s
      obtain ⟨q1, q2, q3, q4, q5, q6, q7, q8, q9, q10⟩ := xbBlocks_ok b1 hasPal hasFont ext fs rest b3 rest3 hbr hfs1 hfs2
        (by rw [← hb1]; exact pal16_dos) (by rw [← hb1]; exact ⟨f00, hf00, hs00⟩) hx
      have hl3 : b3.lines = [] := by rw [q5, ← hb1]
      have hlh3 : b3.lh = ((hl + hh * 256 : Nat) : Int) := by rw [q4, ← hb1]
      obtain ⟨p1, p2, p3, p4, p5⟩ := xbImage_ok b3 (wl + wh * 256) comp ice ext rest3 g q9 hl3 (by rw [hlh3]; omega) h
      have hice : g.ice = if ice = true then IceMode.ice else IceMode.blink := by rw [p1.ice, q6, ← hb1]
      have hicb : (g.ice == IceMode.ice) = ice := by rw [hice]; cases ice <;> rfl
      refine ⟨?_, ?_, ?_, p3, p2, ?_, ?_, ?_, ext, ?_, ?_⟩
      · rw [p1.bw, q1, ← hb1]; show 1 ≤ wl + wh * 256; omega
      · rw [p1.bw, q1, ← hb1]; show wl + wh * 256 ≤ 4096; omega
      · rw [hlh3] at p4; omega
      · rw [hice]; cases ice
        · left; rfl
        · right; rfl
      · rw [p1.pal]; exact q8
      · rw [p1.sauce, q7, ← hb1]
      · rw [hicb]; exact p5
      · rw [p1.fonts]; exact q10
  | [], _, h => cases h
  | [_], _, h => cases h
  | [_, _], _, h => cases h
  | [_, _, _], _, h => cases h
  | [_, _, _, _], _, h => cases h
  | [_, _, _, _, _], _, h => cases h
  | [_, _, _, _, _, _], _, h => cases h
  | [_, _, _, _, _, _, _], _, h => cases h
  | [_, _, _, _, _, _, _, _], _, h => cases h
  | [_, _, _, _, _, _, _, _, _], _, h => cases h
  | [_, _, _, _, _, _, _, _, _, _], _, h => cases h

end IcyVerif.BinFormats

namespace IcyVerif.BinFormats
open IcyVerif.XbCompress IcyVerif.Gen

theorem lookup_mem (fonts : List (Nat × Font)) (k : Nat) (f : Font) (h : lookupFont fonts k = some f) : (k, f) ∈ fonts := by
  unfold lookupFont at h
  induction fonts with
  | nil => simp [List.lookup] at h
  | cons e es ih =>
    obtain ⟨a, b⟩ := e
    simp only [List.lookup] at h
    split at h
    · rename_i heq
      have : k = a := by simpa using heq
      subst this
      rw [Option.some.inj h]; simp
    · exact List.mem_cons_of_mem _ (ih h)

/-- a loaded XBin picture with at least one row is in the writer's domain — unless a 512-character file uses its second
    font only.  (Merge note: the former second exception — a font block that is NOT the default font but has its checksum,
    which `guess_font_name` names like the default font — is gone: the repaired writer leaves a font out only when name AND
    glyphs are the default font's, C17 `fixed:` `xbin_font_named_default`.) -/
theorem xb_loaded_representable (o : Opts) (s : Option Sauce.Sauce) (g : LBuf) (hr : XbRange s g) (hm : metaOk g.sauce = true)
    (hh : 1 ≤ g.bh) (hp1 : analyzeFontUsage g.toPic.rows.flatten ≠ [1]) :
    Representable .xb o g.toPic = true := by
  unfold Representable
  have hwf := toPic_wellFormed g hh
  obtain ⟨ext, hcells, hfonts⟩ := hr.fonts
  have hac : allCells g.toPic (attrCell (g.toPic.ice == .ice)) = true :=
    allCells_toPic _ _ g hcells (fun c _ hc => hc.1) (attrCell_dflt _) (attrCell_invisible _)
  have hice : (g.toPic.ice == IceMode.blink || g.toPic.ice == IceMode.ice) = true := by
    show (g.ice == IceMode.blink || g.ice == IceMode.ice) = true
    rcases hr.ice with h | h <;> rw [h] <;> rfl
  have hhmax : g.toPic.h ≤ 65535 := by show g.bh.toNat ≤ 65535; have := hr.hmax; omega
  have hne := toPic_flatten_ne g hh hr.w1
  simp only [Bool.and_eq_true, beq_iff_eq, decide_eq_true_eq, Bool.or_eq_true]
  refine ⟨⟨hm, hwf⟩, ?_⟩
  rcases hfonts with ⟨hext, f0, hf0, hs0, _⟩ | ⟨hext, f0, f1, hfs, hs0, hs1, hhe⟩
  · -- one font
    subst hext
    have hpg : analyzeFontUsage g.toPic.rows.flatten = [0] :=
      toPic_usage_zero g hh hr.w1 (fun l hl c hc hv => by have := (hcells l hl c hc hv).2; simpa using this)
    have hf0' : lookupFont g.toPic.fonts 0 = some f0 := hf0
    rw [hpg, hf0']
    refine ⟨⟨⟨⟨⟨⟨⟨hr.w1, hr.w2⟩, hhmax⟩, ?_⟩, hac⟩, hr.pal⟩, Or.inl rfl⟩, ?_⟩
    · simpa using hice
    · simp only [Bool.and_eq_true, Bool.or_eq_true]
      exact ⟨fontOk_of f0 hs0, Or.inl (by decide)⟩
  · -- two fonts
    subst hext
    have hp01 : ∀ c ∈ g.toPic.rows.flatten, c.attr.page = 0 ∨ c.attr.page = 1 := by
      intro c hc
      obtain ⟨y, hy⟩ := mem_toPic_flatten g c hc
      rcases mem_rowCells g y c hy with h1 | h1 | ⟨hv, line, hl, hcl⟩
      · rw [h1]; left; rfl
      · rw [h1]; left; rfl
      · have := (hcells line hl c hcl hv).2
        simp only [if_true] at this
        exact this.1
    have hf0 : lookupFont g.toPic.fonts 0 = some f0 := by show lookupFont g.fonts 0 = _; rw [hfs]; simp [lookupFont, List.lookup]
    have hf1 : lookupFont g.toPic.fonts 1 = some f1 := by show lookupFont g.fonts 1 = _; rw [hfs]; simp [lookupFont, List.lookup]
    have h8 : allCells g.toPic (fun c => decide (c.attr.fg < 8) && !isBold c.attr) = true :=
      allCells_toPic _ _ g hcells
        (fun c _ hc => by
          have := hc.2
          simp only [if_true] at this
          simp only [Bool.and_eq_true, decide_eq_true_eq, Bool.not_eq_true']
          exact ⟨this.2.1, this.2.2⟩)
        (by decide) (by decide)
    rw [hf0]
    rcases usage_01 _ hne hp01 with hpg | hpg | hpg
    · rw [hpg]
      refine ⟨⟨⟨⟨⟨⟨⟨hr.w1, hr.w2⟩, hhmax⟩, ?_⟩, hac⟩, hr.pal⟩, Or.inl rfl⟩, ?_⟩
      · simpa using hice
      · simp only [Bool.and_eq_true, Bool.or_eq_true]
        exact ⟨fontOk_of f0 hs0, Or.inl (by decide)⟩
    · exact absurd hpg hp1
    · rw [hpg, hf1]
      refine ⟨⟨⟨⟨⟨⟨⟨hr.w1, hr.w2⟩, hhmax⟩, ?_⟩, hac⟩, hr.pal⟩, Or.inr rfl⟩, ?_⟩
      · simpa using hice
      · simp only [Bool.and_eq_true, Bool.or_eq_true, beq_iff_eq]
        exact ⟨fontOk_of f0 hs0, Or.inr ⟨⟨fontOk_of f1 hs1, hhe⟩, h8⟩⟩

end IcyVerif.BinFormats
