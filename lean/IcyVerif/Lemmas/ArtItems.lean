import IcyVerif.Lemmas.ArtFinish
/-! # Rows with skipped cells (cursor forward) and the general crop lemma (C04, compression)

A compressed ANSI row is a sequence of ITEMS: a printed cell (`some c`) or a cell the writer skipped with `CSI n C`
(`none`: the caret moves one column, nothing is written, the layer keeps showing what it showed — the default cell on a
fresh row).  A skipped cell never sits in the last column (the writer prints a run that reaches the right margin). -/
set_option linter.unusedSimpArgs false
namespace IcyVerif.ArtIO

def Screen.item (s : Screen) : Option Cell → Screen
  | some c => s.put c
  | none => s.right 1

def Screen.runItems (s : Screen) (items : List (Option Cell)) : Screen := items.foldl Screen.item s

theorem runItems_nil (s : Screen) : s.runItems [] = s := rfl
theorem runItems_cons (s : Screen) (i : Option Cell) (is : List (Option Cell)) : s.runItems (i :: is) = (s.item i).runItems is := rfl
theorem runItems_append (s : Screen) (a b : List (Option Cell)) : s.runItems (a ++ b) = (s.runItems a).runItems b := by
  simp [Screen.runItems, List.foldl_append]

/-- one column to the right, away from the margin -/
theorem right_one (s : Screen) (h : s.cx + 1 < s.w) (hw : s.w ≤ 100000) : s.right 1 = { s with cx := s.cx + 1 } := by
  unfold Screen.right Screen.limit
  have e1 : min (s.cx + 1) 2147483647 = s.cx + 1 := by omega
  simp only [e1]
  have e2 : min (s.cx + 1) (s.w - 1) = s.cx + 1 := by omega
  rw [e2]

/-- `n` columns to the right, away from the margin, is `n` single steps -/
theorem right_n (n : Nat) : ∀ (s : Screen), s.cx + n < s.w → s.w ≤ 100000 →
    s.right n = s.runItems (List.replicate n none) := by
  induction n with
  | zero =>
    intro s h hw
    unfold Screen.right Screen.limit
    have e1 : min (s.cx + 0) 2147483647 = s.cx := by omega
    have e2 : min s.cx (s.w - 1) = s.cx := by omega
    simp only [e1, e2]; rfl
  | succ k ih =>
    intro s h hw
    rw [List.replicate_succ, runItems_cons]
    show _ = (s.right 1).runItems _
    rw [right_one s (by omega) hw]
    have I := ih ({ s with cx := s.cx + 1 } : Screen) (by show s.cx + 1 + k < s.w; omega) hw
    rw [← I]
    unfold Screen.right Screen.limit
    have e1 : min (s.cx + (k + 1)) 2147483647 = s.cx + (k + 1) := by omega
    have e2 : min (s.cx + 1 + k) 2147483647 = s.cx + 1 + k := by omega
    simp only [e1, e2]
    have : s.cx + (k + 1) = s.cx + 1 + k := by omega
    rw [this]

/-- printing the same cell `n` times is `n` items -/
theorem puts_replicate (n : Nat) (c : Cell) (s : Screen) :
    (List.replicate n c).foldl Screen.put s = s.runItems (List.replicate n (some c)) := by
  induction n generalizing s with
  | zero => rfl
  | succ k ih => rw [List.replicate_succ, List.replicate_succ, List.foldl_cons, runItems_cons, ih]; rfl

/-- what is shown where an item went: the printed cell, or what was there before -/
def itemShown (it : Option Cell) (old : Cell) : Cell :=
  match it with
  | some c => shown c
  | none => old

/-- what a row of items does when it fits into the screen row and no skipped item is the one that reaches the margin -/
structure ItemsSpec (s s' : Screen) (items : List (Option Cell)) : Prop where
  w_eq : s'.w = s.w
  pos_in : s.cx + items.length < s.w → s'.cx = s.cx + items.length ∧ s'.cy = s.cy
  pos_wrap : items ≠ [] → s.cx + items.length = s.w → s'.cx = 0 ∧ s'.cy = s.cy + 1
  view : ∀ x' y', shownAt s'.lines x' y' =
    if y' = s.cy ∧ s.cx ≤ x' ∧ x' < s.cx + items.length then
      itemShown (items.getD (x' - s.cx) none) (shownAt s.lines x' y')
    else shownAt s.lines x' y'

/-- a skipped item at index `i` leaves room: its column is not the last one -/
def SkipsInside (s : Screen) (items : List (Option Cell)) : Prop :=
  ∀ i, i < items.length → items.getD i none = none → s.cx + i + 1 < s.w

theorem items_spec (items : List (Option Cell)) : ∀ (s : Screen), s.cx + items.length ≤ s.w → s.w ≤ 100000 →
    SkipsInside s items → ItemsSpec s (s.runItems items) items := by
  induction items with
  | nil =>
    intro s _ _ _
    refine ⟨rfl, fun _ => ⟨by simp [runItems_nil], by simp [runItems_nil]⟩, fun h => absurd rfl h, ?_⟩
    intro x' y'
    have : ¬ (y' = s.cy ∧ s.cx ≤ x' ∧ x' < s.cx + ([] : List (Option Cell)).length) := by
      intro ⟨_, h1, h2⟩; simp at h2; omega
    rw [if_neg this]; rfl
  | cons it rest ih =>
    intro s hfit hw hskip
    have hlen : (it :: rest).length = rest.length + 1 := rfl
    have hcx : s.cx < s.w := by rw [hlen] at hfit; omega
    rw [runItems_cons]
    -- position and view after the first item
    have hfirst : (s.cx + 1 < s.w → (s.item it).cx = s.cx + 1 ∧ (s.item it).cy = s.cy) ∧ (s.item it).w = s.w ∧
        (∀ x' y', shownAt (s.item it).lines x' y' =
          if x' = s.cx ∧ y' = s.cy then itemShown it (shownAt s.lines x' y') else shownAt s.lines x' y') ∧
        (s.cx + 1 = s.w → (s.item it).cx = 0 ∧ (s.item it).cy = s.cy + 1) := by
      cases it with
      | some c =>
        refine ⟨fun h => put_pos_in s c h, put_w s c hcx, fun x' y' => put_view s c hcx x' y', fun h => put_pos_wrap s c h⟩
      | none =>
        have h1 : s.cx + 0 + 1 < s.w := hskip 0 (by simp) rfl
        have e : s.item none = { s with cx := s.cx + 1 } := right_one s (by omega) hw
        rw [e]
        refine ⟨fun _ => ⟨rfl, rfl⟩, rfl, ?_, fun h => by omega⟩
        intro x' y'
        by_cases hxy : x' = s.cx ∧ y' = s.cy
        · rw [if_pos hxy]; rfl
        · rw [if_neg hxy]
    obtain ⟨f1, f2, f3, f4⟩ := hfirst
    by_cases hin : s.cx + 1 < s.w
    · obtain ⟨px, py⟩ := f1 hin
      have hfit' : (s.item it).cx + rest.length ≤ (s.item it).w := by rw [px, f2]; rw [hlen] at hfit; omega
      have hskip' : SkipsInside (s.item it) rest := by
        intro i hi hn
        have := hskip (i + 1) (by rw [hlen]; omega) (by simpa using hn)
        rw [px, f2]; omega
      have I := ih (s.item it) hfit' (by rw [f2]; exact hw) hskip'
      refine ⟨by rw [I.w_eq, f2], ?_, ?_, ?_⟩
      · intro h
        have := I.pos_in (by rw [px, f2]; rw [hlen] at h; omega)
        rw [px, py] at this
        rw [hlen]; constructor <;> omega
      · intro _ h
        have hne : rest ≠ [] := by
          intro e; subst e; simp at h; omega
        have := I.pos_wrap hne (by rw [px, f2]; rw [hlen] at h; omega)
        rw [py] at this
        exact this
      · intro x' y'
        rw [I.view, f3, px, py]
        by_cases hy : y' = s.cy
        · by_cases h0 : x' = s.cx
          · subst h0
            have c1 : ¬ (y' = s.cy ∧ s.cx + 1 ≤ s.cx ∧ s.cx < s.cx + 1 + rest.length) := by omega
            have c2 : y' = s.cy ∧ s.cx ≤ s.cx ∧ s.cx < s.cx + (it :: rest).length := by rw [hlen]; omega
            rw [if_neg c1, if_pos ⟨rfl, hy⟩, if_pos c2]
            simp
          · by_cases h1 : s.cx + 1 ≤ x' ∧ x' < s.cx + 1 + rest.length
            · have c1 : y' = s.cy ∧ s.cx + 1 ≤ x' ∧ x' < s.cx + 1 + rest.length := ⟨hy, h1⟩
              have c2 : y' = s.cy ∧ s.cx ≤ x' ∧ x' < s.cx + (it :: rest).length := by rw [hlen]; omega
              have c3 : ¬ (x' = s.cx ∧ y' = s.cy) := fun h => h0 h.1
              have e : x' - s.cx = (x' - (s.cx + 1)) + 1 := by omega
              rw [if_pos c1, if_pos c2, if_neg c3, e, List.getD_cons_succ]
            · have c1 : ¬ (y' = s.cy ∧ s.cx + 1 ≤ x' ∧ x' < s.cx + 1 + rest.length) := fun h => h1 h.2
              have c2 : ¬ (y' = s.cy ∧ s.cx ≤ x' ∧ x' < s.cx + (it :: rest).length) := by rw [hlen]; omega
              have c3 : ¬ (x' = s.cx ∧ y' = s.cy) := fun h => h0 h.1
              rw [if_neg c1, if_neg c2, if_neg c3]
        · have c1 : ¬ (y' = s.cy ∧ s.cx + 1 ≤ x' ∧ x' < s.cx + 1 + rest.length) := fun h => hy h.1
          have c2 : ¬ (y' = s.cy ∧ s.cx ≤ x' ∧ x' < s.cx + (it :: rest).length) := fun h => hy h.1
          have c3 : ¬ (x' = s.cx ∧ y' = s.cy) := fun h => hy h.2
          rw [if_neg c1, if_neg c2, if_neg c3]
    · have hwe : s.cx + 1 = s.w := by omega
      have hrest : rest = [] := by
        cases rest with
        | nil => rfl
        | cons a b => simp at hfit; omega
      subst hrest
      obtain ⟨px, py⟩ := f4 hwe
      rw [runItems_nil]
      refine ⟨f2, fun h => by simp at h; omega, fun _ _ => ⟨px, py⟩, ?_⟩
      intro x' y'
      rw [f3]
      by_cases hxy : x' = s.cx ∧ y' = s.cy
      · obtain ⟨hx, hy⟩ := hxy
        subst hx; subst hy
        have c2 : s.cy = s.cy ∧ s.cx ≤ s.cx ∧ s.cx < s.cx + [it].length := by simp
        rw [if_pos ⟨rfl, rfl⟩, if_pos c2]; simp
      · have c2 : ¬ (y' = s.cy ∧ s.cx ≤ x' ∧ x' < s.cx + [it].length) := by
          intro ⟨h1, h2, h3⟩; simp at h3; exact hxy ⟨by omega, h1⟩
        rw [if_neg hxy, if_neg c2]

/-! ### a row of items with its line break, all rows -/

/-- one row of a compressed picture: the items, then CR LF when the row is short and another row follows -/
def rowItems (w : Nat) (items : List (Option Cell)) (more : Bool) (s : Screen) : Screen :=
  if items.length < w ∧ more = true then (s.runItems items).exec Op.nl else s.runItems items

def picItems (w : Nat) : List (List (Option Cell)) → Screen → Screen
  | [], s => s
  | r :: rest, s => picItems w rest (rowItems w r (!rest.isEmpty) s)

/-- no skipped item in the last column of the screen (row starts at column 0) -/
def RowSkipsInside (w : Nat) (items : List (Option Cell)) : Prop :=
  ∀ i, i < items.length → items.getD i none = none → i + 1 < w

structure RowISpec (s s' : Screen) (items : List (Option Cell)) (more : Bool) : Prop where
  w_eq : s'.w = s.w
  pos : more = true → s'.cx = 0 ∧ s'.cy = s.cy + 1
  view : ∀ x' y', shownAt s'.lines x' y' =
    if y' = s.cy ∧ x' < items.length then itemShown (items.getD x' none) (shownAt s.lines x' y') else shownAt s.lines x' y'

theorem rowItems_spec (s : Screen) (items : List (Option Cell)) (more : Bool) (hcx : s.cx = 0) (hw : 0 < s.w)
    (hw2 : s.w ≤ 100000) (hfit : items.length ≤ s.w) (hsk : RowSkipsInside s.w items) :
    RowISpec s (rowItems s.w items more s) items more := by
  have hsk' : SkipsInside s items := by
    intro i hi hn; rw [hcx]; have := hsk i hi hn; omega
  have P := items_spec items s (by rw [hcx]; omega) hw2 hsk'
  have hview : ∀ x' y', shownAt (s.runItems items).lines x' y' =
      if y' = s.cy ∧ x' < items.length then itemShown (items.getD x' none) (shownAt s.lines x' y') else shownAt s.lines x' y' := by
    intro x' y'
    rw [P.view, hcx]
    by_cases hc : y' = s.cy ∧ x' < items.length
    · have hc' : y' = s.cy ∧ 0 ≤ x' ∧ x' < 0 + items.length := by omega
      rw [if_pos hc, if_pos hc', Nat.sub_zero]
    · have hc' : ¬ (y' = s.cy ∧ 0 ≤ x' ∧ x' < 0 + items.length) := by omega
      rw [if_neg hc, if_neg hc']
  unfold rowItems
  by_cases hnl : items.length < s.w ∧ more = true
  · rw [if_pos hnl]
    obtain ⟨nw, nx, ny, nv, _⟩ := nl_spec (s.runItems items)
    obtain ⟨_, py⟩ := P.pos_in (by rw [hcx]; omega)
    refine ⟨by rw [nw, P.w_eq], fun _ => ⟨nx, by rw [ny, py]⟩, ?_⟩
    intro x' y'; rw [nv, hview]
  · rw [if_neg hnl]
    by_cases hfull : items.length = s.w
    · have hne : items ≠ [] := by intro e; rw [e] at hfull; simp at hfull; omega
      obtain ⟨px, py⟩ := P.pos_wrap hne (by rw [hcx]; omega)
      exact ⟨P.w_eq, fun _ => ⟨px, py⟩, hview⟩
    · have hmore : more = false := by
        cases more with
        | false => rfl
        | true => exact absurd ⟨by omega, rfl⟩ hnl
      exact ⟨P.w_eq, fun h => (by rw [hmore] at h; cases h), hview⟩

theorem picItems_w : ∀ (rows : List (List (Option Cell))) (s : Screen), s.cx = 0 → 0 < s.w → s.w ≤ 100000 →
    (∀ r ∈ rows, r.length ≤ s.w ∧ RowSkipsInside s.w r) → (picItems s.w rows s).w = s.w := by
  intro rows
  induction rows with
  | nil => intro s _ _ _ _; rfl
  | cons r rest ih =>
    intro s hcx hw hw2 hr
    obtain ⟨hf, hs⟩ := hr r List.mem_cons_self
    have R := rowItems_spec s r (!rest.isEmpty) hcx hw hw2 hf hs
    show (picItems s.w rest (rowItems s.w r (!rest.isEmpty) s)).w = s.w
    cases rest with
    | nil => exact R.w_eq
    | cons r2 rest2 =>
      obtain ⟨px, _⟩ := R.pos rfl
      have := ih (rowItems s.w r (!(r2 :: rest2).isEmpty) s) px (by rw [R.w_eq]; exact hw) (by rw [R.w_eq]; exact hw2)
        (by rw [R.w_eq]; exact fun q hq => hr q (List.mem_cons_of_mem _ hq))
      rw [R.w_eq] at this
      exact this

theorem picItems_view : ∀ (rows : List (List (Option Cell))) (s : Screen), s.cx = 0 → 0 < s.w → s.w ≤ 100000 →
    (∀ r ∈ rows, r.length ≤ s.w ∧ RowSkipsInside s.w r) → ∀ x' y',
    shownAt (picItems s.w rows s).lines x' y' =
      if s.cy ≤ y' ∧ y' < s.cy + rows.length ∧ x' < (rows.getD (y' - s.cy) []).length then
        itemShown ((rows.getD (y' - s.cy) []).getD x' none) (shownAt s.lines x' y')
      else shownAt s.lines x' y' := by
  intro rows
  induction rows with
  | nil =>
    intro s _ _ _ _ x' y'
    have : ¬ (s.cy ≤ y' ∧ y' < s.cy + ([] : List (List (Option Cell))).length ∧
        x' < ((([] : List (List (Option Cell))).getD (y' - s.cy) []).length)) := by
      intro ⟨h1, h2, _⟩; simp at h2; omega
    rw [if_neg this]; rfl
  | cons r rest ih =>
    intro s hcx hw hw2 hr x' y'
    obtain ⟨hf, hs⟩ := hr r List.mem_cons_self
    have R := rowItems_spec s r (!rest.isEmpty) hcx hw hw2 hf hs
    show shownAt (picItems s.w rest (rowItems s.w r (!rest.isEmpty) s)).lines x' y' = _
    cases rest with
    | nil =>
      show shownAt (rowItems s.w r (![].isEmpty) s).lines x' y' = _
      rw [R.view]
      by_cases hc : y' = s.cy ∧ x' < r.length
      · have hc' : s.cy ≤ y' ∧ y' < s.cy + [r].length ∧ x' < (([r] : List (List (Option Cell))).getD (y' - s.cy) []).length := by
          obtain ⟨h1, h2⟩ := hc
          subst h1; simp; exact h2
        rw [if_pos hc, if_pos hc']
        obtain ⟨h1, _⟩ := hc
        subst h1; simp
      · have hc' : ¬ (s.cy ≤ y' ∧ y' < s.cy + [r].length ∧ x' < (([r] : List (List (Option Cell))).getD (y' - s.cy) []).length) := by
          intro ⟨h1, h2, h3⟩
          simp at h2
          have e : y' = s.cy := by omega
          subst e; simp at h3; exact hc ⟨rfl, h3⟩
        rw [if_neg hc, if_neg hc']
    | cons r2 rest2 =>
      obtain ⟨px, py⟩ := R.pos rfl
      have pw := R.w_eq
      have I := ih (rowItems s.w r (!(r2 :: rest2).isEmpty) s) px (by rw [pw]; exact hw) (by rw [pw]; exact hw2)
        (by rw [pw]; exact fun q hq => hr q (List.mem_cons_of_mem _ hq)) x' y'
      rw [pw] at I
      rw [I, R.view, py]
      have hlen : (r :: r2 :: rest2).length = (r2 :: rest2).length + 1 := rfl
      rcases Nat.lt_trichotomy y' s.cy with hlt | heq | hgt
      · have c1 : ¬ (s.cy + 1 ≤ y' ∧ y' < s.cy + 1 + (r2 :: rest2).length ∧ x' < ((r2 :: rest2).getD (y' - (s.cy + 1)) []).length) := by omega
        have c2 : ¬ (y' = s.cy ∧ x' < r.length) := by omega
        have c3 : ¬ (s.cy ≤ y' ∧ y' < s.cy + (r :: r2 :: rest2).length ∧ x' < ((r :: r2 :: rest2).getD (y' - s.cy) []).length) := by omega
        rw [if_neg c1, if_neg c2, if_neg c3]
      · subst heq
        have c1 : ¬ (s.cy + 1 ≤ s.cy ∧ s.cy < s.cy + 1 + (r2 :: rest2).length ∧ x' < ((r2 :: rest2).getD (s.cy - (s.cy + 1)) []).length) := by omega
        rw [if_neg c1]
        by_cases hx : x' < r.length
        · have c3 : s.cy ≤ s.cy ∧ s.cy < s.cy + (r :: r2 :: rest2).length ∧ x' < ((r :: r2 :: rest2).getD (s.cy - s.cy) []).length := by
            refine ⟨Nat.le_refl _, by rw [hlen]; omega, ?_⟩
            simp; exact hx
          rw [if_pos ⟨rfl, hx⟩, if_pos c3]; simp
        · have c3 : ¬ (s.cy ≤ s.cy ∧ s.cy < s.cy + (r :: r2 :: rest2).length ∧ x' < ((r :: r2 :: rest2).getD (s.cy - s.cy) []).length) := by
            intro ⟨_, _, h3⟩; simp at h3; exact hx h3
          have c2 : ¬ (s.cy = s.cy ∧ x' < r.length) := fun h => hx h.2
          rw [if_neg c2, if_neg c3]
      · have e : y' - s.cy = (y' - (s.cy + 1)) + 1 := by omega
        have g : (r :: r2 :: rest2).getD (y' - s.cy) [] = (r2 :: rest2).getD (y' - (s.cy + 1)) [] := by
          rw [e]; rfl
        have c2 : ¬ (y' = s.cy ∧ x' < r.length) := by omega
        rw [if_neg c2, g]
        by_cases hc : s.cy + 1 ≤ y' ∧ y' < s.cy + 1 + (r2 :: rest2).length ∧ x' < ((r2 :: rest2).getD (y' - (s.cy + 1)) []).length
        · have c3 : s.cy ≤ y' ∧ y' < s.cy + (r :: r2 :: rest2).length ∧ x' < ((r2 :: rest2).getD (y' - (s.cy + 1)) []).length := by
            rw [hlen]; omega
          rw [if_pos hc, if_pos c3]
        · have c3 : ¬ (s.cy ≤ y' ∧ y' < s.cy + (r :: r2 :: rest2).length ∧ x' < ((r2 :: rest2).getD (y' - (s.cy + 1)) []).length) := by
            rw [hlen]; omega
          rw [if_neg hc, if_neg c3]

/-! ### rows positioned with `CSI y H` (longer-terminal output): no line breaks, every row starts at column 0 of its own row -/

/-- `CSI y H` on a non-terminal buffer -/
def Screen.gotoRow (s : Screen) (y : Nat) : Screen := { s with cx := 0, cy := y }

def picItemsL : List (List (Option Cell)) → Nat → Screen → Screen
  | [], _, s => s
  | r :: rest, y, s => picItemsL rest (y + 1) ((s.gotoRow y).runItems r)

theorem picItemsL_w : ∀ (rows : List (List (Option Cell))) (y : Nat) (s : Screen), (picItemsL rows y s).w = s.w := by
  intro rows
  induction rows with
  | nil => intro y s; rfl
  | cons r rest ih =>
    intro y s
    show (picItemsL rest (y + 1) ((s.gotoRow y).runItems r)).w = s.w
    rw [ih]
    have : ∀ (items : List (Option Cell)) (t : Screen), (t.runItems items).w = t.w := by
      intro items
      induction items with
      | nil => intro t; rfl
      | cons it is ih2 =>
        intro t
        rw [runItems_cons, ih2]
        cases it with
        | some c => exact exec_w t (Op.put c)
        | none => rfl
    rw [this]; rfl

theorem picItemsL_view : ∀ (rows : List (List (Option Cell))) (y : Nat) (s : Screen), 0 < s.w → s.w ≤ 100000 →
    (∀ r ∈ rows, r.length ≤ s.w ∧ RowSkipsInside s.w r) → ∀ x' y',
    shownAt (picItemsL rows y s).lines x' y' =
      if y ≤ y' ∧ y' < y + rows.length ∧ x' < (rows.getD (y' - y) []).length then
        itemShown ((rows.getD (y' - y) []).getD x' none) (shownAt s.lines x' y')
      else shownAt s.lines x' y' := by
  intro rows
  induction rows with
  | nil =>
    intro y s _ _ _ x' y'
    have : ¬ (y ≤ y' ∧ y' < y + ([] : List (List (Option Cell))).length ∧
        x' < ((([] : List (List (Option Cell))).getD (y' - y) []).length)) := by
      intro ⟨h1, h2, _⟩; simp at h2; omega
    rw [if_neg this]; rfl
  | cons r rest ih =>
    intro y s hw hw2 hr x' y'
    obtain ⟨hf, hs⟩ := hr r List.mem_cons_self
    have hg : (s.gotoRow y).cx = 0 := rfl
    have hgw : (s.gotoRow y).w = s.w := rfl
    have hsk : SkipsInside (s.gotoRow y) r := by
      intro i hi hn; rw [hg, hgw]; have := hs i hi hn; omega
    have P := items_spec r (s.gotoRow y) (by rw [hg, hgw]; omega) (by rw [hgw]; exact hw2) hsk
    have pw : ((s.gotoRow y).runItems r).w = s.w := by rw [P.w_eq]; rfl
    have I := ih (y + 1) ((s.gotoRow y).runItems r) (by rw [pw]; exact hw) (by rw [pw]; exact hw2)
      (by rw [pw]; exact fun q hq => hr q (List.mem_cons_of_mem _ hq)) x' y'
    show shownAt (picItemsL rest (y + 1) ((s.gotoRow y).runItems r)).lines x' y' = _
    rw [I, P.view]
    have hcy : (s.gotoRow y).cy = y := rfl
    have hln : (s.gotoRow y).lines = s.lines := rfl
    rw [hcy, hg, hln]
    have hlen : (r :: rest).length = rest.length + 1 := rfl
    rcases Nat.lt_trichotomy y' y with hlt | heq | hgt
    · have c1 : ¬ (y + 1 ≤ y' ∧ y' < y + 1 + rest.length ∧ x' < (rest.getD (y' - (y + 1)) []).length) := by omega
      have c2 : ¬ (y' = y ∧ 0 ≤ x' ∧ x' < 0 + r.length) := by omega
      have c3 : ¬ (y ≤ y' ∧ y' < y + (r :: rest).length ∧ x' < ((r :: rest).getD (y' - y) []).length) := by omega
      rw [if_neg c1, if_neg c2, if_neg c3]
    · subst heq
      have c1 : ¬ (y' + 1 ≤ y' ∧ y' < y' + 1 + rest.length ∧ x' < (rest.getD (y' - (y' + 1)) []).length) := by omega
      rw [if_neg c1]
      by_cases hx : x' < r.length
      · have c2 : y' = y' ∧ 0 ≤ x' ∧ x' < 0 + r.length := by omega
        have c3 : y' ≤ y' ∧ y' < y' + (r :: rest).length ∧ x' < ((r :: rest).getD (y' - y') []).length := by
          refine ⟨Nat.le_refl _, by rw [hlen]; omega, ?_⟩
          simp; exact hx
        rw [if_pos c2, if_pos c3]; simp
      · have c2 : ¬ (y' = y' ∧ 0 ≤ x' ∧ x' < 0 + r.length) := by omega
        have c3 : ¬ (y' ≤ y' ∧ y' < y' + (r :: rest).length ∧ x' < ((r :: rest).getD (y' - y') []).length) := by
          intro ⟨_, _, h3⟩; simp at h3; exact hx h3
        rw [if_neg c2, if_neg c3]
    · have e : y' - y = (y' - (y + 1)) + 1 := by omega
      have g : (r :: rest).getD (y' - y) [] = rest.getD (y' - (y + 1)) [] := by rw [e]; rfl
      have c2 : ¬ (y' = y ∧ 0 ≤ x' ∧ x' < 0 + r.length) := by omega
      rw [if_neg c2, g]
      by_cases hc : y + 1 ≤ y' ∧ y' < y + 1 + rest.length ∧ x' < (rest.getD (y' - (y + 1)) []).length
      · have c3 : y ≤ y' ∧ y' < y + (r :: rest).length ∧ x' < (rest.getD (y' - (y + 1)) []).length := by
          rw [hlen]; omega
        rw [if_pos hc, if_pos c3]
      · have c3 : ¬ (y ≤ y' ∧ y' < y + (r :: rest).length ∧ x' < (rest.getD (y' - (y + 1)) []).length) := by
          rw [hlen]; omega
        rw [if_neg hc, if_neg c3]

/-! ### `crop_loaded_file` in general: only rows that show nothing are dropped -/

theorem crop_view : ∀ (fuel : Nat) (lines : List (List Cell)),
    (cropLines fuel lines).length ≤ lines.length ∧
    (∀ x y, y < (cropLines fuel lines).length → shownAt (cropLines fuel lines) x y = shownAt lines x y) ∧
    (∀ x y, (cropLines fuel lines).length ≤ y → shownAt lines x y = defaultCell) := by
  intro fuel
  induction fuel with
  | zero =>
    intro lines
    refine ⟨Nat.le_refl _, fun _ _ _ => rfl, ?_⟩
    intro x y hy
    have hy' : lines.length ≤ y := hy
    show lineShown ((lines[y]?).getD []) x = defaultCell
    rw [List.getElem?_eq_none hy']; exact lineShown_nil x
  | succ f ih =>
    intro lines
    unfold cropLines
    by_cases hc : 1 < lines.length ∧ lines.getLast? = some []
    · rw [if_pos hc]
      obtain ⟨i1, i2, i3⟩ := ih lines.dropLast
      have hdl : lines.dropLast.length = lines.length - 1 := List.length_dropLast
      have hsame : ∀ x y, y < lines.length - 1 → shownAt lines.dropLast x y = shownAt lines x y := by
        intro x y hy
        unfold shownAt
        rw [List.getElem?_dropLast, if_pos hy]
      have hlast : lines[lines.length - 1]? = some [] := by
        have := hc.2; rw [List.getLast?_eq_getElem?] at this; exact this
      refine ⟨by omega, ?_, ?_⟩
      · intro x y hy
        rw [i2 x y hy, hsame x y (by omega)]
      · intro x y hy
        by_cases h1 : y < lines.length - 1
        · rw [← hsame x y h1]; exact i3 x y hy
        · by_cases h2 : y = lines.length - 1
          · show lineShown ((lines[y]?).getD []) x = defaultCell
            rw [h2, hlast]; exact lineShown_nil x
          · show lineShown ((lines[y]?).getD []) x = defaultCell
            rw [List.getElem?_eq_none (by omega)]; exact lineShown_nil x
    · rw [if_neg hc]
      refine ⟨Nat.le_refl _, fun _ _ _ => rfl, ?_⟩
      intro x y hy
      show lineShown ((lines[y]?).getD []) x = defaultCell
      rw [List.getElem?_eq_none hy]; exact lineShown_nil x

end IcyVerif.ArtIO
