import IcyVerif.Lemmas.IgsBlit
set_option linter.unusedSimpArgs false
set_option linter.unusedVariables false
/-! Lemmas about the IGS `DrawExecutor` model, part 6: `flood_fill` (a stack of cells, four neighbours pushed per
coloured cell) ends.  Measure: 4 x (cells that still have the old colour) + stack size; it drops by one with every
cell popped.  So the fuel `4 * width * height + 2` of the model is never used up: at most that many cells are popped,
whatever the seed. -/
namespace IcyVerif.IgsPaint

/-- cells of the screen holding `old` -/
def cntOld (old : Nat) (p : Paint) : Nat := p.screen.toList.count old

theorem cntOld_le (old : Nat) (p : Paint) : cntOld old p ≤ p.screen.size := by
  unfold cntOld
  have := List.count_le_length (a := old) (l := p.screen.toList)
  simpa using this

/-- a cell of the screen: `get_pixel` reads it, `set_pixel` writes it, no panic -/
theorem pixel_at (p : Paint) (hr : p.res < 3) (hs : p.screen.size = (resW p * resH p).toNat) (x y : Int)
    (hx : 0 ≤ x ∧ x < resW p) (hy : 0 ≤ y ∧ y < resH p) (c : Nat) :
    (y * resW p + x).toNat < p.screen.size ∧ getPixel p x y = .ok (p.screen.getD (y * resW p + x).toNat 0) ∧
      setPixel p x y c = .ok { p with screen := p.screen.setIfInBounds (y * resW p + x).toNat c } := by
  obtain ⟨hw, hh⟩ := resWH p hr
  have key : ∀ W H : Int, (W = 320 ∨ W = 640) → (H = 200 ∨ H = 400) → 0 ≤ x → x < W → 0 ≤ y → y < H →
      0 ≤ y * W + x ∧ y * W + x < ((W * H).toNat : Int) ∧ -2147483648 ≤ y * W ∧ y * W ≤ 2147483647 ∧ y * W + x ≤ 2147483647 := by
    intro W H h1 h2 a1 a2 a3 a4
    rcases h1 with rfl | rfl <;> rcases h2 with rfl | rfl <;> omega
  obtain ⟨k1, k2, k3, k4, k5⟩ := key (resW p) (resH p) hw hh hx.1 hx.2 hy.1 hy.2
  have hoff : 0 ≤ y * resW p + x ∧ y * resW p + x < (p.screen.size : Int) := by
    rw [hs]; exact ⟨k1, k2⟩
  have c1 : chk (y * resW p) = .ok (y * resW p) := chk_of_range (by simp only [i32Min]; exact k3) (by simp only [i32Max]; exact k4)
  have c2 : chk (y * resW p + x) = .ok (y * resW p + x) := chk_of_range (by simp only [i32Min]; omega) (by simp only [i32Max]; exact k5)
  refine ⟨by omega, ?_, ?_⟩
  · unfold getPixel offsetOf
    simp only [bind, Res.bind, c1, c2, hoff, and_self, if_true]
    rfl
  · unfold setPixel offsetOf
    simp only [bind, Res.bind, c1, c2, hoff, and_self, if_true]
    rfl

theorem cntOld_set (old col : Nat) (hne : col ≠ old) (p : Paint) (i : Nat) (hi : i < p.screen.size) (hv : p.screen.getD i 0 = old) :
    cntOld old { p with screen := p.screen.setIfInBounds i col } + 1 = cntOld old p := by
  unfold cntOld
  simp only []
  rw [Array.toList_setIfInBounds]
  have hl : i < p.screen.toList.length := by simpa using hi
  rw [List.count_set hl]
  have hget : p.screen.toList[i] = old := by
    have : p.screen.getD i 0 = p.screen[i] := by simp [Array.getD, hi]
    rw [this] at hv
    simpa using hv
  have hpos : 0 < List.count old p.screen.toList := by
    apply List.count_pos_iff.mpr
    rw [← hget]
    exact List.getElem_mem hl
  have h1 : (p.screen.toList[i] == old) = true := by simp [hget]
  have h2 : (col == old) = false := by simp [hne]
  simp only [h1, h2, if_true, Bool.false_eq_true, if_false]
  omega

theorem floodLoop_total (old col : Nat) (hne : col ≠ old) : ∀ (fuel : Nat) (st : List (Int × Int)) (p : Paint), p.res < 3 →
    p.screen.size = (resW p * resH p).toNat → 4 * cntOld old p + st.length ≤ fuel → ∃ p', floodLoop old col fuel st p = .ok p' := by
  intro fuel
  induction fuel with
  | zero =>
    intro st p _ _ hm
    cases st with
    | nil => exact ⟨p, rfl⟩
    | cons a t => simp at hm
  | succ k ih =>
    intro st p hr hs hm
    cases st with
    | nil => exact ⟨p, by unfold floodLoop; rfl⟩
    | cons a t =>
      obtain ⟨x, y⟩ := a
      simp only [List.length_cons] at hm
      unfold floodLoop
      by_cases hout : x < 0 ∨ y < 0 ∨ x ≥ resW p ∨ y ≥ resH p
      · simp only [hout, if_true]
        exact ih t p hr hs (by omega)
      · simp only [hout, if_false]
        have hx : 0 ≤ x ∧ x < resW p := by omega
        have hy : 0 ≤ y ∧ y < resH p := by omega
        obtain ⟨hlt, hget, hset⟩ := pixel_at p hr hs x y hx hy col
        rw [hget, ok_bind]
        by_cases hcp : p.screen.getD (y * resW p + x).toNat 0 ≠ old
        · simp only [hcp, ne_eq, not_false_eq_true, if_true]
          exact ih t p hr hs (by omega)
        · simp only [hcp, if_false]
          have hcp' : p.screen.getD (y * resW p + x).toNat 0 = old := by simpa using hcp
          rw [hset, ok_bind]
          obtain ⟨hw, hh⟩ := resWH p hr
          rw [chk_of_range (v := x - 1) (by simp only [i32Min]; rcases hw with h | h <;> rw [h] at hx <;> omega) (by simp only [i32Max]; rcases hw with h | h <;> rw [h] at hx <;> omega), ok_bind]
          rw [chk_of_range (v := x + 1) (by simp only [i32Min]; rcases hw with h | h <;> rw [h] at hx <;> omega) (by simp only [i32Max]; rcases hw with h | h <;> rw [h] at hx <;> omega), ok_bind]
          rw [chk_of_range (v := y - 1) (by simp only [i32Min]; rcases hh with h | h <;> rw [h] at hy <;> omega) (by simp only [i32Max]; rcases hh with h | h <;> rw [h] at hy <;> omega), ok_bind]
          rw [chk_of_range (v := y + 1) (by simp only [i32Min]; rcases hh with h | h <;> rw [h] at hy <;> omega) (by simp only [i32Max]; rcases hh with h | h <;> rw [h] at hy <;> omega), ok_bind]
          have hc := cntOld_set old col hne p (y * resW p + x).toNat hlt hcp'
          refine ih _ { p with screen := p.screen.setIfInBounds (y * resW p + x).toNat col } hr ?_ ?_
          · show (p.screen.setIfInBounds _ col).size = _
            rw [Array.size_setIfInBounds]
            exact hs
          · simp only [List.length_cons]
            omega

/-- `flood_fill` for EVERY seed: it returns — no overflow, no index out of range, the stack loop ends within its fuel -/
theorem floodFill_total (p : Paint) (hr : p.res < 3) (hs : p.screen.size = (resW p * resH p).toNat) (x0 y0 : Int) :
    ∃ p', floodFill p x0 y0 = .ok p' := by
  unfold floodFill
  by_cases hout : x0 < 0 ∨ y0 < 0 ∨ x0 ≥ resW p ∨ y0 ≥ resH p
  · simp only [hout, if_true]; exact ⟨p, rfl⟩
  · simp only [hout, if_false]
    obtain ⟨_, hget, _⟩ := pixel_at p hr hs x0 y0 (by omega) (by omega) 0
    rw [hget, ok_bind]
    by_cases he : p.screen.getD (y0 * resW p + x0).toNat 0 = p.fillColor
    · simp only [he, if_true]; exact ⟨p, rfl⟩
    · simp only [he, if_false]
      apply floodLoop_total _ _ (fun h => he h.symm) _ _ p hr hs
      have := cntOld_le (p.screen.getD (y0 * resW p + x0).toNat 0) p
      simp only [List.length_cons, List.length_nil]
      rw [hs] at this
      omega

end IcyVerif.IgsPaint

namespace IcyVerif.IgsPaint
theorem Good.setFill {p : Paint} (hg : Good p) (c : Nat) (hc : c < 16) : Good { p with fillColor := c } :=
  ⟨hg.res, hg.size, hg.pix, hg.pens, hg.line, hc, hg.mem⟩
end IcyVerif.IgsPaint
