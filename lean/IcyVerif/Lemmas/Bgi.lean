import IcyVerif.Model.Bgi
set_option linter.unusedSimpArgs false
set_option linter.unusedVariables false
/-! Lemmas about the BGI core model: the screen never changes its length, `put_pixel` cannot index out of range,
the work of `bar_rect` is bounded by the viewport. -/
namespace IcyVerif.Bgi

theorem chk_some {v r : Int} (h : chk v = some r) : r = v ∧ i32Min ≤ v ∧ v ≤ i32Max := by
  unfold chk at h
  split at h
  · cases h; rename_i hc; exact ⟨rfl, hc⟩
  · cases h

theorem chk_of_range {v : Int} (h1 : i32Min ≤ v) (h2 : v ≤ i32Max) : chk v = some v := by
  unfold chk; simp [h1, h2]

-- ------------------------------------------------------------------------------------------------ put_pixel
theorem putPixel_size {s s' : Bgi} {x y : Int} {c : Nat} (h : putPixel s x y c = some s') :
    s'.screen.size = s.screen.size := by
  unfold putPixel at h
  split at h
  · cases h
  · cases h; rfl
  · split at h
    · cases h
    · split at h
      · cases h
      · split at h
        · cases h; simp
        · cases h; rfl

theorem putPixel_frame {s s' : Bgi} {x y : Int} {c : Nat} (h : putPixel s x y c = some s') :
    s'.vp = s.vp ∧ s'.winW = s.winW ∧ s'.winH = s.winH ∧ s'.fillStyle = s.fillStyle ∧ s'.userPat = s.userPat := by
  unfold putPixel at h
  split at h
  · cases h
  · cases h; exact ⟨rfl, rfl, rfl, rfl, rfl⟩
  · split at h
    · cases h
    · split at h
      · cases h
      · split at h
        · cases h; exact ⟨rfl, rfl, rfl, rfl, rfl⟩
        · cases h; exact ⟨rfl, rfl, rfl, rfl, rfl⟩

/-- a viewport whose coordinates are far from the ends of the i32 range (every viewport a RIP stream can set
has coordinates in 0..=1295 and sizes in -1295..=1295) -/
def VpSane (r : Rect) : Prop :=
  -524288 ≤ r.x ∧ r.x ≤ 524288 ∧ -524288 ≤ r.y ∧ r.y ≤ 524288 ∧
  -524288 ≤ r.w ∧ r.w ≤ 524288 ∧ -524288 ≤ r.h ∧ r.h ≤ 524288

theorem contains_sane {r : Rect} (hs : VpSane r) (x y : Int) :
    ∃ b, r.contains x y = some b ∧ (b = true → r.x ≤ x ∧ x ≤ r.x + r.w ∧ r.y ≤ y ∧ y ≤ r.y + r.h) := by
  obtain ⟨h1, h2, h3, h4, h5, h6, h7, h8⟩ := hs
  unfold Rect.contains
  have c1 : chk (r.x + r.w) = some (r.x + r.w) := chk_of_range (by simp only [i32Min]; omega) (by simp only [i32Max]; omega)
  have c2 : chk (r.y + r.h) = some (r.y + r.h) := chk_of_range (by simp only [i32Min]; omega) (by simp only [i32Max]; omega)
  by_cases hx : r.x ≤ x
  · simp only [hx, if_true, c1]
    by_cases hx2 : x ≤ r.x + r.w
    · simp only [hx2, if_true]
      by_cases hy : r.y ≤ y
      · simp only [hy, if_true, c2]
        refine ⟨_, rfl, ?_⟩
        intro hb
        simp at hb
        simp [hb]
      · simp only [hy, if_false]
        exact ⟨false, rfl, by simp⟩
    · simp only [hx2, if_false]
      exact ⟨false, rfl, by simp⟩
  · simp only [hx, if_false]
    exact ⟨false, rfl, by simp⟩

/-- `put_pixel` on any `i32` coordinates: no arithmetic overflow, no index out of range -/
theorem putPixel_total (s : Bgi) (hs : VpSane s.vp) (hw : 0 ≤ s.winW ∧ s.winW ≤ 1024) (x y : Int) (c : Nat) :
    ∃ s', putPixel s x y c = some s' := by
  obtain ⟨b, hb, hbt⟩ := contains_sane hs x y
  unfold putPixel
  rw [hb]
  cases b with
  | false => exact ⟨s, rfl⟩
  | true =>
    simp only []
    obtain ⟨hx1, hx2, hy1, hy2⟩ := hbt rfl
    obtain ⟨h1, h2, h3, h4, h5, h6, h7, h8⟩ := hs
    have hyb : -524288 ≤ y ∧ y ≤ 1048576 := by omega
    have hxb : -524288 ≤ x ∧ x ≤ 1048576 := by omega
    have hmul : -1073741824 ≤ y * s.winW ∧ y * s.winW ≤ 1073741824 := by
      obtain ⟨hw0, hw1⟩ := hw
      constructor
      · have : -524288 * 1024 ≤ y * s.winW := by
          by_cases hy0 : 0 ≤ y
          · have : 0 ≤ y * s.winW := Int.mul_nonneg hy0 hw0
            omega
          · have h' : y * s.winW ≥ y * 1024 := by
              have : (-y) * s.winW ≤ (-y) * 1024 := Int.mul_le_mul_of_nonneg_left hw1 (by omega)
              have e1 : (-y) * s.winW = -(y * s.winW) := Int.neg_mul y s.winW
              have e2 : (-y) * 1024 = -(y * 1024) := Int.neg_mul y 1024
              omega
            omega
        omega
      · by_cases hy0 : 0 ≤ y
        · have h1 : y * s.winW ≤ y * 1024 := Int.mul_le_mul_of_nonneg_left hw1 hy0
          have h2 : y * 1024 ≤ 1048576 * 1024 := by omega
          omega
        · have : y * s.winW ≤ 0 := by
            have : 0 ≤ (-y) * s.winW := Int.mul_nonneg (by omega) hw0
            have e1 : (-y) * s.winW = -(y * s.winW) := Int.neg_mul y s.winW
            omega
          omega
    rw [chk_of_range (by simp only [i32Min]; omega) (by simp only [i32Max]; omega)]
    simp only []
    rw [chk_of_range (by simp only [i32Min]; omega) (by simp only [i32Max]; omega)]
    simp only []
    split
    · exact ⟨_, rfl⟩
    · exact ⟨_, rfl⟩

-- ------------------------------------------------------------------------------------------------ rows
theorem solidRow_spec (count : Nat) : ∀ (scr : Array Nat) (start : Int) (c : Nat),
    (solidRow scr start count c).1.size = scr.size ∧ (solidRow scr start count c).2 ≤ count := by
  induction count with
  | zero => intro scr start c; simp [solidRow]
  | succ k ih =>
    intro scr start c
    unfold solidRow
    split
    · obtain ⟨h1, h2⟩ := ih (scr.setIfInBounds start.toNat c) (start + 1) c
      simp only []
      constructor
      · rw [h1]; simp
      · omega
    · simp

theorem patRow_spec (count : Nat) : ∀ (scr : Array Nat) (start : Int) (pat mask fc bk : Nat),
    (patRow scr start count pat mask fc bk).1.size = scr.size ∧ (patRow scr start count pat mask fc bk).2 ≤ count := by
  induction count with
  | zero => intro scr start pat mask fc bk; simp [patRow]
  | succ k ih =>
    intro scr start pat mask fc bk
    unfold patRow
    split
    · simp only []
      obtain ⟨h1, h2⟩ := ih (scr.setIfInBounds start.toNat (if Nat.land pat mask ≠ 0 then fc else bk)) (start + 1) pat
        (if mask / 2 = 0 then 128 else mask / 2) fc bk
      constructor
      · rw [h1]; simp
      · omega
    · simp

theorem solidRows_spec (rows : Nat) : ∀ (scr : Array Nat) (ystart : Int) (cols : Nat) (winW : Int) (c cost : Nat)
    (scr' : Array Nat) (n : Nat),
    solidRows scr ystart rows cols winW c cost = some (scr', n) →
    scr'.size = scr.size ∧ n ≤ cost + rows * (cols + 1) := by
  induction rows with
  | zero =>
    intro scr ystart cols winW c cost scr' n h
    simp [solidRows] at h
    obtain ⟨h1, h2⟩ := h
    subst h1; subst h2
    simp
  | succ k ih =>
    intro scr ystart cols winW c cost scr' n h
    unfold solidRows at h
    simp only [] at h
    obtain ⟨hs1, hs2⟩ := solidRow_spec cols scr ystart c
    cases hc : chk (ystart + winW) with
    | none => simp [hc] at h
    | some ys =>
      simp only [hc] at h
      obtain ⟨h1, h2⟩ := ih _ _ _ _ _ _ _ _ h
      constructor
      · rw [h1, hs1]
      · have : (k + 1) * (cols + 1) = k * (cols + 1) + (cols + 1) := by
          rw [Nat.add_mul]; simp
        omega

theorem patRows_spec (rows : Nat) : ∀ (scr : Array Nat) (ystart : Int) (cols : Nat) (winW left ypat : Int) (pattern : List Nat)
    (fc bk cost : Nat) (scr' : Array Nat) (n : Nat),
    patRows scr ystart rows cols winW left ypat pattern fc bk cost = some (scr', n) →
    scr'.size = scr.size ∧ n ≤ cost + rows * (cols + 1) := by
  induction rows with
  | zero =>
    intro scr ystart cols winW left ypat pattern fc bk cost scr' n h
    simp [patRows] at h
    obtain ⟨h1, h2⟩ := h
    subst h1; subst h2
    simp
  | succ k ih =>
    intro scr ystart cols winW left ypat pattern fc bk cost scr' n h
    unfold patRows at h
    simp only [] at h
    split at h
    · cases h
    · split at h
      · cases h
      · split at h
        · cases h
        · rename_i pat hpat
          obtain ⟨hs1, hs2⟩ := patRow_spec cols scr ystart pat (128 / 2 ^ (remI left 8).toNat) fc bk
          cases hc : chk (ystart + winW) with
          | none => simp [hc] at h
          | some ys =>
            simp only [hc] at h
            obtain ⟨h1, h2⟩ := ih _ _ _ _ _ _ _ _ _ _ _ _ h
            constructor
            · rw [h1, hs1]
            · have : (k + 1) * (cols + 1) = k * (cols + 1) + (cols + 1) := by
                rw [Nat.add_mul]; simp
              omega

-- ------------------------------------------------------------------------------------------------ bar_rect
theorem intersect_le {a b rc : Rect} (h : a.intersect b = some rc) : rc.w ≤ b.w ∧ rc.h ≤ b.h := by
  unfold Rect.intersect Rect.bottomRight at h
  simp only [] at h
  cases h1 : chk (a.x + a.w) with
  | none => simp [h1] at h
  | some ax =>
    cases h2 : chk (a.y + a.h) with
    | none => simp [h1, h2] at h
    | some ay =>
      cases h3 : chk (b.x + b.w) with
      | none => simp [h1, h2, h3] at h
      | some bx =>
        cases h4 : chk (b.y + b.h) with
        | none => simp [h1, h2, h3, h4] at h
        | some by' =>
          simp only [h1, h2, h3, h4] at h
          cases h5 : chk (min ax bx - max a.x b.x) with
          | none => simp [h5] at h
          | some w =>
            cases h6 : chk (min ay by' - max a.y b.y) with
            | none => simp [h5, h6] at h
            | some hh =>
              simp only [h5, h6] at h
              cases h
              have e3 := (chk_some h3).1
              have e4 := (chk_some h4).1
              have e5 := (chk_some h5).1
              have e6 := (chk_some h6).1
              simp only []
              omega

/-- `bar_rect`: the screen keeps its length and the number of loop iterations is bounded by the viewport,
whatever the rectangle is -/
theorem barRectCost_spec {s s' : Bgi} {r : Rect} {n : Nat} (h : barRectCost s r = some (s', n)) :
    s'.screen.size = s.screen.size ∧ n ≤ s.vp.h.toNat * (s.vp.w.toNat + 1) ∧
    s'.vp = s.vp ∧ s'.winW = s.winW ∧ s'.winH = s.winH := by
  unfold barRectCost at h
  cases hi : r.intersect s.vp with
  | none => simp [hi] at h
  | some rc =>
    obtain ⟨hw, hh⟩ := intersect_le hi
    simp only [hi] at h
    by_cases hz : rc.w = 0 ∨ rc.h = 0
    · simp only [hz, if_true] at h
      cases h
      exact ⟨rfl, by omega, rfl, rfl, rfl⟩
    · simp only [hz, if_false] at h
      cases hb : rc.bottomRight with
      | none => simp [hb] at h
      | some rb =>
        obtain ⟨right, bottom⟩ := rb
        simp only [hb] at h
        have hrb : right = rc.x + rc.w ∧ bottom = rc.y + rc.h := by
          unfold Rect.bottomRight at hb
          cases c1 : chk (rc.x + rc.w) with
          | none => simp [c1] at hb
          | some a =>
            cases c2 : chk (rc.y + rc.h) with
            | none => simp [c1, c2] at hb
            | some b =>
              simp [c1, c2] at hb
              have := (chk_some c1).1
              have := (chk_some c2).1
              omega
        cases ht : chk (rc.y * s.winW) with
        | none => simp [ht] at h
        | some tw =>
          simp only [ht] at h
          cases hys : chk (tw + rc.x) with
          | none => simp [hys] at h
          | some ystart =>
            simp only [hys] at h
            have hrows : (bottom - rc.y).toNat ≤ s.vp.h.toNat := by omega
            have hcols : (right - rc.x).toNat ≤ s.vp.w.toNat := by omega
            have hmul : ∀ a b c d : Nat, a ≤ c → b ≤ d → a * (b + 1) ≤ c * (d + 1) := by
              intro a b c d h1 h2
              exact Nat.mul_le_mul h1 (by omega)
            split at h
            · cases hr : solidRows s.screen ystart (bottom - rc.y).toNat (right - rc.x).toNat s.winW s.fillColor 0 with
              | none => simp [hr] at h
              | some res =>
                obtain ⟨scr, cost⟩ := res
                simp only [hr] at h
                cases h
                obtain ⟨h1, h2⟩ := solidRows_spec _ _ _ _ _ _ _ _ _ hr
                refine ⟨h1, ?_, rfl, rfl, rfl⟩
                have := hmul _ _ _ _ hrows hcols
                omega
            · cases hr : patRows s.screen ystart (bottom - rc.y).toNat (right - rc.x).toNat s.winW rc.x (remI rc.y 8) (fillPattern s) s.fillColor s.bk 0 with
              | none => simp [hr] at h
              | some res =>
                obtain ⟨scr, cost⟩ := res
                simp only [hr] at h
                cases h
                obtain ⟨h1, h2⟩ := patRows_spec _ _ _ _ _ _ _ _ _ _ _ _ _ hr
                refine ⟨h1, ?_, rfl, rfl, rfl⟩
                have := hmul _ _ _ _ hrows hcols
                omega

theorem barRect_size {s s' : Bgi} {r : Rect} (h : barRect s r = some s') :
    s'.screen.size = s.screen.size ∧ s'.winW = s.winW ∧ s'.winH = s.winH := by
  unfold barRect at h
  cases hc : barRectCost s r with
  | none => simp [hc] at h
  | some res =>
    obtain ⟨s1, n⟩ := res
    simp [hc] at h
    subst h
    obtain ⟨h1, _, _, h3, h4⟩ := barRectCost_spec hc
    exact ⟨h1, h3, h4⟩

theorem bar_size {s s' : Bgi} {l t r b : Int} (h : bar s l t r b = some s') :
    s'.screen.size = s.screen.size ∧ s'.winW = s.winW ∧ s'.winH = s.winH := by
  unfold bar at h
  split at h
  · split at h
    · exact barRect_size h
    · cases h
  · cases h

theorem graphDefaults_size {s s' : Bgi} (h : graphDefaults s = some s') :
    s'.screen.size = s.screen.size ∧ s'.winW = s.winW ∧ s'.winH = s.winH := by
  unfold graphDefaults at h
  cases hb : bar (graphDefaultsPre s) 0 0 s.winW s.winH with
  | none => simp [hb] at h
  | some s1 =>
    simp only [hb] at h
    cases h
    obtain ⟨a, b, c⟩ := bar_size hb
    exact ⟨a, b, c⟩

end IcyVerif.Bgi
