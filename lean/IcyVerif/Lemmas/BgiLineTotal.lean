import IcyVerif.Lemmas.BgiLine
import IcyVerif.Lemmas.BgiTotal
set_option linter.unusedSimpArgs false
set_option linter.unusedVariables false
/-! `Bgi::line` (and `rectangle`, `draw_poly`, `draw_poly_line` built from it) cannot panic in a state whose viewport is
sane: every failure of the model of `line` comes from `put_pixel`, which is total there. -/
namespace IcyVerif.Bgi

def LineOk (s : Bgi) : Prop := VpSane s.vp ∧ 0 ≤ s.winW ∧ s.winW ≤ 1024

theorem LineOk.of_frame {s s' : Bgi} (h : LineOk s) (hv : s'.vp = s.vp) (hw : s'.winW = s.winW) : LineOk s' := by
  unfold LineOk at *; rw [hv, hw]; exact h

theorem pixelRun_total (n : Nat) : ∀ (s : Bgi) (hz : Bool) (fixed lo : Int), LineOk s → ∃ s', pixelRun s hz fixed lo n = some s' := by
  induction n with
  | zero => intro s hz fixed lo _; exact ⟨s, rfl⟩
  | succ k ih =>
    intro s hz fixed lo hl
    unfold pixelRun
    have hp : ∃ s1, (if hz then putPixel s lo fixed s.color else putPixel s fixed lo s.color) = some s1 := by
      cases hz with
      | true => simp only [if_true]; exact putPixel_total s hl.1 ⟨hl.2.1, hl.2.2⟩ _ _ _
      | false => simp only [Bool.false_eq_true, if_false]; exact putPixel_total s hl.1 ⟨hl.2.1, hl.2.2⟩ _ _ _
    obtain ⟨s1, h1⟩ := hp
    rw [h1]
    simp only []
    have f1 : s1.vp = s.vp ∧ s1.winW = s.winW := by
      cases hz with
      | true => simp only [if_true] at h1; exact ⟨(putPixel_frame h1).1, (putPixel_frame h1).2.1⟩
      | false => simp only [Bool.false_eq_true, if_false] at h1; exact ⟨(putPixel_frame h1).1, (putPixel_frame h1).2.1⟩
    exact ih s1 hz fixed (lo + 1) (hl.of_frame f1.1 f1.2)

theorem spanLoop_total (n : Nat) : ∀ (s : Bgi) (isX : Bool) (pos runLo : Int) (runLen : Nat) (inc offset : Int) (cost : Nat), LineOk s →
    ∃ r, spanLoop s isX pos runLo runLen inc n offset cost = some r := by
  induction n with
  | zero => intro s isX pos runLo runLen inc offset cost _; exact ⟨_, rfl⟩
  | succ k ih =>
    intro s isX pos runLo runLen inc offset cost hl
    unfold spanLoop
    split
    · obtain ⟨s1, h1⟩ := pixelRun_total runLen s (!isX) pos runLo hl
      rw [h1]
      simp only []
      obtain ⟨_, b, c, _⟩ := pixelRun_size _ _ _ _ _ _ h1
      exact ih s1 isX _ _ _ _ _ _ (hl.of_frame b c)
    · exact ih s isX _ _ _ _ _ _ hl

theorem fillX_total (s : Bgi) (hl : LineOk s) (y startx count offset : Int) : ∃ r, fillX s y startx count offset = some r := by
  unfold fillX
  split
  · exact ⟨_, rfl⟩
  · obtain ⟨r, h⟩ := spanLoop_total _ s true _ _ _ _ _ 0 hl
    rw [h]
    exact ⟨_, rfl⟩

theorem fillY_total (s : Bgi) (hl : LineOk s) (x startY count offset : Int) : ∃ r, fillY s x startY count offset = some r := by
  unfold fillY
  split
  · exact ⟨_, rfl⟩
  · obtain ⟨r, h⟩ := spanLoop_total _ s false _ _ _ _ _ 0 hl
    rw [h]
    exact ⟨_, rfl⟩

theorem xRuns_total (n : Nat) : ∀ (s : Bgi) (whole step adjUp adjDown px py err offset : Int) (cost : Nat), LineOk s →
    ∃ r, xRuns s whole step adjUp adjDown n px py err offset cost = some r := by
  induction n with
  | zero => intro s whole step adjUp adjDown px py err offset cost _; exact ⟨_, rfl⟩
  | succ k ih =>
    intro s whole step adjUp adjDown px py err offset cost hl
    unfold xRuns
    simp only []
    split
    · rename_i heq
      obtain ⟨r, h⟩ := fillX_total s hl py px _ offset
      rw [h] at heq
      cases heq
    · rename_i s1 o1 c1 heq
      obtain ⟨_, b, c, _⟩ := fillX_area heq
      exact ih s1 _ _ _ _ _ _ _ _ _ (hl.of_frame b c)

theorem yRuns_total (n : Nat) : ∀ (s : Bgi) (whole adv adjUp adjDown px py err offset : Int) (cost : Nat), LineOk s →
    ∃ r, yRuns s whole adv adjUp adjDown n px py err offset cost = some r := by
  induction n with
  | zero => intro s whole adv adjUp adjDown px py err offset cost _; exact ⟨_, rfl⟩
  | succ k ih =>
    intro s whole adv adjUp adjDown px py err offset cost hl
    unfold yRuns
    simp only []
    split
    · rename_i heq
      obtain ⟨r, h⟩ := fillY_total s hl px py _ offset
      rw [h] at heq
      cases heq
    · rename_i s1 o1 c1 heq
      obtain ⟨_, b, c, _⟩ := fillY_area heq
      exact ih s1 _ _ _ _ _ _ _ _ _ (hl.of_frame b c)

theorem lineX_total (s : Bgi) (hl : LineOk s) (px py step : Int) (dx dy : Nat) : ∃ r, lineX s px py step dx dy = some r := by
  unfold lineX
  simp only []
  obtain ⟨r1, h1⟩ := fillX_total s hl py px _ 0
  rw [h1]
  simp only []
  obtain ⟨_, b1, c1, _⟩ := fillX_area (s' := r1.1) (off' := r1.2.1) (cost := r1.2.2) h1
  obtain ⟨r2, h2⟩ := xRuns_total (dy - 1) r1.1 _ _ _ _ _ _ _ r1.2.1 r1.2.2 (hl.of_frame b1 c1)
  rw [h2]
  simp only []
  obtain ⟨_, b2, c2, _⟩ := xRuns_spec _ _ _ _ _ _ _ _ _ _ _ r2.1 r2.2.1 r2.2.2.1 r2.2.2.2.1 r2.2.2.2.2.1 r2.2.2.2.2.2 h2
  obtain ⟨r3, h3⟩ := fillX_total r2.1 ((hl.of_frame b1 c1).of_frame b2 c2) r2.2.2.1 r2.2.1 _ r2.2.2.2.2.1
  rw [h3]
  exact ⟨_, rfl⟩

theorem lineY_total (s : Bgi) (hl : LineOk s) (px py adv : Int) (dx dy : Nat) : ∃ r, lineY s px py adv dx dy = some r := by
  unfold lineY
  simp only []
  obtain ⟨r1, h1⟩ := fillY_total s hl px py _ 0
  rw [h1]
  simp only []
  obtain ⟨_, b1, c1, _⟩ := fillY_area (s' := r1.1) (off' := r1.2.1) (cost := r1.2.2) h1
  obtain ⟨r2, h2⟩ := yRuns_total (dx - 1) r1.1 _ _ _ _ _ _ _ r1.2.1 r1.2.2 (hl.of_frame b1 c1)
  rw [h2]
  simp only []
  obtain ⟨_, b2, c2, _⟩ := yRuns_spec _ _ _ _ _ _ _ _ _ _ _ r2.1 r2.2.1 r2.2.2.1 r2.2.2.2.1 r2.2.2.2.2.1 r2.2.2.2.2.2 h2
  obtain ⟨r3, h3⟩ := fillY_total r2.1 ((hl.of_frame b1 c1).of_frame b2 c2) r2.2.1 r2.2.2.1 _ r2.2.2.2.2.1
  rw [h3]
  exact ⟨_, rfl⟩

/-- `line` for ALL end points in a state with a sane viewport -/
theorem line_total (s : Bgi) (hl : LineOk s) (x1 y1 x2 y2 : Int) : ∃ s', line s x1 y1 x2 y2 = some s' ∧ LineOk s' := by
  have hc : ∃ r, lineCost s x1 y1 x2 y2 = some r := by
    unfold lineCost
    simp only []
    split
    · obtain ⟨r, h⟩ := fillY_total s hl x1 (min y1 y2) _ 0
      rw [h]; exact ⟨_, rfl⟩
    · split
      · obtain ⟨r, h⟩ := fillX_total s hl y1 (min x1 x2) _ 0
        rw [h]; exact ⟨_, rfl⟩
      · split
        · exact lineX_total s hl _ _ _ _ _
        · exact lineY_total s hl _ _ _ _ _
  obtain ⟨r, h⟩ := hc
  obtain ⟨s', n⟩ := r
  obtain ⟨_, b, c, _⟩ := lineCost_spec h
  refine ⟨s', ?_, hl.of_frame b c⟩
  unfold line
  rw [h]
  rfl

end IcyVerif.Bgi
