import IcyVerif.Lemmas.TermFileWrap
import IcyVerif.Lemmas.LoadersDispatch
import IcyVerif.Model.TextLoad
set_option linter.unusedSimpArgs false
set_option linter.unusedVariables false
/-! # The text loaders never panic: from the invariant of the character loop to `Buffer::from_bytes` -/
namespace IcyVerif.TextLoad
open IcyVerif.Term IcyVerif.TermFile IcyVerif.Gen.TextLoad IcyVerif.Bytes IcyVerif.Bytes.Res IcyVerif.Loaders

/-- the SAUCE width clamp of `set_sauce`, as regenerated -/
theorem sauce_clamp : IcyVerif.Gen.Loaders.sauceMaxWidth = 1000 ∧ IcyVerif.Gen.Loaders.sauceDefaultWidth = 80 := by decide

theorem sizeOf_bounds (w0 h0 : Nat) (sauce : Option (Nat × Nat)) (hw1 : 1 ≤ w0) (hw2 : w0 ≤ 1000) (hh : h0 ≤ 65535)
    (hs : ∀ w h, sauce = some (w, h) → h ≤ 65535) :
    1 ≤ (sizeOf w0 h0 sauce).1 ∧ (sizeOf w0 h0 sauce).1 ≤ 1000 ∧ 0 ≤ (sizeOf w0 h0 sauce).2 ∧ (sizeOf w0 h0 sauce).2 ≤ 65535 := by
  unfold sizeOf
  cases sauce with
  | none => simp only []; omega
  | some p =>
    obtain ⟨sw, sh⟩ := p
    have := hs sw sh rfl
    simp only [sauce_clamp.1, sauce_clamp.2]
    by_cases hc : sw = 0 ∨ sw > 1000
    · simp only [hc, if_true]; omega
    · simp only [hc, if_false]; omega

/-- the character loop of every parser a loader runs ends without a panic -/
theorem runKind_ok (k : Kind) (o : Nat → Orc) (w h tabW : Int) (rows : Array Nat) (text : List Char)
    (hw1 : 1 ≤ w) (hw2 : w ≤ 1000) (hh0 : 0 ≤ h) (hh2 : h ≤ 65535) : ∃ p, runKind k o w h tabW rows text = .ok p := by
  cases k with
  | ansi =>
    have hg := runF_good fileCfg o rfl text (initF w h tabW rows) (initF_good w h tabW rows hw1 hw2 hh0 hh2)
    cases hr : runF fileCfg o (initF w h tabW rows) text with
    | error e => rw [hr] at hg; exact hg.elim
    | ok st => simp only [runKind, hr]; exact ⟨_, rfl⟩
  | wrap e =>
    have hg := fwrun_good e o text (initFW w h tabW rows) (initF_good w h tabW rows hw1 hw2 hh0 hh2)
    cases hr : fwrun e o (initFW w h tabW rows) text with
    | error e => rw [hr] at hg; exact hg.elim
    | ok st => simp only [runKind, hr]; exact ⟨_, rfl⟩
  | other e =>
    have hg := forun_good e text (initFO w h tabW rows) (initFO_good w h tabW rows hw1 hw2 hh0 hh2)
    cases hr : forun e (initFO w h tabW rows) text with
    | error e => rw [hr] at hg; exact hg.elim
    | ok st => simp only [runKind, hr]; exact ⟨_, rfl⟩

/-- every row of the regenerated loader table names a parser the model has, with a sane initial size -/
theorem textLoaders_known : ∀ e ∈ textLoaders, (kindOf e.2.1).isSome = true ∧ 1 ≤ e.2.2.1 ∧ e.2.2.1 ≤ 1000 ∧ e.2.2.2.1 ≤ 65535 := by
  decide

theorem parseWith_parsed (parser : String) (w0 h0 : Nat) (pwp : Bool) (data : List Nat) (sauce : Option (Nat × Nat)) (o : Nat → Orc)
    (hk : (kindOf parser).isSome = true) (hw1 : 1 ≤ w0) (hw2 : w0 ≤ 1000) (hh : h0 ≤ 65535)
    (hs : ∀ w h, sauce = some (w, h) → h ≤ 65535) : ∃ p, parseWith parser w0 h0 pwp data sauce o = .parsed p pwp := by
  unfold parseWith
  cases hkk : kindOf parser with
  | none => rw [hkk] at hk; cases hk
  | some k =>
    have hb := sizeOf_bounds w0 h0 sauce hw1 hw2 hh hs
    simp only []
    generalize sizeOf w0 h0 sauce = sz at hb
    obtain ⟨w, h⟩ := sz
    simp only at hb ⊢
    cases pwp with
    | true =>
      obtain ⟨p, hp⟩ := runKind_ok k o w h w0 #[] (decodeText data).1 hb.1 hb.2.1 hb.2.2.1 hb.2.2.2
      simp only [if_true, hp]; exact ⟨_, rfl⟩
    | false =>
      obtain ⟨p, hp⟩ := runKind_ok k o w h w0 (Array.replicate h0 w0) (data.map (fun b => Char.ofNat (b % 256))) hb.1 hb.2.1 hb.2.2.1 hb.2.2.2
      simp only [Bool.false_eq_true, if_false, hp]; exact ⟨_, rfl⟩

theorem parseText_parsed (m : String) (data : List Nat) (sauce : Option (Nat × Nat)) (o : Nat → Orc)
    (hs : ∀ w h, sauce = some (w, h) → h ≤ 65535) (st : Stage) (h : parseText m data sauce o = some st) :
    ∃ p pwp, st = .parsed p pwp := by
  unfold parseText at h
  cases he : loaderEntry m with
  | none => rw [he] at h; cases h
  | some e =>
    rw [he] at h
    obtain ⟨m', parser, w0, h0, pwp, pre⟩ := e
    simp only [Option.some.injEq] at h
    have hmem : (m', parser, w0, h0, pwp, pre) ∈ textLoaders := List.mem_of_find?_eq_some he
    have hk := textLoaders_known _ hmem
    obtain ⟨p, hp⟩ := parseWith_parsed parser w0 h0 pwp data sauce o hk.1 hk.2.1 hk.2.2.1 hk.2.2.2 hs
    rw [hp] at h
    exact ⟨p, pwp, h.symm⟩

/-! ## the size a SAUCE record announces is a 16-bit number -/
theorem satS_triv {α : Type} (x : Bytes.Res α) : x.SatS (fun _ => True) (fun _ => True) := by cases x <;> trivial
theorem satS_anyS {α : Type} {S : String → Prop} {P : α → Prop} {x : Bytes.Res α} (h : x.SatS S P) : x.SatS (fun _ => True) P := by
  cases x with
  | ok a => exact h
  | err => trivial
  | panic s => trivial

theorem sauceInfo_height (d : Bytes) (dateOk : Bool) :
    (sauceInfo d dateOk).SatS (fun _ => True) (fun r => ∀ si, r = some si → si.h < 65536) := by
  unfold sauceInfo
  split
  · intro si h; cases h
  · apply SatS.bind (P := fun _ => True) (satS_triv _); intro o _
    apply SatS.bind (P := fun _ => True) (satS_triv _); intro _ _
    split
    · intro si h; cases h
    · apply SatS.bind (P := fun _ => True) (satS_triv _); intro _ _
      split
      · exact True.intro
      · split
        · exact True.intro
        · apply SatS.bind (P := fun _ => True) (satS_triv _); intro dataType _
          apply SatS.bind (P := fun _ => True) (satS_triv _); intro fileType _
          apply SatS.bind (satS_anyS rdU16_site); intro t1 ht1
          apply SatS.bind (satS_anyS rdU16_site); intro t2 ht2
          apply SatS.bind (P := fun _ => True) (satS_triv _); intro comments _
          dsimp only
          apply SatS.bind (P := fun _ => True) (satS_triv _); intro len _
          apply SatS.bind (P := fun _ => True) (satS_triv _); intro offset _
          apply SatS.bind (P := fun _ => True) (satS_triv _); intro hl _
          intro si h
          cases h
          dsimp only
          split
          · show 25 < 65536; omega
          · split
            · exact ht2
            · split
              · exact ht2
              · show 25 < 65536; omega

theorem dispatchLen_heightS (d : Bytes) (dateOk : Bool) :
    (dispatchLen d dateOk).SatS (fun _ => True) (fun r => ∀ w h, r.2 = some (w, h) → h ≤ 65535) := by
  unfold dispatchLen
  have hsi := sauceInfo_height d dateOk
  cases hs : sauceInfo d dateOk with
  | panic s => trivial
  | err => intro w h hh; cases hh
  | ok r =>
    rw [hs] at hsi
    cases r with
    | none => intro w h hh; cases hh
    | some si =>
      have hlt : si.h < 65536 := hsi si rfl
      dsimp only
      apply SatS.bind (P := fun _ => True) (satS_triv _); intro len _
      apply SatS.bind (P := fun _ => True) (satS_triv _); intro _ _
      intro w h hh
      simp only [Option.some.injEq, Prod.mk.injEq] at hh
      omega

theorem dispatchLen_height (d : Bytes) (dateOk : Bool) (len : Nat) (w h : Nat)
    (hd : dispatchLen d dateOk = .ok (len, some (w, h))) : h ≤ 65535 := by
  have := dispatchLen_heightS d dateOk
  rw [hd] at this
  exact this w h rfl

/-- `Buffer::from_bytes` up to the call of `load_buffer` always produces a content length (with C11's two SAUCE repairs in
    the tree: flags regenerated) -/
theorem dispatchLen_is_ok (d : Bytes) (dateOk : Bool) : ∃ r, dispatchLen d dateOk = .ok r := by
  have hsi := sauceInfo_total (by decide) (by decide) d dateOk
  have h2 := sauceInfo_site d dateOk
  unfold dispatchLen
  cases hs : sauceInfo d dateOk with
  | panic s' => rw [hs] at hsi; exact hsi.elim
  | err => exact ⟨_, rfl⟩
  | ok r =>
    rw [hs] at h2
    cases r with
    | none => exact ⟨_, rfl⟩
    | some si =>
      have hle : si.headerLen ≤ d.size := (h2 si rfl).1
      have hu : usub sFrom d.size si.headerLen = .ok (d.size - si.headerLen) := by
        unfold usub; rw [if_pos hle]
      have hsl : slice sFrom d 0 (d.size - si.headerLen) = .ok () := by
        unfold slice; rw [if_pos ⟨Nat.zero_le _, Nat.sub_le _ _⟩]
      refine ⟨(d.size - si.headerLen, some (si.w, si.h)), ?_⟩
      show (usub sFrom d.size si.headerLen >>= fun len => slice sFrom d 0 len >>= fun _ => pure (len, some (si.w, si.h))) = _
      rw [hu]
      show (slice sFrom d 0 (d.size - si.headerLen) >>= fun _ => pure (d.size - si.headerLen, some (si.w, si.h))) = _
      rw [hsl]
      rfl

end IcyVerif.TextLoad
