import IcyVerif.Lemmas.Comp
set_option linter.unusedSimpArgs false
set_option linter.unusedVariables false
/-! "Topmost first": the walk of `Buffer::get_char` split at the first layer that produces a cell of its own.

Layers that *pass* (hidden, not covering, Chars / Attributes layers, alpha Normal layers with an invisible cell) only
update the modifiers (`ch_opt`, `attr_opt`) and the default font page; the first Normal layer with a visible cell decides
the displayed cell up to its transparent colours (`Cell.fills`), which only layers further down may fill in. -/
namespace IcyVerif.Comp
open IcyVerif.Gen.Comp

/-- `d` is `t` with (at most) its transparent colours replaced: same character, flags and font page, and every colour
    of `t` that is not `TRANSPARENT_COLOR` unchanged -/
def Cell.fills (t d : Cell) : Prop :=
  d.ch = t.ch ∧ d.attr.flags = t.attr.flags ∧ d.attr.page = t.attr.page ∧
  (t.attr.fg ≠ transparentColor → d.attr.fg = t.attr.fg) ∧ (t.attr.bg ≠ transparentColor → d.attr.bg = t.attr.bg)

instance (t d : Cell) : Decidable (Cell.fills t d) := by unfold Cell.fills; infer_instance

theorem Cell.fills_refl (t : Cell) : t.fills t := ⟨rfl, rfl, rfl, fun _ => rfl, fun _ => rfl⟩

theorem Cell.fills_of_eq {t d : Cell} (h : d = t) : t.fills d := h ▸ Cell.fills_refl t

/-- a cell without transparent colours is filled only by itself (up to nothing: all five fields are fixed) -/
theorem Cell.fills_solid {t d : Cell} (h : t.fills d) (ht : t.hasTransparentColor = false) : d = t := by
  unfold Cell.hasTransparentColor at ht
  simp only [Bool.or_eq_false_iff, beq_eq_false_iff_ne, ne_eq] at ht
  obtain ⟨h1, h2, h3, h4, h5⟩ := h
  cases d with | mk dch da => cases da with | mk dfg dbg dfl dpg =>
  cases t with | mk tch ta => cases ta with | mk tfg tbg tfl tpg =>
  simp only at h1 h2 h3 h4 h5 ht
  rw [h1, h2, h3, h4 ht.1, h5 ht.2]

/-- `make_solid_color(t, u)` only fills the transparent colours of `t` in -/
theorem makeSolid_fills (hb : Cell → Nat × Nat) (t u : Cell) : t.fills (makeSolid hb t u) := by
  unfold makeSolid
  simp only
  split
  · refine ⟨rfl, rfl, rfl, ?_, ?_⟩ <;> intro h <;> simp [h]
  · split
    · refine ⟨rfl, rfl, rfl, ?_, ?_⟩ <;> intro h <;> simp [h]
    · refine ⟨rfl, rfl, rfl, ?_, ?_⟩ <;> intro h <;> simp [h]

/-! ### once a transparent-colour cell is remembered it decides the result -/

theorem opaqueTail_some (hb : Cell → Nat × Nat) (st : St) (t : Cell) (h : st.transp = some t) :
    ∃ u, opaqueTail hb st = makeSolid hb t u := by
  unfold opaqueTail
  simp only [h]
  exact ⟨_, rfl⟩

/-- outcome of an iteration that starts with a remembered cell `t` -/
def StepKeeps (t : Cell) : Step → Prop
  | .ret c => t.fills c
  | .next st => st.transp = some t

theorem coveredStep_keeps (hb : Cell → Nat × Nat) (l : Layer) (x y : Int) (st : St) (t : Cell)
    (h : st.transp = some t) : StepKeeps t (coveredStep hb l x y st) := by
  unfold coveredStep
  cases l.mode with
  | normal =>
    simp only
    split
    · split
      · have hn : st.transp.isNone = false := by rw [h]; rfl
        simp only [hn, Bool.false_eq_true, if_false]
        split
        · obtain ⟨u, hu⟩ := opaqueTail_some hb st t h
          show t.fills (opaqueTail hb st)
          rw [hu]; exact makeSolid_fills hb t u
        · exact h
      · rw [h]
        exact makeSolid_fills hb t _
    · split
      · obtain ⟨u, hu⟩ := opaqueTail_some hb st t h
        show t.fills (opaqueTail hb st)
        rw [hu]; exact makeSolid_fills hb t u
      · exact h
  | chars =>
    simp only
    split <;> exact h
  | attributes =>
    simp only
    split <;> exact h

theorem layerStep_keeps (hb : Cell → Nat × Nat) (px py : Int) (l : Layer) (st : St) (t : Cell)
    (h : st.transp = some t) : StepKeeps t (layerStep hb px py l st) := by
  unfold layerStep
  split
  · exact h
  · simp only
    split
    · exact h
    · exact coveredStep_keeps hb l _ _ _ t h

/-- the remembered transparent-colour cell is displayed, with only its transparent colours filled in — whatever the
    layers beneath it hold (Normal, Chars, Attributes, opaque or not) -/
theorem go_fills (hb : Cell → Nat × Nat) (isTerm : Bool) (px py : Int) (L : List Layer) (st : St) (t : Cell)
    (h : st.transp = some t) : t.fills (go hb isTerm px py L st) := by
  induction L generalizing st with
  | nil =>
    unfold go finish
    rw [h]
    exact Cell.fills_refl t
  | cons l L ih =>
    rw [go_cons]
    have hk := layerStep_keeps hb px py l st t h
    cases hs : layerStep hb px py l st with
    | ret c => rw [hs] at hk; exact hk
    | next st' => rw [hs] at hk; exact ih st' hk

/-! ### layers that pass -/

/-- the layer produces no cell of its own at the position and does not stop the walk -/
def Layer.passes (l : Layer) (px py : Int) : Bool :=
  l.skipped px py ||
    match l.mode with
    | .normal => l.alpha && !(l.cellAt px py).isVisible
    | _ => true

/-- a Chars layer that imposes its character here (the `Mode::Chars` arm) -/
def Layer.givesChar (l : Layer) (px py : Int) : Bool :=
  !l.skipped px py && l.mode == .chars && (l.cellAt px py).isVisible && !(l.cellAt px py).isTransparent

/-- an Attributes layer that imposes its attribute here (the `Mode::Attributes` arm) -/
def Layer.givesAttr (l : Layer) (px py : Int) : Bool :=
  !l.skipped px py && l.mode == .attributes && (l.cellAt px py).isVisible

/-- what a passing layer does to the loop state -/
def modStep (px py : Int) (st : St) (l : Layer) : St :=
  if l.skipped px py then st else
  { chOpt := if l.givesChar px py then some (l.cellAt px py).ch else st.chOpt
    attrOpt := if l.givesAttr px py then some (l.cellAt px py).attr else st.attrOpt
    dflt := l.dfltPage
    transp := st.transp }

theorem not_skipped {l : Layer} {px py : Int} (h : l.skipped px py = false) :
    l.visible = true ∧ l.covers px py = true := by
  unfold Layer.skipped at h
  cases h1 : l.visible <;> cases h2 : l.covers px py <;> simp [h1, h2] at h ⊢

theorem layerStep_passes (hb : Cell → Nat × Nat) (px py : Int) (l : Layer) (st : St) (h : l.passes px py = true) :
    layerStep hb px py l st = .next (modStep px py st l) := by
  unfold modStep
  cases hs : l.skipped px py with
  | true => simp only [if_true]; exact layerStep_skipped hb px py l st hs
  | false =>
    obtain ⟨hv, hc⟩ := not_skipped hs
    simp only [Bool.false_eq_true, if_false]
    rw [layerStep_covered hb px py l st hv hc]
    unfold Layer.passes at h
    rw [hs, Bool.false_or] at h
    unfold coveredStep Layer.givesChar Layer.givesAttr Layer.cellAt
    unfold Layer.cellAt at h
    cases hm : l.mode with
    | normal =>
      rw [hm] at h
      simp only [Bool.and_eq_true, Bool.not_eq_true'] at h
      simp [hs, h.1, h.2]
    | chars =>
      simp only [hs]
      cases h1 : (l.getChar (px - l.offX) (py - l.offY)).isVisible <;>
        cases h2 : (l.getChar (px - l.offX) (py - l.offY)).isTransparent <;> simp
    | attributes =>
      simp only [hs]
      cases h1 : (l.getChar (px - l.offX) (py - l.offY)).isVisible <;> simp

theorem go_passes (hb : Cell → Nat × Nat) (isTerm : Bool) (px py : Int) (A rest : List Layer) (st : St)
    (hA : ∀ a ∈ A, a.passes px py = true) :
    go hb isTerm px py (A ++ rest) st = go hb isTerm px py rest (A.foldl (modStep px py) st) := by
  induction A generalizing st with
  | nil => rfl
  | cons a A ih =>
    rw [List.cons_append, go_cons, layerStep_passes hb px py a st (hA a List.mem_cons_self), List.foldl_cons]
    exact ih _ (fun b hb' => hA b (List.mem_cons_of_mem _ hb'))

/-- the character the layers `above` (BOTTOM first, as in `buffer.layers`) impose: the walk overwrites `ch_opt` on the
    way down, so the LOWEST Chars layer with a visible, non-blank cell wins -/
def charFrom (px py : Int) (above : List Layer) : Option Nat :=
  (above.find? fun l => l.givesChar px py).map fun l => (l.cellAt px py).ch

/-- the attribute the layers `above` (bottom first) impose: the lowest Attributes layer with a visible cell wins -/
def attrFrom (px py : Int) (above : List Layer) : Option Attr :=
  (above.find? fun l => l.givesAttr px py).map fun l => (l.cellAt px py).attr

theorem modStep_transp (px py : Int) (st : St) (l : Layer) : (modStep px py st l).transp = st.transp := by
  unfold modStep; split <;> rfl

theorem givesChar_not_skipped {l : Layer} {px py : Int} (h : l.givesChar px py = true) : l.skipped px py = false := by
  unfold Layer.givesChar at h
  cases hs : l.skipped px py with
  | false => rfl
  | true => rw [hs] at h; simp at h

theorem givesAttr_not_skipped {l : Layer} {px py : Int} (h : l.givesAttr px py = true) : l.skipped px py = false := by
  unfold Layer.givesAttr at h
  cases hs : l.skipped px py with
  | false => rfl
  | true => rw [hs] at h; simp at h

theorem modStep_chOpt (px py : Int) (st : St) (l : Layer) :
    (modStep px py st l).chOpt = if l.givesChar px py then some (l.cellAt px py).ch else st.chOpt := by
  unfold modStep
  cases hs : l.skipped px py with
  | false => simp
  | true =>
    have : l.givesChar px py = false := by
      cases hg : l.givesChar px py with
      | false => rfl
      | true => rw [givesChar_not_skipped hg] at hs; exact absurd hs (by decide)
    simp [this]

theorem modStep_attrOpt (px py : Int) (st : St) (l : Layer) :
    (modStep px py st l).attrOpt = if l.givesAttr px py then some (l.cellAt px py).attr else st.attrOpt := by
  unfold modStep
  cases hs : l.skipped px py with
  | false => simp
  | true =>
    have : l.givesAttr px py = false := by
      cases hg : l.givesAttr px py with
      | false => rfl
      | true => rw [givesAttr_not_skipped hg] at hs; exact absurd hs (by decide)
    simp [this]

theorem foldl_transp (px py : Int) (A : List Layer) (st : St) : (A.foldl (modStep px py) st).transp = st.transp := by
  induction A generalizing st with
  | nil => rfl
  | cons a A ih => rw [List.foldl_cons, ih, modStep_transp]

/-- walking down through `above` (top first = `above.reverse`) leaves the modifiers `charFrom` / `attrFrom` -/
theorem foldl_chOpt (px py : Int) (above : List Layer) (st : St) :
    (above.reverse.foldl (modStep px py) st).chOpt = (charFrom px py above).or st.chOpt := by
  induction above with
  | nil => simp [charFrom]
  | cons a r ih =>
    rw [List.reverse_cons, List.foldl_append, List.foldl_cons, List.foldl_nil, modStep_chOpt, ih]
    unfold charFrom
    cases hg : a.givesChar px py with
    | true => simp [List.find?_cons, hg]
    | false => simp [List.find?_cons, hg]

theorem foldl_attrOpt (px py : Int) (above : List Layer) (st : St) :
    (above.reverse.foldl (modStep px py) st).attrOpt = (attrFrom px py above).or st.attrOpt := by
  induction above with
  | nil => simp [attrFrom]
  | cons a r ih =>
    rw [List.reverse_cons, List.foldl_append, List.foldl_cons, List.foldl_nil, modStep_attrOpt, ih]
    unfold attrFrom
    cases hg : a.givesAttr px py with
    | true => simp [List.find?_cons, hg]
    | false => simp [List.find?_cons, hg]

/-- the loop state below a passing stack `above` -/
theorem foldl_init (px py : Int) (above : List Layer) :
    ∃ d, above.reverse.foldl (modStep px py) St.init = ⟨charFrom px py above, attrFrom px py above, d, none⟩ := by
  refine ⟨(above.reverse.foldl (modStep px py) St.init).dflt, ?_⟩
  have h1 := foldl_chOpt px py above St.init
  have h2 := foldl_attrOpt px py above St.init
  have h3 := foldl_transp px py above.reverse St.init
  generalize above.reverse.foldl (modStep px py) St.init = s at *
  cases s with | mk c a d t =>
  simp only [St.init, Option.or_none] at h1 h2 h3
  rw [h1, h2, h3]

/-! ### the deciding layer -/

/-- a Normal layer with a visible cell, reached with no remembered transparent cell -/
theorem go_decider (hb : Cell → Nat × Nat) (isTerm : Bool) (px py : Int) (l : Layer) (rest : List Layer) (st : St)
    (hv : l.visible = true) (hc : l.covers px py = true) (hm : l.mode = .normal)
    (hcell : (l.cellAt px py).isVisible = true) (ht : st.transp = none) :
    (merge (l.cellAt px py) st.chOpt st.attrOpt).fills (go hb isTerm px py (l :: rest) st) := by
  rw [go_cons, layerStep_covered hb px py l st hv hc]
  unfold Layer.cellAt at hcell ⊢
  unfold coveredStep
  simp only [hm, hcell, if_true, ht, Option.isNone_none]
  cases htr : (merge (l.getChar (px - l.offX) (py - l.offY)) st.chOpt st.attrOpt).hasTransparentColor with
  | true =>
    -- the merged cell has a transparent colour: it is remembered
    simp only [if_true]
    cases ha : l.alpha with
    | false =>
      simp only [Bool.not_false, if_true]
      obtain ⟨u, hu⟩ := opaqueTail_some hb
        { chOpt := st.chOpt, attrOpt := st.attrOpt, dflt := l.dfltPage,
          transp := some (merge (l.getChar (px - l.offX) (py - l.offY)) st.chOpt st.attrOpt) } _ rfl
      rw [hu]; exact makeSolid_fills hb _ u
    | true =>
      simp only [Bool.not_true, Bool.false_eq_true, if_false]
      exact go_fills hb isTerm px py rest _ _ rfl
  | false =>
    simp only [Bool.false_eq_true, if_false]
    exact Cell.fills_refl _

/-- an opaque Normal layer with an invisible cell, reached with no remembered transparent cell -/
theorem go_opaque_blank (hb : Cell → Nat × Nat) (isTerm : Bool) (px py : Int) (l : Layer) (rest : List Layer) (st : St)
    (hv : l.visible = true) (hc : l.covers px py = true) (hm : l.mode = .normal) (ha : l.alpha = false)
    (hcell : (l.cellAt px py).isVisible = false) :
    go hb isTerm px py (l :: rest) st = opaqueTail hb { st with dflt := l.dfltPage } := by
  rw [go_cons, layerStep_covered hb px py l st hv hc]
  unfold Layer.cellAt at hcell
  unfold coveredStep
  simp only [hm, hcell, ha, Bool.false_eq_true, if_false, Bool.not_false, if_true]

end IcyVerif.Comp
