import IcyVerif.Lemmas.LoaderCostTdf
set_option linter.unusedSimpArgs false
set_option linter.unusedVariables false
/-! `Buffer::from_bytes` dispatch with counters (C03). -/
namespace IcyVerif.LoaderCost
open IcyVerif.Bytes IcyVerif.Bytes.Res IcyVerif.Loaders IcyVerif.Gen IcyVerif.Gen.Loaders RC

theorem map_geo_eq (x : Res Geo) : (x >>= fun g => Res.ok (Obs.geo g)) = Obs.geo <$> x := by
  cases x <;> rfl

theorem fromBytesC_res (d : Bytes) (ext : String) (dateOk : Bool) : (fromBytesC d ext dateOk).res = fromBytes d ext dateOk := by
  unfold fromBytesC fromBytes
  simp only [res_bind, res_lift]
  congr 1; funext r
  simp only [apply_ite RC.res, res_bind, res_pure, loadXbC_res, loadBinC_res, loadAdfC_res, loadIdfC_res, loadTndC_res, map_geo_eq]
  rfl

theorem extract_size_le (d : Bytes) (n : Nat) : (d.extract 0 n).size ≤ d.size := by
  simp only [Array.size_extract]; omega

theorem fromBytesC_pot (d : Bytes) (ext : String) (dateOk : Bool) :
    (fromBytesC d ext dateOk).Pot (10923 * d.size + 1001) (64 * d.size + 65536) (d.size * d.size + d.size + 4288) (fun _ => True)
      (fun _ => 0) (fun _ => 0) (fun _ => 0) := by
  unfold fromBytesC
  apply Pot.bind_le (pot_lift_any _) (by somega) (by somega) (by somega); intro r _
  dsimp only
  have hs := extract_size_le d r.1
  generalize d.extract 0 r.1 = data at hs
  have hsq : data.size * data.size ≤ d.size * d.size := Nat.mul_le_mul hs hs
  generalize hSq : d.size * d.size = Sq at hsq ⊢
  split
  · have hx := loadXbC_pot data r.2
    have hdiv : 64 * data.size / xbWidth data ≤ 64 * data.size := Nat.div_le_self _ _
    generalize 64 * data.size / xbWidth data = q at hx hdiv
    apply Pot.bind_le hx (by somega) (by somega) (by somega); intro g _
    exact Pot.pure trivial (by somega) (by somega) (by somega)
  · split
    · have hx := loadBinC_pot data r.2
      have hw := binWidth_range r.2
      have hdiv : data.size / binWidth r.2 ≤ data.size := Nat.div_le_self _ _
      generalize data.size / binWidth r.2 = q at hx hdiv
      apply Pot.bind_le hx (by somega) (by somega) (by somega); intro g _
      exact Pot.pure trivial (by somega) (by somega) (by somega)
    · split
      · apply Pot.bind_le (loadAdfC_pot data r.2) (by somega) (by somega) (by somega); intro g _
        exact Pot.pure trivial (by somega) (by somega) (by somega)
      · split
        · apply Pot.bind_le (loadIdfC_pot data r.2) (by somega) (by somega) (by somega); intro g _
          exact Pot.pure trivial (by somega) (by somega) (by somega)
        · split
          · have hx := loadTndC_pot data r.2
            generalize data.size * data.size = sq at hx hsq
            apply Pot.bind_le hx (by somega) (by somega) (by somega); intro g _
            exact Pot.pure trivial (by somega) (by somega) (by somega)
          · exact Pot.pure trivial (by somega) (by somega) (by somega)

theorem fromBytesC_cost (d : Bytes) (ext : String) (dateOk : Bool) :
    (fromBytesC d ext dateOk).res = fromBytes d ext dateOk ∧
    (fromBytesC d ext dateOk).work ≤ 10923 * d.size + 1001 ∧
    (fromBytesC d ext dateOk).rows ≤ 64 * d.size + 65536 ∧
    (fromBytesC d ext dateOk).extra ≤ d.size * d.size + d.size + 4288 :=
  ⟨fromBytesC_res d ext dateOk, (fromBytesC_pot d ext dateOk).bound⟩
