import IcyVerif.Lemmas.ColorOpt
set_option linter.unusedSimpArgs false
set_option linter.unusedVariables false
/-! Lemmas for C12, second part: one step of the optimiser preserves the rendering of the cell (raw and seen
through `Buffer::get_char` of the flat clone), the row / rows loops are pointwise that step, and
`Buffer::get_char` of the flat clone (an alpha layer, after the C12 repairs) is `flatView` of the stored cell. -/
namespace IcyVerif.ColorOpt
open IcyVerif.Comp IcyVerif.Gen.Fonts

def FontsOk (fonts : Nat → Option Font) : Prop := ∀ p f, fonts p = some f → FontOk f

theorem shape_ws {f : Font} {rows : List Nat} (h : shape f rows = .whitespace) : ones rows = 0 := by
  unfold shape at h
  by_cases h0 : ones rows = 0
  · exact h0
  · simp only [h0, if_false] at h
    split at h <;> cases h

theorem shape_block_ne {f : Font} {rows : List Nat} (h : shape f rows = .block) : ones rows ≠ 0 := by
  unfold shape at h
  intro h0
  simp [h0] at h

theorem shape_block {f : Font} {rows : List Nat} (h : shape f rows = .block) : ones rows = f.w * f.h := by
  unfold shape at h
  by_cases h0 : ones rows = 0
  · simp [h0] at h
  · simp only [h0, if_false] at h
    by_cases h1 : ones rows = f.w * f.h
    · exact h1
    · simp [h1] at h

/-- what one step of the optimiser produces -/
theorem optCell_cases {fonts : Nat → Option Font} {norm : Bool} {k : Attr} {c c' : Cell}
    (h : optCell fonts norm k c = some c') :
    ∃ f rows, fonts c.attr.page = some f ∧ f.glyph c.ch = some rows ∧
      ((shape f rows = .whitespace ∧
          c' = ⟨if norm && (f.glyph spaceCh).isSome then spaceCh else c.ch, { c.attr with fg := k.fg }⟩) ∨
       (shape f rows = .block ∧ c' = { c with attr := { c.attr with bg := k.bg } }) ∨
       (shape f rows = .mixed ∧ c' = c)) := by
  unfold optCell at h
  split at h
  · cases h
  · rename_i f hf
    split at h
    · cases h
    · rename_i rows hg
      refine ⟨f, rows, hf, hg, ?_⟩
      cases hs : shape f rows with
      | whitespace => rw [hs] at h; simp only [Option.some.injEq] at h; exact Or.inl ⟨rfl, h.symm⟩
      | block => rw [hs] at h; simp only [Option.some.injEq] at h; exact Or.inr (Or.inl ⟨rfl, h.symm⟩)
      | mixed => rw [hs] at h; simp only [Option.some.injEq] at h; exact Or.inr (Or.inr ⟨rfl, h.symm⟩)

/-- a blank cell may change its foreground, its flags, and become the font's `' '` -/
theorem render_ws {fonts : Nat → Option Font} (pal : Nat → Rgb) (w0 h0 : Nat) {c X : Cell} {f : Font} {rows : List Nat}
    (hok : FontOk f) (hfont : fonts c.attr.page = some f) (hg : f.glyph c.ch = some rows) (hb : ones rows = 0)
    (hp : X.attr.page = c.attr.page) (hbg : X.attr.bg = c.attr.bg)
    (hch : X.ch = c.ch ∨ (X.ch = spaceCh ∧ (f.glyph spaceCh).isSome = true)) :
    renderCell fonts pal w0 h0 X = renderCell fonts pal w0 h0 c := by
  rcases hch with hch | ⟨hch, hsome⟩
  · exact renderCell_blank fonts pal w0 h0 c X f rows rows hfont hg (by rw [hch]; exact hg) hb hb rfl hp hbg
  · cases hsp : f.glyph spaceCh with
    | none => rw [hsp] at hsome; cases hsome
    | some rows' =>
      exact renderCell_blank fonts pal w0 h0 c X f rows rows' hfont hg (by rw [hch]; exact hsp) hb
        (hok.space_blank _ _ rows' hg hb hsp) (by rw [hok.rows_len _ _ hsp, hok.rows_len _ _ hg]) hp hbg

theorem ite_space_cases (norm : Bool) (f : Font) (ch : Nat) :
    (if norm && (f.glyph spaceCh).isSome then spaceCh else ch) = ch ∨
    ((if norm && (f.glyph spaceCh).isSome then spaceCh else ch) = spaceCh ∧ (f.glyph spaceCh).isSome = true) := by
  by_cases h : (norm && (f.glyph spaceCh).isSome) = true
  · right
    simp only [h, if_true, true_and]
    simp only [Bool.and_eq_true] at h
    exact h.2
  · left; simp [h]

/-- one step of the optimiser does not change what the cell renders to (any carried attribute) -/
theorem optCell_render {fonts : Nat → Option Font} (pal : Nat → Rgb) (w0 h0 : Nat) {norm : Bool} {k : Attr} {c c' : Cell}
    (hok : FontsOk fonts) (h : optCell fonts norm k c = some c') :
    renderCell fonts pal w0 h0 c' = renderCell fonts pal w0 h0 c := by
  obtain ⟨f, rows, hfont, hg, hcase⟩ := optCell_cases h
  have hf := hok _ _ hfont
  rcases hcase with ⟨hs, rfl⟩ | ⟨hs, rfl⟩ | ⟨_, rfl⟩
  · exact render_ws pal w0 h0 hf hfont hg (shape_ws hs) rfl rfl (ite_space_cases norm f c.ch)
  · obtain ⟨hw8, hfull⟩ := hf.block_full _ _ hg (shape_block_ne hs) (shape_block hs)
    exact renderCell_full fonts pal w0 h0 c _ f rows hfont hg hw8 hfull rfl rfl rfl rfl
  · rfl

theorem optCell_flags {fonts : Nat → Option Font} {norm : Bool} {k : Attr} {c c' : Cell}
    (h : optCell fonts norm k c = some c') : c'.attr.flags = c.attr.flags := by
  obtain ⟨f, rows, _, _, hcase⟩ := optCell_cases h
  rcases hcase with ⟨_, rfl⟩ | ⟨_, rfl⟩ | ⟨_, rfl⟩ <;> rfl

theorem optCell_isVisible {fonts : Nat → Option Font} {norm : Bool} {k : Attr} {c c' : Cell}
    (h : optCell fonts norm k c = some c') : c'.isVisible = c.isVisible := by
  unfold Cell.isVisible; rw [optCell_flags h]

/-! ### the loops are pointwise `optCell` -/

theorem optimizeRow_get {fonts : Nat → Option Font} {norm : Bool} {k k' : Attr} {row row' : List Cell}
    (h : optimizeRow fonts norm k row = some (row', k')) :
    row'.length = row.length ∧
    ∀ (j : Nat) (c c' : Cell), row[j]? = some c → row'[j]? = some c' → ∃ k0, optCell fonts norm k0 c = some c' := by
  induction row generalizing k k' row' with
  | nil =>
    simp only [optimizeRow, Option.some.injEq, Prod.mk.injEq] at h
    obtain ⟨rfl, _⟩ := h
    refine ⟨rfl, ?_⟩
    intro j c c' hc
    simp at hc
  | cons a row ih =>
    unfold optimizeRow at h
    cases ha : optCell fonts norm k a with
    | none => rw [ha] at h; cases h
    | some a' =>
      rw [ha] at h
      simp only at h
      cases hr : optimizeRow fonts norm a'.attr row with
      | none => rw [hr] at h; cases h
      | some p =>
        obtain ⟨cs', kk⟩ := p
        rw [hr] at h
        simp only [Option.some.injEq, Prod.mk.injEq] at h
        obtain ⟨rfl, _⟩ := h
        obtain ⟨hl, hp⟩ := ih hr
        refine ⟨by simp [hl], ?_⟩
        intro j c c' hc hc'
        cases j with
        | zero =>
          simp only [List.getElem?_cons_zero, Option.some.injEq] at hc hc'
          subst hc; subst hc'
          exact ⟨k, ha⟩
        | succ j =>
          simp only [List.getElem?_cons_succ] at hc hc'
          exact hp j c c' hc hc'

theorem optimizeRows_get {fonts : Nat → Option Font} {norm : Bool} {k k' : Attr} {rows rows' : List (List Cell)}
    (h : optimizeRows fonts norm k rows = some (rows', k')) :
    rows'.length = rows.length ∧
    ∀ (i : Nat) (r r' : List Cell), rows[i]? = some r → rows'[i]? = some r' →
      r'.length = r.length ∧
      ∀ (j : Nat) (c c' : Cell), r[j]? = some c → r'[j]? = some c' → ∃ k0, optCell fonts norm k0 c = some c' := by
  induction rows generalizing k k' rows' with
  | nil =>
    simp only [optimizeRows, Option.some.injEq, Prod.mk.injEq] at h
    obtain ⟨rfl, _⟩ := h
    refine ⟨rfl, ?_⟩
    intro i r r' hr
    simp at hr
  | cons a rows ih =>
    unfold optimizeRows at h
    cases ha : optimizeRow fonts norm k a with
    | none => rw [ha] at h; cases h
    | some p =>
      obtain ⟨a', ka⟩ := p
      rw [ha] at h
      simp only at h
      cases hr : optimizeRows fonts norm ka rows with
      | none => rw [hr] at h; cases h
      | some q =>
        obtain ⟨rs', kk⟩ := q
        rw [hr] at h
        simp only [Option.some.injEq, Prod.mk.injEq] at h
        obtain ⟨rfl, _⟩ := h
        obtain ⟨hl, hp⟩ := ih hr
        refine ⟨by simp [hl], ?_⟩
        intro i r r' hri hri'
        cases i with
        | zero =>
          simp only [List.getElem?_cons_zero, Option.some.injEq] at hri hri'
          subst hri; subst hri'
          exact optimizeRow_get ha
        | succ i =>
          simp only [List.getElem?_cons_succ] at hri hri'
          exact hp i r r' hri hri'

/-! ### when the optimiser returns -/

/-- the font page and the code point of a cell are in the font table -/
def HasGlyph (fonts : Nat → Option Font) (c : Cell) : Prop := ∃ f rows, fonts c.attr.page = some f ∧ f.glyph c.ch = some rows

theorem optCell_defined {fonts : Nat → Option Font} {norm : Bool} {k : Attr} {c : Cell} :
    (∃ c', optCell fonts norm k c = some c') ↔ HasGlyph fonts c := by
  constructor
  · rintro ⟨c', h⟩
    obtain ⟨f, rows, hf, hg, _⟩ := optCell_cases h
    exact ⟨f, rows, hf, hg⟩
  · rintro ⟨f, rows, hf, hg⟩
    unfold optCell
    rw [hf]; simp only [hg]
    cases shape f rows <;> exact ⟨_, rfl⟩

theorem optimizeRow_defined_iff {fonts : Nat → Option Font} {norm : Bool} (k : Attr) (row : List Cell) :
    (∃ p, optimizeRow fonts norm k row = some p) ↔ ∀ (x : Nat) (c : Cell), row[x]? = some c → HasGlyph fonts c := by
  induction row generalizing k with
  | nil =>
    constructor
    · intro _ x c hc; simp at hc
    · intro _; exact ⟨_, rfl⟩
  | cons a row ih =>
    constructor
    · rintro ⟨p, h⟩ x c hc
      unfold optimizeRow at h
      cases ha : optCell fonts norm k a with
      | none => rw [ha] at h; cases h
      | some a' =>
        rw [ha] at h
        simp only at h
        cases hr : optimizeRow fonts norm a'.attr row with
        | none => rw [hr] at h; cases h
        | some q =>
          cases x with
          | zero =>
            simp only [List.getElem?_cons_zero, Option.some.injEq] at hc
            subst hc
            exact optCell_defined.mp ⟨a', ha⟩
          | succ x =>
            simp only [List.getElem?_cons_succ] at hc
            exact (ih a'.attr).mp ⟨q, hr⟩ x c hc
    · intro h
      obtain ⟨a', ha⟩ := (optCell_defined (norm := norm) (k := k)).mpr (h 0 a rfl)
      obtain ⟨q, hq⟩ := (ih a'.attr).mpr (fun x c hc => h (x + 1) c (by simpa using hc))
      obtain ⟨cs', kk⟩ := q
      exact ⟨(a' :: cs', kk), by unfold optimizeRow; rw [ha]; simp only [hq]⟩

theorem optimizeRows_defined_iff {fonts : Nat → Option Font} {norm : Bool} (k : Attr) (rows : List (List Cell)) :
    (∃ p, optimizeRows fonts norm k rows = some p) ↔
      ∀ (y : Nat) (row : List Cell) (x : Nat) (c : Cell), rows[y]? = some row → row[x]? = some c → HasGlyph fonts c := by
  induction rows generalizing k with
  | nil =>
    constructor
    · intro _ y row x c hr; simp at hr
    · intro _; exact ⟨_, rfl⟩
  | cons a rows ih =>
    constructor
    · rintro ⟨p, h⟩ y row x c hr hc
      unfold optimizeRows at h
      cases ha : optimizeRow fonts norm k a with
      | none => rw [ha] at h; cases h
      | some q =>
        obtain ⟨a', ka⟩ := q
        rw [ha] at h
        simp only at h
        cases hrs : optimizeRows fonts norm ka rows with
        | none => rw [hrs] at h; cases h
        | some q2 =>
          cases y with
          | zero =>
            simp only [List.getElem?_cons_zero, Option.some.injEq] at hr
            subst hr
            exact (optimizeRow_defined_iff k a).mp ⟨_, ha⟩ x c hc
          | succ y =>
            simp only [List.getElem?_cons_succ] at hr
            exact (ih ka).mp ⟨q2, hrs⟩ y row x c hr hc
    · intro h
      obtain ⟨q, hq⟩ := (optimizeRow_defined_iff (fonts := fonts) (norm := norm) k a).mpr (fun x c hc => h 0 a x c rfl hc)
      obtain ⟨a', ka⟩ := q
      obtain ⟨q2, hq2⟩ := (ih ka).mpr (fun y row x c hr hc => h (y + 1) row x c (by simpa using hr) hc)
      obtain ⟨rs', kk⟩ := q2
      exact ⟨(a' :: rs', kk), by unfold optimizeRows; rw [hq]; simp only [hq2]⟩

/-- `render (optimizeRow norm carry row) = render row`, for every row and every carried attribute -/
theorem optimizeRow_render {fonts : Nat → Option Font} (pal : Nat → Rgb) (w0 h0 : Nat) {norm : Bool} {k k' : Attr}
    {row row' : List Cell} (hok : FontsOk fonts) (h : optimizeRow fonts norm k row = some (row', k')) :
    row'.map (renderCell fonts pal w0 h0) = row.map (renderCell fonts pal w0 h0) := by
  induction row generalizing k k' row' with
  | nil =>
    simp only [optimizeRow, Option.some.injEq, Prod.mk.injEq] at h
    obtain ⟨rfl, _⟩ := h
    rfl
  | cons a row ih =>
    unfold optimizeRow at h
    cases ha : optCell fonts norm k a with
    | none => rw [ha] at h; cases h
    | some a' =>
      rw [ha] at h
      simp only at h
      cases hr : optimizeRow fonts norm a'.attr row with
      | none => rw [hr] at h; cases h
      | some p =>
        obtain ⟨cs', kk⟩ := p
        rw [hr] at h
        simp only [Option.some.injEq, Prod.mk.injEq] at h
        obtain ⟨rfl, _⟩ := h
        simp only [List.map_cons]
        rw [optCell_render pal w0 h0 hok ha, ih hr]

/-! ### `Buffer::get_char` of the flat clone -/

theorem flatCells_get (hb : Cell → Nat × Nat) (t : Bool) (S : List Layer) (W H x y : Nat) (hx : x < W) (hy : y < H) :
    ∃ row, (flatCells hb t S W H)[y]? = some row ∧ row.length = W ∧ row[x]? = some (flatStore (getChar hb t S x y)) := by
  unfold flatCells
  refine ⟨(List.range W).map fun (x : Nat) => flatStore (getChar hb t S (x : Int) (y : Int)), ?_, by simp, ?_⟩
  · rw [List.getElem?_map, List.getElem?_range hy]; rfl
  · rw [List.getElem?_map, List.getElem?_range hx]; rfl

theorem flatCells_length (hb : Cell → Nat × Nat) (t : Bool) (S : List Layer) (W H : Nat) :
    (flatCells hb t S W H).length = H := by
  unfold flatCells; simp

theorem flatLayer_getChar (W H : Nat) (cells : List (List Cell)) (x y : Nat) (hx : x < W) (hy : y < H)
    (row : List Cell) (c : Cell) (hr : cells[y]? = some row) (hc : row[x]? = some c) :
    (flatLayer W H cells).getChar (x : Int) (y : Int) = c := by
  unfold Layer.getChar flatLayer
  have h1 : ((x : Int) < 0 || (y : Int) < 0 || (x : Int) ≥ (W : Int) || (y : Int) ≥ (H : Int)) = false := by
    have a1 : ¬ ((x : Int) < 0) := by omega
    have a2 : ¬ ((y : Int) < 0) := by omega
    have a3 : ¬ ((x : Int) ≥ (W : Int)) := by omega
    have a4 : ¬ ((y : Int) ≥ (H : Int)) := by omega
    simp [a1, a2, a3, a4]
  simp only [h1, Bool.false_eq_true, if_false, Int.toNat_natCast, hr, hc]

theorem merge_none (c : Cell) : merge c none none = c := by
  unfold merge; split <;> rfl

/-- `Buffer::get_char` of the flat clone at a stored cell: the layer has an alpha channel and nothing lies beneath it -/
theorem getChar_flatLayer (hb : Cell → Nat × Nat) (t : Bool) (W H : Nat) (cells : List (List Cell)) (x y : Nat)
    (hx : x < W) (hy : y < H) (row : List Cell) (c : Cell) (hr : cells[y]? = some row) (hc : row[x]? = some c) :
    getChar hb t [flatLayer W H cells] (x : Int) (y : Int) = flatView t c := by
  have hcov : (flatLayer W H cells).covers (x : Int) (y : Int) = true := by
    rw [covers_iff]
    have : (((x : Int) - (flatLayer W H cells).offX < 0 || (y : Int) - (flatLayer W H cells).offY < 0
        || (x : Int) - (flatLayer W H cells).offX ≥ (flatLayer W H cells).w
        || (y : Int) - (flatLayer W H cells).offY ≥ (flatLayer W H cells).h)) = false := by
      have a1 : ¬ ((x : Int) - 0 < 0) := by omega
      have a2 : ¬ ((y : Int) - 0 < 0) := by omega
      have a3 : ¬ ((x : Int) - 0 ≥ (W : Int)) := by omega
      have a4 : ¬ ((y : Int) - 0 ≥ (H : Int)) := by omega
      simp only [flatLayer]
      simp [a1, a2, a3, a4]
      exact ⟨hx, hy⟩
    rw [this]; rfl
  have hcell : (flatLayer W H cells).getChar ((x : Int) - (flatLayer W H cells).offX) ((y : Int) - (flatLayer W H cells).offY) = c := by
    have : (flatLayer W H cells).offX = 0 ∧ (flatLayer W H cells).offY = 0 := ⟨rfl, rfl⟩
    rw [this.1, this.2, Int.sub_zero, Int.sub_zero]
    exact flatLayer_getChar W H cells x y hx hy row c hr hc
  unfold getChar
  simp only [List.reverse_cons, List.reverse_nil, List.nil_append, go_cons]
  rw [layerStep_covered hb _ _ _ _ rfl hcov]
  unfold coveredStep
  rw [hcell]
  have hm : (flatLayer W H cells).mode = .normal := rfl
  have ha : (flatLayer W H cells).alpha = true := rfl
  have hd : (flatLayer W H cells).dfltPage = 0 := rfl
  simp only [hm, ha, hd, Bool.not_true, Bool.false_eq_true, if_false]
  unfold flatView
  have hinit : St.init = ⟨none, none, 0, none⟩ := rfl
  cases hv : c.isVisible with
  | false =>
    simp only [Bool.false_eq_true, if_false, hinit, go, finish]
    cases t <;> simp [merge_none]
  | true =>
    simp only [if_true, hinit, merge_none]
    cases htr : c.hasTransparentColor with
    | false => simp only [Bool.false_eq_true, if_false]
    | true => simp only [if_true, Option.isNone_none, go, finish]

end IcyVerif.ColorOpt
