import IcyVerif.Model.UniMacro
import IcyVerif.Lemmas.UnicodeSites
set_option linter.unusedSimpArgs false
/-! lemmas behind `Props/C10Macro.lean`: the characters of a stored macro body all come from the stream (text macros)
    or are byte values (hex macros) -/
namespace IcyVerif.UniMacro
open IcyVerif.Uni IcyVerif.Gen.UniMacro IcyVerif.Gen.Unsafe

/-- all members are Unicode scalar values (what a stream of Rust `char`s is) -/
def Scalars (l : List Nat) : Prop := ∀ c ∈ l, isScalar c = true

def TableScalars (t : Table) : Prop := ∀ e ∈ t, Scalars e.2

theorem scalars_nil : Scalars [] := by intro c h; cases h

theorem scalars_append {a b : List Nat} (ha : Scalars a) (hb : Scalars b) : Scalars (a ++ b) := by
  intro c hc
  rcases List.mem_append.mp hc with h | h
  · exact ha c h
  · exact hb c h

theorem scalars_tail {c : Nat} {l : List Nat} (h : Scalars (c :: l)) : Scalars l :=
  fun x hx => h x (List.mem_cons_of_mem _ hx)

theorem scalars_drop (n : Nat) {l : List Nat} (h : Scalars l) : Scalars (l.drop n) :=
  fun x hx => h x (List.mem_of_mem_drop hx)

theorem scalar_esc : isScalar ESC = true := by decide

/-- the recorder only ever pushes characters of the stream (and the ESC it had held back) -/
theorem record_scalars (esc : Bool) (acc chars : List Nat) (ha : Scalars acc) (hc : Scalars chars) (s rest : List Nat)
    (h : record esc acc chars = .done s rest) : Scalars s ∧ Scalars rest := by
  induction chars generalizing esc acc with
  | nil => unfold record at h; cases h
  | cons c t ih =>
    have hcs : isScalar c = true := hc c (by simp)
    unfold record at h
    split at h
    · split at h
      · injection h with h1 h2
        subst h1; subst h2
        exact ⟨ha, scalars_tail hc⟩
      · split at h
        · cases h
        · have hacc : Scalars (acc ++ [ESC, c]) := by
            apply scalars_append ha
            intro x hx
            simp at hx
            rcases hx with rfl | rfl
            · exact scalar_esc
            · exact hcs
          exact ih false _ hacc (scalars_tail hc) h
    · split at h
      · exact ih true _ ha (scalars_tail hc) h
      · have hacc : Scalars (acc ++ [c]) := by
          apply scalars_append ha
          intro x hx
          simp at hx
          subst hx
          exact hcs
        exact ih false _ hacc (scalars_tail hc) h

/-- what is left after the number loop is a suffix of the string -/
theorem takeNums_rest_mem (numsRev : List Int) (s : List Nat) : ∀ c ∈ (takeNums numsRev s).2, c ∈ s := by
  induction s generalizing numsRev with
  | nil => intro c h; simp [takeNums] at h
  | cons a t ih =>
    intro c h
    unfold takeNums at h
    split at h
    · split at h
      · exact List.mem_cons_of_mem _ (ih _ c h)
      · exact List.mem_cons_of_mem _ (ih _ c h)
    · split at h
      · exact List.mem_cons_of_mem _ (ih _ c h)
      · exact h

theorem tblInsert_scalars (id : Nat) (b : List Nat) (t : Table) (hb : Scalars b) (ht : TableScalars t) :
    TableScalars (tblInsert id b t) := by
  induction t with
  | nil => intro e he; simp [tblInsert] at he; subst he; exact hb
  | cons kv t ih =>
    obtain ⟨k, v⟩ := kv
    have ht' : TableScalars t := fun e he => ht e (List.mem_cons_of_mem _ he)
    unfold tblInsert
    split
    · intro e he
      rcases List.mem_cons.mp he with rfl | he
      · exact hb
      · exact ht e he
    · split
      · intro e he
        rcases List.mem_cons.mp he with rfl | he
        · exact hb
        · exact ht' e he
      · intro e he
        rcases List.mem_cons.mp he with rfl | he
        · exact ht _ (by simp)
        · exact ih ht' e he

theorem tblGet_insert (id : Nat) (b : List Nat) (t : Table) : tblGet id (tblInsert id b t) = some b := by
  induction t with
  | nil => simp [tblInsert, tblGet]
  | cons kv t ih =>
    obtain ⟨k, v⟩ := kv
    unfold tblInsert
    split
    · simp [tblGet]
    · split
      · simp [tblGet]
      · rename_i h1 h2
        have : ¬ k = id := fun h => h2 h.symm
        simp [tblGet, this, ih]

theorem tableScalars_nil : TableScalars [] := by intro e he; cases he

theorem hexMacro_scalars (body m : List Nat) (h : hexMacro hexTable body = some m) : Scalars m :=
  fun c hc => lt256_scalar _ (hexMacro_lt hexTable (by decide) body m h c hc)

theorem parseMacro_scalars (tbl : Table) (nums : List Int) (body : List Nat) (ht : TableScalars tbl) (hb : Scalars body) :
    TableScalars (parseMacro tbl nums body).1 := by
  unfold parseMacro
  split
  · exact ht
  · rename_i pid more
    have ht1 : TableScalars (if more.head? = some pdtClear then [] else tbl) := by
      split
      · exact tableScalars_nil
      · exact ht
    dsimp only
    split
    · exact ht1
    · split
      · exact tblInsert_scalars _ _ _ hb ht1
      · split
        · split
          · rename_i m hm
            exact tblInsert_scalars _ _ _ (hexMacro_scalars body m hm) ht1
          · exact ht1
        · exact ht1

theorem executeDcs_scalars (tbl : Table) (s : List Nat) (ht : TableScalars tbl) (hs : Scalars s) :
    TableScalars (executeDcs tbl s).1 := by
  unfold executeDcs
  split
  · exact ht
  · dsimp only
    split
    · apply parseMacro_scalars _ _ _ ht
      apply scalars_drop
      intro c hc
      exact hs c (takeNums_rest_mem [] s c hc)
    · split
      · exact ht
      · exact ht

def OpScalars : Op → Prop
  | .dcs cs => Scalars cs
  | .ris => True

theorem step_scalars (tbl : Table) (op : Op) (ht : TableScalars tbl) (ho : OpScalars op) :
    TableScalars (step tbl op).1 := by
  cases op with
  | ris => exact tableScalars_nil
  | dcs chars =>
    unfold step
    dsimp only
    split
    · rename_i s hrec
      have hs := (record_scalars false [] chars scalars_nil ho s [] hrec).1
      have := executeDcs_scalars tbl s ht hs
      split <;> rename_i heq <;> rw [heq] at this <;> exact this
    · exact ht

theorem run_scalars (tbl : Table) (ops : List Op) (ht : TableScalars tbl) (ho : ∀ op ∈ ops, OpScalars op) :
    TableScalars (run tbl ops).1 := by
  induction ops generalizing tbl with
  | nil => exact ht
  | cons op ops ih =>
    unfold run
    have h1 := step_scalars tbl op ht (ho op (by simp))
    have h2 := ih (step tbl op).1 h1 (fun o h => ho o (List.mem_cons_of_mem _ h))
    exact h2

/-- number prefix: only digits and `;` -/
def NumChars (pre : List Nat) : Prop := ∀ c ∈ pre, isDigit c = true ∨ c = 59

/-- the number loop stops exactly at the first character that is neither a digit nor `;` -/
theorem takeNums_append (numsRev : List Int) (pre rest : List Nat) (hp : NumChars pre)
    (hr : ∀ c, rest.head? = some c → isDigit c = false ∧ c ≠ 59) :
    takeNums numsRev (pre ++ rest) = ((takeNums numsRev pre).1, rest) := by
  induction pre generalizing numsRev with
  | nil =>
    cases rest with
    | nil => simp [takeNums]
    | cons c t =>
      have := hr c rfl
      simp [takeNums, this.1, this.2]
  | cons a t ih =>
    have ht : NumChars t := fun c hc => hp c (List.mem_cons_of_mem _ hc)
    have ha := hp a (by simp)
    simp only [List.cons_append]
    unfold takeNums
    split
    · split <;> exact ih _ ht
    · rename_i hnd
      rcases ha with ha | ha
      · exact absurd ha hnd
      · simp only [ha, if_true]; exact ih _ ht

end IcyVerif.UniMacro
