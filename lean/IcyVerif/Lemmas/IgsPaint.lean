import IcyVerif.Model.IgsPaint
set_option linter.unusedSimpArgs false
set_option linter.unusedVariables false
/-! Lemmas about the IGS `DrawExecutor` model, part 1: the monad, pixels, `fill_rect`, the picture. -/
namespace IcyVerif.IgsPaint

theorem bind_ok {α β : Type} {r : Res α} {f : α → Res β} {b : β} (h : (r >>= f) = Res.ok b) :
    ∃ a, r = .ok a ∧ f a = .ok b := by
  cases r with
  | ok a => exact ⟨a, rfl, h⟩
  | panic => cases h
  | stall => cases h

theorem pure_ok {α : Type} {a b : α} (h : (pure a : Res α) = Res.ok b) : a = b := by cases h; rfl

theorem chk_ok {v r : Int} (h : chk v = .ok r) : r = v ∧ i32Min ≤ v ∧ v ≤ i32Max := by
  unfold chk at h
  split at h
  · cases h; rename_i hc; exact ⟨rfl, hc⟩
  · cases h

theorem chk_of_range {v : Int} (h1 : i32Min ≤ v) (h2 : v ≤ i32Max) : chk v = .ok v := by
  unfold chk; simp [h1, h2]

-- ------------------------------------------------------------------------------------------------ the invariant
/-- what `get_picture_data` needs and every command keeps: a known resolution, a screen of exactly width x height
cells, sixteen pens, every cell of the screen and of the saved block a pen number, and pen numbers in the colour
registers the painting primitives write -/
structure Good (p : Paint) : Prop where
  res : p.res < 3
  size : p.screen.size = (resW p * resH p).toNat
  pix : ∀ v, v ∈ p.screen.toList → v < 16
  pens : p.pens.length = 16
  line : p.lineColor < 16
  fill : p.fillColor < 16
  mem : ∀ v, v ∈ p.mem.toList → v < 16

/-- a primitive changed nothing but the screen cells -/
def Kept (p p' : Paint) : Prop := p' = { p with screen := p'.screen } ∧ p'.screen.size = p.screen.size

theorem Kept.refl (p : Paint) : Kept p p := ⟨rfl, rfl⟩

theorem Kept.trans {a b c : Paint} (h1 : Kept a b) (h2 : Kept b c) : Kept a c := by
  obtain ⟨e1, s1⟩ := h1
  obtain ⟨e2, s2⟩ := h2
  refine ⟨?_, by rw [s2, s1]⟩
  rw [e2, e1]

theorem Kept.resW {p p' : Paint} (h : Kept p p') : resW p' = resW p := by
  obtain ⟨e, _⟩ := h; rw [e]; rfl
theorem Kept.resH {p p' : Paint} (h : Kept p p') : resH p' = resH p := by
  obtain ⟨e, _⟩ := h; rw [e]; rfl
theorem Kept.fillColor {p p' : Paint} (h : Kept p p') : p'.fillColor = p.fillColor := by
  obtain ⟨e, _⟩ := h; rw [e]
theorem Kept.lineColor {p p' : Paint} (h : Kept p p') : p'.lineColor = p.lineColor := by
  obtain ⟨e, _⟩ := h; rw [e]
theorem Kept.fillPattern {p p' : Paint} (h : Kept p p') : p'.fillPattern = p.fillPattern := by
  obtain ⟨e, _⟩ := h; rw [e]
theorem Kept.lineType {p p' : Paint} (h : Kept p p') : p'.lineType = p.lineType := by
  obtain ⟨e, _⟩ := h; rw [e]
theorem Kept.mem {p p' : Paint} (h : Kept p p') : p'.mem = p.mem := by
  obtain ⟨e, _⟩ := h; rw [e]
theorem Kept.drawBorder {p p' : Paint} (h : Kept p p') : p'.drawBorder = p.drawBorder := by
  obtain ⟨e, _⟩ := h; rw [e]

/-- `Good` survives a primitive that kept everything but the cells, when the new cells are pen numbers -/
theorem Good.of_kept {p p' : Paint} (hg : Good p) (hk : Kept p p') (hp : ∀ v, v ∈ p'.screen.toList → v < 16) : Good p' := by
  obtain ⟨e, s⟩ := hk
  have hw : IgsPaint.resW p' = IgsPaint.resW p := by rw [e]; rfl
  have hh : IgsPaint.resH p' = IgsPaint.resH p := by rw [e]; rfl
  refine ⟨by rw [e]; exact hg.res, by rw [s, hw, hh]; exact hg.size, hp, by rw [e]; exact hg.pens, by rw [e]; exact hg.line,
    by rw [e]; exact hg.fill, by rw [e]; exact hg.mem⟩

/-- the combined statement every painting primitive satisfies -/
def Keeps (p p' : Paint) : Prop := Kept p p' ∧ ((∀ v, v ∈ p.screen.toList → v < 16) → ∀ v, v ∈ p'.screen.toList → v < 16)

theorem Keeps.refl (p : Paint) : Keeps p p := ⟨Kept.refl p, fun h => h⟩
theorem Keeps.trans {a b c : Paint} (h1 : Keeps a b) (h2 : Keeps b c) : Keeps a c :=
  ⟨h1.1.trans h2.1, fun h => h2.2 (h1.2 h)⟩

theorem Good.of_keeps {p p' : Paint} (hg : Good p) (hk : Keeps p p') : Good p' := hg.of_kept hk.1 (hk.2 hg.pix)

-- ------------------------------------------------------------------------------------------------ pixels
theorem mem_setIfInBounds {a : Array Nat} {i c v : Nat} (h : v ∈ (a.setIfInBounds i c).toList) : v ∈ a.toList ∨ v = c := by
  rw [Array.toList_setIfInBounds] at h
  exact List.mem_or_eq_of_mem_set h

/-- `set_pixel`: whatever the coordinates, if it returns the screen keeps its length and holds the old cells and `c` -/
theorem setPixel_keeps {p p' : Paint} {x y : Int} {c : Nat} (hc : c < 16) (h : setPixel p x y c = .ok p') : Keeps p p' := by
  unfold setPixel at h
  obtain ⟨off, _, h⟩ := bind_ok h
  split at h
  · have := pure_ok h
    subst this
    refine ⟨⟨rfl, by simp⟩, fun hp v hv => ?_⟩
    rcases mem_setIfInBounds hv with h1 | h1
    · exact hp v h1
    · rw [h1]; exact hc
  · have := pure_ok h
    subst this
    exact Keeps.refl p

/-- `set_pixel` cannot panic for coordinates within ±2^20 (`y * width + x` stays far inside i32) -/
theorem setPixel_total (p : Paint) (hr : p.res < 3) (x y : Int) (c : Nat)
    (hx : -1048576 ≤ x ∧ x ≤ 1048576) (hy : -1048576 ≤ y ∧ y ≤ 1048576) : ∃ p', setPixel p x y c = .ok p' := by
  have hw : resW p = 320 ∨ resW p = 640 := by
    unfold resW
    have : p.res = 0 ∨ p.res = 1 ∨ p.res = 2 := by omega
    rcases this with h | h | h <;> rw [h] <;> decide
  unfold setPixel offsetOf
  have h1 : chk (y * resW p) = .ok (y * resW p) := by
    apply chk_of_range <;> simp only [i32Min, i32Max] <;> rcases hw with h | h <;> rw [h] <;> omega
  have h2 : chk (y * resW p + x) = .ok (y * resW p + x) := by
    apply chk_of_range <;> simp only [i32Min, i32Max] <;> rcases hw with h | h <;> rw [h] <;> omega
  simp only [bind, Res.bind, h1, h2]
  split <;> exact ⟨_, rfl⟩

theorem getPixel_lt {p : Paint} {x y : Int} {v : Nat} (hp : ∀ v, v ∈ p.screen.toList → v < 16) (h : getPixel p x y = .ok v) : v < 16 := by
  unfold getPixel at h
  obtain ⟨off, _, h⟩ := bind_ok h
  split at h
  · rename_i hc
    have := pure_ok h
    subst this
    have hlt : off.toNat < p.screen.size := by omega
    have : p.screen.getD off.toNat 0 = p.screen[off.toNat] := by simp [Array.getD, hlt]
    rw [this]
    exact hp _ (by simp)
  · have := pure_ok h
    subst this
    omega

theorem fillPixel_keeps {p p' : Paint} {x y : Int} (hc : p.fillColor < 16) (h : fillPixel p x y = .ok p') : Keeps p p' := by
  unfold fillPixel at h
  split at h
  · cases h
  · simp only [] at h
    split at h
    · exact setPixel_keeps hc h
    · cases h; exact Keeps.refl p

-- ------------------------------------------------------------------------------------------------ fill_rect
theorem fillRow_keeps (y : Int) : ∀ (n : Nat) (p p' : Paint) (x : Int), p.fillColor < 16 → fillRow y n p x = .ok p' → Keeps p p' := by
  intro n
  induction n with
  | zero => intro p p' x _ h; cases h; exact Keeps.refl p
  | succ k ih =>
    intro p p' x hc h
    unfold fillRow at h
    obtain ⟨p1, h1, h⟩ := bind_ok h
    have k1 := fillPixel_keeps hc h1
    exact k1.trans (ih p1 p' (x + 1) (by rw [k1.1.fillColor]; exact hc) h)

theorem fillRows_keeps (x0 : Int) (cols : Nat) : ∀ (n : Nat) (p p' : Paint) (y : Int), p.fillColor < 16 →
    fillRows x0 cols n p y = .ok p' → Keeps p p' := by
  intro n
  induction n with
  | zero => intro p p' y _ h; cases h; exact Keeps.refl p
  | succ k ih =>
    intro p p' y hc h
    unfold fillRows at h
    obtain ⟨p1, h1, h⟩ := bind_ok h
    have k1 := fillRow_keeps y cols p p1 x0 hc h1
    exact k1.trans (ih p1 p' (y + 1) (by rw [k1.1.fillColor]; exact hc) h)

theorem fillRect_keeps {p p' : Paint} {x0 y0 x1 y1 : Int} (hc : p.fillColor < 16) (h : fillRect p x0 y0 x1 y1 = .ok p') : Keeps p p' := by
  unfold fillRect at h
  exact fillRows_keeps _ _ _ _ _ _ hc h

/-- number of `fill_pixel` calls of `fill_rect`: rows x columns of the rectangle clipped to the screen -/
def fillRectCost (p : Paint) (x0 y0 x1 y1 : Int) : Nat :=
  (min (max y0 y1) (resH p - 1) - max (min y0 y1) 0 + 1).toNat * (min (max x0 x1) (resW p - 1) - max (min x0 x1) 0 + 1).toNat

/-- whatever the corner coordinates: at most width x height cells are visited -/
theorem fillRectCost_le (p : Paint) (x0 y0 x1 y1 : Int) : fillRectCost p x0 y0 x1 y1 ≤ (resH p).toNat * (resW p).toNat := by
  unfold fillRectCost
  apply Nat.mul_le_mul <;> omega

/-- `fill_pixel` on a cell of the screen cannot panic -/
theorem fillPixel_total (p : Paint) (hr : p.res < 3) (hpat : p.fillPattern.length ≠ 0) (x y : Int)
    (hx : 0 ≤ x ∧ x ≤ 1048576) (hy : 0 ≤ y ∧ y ≤ 1048576) : ∃ p', fillPixel p x y = .ok p' := by
  unfold fillPixel
  simp only [hpat, if_false]
  split
  · exact setPixel_total p hr x y _ (by omega) (by omega)
  · exact ⟨p, rfl⟩

theorem fillRow_total (y : Int) (hy : 0 ≤ y ∧ y ≤ 1048576) : ∀ (n : Nat) (p : Paint) (x : Int), p.res < 3 → p.fillPattern.length ≠ 0 →
    p.fillColor < 16 → (0 < n → 0 ≤ x ∧ x + n ≤ 1048576) → ∃ p', fillRow y n p x = .ok p' := by
  intro n
  induction n with
  | zero => intro p x _ _ _ _; exact ⟨p, rfl⟩
  | succ k ih =>
    intro p x hr hpat hc hx
    have hx' := hx (Nat.succ_pos k)
    obtain ⟨p1, h⟩ := fillPixel_total p hr hpat x y (by omega) hy
    have kk := (fillPixel_keeps hc h).1
    unfold fillRow
    simp only [bind, Res.bind, h]
    obtain ⟨e, _⟩ := kk
    apply ih p1 (x + 1) (by rw [e]; exact hr) (by rw [e]; exact hpat) (by rw [e]; exact hc) (by intro _; omega)

theorem fillRows_total (x0 : Int) (cols : Nat) (hx : 0 < cols → 0 ≤ x0 ∧ x0 + cols ≤ 1048576) : ∀ (n : Nat) (p : Paint) (y : Int), p.res < 3 →
    p.fillPattern.length ≠ 0 → p.fillColor < 16 → (0 < n → 0 ≤ y ∧ y + n ≤ 1048576) → ∃ p', fillRows x0 cols n p y = .ok p' := by
  intro n
  induction n with
  | zero => intro p y _ _ _ _; exact ⟨p, rfl⟩
  | succ k ih =>
    intro p y hr hpat hc hy
    have hy' := hy (Nat.succ_pos k)
    obtain ⟨p1, h⟩ := fillRow_total y (by omega) cols p x0 hr hpat hc hx
    have kk := (fillRow_keeps y cols p p1 x0 hc h).1
    unfold fillRows
    simp only [bind, Res.bind, h]
    obtain ⟨e, _⟩ := kk
    apply ih p1 (y + 1) (by rw [e]; exact hr) (by rw [e]; exact hpat) (by rw [e]; exact hc) (by intro _; omega)

theorem resWH (p : Paint) (hr : p.res < 3) : (resW p = 320 ∨ resW p = 640) ∧ (resH p = 200 ∨ resH p = 400) := by
  unfold resW resH
  have : p.res = 0 ∨ p.res = 1 ∨ p.res = 2 := by omega
  rcases this with h | h | h <;> rw [h] <;> decide

/-- `fill_rect` cannot panic, for ALL corner coordinates (the rectangle is clipped to the screen first) -/
theorem fillRect_total (p : Paint) (hr : p.res < 3) (hpat : p.fillPattern.length ≠ 0) (hc : p.fillColor < 16) (x0 y0 x1 y1 : Int) :
    ∃ p', fillRect p x0 y0 x1 y1 = .ok p' := by
  obtain ⟨hw, hh⟩ := resWH p hr
  unfold fillRect
  apply fillRows_total _ _ ?_ _ p _ hr hpat hc
  · intro hn; rcases hh with h | h <;> rw [h] at hn ⊢ <;> omega
  · intro hn; rcases hw with h | h <;> rw [h] at hn ⊢ <;> omega

-- ------------------------------------------------------------------------------------------------ the picture
theorem pixelBytes_some {pens : List Nat} {px : Nat} (h : px < pens.length) : ∃ b, pixelBytes pens px = some b ∧ b.length = 4 := by
  unfold pixelBytes
  have : pens[px]? = some pens[px] := by simp [h]
  rw [this]
  exact ⟨_, rfl, rfl⟩

theorem pictureData_list (pens : List Nat) : ∀ (l : List Nat), (∀ v, v ∈ l → v < pens.length) →
    ∃ d, l.foldr (fun px acc => match pixelBytes pens px, acc with | some b, some rest => some (b ++ rest) | _, _ => none) (some []) = some d ∧
      d.length = l.length * 4 := by
  intro l
  induction l with
  | nil => intro _; exact ⟨[], rfl, rfl⟩
  | cons a t ih =>
    intro h
    obtain ⟨d, hd, hl⟩ := ih (fun v hv => h v (List.mem_cons_of_mem _ hv))
    obtain ⟨b, hb, hbl⟩ := pixelBytes_some (h a (List.mem_cons_self))
    refine ⟨b ++ d, ?_, ?_⟩
    · simp only [List.foldr_cons, hd, hb]
    · rw [List.length_append, hbl, hl, List.length_cons, Nat.add_mul]; omega

/-- `get_picture_data` in a good state: no index panic, and exactly width x height x 4 bytes -/
theorem pictureData_good {p : Paint} (hg : Good p) : ∃ d, pictureData p = some d ∧ d.length = (resW p * resH p).toNat * 4 := by
  unfold pictureData
  obtain ⟨d, hd, hl⟩ := pictureData_list p.pens p.screen.toList (fun v hv => by rw [hg.pens]; exact hg.pix v hv)
  refine ⟨d, hd, ?_⟩
  rw [hl, Array.length_toList, hg.size]

end IcyVerif.IgsPaint
