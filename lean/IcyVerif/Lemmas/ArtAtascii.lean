import IcyVerif.Lemmas.ArtShows
/-! # ATASCII: inverse video is bit 7, rows end with EOL (155), nothing is cropped — C15 -/
set_option linter.unusedSimpArgs false
namespace IcyVerif.ArtIO
open IcyVerif.Gen.Art

/-- as `Shows`, but the loaded layer may be taller than the picture (the ATASCII loader starts from 24 rows and crops
    nothing) -/
def ShowsIn (L : Loaded) (p : Pic) (img : Cell → Cell) : Prop :=
  L.stuck = false ∧ L.w = p.w ∧ p.rows.length ≤ L.h ∧
  ∀ x y, x < p.w → y < p.rows.length →
    (x < rowLen (p.rows.getD y []) → L.cellAt x y = img (p.get x y)) ∧
    (rowLen (p.rows.getD y []) ≤ x → L.cellAt x y = defaultCell ∧ (p.get x y).isTransparent = true)

/-- what the ATASCII loader makes of a cell: the character, and inverse video (background > 0) as black on white -/
def ataImg (c : Cell) : Cell :=
  ⟨c.ch, ⟨if 0 < c.attr.bg then 0 else 7, if 0 < c.attr.bg then 7 else 0, Flags.none⟩⟩

def AtaDom (c : Cell) : Prop :=
  c.ch < 128 ∧ c.ch ≠ 27 ∧ c.ch ≠ 28 ∧ c.ch ≠ 29 ∧ c.ch ≠ 30 ∧ c.ch ≠ 31 ∧ c.ch ≠ 125 ∧ c.ch ≠ 126 ∧ c.ch ≠ 127

def AtaR (_ : Unit) (r : RS) : Prop := r.core.stuck = false ∧ r.ataEsc = false ∧ r.core.attr.fl = Flags.none

theorem ata_cell (s : Unit) (r : RS) (c : Cell) (hR : AtaR s r) (hd : AtaDom c) :
    ∃ b s', ataEmit s c = some (b, s') ∧ AtaR s' (b.foldl (step .atascii) r) ∧
      (b.foldl (step .atascii) r).core.scr = r.core.scr.put (ataImg c) := by
  obtain ⟨h128, h27, h28, h29, h30, h31, h125, h126, h127⟩ := hd
  obtain ⟨ns, he, hfl⟩ := hR
  have hm : c.ch % 256 = c.ch := by omega
  by_cases hbg : 0 < c.attr.bg
  · have hesc : ¬ (c.ch + 128 ∈ atasciiEscaped) := by
      simp [atasciiEscaped] <;> omega
    have e : [c.ch + 128].foldl (step .atascii) r =
        { r with core := { r.core with attr := { r.core.attr with fg := 0, bg := 7 },
                                       scr := r.core.scr.put ⟨c.ch, { r.core.attr with fg := 0, bg := 7 }⟩ } } := by
      have a1 : (c.ch + 128) % 65536 = c.ch + 128 := by omega
      have a2 : 127 < c.ch + 128 := by omega
      have a3 : c.ch + 128 - 128 = c.ch := by omega
      have a4 : c.ch % 65536 = c.ch := by omega
      have a5 : ¬ (55296 ≤ c.ch ∧ c.ch ≤ 57343) := by omega
      have n1 : c.ch + 128 ≠ 27 := by omega
      have n2 : c.ch + 128 ≠ 125 := by omega
      have n3 : c.ch + 128 ≠ 155 := by omega
      have n4 : ¬ (c.ch + 128 = 127 ∨ c.ch + 128 = 158 ∨ c.ch + 128 = 159 ∨ c.ch + 128 = 253) := by omega
      have n5 : ¬ (c.ch + 128 = 28 ∨ c.ch + 128 = 29 ∨ c.ch + 128 = 30 ∨ c.ch + 128 = 31 ∨ c.ch + 128 = 126 ∨ c.ch + 128 = 156 ∨
          c.ch + 128 = 157 ∨ c.ch + 128 = 254 ∨ c.ch + 128 = 255) := by omega
      simp [step, ataStep, ns, he, n1, n2, n3, n4, n5, a1, a2, a3, a4, a5, Core.printValue, h27, h28, h29, h30, h31, h125, h126, h127]
    refine ⟨[c.ch + 128], (), ?_, ?_, ?_⟩
    · have : ¬ (0 < c.attr.bg ∧ 128 ≤ c.ch) := by omega
      simp [ataEmit, hm, this, hbg, hesc, h128]
    · rw [e]; exact ⟨ns, he, hfl⟩
    · rw [e]
      show r.core.scr.put _ = r.core.scr.put (ataImg c)
      unfold ataImg; rw [if_pos hbg, if_pos hbg]; simp only [hfl]
  · have hesc : ¬ (c.ch ∈ atasciiEscaped) := by
      simp [atasciiEscaped] <;> omega
    have e : [c.ch].foldl (step .atascii) r =
        { r with core := { r.core with attr := { r.core.attr with fg := 7, bg := 0 },
                                       scr := r.core.scr.put ⟨c.ch, { r.core.attr with fg := 7, bg := 0 }⟩ } } := by
      have a1 : c.ch % 65536 = c.ch := by omega
      have a2 : ¬ (127 < c.ch) := by omega
      have a5 : ¬ (55296 ≤ c.ch ∧ c.ch ≤ 57343) := by omega
      have n2 : c.ch ≠ 155 := by omega
      have n4 : ¬ (c.ch = 127 ∨ c.ch = 158 ∨ c.ch = 159 ∨ c.ch = 253) := by omega
      have n5 : ¬ (c.ch = 28 ∨ c.ch = 29 ∨ c.ch = 30 ∨ c.ch = 31 ∨ c.ch = 126 ∨ c.ch = 156 ∨ c.ch = 157 ∨ c.ch = 254 ∨ c.ch = 255) := by
        omega
      have k1 : c.ch ≠ 158 := by omega
      have k2 : c.ch ≠ 159 := by omega
      have k3 : c.ch ≠ 253 := by omega
      have k4 : c.ch ≠ 156 := by omega
      have k5 : c.ch ≠ 157 := by omega
      have k6 : c.ch ≠ 254 := by omega
      have k7 : c.ch ≠ 255 := by omega
      simp [step, ataStep, ns, he, h27, h125, n2, n4, n5, a1, a2, a5, Core.printValue, h28, h29, h30, h31, h126, h127, k1, k2, k3, k4, k5, k6, k7]
    refine ⟨[c.ch], (), ?_, ?_, ?_⟩
    · have : ¬ (0 < c.attr.bg ∧ 128 ≤ c.ch) := by omega
      simp [ataEmit, hm, this, hbg, hesc, h128]
    · rw [e]; exact ⟨ns, he, hfl⟩
    · rw [e]
      show r.core.scr.put _ = r.core.scr.put (ataImg c)
      unfold ataImg; rw [if_neg hbg, if_neg hbg]; simp only [hfl]

theorem ata_eol (s : Unit) (r : RS) (hR : AtaR s r) :
    AtaR s ([atasciiEol].foldl (step .atascii) r) ∧ ([atasciiEol].foldl (step .atascii) r).core.scr = r.core.scr.exec Op.nl := by
  obtain ⟨ns, he, hfl⟩ := hR
  have e : [atasciiEol].foldl (step .atascii) r = { r with core := { r.core with scr := r.core.scr.lf } } := by
    simp [atasciiEol, step, ataStep, ns, he]
  rw [e]
  exact ⟨⟨ns, he, hfl⟩, rfl⟩

theorem shownAt_replicate_invisible (n w x y : Nat) :
    shownAt (List.replicate n (List.replicate w invisibleCell)) x y = defaultCell := by
  unfold shownAt
  rw [List.getElem?_replicate]
  by_cases hy : y < n
  · simp [hy, lineShown_replicate_invisible]
  · simp [hy, lineShown_nil]

/-- assembly for the ATASCII loader (no crop, no bold folding, rows of invisible cells to start with) -/
theorem ata_assemble (p : Pic) (bytes : List Nat) (hw : p.w = 40) (hwf : p.WF) (hlast : p.LastRowNonEmpty)
    (hrun : (run .atascii (initial .atascii none) bytes).core.scr =
      (initial .atascii none).core.scr.runOps (picOps trimRow ataImg p.w p.rows))
    (hstuck : (run .atascii (initial .atascii none) bytes).core.stuck = false) :
    ShowsIn (load .atascii none bytes) p ataImg := by
  have hfit : ∀ r ∈ p.rows, (trimRow r).length ≤ p.w := fun r hr => Nat.le_trans (trimRow_length_le r) (hwf r hr)
  have hs0w : (initial .atascii none).core.scr.w = p.w := by rw [hw]; rfl
  have hs0x : (initial .atascii none).core.scr.cx = 0 := rfl
  have hs0y : (initial .atascii none).core.scr.cy = 0 := rfl
  have hfit' : ∀ r ∈ p.rows, (trimRow r).length ≤ (initial .atascii none).core.scr.w := by rw [hs0w]; exact hfit
  have V := pic_view trimRow ataImg p.rows (initial .atascii none).core.scr hs0x (by rw [hs0w]; omega) hfit'
  have LH := pic_layerH trimRow ataImg p.rows (initial .atascii none).core.scr hs0x (by rw [hs0w]; omega) hfit' hlast.1 hlast.2
  rw [hs0w] at V LH
  rw [← hrun] at V LH
  rw [hs0y] at V LH
  simp only [Nat.zero_add] at LH
  have hsw : (run .atascii (initial .atascii none) bytes).core.scr.w = p.w := by rw [hrun, runOps_w, hs0w]
  have hload : load .atascii none bytes = finish .atascii (run .atascii (initial .atascii none) bytes) := by
    unfold load; rw [if_pos rfl]
  rw [hload]
  unfold finish
  rw [if_pos rfl]
  refine ⟨hstuck, hsw, LH, ?_⟩
  intro x y hx hy
  have hcell : ∀ v, (⟨(run .atascii (initial .atascii none) bytes).core.scr.w, (run .atascii (initial .atascii none) bytes).core.scr.layerH,
      (run .atascii (initial .atascii none) bytes).core.scr.lines, (run .atascii (initial .atascii none) bytes).core.pal,
      (run .atascii (initial .atascii none) bytes).core.bufIce, (run .atascii (initial .atascii none) bytes).core.stuck⟩ : Loaded).cellAt x y = v ↔
      shownAt (run .atascii (initial .atascii none) bytes).core.scr.lines x y = v := by
    intro v
    show viewLines _ _ _ x y = v ↔ _
    rw [viewLines_eq, hsw]
    have : ¬ (p.w ≤ x ∨ (run .atascii (initial .atascii none) bytes).core.scr.layerH ≤ y) := by omega
    rw [if_neg this]
  have hrow : p.rows.getD y [] ∈ p.rows := mem_of_getD_lt hy
  constructor
  · intro hlt
    have hlt : x < (trimRow (p.rows.getD y [])).length := hlt
    rw [hcell, V x y]
    have hc' : 0 ≤ y ∧ y < 0 + p.rows.length ∧ x < (trimRow (p.rows.getD (y - 0) [])).length := by
      refine ⟨Nat.zero_le _, by omega, ?_⟩; simpa using hlt
    rw [if_pos hc']
    simp only [Nat.sub_zero]
    rw [trimRow_getD _ _ _ hlt]
    exact shown_of_visible rfl
  · intro hge
    have hge : (trimRow (p.rows.getD y [])).length ≤ x := hge
    have hc' : ¬ (0 ≤ y ∧ y < 0 + p.rows.length ∧ x < (trimRow (p.rows.getD (y - 0) [])).length) := by
      intro ⟨_, _, h3⟩
      rw [Nat.sub_zero] at h3; omega
    refine ⟨?_, ?_⟩
    · rw [hcell, V x y, if_neg hc']
      exact shownAt_replicate_invisible _ _ _ _
    · show ((p.rows.getD y []).getD x defaultCell).isTransparent = true
      by_cases hxl : x < (p.rows.getD y []).length
      · exact trimRow_rest_transparent _ _ hge hxl
      · have : (p.rows.getD y []).getD x defaultCell = defaultCell := by
          have hq : (p.rows.getD y []).length ≤ x := by omega
          rw [List.getD_eq_getElem?_getD, List.getElem?_eq_none hq]; rfl
        rw [this]; decide

end IcyVerif.ArtIO
