import IcyVerif.Model.CompLayer
import IcyVerif.Lemmas.Comp
set_option linter.unusedSimpArgs false
set_option linter.unusedVariables false
/-! Lemmas about the offset state machine of a layer (Model/CompLayer.lean): what each operation does to the layer the
compositor sees (`LayerS.view`), the frame property (no operation touches anything but the position state), and their
lifting to histories (induction over the operation list) and to stacks. -/
namespace IcyVerif.Comp

theorem Layer.placedAt_self (l : Layer) : l.placedAt (l.offX, l.offY) = l := by cases l; rfl
theorem Layer.placedAt_placedAt (l : Layer) (p q : Int × Int) : (l.placedAt p).placedAt q = l.placedAt q := rfl
theorem Layer.placedAt_shift (l : Layer) (q : Int × Int) (dx dy : Int) :
    (l.placedAt q).shift dx dy = l.placedAt (q.1 + dx, q.2 + dy) := rfl

/-- the compositor sees the body of the layer at `get_offset()` -/
theorem LayerS.view_eq (l : LayerS) : l.view = l.body.placedAt l.getOffset := rfl

theorem LayerS.view_fresh (l : Layer) : (LayerS.fresh l).view = l := by cases l; rfl

theorem LayerS.getOffset_fresh (l : Layer) : (LayerS.fresh l).getOffset = (l.offX, l.offY) := rfl

/-! ### one operation -/

theorem LayerS.setOffset_unlocked (l : LayerS) (q : Int × Int) (h : l.posLocked = false) :
    l.setOffset q = { l with preview := none, body := l.body.placedAt q } := by
  unfold LayerS.setOffset; rw [h]; rfl

theorem LayerS.setOffset_locked (l : LayerS) (q : Int × Int) (h : l.posLocked = true) : l.setOffset q = l := by
  unfold LayerS.setOffset; rw [h]; rfl

/-- `set_offset(q)` on an unlocked layer: shown at exactly `q`, whatever preview was pending -/
theorem LayerS.view_setOffset (l : LayerS) (q : Int × Int) (h : l.posLocked = false) :
    (l.setOffset q).view = l.body.placedAt q := by
  rw [LayerS.setOffset_unlocked l q h]; rfl

theorem LayerS.getOffset_setOffset (l : LayerS) (q : Int × Int) (h : l.posLocked = false) :
    (l.setOffset q).getOffset = q := by
  rw [LayerS.setOffset_unlocked l q h]; rfl

theorem LayerS.view_setPreview_some (l : LayerS) (p : Int × Int) :
    (l.setPreviewOffset (some p)).view = l.body.placedAt p := rfl

theorem LayerS.view_setPreview_none (l : LayerS) : (l.setPreviewOffset none).view = l.body := by
  show l.body.placedAt (l.body.offX, l.body.offY) = l.body
  exact Layer.placedAt_self _

/-- frame: an operation changes nothing of the body but (possibly) the base offset -/
theorem LayerS.apply_body (l : LayerS) (op : LOp) : ∃ q, (l.apply op).body = l.body.placedAt q := by
  cases op with
  | setOffset q =>
    cases h : l.posLocked with
    | true => exact ⟨(l.body.offX, l.body.offY), by
        show (l.setOffset q).body = _
        rw [LayerS.setOffset_locked l q h, Layer.placedAt_self]⟩
    | false => exact ⟨q, by show (l.setOffset q).body = _; rw [LayerS.setOffset_unlocked l q h]⟩
  | setPreview p => exact ⟨(l.body.offX, l.body.offY), by
      show l.body = _
      rw [Layer.placedAt_self]⟩
  | setLocked b => exact ⟨(l.body.offX, l.body.offY), by
      show l.body = _
      rw [Layer.placedAt_self]⟩
  | assignOffset q => exact ⟨q, rfl⟩

/-! ### histories of one layer -/

theorem LayerS.run_nil (l : LayerS) : l.run [] = l := rfl
theorem LayerS.run_cons (l : LayerS) (op : LOp) (ops : List LOp) : l.run (op :: ops) = (l.apply op).run ops := rfl
theorem LayerS.run_append (l : LayerS) (a b : List LOp) : l.run (a ++ b) = (l.run a).run b := by
  unfold LayerS.run; rw [List.foldl_append]

/-- frame, for every history -/
theorem LayerS.run_body (l : LayerS) (ops : List LOp) : ∃ q, (l.run ops).body = l.body.placedAt q := by
  induction ops generalizing l with
  | nil => exact ⟨(l.body.offX, l.body.offY), by rw [LayerS.run_nil, Layer.placedAt_self]⟩
  | cons op ops ih =>
    obtain ⟨q₁, h₁⟩ := l.apply_body op
    obtain ⟨q₂, h₂⟩ := ih (l.apply op)
    exact ⟨q₂, by rw [LayerS.run_cons, h₂, h₁, Layer.placedAt_placedAt]⟩

/-- after every history the compositor sees the ORIGINAL content at `get_offset()` -/
theorem LayerS.view_run (l : LayerS) (ops : List LOp) :
    (l.run ops).view = l.body.placedAt (l.run ops).getOffset := by
  obtain ⟨q, h⟩ := l.run_body ops
  rw [LayerS.view_eq, h, Layer.placedAt_placedAt]

/-! ### stacks -/

theorem applyAt_getElem? (S : List LayerS) (i j : Nat) (op : LOp) :
    (applyAt S i op)[j]? = if i = j then (S[j]?).map (fun l => l.apply op) else S[j]? := by
  unfold applyAt
  cases h : S[i]? with
  | none =>
    by_cases hij : i = j
    · subst hij; simp [h]
    · simp [hij]
  | some l =>
    simp only [List.getElem?_set]
    by_cases hij : i = j
    · subst hij
      obtain ⟨hlt, hget⟩ := List.getElem?_eq_some_iff.mp h
      simp [h, hlt, hget]
    · simp [hij]

/-- the operations of a stack history that address layer `i` -/
def opsFor (i : Nat) (ops : List (Nat × LOp)) : List LOp :=
  ops.filterMap fun o => if o.1 = i then some o.2 else none

theorem runStack_nil (S : List LayerS) : runStack S [] = S := rfl
theorem runStack_cons (S : List LayerS) (o : Nat × LOp) (ops : List (Nat × LOp)) :
    runStack S (o :: ops) = runStack (applyAt S o.1 o.2) ops := rfl

/-- layers do not interfere: layer `i` after a stack history is layer `i` after the operations addressed to it -/
theorem runStack_getElem? (S : List LayerS) (ops : List (Nat × LOp)) (i : Nat) :
    (runStack S ops)[i]? = (S[i]?).map (fun l => l.run (opsFor i ops)) := by
  induction ops generalizing S with
  | nil =>
    rw [runStack_nil]
    cases h : S[i]? <;> simp [opsFor, LayerS.run]
  | cons o ops ih =>
    rw [runStack_cons, ih, applyAt_getElem?]
    by_cases h : o.1 = i
    · have : opsFor i (o :: ops) = o.2 :: opsFor i ops := by simp [opsFor, h]
      rw [this]
      simp only [h, if_true]
      cases S[i]? <;> rfl
    · have : opsFor i (o :: ops) = opsFor i ops := by simp [opsFor, h]
      rw [this]
      simp only [h, if_false]

theorem runStack_length (S : List LayerS) (ops : List (Nat × LOp)) : (runStack S ops).length = S.length := by
  induction ops generalizing S with
  | nil => rfl
  | cons o ops ih =>
    rw [runStack_cons, ih]
    unfold applyAt
    cases S[o.1]? <;> simp

/-- after every stack history the compositor sees the ORIGINAL contents, each at its layer's `get_offset()` -/
theorem runStack_view (S : List LayerS) (ops : List (Nat × LOp)) :
    (runStack S ops).map LayerS.view
      = List.zipWith (fun (l l' : LayerS) => l.body.placedAt l'.getOffset) S (runStack S ops) := by
  apply List.ext_getElem?
  intro i
  rw [List.getElem?_map, List.getElem?_zipWith, runStack_getElem?]
  cases h : S[i]? with
  | none => rfl
  | some l =>
    simp only [Option.map_some]
    rw [LayerS.view_run]

end IcyVerif.Comp
