import IcyVerif.Lemmas.RipCanvas
import IcyVerif.Lemmas.BgiLineTotal
set_option linter.unusedSimpArgs false
set_option linter.unusedVariables false
/-! Every modelled RIP command is total: in a state a stream can reach (`DrawState`: stream viewport, 8-row user
pattern, one of the 13 fill styles, complete 640 x 350 screen), with parameters as the lexer delivers them (base-36
numbers, non-negative, at most four digits; four digits only for the user line pattern, two digits everywhere else), `Command::run` answers `Ok` or `Err` — it does
not panic and does not stall — and the state it leaves is again a `DrawState`. -/
namespace IcyVerif.Bgi

/-- nothing but the screen cells changed -/
def ScrOnly (s s' : Bgi) : Prop := ∃ scr, s' = { s with screen := scr }

theorem ScrOnly.refl (s : Bgi) : ScrOnly s s := ⟨s.screen, rfl⟩
theorem ScrOnly.trans {a b c : Bgi} (h1 : ScrOnly a b) (h2 : ScrOnly b c) : ScrOnly a c := by
  obtain ⟨s1, e1⟩ := h1
  obtain ⟨s2, e2⟩ := h2
  exact ⟨s2, by rw [e2, e1]⟩

theorem putPixel_scr {s s' : Bgi} {x y : Int} {c : Nat} (h : putPixel s x y c = some s') : ScrOnly s s' := by
  unfold putPixel at h
  split at h
  · cases h
  · cases h; exact ScrOnly.refl s
  · split at h
    · cases h
    · split at h
      · cases h
      · split at h
        · cases h; exact ⟨_, rfl⟩
        · cases h; exact ScrOnly.refl s

theorem pixelRun_scr (n : Nat) : ∀ (s s' : Bgi) (hz : Bool) (fixed lo : Int), pixelRun s hz fixed lo n = some s' → ScrOnly s s' := by
  induction n with
  | zero => intro s s' hz fixed lo h; simp [pixelRun] at h; subst h; exact ScrOnly.refl s
  | succ k ih =>
    intro s s' hz fixed lo h
    unfold pixelRun at h
    split at h
    · cases h
    · rename_i s1 h1
      have k1 : ScrOnly s s1 := by
        cases hz with
        | true => simp only [if_true] at h1; exact putPixel_scr h1
        | false => simp only [Bool.false_eq_true, if_false] at h1; exact putPixel_scr h1
      exact k1.trans (ih s1 s' hz fixed (lo + 1) h)

theorem spanLoop_scr (n : Nat) : ∀ (s : Bgi) (isX : Bool) (pos runLo : Int) (runLen : Nat) (inc offset : Int) (cost : Nat)
    (r : Bgi × Int × Nat), spanLoop s isX pos runLo runLen inc n offset cost = some r → ScrOnly s r.1 := by
  induction n with
  | zero => intro s isX pos runLo runLen inc offset cost r h; simp [spanLoop] at h; subst h; exact ScrOnly.refl s
  | succ k ih =>
    intro s isX pos runLo runLen inc offset cost r h
    unfold spanLoop at h
    split at h
    · split at h
      · cases h
      · rename_i s1 h1
        exact (pixelRun_scr _ _ _ _ _ _ h1).trans (ih _ _ _ _ _ _ _ _ _ h)
    · exact ih _ _ _ _ _ _ _ _ _ h

theorem fillX_scr {s : Bgi} {y startx count offset : Int} {r : Bgi × Int × Nat} (h : fillX s y startx count offset = some r) : ScrOnly s r.1 := by
  unfold fillX at h
  split at h
  · cases h; exact ScrOnly.refl s
  · rw [Option.map_eq_some_iff] at h
    obtain ⟨q, hq, e⟩ := h
    subst e
    exact spanLoop_scr _ _ _ _ _ _ _ _ _ q hq

theorem fillY_scr {s : Bgi} {x startY count offset : Int} {r : Bgi × Int × Nat} (h : fillY s x startY count offset = some r) : ScrOnly s r.1 := by
  unfold fillY at h
  split at h
  · cases h; exact ScrOnly.refl s
  · rw [Option.map_eq_some_iff] at h
    obtain ⟨q, hq, e⟩ := h
    subst e
    exact spanLoop_scr _ _ _ _ _ _ _ _ _ q hq

theorem xRuns_scr (n : Nat) : ∀ (s : Bgi) (whole step adjUp adjDown px py err offset : Int) (cost : Nat)
    (r : Bgi × Int × Int × Int × Int × Nat), xRuns s whole step adjUp adjDown n px py err offset cost = some r → ScrOnly s r.1 := by
  induction n with
  | zero => intro s whole step adjUp adjDown px py err offset cost r h; simp [xRuns] at h; subst h; exact ScrOnly.refl s
  | succ k ih =>
    intro s whole step adjUp adjDown px py err offset cost r h
    unfold xRuns at h
    simp only [] at h
    split at h
    · cases h
    · rename_i s1 o1 c1 h1
      exact (fillX_scr h1).trans (ih _ _ _ _ _ _ _ _ _ _ _ h)

theorem yRuns_scr (n : Nat) : ∀ (s : Bgi) (whole adv adjUp adjDown px py err offset : Int) (cost : Nat)
    (r : Bgi × Int × Int × Int × Int × Nat), yRuns s whole adv adjUp adjDown n px py err offset cost = some r → ScrOnly s r.1 := by
  induction n with
  | zero => intro s whole adv adjUp adjDown px py err offset cost r h; simp [yRuns] at h; subst h; exact ScrOnly.refl s
  | succ k ih =>
    intro s whole adv adjUp adjDown px py err offset cost r h
    unfold yRuns at h
    simp only [] at h
    split at h
    · cases h
    · rename_i s1 o1 c1 h1
      exact (fillY_scr h1).trans (ih _ _ _ _ _ _ _ _ _ _ _ h)

theorem lineX_scr {s : Bgi} {px py step : Int} {dx dy : Nat} {r : Bgi × Nat} (h : lineX s px py step dx dy = some r) : ScrOnly s r.1 := by
  unfold lineX at h
  simp only [] at h
  split at h
  · cases h
  · rename_i r1 h1
    split at h
    · cases h
    · rename_i r2 h2
      split at h
      · cases h
      · rename_i r3 h3
        cases h
        exact ((fillX_scr h1).trans (xRuns_scr _ _ _ _ _ _ _ _ _ _ _ _ h2)).trans (fillX_scr h3)

theorem lineY_scr {s : Bgi} {px py adv : Int} {dx dy : Nat} {r : Bgi × Nat} (h : lineY s px py adv dx dy = some r) : ScrOnly s r.1 := by
  unfold lineY at h
  simp only [] at h
  split at h
  · cases h
  · rename_i r1 h1
    split at h
    · cases h
    · rename_i r2 h2
      split at h
      · cases h
      · rename_i r3 h3
        cases h
        exact ((fillY_scr h1).trans (yRuns_scr _ _ _ _ _ _ _ _ _ _ _ _ h2)).trans (fillY_scr h3)

theorem line_scr {s s' : Bgi} {x1 y1 x2 y2 : Int} (h : line s x1 y1 x2 y2 = some s') : ScrOnly s s' := by
  unfold line at h
  rw [Option.map_eq_some_iff] at h
  obtain ⟨r, hr, e⟩ := h
  subst e
  unfold lineCost at hr
  simp only [] at hr
  split at hr
  · rw [Option.map_eq_some_iff] at hr
    obtain ⟨q, hq, e⟩ := hr
    subst e
    exact fillY_scr hq
  · split at hr
    · rw [Option.map_eq_some_iff] at hr
      obtain ⟨q, hq, e⟩ := hr
      subst e
      exact fillX_scr hq
    · split at hr
      · exact lineX_scr hr
      · exact lineY_scr hr

theorem drawState_scr {s s' : Bgi} (hd : DrawState s) (h : ScrOnly s s') (hsz : s'.screen.size = s.screen.size) : DrawState s' := by
  obtain ⟨scr, e⟩ := h
  subst e
  obtain ⟨hs, hh, hz⟩ := hd
  exact ⟨hs, hh, by rw [hsz, hz]⟩

theorem drawState_lineOk {s : Bgi} (hd : DrawState s) : LineOk s := by
  obtain ⟨⟨hW, v1, v2, v3, v4, v5, v6, v7, v8, _, _⟩, _, _⟩ := hd
  refine ⟨?_, by omega, by omega⟩
  unfold VpSane
  omega

/-- `line` in a `DrawState`, for ALL end points -/
theorem line_draw (s : Bgi) (hd : DrawState s) (x1 y1 x2 y2 : Int) : ∃ s', line s x1 y1 x2 y2 = some s' ∧ DrawState s' := by
  obtain ⟨s', h, _⟩ := line_total s (drawState_lineOk hd) x1 y1 x2 y2
  exact ⟨s', h, drawState_scr hd (line_scr h) (line_size h).1⟩

theorem rectangle_draw (s : Bgi) (hd : DrawState s) (l t r b : Int) : ∃ s', rectangle s l t r b = some s' ∧ DrawState s' := by
  obtain ⟨s1, h1, d1⟩ := line_draw s hd l t r t
  obtain ⟨s2, h2, d2⟩ := line_draw s1 d1 l b r b
  obtain ⟨s3, h3, d3⟩ := line_draw s2 d2 r t r b
  obtain ⟨s4, h4, d4⟩ := line_draw s3 d3 l t l b
  unfold rectangle
  simp only [h1, h2, h3]
  exact ⟨s4, h4, d4⟩

theorem polySegs_draw : ∀ (pts : List (Int × Int)) (s : Bgi) (last : Int × Int), DrawState s →
    ∃ r, polySegs s last pts = some r ∧ DrawState r.1 := by
  intro pts
  induction pts with
  | nil => intro s last hd; exact ⟨(s, last), rfl, hd⟩
  | cons p t ih =>
    intro s last hd
    obtain ⟨s1, h1, d1⟩ := line_draw s hd last.1 last.2 p.1 p.2
    unfold polySegs
    rw [h1]
    exact ih s1 p d1

theorem drawPolyLine_draw (s : Bgi) (hd : DrawState s) (pts : List (Int × Int)) : ∃ s', drawPolyLine s pts = some s' ∧ DrawState s' := by
  unfold drawPolyLine
  cases pts with
  | nil => exact ⟨s, rfl, hd⟩
  | cons p0 t =>
    obtain ⟨r, h, d⟩ := polySegs_draw (p0 :: t) s p0 hd
    simp only [h]
    exact ⟨r.1, rfl, d⟩

theorem drawPoly_draw (s : Bgi) (hd : DrawState s) (pts : List (Int × Int)) : ∃ s', drawPoly s pts = some s' ∧ DrawState s' := by
  unfold drawPoly
  cases pts with
  | nil => exact ⟨s, rfl, hd⟩
  | cons p0 t =>
    obtain ⟨r, h, d⟩ := polySegs_draw (p0 :: t) s p0 hd
    simp only [h]
    exact line_draw r.1 d _ _ _ _

theorem putPixel_draw (s : Bgi) (hd : DrawState s) (x y : Int) (c : Nat) : ∃ s', putPixel s x y c = some s' ∧ DrawState s' := by
  have hl := drawState_lineOk hd
  obtain ⟨s', h⟩ := putPixel_total s hl.1 ⟨hl.2.1, hl.2.2⟩ x y c
  exact ⟨s', h, drawState_scr hd (putPixel_scr h) (putPixel_size h)⟩

theorem bar_draw (s : Bgi) (hd : DrawState s) (l t r b : Int) (hl : -1048576 ≤ l ∧ l ≤ 1048576) (ht : -1048576 ≤ t ∧ t ≤ 1048576)
    (hr : -1048576 ≤ r ∧ r ≤ 1048576) (hb : -1048576 ≤ b ∧ b ≤ 1048576) : ∃ s', bar s l t r b = some s' ∧ DrawState s' := by
  obtain ⟨s', h⟩ := bar_total s hd.1 l t r b hl ht hr hb
  exact ⟨s', h, drawState_bar hd h⟩

theorem lookupFrom_lt (tab : List (Nat × Nat)) (d n : Nat) (hd : d < n) (ht : tab.all (fun p => decide (p.2 < n)) = true) (v : Nat) :
    lookupFrom tab d v < n := by
  unfold lookupFrom
  cases hf : tab.find? (fun p => p.1 = v) with
  | none => exact hd
  | some p =>
    obtain ⟨a, b⟩ := p
    have hm := List.mem_of_find?_eq_some hf
    rw [List.all_eq_true] at ht
    have := ht (a, b) hm
    simpa using this

end IcyVerif.Bgi

namespace IcyVerif.RipCanvas
open IcyVerif.Rip IcyVerif.Bgi

/-- parameters as the lexer delivers them: non-negative base-36 numbers; two digits (<= 1295) for every field of the
modelled commands and for polygon / palette lists, four digits only in LineStyle (kind 15: the user line pattern) -/
def ParamsOk (k : Nat) (c : CmdSt) : Prop :=
  (∀ i, 0 ≤ getInt c i ∧ getInt c i ≤ 1679615) ∧ (k ≠ 15 → ∀ i, getInt c i ≤ 1295) ∧ (∀ v, v ∈ c.vec → 0 ≤ v ∧ v ≤ 1295)

/-- the answer of a modelled command that returned -/
def RunOut.state? : RunOut → Option Bgi
  | .ok b _ => some b
  | .err b => some b
  | _ => none

theorem lift_draw {r : Option Bgi} {u : Bool} (h : ∃ s', r = some s' ∧ DrawState s') : ∃ b', (lift r u).state? = some b' ∧ DrawState b' := by
  obtain ⟨s', e, d⟩ := h
  subst e
  exact ⟨s', rfl, d⟩

/-- every modelled command: total, and the state it leaves is a `DrawState` again -/
theorem execCmd_total (b : Bgi) (hd : DrawState b) (k : Nat) (hk : 1 ≤ k ∧ k ≤ 17) (c : CmdSt) (hp : ParamsOk k c) :
    ∃ b', (execCmd b k c).state? = some b' ∧ DrawState b' := by
  obtain ⟨hi, hv1, hvec⟩ := hp
  obtain ⟨⟨hW, v1, v2, v3, v4, v5, v6, v7, v8, hup, hfs⟩, hH, hsz⟩ := hd
  have hd : DrawState b := ⟨⟨hW, v1, v2, v3, v4, v5, v6, v7, v8, hup, hfs⟩, hH, hsz⟩
  have field : ∀ b' : Bgi, b'.winW = b.winW → b'.vp = b.vp → b'.userPat = b.userPat → b'.fillStyle = b.fillStyle → b'.winH = b.winH →
      b'.screen = b.screen → DrawState b' := by
    intro b' e1 e2 e3 e4 e5 e6
    exact ⟨⟨by rw [e1]; exact hW, by rw [e2]; exact v1, by rw [e2]; exact v2, by rw [e2]; exact v3, by rw [e2]; exact v4,
      by rw [e2]; exact v5, by rw [e2]; exact v6, by rw [e2]; exact v7, by rw [e2]; exact v8, by rw [e3]; exact hup, by rw [e4]; exact hfs⟩,
      by rw [e5]; exact hH, by rw [e6]; exact hsz⟩
  have hk' : k = 1 ∨ k = 2 ∨ k = 3 ∨ k = 4 ∨ k = 5 ∨ k = 6 ∨ k = 7 ∨ k = 8 ∨ k = 9 ∨ k = 10 ∨ k = 11 ∨ k = 12 ∨ k = 13 ∨ k = 14 ∨
      k = 15 ∨ k = 16 ∨ k = 17 := by omega
  rcases hk' with h | h | h | h | h | h | h | h | h | h | h | h | h | h | h | h | h <;> subst h <;> unfold execCmd <;> simp only []
  · -- ViewPort
    have b0 := hi 0; have b1 := hi 1; have b2 := hi 2; have b3 := hi 3
    have c0 := hv1 (by decide) 0; have c1 := hv1 (by decide) 1; have c2 := hv1 (by decide) 2; have c3 := hv1 (by decide) 3
    apply lift_draw
    unfold setViewport
    rw [chk_of_range (v := getInt c 2 - getInt c 0) (by simp only [Bgi.i32Min]; omega) (by simp only [Bgi.i32Max]; omega)]
    rw [chk_of_range (v := getInt c 3 - getInt c 1) (by simp only [Bgi.i32Min]; omega) (by simp only [Bgi.i32Max]; omega)]
    exact ⟨_, rfl, ⟨hW, by dsimp only; omega, by dsimp only; omega, by dsimp only; omega, by dsimp only; omega, by dsimp only; omega,
      by dsimp only; omega, by dsimp only; omega, by dsimp only; omega, hup, hfs⟩, hH, hsz⟩
  · -- EraseView
    apply lift_draw
    obtain ⟨s', h⟩ := barRect_total b hd.1 b.vp (by omega) (by omega) (by omega) (by omega)
    unfold clearViewport
    exact ⟨s', h, drawState_scr hd (by obtain ⟨scr, e⟩ := barRect_frame h; exact ⟨scr, e⟩) (barRect_size h).1⟩
  · exact ⟨_, rfl, field _ rfl rfl rfl rfl rfl rfl⟩
  · -- SetPalette
    split
    · exact ⟨b, rfl, hd⟩
    · rename_i hany
      apply lift_draw
      unfold setPalette
      have hall : (c.vec.all fun x => decide (0 ≤ x ∧ x < (Gen.Bgi.egaPaletteLen : Int))) = true := by
        rw [List.all_eq_true]
        intro x hx
        have hn : ¬ (c.vec.any fun v => !(decide (0 ≤ v) && decide (v < 64))) = true := hany
        rw [List.any_eq_true] at hn
        have : ¬ (!(decide (0 ≤ x) && decide (x < 64))) = true := fun h => hn ⟨x, hx, h⟩
        simp only [Bool.not_eq_true', Bool.not_eq_false', Bool.and_eq_true, decide_eq_true_eq] at this
        have e : (Gen.Bgi.egaPaletteLen : Int) = 64 := by decide
        rw [e]
        simpa using this
      rw [hall]
      exact ⟨_, rfl, field _ rfl rfl rfl rfl rfl rfl⟩
  · -- OnePalette
    have b0 := hi 0
    split
    · exact ⟨b, rfl, hd⟩
    · rename_i hval
      have hneg : ¬ getInt c 0 < 0 := by omega
      simp only [hneg, if_false]
      apply lift_draw
      unfold setPaletteColor
      have hval' : 0 ≤ getInt c 1 ∧ getInt c 1 < 64 := by
        by_cases h0 : 0 ≤ getInt c 1
        · by_cases h1 : getInt c 1 < 64
          · exact ⟨h0, h1⟩
          · exfalso; apply hval; simp [h0, h1]
        · exfalso; apply hval; simp [h0]
      have hv : u8 (getInt c 1) % 256 < Gen.Bgi.egaPaletteLen := by
        have e : Gen.Bgi.egaPaletteLen = 64 := by decide
        rw [e]
        unfold u8
        have hm : getInt c 1 % 256 = getInt c 1 := Int.emod_eq_of_lt (by omega) (by omega)
        rw [hm]
        omega
      simp only [hv, if_true]
      exact ⟨_, rfl, field _ rfl rfl rfl rfl rfl rfl⟩
  · exact ⟨_, rfl, field _ rfl rfl rfl rfl rfl rfl⟩
  · exact ⟨_, rfl, field _ rfl rfl rfl rfl rfl rfl⟩
  · exact lift_draw (putPixel_draw b hd _ _ _)
  · exact lift_draw (line_draw b hd _ _ _ _)
  · exact lift_draw (rectangle_draw b hd _ _ _ _)
  · -- Bar
    have b0 := hi 0; have b1 := hi 1; have b2 := hi 2; have b3 := hi 3
    have c0 := hv1 (by decide) 0; have c1 := hv1 (by decide) 1; have c2 := hv1 (by decide) 2; have c3 := hv1 (by decide) 3
    apply lift_draw
    apply bar_draw b hd <;> (split <;> omega)
  · exact lift_draw (drawPoly_draw b hd _)
  · exact lift_draw (drawPolyLine_draw b hd _)
  · -- Fill
    obtain ⟨s', n, kk, h, d, _⟩ := floodFill_spec b hd (getInt c 0) (getInt c 1) (u8 (getInt c 2))
    rw [h]
    exact ⟨s', rfl, d⟩
  · -- LineStyle
    refine ⟨_, rfl, ?_⟩
    by_cases h4 : getInt c 0 = 4
    · simp only [h4, if_true]; exact field _ rfl rfl rfl rfl rfl rfl
    · simp only [h4, if_false]; exact field _ rfl rfl rfl rfl rfl rfl
  · -- FillStyle
    refine ⟨_, rfl, ⟨hW, v1, v2, v3, v4, v5, v6, v7, v8, hup, ?_⟩, hH, hsz⟩
    exact lookupFrom_lt _ _ 13 (by decide) (by decide) _
  · -- FillPattern
    refine ⟨_, rfl, ⟨hW, v1, v2, v3, v4, v5, v6, v7, v8, ?_, ?_⟩, hH, hsz⟩
    · show (List.map (fun x => x % 256) (List.map (fun i => u8 (getInt c i)) (List.range 8))).length = 8
      simp
    · show Gen.Bgi.fillStyleUser < 13
      decide

end IcyVerif.RipCanvas
