import IcyVerif.Lemmas.Bgi
set_option linter.unusedSimpArgs false
set_option linter.unusedVariables false
namespace IcyVerif.Bgi

theorem remI_nonneg_lt {a : Int} (h : 0 ≤ a) : 0 ≤ remI a 8 ∧ remI a 8 < 8 := by
  unfold remI
  rw [Int.tmod_eq_emod_of_nonneg h]
  omega

theorem solidRows_some (rows : Nat) : ∀ (scr : Array Nat) (ystart : Int) (cols : Nat) (c cost : Nat),
    -2147483648 ≤ ystart → ystart + (rows : Int) * 640 ≤ 2147483647 →
    ∃ r, solidRows scr ystart rows cols 640 c cost = some r := by
  induction rows with
  | zero => intro scr ystart cols c cost _ _; exact ⟨_, rfl⟩
  | succ k ih =>
    intro scr ystart cols c cost h1 h2
    unfold solidRows
    simp only []
    have hk : ((k + 1 : Nat) : Int) = (k : Int) + 1 := by omega
    rw [hk] at h2
    rw [chk_of_range (by simp only [i32Min]; omega) (by simp only [i32Max]; omega)]
    simp only []
    apply ih
    · omega
    · omega

theorem patRows_some (rows : Nat) : ∀ (scr : Array Nat) (ystart : Int) (cols : Nat) (left ypat : Int) (pattern : List Nat) (fc bk cost : Nat),
    -2147483648 ≤ ystart → ystart + (rows : Int) * 640 ≤ 2147483647 → 0 ≤ left → 0 ≤ ypat → ypat < 8 → pattern.length = 8 →
    ∃ r, patRows scr ystart rows cols 640 left ypat pattern fc bk cost = some r := by
  induction rows with
  | zero => intro scr ystart cols left ypat pattern fc bk cost _ _ _ _ _ _; exact ⟨_, rfl⟩
  | succ k ih =>
    intro scr ystart cols left ypat pattern fc bk cost h1 h2 hl hy0 hy8 hp
    unfold patRows
    simp only []
    have hk : ((k + 1 : Nat) : Int) = (k : Int) + 1 := by omega
    rw [hk] at h2
    have hsh := (remI_nonneg_lt hl).1
    have : ¬ remI left 8 < 0 := by omega
    simp only [this, if_false]
    have : ¬ ypat < 0 := by omega
    simp only [this, if_false]
    have hidx : ypat.toNat < pattern.length := by omega
    have : pattern[ypat.toNat]? = some pattern[ypat.toNat] := by simp [hidx]
    rw [this]
    simp only []
    rw [chk_of_range (by simp only [i32Min]; omega) (by simp only [i32Max]; omega)]
    simp only []
    have hy' := remI_nonneg_lt (a := ypat + 1) (by omega)
    apply ih
    · omega
    · omega
    · exact hl
    · exact hy'.1
    · exact hy'.2
    · exact hp

/-- what a RIP stream can make of the drawing state: the window is 640 wide, the viewport starts at non-negative
coordinates (two base-36 digits each), the user pattern has 8 rows, the fill style is one of the 13 -/
def StreamState (s : Bgi) : Prop :=
  s.winW = 640 ∧ 0 ≤ s.vp.x ∧ s.vp.x ≤ 1295 ∧ 0 ≤ s.vp.y ∧ s.vp.y ≤ 1295 ∧
  -1295 ≤ s.vp.w ∧ s.vp.w ≤ 1295 ∧ -1295 ≤ s.vp.h ∧ s.vp.h ≤ 1295 ∧ s.userPat.length = 8 ∧ s.fillStyle < 13

theorem fillPattern_length (s : Bgi) (h1 : s.userPat.length = 8) (h2 : s.fillStyle < 13) : (fillPattern s).length = 8 := by
  unfold fillPattern
  split
  · exact h1
  · have : Gen.Bgi.fillPatternsFlat.length = 104 := by decide
    simp [List.length_take, List.length_drop, this]
    omega

theorem barRect_total (s : Bgi) (hs : StreamState s) (r : Rect)
    (hx : -1048576 ≤ r.x ∧ r.x ≤ 1048576) (hy : -1048576 ≤ r.y ∧ r.y ≤ 1048576)
    (hw : -2097153 ≤ r.w ∧ r.w ≤ 2097153) (hh : -2097153 ≤ r.h ∧ r.h ≤ 2097153) :
    ∃ s', barRect s r = some s' := by
  obtain ⟨hW, v1, v2, v3, v4, v5, v6, v7, v8, hup, hfs⟩ := hs
  unfold barRect barRectCost Rect.intersect Rect.bottomRight
  simp only []
  rw [chk_of_range (v := r.x + r.w) (by simp only [i32Min]; omega) (by simp only [i32Max]; omega)]
  rw [chk_of_range (v := r.y + r.h) (by simp only [i32Min]; omega) (by simp only [i32Max]; omega)]
  rw [chk_of_range (v := s.vp.x + s.vp.w) (by simp only [i32Min]; omega) (by simp only [i32Max]; omega)]
  rw [chk_of_range (v := s.vp.y + s.vp.h) (by simp only [i32Min]; omega) (by simp only [i32Max]; omega)]
  simp only []
  rw [chk_of_range (v := min (r.x + r.w) (s.vp.x + s.vp.w) - max r.x s.vp.x) (by simp only [i32Min]; omega) (by simp only [i32Max]; omega)]
  rw [chk_of_range (v := min (r.y + r.h) (s.vp.y + s.vp.h) - max r.y s.vp.y) (by simp only [i32Min]; omega) (by simp only [i32Max]; omega)]
  simp only []
  split
  · exact ⟨_, rfl⟩
  · rw [chk_of_range (by simp only [i32Min]; omega) (by simp only [i32Max]; omega)]
    rw [chk_of_range (by simp only [i32Min]; omega) (by simp only [i32Max]; omega)]
    simp only []
    rw [hW]
    rw [chk_of_range (v := max r.y s.vp.y * 640) (by simp only [i32Min]; omega) (by simp only [i32Max]; omega)]
    simp only []
    rw [chk_of_range (by simp only [i32Min]; omega) (by simp only [i32Max]; omega)]
    simp only []
    split
    · obtain ⟨res, hres⟩ := solidRows_some
        (max r.y s.vp.y + (min (r.y + r.h) (s.vp.y + s.vp.h) - max r.y s.vp.y) - max r.y s.vp.y).toNat s.screen
        (max r.y s.vp.y * 640 + max r.x s.vp.x)
        (max r.x s.vp.x + (min (r.x + r.w) (s.vp.x + s.vp.w) - max r.x s.vp.x) - max r.x s.vp.x).toNat s.fillColor 0
        (by omega) (by omega)
      rw [hres]
      exact ⟨_, rfl⟩
    · obtain ⟨res, hres⟩ := patRows_some
        (max r.y s.vp.y + (min (r.y + r.h) (s.vp.y + s.vp.h) - max r.y s.vp.y) - max r.y s.vp.y).toNat s.screen
        (max r.y s.vp.y * 640 + max r.x s.vp.x)
        (max r.x s.vp.x + (min (r.x + r.w) (s.vp.x + s.vp.w) - max r.x s.vp.x) - max r.x s.vp.x).toNat
        (max r.x s.vp.x) (remI (max r.y s.vp.y) 8) (fillPattern s) s.fillColor s.bk 0
        (by omega) (by omega) (by omega) (remI_nonneg_lt (by omega)).1 (remI_nonneg_lt (by omega)).2
        (fillPattern_length s hup hfs)
      rw [hres]
      exact ⟨_, rfl⟩

end IcyVerif.Bgi
