import IcyVerif.Model.Comp
set_option linter.unusedSimpArgs false
set_option linter.unusedVariables false
/-! Helper lemmas for C13: what one loop iteration (`layerStep`) does for a hidden / non-covering /
invisible-alpha / opaque layer, and how those facts lift through the walk `go` by induction over the stack
with the loop state generalised. -/
namespace IcyVerif.Comp
open IcyVerif.Gen.Comp

/-! ### `≈` (Rust `PartialEq`) is an equivalence -/
theorem Cell.eqv_refl (a : Cell) : a.eqv a := ⟨rfl, rfl, rfl, rfl⟩
theorem Cell.eqv_of_eq {a b : Cell} (h : a = b) : a.eqv b := h ▸ Cell.eqv_refl a
theorem Cell.eqv_symm {a b : Cell} (h : a.eqv b) : b.eqv a :=
  ⟨h.1.symm, h.2.1.symm, h.2.2.1.symm, h.2.2.2.symm⟩
theorem Cell.eqv_trans {a b c : Cell} (h₁ : a.eqv b) (h₂ : b.eqv c) : a.eqv c :=
  ⟨h₁.1.trans h₂.1, h₁.2.1.trans h₂.2.1, h₁.2.2.1.trans h₂.2.2.1, h₁.2.2.2.trans h₂.2.2.2⟩
theorem Cell.withPage_eqv (c : Cell) (p q : Nat) : (c.withPage p).eqv (c.withPage q) := ⟨rfl, rfl, rfl, rfl⟩
/-- `≈` preserves visibility -/
theorem Cell.eqv_isVisible {a b : Cell} (h : a.eqv b) : a.isVisible = b.isVisible := by
  unfold Cell.isVisible; rw [h.2.2.2]

/-! ### one loop iteration -/

theorem covers_iff (l : Layer) (px py : Int) :
    l.covers px py = !(px - l.offX < 0 || py - l.offY < 0 || px - l.offX ≥ l.w || py - l.offY ≥ l.h) := rfl

theorem layerStep_hidden (hb) (px py : Int) (l : Layer) (st : St) (h : l.visible = false) :
    layerStep hb px py l st = .next st := by
  simp [layerStep, h]

theorem layerStep_uncovered (hb) (px py : Int) (l : Layer) (st : St) (h : l.covers px py = false) :
    layerStep hb px py l st = .next st := by
  unfold layerStep
  by_cases hv : l.visible = true
  · rw [covers_iff] at h
    have h' : (px - l.offX < 0 || py - l.offY < 0 || px - l.offX ≥ l.w || py - l.offY ≥ l.h) = true := by
      cases hc : (px - l.offX < 0 || py - l.offY < 0 || px - l.offX ≥ l.w || py - l.offY ≥ l.h) with
      | true => rfl
      | false => rw [hc] at h; exact absurd h (by decide)
    simp only [hv, Bool.not_true, Bool.false_eq_true, if_false, h', if_true]
  · simp [hv]

/-- a layer that does not take part at this position -/
def Layer.skipped (l : Layer) (px py : Int) : Bool := !(l.visible && l.covers px py)

theorem layerStep_skipped (hb) (px py : Int) (l : Layer) (st : St) (h : l.skipped px py = true) :
    layerStep hb px py l st = .next st := by
  unfold Layer.skipped at h
  cases hv : l.visible with
  | false => exact layerStep_hidden hb px py l st hv
  | true =>
    rw [hv] at h
    cases hc : l.covers px py with
    | false => exact layerStep_uncovered hb px py l st hc
    | true => rw [hc] at h; exact absurd h (by decide)

theorem layerStep_covered (hb) (px py : Int) (l : Layer) (st : St) (hv : l.visible = true)
    (hc : l.covers px py = true) :
    layerStep hb px py l st = coveredStep hb l (px - l.offX) (py - l.offY) { st with dflt := l.dfltPage } := by
  unfold layerStep
  rw [covers_iff] at hc
  have h' : (px - l.offX < 0 || py - l.offY < 0 || px - l.offX ≥ l.w || py - l.offY ≥ l.h) = false := by
    cases hh : (px - l.offX < 0 || py - l.offY < 0 || px - l.offX ≥ l.w || py - l.offY ≥ l.h) with
    | false => rfl
    | true => rw [hh] at hc; exact absurd hc (by decide)
  simp only [hv, Bool.not_true, Bool.false_eq_true, if_false, h']

/-- the loop state with the default font page replaced does not matter to a layer that takes part:
    the layer overwrites it before use -/
theorem layerStep_covered_dflt (hb) (px py : Int) (l : Layer) (st : St) (d : Nat) (hv : l.visible = true)
    (hc : l.covers px py = true) :
    layerStep hb px py l { st with dflt := d } = layerStep hb px py l st := by
  rw [layerStep_covered hb px py l _ hv hc, layerStep_covered hb px py l _ hv hc]

/-- the cell a layer holds at a buffer position -/
def Layer.cellAt (l : Layer) (px py : Int) : Cell := l.getChar (px - l.offX) (py - l.offY)

/-- the loop body ignores a cell of layer `l`: what each `Mode` arm of the code tests -/
def Layer.silentAt (l : Layer) (px py : Int) : Bool :=
  match l.mode with
  | .normal => l.alpha && !(l.cellAt px py).isVisible
  | .chars => !(l.cellAt px py).isVisible || (l.cellAt px py).isTransparent
  | .attributes => !(l.cellAt px py).isVisible

theorem layerStep_silent (hb) (px py : Int) (l : Layer) (st : St) (hv : l.visible = true)
    (hc : l.covers px py = true) (hs : l.silentAt px py = true) :
    layerStep hb px py l st = .next { st with dflt := l.dfltPage } := by
  rw [layerStep_covered hb px py l st hv hc]
  unfold Layer.silentAt Layer.cellAt at hs
  unfold coveredStep
  cases hm : l.mode with
  | normal =>
    rw [hm] at hs
    simp only [Bool.and_eq_true, Bool.not_eq_true'] at hs
    simp [hs.1, hs.2]
  | chars =>
    rw [hm] at hs
    simp only [Bool.or_eq_true, Bool.not_eq_true'] at hs
    rcases hs with hs | hs <;> simp [hs]
  | attributes =>
    rw [hm] at hs
    simp only [Bool.not_eq_true'] at hs
    simp [hs]

/-- an opaque Normal layer always returns: nothing beneath it is looked at -/
theorem layerStep_opaque (hb) (px py : Int) (l : Layer) (st : St) (hv : l.visible = true)
    (hc : l.covers px py = true) (hm : l.mode = .normal) (ha : l.alpha = false) :
    ∃ c, layerStep hb px py l st = .ret c := by
  rw [layerStep_covered hb px py l st hv hc]
  unfold coveredStep
  rw [hm]
  simp only [ha, Bool.not_false, if_true]
  split
  · split
    · exact ⟨_, rfl⟩
    · split <;> exact ⟨_, rfl⟩
  · exact ⟨_, rfl⟩

/-- the `has_alpha_channel` flag is only consulted in the Normal arm -/
theorem layerStep_modifier_alpha (hb) (px py : Int) (l : Layer) (st : St) (a : Bool) (hm : l.mode ≠ .normal) :
    layerStep hb px py { l with alpha := a } st = layerStep hb px py l st := by
  unfold layerStep coveredStep
  cases hmm : l.mode with
  | normal => exact absurd hmm hm
  | chars => simp only [hmm]; rfl
  | attributes => simp only [hmm]; rfl

theorem layerStep_shift (hb) (px py dx dy : Int) (l : Layer) (st : St) :
    layerStep hb (px + dx) (py + dy) (l.shift dx dy) st = layerStep hb px py l st := by
  unfold layerStep
  have hx : px + dx - (l.shift dx dy).offX = px - l.offX := by simp only [Layer.shift]; omega
  have hy : py + dy - (l.shift dx dy).offY = py - l.offY := by simp only [Layer.shift]; omega
  rw [hx, hy]
  rfl

theorem covers_shift (px py dx dy : Int) (l : Layer) :
    (l.shift dx dy).covers (px + dx) (py + dy) = l.covers px py := by
  rw [covers_iff, covers_iff]
  have hx : px + dx - (l.shift dx dy).offX = px - l.offX := by simp only [Layer.shift]; omega
  have hy : py + dy - (l.shift dx dy).offY = py - l.offY := by simp only [Layer.shift]; omega
  rw [hx, hy]
  rfl

/-! ### lifting through the walk -/

theorem go_cons (hb t) (px py : Int) (l : Layer) (rest : List Layer) (st : St) :
    go hb t px py (l :: rest) st =
      match layerStep hb px py l st with
      | .ret c => c
      | .next st' => go hb t px py rest st' := rfl

/-- a layer whose iteration leaves the state alone can be dropped anywhere -/
theorem go_drop (hb t) (px py : Int) (l : Layer) (hskip : ∀ st, layerStep hb px py l st = .next st)
    (X Y : List Layer) (st : St) :
    go hb t px py (X ++ l :: Y) st = go hb t px py (X ++ Y) st := by
  induction X generalizing st with
  | nil => simp only [List.nil_append, go_cons, hskip]
  | cons a X ih =>
    simp only [List.cons_append, go_cons]
    cases layerStep hb px py a st with
    | ret c => rfl
    | next st' => exact ih st'

/-- two layers with the same iteration can be exchanged anywhere -/
theorem go_replace (hb t) (px py : Int) (l l' : Layer)
    (hsame : ∀ st, layerStep hb px py l st = layerStep hb px py l' st)
    (X Y : List Layer) (st : St) :
    go hb t px py (X ++ l :: Y) st = go hb t px py (X ++ l' :: Y) st := by
  induction X generalizing st with
  | nil => simp only [List.nil_append, go_cons, hsame]
  | cons a X ih =>
    simp only [List.cons_append, go_cons]
    cases layerStep hb px py a st with
    | ret c => rfl
    | next st' => exact ih st'

/-- everything below a layer whose iteration always returns is irrelevant -/
theorem go_cut (hb t) (px py : Int) (l : Layer) (hret : ∀ st, ∃ c, layerStep hb px py l st = .ret c)
    (X Y Y' : List Layer) (st : St) :
    go hb t px py (X ++ l :: Y) st = go hb t px py (X ++ l :: Y') st := by
  induction X generalizing st with
  | nil =>
    obtain ⟨c, hc⟩ := hret st
    simp only [List.nil_append, go_cons, hc]
  | cons a X ih =>
    simp only [List.cons_append, go_cons]
    cases layerStep hb px py a st with
    | ret c => rfl
    | next st' => exact ih st'

/-- the default font page carried by the loop only shows in the font page of the result -/
theorem go_dflt_eqv (hb t) (px py : Int) (L : List Layer) (st : St) (d : Nat) :
    (go hb t px py L { st with dflt := d }).eqv (go hb t px py L st) := by
  induction L generalizing st d with
  | nil =>
    unfold go finish
    cases st.transp with
    | some c => exact Cell.eqv_refl _
    | none => exact Cell.withPage_eqv _ _ _
  | cons l L ih =>
    simp only [go_cons]
    cases hs : l.skipped px py with
    | true =>
      rw [layerStep_skipped hb px py l _ hs, layerStep_skipped hb px py l _ hs]
      exact ih st d
    | false =>
      unfold Layer.skipped at hs
      have hvc : l.visible = true ∧ l.covers px py = true := by
        cases h1 : l.visible <;> cases h2 : l.covers px py <;> simp [h1, h2] at hs ⊢
      obtain ⟨hv, hc⟩ := hvc
      rw [layerStep_covered_dflt hb px py l st d hv hc]
      exact Cell.eqv_refl _

/-- a silent cell (see `Layer.silentAt`) changes at most the font page of the result -/
theorem go_silent (hb t) (px py : Int) (l : Layer) (hv : l.visible = true) (hc : l.covers px py = true)
    (hs : l.silentAt px py = true) (X Y : List Layer) (st : St) :
    (go hb t px py (X ++ l :: Y) st).eqv (go hb t px py (X ++ Y) st) := by
  induction X generalizing st with
  | nil =>
    simp only [List.nil_append, go_cons, layerStep_silent hb px py l st hv hc hs]
    exact go_dflt_eqv hb t px py Y st l.dfltPage
  | cons a X ih =>
    simp only [List.cons_append, go_cons]
    cases layerStep hb px py a st with
    | ret c => exact Cell.eqv_refl _
    | next st' => exact ih st'

/-- only the layers that are visible and cover the position take part -/
theorem go_filter (hb t) (px py : Int) (L : List Layer) (st : St) :
    go hb t px py L st = go hb t px py (L.filter fun l => l.visible && l.covers px py) st := by
  induction L generalizing st with
  | nil => rfl
  | cons l L ih =>
    cases hk : (l.visible && l.covers px py) with
    | true =>
      rw [List.filter_cons_of_pos (by simpa using hk), go_cons, go_cons]
      cases layerStep hb px py l st with
      | ret c => rfl
      | next st' => exact ih st'
    | false =>
      rw [List.filter_cons_of_neg (by simp [hk]), go_cons,
        layerStep_skipped hb px py l st (by unfold Layer.skipped; rw [hk]; rfl)]
      exact ih st

theorem go_shift (hb t) (px py dx dy : Int) (L : List Layer) (st : St) :
    go hb t (px + dx) (py + dy) (L.map (Layer.shift dx dy)) st = go hb t px py L st := by
  induction L generalizing st with
  | nil => rfl
  | cons l L ih =>
    simp only [List.map_cons, go_cons, layerStep_shift]
    cases layerStep hb px py l st with
    | ret c => rfl
    | next st' => exact ih st'

/-- the `i32` walk agrees with the unbounded one as long as no visited subtraction overflows -/
theorem goC_eq (hb t) (px py : Int) (L : List Layer) (st : St)
    (h : ∀ l ∈ L, l.visible = true → inI32 (px - l.offX) = true ∧ inI32 (py - l.offY) = true) :
    goC hb t px py L st = some (go hb t px py L st) := by
  induction L generalizing st with
  | nil => rfl
  | cons l L ih =>
    have hL : ∀ l' ∈ L, l'.visible = true → inI32 (px - l'.offX) = true ∧ inI32 (py - l'.offY) = true :=
      fun l' hl' => h l' (List.mem_cons_of_mem _ hl')
    unfold goC
    rw [go_cons]
    cases hv : l.visible with
    | false =>
      simp only [layerStepC, hv, Bool.not_false, if_true, layerStep_hidden hb px py l st hv]
      exact ih st hL
    | true =>
      have hr := h l (List.mem_cons_self) hv
      simp only [layerStepC, hv, Bool.not_true, Bool.false_eq_true, if_false, hr.1, hr.2, Bool.and_self, if_true]
      cases layerStep hb px py l st with
      | ret c => rfl
      | next st' => exact ih st' hL

end IcyVerif.Comp
