import IcyVerif.Lemmas.RipLex
set_option linter.unusedSimpArgs false
set_option linter.unusedVariables false
/-! `step` preserves the lexer invariant and never panics (well-formed table, parameter counter below i32::MAX). -/
namespace IcyVerif.Rip
open IcyVerif.RipSpec

/-- lexer invariant: while parameters are being read there is a command under construction, it belongs to the
table, and it satisfies `CmdGood` for the current parameter state -/
def Good (T : Table) (s : Lex) : Prop :=
  0 ≤ s.pstate ∧
  ((s.st = .readParams ∨ s.st = .skipEol) →
     ∃ c spec, s.cmd = some c ∧ T.cmds[c.idx]? = some spec ∧ CmdGood spec c s.pstate)

theorem good_of_other {T : Table} {s : Lex} (hp : 0 ≤ s.pstate) (h1 : s.st ≠ .readParams) (h2 : s.st ≠ .skipEol) : Good T s :=
  ⟨hp, fun h => by rcases h with h | h <;> contradiction⟩

theorem afterRun_st (T : Table) (s : Lex) (c : CmdSt) :
    (afterRun T s c).st = s.st ∧ (afterRun T s c).pstate = s.pstate ∧ (afterRun T s c).cmd = s.cmd := by
  unfold afterRun
  simp only []
  split
  · split
    · exact ⟨rfl, rfl, rfl⟩
    · split <;> exact ⟨rfl, rfl, rfl⟩
  · split <;> exact ⟨rfl, rfl, rfl⟩

theorem getInt_fresh (idx : Nat) (spec : CmdSpec) (i : Nat) : getInt (CmdSt.fresh idx spec) i = 0 := by
  simp only [getInt, CmdSt.fresh, List.getD]
  cases h : (List.replicate spec.nInts (0 : Int))[i]? with
  | none => rfl
  | some v =>
    have := List.mem_of_getElem? h
    simp at this
    simp [this.2]

theorem cmdGood_fresh (idx : Nat) (spec : CmdSpec) : CmdGood spec (CmdSt.fresh idx spec) 0 := by
  constructor
  · intro r _ h; simp at h
  · intro i _
    rw [getInt_fresh]
    exact ⟨by omega, fun _ => rfl, fun h => by omega, by omega⟩

theorem startCommand_good (T : Table) (s : Lex) (idx : Nat) (spec : CmdSpec) (h : T.cmds[idx]? = some spec) :
    Good T (startCommand T s idx) ∧ (startCommand T s idx).pstate = 0 := by
  simp only [startCommand, h]
  constructor
  · constructor
    · show (0 : Int) ≤ 0
      omega
    · intro _
      exact ⟨CmdSt.fresh idx spec, spec, rfl, by simpa [CmdSt.fresh] using h, cmdGood_fresh idx spec⟩
  · trivial

theorem lookup_mem {T : Table} {l ch : Nat} {d : Dispatch} (h : lookup T l ch = some d) : d ∈ T.dispatch :=
  List.mem_of_find?_eq_some h

theorem dispatchCmd_good (T : Table) (hT : tableOk T = true) (s : Lex) (hp : 0 ≤ s.pstate) (d : Dispatch) (hd : d ∈ T.dispatch) :
    ∃ s' o, dispatchCmd T s d = .ok s' o ∧ Good T s' ∧ s'.pstate ≤ s.pstate + 1 := by
  simp only [tableOk, Bool.and_eq_true, List.all_eq_true, decide_eq_true_eq] at hT
  have hlt := hT.2 d hd
  have hsome : ∃ spec, T.cmds[d.cmd]? = some spec := ⟨T.cmds[d.cmd], by simp [hlt]⟩
  obtain ⟨spec, hs⟩ := hsome
  simp only [dispatchCmd, hs]
  by_cases hi : d.immediate = true
  · simp only [hi, if_true]
    refine ⟨_, _, rfl, ?_, ?_⟩
    · obtain ⟨h1, h2, _⟩ := afterRun_st T { s with st := .gotRipStart } (CmdSt.fresh d.cmd spec)
      apply good_of_other
      · rw [h2]; exact hp
      · rw [h1]; simp
      · rw [h1]; simp
    · obtain ⟨_, h2, _⟩ := afterRun_st T { s with st := .gotRipStart } (CmdSt.fresh d.cmd spec)
      rw [h2]; show s.pstate ≤ s.pstate + 1; omega
  · simp only [hi]
    obtain ⟨hg, hz⟩ := startCommand_good T s d.cmd spec hs
    exact ⟨_, _, rfl, hg, by rw [hz]; omega⟩

theorem good_of_cmd {T : Table} {s : Lex} {c : CmdSt} {spec : CmdSpec} (hp : 0 ≤ s.pstate) (hc : s.cmd = some c)
    (hs : T.cmds[c.idx]? = some spec) (hg : CmdGood spec c s.pstate) : Good T s :=
  ⟨hp, fun _ => ⟨c, spec, hc, hs, hg⟩⟩

/-- result of `parse_parameter` when a well-formed command is under construction -/
theorem parseParameter_good (T : Table) (hT : tableOk T = true) (s : Lex) (ch : Nat)
    (hp0 : 0 ≤ s.pstate) (hps : s.pstate < i32Max)
    (c : CmdSt) (spec : CmdSpec) (hc : s.cmd = some c) (hspec : T.cmds[c.idx]? = some spec) (hcg : CmdGood spec c s.pstate) :
    (∃ s' o, parseParameter T s ch = .done (.ok s' o) ∧ Good T s' ∧ s'.pstate = s.pstate) ∨
    (∃ c', parseParameter T s ch = .more { s with cmd := some c', pstate := s.pstate + 1 } ∧
        T.cmds[c'.idx]? = some spec ∧ CmdGood spec c' (s.pstate + 1)) := by
  have hT' := hT
  simp only [tableOk, Bool.and_eq_true, List.all_eq_true, decide_eq_true_eq] at hT'
  have hchk : T.checked = true := hT'.1.1
  have hspecOk : specOk spec = true := hT'.1.2 spec (List.mem_of_getElem? hspec)
  unfold parseParameter
  by_cases h92 : ch = 92
  · left; simp only [h92, if_true]
    exact ⟨_, _, rfl, good_of_cmd (c := c) (spec := spec) hp0 hc hspec hcg, rfl⟩
  · simp only [h92, if_false]
    by_cases h13 : ch = 13
    · left; simp only [h13, if_true]
      exact ⟨_, _, rfl, good_of_cmd (c := c) (spec := spec) hp0 hc hspec hcg, rfl⟩
    · simp only [h13, if_false]
      by_cases h10 : ch = 10
      · left; simp only [h10, if_true, hc]
        obtain ⟨h1, h2, _⟩ := afterRun_st T { s with st := .dflt, cmd := none } c
        refine ⟨_, _, rfl, ?_, h2⟩
        apply good_of_other
        · rw [h2]; exact hp0
        · rw [h1]; simp
        · rw [h1]; simp
      · simp only [h10, if_false]
        by_cases h124 : ch = 124
        · left; simp only [h124, if_true, hc]
          obtain ⟨h1, h2, _⟩ := afterRun_st T { s with st := .readCommand 0, cmd := none } c
          refine ⟨_, _, rfl, ?_, h2⟩
          apply good_of_other
          · rw [h2]; exact hp0
          · rw [h1]; simp
          · rw [h1]; simp
        · simp only [h124, if_false, hc, hspec, hchk]
          obtain ⟨hnp, hgood⟩ := cmdParse_good spec hspecOk c s.pstate ch hp0 hcg
          cases hcp : cmdParse true spec c s.pstate ch with
          | panic site => exact absurd hcp (hnp site)
          | err c' =>
            left
            simp only []
            exact ⟨_, _, rfl, good_of_other hp0 (by simp) (by simp), rfl⟩
          | ok c' b =>
            cases b with
            | false =>
              left
              simp only []
              obtain ⟨h1, h2, _⟩ := afterRun_st T { s with st := .gotRipStart, cmd := none } c'
              refine ⟨_, _, rfl, ?_, h2⟩
              apply good_of_other
              · rw [h2]; exact hp0
              · rw [h1]; simp
              · rw [h1]; simp
            | true =>
              right
              simp only []
              have hle : s.pstate + 1 ≤ i32Max := by omega
              simp only [hle, if_true]
              refine ⟨c', rfl, ?_, hgood c' hcp⟩
              rw [cmdParse_idx hcp]; exact hspec

theorem handOver_good (T : Table) (s : Lex) (chars : List Nat) (hg : Good T s) :
    ∃ s' o, handOver s chars = .ok s' o ∧ Good T s' ∧ s'.pstate = s.pstate := by
  unfold handOver
  split
  · exact ⟨_, _, rfl, hg, rfl⟩
  · exact ⟨_, _, rfl, hg, rfl⟩

/-- closes `s'.pstate ≤ s.pstate + 1` style goals after a record update -/
macro "pst" : tactic => `(tactic| first | omega | (dsimp only; omega) | (simp; omega) | simp)

/-- one character: the lexer answers (never panics) and the invariant is kept -/
theorem step_good (T : Table) (hT : tableOk T = true) (s : Lex) (ch : Nat) (fb : Fb)
    (hg : Good T s) (hps : s.pstate < i32Max) :
    ∃ s' o, step T s ch fb = .ok s' o ∧ Good T s' ∧ s'.pstate ≤ s.pstate + 1 := by
  obtain ⟨hp0, hcmd⟩ := hg
  unfold step
  cases hst : s.st with
  | readParams =>
    try simp only []
    obtain ⟨c, spec, hc, hspec, hcg⟩ := hcmd (Or.inl hst)
    rcases parseParameter_good T hT s ch hp0 hps c spec hc hspec hcg with ⟨s', o, hpp, hgood, hpe⟩ | ⟨c', hpp, hs', hcg'⟩
    · simp only [hpp]
      exact ⟨s', o, rfl, hgood, by pst⟩
    · simp only [hpp]
      refine ⟨_, _, rfl, ?_, by pst⟩
      exact good_of_cmd (c := c') (spec := spec) (by simp; omega) rfl hs' hcg'
  | skipEol =>
    try simp only []
    obtain ⟨c, spec, hc, hspec, hcg⟩ := hcmd (Or.inr hst)
    by_cases h13 : ch = 13
    · simp only [h13, if_true]
      exact ⟨_, _, rfl, good_of_cmd (c := c) (spec := spec) hp0 hc hspec hcg, by pst⟩
    · simp only [h13, if_false]
      by_cases h10 : ch = 10
      · simp only [h10, if_true]
        exact ⟨_, _, rfl, good_of_cmd (c := c) (spec := spec) hp0 hc hspec hcg, by pst⟩
      · simp only [h10, if_false]
        rcases parseParameter_good T hT s ch hp0 hps c spec hc hspec hcg with ⟨s', o, hpp, hgood, hpe⟩ | ⟨c', hpp, hs', hcg'⟩
        · simp only [hpp]
          exact ⟨s', o, rfl, hgood, by pst⟩
        · simp only [hpp]
          refine ⟨_, _, rfl, ?_, by pst⟩
          exact good_of_cmd (c := c') (spec := spec) (by simp; omega) rfl hs' hcg'
  | endRip =>
    try simp only []
    by_cases h13 : ch = 13
    · simp only [h13, if_true]
      exact ⟨_, _, rfl, good_of_other hp0 (by simp [hst]) (by simp [hst]), by pst⟩
    · simp only [h13, if_false]
      by_cases h10 : ch = 10
      · simp only [h10, if_true]
        exact ⟨_, _, rfl, good_of_other hp0 (by simp) (by simp), by pst⟩
      · simp only [h10, if_false]
        by_cases h124 : ch = 124
        · simp only [h124, if_true]
          exact ⟨_, _, rfl, good_of_other hp0 (by simp) (by simp), by pst⟩
        · simp only [h124, if_false]
          exact ⟨_, _, rfl, good_of_other hp0 (by simp) (by simp), by pst⟩
  | gotRipStart =>
    try simp only []
    by_cases h33 : ch = 33
    · simp only [h33, if_true]
      exact ⟨_, _, rfl, good_of_other hp0 (by simp [hst]) (by simp [hst]), by pst⟩
    · simp only [h33, if_false]
      by_cases hnl : ch = 10 ∨ ch = 13
      · simp only [hnl, if_true]
        exact ⟨_, _, rfl, good_of_other hp0 (by simp [hst]) (by simp [hst]), by pst⟩
      · simp only [hnl, if_false]
        by_cases h124 : ch ≠ 124
        · rw [if_pos h124]
          obtain ⟨s', o, h1, h2, h3⟩ := handOver_good T { s with st := .dflt } [33, ch] (good_of_other hp0 (by simp) (by simp))
          exact ⟨s', o, h1, h2, by rw [h3]; pst⟩
        · rw [if_neg h124]
          exact ⟨_, _, rfl, good_of_other hp0 (by simp) (by simp), by pst⟩
  | dflt =>
    try simp only []
    have hgs : Good T s := good_of_other hp0 (by simp [hst]) (by simp [hst])
    cases fb with
    | csi first =>
      try simp only []
      by_cases h33 : ch = 33
      · simp only [h33, if_true]
        split <;> exact ⟨_, _, rfl, good_of_other hp0 (by simp [hst]) (by simp [hst]), by pst⟩
      · simp only [h33, if_false]
        obtain ⟨s', o, h1, h2, h3⟩ := handOver_good T s [ch] hgs
        exact ⟨s', o, h1, h2, by pst⟩
    | other =>
      try simp only []
      obtain ⟨s', o, h1, h2, h3⟩ := handOver_good T s [ch] hgs
      exact ⟨s', o, h1, h2, by pst⟩
    | dflt =>
      try simp only []
      by_cases hen : s.enable = true
      · simp only [hen, Bool.not_true, Bool.false_eq_true, if_false]
        by_cases h33 : ch = 33
        · simp only [h33, if_true]
          exact ⟨_, _, rfl, good_of_other hp0 (by simp) (by simp), by pst⟩
        · simp only [h33, if_false]
          obtain ⟨s', o, h1, h2, h3⟩ := handOver_good T s [ch] hgs
          exact ⟨s', o, h1, h2, by pst⟩
      · have : s.enable = false := by simpa using hen
        simp only [this, Bool.not_false, if_true]
        exact ⟨_, _, rfl, hgs, by pst⟩
  | readCommand level =>
    try simp only []
    by_cases h33 : ch = 33
    · simp only [h33, if_true]
      exact ⟨_, _, rfl, good_of_other hp0 (by simp) (by simp), by pst⟩
    · simp only [h33, if_false]
      by_cases hl : level = 1 ∨ level = 9
      · simp only [hl, if_true]
        cases hlk : lookup T level ch with
        | some d =>
          try simp only []
          exact dispatchCmd_good T hT s hp0 d (lookup_mem hlk)
        | none =>
          try simp only []
          exact ⟨_, _, rfl, good_of_other hp0 (by simp) (by simp), by pst⟩
      · simp only [hl, if_false]
        cases hlk : lookup T 0 ch with
        | some d =>
          try simp only []
          exact dispatchCmd_good T hT s hp0 d (lookup_mem hlk)
        | none =>
          try simp only []
          cases hsw : T.levelSwitch.find? (fun p => p.1 = ch) with
          | some pl =>
            obtain ⟨a, l⟩ := pl
            try simp only []
            exact ⟨_, _, rfl, good_of_other hp0 (by simp) (by simp), by pst⟩
          | none =>
            try simp only []
            by_cases he : ch = T.endRipChar
            · simp only [he, if_true]
              exact ⟨_, _, rfl, good_of_other hp0 (by simp) (by simp), by pst⟩
            · simp only [he, if_false]
              obtain ⟨s', o, h1, h2, h3⟩ := handOver_good T { s with st := .dflt } [33, 124, ch] (good_of_other hp0 (by simp) (by simp))
              exact ⟨s', o, h1, h2, by rw [h3]; pst⟩

theorem run_good (T : Table) (hT : tableOk T = true) :
    ∀ (cs : List (Nat × Fb)) (s : Lex), Good T s → s.pstate + cs.length < i32Max →
      ∃ s' o, run T s cs = .ok s' o ∧ Good T s' := by
  intro cs
  induction cs with
  | nil => intro s hg _; exact ⟨s, .noUpdate, rfl, hg⟩
  | cons x rest ih =>
    intro s hg hlen
    obtain ⟨ch, fb⟩ := x
    simp only [List.length_cons] at hlen
    have hg0 := hg.1
    obtain ⟨s1, o1, hstep, hg1, hp1⟩ := step_good T hT s ch fb hg (by omega)
    simp only [run, hstep]
    exact ih s1 hg1 (by omega)

theorem good_init (T : Table) : Good T Lex.init := by
  apply good_of_other
  · show (0 : Int) ≤ 0; omega
  · simp [Lex.init]
  · simp [Lex.init]

end IcyVerif.Rip
