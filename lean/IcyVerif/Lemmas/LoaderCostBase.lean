import IcyVerif.Model.LoaderCost
import IcyVerif.Lemmas.LoadersBase
set_option linter.unusedSimpArgs false
set_option linter.unusedVariables false
/-! Lemmas about the cost monad `RC` (C03): projections of `bind`, and the budget predicate `Bd`.

`x.Bd W R E P` : `x` spends at most `W` loop iterations, `R` allocated rows, `E` callee iterations — whatever its
outcome — and a value it returns satisfies `P`. -/
/-- `omega` after reducing projections of tuples -/
macro "somega" : tactic => `(tactic| (first | omega | (dsimp only; omega)))

namespace IcyVerif.LoaderCost
open IcyVerif.Bytes IcyVerif.Bytes.Res IcyVerif.Loaders

namespace RC
variable {α β : Type}
@[simp] theorem res_pure (a : α) : (pure a : RC α).res = .ok a := rfl
@[simp] theorem work_pure (a : α) : (pure a : RC α).work = 0 := rfl
@[simp] theorem rows_pure (a : α) : (pure a : RC α).rows = 0 := rfl
@[simp] theorem extra_pure (a : α) : (pure a : RC α).extra = 0 := rfl
theorem bind_def (x : RC α) (f : α → RC β) : x >>= f = RC.bind x f := rfl

/-- forgetting the counters commutes with `bind` -/
@[simp] theorem res_bind (x : RC α) (f : α → RC β) : (x >>= f).res = x.res >>= fun a => (f a).res := by
  show (RC.bind x f).res = Res.bind x.res _
  unfold RC.bind Res.bind
  cases x.res <;> rfl

/-- budget predicate -/
def Bd (x : RC α) (W R E : Nat) (P : α → Prop) : Prop :=
  x.work ≤ W ∧ x.rows ≤ R ∧ x.extra ≤ E ∧ ∀ a, x.res = .ok a → P a

theorem Bd.bind {x : RC α} {f : α → RC β} {W1 R1 E1 W2 R2 E2 : Nat} {P : α → Prop} {Q : β → Prop}
    (hx : x.Bd W1 R1 E1 P) (hf : ∀ a, P a → (f a).Bd W2 R2 E2 Q) : (x >>= f).Bd (W1 + W2) (R1 + R2) (E1 + E2) Q := by
  obtain ⟨h1, h2, h3, h4⟩ := hx
  show (RC.bind x f).Bd _ _ _ Q
  unfold RC.bind
  cases hr : x.res with
  | ok a =>
    obtain ⟨g1, g2, g3, g4⟩ := hf a (h4 a hr)
    exact ⟨Nat.add_le_add h1 g1, Nat.add_le_add h2 g2, Nat.add_le_add h3 g3, g4⟩
  | err => exact ⟨by simp only; omega, by simp only; omega, by simp only; omega, by intro a h; cases h⟩
  | panic s => exact ⟨by simp only; omega, by simp only; omega, by simp only; omega, by intro a h; cases h⟩

/-- potential-style budget: `x` spends at most `W` / `R` / `E` on every outcome, and when it returns `a` then `P a` holds and
    what it spent plus the potentials `W' a`, `R' a`, `E' a` (what the continuation may still spend) stays within the budget -/
def Pot (x : RC α) (W R E : Nat) (P : α → Prop) (W' R' E' : α → Nat) : Prop :=
  x.work ≤ W ∧ x.rows ≤ R ∧ x.extra ≤ E ∧
  ∀ a, x.res = .ok a → P a ∧ x.work + W' a ≤ W ∧ x.rows + R' a ≤ R ∧ x.extra + E' a ≤ E

theorem Pot.bind {x : RC α} {f : α → RC β} {W R E : Nat} {P : α → Prop} {W' R' E' : α → Nat}
    {Q : β → Prop} {W'' R'' E'' : β → Nat}
    (hx : x.Pot W R E P W' R' E') (hf : ∀ a, P a → (f a).Pot (W' a) (R' a) (E' a) Q W'' R'' E'') :
    (x >>= f).Pot W R E Q W'' R'' E'' := by
  obtain ⟨h1, h2, h3, h4⟩ := hx
  show (RC.bind x f).Pot _ _ _ Q _ _ _
  unfold RC.bind
  cases hr : x.res with
  | ok a =>
    obtain ⟨hp, k1, k2, k3⟩ := h4 a hr
    obtain ⟨g1, g2, g3, g4⟩ := hf a hp
    refine ⟨by simp only; omega, by simp only; omega, by simp only; omega, ?_⟩
    intro b hb
    obtain ⟨hq, l1, l2, l3⟩ := g4 b hb
    exact ⟨hq, by simp only; omega, by simp only; omega, by simp only; omega⟩
  | err => exact ⟨h1, h2, h3, by intro a h; cases h⟩
  | panic s => exact ⟨h1, h2, h3, by intro a h; cases h⟩

theorem Pot.mono {x : RC α} {W R E W₂ R₂ E₂ : Nat} {P Q : α → Prop} {W' R' E' V' S' F' : α → Nat}
    (hx : x.Pot W R E P W' R' E') (hW : W ≤ W₂) (hR : R ≤ R₂) (hE : E ≤ E₂)
    (hP : ∀ a, P a → Q a ∧ V' a ≤ W' a + (W₂ - W) ∧ S' a ≤ R' a + (R₂ - R) ∧ F' a ≤ E' a + (E₂ - E)) :
    x.Pot W₂ R₂ E₂ Q V' S' F' := by
  obtain ⟨h1, h2, h3, h4⟩ := hx
  refine ⟨by omega, by omega, by omega, ?_⟩
  intro a ha
  obtain ⟨hp, k1, k2, k3⟩ := h4 a ha
  obtain ⟨hq, m1, m2, m3⟩ := hP a hp
  exact ⟨hq, by omega, by omega, by omega⟩

/-- a budget with all final potentials 0 is a plain bound -/
theorem Pot.bound {x : RC α} {W R E : Nat} {P : α → Prop} {W' R' E' : α → Nat} (hx : x.Pot W R E P W' R' E') :
    x.work ≤ W ∧ x.rows ≤ R ∧ x.extra ≤ E := ⟨hx.1, hx.2.1, hx.2.2.1⟩

theorem Pot.pure {a : α} {W R E : Nat} {P : α → Prop} {W' R' E' : α → Nat}
    (h : P a) (hW : W' a ≤ W) (hR : R' a ≤ R) (hE : E' a ≤ E) : (Pure.pure a : RC α).Pot W R E P W' R' E' :=
  ⟨Nat.zero_le _, Nat.zero_le _, Nat.zero_le _, by
    intro b hb; cases hb
    exact ⟨h, by simp only [work_pure]; omega, by simp only [rows_pure]; omega, by simp only [extra_pure]; omega⟩⟩

theorem Bd.mono {x : RC α} {W R E W' R' E' : Nat} {P Q : α → Prop} (hx : x.Bd W R E P)
    (hW : W ≤ W') (hR : R ≤ R') (hE : E ≤ E') (hP : ∀ a, P a → Q a) : x.Bd W' R' E' Q :=
  ⟨Nat.le_trans hx.1 hW, Nat.le_trans hx.2.1 hR, Nat.le_trans hx.2.2.1 hE, fun a h => hP a (hx.2.2.2 a h)⟩

theorem Bd.weaken {x : RC α} {W R E W' R' E' : Nat} {P : α → Prop} (hx : x.Bd W R E P)
    (hW : W ≤ W') (hR : R ≤ R') (hE : E ≤ E') : x.Bd W' R' E' P := hx.mono hW hR hE (fun _ h => h)

theorem Bd.pure {a : α} {P : α → Prop} (h : P a) : (Pure.pure a : RC α).Bd 0 0 0 P :=
  ⟨Nat.le_refl _, Nat.le_refl _, Nat.le_refl _, by intro b hb; cases hb; exact h⟩
end RC

open RC

@[simp] theorem res_lift {α : Type} (r : Res α) : (lift r).res = r := rfl
@[simp] theorem res_tick : tick.res = .ok () := rfl
@[simp] theorem res_spend (n : Nat) : (spend n).res = .ok () := rfl
@[simp] theorem res_fail {α : Type} : (fail : RC α).res = .err := rfl
@[simp] theorem res_setCharC (g : Geo) (x y : Int) : (setCharC g x y).res = .ok (g.setChar x y) := rfl
@[simp] theorem ok_bind {α β : Type} (a : α) (f : α → Res β) : (Res.ok a >>= f) = f a := rfl
@[simp] theorem err_bind {α β : Type} (f : α → Res β) : ((Res.err : Res α) >>= f) = .err := rfl
@[simp] theorem panic_bind {α β : Type} (s : String) (f : α → Res β) : ((Res.panic s : Res α) >>= f) = .panic s := rfl

/-- an operation that is not a loop costs nothing; what a `Sat` lemma of C02 says about its value carries over -/
theorem bd_lift {α : Type} {r : Res α} {P : α → Prop} (h : r.Sat P) : (lift r).Bd 0 0 0 P :=
  ⟨Nat.le_refl _, Nat.le_refl _, Nat.le_refl _, by intro a ha; simp only [res_lift] at ha; subst ha; exact h⟩

theorem bd_lift_any {α : Type} (r : Res α) : (lift r).Bd 0 0 0 (fun a => r = .ok a) :=
  ⟨Nat.le_refl _, Nat.le_refl _, Nat.le_refl _, by intro a ha; exact ha⟩

theorem bd_tick : tick.Bd 1 0 0 (fun _ => True) :=
  ⟨Nat.le_refl _, Nat.le_refl _, Nat.le_refl _, fun _ _ => trivial⟩

theorem bd_spend (n : Nat) : (spend n).Bd 0 0 n (fun _ => True) :=
  ⟨Nat.le_refl _, Nat.le_refl _, Nat.le_refl _, fun _ _ => trivial⟩

theorem bd_fail {α : Type} {P : α → Prop} : (fail : RC α).Bd 0 0 0 P :=
  ⟨Nat.le_refl _, Nat.le_refl _, Nat.le_refl _, by intro a h; cases h⟩

theorem setChar_lines_ge (g : Geo) (x y : Int) : g.lines ≤ (g.setChar x y).lines := by
  unfold Geo.setChar; split
  · exact Nat.le_refl _
  · split
    · simp only; omega
    · exact Nat.le_refl _

theorem setChar_lines_le (g : Geo) (x y : Int) (B : Nat) (hg : g.lines ≤ B) (hy : y < B) : (g.setChar x y).lines ≤ B := by
  unfold Geo.setChar; split
  · exact hg
  · split
    · simp only; omega
    · exact hg

theorem setChar_fields (g : Geo) (x y : Int) :
    (g.setChar x y).bw = g.bw ∧ (g.setChar x y).bh = g.bh ∧ (g.setChar x y).lw = g.lw ∧ (g.setChar x y).lh = g.lh := by
  unfold Geo.setChar; split
  · exact ⟨rfl, rfl, rfl, rfl⟩
  · split <;> exact ⟨rfl, rfl, rfl, rfl⟩

/-- `set_char` at a row below `B` allocates at most the rows missing up to `B` -/
theorem bd_setCharC (g : Geo) (x y : Int) (B : Nat) (hg : g.lines ≤ B) (hy : y < B) :
    (setCharC g x y).Bd 0 (B - g.lines) 0 (fun g' => g' = g.setChar x y) := by
  have h1 := setChar_lines_ge g x y
  have h2 := setChar_lines_le g x y B hg hy
  refine ⟨Nat.le_refl _, ?_, Nat.le_refl _, ?_⟩
  · show (g.setChar x y).lines - g.lines ≤ B - g.lines
    omega
  · intro a ha; simp only [res_setCharC] at ha; cases ha; rfl


/-- an operation that is not a loop is free -/
theorem pot_lift {α : Type} {r : Res α} {P : α → Prop} (h : r.Sat P) :
    (lift r).Pot 0 0 0 P (fun _ => 0) (fun _ => 0) (fun _ => 0) :=
  ⟨Nat.zero_le _, Nat.zero_le _, Nat.zero_le _, by
    intro a ha; simp only [res_lift] at ha; subst ha
    exact ⟨h, Nat.le_refl _, Nat.le_refl _, Nat.le_refl _⟩⟩

/-- an operation that is not a loop is free; what is known about a value it returns -/
theorem pot_lift_ok {α : Type} {r : Res α} {P : α → Prop} (h : ∀ a, r = .ok a → P a) :
    (lift r).Pot 0 0 0 P (fun _ => 0) (fun _ => 0) (fun _ => 0) :=
  ⟨Nat.zero_le _, Nat.zero_le _, Nat.zero_le _, by
    intro a ha; simp only [res_lift] at ha
    exact ⟨h a ha, Nat.le_refl _, Nat.le_refl _, Nat.le_refl _⟩⟩

theorem chk32_ok {s : String} {v w : Int} (h : chk32 s v = .ok w) : w = v := by
  unfold chk32 at h; split at h
  · cases h; rfl
  · cases h

theorem SatS.panic_ok {α : Type} {S : String → Prop} {P : α → Prop} {x : Res α} (hx : x.SatS S P) {a : α} (h : x = .ok a) : P a := by
  subst h; exact hx

theorem rd_ok {s : String} {d : Bytes} {o v : Nat} (h : rd s d o = .ok v) : o < d.size ∧ v < 256 := by
  unfold rd at h; split at h
  · rename_i ho; cases h; exact ⟨ho, byteAt_lt d o⟩
  · cases h

/-- the same without any knowledge about the operation (its value is whatever it is) -/
theorem pot_lift_any {α : Type} (r : Res α) :
    (lift r).Pot 0 0 0 (fun a => r = .ok a) (fun _ => 0) (fun _ => 0) (fun _ => 0) :=
  ⟨Nat.zero_le _, Nat.zero_le _, Nat.zero_le _, by
    intro a ha
    exact ⟨ha, Nat.le_refl _, Nat.le_refl _, Nat.le_refl _⟩⟩

theorem pot_tick : tick.Pot 1 0 0 (fun _ => True) (fun _ => 0) (fun _ => 0) (fun _ => 0) :=
  ⟨Nat.le_refl _, Nat.zero_le _, Nat.zero_le _, by
    intro a _
    exact ⟨trivial, Nat.le_refl _, Nat.le_refl _, Nat.le_refl _⟩⟩

theorem pot_spend (n : Nat) : (spend n).Pot 0 0 n (fun _ => True) (fun _ => 0) (fun _ => 0) (fun _ => 0) :=
  ⟨Nat.zero_le _, Nat.zero_le _, Nat.le_refl _, by
    intro a _
    exact ⟨trivial, Nat.le_refl _, Nat.le_refl _, Nat.le_refl _⟩⟩

theorem pot_fail {α : Type} {W R E : Nat} {P : α → Prop} {W' R' E' : α → Nat} : (fail : RC α).Pot W R E P W' R' E' :=
  ⟨Nat.zero_le _, Nat.zero_le _, Nat.zero_le _, by intro a h; cases h⟩

/-- `set_char` at a row below `B`: the rows it adds come out of the potential `B - lines` -/
theorem pot_setCharC (g : Geo) (x y : Int) (B : Nat) (hg : g.lines ≤ B) (hy : y < B) :
    (setCharC g x y).Pot 0 (B - g.lines) 0 (fun g' => g' = g.setChar x y)
      (fun _ => 0) (fun g' => B - g'.lines) (fun _ => 0) := by
  have h1 := setChar_lines_ge g x y
  have h2 := setChar_lines_le g x y B hg hy
  refine ⟨Nat.zero_le _, ?_, Nat.zero_le _, ?_⟩
  · show (g.setChar x y).lines - g.lines ≤ B - g.lines
    omega
  · intro a ha; simp only [res_setCharC] at ha; cases ha
    refine ⟨rfl, Nat.le_refl _, ?_, Nat.le_refl _⟩
    show (g.setChar x y).lines - g.lines + (B - (g.setChar x y).lines) ≤ B - g.lines
    omega

namespace RC
variable {α β : Type}
/-- frame + bind: the first part needs `W₁ R₁ E₁` of the budget; what it leaves (its final potentials plus the rest of the
    budget) is the budget of the continuation -/
theorem Pot.bind_le {x : RC α} {f : α → RC β} {W R E W₁ R₁ E₁ : Nat} {P : α → Prop} {W' R' E' : α → Nat}
    {Q : β → Prop} {W'' R'' E'' : β → Nat}
    (hx : x.Pot W₁ R₁ E₁ P W' R' E') (hW : W₁ ≤ W) (hR : R₁ ≤ R) (hE : E₁ ≤ E)
    (hf : ∀ a, P a → (f a).Pot (W' a + (W - W₁)) (R' a + (R - R₁)) (E' a + (E - E₁)) Q W'' R'' E'') :
    (x >>= f).Pot W R E Q W'' R'' E'' := by
  refine Pot.bind (W' := fun a => W' a + (W - W₁)) (R' := fun a => R' a + (R - R₁)) (E' := fun a => E' a + (E - E₁)) ?_ hf
  exact Pot.mono hx hW hR hE (fun a h => ⟨h, Nat.le_refl _, Nat.le_refl _, Nat.le_refl _⟩)
end RC

end IcyVerif.LoaderCost
