import IcyVerif.Lemmas.LoaderCostXb
import IcyVerif.Lemmas.LoadersBin
set_option linter.unusedSimpArgs false
set_option linter.unusedVariables false
/-! BIN and ADF loaders: the cost-instrumented models forget to the C02 models, and their budgets (C03). -/
namespace IcyVerif.LoaderCost
open IcyVerif.Bytes IcyVerif.Bytes.Res IcyVerif.Loaders IcyVerif.Gen IcyVerif.Gen.Loaders RC

theorem binRowC_res (d : Bytes) : ∀ n o p g, (binRowC d n o p g).res = binRow d n o p g := by
  intro n
  induction n with
  | zero => intro o p g; rfl
  | succ n ih =>
    intro o p g
    simp only [binRowC, binRow, res_bind, res_tick, ok_bind, apply_ite RC.res, res_pure, res_lift, res_setCharC, ih]

theorem binLoopC_res (d : Bytes) : ∀ fuel o p g, (binLoopC d fuel o p g).res = binLoop d fuel o p g := by
  intro fuel
  induction fuel with
  | zero =>
    intro o p g
    unfold binLoopC binLoop
    simp only [res_bind, res_tick, ok_bind, binRowC_res]
    congr 1; funext r
    obtain ⟨r1, r2, r3, r4⟩ := r
    cases r1 <;> rfl
  | succ fuel ih =>
    intro o p g
    unfold binLoopC binLoop
    simp only [res_bind, res_tick, ok_bind, binRowC_res]
    congr 1; funext r
    obtain ⟨r1, r2, r3, r4⟩ := r
    cases r1
    · simp only [res_bind, res_lift, ih]
    · rfl

theorem loadBinC_res (d : Bytes) (sauce : Option (Nat × Nat)) : (loadBinC d sauce).res = loadBin d sauce :=
  binLoopC_res d _ _ _ _

theorem adfRowC_res (d : Bytes) : ∀ n o p g, (adfRowC d n o p g).res = adfRow d n o p g := by
  intro n
  induction n with
  | zero => intro o p g; rfl
  | succ n ih =>
    intro o p g
    simp only [adfRowC, adfRow, res_bind, res_tick, ok_bind, apply_ite RC.res, res_pure, res_lift, res_setCharC, ih]

theorem adfLoopC_res (d : Bytes) : ∀ fuel o p g, (adfLoopC d fuel o p g).res = adfLoop d fuel o p g := by
  intro fuel
  induction fuel with
  | zero =>
    intro o p g
    unfold adfLoopC adfLoop
    simp only [res_bind, res_tick, ok_bind, adfRowC_res]
    congr 1; funext r
    obtain ⟨r1, r2, r3, r4⟩ := r
    cases r1 <;> rfl
  | succ fuel ih =>
    intro o p g
    unfold adfLoopC adfLoop
    simp only [res_bind, res_tick, ok_bind, adfRowC_res]
    congr 1; funext r
    obtain ⟨r1, r2, r3, r4⟩ := r
    cases r1
    · simp only [res_bind, res_lift, ih]
    · rfl

theorem loadAdfC_res (d : Bytes) (sauce : Option (Nat × Nat)) : (loadAdfC d sauce).res = loadAdf d sauce := by
  unfold loadAdfC loadAdf
  simp only [res_bind, res_spend, res_fail, ok_bind, apply_ite RC.res, res_pure, res_lift, adfLoopC_res]

-- ------------------------------------------------------------------------------------------------ budgets
/-- what a row pass returns -/
structure RowPost (d : Bytes) (B : Nat) (n o : Nat) (p : Pos) (g : Geo) (r : Option Geo × Nat × Pos × Geo) : Prop where
  full : r.1 = none → r.2.1 = o + 2 * n
  le : r.2.1 ≤ d.size
  y : r.2.2.1.y = p.y
  bw : r.2.2.2.bw = g.bw
  lines : r.2.2.2.lines ≤ B
  mono : g.lines ≤ r.2.2.2.lines

theorem binRowC_pot (d : Bytes) (B : Nat) :
    ∀ (n o : Nat) (p : Pos) (g : Geo), o ≤ d.size → p.y < B → g.lines ≤ B →
      (binRowC d n o p g).Pot n (B - g.lines) 0 (fun r => RowPost d B n o p g r)
        (fun _ => 0) (fun r => B - r.2.2.2.lines) (fun _ => 0) := by
  intro n
  induction n with
  | zero =>
    intro o p g ho hy hg
    exact Pot.pure ⟨fun _ => by simp, ho, rfl, rfl, hg, Nat.le_refl _⟩ (by somega) (by somega) (by somega)
  | succ n ih =>
    intro o p g ho hy hg
    unfold binRowC
    apply Pot.bind_le pot_tick (by somega) (by somega) (by somega); intro _ _
    split
    · exact Pot.pure ⟨fun h => by simp at h, ho, rfl, rfl, hg, Nat.le_refl _⟩ (by somega) (by somega) (by somega)
    · split
      · exact Pot.pure ⟨fun h => by simp at h, ho, rfl, rfl, hg, Nat.le_refl _⟩ (by somega) (by somega) (by somega)
      · rename_i h1 h2
        apply Pot.bind_le (pot_lift_any _) (by somega) (by somega) (by somega); intro lh _
        apply Pot.bind_le (pot_lift_any _) (by somega) (by somega) (by somega); intro _ _
        apply Pot.bind_le (pot_lift_any _) (by somega) (by somega) (by somega); intro _ _
        apply Pot.bind_le (pot_setCharC { g with lh := lh } p.x p.y B hg hy) (by somega) (by somega) (by somega); intro g' hg'
        have hf := setChar_fields { g with lh := lh } p.x p.y
        have hl1 := setChar_lines_ge { g with lh := lh } p.x p.y
        have hl2 := setChar_lines_le { g with lh := lh } p.x p.y B hg hy
        subst hg'
        apply Pot.bind_le (pot_lift_any _) (by somega) (by somega) (by somega); intro x _
        apply Pot.mono (ih (o + 2) ⟨x, p.y⟩ _ (by omega) hy hl2) (by somega) (by somega) (by somega)
        intro r hr
        exact ⟨⟨fun h => by have := hr.full h; omega, hr.le, hr.y, hr.bw.trans hf.1, hr.lines, Nat.le_trans hl1 hr.mono⟩,
          by omega, by omega, by omega⟩

/-- the outer `loop`: every completed row consumed `2 * width` bytes, so rows are allocated only as far as the bytes read reach -/
theorem binLoopC_pot (d : Bytes) (bwN : Nat) (hbw : 1 ≤ bwN) (B : Nat) :
    ∀ (fuel o : Nat) (p : Pos) (g : Geo), o ≤ d.size → g.bw.toNat = bwN → 0 ≤ p.y →
      p.y * (bwN : Int) + ((d.size - o : Nat) : Int) < (B : Int) * (bwN : Int) → g.lines ≤ B →
      (binLoopC d fuel o p g).Pot ((d.size - o) + bwN + 1) (B - g.lines) 0 (fun _ => True)
        (fun _ => 0) (fun _ => 0) (fun _ => 0) := by
  intro fuel
  induction fuel with
  | zero =>
    intro o p g ho hgb hy0 hi hg
    have hrow : p.y < B := by
      have h1 : p.y * (bwN : Int) < (B : Int) * (bwN : Int) := by omega
      exact Int.lt_of_mul_lt_mul_right h1 (by omega)
    unfold binLoopC
    apply Pot.bind_le pot_tick (by somega) (by somega) (by somega); intro _ _
    rw [hgb]
    apply Pot.bind_le (binRowC_pot d B bwN o p g ho hrow hg) (by somega) (by somega) (by somega); intro r hr
    obtain ⟨r1, r2, r3, r4⟩ := r
    cases r1 with
    | some res => exact Pot.pure trivial (by somega) (by somega) (by somega)
    | none => exact Pot.mono (pot_lift_any _) (by somega) (by somega) (by somega) (fun _ _ => ⟨trivial, by somega, by somega, by somega⟩)
  | succ fuel ih =>
    intro o p g ho hgb hy0 hi hg
    have hrow : p.y < B := by
      have h1 : p.y * (bwN : Int) < (B : Int) * (bwN : Int) := by omega
      exact Int.lt_of_mul_lt_mul_right h1 (by omega)
    unfold binLoopC
    apply Pot.bind_le pot_tick (by somega) (by somega) (by somega); intro _ _
    rw [hgb]
    apply Pot.bind_le (binRowC_pot d B bwN o p g ho hrow hg) (by somega) (by somega) (by somega); intro r hr
    obtain ⟨r1, r2, r3, r4⟩ := r
    cases r1 with
    | some res => exact Pot.pure trivial (by somega) (by somega) (by somega)
    | none =>
      have hfull : r2 = o + 2 * bwN := hr.full rfl
      have hle : r2 ≤ d.size := hr.le
      have hry : r3.y = p.y := hr.y
      have hrb : r4.bw = g.bw := hr.bw
      have hrl : r4.lines ≤ B := hr.lines
      have hrm : g.lines ≤ r4.lines := hr.mono
      dsimp only
      apply Pot.bind_le (pot_lift_ok (fun a h => chk32_ok h)) (by somega) (by somega) (by somega); intro y hy'
      subst hy'
      have hnew : (r3.y + 1) * (bwN : Int) + ((d.size - r2 : Nat) : Int) < (B : Int) * (bwN : Int) := by
        rw [Int.add_mul, Int.one_mul, hry]
        generalize p.y * (bwN : Int) = m at hi ⊢
        omega
      apply Pot.mono (ih r2 ⟨0, r3.y + 1⟩ r4 hle (by rw [hrb]; exact hgb) (by show 0 ≤ r3.y + 1; omega) hnew hrl) (by somega) (by somega) (by somega)
      intro _ _
      exact ⟨trivial, by somega, by somega, by somega⟩

/-- the row width of a BIN file: 160, or what the SAUCE record says (1..=1000) -/
def binWidth (sauce : Option (Nat × Nat)) : Nat := (initGeo binInitW binInitH binLinesCleared sauce).bw.toNat

theorem binWidth_range (sauce : Option (Nat × Nat)) : 1 ≤ binWidth sauce ∧ binWidth sauce ≤ 1000 := by
  have hb := initGeo_bw binInitW binInitH binLinesCleared sauce (by decide)
  have hw : binInitW = 160 := rfl
  unfold binWidth
  omega

theorem pot_of_div_budget {α : Type} {x : RC α} {n w W E : Nat} {P : α → Prop} {W' R' E' : α → Nat}
    (h : ∀ R0, n < R0 * w → n / w + 1 = R0 → x.Pot W R0 E P W' R' E') (hw : 0 < w) : x.Pot W (n / w + 1) E P W' R' E' :=
  h _ (nat_lt_div_succ_mul n w hw) rfl

theorem loadBinC_pot (d : Bytes) (sauce : Option (Nat × Nat)) :
    (loadBinC d sauce).Pot (d.size + binWidth sauce + 1) (d.size / binWidth sauce + 1) 0 (fun _ => True)
      (fun _ => 0) (fun _ => 0) (fun _ => 0) := by
  have hr := binWidth_range sauce
  apply pot_of_div_budget _ (by omega)
  intro R0 hR0 _
  unfold loadBinC
  have hB : ((d.size : Nat) : Int) < (R0 : Int) * (binWidth sauce : Int) := by
    have := Int.ofNat_lt.mpr hR0
    simpa [Int.natCast_mul] using this
  apply Pot.mono (binLoopC_pot d (binWidth sauce) hr.1 R0 (d.size + 1) 0 ⟨0, 0⟩ _ (by omega) rfl (by decide) (by simp only [Int.zero_mul]; omega)
    (by rw [initGeo_lines]; simp [binLinesCleared])) (by somega) (by rw [initGeo_lines]; simp [binLinesCleared]) (by somega)
  intro _ _
  exact ⟨trivial, by somega, by somega, by somega⟩

-- ------------------------------------------------------------------------------------------------ ADF
theorem adfRowC_pot (d : Bytes) (B : Nat) :
    ∀ (n o : Nat) (p : Pos) (g : Geo), o ≤ d.size → p.y < B → g.lines ≤ B →
      (adfRowC d n o p g).Pot n (B - g.lines) 0 (fun r => RowPost d B n o p g r)
        (fun _ => 0) (fun r => B - r.2.2.2.lines) (fun _ => 0) := by
  intro n
  induction n with
  | zero =>
    intro o p g ho hy hg
    exact Pot.pure ⟨fun _ => by simp, ho, rfl, rfl, hg, Nat.le_refl _⟩ (by somega) (by somega) (by somega)
  | succ n ih =>
    intro o p g ho hy hg
    unfold adfRowC
    apply Pot.bind_le pot_tick (by somega) (by somega) (by somega); intro _ _
    split
    · exact Pot.pure ⟨fun h => by simp at h, ho, rfl, rfl, hg, Nat.le_refl _⟩ (by somega) (by somega) (by somega)
    · rename_i h1
      apply Pot.bind_le (pot_lift_any _) (by somega) (by somega) (by somega); intro lh _
      apply Pot.bind_le (pot_lift_any _) (by somega) (by somega) (by somega); intro _ _
      apply Pot.bind_le (pot_lift_any _) (by somega) (by somega) (by somega); intro _ _
      apply Pot.bind_le (pot_setCharC { g with lh := lh } p.x p.y B hg hy) (by somega) (by somega) (by somega); intro g' hg'
      have hf := setChar_fields { g with lh := lh } p.x p.y
      have hl1 := setChar_lines_ge { g with lh := lh } p.x p.y
      have hl2 := setChar_lines_le { g with lh := lh } p.x p.y B hg hy
      subst hg'
      apply Pot.bind_le (pot_lift_any _) (by somega) (by somega) (by somega); intro x _
      apply Pot.mono (ih (o + 2) ⟨x, p.y⟩ _ (by omega) hy hl2) (by somega) (by somega) (by somega)
      intro r hr
      exact ⟨⟨fun h => by have := hr.full h; omega, hr.le, hr.y, hr.bw.trans hf.1, hr.lines, Nat.le_trans hl1 hr.mono⟩,
        by omega, by omega, by omega⟩

theorem adfLoopC_pot (d : Bytes) (bwN : Nat) (hbw : 1 ≤ bwN) (B : Nat) :
    ∀ (fuel o : Nat) (p : Pos) (g : Geo), o ≤ d.size → g.bw.toNat = bwN → 0 ≤ p.y →
      p.y * (bwN : Int) + ((d.size - o : Nat) : Int) < (B : Int) * (bwN : Int) → g.lines ≤ B →
      (adfLoopC d fuel o p g).Pot ((d.size - o) + bwN + 1) (B - g.lines) 0 (fun _ => True)
        (fun _ => 0) (fun _ => 0) (fun _ => 0) := by
  intro fuel
  induction fuel with
  | zero =>
    intro o p g ho hgb hy0 hi hg
    have hrow : p.y < B := by
      have h1 : p.y * (bwN : Int) < (B : Int) * (bwN : Int) := by omega
      exact Int.lt_of_mul_lt_mul_right h1 (by omega)
    unfold adfLoopC
    apply Pot.bind_le pot_tick (by somega) (by somega) (by somega); intro _ _
    rw [hgb]
    apply Pot.bind_le (adfRowC_pot d B bwN o p g ho hrow hg) (by somega) (by somega) (by somega); intro r hr
    obtain ⟨r1, r2, r3, r4⟩ := r
    cases r1 with
    | some res => exact Pot.pure trivial (by somega) (by somega) (by somega)
    | none => exact Pot.mono (pot_lift_any _) (by somega) (by somega) (by somega) (fun _ _ => ⟨trivial, by somega, by somega, by somega⟩)
  | succ fuel ih =>
    intro o p g ho hgb hy0 hi hg
    have hrow : p.y < B := by
      have h1 : p.y * (bwN : Int) < (B : Int) * (bwN : Int) := by omega
      exact Int.lt_of_mul_lt_mul_right h1 (by omega)
    unfold adfLoopC
    apply Pot.bind_le pot_tick (by somega) (by somega) (by somega); intro _ _
    rw [hgb]
    apply Pot.bind_le (adfRowC_pot d B bwN o p g ho hrow hg) (by somega) (by somega) (by somega); intro r hr
    obtain ⟨r1, r2, r3, r4⟩ := r
    cases r1 with
    | some res => exact Pot.pure trivial (by somega) (by somega) (by somega)
    | none =>
      have hfull : r2 = o + 2 * bwN := hr.full rfl
      have hle : r2 ≤ d.size := hr.le
      have hry : r3.y = p.y := hr.y
      have hrb : r4.bw = g.bw := hr.bw
      have hrl : r4.lines ≤ B := hr.lines
      have hrm : g.lines ≤ r4.lines := hr.mono
      dsimp only
      apply Pot.bind_le (pot_lift_ok (fun a h => chk32_ok h)) (by somega) (by somega) (by somega); intro y hy'
      subst hy'
      have hnew : (r3.y + 1) * (bwN : Int) + ((d.size - r2 : Nat) : Int) < (B : Int) * (bwN : Int) := by
        rw [Int.add_mul, Int.one_mul, hry]
        generalize p.y * (bwN : Int) = m at hi ⊢
        omega
      apply Pot.mono (ih r2 ⟨0, r3.y + 1⟩ r4 hle (by rw [hrb]; exact hgb) (by show 0 ≤ r3.y + 1; omega) hnew hrl) (by somega) (by somega) (by somega)
      intro _ _
      exact ⟨trivial, by somega, by somega, by somega⟩

/-- ADF: rows are 80 cells; 4288 bytes of palette and font are copied -/
theorem loadAdfC_pot (d : Bytes) (sauce : Option (Nat × Nat)) :
    (loadAdfC d sauce).Pot (d.size + 81) (d.size / 80 + 1) 4288 (fun _ => True) (fun _ => 0) (fun _ => 0) (fun _ => 0) := by
  apply pot_of_div_budget _ (by omega)
  intro R0 hR0 _
  unfold loadAdfC
  dsimp only
  have h1 : adfHeaderLength = 4289 := rfl
  have h2 : adfPaletteSize = 192 := rfl
  have h3 : adfFontSize = 4096 := rfl
  have h4 : adfWidth = 80 := rfl
  split
  · exact pot_fail
  · rename_i hlen
    apply Pot.bind_le (pot_lift_any _) (by somega) (by somega) (by somega); intro v _
    split
    · exact pot_fail
    · apply Pot.bind_le (pot_lift_any _) (by somega) (by somega) (by somega); intro _ _
      apply Pot.bind_le (pot_lift_any _) (by somega) (by somega) (by somega); intro _ _
      apply Pot.bind_le (pot_spend _) (by somega) (by somega) (by somega); intro _ _
      have hB : ((d.size : Nat) : Int) < (R0 : Int) * ((80 : Nat) : Int) := by
        have := Int.ofNat_lt.mpr hR0
        simpa [Int.natCast_mul] using this
      apply Pot.mono (adfLoopC_pot d 80 (by omega) R0 (d.size + 1) _ ⟨0, 0⟩ _ (by omega) (by simp only [h4]; rfl) (by decide) (by simp only [Int.zero_mul]; omega)
        (by show (initGeo 80 25 adfLinesCleared sauce).lines ≤ _; rw [initGeo_lines]; simp [adfLinesCleared])) (by somega)
        (by show R0 - (initGeo 80 25 adfLinesCleared sauce).lines ≤ _; rw [initGeo_lines]; simp [adfLinesCleared]) (by somega)
      intro _ _
      exact ⟨trivial, by somega, by somega, by somega⟩
