import IcyVerif.Lemmas.ArtAnsiXPal
/-! # `sgr_syncX`: writer state and reader stay in step for ALL colours (C04, `ansi_rt_partial₄`)

The simulation relation `RelX` between the writer's `AnsiState` and the reader's caret attribute + palette speaks about
RGB values: the colour the reader's index resolves to in the reader's palette is the colour the writer's state records.
The reader's palette grows (`insert_color`), so every fact is monotone in the palette.  The flag blocks of `get_color`
are treated as in `ArtAnsiSgr.lean`; the two colour blocks are described by the writer's decision (`ColOut`: keep /
DOS colour / xterm-256 index / 24-bit) and the reader's matching action. -/
set_option linter.unusedSimpArgs false
namespace IcyVerif.ArtIO
open IcyVerif.Gen.Art

/-- foreground part: `b` = bold, `fg` / `fgIdx` = the state's colour and index, `a` = the reader's foreground index -/
structure FgRel (b : Bool) (fg : Rgb) (fgIdx : Nat) (a : Nat) (P : List Rgb) : Prop where
  lt : a < P.length
  idx : b = false → ∀ j, dosIndex fg = some j → fgIdx = j ∧ a = j
  col : fg = pget P (if (b && decide (a < 8)) = true then a + 8 else a)

/-- background part: `k` = the blink flag the colour was written under (in iCE mode blink + low colour = bright colour) -/
structure BgRel (ic k : Bool) (bg : Rgb) (a : Nat) (P : List Rgb) : Prop where
  lt : a < P.length
  col : bg = pget P (if (ic && k && decide (a < 8)) = true then a + 8 else a)

structure RelX (ic k : Bool) (st : AnsiState) (A : Attr) (P : List Rgb) : Prop where
  fl : A.fl = stFlags st
  dp : DosPre P
  fg : FgRel st.isBold st.fg st.fgIdx A.fg P
  bg : BgRel ic k st.bg A.bg P

theorem FgRel.mono {b : Bool} {fg : Rgb} {fgIdx a : Nat} {P Q : List Rgb} (h : FgRel b fg fgIdx a P) (hp : DosPre P) (hq : P <+: Q) :
    FgRel b fg fgIdx a Q := by
  obtain ⟨h1, h2, h3⟩ := h
  have hl := hq.length_le
  have h16 := hp.len
  refine ⟨by omega, h2, ?_⟩
  rw [h3]
  symm
  apply pget_prefix hq
  split
  · rename_i hc
    simp only [Bool.and_eq_true, decide_eq_true_eq] at hc
    omega
  · exact h1

theorem BgRel.mono {ic k : Bool} {bg : Rgb} {a : Nat} {P Q : List Rgb} (h : BgRel ic k bg a P) (hp : DosPre P) (hq : P <+: Q) :
    BgRel ic k bg a Q := by
  obtain ⟨h1, h3⟩ := h
  have hl := hq.length_le
  have h16 := hp.len
  refine ⟨by omega, ?_⟩
  rw [h3]
  symm
  apply pget_prefix hq
  split
  · rename_i hc
    simp only [Bool.and_eq_true, decide_eq_true_eq] at hc
    omega
  · exact h1

/-- the state of the simulation between two flag blocks of `get_color` (the palette does not move) -/
structure GcInvX (A0 : Attr) (P0 : List Rgb) (ic k : Bool) (x : GcAcc) : Prop where
  simple : AllSimple x.2
  rel : RelX ic k x.1 (sgrSimple A0 x.2) P0

theorem relX_default (ic : Bool) (st : AnsiState) (P : List Rgb) (hp : DosPre P) : RelX ic false (stReset st) defaultAttr P := by
  have h16 := hp.len
  refine ⟨rfl, hp, ⟨?_, ?_, ?_⟩, ⟨?_, ?_⟩⟩
  · show 7 < P.length; omega
  · intro _ j hj
    have : dosIndex (dosPalette.getD 7 (0, 0, 0)) = some 7 := by decide
    have e : (stReset st).fg = dosPalette.getD 7 (0, 0, 0) := rfl
    rw [e, this] at hj
    simp only [Option.some.injEq] at hj
    subst hj
    exact ⟨rfl, rfl⟩
  · show dosPalette.getD 7 (0, 0, 0) = pget P (if (false && decide (7 < 8)) = true then 7 + 8 else 7)
    simp only [Bool.false_and, Bool.false_eq_true, if_false]
    rw [hp.get (by omega)]; decide
  · show 0 < P.length; omega
  · show dosPalette.getD 0 (0, 0, 0) = pget P (if (ic && false && decide (0 < 8)) = true then 0 + 8 else 0)
    simp only [Bool.and_false, Bool.false_and, Bool.false_eq_true, if_false]
    rw [hp.get (by omega)]; decide

/-- a bold cell after a custom-colour state forces a reset: when the bold block runs, the state's colour is a DOS colour -/
def NoCustom (t : GcTarget) (st : AnsiState) : Prop := t.bold = true → st.isBold = false → (dosIndex st.fg).isSome = true

theorem gcReset_invX (ic : Bool) (t : GcTarget) (st : AnsiState) (A0 : Attr) (P0 : List Rgb) (h : RelX ic st.isBlink st A0 P0) :
    GcInvX A0 P0 ic (gcReset t st).1.isBlink (gcReset t st) ∧ Mono t (gcReset t st).1 ∧ NoCustom t (gcReset t st).1 := by
  have hm := gcReset_mono t st
  unfold gcReset
  by_cases hr : gcNeedReset t st = true
  · rw [if_pos hr]
    refine ⟨⟨allSimple_snoc allSimple_nil simple_0 (by omega), ?_⟩, ?_, ?_⟩
    · show RelX ic (stReset st).isBlink (stReset st) (sgrSimple A0 [0]) P0
      have : sgrSimple A0 [0] = defaultAttr := rfl
      rw [this]; exact relX_default ic st P0 h.dp
    · refine ⟨?_, ?_, ?_, ?_, ?_, ?_, ?_, ?_⟩ <;> intro h' <;> cases h'
    · intro _ _
      show (dosIndex (dosPalette.getD 7 (0, 0, 0))).isSome = true
      decide
  · rw [if_neg hr]
    refine ⟨⟨allSimple_nil, h⟩, ?_, ?_⟩
    · have := hm
      unfold gcReset at this
      rw [if_neg hr] at this
      exact this
    · intro hb hs
      have hr' : gcNeedReset t st = false := by
        cases hq : gcNeedReset t st with
        | false => rfl
        | true => exact absurd hq hr
      unfold gcNeedReset at hr'
      simp only [Bool.or_eq_false_iff, Bool.and_eq_false_iff, Bool.not_eq_false'] at hr'
      obtain ⟨_, h9⟩ := hr'
      show (dosIndex st.fg).isSome = true
      rcases h9 with (h | h) | h
      · rw [hb] at h; cases h
      · rw [hs] at h; cases h
      · cases hq : dosIndex st.fg with
        | none => rw [hq] at h; simp at h
        | some j => rfl

/-! ### the flag blocks -/

theorem flag_stageX (A0 : Attr) (P0 : List Rgb) (ic kb : Bool) (x : GcAcc) (cond : Bool) (k : Nat) (upS : AnsiState → AnsiState)
    (upA : Attr → Attr) (hk : SimpleParam k) (hk' : k < 1000) (hone : ∀ a, sgrOne a k = some (upA a))
    (hrel : cond = true → RelX ic kb x.1 (sgrSimple A0 x.2) P0 → RelX ic kb (upS x.1) (upA (sgrSimple A0 x.2)) P0)
    (h : GcInvX A0 P0 ic kb x) : GcInvX A0 P0 ic kb (if cond = true then (upS x.1, x.2 ++ [k]) else x) := by
  by_cases hc : cond = true
  · rw [if_pos hc]
    refine ⟨allSimple_snoc h.simple hk hk', ?_⟩
    show RelX ic kb (upS x.1) (sgrSimple A0 (x.2 ++ [k])) P0
    rw [sgrSimple_append]
    have : sgrSimple (sgrSimple A0 x.2) [k] = upA (sgrSimple A0 x.2) := by
      simp [sgrSimple, hone]
    rw [this]
    exact hrel hc h.rel
  · rw [if_neg hc]; exact h

theorem gcBold_invX (t : GcTarget) (A0 : Attr) (P0 : List Rgb) (ic kb : Bool) (x : GcAcc) (hn : NoCustom t x.1)
    (h : GcInvX A0 P0 ic kb x) : GcInvX A0 P0 ic kb (gcBold t x) := by
  unfold gcBold
  refine flag_stageX A0 P0 ic kb x (t.bold && !x.1.isBold) 1 (fun st => { st with fgIdx := st.fgIdx + 8, fg := if st.fgIdx + 8 < 16 then dosPalette.getD (st.fgIdx + 8) (0, 0, 0) else st.fg, isBold := true }) (fun a => { a with fl := { a.fl with bold := true } }) simple_1 (by omega)
    (fun _ => rfl) ?_ h
  intro hc R
  have hb : x.1.isBold = false := by
    cases hq : x.1.isBold with
    | false => rfl
    | true => simp [hq] at hc
  have htb : t.bold = true := by
    cases hq : t.bold with
    | true => rfl
    | false => simp [hq] at hc
  obtain ⟨fl, dp, ⟨flt, fidx, fcol⟩, bg⟩ := R
  have h16 := dp.len
  -- the state's colour is a DOS colour (otherwise the reset block ran)
  have hsome := hn htb hb
  cases hj : dosIndex x.1.fg with
  | none => rw [hj] at hsome; cases hsome
  | some j =>
    obtain ⟨i1, i2⟩ := fidx hb j hj
    obtain ⟨j16, jcol⟩ := dosIndex_some hj
    refine ⟨?_, dp, ⟨flt, fun h' => (by cases h'), ?_⟩, bg⟩
    · show ({ (sgrSimple A0 x.2).fl with bold := true } : Flags) = _
      rw [fl]; rfl
    · show (if x.1.fgIdx + 8 < 16 then dosPalette.getD (x.1.fgIdx + 8) (0, 0, 0) else x.1.fg) =
        pget P0 (if (true && decide ((sgrSimple A0 x.2).fg < 8)) = true then (sgrSimple A0 x.2).fg + 8 else (sgrSimple A0 x.2).fg)
      rw [i1, i2]
      by_cases j8 : j < 8
      · have e1 : j + 8 < 16 := by omega
        simp only [e1, if_true, Bool.true_and, j8, decide_true]
        rw [dp.get e1]
        have : ∀ f < 8, dosPalette.getD (f + 8) (0, 0, 0) = getRgb dosPalette (f + 8) := by decide
        exact this j j8
      · have e1 : ¬ (j + 8 < 16) := by omega
        simp only [e1, if_false, Bool.true_and, j8, decide_false, Bool.false_eq_true]
        rw [fcol, hb, i2]
        simp

theorem gcFaint_invX (t : GcTarget) (A0 : Attr) (P0 : List Rgb) (ic kb : Bool) (x : GcAcc) (h : GcInvX A0 P0 ic kb x) : GcInvX A0 P0 ic kb (gcFaint t x) := by
  unfold gcFaint
  refine flag_stageX A0 P0 ic kb x (t.faint && !x.1.isFaint) 2 (fun st => { st with isFaint := true }) (fun a => { a with fl := { a.fl with faint := true } }) simple_2 (by omega)
    (fun _ => rfl) ?_ h
  intro _ R
  exact ⟨by show ({ (sgrSimple A0 x.2).fl with faint := true } : Flags) = _; rw [R.fl]; rfl, R.dp, R.fg, R.bg⟩

theorem gcItalic_invX (t : GcTarget) (A0 : Attr) (P0 : List Rgb) (ic kb : Bool) (x : GcAcc) (h : GcInvX A0 P0 ic kb x) : GcInvX A0 P0 ic kb (gcItalic t x) := by
  unfold gcItalic
  refine flag_stageX A0 P0 ic kb x (t.italic && !x.1.isItalic) 3 (fun st => { st with isItalic := true }) (fun a => { a with fl := { a.fl with italic := true } }) simple_3 (by omega)
    (fun _ => rfl) ?_ h
  intro _ R
  exact ⟨by show ({ (sgrSimple A0 x.2).fl with italic := true } : Flags) = _; rw [R.fl]; rfl, R.dp, R.fg, R.bg⟩

theorem gcUnderline_invX (t : GcTarget) (A0 : Attr) (P0 : List Rgb) (ic kb : Bool) (x : GcAcc) (h : GcInvX A0 P0 ic kb x) : GcInvX A0 P0 ic kb (gcUnderline t x) := by
  unfold gcUnderline
  refine flag_stageX A0 P0 ic kb x (t.underline && !x.1.isUnderlined) 4 (fun st => { st with isUnderlined := true }) (fun a => { a with fl := { a.fl with underline := true } }) simple_4 (by omega)
    (fun _ => rfl) ?_ h
  intro _ R
  exact ⟨by show ({ (sgrSimple A0 x.2).fl with underline := true } : Flags) = _; rw [R.fl]; rfl, R.dp, R.fg, R.bg⟩

theorem gcBlink_invX (t : GcTarget) (A0 : Attr) (P0 : List Rgb) (ic kb : Bool) (x : GcAcc) (h : GcInvX A0 P0 ic kb x) : GcInvX A0 P0 ic kb (gcBlink t x) := by
  unfold gcBlink
  refine flag_stageX A0 P0 ic kb x (t.blink && !x.1.isBlink) 5 (fun st => { st with isBlink := true }) (fun a => { a with fl := { a.fl with blink := true } }) simple_5 (by omega)
    (fun a => by simp [sgrOne]) ?_ h
  intro _ R
  exact ⟨by show ({ (sgrSimple A0 x.2).fl with blink := true } : Flags) = _; rw [R.fl]; rfl, R.dp, R.fg, R.bg⟩

theorem gcConceal_invX (t : GcTarget) (A0 : Attr) (P0 : List Rgb) (ic kb : Bool) (x : GcAcc) (h : GcInvX A0 P0 ic kb x) : GcInvX A0 P0 ic kb (gcConceal t x) := by
  unfold gcConceal
  refine flag_stageX A0 P0 ic kb x (t.conceal && !x.1.isConcealed) 8 (fun st => { st with isConcealed := true }) (fun a => { a with fl := { a.fl with conceal := true } }) simple_8 (by omega)
    (fun _ => rfl) ?_ h
  intro _ R
  exact ⟨by show ({ (sgrSimple A0 x.2).fl with conceal := true } : Flags) = _; rw [R.fl]; rfl, R.dp, R.fg, R.bg⟩

theorem gcCrossed_invX (t : GcTarget) (A0 : Attr) (P0 : List Rgb) (ic kb : Bool) (x : GcAcc) (h : GcInvX A0 P0 ic kb x) : GcInvX A0 P0 ic kb (gcCrossed t x) := by
  unfold gcCrossed
  refine flag_stageX A0 P0 ic kb x (t.crossed && !x.1.isCrossedOut) 9 (fun st => { st with isCrossedOut := true }) (fun a => { a with fl := { a.fl with crossed := true } }) simple_9 (by omega)
    (fun _ => rfl) ?_ h
  intro _ R
  exact ⟨by show ({ (sgrSimple A0 x.2).fl with crossed := true } : Flags) = _; rw [R.fl]; rfl, R.dp, R.fg, R.bg⟩

theorem gcDUnderline_invX (t : GcTarget) (A0 : Attr) (P0 : List Rgb) (ic kb : Bool) (x : GcAcc) (h : GcInvX A0 P0 ic kb x) : GcInvX A0 P0 ic kb (gcDUnderline t x) := by
  unfold gcDUnderline
  refine flag_stageX A0 P0 ic kb x (t.dunderline && !x.1.isDoubleUnderlined) 21 (fun st => { st with isDoubleUnderlined := true }) (fun a => { a with fl := { a.fl with dunderline := true } }) simple_21 (by omega)
    (fun _ => rfl) ?_ h
  intro _ R
  exact ⟨by show ({ (sgrSimple A0 x.2).fl with dunderline := true } : Flags) = _; rw [R.fl]; rfl, R.dp, R.fg, R.bg⟩

theorem afterFlags_invX (t : GcTarget) (A0 : Attr) (P0 : List Rgb) (ic kb : Bool) (x : GcAcc) (hn : NoCustom t x.1)
    (h : GcInvX A0 P0 ic kb x) : GcInvX A0 P0 ic kb (afterFlags t x) :=
  gcDUnderline_invX t A0 P0 ic kb _ (gcCrossed_invX t A0 P0 ic kb _ (gcConceal_invX t A0 P0 ic kb _ (gcBlink_invX t A0 P0 ic kb _
    (gcUnderline_invX t A0 P0 ic kb _ (gcItalic_invX t A0 P0 ic kb _ (gcFaint_invX t A0 P0 ic kb _ (gcBold_invX t A0 P0 ic kb _ hn h)))))))

/-! ### the colour blocks: the writer's decision and the reader's action -/

/-- what a colour block of `get_color` decides to emit -/
inductive ColOut
  | keep
  | dos (i : Nat)
  | x256 (e : Nat)
  | tc (c : Rgb)
deriving Repr

/-- the SGR parameters of a decision (`base` = 30 foreground / 40 background) -/
def ColOut.sgr (base : Nat) : ColOut → List Nat
  | .dos i => [colorOffsets.getD i 0 + base]
  | .x256 e => [base + 8, 5, e]
  | _ => []

/-- the 24-bit command of a decision (`k` = 1 foreground / 0 background) -/
def ColOut.tcs (k : Nat) : ColOut → List Nat
  | .tc c => [k, c.1, c.2.1, c.2.2]
  | _ => []

/-- the state's `fg_idx` after the foreground block -/
def ColOut.fgIdx (fgIdx0 fgc : Nat) (b : Bool) : ColOut → Nat
  | .keep => fgIdx0
  | .dos i => i + (if b = true then 8 else 0)
  | _ => fgc

def colDecide (useExt : Bool) (cur st : Rgb) (idx : Option Nat) : ColOut :=
  if (cur != st) = true then
    match idx with
    | some i => .dos i
    | none => match xtermIndex useExt cur with
      | some e => .x256 e
      | none => .tc cur
  else .keep

/-- what `colDecide` guarantees about its answer -/
structure ColFacts (C : ColOut) (cur st : Rgb) (idx : Option Nat) : Prop where
  keep : C = .keep → cur = st
  dos : ∀ i, C = .dos i → idx = some i
  x256 : ∀ e, C = .x256 e → idx = none ∧ e ≤ 255 ∧ xtermPalette.getD e (0, 0, 0) = cur
  tc : ∀ c, C = .tc c → idx = none ∧ c = cur

theorem colDecide_facts (useExt : Bool) (cur st : Rgb) (idx : Option Nat) : ColFacts (colDecide useExt cur st idx) cur st idx := by
  unfold colDecide
  by_cases hne : (cur != st) = true
  · rw [if_pos hne]
    cases idx with
    | some i =>
      show ColFacts (ColOut.dos i) cur st (some i)
      constructor
      · intro h; cases h
      · intro j h; cases h; rfl
      · intro e h; cases h
      · intro c h; cases h
    | none =>
      cases hx : xtermIndex useExt cur with
      | some e =>
        obtain ⟨x1, x2⟩ := xtermIndex_spec useExt cur e hx
        show ColFacts (ColOut.x256 e) cur st none
        constructor
        · intro h; cases h
        · intro j h; cases h
        · intro e' h; cases h; exact ⟨rfl, x1, x2⟩
        · intro c h; cases h
      | none =>
        show ColFacts (ColOut.tc cur) cur st none
        constructor
        · intro h; cases h
        · intro j h; cases h
        · intro e' h; cases h
        · intro c h; cases h; exact ⟨rfl, rfl⟩
  · rw [if_neg hne]
    have : cur = st := by
      cases hq : (cur != st) with
      | true => exact absurd hq hne
      | false => simpa using hq
    constructor
    · intro _; exact this
    · intro j h; cases h
    · intro e h; cases h
    · intro c h; cases h

theorem gcFg_eq (o : AnsiOpts) (t : GcTarget) (x : GcAcc) :
    (gcFg o t x).2.1 = x.2 ++ (colDecide o.useExtendedColors t.curFore x.1.fg t.foreIdx).sgr 30 ∧
    (gcFg o t x).2.2 = (colDecide o.useExtendedColors t.curFore x.1.fg t.foreIdx).tcs 1 ∧
    (gcFg o t x).1.fg = t.curFore ∧ (gcFg o t x).1.bg = x.1.bg ∧ (gcFg o t x).1.bgIdx = x.1.bgIdx ∧
    stFlags (gcFg o t x).1 = stFlags x.1 ∧
    (gcFg o t x).1.fgIdx = (colDecide o.useExtendedColors t.curFore x.1.fg t.foreIdx).fgIdx x.1.fgIdx t.fgc t.bold := by
  unfold gcFg colDecide
  by_cases hne : (t.curFore != x.1.fg) = true
  · rw [if_pos hne, if_pos hne]
    cases t.foreIdx with
    | some i => simp [ColOut.sgr, ColOut.tcs, stFlags, ColOut.fgIdx]
    | none =>
      simp only []
      cases xtermIndex o.useExtendedColors t.curFore with
      | some e => simp [ColOut.sgr, ColOut.tcs, stFlags, ColOut.fgIdx]
      | none => simp [ColOut.sgr, ColOut.tcs, stFlags, ColOut.fgIdx]
  · rw [if_neg hne, if_neg hne]
    have : t.curFore = x.1.fg := by
      cases hq : (t.curFore != x.1.fg) with
      | true => exact absurd hq hne
      | false => simpa using hq
    simp [ColOut.sgr, ColOut.tcs, this, ColOut.fgIdx]

theorem gcBg_eq (o : AnsiOpts) (t : GcTarget) (y : AnsiState × List Nat × List Nat) :
    (gcBg o t y).2.1 = y.2.1 ++ (colDecide o.useExtendedColors t.curBack y.1.bg t.backIdx).sgr 40 ∧
    (gcBg o t y).2.2 = y.2.2 ++ (colDecide o.useExtendedColors t.curBack y.1.bg t.backIdx).tcs 0 ∧
    (gcBg o t y).1.bg = t.curBack ∧ (gcBg o t y).1.fg = y.1.fg ∧ (gcBg o t y).1.fgIdx = y.1.fgIdx ∧
    stFlags (gcBg o t y).1 = stFlags y.1 := by
  unfold gcBg colDecide
  by_cases hne : (t.curBack != y.1.bg) = true
  · rw [if_pos hne, if_pos hne]
    cases t.backIdx with
    | some i => simp [ColOut.sgr, ColOut.tcs, stFlags]
    | none =>
      simp only []
      cases xtermIndex o.useExtendedColors t.curBack with
      | some e => simp [ColOut.sgr, ColOut.tcs, stFlags]
      | none => simp [ColOut.sgr, ColOut.tcs, stFlags]
  · rw [if_neg hne, if_neg hne]
    have : t.curBack = y.1.bg := by
      cases hq : (t.curBack != y.1.bg) with
      | true => exact absurd hq hne
      | false => simpa using hq
    simp [ColOut.sgr, ColOut.tcs, this]

/-- the reader's state as far as colours go: caret attribute and palette -/
abbrev RdSt := Attr × List Rgb

def putCol (isFg : Bool) (A : Attr) (i : Nat) : Attr := if isFg = true then { A with fg := i } else { A with bg := i }

/-- the reader's reaction to a decision: DOS colour index, or `insert_color` of the table entry / the RGB value -/
def ColOut.act (isFg : Bool) : ColOut → RdSt → RdSt
  | .keep, R => R
  | .dos i, R => (putCol isFg R.1 i, R.2)
  | .x256 e, R => (putCol isFg R.1 (insertColor R.2 (xtermPalette.getD e (0, 0, 0))).2, (insertColor R.2 (xtermPalette.getD e (0, 0, 0))).1)
  | .tc c, R => (putCol isFg R.1 (insertColor R.2 (c.1 % 256, c.2.1 % 256, c.2.2 % 256)).2, (insertColor R.2 (c.1 % 256, c.2.1 % 256, c.2.2 % 256)).1)

theorem act_pal (isFg : Bool) (C : ColOut) (R : RdSt) : R.2 <+: (C.act isFg R).2 ∧ (C.act isFg R).2.length ≤ R.2.length + 1 := by
  cases C with
  | keep => exact ⟨List.prefix_refl _, by simp [ColOut.act]⟩
  | dos i => exact ⟨List.prefix_refl _, by simp [ColOut.act]⟩
  | x256 e => exact ⟨insertColor_prefix _ _, insertColor_len _ _⟩
  | tc c => exact ⟨insertColor_prefix _ _, insertColor_len _ _⟩

theorem act_fl (isFg : Bool) (C : ColOut) (R : RdSt) : (C.act isFg R).1.fl = R.1.fl := by
  cases C <;> cases isFg <;> simp [ColOut.act, putCol]

theorem actFg_bg (C : ColOut) (R : RdSt) : (C.act true R).1.bg = R.1.bg := by
  cases C <;> simp [ColOut.act, putCol]

theorem actBg_fg (C : ColOut) (R : RdSt) : (C.act false R).1.fg = R.1.fg := by
  cases C <;> simp [ColOut.act, putCol]

theorem rgb_mod (c : Rgb) (h : c.1 < 256 ∧ c.2.1 < 256 ∧ c.2.2 < 256) : (c.1 % 256, c.2.1 % 256, c.2.2 % 256) = c := by
  obtain ⟨h1, h2, h3⟩ := h
  rw [Nat.mod_eq_of_lt h1, Nat.mod_eq_of_lt h2, Nat.mod_eq_of_lt h3]

/-- what a non-`keep`, non-`dos` action leaves behind: an index that resolves to the colour -/
theorem act_insert (isFg : Bool) (C : ColOut) (cur st : Rgb) (idx : Option Nat) (hC : ColFacts C cur st idx)
    (hb : cur.1 < 256 ∧ cur.2.1 < 256 ∧ cur.2.2 < 256) (hk : C ≠ .keep) (hd : ∀ i, C ≠ .dos i) (R : RdSt) :
    idx = none ∧ ∃ r : List Rgb × Nat, C.act isFg R = (putCol isFg R.1 r.2, r.1) ∧ r.2 < r.1.length ∧ pget r.1 r.2 = cur := by
  cases C with
  | keep => exact absurd rfl hk
  | dos i => exact absurd rfl (hd i)
  | x256 e =>
    obtain ⟨h1, _, h3⟩ := hC.x256 e rfl
    refine ⟨h1, insertColor R.2 (xtermPalette.getD e (0, 0, 0)), rfl, insertColor_lt _ _, ?_⟩
    rw [insertColor_get, h3]
  | tc c =>
    obtain ⟨h1, h2⟩ := hC.tc c rfl
    subst h2
    refine ⟨h1, insertColor R.2 (c.1 % 256, c.2.1 % 256, c.2.2 % 256), rfl, insertColor_lt _ _, ?_⟩
    rw [insertColor_get, rgb_mod c hb]

/-- the foreground block: after the reader's action its foreground index resolves (bold taken into account) to the
    cell's colour.  `b` = the bold flag now in force on both sides. -/
theorem fg_spec (C : ColOut) (cur st0 : Rgb) (idx : Option Nat) (hC : ColFacts C cur st0 idx) (b : Bool) (fgIdx0 fgc : Nat)
    (hidx : ∀ i, idx = some i → ∃ i0, dosIndex cur = some i0 ∧ i = (if i0 < 8 then i0 else i0 - 8) ∧ b = decide (8 ≤ i0))
    (hnone : idx = none → dosIndex cur = none)
    (hb : cur.1 < 256 ∧ cur.2.1 < 256 ∧ cur.2.2 < 256)
    (R : RdSt) (hp : DosPre R.2) (hold : C = .keep → FgRel b st0 fgIdx0 R.1.fg R.2) :
    FgRel b cur (C.fgIdx fgIdx0 fgc b) (C.act true R).1.fg (C.act true R).2 := by
  have h16 := hp.len
  cases C with
  | keep =>
    have := hold rfl
    rw [← hC.keep rfl] at this
    simpa [ColOut.act, ColOut.fgIdx] using this
  | dos i =>
    obtain ⟨i0, d1, d2, d3⟩ := hidx i (hC.dos i rfl)
    obtain ⟨i16, icol⟩ := dosIndex_some d1
    have hi8 : i < 8 := by rw [d2]; split <;> omega
    refine ⟨?_, ?_, ?_⟩
    · show i < R.2.length; omega
    · intro hbf j hj
      rw [d1] at hj
      simp only [Option.some.injEq] at hj
      subst hj
      rw [hbf] at d3
      have : ¬ (8 ≤ i0) := by intro q; simp [q] at d3
      have : i = i0 := by rw [d2, if_pos (by omega)]
      simp [hbf, this, ColOut.act, putCol, ColOut.fgIdx]
    · show cur = pget R.2 (if (b && decide (i < 8)) = true then i + 8 else i)
      have e : (if (b && decide (i < 8)) = true then i + 8 else i) = i0 := by
        rw [d3]
        by_cases h8 : 8 ≤ i0
        · have : ¬ (i0 < 8) := by omega
          simp [h8, hi8, d2, this]; omega
        · have : i0 < 8 := by omega
          simp [h8, hi8, d2, this]
      rw [e, hp.get i16, icol]
  | x256 e =>
    obtain ⟨hn, r, e1, e2, e3⟩ := act_insert true (.x256 e) cur st0 idx hC hb (by intro q; cases q) (by intro i q; cases q) R
    have hdn := hnone hn
    have hpr : DosPre r.1 := by
      have := (act_pal true (.x256 e) R).1
      rw [e1] at this
      exact hp.mono this
    have h8 : ¬ (r.2 < 8) := by
      intro q
      have := dosIndex_of_pget hpr (by omega : r.2 < 16)
      rw [e3, hdn] at this
      cases this
    rw [e1]
    refine ⟨by simpa [putCol] using e2, ?_, ?_⟩
    · intro _ j hj; rw [hdn] at hj; cases hj
    · show cur = pget r.1 (if (b && decide ((putCol true R.1 r.2).fg < 8)) = true then (putCol true R.1 r.2).fg + 8 else (putCol true R.1 r.2).fg)
      simp [putCol, h8, e3]
  | tc c =>
    obtain ⟨hn, r, e1, e2, e3⟩ := act_insert true (.tc c) cur st0 idx hC hb (by intro q; cases q) (by intro i q; cases q) R
    have hdn := hnone hn
    have hpr : DosPre r.1 := by
      have := (act_pal true (.tc c) R).1
      rw [e1] at this
      exact hp.mono this
    have h8 : ¬ (r.2 < 8) := by
      intro q
      have := dosIndex_of_pget hpr (by omega : r.2 < 16)
      rw [e3, hdn] at this
      cases this
    rw [e1]
    refine ⟨by simpa [putCol] using e2, ?_, ?_⟩
    · intro _ j hj; rw [hdn] at hj; cases hj
    · show cur = pget r.1 (if (b && decide ((putCol true R.1 r.2).fg < 8)) = true then (putCol true R.1 r.2).fg + 8 else (putCol true R.1 r.2).fg)
      simp [putCol, h8, e3]

/-- the background block: `k` = the blink flag now in force (in iCE mode blink + low colour = bright colour) -/
theorem bg_spec (C : ColOut) (cur st0 : Rgb) (idx : Option Nat) (hC : ColFacts C cur st0 idx) (ic k : Bool)
    (hidx : ∀ i, idx = some i → ∃ i0, dosIndex cur = some i0 ∧ i < 8 ∧ i + (if (ic && k) = true then 8 else 0) = i0)
    (hnone : idx = none → ∀ j < 8, getRgb dosPalette j ≠ cur)
    (hb : cur.1 < 256 ∧ cur.2.1 < 256 ∧ cur.2.2 < 256)
    (R : RdSt) (hp : DosPre R.2) (hold : C = .keep → BgRel ic k st0 R.1.bg R.2) :
    BgRel ic k cur (C.act false R).1.bg (C.act false R).2 := by
  have h16 := hp.len
  cases C with
  | keep =>
    have := hold rfl
    rw [← hC.keep rfl] at this
    simpa [ColOut.act] using this
  | dos i =>
    obtain ⟨i0, d1, d2, d3⟩ := hidx i (hC.dos i rfl)
    obtain ⟨i16, icol⟩ := dosIndex_some d1
    refine ⟨?_, ?_⟩
    · show i < R.2.length; omega
    · show cur = pget R.2 (if (ic && k && decide (i < 8)) = true then i + 8 else i)
      have e : (if (ic && k && decide (i < 8)) = true then i + 8 else i) = i0 := by
        rw [← d3]
        cases hq : (ic && k) <;> simp [hq, d2]
      rw [e, hp.get i16, icol]
  | x256 e =>
    obtain ⟨hn, r, e1, e2, e3⟩ := act_insert false (.x256 e) cur st0 idx hC hb (by intro q; cases q) (by intro i q; cases q) R
    have hpr : DosPre r.1 := by
      have := (act_pal false (.x256 e) R).1
      rw [e1] at this
      exact hp.mono this
    have h8 : ¬ (r.2 < 8) := by
      intro q
      have := hpr.get (by omega : r.2 < 16)
      rw [e3] at this
      exact hnone hn r.2 q this.symm
    rw [e1]
    refine ⟨by simpa [putCol] using e2, ?_⟩
    show cur = pget r.1 (if (ic && k && decide ((putCol false R.1 r.2).bg < 8)) = true then (putCol false R.1 r.2).bg + 8 else (putCol false R.1 r.2).bg)
    simp [putCol, h8, e3]
  | tc c =>
    obtain ⟨hn, r, e1, e2, e3⟩ := act_insert false (.tc c) cur st0 idx hC hb (by intro q; cases q) (by intro i q; cases q) R
    have hpr : DosPre r.1 := by
      have := (act_pal false (.tc c) R).1
      rw [e1] at this
      exact hp.mono this
    have h8 : ¬ (r.2 < 8) := by
      intro q
      have := hpr.get (by omega : r.2 < 16)
      rw [e3] at this
      exact hnone hn r.2 q this.symm
    rw [e1]
    refine ⟨by simpa [putCol] using e2, ?_⟩
    show cur = pget r.1 (if (ic && k && decide ((putCol false R.1 r.2).bg < 8)) = true then (putCol false R.1 r.2).bg + 8 else (putCol false R.1 r.2).bg)
    simp [putCol, h8, e3]

/-! ### the reader on the parameters of one cell -/

/-- `select_graphic_rendition` on the caret attribute and the palette -/
def rdSgr (R : RdSt) (nums : List Nat) : RdSt := if nums.isEmpty = true then R else sgrLoop nums.length nums 0 R.1 R.2

/-- the 24-bit commands `CSI k;r;g;b t`, four numbers each -/
def rdTc : Nat → List Nat → RdSt → RdSt
  | fuel + 1, a :: b :: c :: d :: rest, R =>
      rdTc fuel rest (if a = 0 then ({ R.1 with bg := (insertColor R.2 (b % 256, c % 256, d % 256)).2 }, (insertColor R.2 (b % 256, c % 256, d % 256)).1)
        else if a = 1 then ({ R.1 with fg := (insertColor R.2 (b % 256, c % 256, d % 256)).2 }, (insertColor R.2 (b % 256, c % 256, d % 256)).1)
        else (R.1, (insertColor R.2 (b % 256, c % 256, d % 256)).1))
  | _, _, R => R

/-- the reader after the SGR sequence and the 24-bit commands in front of a cell -/
def rdPre (R : RdSt) (sgr tc : List Nat) : RdSt := rdTc tc.length tc (rdSgr R sgr)

def ColOut.sgrAct (isFg : Bool) (C : ColOut) (R : RdSt) : RdSt :=
  match C with
  | .tc _ => R
  | _ => C.act isFg R

def ColOut.tcAct (isFg : Bool) (C : ColOut) (R : RdSt) : RdSt :=
  match C with
  | .tc _ => C.act isFg R
  | _ => R

def ColOut.Ok : ColOut → Prop
  | .dos i => i < 8
  | .x256 e => e ≤ 255
  | _ => True

theorem sgrLoop_succ (f : Nat) (nums : List Nat) (i : Nat) (a : Attr) (pal : List Rgb) :
    sgrLoop (f + 1) nums i a pal =
      match nums[i]? with
      | none => (a, pal)
      | some n =>
        if n = 38 then
          match extColor pal nums i with
          | some (col, pal', i') => sgrLoop f nums i' { a with fg := col } pal'
          | none => (a, pal)
        else if n = 48 then
          match extColor pal nums i with
          | some (col, pal', i') => sgrLoop f nums i' { a with bg := col } pal'
          | none => (a, pal)
        else match sgrOne a n with
          | some a' => sgrLoop f nums (i + 1) a' pal
          | none => (a, pal) := by
  rw [sgrLoop]
  cases nums[i]? <;> rfl

theorem sgrLoop_end (f : Nat) (nums : List Nat) (i : Nat) (A : Attr) (P : List Rgb) (h : nums[i]? = none) :
    sgrLoop f nums i A P = (A, P) := by
  cases f with
  | zero => rfl
  | succ f => unfold sgrLoop; rw [h]

/-- a prefix of simple parameters acts as the left fold -/
theorem sgrLoop_prefix (s rest : List Nat) (hs : AllSimple s) : ∀ (fuel i : Nat) (A : Attr) (P : List Rgb), i ≤ s.length →
    s.length - i ≤ fuel →
    sgrLoop fuel (s ++ rest) i A P = sgrLoop (fuel - (s.length - i)) (s ++ rest) s.length (sgrSimple A (s.drop i)) P := by
  intro fuel
  induction fuel with
  | zero =>
    intro i A P h1 h2
    have : i = s.length := by omega
    subst this
    simp [sgrSimple]
  | succ f ih =>
    intro i A P h1 h2
    by_cases hi : i = s.length
    · subst hi; simp [sgrSimple]
    · have hlt : i < s.length := by omega
      have hget : (s ++ rest)[i]? = some s[i] := by
        rw [List.getElem?_append_left hlt, List.getElem?_eq_getElem hlt]
      obtain ⟨⟨n38, n48, hsome⟩, _⟩ := hs s[i] (List.getElem_mem hlt)
      rw [sgrLoop_succ, hget]
      simp only [n38, n48, if_false]
      cases ho : sgrOne A s[i] with
      | none => have := hsome A; rw [ho] at this; cases this
      | some A' =>
        simp only []
        rw [ih (i + 1) A' P (by omega) (by omega), List.drop_eq_getElem_cons hlt]
        have e : f + 1 - (s.length - i) = f - (s.length - (i + 1)) := by omega
        rw [e]
        simp only [sgrSimple, List.foldl_cons, ho, Option.getD_some]

theorem get_app (pre rest : List Nat) (k : Nat) : (pre ++ rest)[pre.length + k]? = rest[k]? := by
  rw [List.getElem?_append_right (by omega)]
  congr 1; omega

/-- one non-empty parameter group of a colour decision, anywhere in the list -/
theorem sgr_chunk (isFg : Bool) (C : ColOut) (hok : C.Ok) (pre post : List Nat) (f : Nat) (A : Attr) (P : List Rgb)
    (hne : C.sgr (if isFg = true then 30 else 40) ≠ []) :
    sgrLoop (f + 1) (pre ++ (C.sgr (if isFg = true then 30 else 40) ++ post)) pre.length A P =
      sgrLoop f (pre ++ (C.sgr (if isFg = true then 30 else 40) ++ post)) (pre.length + (C.sgr (if isFg = true then 30 else 40)).length)
        (C.sgrAct isFg (A, P)).1 (C.sgrAct isFg (A, P)).2 := by
  cases C with
  | keep => exact absurd rfl hne
  | tc c => exact absurd rfl hne
  | dos i =>
    have hi : i < 8 := hok
    obtain ⟨c1, c2, c3, c4⟩ := color_offsets_inv i hi
    have c5 : 40 ≤ colorOffsets.getD i 0 + 40 ∧ colorOffsets.getD i 0 + 40 ≤ 47 := by omega
    have h0 := get_app pre (ColOut.sgr (if isFg = true then 30 else 40) (.dos i) ++ post) 0
    rw [Nat.add_zero] at h0
    rw [sgrLoop_succ, h0]
    cases isFg with
    | true =>
      simp only [if_true, ColOut.sgr, List.cons_append, List.nil_append, List.getElem?_cons_zero, List.length_cons, List.length_nil]
      have n38 : ¬ (colorOffsets.getD i 0 + 30 = 38) := by omega
      have n48 : ¬ (colorOffsets.getD i 0 + 30 = 48) := by omega
      simp only [n38, n48, if_false, sgrOne_fg _ _ c1 c2, c3]
      rfl
    | false =>
      simp only [Bool.false_eq_true, if_false, ColOut.sgr, List.cons_append, List.nil_append, List.getElem?_cons_zero, List.length_cons, List.length_nil]
      have n38 : ¬ (colorOffsets.getD i 0 + 40 = 38) := by omega
      have n48 : ¬ (colorOffsets.getD i 0 + 40 = 48) := by omega
      simp only [n38, n48, if_false, sgrOne_bg _ _ c5.1 c5.2, c4]
      rfl
  | x256 e =>
    have he : e ≤ 255 := hok
    have h0 := get_app pre (ColOut.sgr (if isFg = true then 30 else 40) (.x256 e) ++ post) 0
    have h1 := get_app pre (ColOut.sgr (if isFg = true then 30 else 40) (.x256 e) ++ post) 1
    have h2 := get_app pre (ColOut.sgr (if isFg = true then 30 else 40) (.x256 e) ++ post) 2
    rw [Nat.add_zero] at h0
    have hlen : (pre ++ (ColOut.sgr (if isFg = true then 30 else 40) (.x256 e) ++ post)).length = pre.length + (3 + post.length) := by
      simp [ColOut.sgr]; omega
    have hext : extColor P (pre ++ (ColOut.sgr (if isFg = true then 30 else 40) (.x256 e) ++ post)) pre.length =
        some ((insertColor P (xtermPalette.getD e (0, 0, 0))).2, (insertColor P (xtermPalette.getD e (0, 0, 0))).1, pre.length + 3) := by
      unfold extColor
      have g2 : (pre ++ (ColOut.sgr (if isFg = true then 30 else 40) (.x256 e) ++ post)).getD (pre.length + 2) 0 = e := by
        rw [List.getD_eq_getElem?_getD, h2]; simp [ColOut.sgr]
      rw [hlen, h1, g2]
      have a1 : ¬ (pre.length + (3 + post.length) ≤ pre.length + 1) := by omega
      have a2 : ¬ (pre.length + (3 + post.length) < pre.length + 3) := by omega
      simp [ColOut.sgr, a1, a2, he]
    rw [sgrLoop_succ, h0]
    cases isFg with
    | true =>
      simp only [if_true] at hext ⊢
      simp only [ColOut.sgr, List.cons_append, List.nil_append, List.getElem?_cons_zero, List.length_cons, List.length_nil]
      simp only [ColOut.sgr, List.cons_append, List.nil_append] at hext
      simp only [if_true, hext]
      rfl
    | false =>
      simp only [Bool.false_eq_true, if_false] at hext ⊢
      simp only [ColOut.sgr, List.cons_append, List.nil_append, List.getElem?_cons_zero, List.length_cons, List.length_nil]
      simp only [ColOut.sgr, List.cons_append, List.nil_append] at hext
      have n38 : ¬ (40 + 8 = 38) := by omega
      simp only [n38, if_false, if_true, hext]
      rfl

theorem sgrAct_of_nil (isFg : Bool) (C : ColOut) (base : Nat) (h : C.sgr base = []) (R : RdSt) : C.sgrAct isFg R = R := by
  cases C with
  | keep => rfl
  | tc c => rfl
  | dos i => simp [ColOut.sgr] at h
  | x256 e => simp [ColOut.sgr] at h

/-- the reader's `select_graphic_rendition` on what `get_color` pushed: the simple flag parameters, then the foreground
    group, then the background group -/
theorem sgr_eval (s : List Nat) (hs : AllSimple s) (F B : ColOut) (hF : F.Ok) (hB : B.Ok) (A0 : Attr) (P0 : List Rgb) :
    rdSgr (A0, P0) (s ++ F.sgr 30 ++ B.sgr 40) = B.sgrAct false (F.sgrAct true (sgrSimple A0 s, P0)) := by
  unfold rdSgr
  by_cases hemp : (s ++ F.sgr 30 ++ B.sgr 40).isEmpty = true
  · rw [if_pos hemp]
    have h1 : s = [] ∧ F.sgr 30 = [] ∧ B.sgr 40 = [] := by
      have : s ++ F.sgr 30 ++ B.sgr 40 = [] := by simpa using hemp
      simp only [List.append_eq_nil_iff] at this
      exact ⟨this.1.1, this.1.2, this.2⟩
    rw [sgrAct_of_nil true F 30 h1.2.1, sgrAct_of_nil false B 40 h1.2.2, h1.1]
    rfl
  · rw [if_neg hemp]
    simp only []
    rw [List.append_assoc, sgrLoop_prefix s (F.sgr 30 ++ B.sgr 40) hs _ 0 A0 P0 (by omega) (by simp)]
    simp only [Nat.sub_zero, List.drop_zero, List.length_append]
    have ef : s.length + ((F.sgr 30).length + (B.sgr 40).length) - s.length = (F.sgr 30).length + (B.sgr 40).length := by omega
    rw [ef]
    generalize sgrSimple A0 s = A1
    -- the foreground group
    have stepF : sgrLoop ((F.sgr 30).length + (B.sgr 40).length) (s ++ (F.sgr 30 ++ B.sgr 40)) s.length A1 P0 =
        sgrLoop (B.sgr 40).length (s ++ (F.sgr 30 ++ B.sgr 40)) (s.length + (F.sgr 30).length) (F.sgrAct true (A1, P0)).1 (F.sgrAct true (A1, P0)).2 := by
      by_cases hf : F.sgr 30 = []
      · rw [sgrAct_of_nil true F 30 hf, hf]; simp
      · have hpos : 0 < (F.sgr 30).length := List.length_pos_iff.2 hf
        have e : (F.sgr 30).length + (B.sgr 40).length = ((F.sgr 30).length - 1 + (B.sgr 40).length) + 1 := by omega
        rw [e]
        have := sgr_chunk true F hF s (B.sgr 40) ((F.sgr 30).length - 1 + (B.sgr 40).length) A1 P0 (by simpa using hf)
        simp only [if_true] at this
        rw [this]
        -- the remaining fuel is at least what the background group needs; extra fuel is harmless here: it is exactly one
        -- less than before, and the background group consumes at most one round
        generalize (F.sgrAct true (A1, P0)) = R1
        by_cases hb : B.sgr 40 = []
        · rw [hb]
          simp only [List.length_nil, Nat.add_zero, List.append_nil]
          rw [sgrLoop_end, sgrLoop_end]
          · rw [List.getElem?_eq_none]; simp
          · rw [List.getElem?_eq_none]; simp
        · have hposb : 0 < (B.sgr 40).length := List.length_pos_iff.2 hb
          have e2 : (F.sgr 30).length - 1 + (B.sgr 40).length = ((F.sgr 30).length - 1 + ((B.sgr 40).length - 1)) + 1 := by omega
          have e3 : (B.sgr 40).length = ((B.sgr 40).length - 1) + 1 := by omega
          have hc1 := sgr_chunk false B hB (s ++ F.sgr 30) [] ((F.sgr 30).length - 1 + ((B.sgr 40).length - 1)) R1.1 R1.2 (by simpa using hb)
          have hc2 := sgr_chunk false B hB (s ++ F.sgr 30) [] ((B.sgr 40).length - 1) R1.1 R1.2 (by simpa using hb)
          simp only [Bool.false_eq_true, if_false, List.append_nil, List.length_append, List.append_assoc] at hc1 hc2
          rw [e2, hc1]
          conv => rhs; rw [e3, hc2]
          rw [sgrLoop_end, sgrLoop_end]
          · rw [List.getElem?_eq_none]; simp; omega
          · rw [List.getElem?_eq_none]; simp; omega
    rw [stepF]
    generalize (F.sgrAct true (A1, P0)) = R1
    by_cases hb : B.sgr 40 = []
    · rw [sgrAct_of_nil false B 40 hb, hb]
      rfl
    · have hposb : 0 < (B.sgr 40).length := List.length_pos_iff.2 hb
      have e3 : (B.sgr 40).length = ((B.sgr 40).length - 1) + 1 := by omega
      have hc2 := sgr_chunk false B hB (s ++ F.sgr 30) [] ((B.sgr 40).length - 1) R1.1 R1.2 (by simpa using hb)
      simp only [Bool.false_eq_true, if_false, List.append_nil, List.length_append, List.append_assoc] at hc2
      rw [e3, hc2, sgrLoop_end]
      rw [List.getElem?_eq_none]; simp; omega

theorem tc_eval (F B : ColOut) (R : RdSt) :
    rdTc (F.tcs 1 ++ B.tcs 0).length (F.tcs 1 ++ B.tcs 0) R = B.tcAct false (F.tcAct true R) := by
  cases F <;> cases B <;> simp [ColOut.tcs, rdTc, ColOut.tcAct, ColOut.act, putCol]

/-- the reader after everything `get_color` emitted for one cell -/
theorem rdPre_eq (s : List Nat) (hs : AllSimple s) (F B : ColOut) (hF : F.Ok) (hB : B.Ok) (A0 : Attr) (P0 : List Rgb) :
    rdPre (A0, P0) (s ++ F.sgr 30 ++ B.sgr 40) (F.tcs 1 ++ B.tcs 0) =
      B.tcAct false (F.tcAct true (B.sgrAct false (F.sgrAct true (sgrSimple A0 s, P0)))) := by
  unfold rdPre
  rw [sgr_eval s hs F B hF hB, tc_eval]

/-- SGR groups are read before 24-bit commands: the two actions happen in the writer's order or swapped -/
theorem chain_order (F B : ColOut) (R : RdSt) :
    B.tcAct false (F.tcAct true (B.sgrAct false (F.sgrAct true R))) = B.act false (F.act true R) ∨
    B.tcAct false (F.tcAct true (B.sgrAct false (F.sgrAct true R))) = F.act true (B.act false R) := by
  cases F <;> cases B <;> first | (left; rfl) | (right; rfl)

/-- what holds after both colour actions -/
structure ColDone (ic k b : Bool) (curF curB : Rgb) (fgIdx : Nat) (P0 : List Rgb) (fl0 : Flags) (R : RdSt) : Prop where
  fg : FgRel b curF fgIdx R.1.fg R.2
  bg : BgRel ic k curB R.1.bg R.2
  dp : DosPre R.2
  pre : P0 <+: R.2
  len : R.2.length ≤ P0.length + 2
  fl : R.1.fl = fl0

theorem both_actions (F B : ColOut) (curF stF curB stB : Rgb) (idxF idxB : Option Nat) (hCF : ColFacts F curF stF idxF)
    (hCB : ColFacts B curB stB idxB) (ic k b : Bool) (fgIdx0 fgc : Nat)
    (hidxF : ∀ i, idxF = some i → ∃ i0, dosIndex curF = some i0 ∧ i = (if i0 < 8 then i0 else i0 - 8) ∧ b = decide (8 ≤ i0))
    (hnoneF : idxF = none → dosIndex curF = none)
    (hbF : curF.1 < 256 ∧ curF.2.1 < 256 ∧ curF.2.2 < 256)
    (hidxB : ∀ i, idxB = some i → ∃ i0, dosIndex curB = some i0 ∧ i < 8 ∧ i + (if (ic && k) = true then 8 else 0) = i0)
    (hnoneB : idxB = none → ∀ j < 8, getRgb dosPalette j ≠ curB)
    (hbB : curB.1 < 256 ∧ curB.2.1 < 256 ∧ curB.2.2 < 256)
    (R0 : RdSt) (hp : DosPre R0.2) (holdF : F = .keep → FgRel b stF fgIdx0 R0.1.fg R0.2)
    (holdB : B = .keep → BgRel ic k stB R0.1.bg R0.2) (R : RdSt)
    (hR : R = B.act false (F.act true R0) ∨ R = F.act true (B.act false R0)) :
    ColDone ic k b curF curB (F.fgIdx fgIdx0 fgc b) R0.2 R0.1.fl R := by
  rcases hR with hR | hR
  · subst hR
    obtain ⟨p1, l1⟩ := act_pal true F R0
    have dp1 : DosPre (F.act true R0).2 := hp.mono p1
    have f1 := fg_spec F curF stF idxF hCF b fgIdx0 fgc hidxF hnoneF hbF R0 hp holdF
    have hb1 : B = .keep → BgRel ic k stB (F.act true R0).1.bg (F.act true R0).2 := by
      intro hk; rw [actFg_bg]; exact (holdB hk).mono hp p1
    obtain ⟨p2, l2⟩ := act_pal false B (F.act true R0)
    have b2 := bg_spec B curB stB idxB hCB ic k hidxB hnoneB hbB (F.act true R0) dp1 hb1
    refine ⟨?_, b2, dp1.mono p2, List.IsPrefix.trans p1 p2, by omega, ?_⟩
    · rw [actBg_fg]; exact f1.mono dp1 p2
    · rw [act_fl, act_fl]
  · subst hR
    obtain ⟨p1, l1⟩ := act_pal false B R0
    have dp1 : DosPre (B.act false R0).2 := hp.mono p1
    have b1 := bg_spec B curB stB idxB hCB ic k hidxB hnoneB hbB R0 hp holdB
    have hf1 : F = .keep → FgRel b stF fgIdx0 (B.act false R0).1.fg (B.act false R0).2 := by
      intro hk; rw [actBg_fg]; exact (holdF hk).mono hp p1
    obtain ⟨p2, l2⟩ := act_pal true F (B.act false R0)
    have f2 := fg_spec F curF stF idxF hCF b fgIdx0 fgc hidxF hnoneF hbF (B.act false R0) dp1 hf1
    refine ⟨f2, ?_, dp1.mono p2, List.IsPrefix.trans p1 p2, by omega, ?_⟩
    · rw [actFg_bg]; exact b1.mono dp1 p2
    · rw [act_fl, act_fl]

/-! ### the target of a cell on an arbitrary palette -/

theorem tgt_cur (pal : List Rgb) (im : IceMode) (attr : Attr) :
    (gcTarget pal im attr).curFore = getRgb pal (dispFg attr) ∧ (gcTarget pal im attr).curBack = getRgb pal attr.bg ∧
    (gcTarget pal im attr).faint = attr.fl.faint ∧ (gcTarget pal im attr).italic = attr.fl.italic ∧
    (gcTarget pal im attr).underline = attr.fl.underline ∧ (gcTarget pal im attr).dunderline = attr.fl.dunderline ∧
    (gcTarget pal im attr).crossed = attr.fl.crossed ∧ (gcTarget pal im attr).conceal = attr.fl.conceal :=
  ⟨rfl, rfl, rfl, rfl, rfl, rfl, rfl, rfl⟩

theorem tgt_fore (pal : List Rgb) (im : IceMode) (attr : Attr) :
    (∀ i0, dosIndex (gcTarget pal im attr).curFore = some i0 →
      (gcTarget pal im attr).foreIdx = some (if i0 < 8 then i0 else i0 - 8) ∧ (gcTarget pal im attr).bold = decide (8 ≤ i0)) ∧
    (dosIndex (gcTarget pal im attr).curFore = none →
      (gcTarget pal im attr).foreIdx = none ∧ (gcTarget pal im attr).bold = attr.fl.bold) := by
  have e : (gcTarget pal im attr).curFore = getRgb pal (dispFg attr) := rfl
  rw [e]
  refine ⟨?_, ?_⟩
  · intro i0 h
    unfold gcTarget
    simp only []
    have e2 : dosIndex (getRgb pal (if (attr.fl.bold && decide (attr.fg < 8)) = true then attr.fg + 8 else attr.fg)) = some i0 := h
    rw [e2]
    by_cases h8 : i0 < 8
    · have : ¬ (8 ≤ i0) := by omega
      simp [h8, this]
    · have : 8 ≤ i0 := by omega
      simp [h8, this]
  · intro h
    unfold gcTarget
    simp only []
    have e2 : dosIndex (getRgb pal (if (attr.fl.bold && decide (attr.fg < 8)) = true then attr.fg + 8 else attr.fg)) = none := h
    rw [e2]
    exact ⟨rfl, rfl⟩

theorem tgt_back (pal : List Rgb) (im : IceMode) (attr : Attr) :
    (∀ i0, dosIndex (gcTarget pal im attr).curBack = some i0 →
      (im = .ice → (gcTarget pal im attr).backIdx = some (if i0 < 8 then i0 else i0 - 8) ∧
        (gcTarget pal im attr).blink = (if i0 < 8 then attr.fl.blink else true)) ∧
      (im ≠ .ice → (gcTarget pal im attr).backIdx = (if 7 < i0 then none else some i0) ∧
        (gcTarget pal im attr).blink = attr.fl.blink)) ∧
    (dosIndex (gcTarget pal im attr).curBack = none →
      (gcTarget pal im attr).backIdx = none ∧ (gcTarget pal im attr).blink = attr.fl.blink) := by
  have e : (gcTarget pal im attr).curBack = getRgb pal attr.bg := rfl
  rw [e]
  refine ⟨?_, ?_⟩
  · intro i0 h
    unfold gcTarget
    simp only []
    rw [h]
    cases im with
    | ice =>
      refine ⟨fun _ => ?_, fun q => absurd rfl q⟩
      by_cases h8 : i0 < 8 <;> simp [h8]
    | blink => exact ⟨fun q => (by cases q), fun _ => ⟨rfl, rfl⟩⟩
    | unlimited => exact ⟨fun q => (by cases q), fun _ => ⟨rfl, rfl⟩⟩
  · intro h
    unfold gcTarget
    simp only []
    rw [h]
    cases im <;> exact ⟨rfl, rfl⟩

/-! ### `sgr_syncX` -/

/-- the cells `ansi_rt_partial₄` speaks about: ANY colour indices (resolved through the picture's palette); in iCE mode
    cells do not blink; the two attribute bits the writer never emits are clear -/
def AttrX (ic : Bool) (a : Attr) : Prop := (ic = true → a.fl.blink = false) ∧ a.fl.overline = false ∧ a.fl.invisible = false

/-- what one cell's `get_color` output does to the reader -/
structure SyncX (ic : Bool) (pal : List Rgb) (attr : Attr) (P0 : List Rgb) (g : AnsiState × List Nat × List Nat) (R : RdSt) : Prop where
  lt : ∀ n ∈ g.2.1, n < 1000
  lttc : ∀ n ∈ g.2.2, n < 1000
  rel : RelX ic g.1.isBlink g.1 R.1 R.2
  pre : P0 <+: R.2
  len : R.2.length ≤ P0.length + 2
  fgc : g.1.fg = getRgb pal (dispFg attr)
  bgc : g.1.bg = getRgb pal attr.bg
  blk : ic = false → g.1.isBlink = attr.fl.blink

theorem colOut_ok_lt (C : ColOut) (cur st : Rgb) (idx : Option Nat) (hC : ColFacts C cur st idx) (hd : ∀ i, idx = some i → i < 8)
    (hb : cur.1 < 256 ∧ cur.2.1 < 256 ∧ cur.2.2 < 256) (base k : Nat) (hbase : base ≤ 40) (hk : k ≤ 1) :
    C.Ok ∧ (∀ n ∈ C.sgr base, n < 1000) ∧ (∀ n ∈ C.tcs k, n < 1000) := by
  cases C with
  | keep => exact ⟨trivial, by simp [ColOut.sgr], by simp [ColOut.tcs]⟩
  | dos i =>
    have hi := hd i (hC.dos i rfl)
    have : ∀ j < 8, colorOffsets.getD j 0 ≤ 7 := by decide
    have := this i hi
    refine ⟨hi, ?_, by simp [ColOut.tcs]⟩
    intro n hn
    change n ∈ [colorOffsets.getD i 0 + base] at hn
    rw [List.mem_singleton] at hn
    omega
  | x256 e =>
    obtain ⟨_, he, _⟩ := hC.x256 e rfl
    refine ⟨he, ?_, by simp [ColOut.tcs]⟩
    intro n hn
    simp [ColOut.sgr] at hn
    omega
  | tc c =>
    obtain ⟨_, hc⟩ := hC.tc c rfl
    subst hc
    refine ⟨trivial, by simp [ColOut.sgr], ?_⟩
    intro n hn
    simp [ColOut.tcs] at hn
    omega

theorem sgr_syncX (o : AnsiOpts) (pal : List Rgb) (hpal : PalBytes pal) (im : IceMode) (attr : Attr)
    (ha : AttrX (decide (im = .ice)) attr) (st : AnsiState) (A0 : Attr) (P0 : List Rgb)
    (h : RelX (decide (im = .ice)) st.isBlink st A0 P0) :
    SyncX (decide (im = .ice)) pal attr P0 (getColor o pal im attr st)
      (rdPre (A0, P0) (getColor o pal im attr st).2.1 (getColor o pal im attr st).2.2) := by
  have hice : ∀ q : Bool, decide (im = IceMode.ice) = q → (q = true ↔ im = .ice) := by
    intro q hq; subst hq; simp
  generalize hic : decide (im = IceMode.ice) = ic at ha h ⊢
  have hicm := hice ic hic
  obtain ⟨hblk, hov, hinv⟩ := ha
  unfold getColor
  simp only []
  generalize ht : gcTarget pal im attr = t
  obtain ⟨c1, c2, c3, c4, c5, c6, c7, c8⟩ := tgt_cur pal im attr
  obtain ⟨tf1, tf2⟩ := tgt_fore pal im attr
  obtain ⟨tb1, tb2⟩ := tgt_back pal im attr
  rw [ht] at c1 c2 c3 c4 c5 c6 c7 c8 tf1 tf2 tb1 tb2
  obtain ⟨I0, M0, N0⟩ := gcReset_invX ic t st A0 P0 h
  have I1 := afterFlags_invX t A0 P0 ic _ _ N0 I0
  have F1 := afterFlags_flags t _ M0
  show SyncX ic pal attr P0 (gcBg o t (gcFg o t (afterFlags t (gcReset t st)))) (rdPre (A0, P0) (gcBg o t (gcFg o t (afterFlags t (gcReset t st)))).2.1
    (gcBg o t (gcFg o t (afterFlags t (gcReset t st)))).2.2)
  generalize hx1 : afterFlags t (gcReset t st) = x1 at I1 F1
  have hbold : x1.1.isBold = t.bold := by
    have := congrArg Flags.bold F1
    simpa only [stFlags] using this
  have hblink : x1.1.isBlink = t.blink := by
    have := congrArg Flags.blink F1
    simpa only [stFlags] using this
  obtain ⟨y1, y2, y3, y4, _, y6, y7⟩ := gcFg_eq o t x1
  generalize hy : gcFg o t x1 = y at y1 y2 y3 y4 y6 y7
  obtain ⟨z1, z2, z3, z4, z5, z6⟩ := gcBg_eq o t y
  generalize hz : gcBg o t y = z at z1 z2 z3 z4 z5 z6
  rw [y4] at z1 z2
  generalize hF : colDecide o.useExtendedColors t.curFore x1.1.fg t.foreIdx = F at y1 y2 y7
  generalize hB : colDecide o.useExtendedColors t.curBack x1.1.bg t.backIdx = B at z1 z2
  have hCF : ColFacts F t.curFore x1.1.fg t.foreIdx := by rw [← hF]; exact colDecide_facts _ _ _ _
  have hCB : ColFacts B t.curBack x1.1.bg t.backIdx := by rw [← hB]; exact colDecide_facts _ _ _ _
  have hbF : t.curFore.1 < 256 ∧ t.curFore.2.1 < 256 ∧ t.curFore.2.2 < 256 := by rw [c1]; exact getRgb_bytes hpal _
  have hbB : t.curBack.1 < 256 ∧ t.curBack.2.1 < 256 ∧ t.curBack.2.2 < 256 := by rw [c2]; exact getRgb_bytes hpal _
  -- the foreground index the writer pushes
  have hidxF : ∀ i, t.foreIdx = some i → ∃ i0, dosIndex t.curFore = some i0 ∧ i = (if i0 < 8 then i0 else i0 - 8) ∧ t.bold = decide (8 ≤ i0) := by
    intro i hi
    cases hd : dosIndex t.curFore with
    | none => rw [(tf2 hd).1] at hi; cases hi
    | some i0 =>
      obtain ⟨q1, q2⟩ := tf1 i0 hd
      rw [q1] at hi
      simp only [Option.some.injEq] at hi
      exact ⟨i0, rfl, hi.symm, q2⟩
  have hnoneF : t.foreIdx = none → dosIndex t.curFore = none := by
    intro hn
    cases hd : dosIndex t.curFore with
    | none => rfl
    | some i0 => rw [(tf1 i0 hd).1] at hn; cases hn
  have hidxB : ∀ i, t.backIdx = some i → ∃ i0, dosIndex t.curBack = some i0 ∧ i < 8 ∧ i + (if (ic && t.blink) = true then 8 else 0) = i0 := by
    intro i hi
    cases hd : dosIndex t.curBack with
    | none => rw [(tb2 hd).1] at hi; cases hi
    | some i0 =>
      obtain ⟨i16, _⟩ := dosIndex_some hd
      obtain ⟨q1, q2⟩ := tb1 i0 hd
      refine ⟨i0, rfl, ?_⟩
      cases hq : ic with
      | true =>
        have him : im = .ice := hicm.1 hq
        obtain ⟨r1, r2⟩ := q1 him
        rw [r1] at hi
        simp only [Option.some.injEq] at hi
        rw [r2, hblk hq]
        by_cases h8 : i0 < 8
        · simp [h8] at hi ⊢; omega
        · simp [h8] at hi ⊢; omega
      | false =>
        have him : im ≠ .ice := by intro q; have := hicm.2 q; rw [hq] at this; cases this
        obtain ⟨r1, _⟩ := q2 him
        rw [r1] at hi
        by_cases h7 : 7 < i0
        · simp [h7] at hi
        · simp [h7] at hi ⊢; omega
  have hnoneB : t.backIdx = none → ∀ j < 8, getRgb dosPalette j ≠ t.curBack := by
    intro hn j hj e
    cases hd : dosIndex t.curBack with
    | none => exact dosIndex_none hd j (by omega) e
    | some i0 =>
      obtain ⟨q1, q2⟩ := tb1 i0 hd
      have hj2 := dos_index j (by omega)
      rw [e, hd] at hj2
      simp only [Option.some.injEq] at hj2
      subst hj2
      by_cases him : im = .ice
      · rw [(q1 him).1] at hn; cases hn
      · rw [(q2 him).1] at hn
        have : ¬ (7 < i0) := by omega
        simp [this] at hn
  obtain ⟨okF, ltF, lttcF⟩ := colOut_ok_lt F t.curFore x1.1.fg t.foreIdx hCF
    (by intro i hi; obtain ⟨i0, d1, d2, _⟩ := hidxF i hi; obtain ⟨i16, _⟩ := dosIndex_some d1; rw [d2]; split <;> omega) hbF 30 1 (by omega) (by omega)
  obtain ⟨okB, ltB, lttcB⟩ := colOut_ok_lt B t.curBack x1.1.bg t.backIdx hCB
    (by intro i hi; obtain ⟨i0, _, d2, _⟩ := hidxB i hi; exact d2) hbB 40 0 (by omega) (by omega)
  -- the reader
  have hrd := rdPre_eq x1.2 I1.simple F B okF okB A0 P0
  rw [y1] at z1
  rw [y2] at z2
  rw [← z1, ← z2] at hrd
  rw [hrd]
  have hord := chain_order F B (sgrSimple A0 x1.2, P0)
  generalize B.tcAct false (F.tcAct true (B.sgrAct false (F.sgrAct true (sgrSimple A0 x1.2, P0)))) = R at hord ⊢
  have hrel := I1.rel
  -- the background relation under the blink flag now in force
  have holdB : B = .keep → BgRel ic t.blink x1.1.bg (sgrSimple A0 x1.2).bg P0 := by
    intro hk
    have hkeep := hCB.keep hk
    obtain ⟨l1, l2⟩ := hrel.bg
    refine ⟨l1, ?_⟩
    rw [l2]
    congr 1
    cases hq : ic with
    | false => simp
    | true =>
      have him : im = .ice := hicm.1 hq
      by_cases a8 : (sgrSimple A0 x1.2).bg < 8
      · cases hkb : (gcReset t st).1.isBlink with
        | true =>
          have := M0.blink hkb
          simp [this]
        | false =>
          -- the colour in force is a dark DOS colour: the cell does not ask for blink
          have e1 : x1.1.bg = getRgb dosPalette (sgrSimple A0 x1.2).bg := by
            rw [l2, hq, hkb]
            simp only [Bool.and_false, Bool.false_and, Bool.false_eq_true, if_false]
            exact hrel.dp.get (by omega)
          have e2 : dosIndex t.curBack = some (sgrSimple A0 x1.2).bg := by
            rw [hkeep, e1]; exact dos_index _ (by omega)
          have := ((tb1 _ e2).1 him).2
          rw [if_pos a8, hblk hq] at this
          simp [this]
      · simp [a8]
  have hdone := both_actions F B t.curFore x1.1.fg t.curBack x1.1.bg t.foreIdx t.backIdx hCF hCB ic t.blink t.bold x1.1.fgIdx t.fgc
    hidxF hnoneF hbF hidxB hnoneB hbB (sgrSimple A0 x1.2, P0) hrel.dp
    (fun _ => by have := hrel.fg; rw [hbold] at this; exact this) holdB R hord
  have zfl : stFlags z.1 = stFlags x1.1 := by rw [z6, y6]
  have zbold : z.1.isBold = t.bold := by
    have := congrArg Flags.bold zfl
    simp only [stFlags] at this
    rw [this, hbold]
  have zblink : z.1.isBlink = t.blink := by
    have := congrArg Flags.blink zfl
    simp only [stFlags] at this
    rw [this, hblink]
  refine ⟨?_, ?_, ⟨?_, hdone.dp, ?_, ?_⟩, hdone.pre, hdone.len, ?_, ?_, ?_⟩
  · intro n hn
    rw [z1] at hn
    rcases List.mem_append.1 hn with h1 | h1
    · rcases List.mem_append.1 h1 with h2 | h2
      · exact (I1.simple n h2).2
      · exact ltF n h2
    · exact ltB n h1
  · intro n hn
    rw [z2] at hn
    rcases List.mem_append.1 hn with h1 | h1
    · exact lttcF n h1
    · exact lttcB n h1
  · rw [hdone.fl, zfl]; exact hrel.fl
  · rw [zbold, z4, y3, z5, y7]; exact hdone.fg
  · rw [zblink, z3]; exact hdone.bg
  · rw [z4, y3, c1]
  · rw [z3, c2]
  · intro hq
    rw [zblink]
    cases hd : dosIndex t.curBack with
    | none => exact (tb2 hd).2
    | some i0 =>
      have him : im ≠ .ice := by intro q; have := hicm.2 q; rw [hq] at this; cases this
      exact ((tb1 i0 hd).2 him).2

end IcyVerif.ArtIO
