import IcyVerif.Lemmas.BgiFill3
import IcyVerif.Lemmas.BgiTotal
set_option linter.unusedSimpArgs false
set_option linter.unusedVariables false
/-! Lemmas about the flood-fill model, part 4: the whole command.  On a complete 640 x 350 canvas, for every viewport a
RIP stream can set, every seed and every border colour: the collecting phase neither panics nor stalls, its step count
is bounded by a function of the canvas size, and the drawing pass (one `bar` per span) keeps the canvas complete. -/
namespace IcyVerif.Bgi

/-- steps of the collecting phase: the pixels `find_line` reads for the seed + 672002 worklist entries, each costing
one step + at most 640 scan iterations of at most 1 + 1280 steps -/
def ffBound : Nat := 1280 + 672002 * 819841

/-- `bar_rect` changes nothing but the screen -/
theorem barRectCost_frame {s s' : Bgi} {r : Rect} {n : Nat} (h : barRectCost s r = some (s', n)) :
    ∃ scr, s' = { s with screen := scr } := by
  unfold barRectCost at h
  split at h
  · cases h
  · split at h
    · cases h; exact ⟨s.screen, rfl⟩
    · split at h
      · cases h
      · split at h
        · cases h
        · split at h
          · cases h
          · split at h
            · simp only [] at h
              split at h
              · cases h
              · cases h; exact ⟨_, rfl⟩
            · simp only [] at h
              split at h
              · cases h
              · cases h; exact ⟨_, rfl⟩

theorem barRect_frame {s s' : Bgi} {r : Rect} (h : barRect s r = some s') : ∃ scr, s' = { s with screen := scr } := by
  unfold barRect at h
  cases hc : barRectCost s r with
  | none => simp [hc] at h
  | some res =>
    obtain ⟨s1, n⟩ := res
    simp [hc] at h
    subst h
    exact barRectCost_frame hc

theorem bar_frame {s s' : Bgi} {l t r b : Int} (h : bar s l t r b = some s') : ∃ scr, s' = { s with screen := scr } := by
  unfold bar at h
  split at h
  · split at h
    · exact barRect_frame h
    · cases h
  · cases h

/-- `bar` cannot panic in a stream state for corner coordinates within ±2^20 (see `bar_no_panic` in Props/C20) -/
theorem bar_total (s : Bgi) (hs : StreamState s) (l t r b : Int)
    (hl : -1048576 ≤ l ∧ l ≤ 1048576) (ht : -1048576 ≤ t ∧ t ≤ 1048576)
    (hr : -1048576 ≤ r ∧ r ≤ 1048576) (hb : -1048576 ≤ b ∧ b ≤ 1048576) :
    ∃ s', bar s l t r b = some s' := by
  unfold bar
  rw [chk_of_range (v := r - l) (by simp only [i32Min]; omega) (by simp only [i32Max]; omega)]
  rw [chk_of_range (v := b - t) (by simp only [i32Min]; omega) (by simp only [i32Max]; omega)]
  simp only []
  rw [chk_of_range (v := r - l + 1) (by simp only [i32Min]; omega) (by simp only [i32Max]; omega)]
  rw [chk_of_range (v := b - t + 1) (by simp only [i32Min]; omega) (by simp only [i32Max]; omega)]
  simp only []
  exact barRect_total s hs ⟨l, t, r - l + 1, b - t + 1⟩ hl ht (by simp only []; omega) (by simp only []; omega)

/-- what the drawing pass needs and keeps: a stream state with a complete screen -/
def DrawState (s : Bgi) : Prop := StreamState s ∧ s.winH = 350 ∧ s.screen.size = 224000

theorem drawState_bar {s s' : Bgi} {l t r b : Int} (hd : DrawState s) (h : bar s l t r b = some s') : DrawState s' := by
  obtain ⟨scr, he⟩ := bar_frame h
  have hsz := (bar_size h).1
  subst he
  obtain ⟨hs, hh, hz⟩ := hd
  exact ⟨hs, hh, by rw [hsz, hz]⟩

theorem drawSpans_ok : ∀ (row : List LI) (r : Nat) (s : Bgi), DrawState s → (∀ li, li ∈ row → LIok li r) → r < 350 →
    ∃ s', drawSpans s row = some s' ∧ DrawState s' := by
  intro row
  induction row with
  | nil => intro r s hd _ _; exact ⟨s, rfl, hd⟩
  | cons li t ih =>
    intro r s hd hrow hr
    obtain ⟨l1, l2, l3, l4, l5⟩ := hrow li (List.mem_cons_self)
    obtain ⟨s1, h1⟩ := bar_total s hd.1 li.x1 li.y li.x2 li.y (by omega) (by omega) (by omega) (by omega)
    unfold drawSpans
    rw [h1]
    simp only []
    exact ih r s1 (drawState_bar hd h1) (fun l hl => hrow l (List.mem_cons_of_mem _ hl)) hr

theorem drawRows_ok : ∀ (rows : List (List LI)) (k : Nat) (s : Bgi), DrawState s →
    (∀ (i : Nat) (row : List LI), rows[i]? = some row → ∀ li, li ∈ row → LIok li (k + i)) → k + rows.length ≤ 350 →
    ∃ s', drawRows s rows = some s' ∧ DrawState s' := by
  intro rows
  induction rows with
  | nil => intro k s hd _ _; exact ⟨s, rfl, hd⟩
  | cons row t ih =>
    intro k s hd hrows hk
    simp only [List.length_cons] at hk
    have h0 := hrows 0 row (by simp)
    obtain ⟨s1, h1, hd1⟩ := drawSpans_ok row.reverse k s hd (fun li hli => by simpa using h0 li (List.mem_reverse.mp hli)) (by omega)
    unfold drawRows
    rw [h1]
    simp only []
    apply ih (k + 1) s1 hd1
    · intro i r hr li hli
      have := hrows (i + 1) r (by simpa using hr) li hli
      have e : k + (i + 1) = k + 1 + i := by omega
      rw [e] at this
      exact this
    · omega

/-- the collecting phase: total, bounded, and the span lists are well formed -/
theorem ffCollect_spec (s : Bgi) (hd : DrawState s) (x y : Int) (b : Nat) :
    ∃ fl n, ffCollect s x y b = .ok (fl, n) ∧ n ≤ ffBound ∧ (fl = #[] ∨ FlOk fl) ∧ spans fl ≤ 224001 := by
  obtain ⟨⟨hW, v1, v2, v3, v4, v5, v6, v7, v8, hup, hfs⟩, hH, hsz⟩ := hd
  have hempty : spans (#[] : Array (List LI)) ≤ 224001 := by unfold spans; simp
  unfold ffCollect Rect.intersect Rect.bottomRight
  simp only [hW, hH]
  rw [chk_of_range (v := s.vp.x + s.vp.w) (by simp only [i32Min]; omega) (by simp only [i32Max]; omega)]
  rw [chk_of_range (v := s.vp.y + s.vp.h) (by simp only [i32Min]; omega) (by simp only [i32Max]; omega)]
  rw [chk_of_range (v := (0 : Int) + 640) (by simp only [i32Min]; omega) (by simp only [i32Max]; omega)]
  rw [chk_of_range (v := (0 : Int) + 350) (by simp only [i32Min]; omega) (by simp only [i32Max]; omega)]
  simp only []
  rw [chk_of_range (v := min (s.vp.x + s.vp.w) (0 + 640) - max s.vp.x 0) (by simp only [i32Min]; omega) (by simp only [i32Max]; omega)]
  rw [chk_of_range (v := min (s.vp.y + s.vp.h) (0 + 350) - max s.vp.y 0) (by simp only [i32Min]; omega) (by simp only [i32Max]; omega)]
  simp only []
  by_cases hx : x < max s.vp.x 0
  · simp only [hx, if_true]
    exact ⟨#[], 0, rfl, Nat.zero_le _, Or.inl rfl, hempty⟩
  · simp only [hx, if_false]
    rw [chk_of_range (v := max s.vp.x 0 + (min (s.vp.x + s.vp.w) (0 + 640) - max s.vp.x 0)) (by simp only [i32Min]; omega) (by simp only [i32Max]; omega)]
    rw [chk_of_range (v := max s.vp.y 0 + (min (s.vp.y + s.vp.h) (0 + 350) - max s.vp.y 0)) (by simp only [i32Min]; omega) (by simp only [i32Max]; omega)]
    simp only []
    by_cases hout : x ≥ max s.vp.x 0 + (min (s.vp.x + s.vp.w) (0 + 640) - max s.vp.x 0) ∨ y < max s.vp.y 0 ∨
        y ≥ max s.vp.y 0 + (min (s.vp.y + s.vp.h) (0 + 350) - max s.vp.y 0)
    · simp only [hout, if_true]
      exact ⟨#[], 0, rfl, Nat.zero_le _, Or.inl rfl, hempty⟩
    · simp only [hout, if_false]
      have hx0 : 0 ≤ x := by omega
      have hx1 : x ≤ 639 := by omega
      have hy0 : 0 ≤ y := by omega
      have hy1 : y < 350 := by omega
      have hctx : FillCtx s := ⟨hW, hH, hsz, by omega, by omega⟩
      have hneg : ¬ ((350 : Int) < 0) := by omega
      simp only [hneg, if_false]
      have h350 : (350 : Int).toNat = 350 := rfl
      rw [h350]
      rw [chk_of_range (v := y * 640) (by simp only [i32Min]; omega) (by simp only [i32Max]; omega)]
      simp only []
      rw [chk_of_range (v := y * 640 + x) (by simp only [i32Min]; omega) (by simp only [i32Max]; omega)]
      simp only []
      obtain ⟨v, hv⟩ := scrAt_some (scr := s.screen) (i := y * 640 + x) (by omega) (by rw [hsz]; omega)
      rw [hv]
      simp only []
      have hrep : spans (Array.replicate 350 ([] : List LI)) ≤ 224001 := by rw [spans_replicate]; omega
      by_cases hb : v = b
      · simp only [hb, if_true]
        exact ⟨_, 0, rfl, Nat.zero_le _, Or.inr flOk_replicate, hrep⟩
      · simp only [hb, if_false]
        obtain ⟨r, c, hfind, hcle, hli⟩ := findLine_spec hctx x y b hx0 hx1 hy0 hy1
        rw [hfind]
        cases r with
        | none =>
          simp only []
          exact ⟨_, c, rfl, by unfold ffBound; omega, Or.inr flOk_replicate, hrep⟩
        | some li =>
          simp only []
          obtain ⟨l1, l2, l3, l4, l5, l6⟩ := hli li rfl
          obtain ⟨fl1, hpush, hfl1, hsp, hun, _⟩ := pushLine_ok flOk_replicate li y.toNat (by omega) ⟨by omega, l2, by omega, l4, by omega⟩
          rw [hpush]
          simp only []
          have hfu : ffFuel s = 672002 := by unfold ffFuel; rw [hW, hH]; rfl
          rw [hfu]
          have hunc := unc_le hfl1.1
          have hunc0 := unc_le flOk_replicate.1
          obtain ⟨fl', n', e, a1, a2, a3⟩ := ffOuter_spec hctx b (max s.vp.y 0)
            (max s.vp.y 0 + (min (s.vp.y + s.vp.h) (0 + 350) - max s.vp.y 0)) (by omega) (by omega) 672002
            [⟨-1, li.x1, li.x2, li.y⟩, ⟨1, li.x1, li.x2, li.y⟩] fl1 c hfl1
            (by
              intro f hf
              simp only [List.mem_cons, List.mem_nil_iff, or_false] at hf
              rcases hf with h | h
              · subst h; exact ⟨l2, l5, Or.inr rfl, by dsimp only; omega, by dsimp only; omega⟩
              · subst h; exact ⟨l2, l5, Or.inl rfl, by dsimp only; omega, by dsimp only; omega⟩)
            (by simp only [List.length_cons, List.length_nil]; omega)
          rw [e]
          refine ⟨fl', n', rfl, by unfold ffBound; omega, Or.inr a1, ?_⟩
          rw [spans_replicate] at hsp
          omega

/-- `flood_fill` as a whole -/
theorem floodFill_spec (s : Bgi) (hd : DrawState s) (x y : Int) (b : Nat) :
    ∃ s' n k, floodFill s x y b = .ok (s', n, k) ∧ DrawState s' ∧ n ≤ ffBound ∧ k ≤ 224001 := by
  obtain ⟨fl, n, hc, hn, hfl, hk⟩ := ffCollect_spec s hd x y b
  unfold floodFill
  rw [hc]
  simp only []
  have hdraw : ∃ s', drawRows s fl.toList = some s' ∧ DrawState s' := by
    rcases hfl with h | h
    · subst h; exact ⟨s, rfl, hd⟩
    · apply drawRows_ok fl.toList 0 s hd
      · intro i row hrow li hli
        have : fl[i]? = some row := by simpa using hrow
        simpa using h.2 i row this li hli
      · simp [h.1]
  obtain ⟨s', hs', hd'⟩ := hdraw
  rw [hs']
  exact ⟨s', n, _, rfl, hd', hn, hk⟩

end IcyVerif.Bgi
