import IcyVerif.Lemmas.TermPrim
set_option linter.unusedSimpArgs false
set_option linter.unusedVariables false
namespace IcyVerif.Term

/-- the state invariant: sizes/margins sane, cursor non-negative and near the buffer, and — as long as no
    text-area resize was executed — inside the visible screen (C09) -/
def GoodSt (st : St) : Prop :=
  ScrOk st.s ∧ CurOk st.s st.c ∧ (st.p.resized = false → InScr st.s st.c)

abbrev GoodR (r : St × Out) : Prop := GoodSt r.1

theorem scrOk_mtb (s : Scr) (m : Option (Int × Int)) (h : ScrOk s)
    (hm : ∀ t b, m = some (t, b) → 0 ≤ t ∧ t ≤ b ∧ b < s.th) : ScrOk { s with mtb := m } :=
  ⟨h.tw1, h.tw2, h.th1, h.th2, h.bh0, hm, h.mlr⟩
theorem scrOk_mlr (s : Scr) (m : Option (Int × Int)) (h : ScrOk s)
    (hm : ∀ l r, m = some (l, r) → 0 ≤ l ∧ l ≤ r ∧ r < s.tw) : ScrOk { s with mlr := m } :=
  ⟨h.tw1, h.tw2, h.th1, h.th2, h.bh0, h.mtb, hm⟩

theorem setMarginsTB_ok (s : Scr) (a b : Int) (h : ScrOk s) : ScrOk (setMarginsTB s a b) := by
  unfold setMarginsTB
  apply scrOk_mtb s _ h
  intro t e he
  split at he
  · cases he
  · simp only [Option.some.injEq, Prod.mk.injEq] at he
    omega
theorem setMarginsLR_ok (s : Scr) (a b : Int) (h : ScrOk s) : ScrOk (setMarginsLR s a b) := by
  unfold setMarginsLR
  apply scrOk_mlr s _ h
  intro t e he
  split at he
  · cases he
  · simp only [Option.some.injEq, Prod.mk.injEq] at he
    omega

theorem resetTerminal_ok (s : Scr) (h : ScrOk s) : ScrOk (resetTerminal s) :=
  ⟨h.tw1, h.tw2, h.th1, h.th2, h.bh0, fun t b hh => by simp [resetTerminal] at hh, fun t b hh => by simp [resetTerminal] at hh⟩

/-- geometry facts that only depend on sizes are untouched by margin/mode/tab changes -/
theorem fv_congr (s s' : Scr) (h1 : s'.bh = s.bh) (h2 : s'.th = s.th) : s'.fv = s.fv := by
  unfold Scr.fv; rw [h1, h2]

theorem curOk_congr (s s' : Scr) (c : Car) (h1 : s'.bh = s.bh) : CurOk s c → CurOk s' c := by
  unfold CurOk; rw [h1]; exact id

theorem inScr_congr (s s' : Scr) (c : Car) (h1 : s'.bh = s.bh) (h2 : s'.th = s.th) (h3 : s'.tw = s.tw) :
    InScr s c → InScr s' c := by
  unfold InScr; rw [fv_congr s s' h1 h2, h1, h2, h3]; exact id

/-- a state that differs only in parser fields other than `resized` -/
theorem good_keep (st : St) (p' : Par) (h : GoodSt st) (hr : p'.resized = st.p.resized) :
    GoodSt { s := st.s, c := st.c, p := p' } := by
  unfold GoodSt at *; simp only [hr]; exact h

/-- new screen with the same sizes (margins, modes, tabs may differ), same cursor -/
theorem good_scr (st : St) (s' : Scr) (p' : Par) (h : GoodSt st) (hk : ScrOk s') (h1 : s'.bh = st.s.bh) (h2 : s'.th = st.s.th)
    (h3 : s'.tw = st.s.tw) (hr : p'.resized = st.p.resized) : GoodSt { s := s', c := st.c, p := p' } := by
  obtain ⟨_, g2, g3⟩ := h
  refine ⟨hk, curOk_congr _ _ _ h1 g2, ?_⟩
  simp only [hr]; exact fun hh => inScr_congr _ _ _ h1 h2 h3 (g3 hh)

theorem bh_of_good (st : St) (h : GoodSt st) (hr : RangeOk st.s st.c) : st.s.bh ≤ 1073741854 :=
  rangeOk_bh _ _ h.1 hr

/-- any cursor, clamped by `limit`, gives a good state again -/
theorem liftC_limit_good (st d : St) (c0 : Car) (o : Out) (h : GoodSt st) (hb : st.s.bh ≤ 1073741854)
    (hs : d.s = st.s) (hr : d.p.resized = st.p.resized) :
    okAnd (liftC d (limit st.s c0) o) GoodR := by
  obtain ⟨g1, g2, g3⟩ := h
  have hl := limit_full st.s c0 g1 (by omega)
  cases hlc : limit st.s c0 with
  | error e => rw [hlc] at hl; exact hl.elim
  | ok c' =>
    rw [hlc] at hl
    obtain ⟨l1, l2, l3⟩ := hl
    simp only [liftC, ret, withC, okAnd_ok, GoodR, GoodSt, hs, hr]
    refine ⟨g1, l1, fun hh => l3 (g3 hh).1⟩

/-- a screen/cursor pair produced by lf / print_char / REP -/
theorem liftSC_good (st d : St) (r : Res (Scr × Car)) (o : Out) (h : GoodSt st)
    (hs : d.s = st.s) (hc : d.c = st.c) (hr : d.p.resized = st.p.resized)
    (hspec : okOrOv r (fun r => ScrStep st.s r.1 ∧ CurOk r.1 r.2 ∧ (InScr st.s st.c → InScr r.1 r.2))) :
    okOrOv (liftSC d r o) GoodR := by
  obtain ⟨g1, g2, g3⟩ := h
  cases r with
  | error e => exact hspec
  | ok p =>
    obtain ⟨s', c'⟩ := p
    obtain ⟨⟨e1, e2⟩, k2, k3⟩ := hspec
    simp only at e1 e2 k2 k3
    simp only [liftSC, ret, okOrOv_ok, GoodR, GoodSt, hr]
    refine ⟨?_, k2, fun hh => k3 (g3 hh)⟩
    rw [e1]; exact scrOk_bh _ _ g1 (by have := g1.bh0; omega)

theorem ret_okOrOv (st : St) (o : Out) (h : GoodSt st) : okOrOv (ret st o) GoodR := by
  simp only [ret, okOrOv_ok, GoodR]; exact h

theorem lf_step (s : Scr) (c : Car) (hk : ScrOk s) (hc : CurOk s c) (hb : s.bh ≤ 1073741854) :
    okOrOv (lf s c) (fun r => ScrStep s r.1 ∧ CurOk r.1 r.2 ∧ (InScr s c → InScr r.1 r.2)) := by
  apply okOrOv_of_okAnd
  refine okAnd_mono (lf_spec s c hk hc.2.2.1 hc.2.2.2 (by omega)) ?_
  intro r ⟨h1, h2, h3, h4, h5, h6⟩
  exact ⟨⟨h1, h2⟩, h4, fun hi => h6 ⟨hi.1, hi.2.2.1, hi.2.2.2⟩⟩

theorem printChar_step (s : Scr) (c : Car) (hk : ScrOk s) (hc : CurOk s c) (hb : s.bh ≤ 1073741854) :
    okOrOv (printChar s c) (fun r => ScrStep s r.1 ∧ CurOk r.1 r.2 ∧ (InScr s c → InScr r.1 r.2)) := by
  apply okOrOv_of_okAnd
  refine okAnd_mono (printChar_spec s c hk hc (by omega)) ?_
  intro r ⟨h1, h2, h3, h4, h5, h6⟩
  exact ⟨⟨h1, h2⟩, h4, h6⟩

theorem ff_good (st : St) (h : GoodSt st) : GoodSt { st with s := (ff st.s st.c).1, c := (ff st.s st.c).2 } := by
  obtain ⟨g1, g2, g3⟩ := h
  have := g1.tw1; have := g1.th1; have := g1.th2
  refine ⟨⟨g1.tw1, g1.tw2, g1.th1, g1.th2, ?_, ?_, ?_⟩, ?_, ?_⟩
  · simp only [ff, resetTerminal]; omega
  · intro t b hh; simp [ff, resetTerminal] at hh
  · intro t b hh; simp [ff, resetTerminal] at hh
  · simp only [ff, resetTerminal, CurOk]; omega
  · intro _
    simp only [ff, resetTerminal, InScr, Scr.fv, satSub, sat]; omega

theorem good_x (st : St) (p' : Par) (x' : Int) (h : GoodSt st) (hr : p'.resized = st.p.resized) (h0 : 0 ≤ x') (h1 : x' ≤ 132)
    (h2 : x' < st.s.tw ∨ x' ≤ st.c.x) :
    GoodSt { s := st.s, c := { x := x', y := st.c.y, ins := st.c.ins }, p := p' } := by
  obtain ⟨g1, ⟨c0, c1, c2, c3⟩, g3⟩ := h
  refine ⟨g1, ⟨h0, h1, c2, c3⟩, fun hh => ?_⟩
  obtain ⟨i1, i2, i3, i4⟩ := g3 (by rw [← hr]; exact hh)
  refine ⟨i1, ?_, i3, i4⟩
  show x' < st.s.tw
  omega

/-- cursor to the upper-left corner of the visible screen of a screen with the same sizes -/
theorem good_home (st : St) (s' : Scr) (p' : Par) (y : Int) (b : Bool) (h : GoodSt st) (hr : p'.resized = st.p.resized)
    (hk : ScrOk s') (h1 : s'.bh = st.s.bh) (h2 : s'.th = st.s.th) (h3 : s'.tw = st.s.tw) (hy : y = s'.fv)
    (hb : st.s.bh ≤ 1073741854) :
    GoodSt { s := s', c := { x := 0, y := y, ins := b }, p := p' } := by
  obtain ⟨g1, ⟨c0, c1, c2, c3⟩, g3⟩ := h
  have := g1.tw1; have := g1.th1; have := g1.th2; have := g1.bh0
  have hfv := fv_eq s' hk (by omega)
  subst hy
  refine ⟨hk, ?_, fun hh => ?_⟩
  · simp only [CurOk]; omega
  · obtain ⟨i1, i2, i3, i4⟩ := g3 (by rw [← hr]; exact hh)
    simp only [InScr]; omega

/-- clear screen / form feed: buffer back to the terminal size, cursor to (0,0) -/
theorem good_clear (st : St) (s' : Scr) (p' : Par) (b : Bool) (h : GoodSt st) (hk : ScrOk s') (h1 : s'.bh = s'.th) :
    GoodSt { s := s', c := { x := 0, y := 0, ins := b }, p := p' } := by
  have := hk.tw1; have := hk.th1; have := hk.th2
  refine ⟨hk, ?_, fun _ => ?_⟩
  · simp only [CurOk]; omega
  · simp only [InScr, Scr.fv, satSub, sat, h1]; omega

theorem clearScreen_ok (s : Scr) (c : Car) (h : ScrOk s) : ScrOk (clearScreen s c).1 :=
  ⟨h.tw1, h.tw2, h.th1, h.th2, h.th1, h.mtb, h.mlr⟩
theorem ff_ok (s : Scr) (c : Car) (h : ScrOk s) : ScrOk (ff s c).1 :=
  ⟨h.tw1, h.tw2, h.th1, h.th2, h.th1, fun t b hh => by simp [ff, resetTerminal] at hh, fun t b hh => by simp [ff, resetTerminal] at hh⟩

/-- CSI 8;h;w t: afterwards only the weak invariant is claimed (`resized` is set) -/
theorem good_resize (st : St) (p' : Par) (w h' : Int) (h : GoodSt st) (hr : p'.resized = true) :
    GoodSt { s := { st.s with tw := max (min w 132) 1, th := max (min h' 60) 1, tabs := resetTabs (max (min w 132) 1), mtb := none, mlr := none },
             c := st.c, p := p' } := by
  obtain ⟨g1, g2, g3⟩ := h
  refine ⟨⟨by simp only; omega, by simp only; omega, by simp only; omega, by simp only; omega, g1.bh0,
    fun t b hh => by simp at hh, fun t b hh => by simp at hh⟩, g2, fun hh => ?_⟩
  rw [hr] at hh; cases hh

theorem good_eol (st : St) (p' : Par) (h : GoodSt st) (hr : p'.resized = st.p.resized) :
    GoodSt { s := st.s, c := { x := st.s.tw - 1, y := st.c.y, ins := st.c.ins }, p := p' } := by
  have := h.1.tw1; have := h.1.tw2
  exact good_x st p' _ h hr (by omega) (by omega) (Or.inl (by omega))

theorem scrOk_modes (s : Scr) (aw dm : Bool) (tabs : List Int) (h : ScrOk s) :
    ScrOk { s with autowrap := aw, declrmm := dm, tabs := tabs } :=
  ⟨h.tw1, h.tw2, h.th1, h.th2, h.bh0, h.mtb, h.mlr⟩
theorem scrOk_nomargins (s : Scr) (aw dm : Bool) (tabs : List Int) (h : ScrOk s) :
    ScrOk { s with autowrap := aw, declrmm := dm, tabs := tabs, mtb := none, mlr := none } :=
  ⟨h.tw1, h.tw2, h.th1, h.th2, h.bh0, fun t b hh => by simp at hh, fun t b hh => by simp at hh⟩
theorem scrOk_nolr (s : Scr) (aw dm : Bool) (tabs : List Int) (h : ScrOk s) :
    ScrOk { s with autowrap := aw, declrmm := dm, tabs := tabs, mlr := none } :=
  ⟨h.tw1, h.tw2, h.th1, h.th2, h.bh0, h.mtb, fun t b hh => by simp at hh⟩

theorem rep_good (st d : St) (n : Nat) (o : Out) (h : GoodSt st) (hs : d.s = st.s) (hc : d.c = st.c)
    (hr : d.p.resized = st.p.resized) : okOrOv (liftSC d (printN n st.s st.c) o) GoodR := by
  apply liftSC_good st d _ o h hs hc hr
  refine okOrOv_mono (printN_spec n st.s st.c h.1 h.2.1) ?_
  intro r ⟨h1, h2, h3, h4⟩
  exact ⟨h1, h2, h4⟩

theorem okOrOv_ite {α : Type} {c : Prop} [Decidable c] {a b : Res α} {P : α → Prop}
    (ha : c → okOrOv a P) (hb : ¬ c → okOrOv b P) : okOrOv (if c then a else b) P := by
  by_cases h : c
  · rw [if_pos h]; exact ha h
  · rw [if_neg h]; exact hb h

macro "arm" : tactic => `(tactic| first
  | exact ret_okOrOv _ _ (good_keep _ _ (by assumption) rfl)
  | exact okOrOv_of_okAnd (liftC_limit_good _ _ _ _ (by assumption) (by assumption) rfl rfl)
  | exact ret_okOrOv _ _ (by assumption)
  | exact ret_okOrOv _ _ (good_scr _ _ _ (by assumption) (setMarginsLR_ok _ _ _ (by assumption)) rfl rfl rfl rfl)
  | exact ret_okOrOv _ _ (good_scr _ _ _ (by assumption) (setMarginsTB_ok _ _ _ (by assumption)) rfl rfl rfl rfl)
  | exact ret_okOrOv _ _ (good_scr _ _ _ (by assumption) (scrOk_modes _ _ _ _ (by assumption)) rfl rfl rfl rfl)
  | exact ret_okOrOv _ _ (good_scr _ _ _ (by assumption) (scrOk_nomargins _ _ _ _ (by assumption)) rfl rfl rfl rfl)
  | exact ret_okOrOv _ _ (good_scr _ _ _ (by assumption) (scrOk_nolr _ _ _ _ (by assumption)) rfl rfl rfl rfl)
  | exact rep_good _ _ _ _ (by assumption) rfl rfl rfl
  | exact ret_okOrOv _ _ (good_eol _ _ (by assumption) rfl)
  | exact ret_okOrOv _ _ (good_home _ _ _ _ _ (by assumption) rfl (setMarginsLR_ok _ _ _ (setMarginsTB_ok _ _ _ (by assumption))) rfl rfl rfl (fv_congr _ _ rfl rfl).symm (by assumption))
  | exact ret_okOrOv _ _ (good_home _ _ _ _ _ (by assumption) rfl (setMarginsTB_ok _ _ _ (by assumption)) rfl rfl rfl rfl (by assumption))
  | exact ret_okOrOv _ _ (good_clear _ _ _ _ (by assumption) (clearScreen_ok _ _ (by assumption)) rfl)
  | exact ret_okOrOv _ _ (good_x _ _ _ (by assumption) rfl (Int.le_refl 0) (by omega) (Or.inl (ScrOk.tw1 (by assumption))))
  | exact ret_okOrOv _ _ (good_resize _ _ _ _ (by assumption) rfl)
  | (exfalso; rename_i hh; exact not_echPanics _ _ _ (by assumption) hh)
  | (exfalso; rename_i hh; exact not_lineOpPanics _ _ (by assumption) (by assumption) hh)
  | (exfalso; rename_i hh; exact not_lineOpPanics _ _ (by assumption) (by assumption) hh.2))

theorem csiFinal_good (cfg : Cfg) (o : Orc) (st : St) (isStart : Bool) (ch : Char) (h : GoodSt st) (hb : st.s.bh ≤ 1073741854) :
    okOrOv (csiFinal cfg o st isStart ch) GoodR := by
  have ⟨g1, g2, g3⟩ := h
  have hx0 : 0 ≤ st.c.x := g2.1
  have hy0 : 0 ≤ st.c.y := g2.2.2.1
  unfold csiFinal
  simp only [left, right, up, down]
  repeat' (first | (apply okOrOv_ite <;> intro _) | split)
  all_goals arm

theorem dfltChar_good (cfg : Cfg) (st : St) (ch : Char) (h : GoodSt st) (hb : st.s.bh ≤ 1073741854) :
    okOrOv (dfltChar cfg st ch) GoodR := by
  have ⟨g1, g2, g3⟩ := h
  unfold dfltChar
  simp only []
  repeat' split
  · exact ret_okOrOv _ _ (good_keep st _ h rfl)
  · exact liftSC_good st st _ _ h rfl rfl rfl (lf_step _ _ g1 g2 hb)
  · exact ret_okOrOv _ _ (ff_good st h)
  · exact ret_okOrOv _ _ (good_x st st.p 0 h rfl (Int.le_refl 0) (by omega) (Or.inl g1.tw1))
  · exact ret_okOrOv _ _ h
  · exact ret_okOrOv _ _ h
  · exact ret_okOrOv _ _ (good_x st st.p _ h rfl (by omega) (by have := g2.2.1; omega) (Or.inr (by have := g2.1; omega)))
  · exact ret_okOrOv _ _ h
  · exact liftSC_good st st _ _ h rfl rfl rfl (printChar_step _ _ g1 g2 hb)


theorem numChar_good (st st' : St) (ch : Char) (h : GoodSt st) (he : numChar st ch = some st') : GoodSt st' := by
  unfold numChar at he
  split at he
  · cases he; exact good_keep st _ h rfl
  · split at he
    · cases he; exact good_keep st _ h rfl
    · cases he

macro "arm2" : tactic => `(tactic| first
  | arm
  | exact liftSC_good _ _ _ _ (by assumption) rfl rfl rfl (printChar_step _ _ (by assumption) (by assumption) (by assumption))
  | exact liftSC_good _ _ _ _ (by assumption) rfl rfl rfl (lf_step _ _ (by assumption) (by assumption) (by assumption))
  | exact ret_okOrOv _ _ (numChar_good _ _ _ (by assumption) (by assumption))
  | exact ret_okOrOv _ _ (good_clear _ _ _ _ (by assumption) (resetTerminal_ok _ (ff_ok _ _ (by assumption))) rfl)
  | exact ret_okOrOv _ _ (good_home _ _ _ _ _ (by assumption) rfl (resetTerminal_ok _ (by assumption)) rfl rfl rfl rfl (by assumption)))

theorem escChar_good (st : St) (ch : Char) (h : GoodSt st) (hb : st.s.bh ≤ 1073741854) :
    okOrOv (escChar st ch) GoodR := by
  have ⟨g1, g2, g3⟩ := h
  unfold escChar
  simp only [index, reverseIndex, nextLine]
  repeat' (first | (apply okOrOv_ite <;> intro _) | split)
  all_goals arm2

theorem csiCmd_good (st : St) (ch : Char) (h : GoodSt st) : okOrOv (csiCmd st ch) GoodR := by
  have ⟨g1, g2, g3⟩ := h
  unfold csiCmd
  simp only []
  repeat' (first | (apply okOrOv_ite <;> intro _) | split)
  all_goals arm2

theorem csiReq_good (st : St) (ch : Char) (h : GoodSt st) : okOrOv (csiReq st ch) GoodR := by
  have ⟨g1, g2, g3⟩ := h
  unfold csiReq setSpecificMargin
  simp only []
  repeat' (first | (apply okOrOv_ite <;> intro _) | split)
  all_goals arm2

theorem devAttr_good (st : St) (ch : Char) (h : GoodSt st) : okOrOv (devAttr st ch) GoodR := by
  have ⟨g1, g2, g3⟩ := h
  unfold devAttr
  repeat' (first | (apply okOrOv_ite <;> intro _) | split)
  all_goals arm2

theorem inv_ok (inv : Int → St → Res St) (id : Int) (d st' : St)
    (hinv : ∀ id st, GoodSt st → okOrOv (inv id st) GoodSt) (hh : inv id d = .ok st') (hd : GoodSt d) : GoodSt st' := by
  have := hinv id d hd
  rw [hh] at this; exact this
theorem inv_err (inv : Int → St → Res St) (id : Int) (d : St) (e : Panic)
    (hinv : ∀ id st, GoodSt st → okOrOv (inv id st) GoodSt) (hh : inv id d = .error e) (hd : GoodSt d) :
    okOrOv (.error e : R) GoodR := by
  have := hinv id d hd
  rw [hh] at this; exact this

theorem endCsi_good (o : Orc) (inv : Int → St → Res St) (st : St) (f ch : Char)
    (hinv : ∀ id st, GoodSt st → okOrOv (inv id st) GoodSt) (h : GoodSt st) :
    okOrOv (endCsi o inv st f ch) GoodR := by
  have ⟨g1, g2, g3⟩ := h
  unfold endCsi
  simp only []
  repeat' (first | (apply okOrOv_ite <;> intro _) | split)
  all_goals first | arm2
                  | (rename_i hh; exact ret_okOrOv _ _ (inv_ok inv _ _ _ hinv hh (good_keep st _ h rfl)))
                  | (rename_i hh; exact inv_err inv _ _ _ hinv hh (good_keep st _ h rfl))

theorem softReset_good (st : St) (h : GoodSt st) (hb : st.s.bh ≤ 1073741854) : GoodSt (softReset st) := by
  unfold softReset
  exact good_home st _ _ _ _ h rfl (resetTerminal_ok _ h.1) rfl rfl rfl rfl hb


theorem okOrOv_match_pair {α β : Type} (p : α × β) (f : α → β → R) (P : St × Out → Prop)
    (h : okOrOv (f p.1 p.2) P) : okOrOv (match p with | (a, b) => f a b) P := h

theorem executeDcs_resized (p : Par) (o : Orc) : (executeDcs p o).1.resized = p.resized := by
  unfold executeDcs
  repeat' split
  all_goals rfl

theorem stepCore_good (cfg : Cfg) (o : Orc) (inv : Int → St → Res St) (st : St) (ch : Char)
    (hinv : ∀ id st, GoodSt st → okOrOv (inv id st) GoodSt) (h : GoodSt st) :
    okOrOv (stepCore cfg o inv st ch) GoodR := by
  have ⟨g1, g2, g3⟩ := h
  unfold stepCore
  apply okOrOv_ite
  · intro _; exact ⟨_, rfl⟩
  · intro hr
    have hr' : RangeOk st.s st.c := (Classical.not_not.mp hr).1
    have hb := bh_of_good st h hr'
    split
    · -- music
      exact ret_okOrOv _ _ (good_keep st _ h rfl)
    · exact escChar_good st ch h hb
    · repeat' (first | (apply okOrOv_ite <;> intro _) | split)
      all_goals arm2
    · repeat' (first | (apply okOrOv_ite <;> intro _) | split)
      all_goals arm2
    · -- dcsMacro
      simp only []
      repeat' (first | (apply okOrOv_ite <;> intro _) | split)
      all_goals first
        | arm2
        | (rename_i hh; exact ret_okOrOv _ _ (inv_ok inv _ _ _ hinv hh (good_keep st _ h rfl)))
        | (rename_i hh; exact inv_err inv _ _ _ hinv hh (good_keep st _ h rfl))
    · repeat' (first | (apply okOrOv_ite <;> intro _) | split)
      all_goals arm2
    · -- dcsEsc
      apply okOrOv_ite
      · intro _
        have hx := executeDcs_resized { st.p with st := .dflt } o
        generalize executeDcs { st.p with st := .dflt } o = r at hx
        obtain ⟨p, out⟩ := r
        exact ret_okOrOv _ _ (good_keep st p h hx)
      · intro _
        repeat' (first | (apply okOrOv_ite <;> intro _) | split)
        all_goals arm2
    · repeat' (first | (apply okOrOv_ite <;> intro _) | split)
      all_goals arm2
    · repeat' (first | (apply okOrOv_ite <;> intro _) | split)
      all_goals arm2
    · exact csiCmd_good st ch h
    · exact csiReq_good st ch h
    · -- rip
      apply okOrOv_ite
      · intro _; exact ret_okOrOv _ _ (softReset_good st h hb)
      · intro _; exact dfltChar_good cfg (dflt st) ch (good_keep st _ h rfl) hb
    · exact devAttr_good st ch h
    · exact endCsi_good o inv st _ ch hinv h
    · exact csiFinal_good cfg o st _ ch h hb
    · exact dfltChar_good cfg st ch h hb


theorem replay_good (stepf : St → Char → R) (hstep : ∀ st ch, GoodSt st → okOrOv (stepf st ch) GoodR) :
    ∀ (body : List Char) (st : St), GoodSt st → okOrOv (replay stepf body st) GoodSt := by
  intro body
  induction body with
  | nil => intro st h; exact h
  | cons ch rest ih =>
    intro st h
    unfold replay
    apply okOrOv_ite
    · intro _; exact h
    · intro _
      have h1 : GoodSt { st with p := { st.p with budget := st.p.budget - 1 } } := good_keep st _ h rfl
      have h2 := hstep _ ch h1
      simp only []
      cases hs : stepf { st with p := { st.p with budget := st.p.budget - 1 } } ch with
      | error e => rw [hs] at h2; exact h2
      | ok r =>
        rw [hs] at h2
        obtain ⟨st', out⟩ := r
        exact ih st' h2

theorem invoker_good (stepf : St → Char → R) (top : Bool) (hstep : ∀ st ch, GoodSt st → okOrOv (stepf st ch) GoodR)
    (id : Int) (st : St) (h : GoodSt st) : okOrOv (invoker stepf top id st) GoodSt := by
  unfold invoker
  split
  · exact h
  · apply replay_good stepf hstep
    split
    · exact good_keep st _ h rfl
    · exact h

theorem stepD_good : ∀ (d : Nat) (cfg : Cfg) (o : Nat → Orc) (st : St) (ch : Char),
    GoodSt st → okOrOv (stepD d cfg o st ch) GoodR := by
  intro d
  induction d with
  | zero =>
    intro cfg o st ch h
    unfold stepD
    exact stepCore_good cfg _ _ _ ch (fun _ st hs => hs) (good_keep st _ h rfl)
  | succ d ih =>
    intro cfg o st ch h
    unfold stepD
    exact stepCore_good cfg _ _ _ ch (invoker_good _ _ (fun st ch hs => ih cfg o st ch hs)) (good_keep st _ h rfl)

theorem step_good (cfg : Cfg) (o : Nat → Orc) (st : St) (ch : Char) (h : GoodSt st) :
    okOrOv (step cfg o st ch) GoodR := stepD_good _ cfg o st ch h

theorem run_good (cfg : Cfg) (o : Nat → Orc) : ∀ (cs : List Char) (st : St), GoodSt st → okOrOv (run cfg o st cs) GoodSt := by
  intro cs
  induction cs with
  | nil => intro st h; exact h
  | cons ch rest ih =>
    intro st h
    unfold run
    have h2 := step_good cfg o st ch h
    cases hs : step cfg o st ch with
    | error e => rw [hs] at h2; exact h2
    | ok r =>
      rw [hs] at h2
      obtain ⟨st', out⟩ := r
      exact ih st' h2

theorem initSt_good (w h : Int) (hw1 : 1 ≤ w) (hw2 : w ≤ 132) (hh1 : 1 ≤ h) (hh2 : h ≤ 60) : GoodSt (initSt w h) := by
  refine ⟨⟨hw1, hw2, hh1, hh2, hh1, fun t b hh => by simp [initSt, initScr] at hh, fun t b hh => by simp [initSt, initScr] at hh⟩, ?_, fun _ => ?_⟩
  · simp only [initSt, initScr, CurOk]; omega
  · simp only [initSt, initScr, InScr, Scr.fv, satSub, sat]; omega

end IcyVerif.Term
