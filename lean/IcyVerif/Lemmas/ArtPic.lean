import IcyVerif.Lemmas.ArtScreen
/-! # Picture-level round trip on the screen (C15, C04)

The writers' shared row loop, seen from the reader's screen: every row is printed cell by cell from column 0; a row
that is shorter than the screen and is not the last one is ended with CR LF, a FULL-WIDTH row relies on the auto-wrap
of `print_char` (`row_spec`, wrap case), the last row is never ended.  `pic_view` says what the reader's layer then
shows, `pic_len` counts its rows (needed for `crop_loaded_file`). -/
set_option linter.unusedSimpArgs false
namespace IcyVerif.ArtIO

/-! ### `trimRow` is a prefix -/

theorem mem_takeWhile_imp {α : Type} (p : α → Bool) (l : List α) (c : α) (h : c ∈ l.takeWhile p) : p c = true := by
  induction l with
  | nil => simp at h
  | cons a l ih =>
    rw [List.takeWhile_cons] at h
    by_cases hp : p a = true
    · simp [hp] at h
      rcases h with h | h
      · subst h; exact hp
      · exact ih h
    · simp [hp] at h

theorem trimRow_prefix (r : List Cell) : ∃ t, r = trimRow r ++ t ∧ ∀ c ∈ t, c.isTransparent = true := by
  refine ⟨(r.reverse.takeWhile Cell.isTransparent).reverse, ?_, ?_⟩
  · unfold trimRow
    rw [← List.reverse_append, List.takeWhile_append_dropWhile, List.reverse_reverse]
  · intro c hc
    rw [List.mem_reverse] at hc
    exact mem_takeWhile_imp _ _ _ hc

theorem trimRow_length_le (r : List Cell) : (trimRow r).length ≤ r.length := by
  obtain ⟨t, h, _⟩ := trimRow_prefix r
  have := congrArg List.length h
  simp at this; omega

theorem trimRow_getD (r : List Cell) (x : Nat) (d : Cell) (h : x < (trimRow r).length) :
    (trimRow r).getD x d = r.getD x d := by
  obtain ⟨t, e, _⟩ := trimRow_prefix r
  conv => rhs; rw [e]
  simp only [List.getD_eq_getElem?_getD]
  rw [List.getElem?_append_left h]

/-- cells of the row beyond its trimmed length are blank on colour 0 -/
theorem trimRow_rest_transparent (r : List Cell) (x : Nat) (h : (trimRow r).length ≤ x) (hx : x < r.length) :
    (r.getD x defaultCell).isTransparent = true := by
  obtain ⟨t, e, ht⟩ := trimRow_prefix r
  have hlen : r.length = (trimRow r).length + t.length := by
    have := congrArg List.length e; simp at this; exact this
  have : r.getD x defaultCell = t.getD (x - (trimRow r).length) defaultCell := by
    conv => lhs; rw [e]
    simp only [List.getD_eq_getElem?_getD]
    rw [List.getElem?_append]
    have : ¬ x < (trimRow r).length := by omega
    simp [this]
  rw [this]
  have hi : x - (trimRow r).length < t.length := by omega
  simp only [List.getD_eq_getElem?_getD, List.getElem?_eq_getElem hi, Option.getD_some]
  exact ht _ (List.getElem_mem hi)

/-! ### one row

`cut` is what the writer keeps of a row: `trimRow` (`get_line_length`) for the C15 writers, the ANSI writer's own trimming or
the whole row for C04. -/

section
variable (cut : List Cell → List Cell)

def rowOps (img : Cell → Cell) (w : Nat) (r : List Cell) (more : Bool) : List Op :=
  putOps ((cut r).map img) ++ (if (cut r).length < w ∧ more = true then [Op.nl] else [])

def picOps (img : Cell → Cell) (w : Nat) : List (List Cell) → List Op
  | [] => []
  | r :: rest => rowOps cut img w r (!rest.isEmpty) ++ picOps img w rest

/-- what one row of the writers' loop does to the reader's screen -/
structure RowSpec (img : Cell → Cell) (s s' : Screen) (r : List Cell) (more : Bool) : Prop where
  w_eq : s'.w = s.w
  pos : more = true → s'.cx = 0 ∧ s'.cy = s.cy + 1
  view : ∀ x' y', shownAt s'.lines x' y' =
    if y' = s.cy ∧ x' < (cut r).length then shown (img ((cut r).getD x' defaultCell)) else shownAt s.lines x' y'
  len_more : more = true → s.lines.length ≤ s.cy + 1 → s'.lines.length ≤ s.cy + 2
  len_last : more = false → cut r ≠ [] → s.lines.length ≤ s.cy + 1 →
    (s'.lines.length = s.cy + 1 ∧ RowNonEmpty s'.lines s.cy) ∨
    (s'.lines.length = s.cy + 2 ∧ s'.lines[s.cy + 1]? = some [] ∧ RowNonEmpty s'.lines s.cy)

theorem row_spec (img : Cell → Cell) (s : Screen) (r : List Cell) (more : Bool)
    (hcx : s.cx = 0) (hw : 0 < s.w) (hfit : (cut r).length ≤ s.w) :
    RowSpec cut img s (s.runOps (rowOps cut img s.w r more)) r more := by
  unfold rowOps
  rw [runOps_append]
  have hlm : ((cut r).map img).length = (cut r).length := by simp
  have P0 := puts_spec ((cut r).map img) s (by rw [hcx, hlm]; omega)
  have P : PutsSpec ⟨s.w, s.layerH, s.lines, 0, s.cy⟩ (s.runOps (putOps ((cut r).map img))) ((cut r).map img) := by
    have : s = ⟨s.w, s.layerH, s.lines, 0, s.cy⟩ := by cases s; simp_all
    rw [← this]; exact P0
  have Pw : (s.runOps (putOps ((cut r).map img))).w = s.w := P.w_eq
  have Pin := P.pos_in
  have Pwrap := P.pos_wrap
  have Pview := P.view
  have Plin := P.len_in
  have Plwrap := P.len_wrap
  simp only [hlm] at Pin Pwrap Pview Plin Plwrap
  have hview : ∀ x' y', shownAt (s.runOps (putOps ((cut r).map img))).lines x' y' =
      if y' = s.cy ∧ x' < (cut r).length then shown (img ((cut r).getD x' defaultCell)) else shownAt s.lines x' y' := by
    intro x' y'
    rw [Pview]
    by_cases hc : y' = s.cy ∧ x' < (cut r).length
    · have hc' : y' = s.cy ∧ 0 ≤ x' ∧ x' < 0 + (cut r).length := by omega
      rw [if_pos hc, if_pos hc']
      have : ((cut r).map img).getD (x' - 0) defaultCell = img ((cut r).getD x' defaultCell) := by
        simp only [List.getD_eq_getElem?_getD, Nat.sub_zero, List.getElem?_map]
        rw [List.getElem?_eq_getElem hc.2]; rfl
      rw [this]
    · have hc' : ¬ (y' = s.cy ∧ 0 ≤ x' ∧ x' < 0 + (cut r).length) := by omega
      rw [if_neg hc, if_neg hc']
  have hne_iff : (cut r).map img ≠ [] ↔ cut r ≠ [] := by simp
  by_cases hnl : (cut r).length < s.w ∧ more = true
  · -- short row that is not the last: CR LF
    rw [if_pos hnl]
    show RowSpec cut img s ((s.runOps _).exec Op.nl) r more
    obtain ⟨nw, nx, ny, nv, nlen⟩ := nl_spec (s.runOps (putOps ((cut r).map img)))
    obtain ⟨px, py⟩ := Pin (by omega)
    refine ⟨by rw [nw, Pw], fun _ => ⟨nx, by rw [ny, py]⟩, ?_, ?_, ?_⟩
    · intro x' y'; rw [nv, hview]
    · intro _ hl
      rw [nlen, py]
      by_cases hne : cut r = []
      · have : (cut r).map img = [] := by simp [hne]
        rw [this]; simp only [putOps, List.map_nil, runOps_nil]; omega
      · have := (Plin (hne_iff.2 hne) hl (by omega)).1
        rw [this]; omega
    · intro hm; rw [hnl.2] at hm; cases hm
  · rw [if_neg hnl, runOps_nil]
    by_cases hfull : (cut r).length = s.w
    · -- full-width row: auto-wrap
      have hne : cut r ≠ [] := by
        intro e; rw [e] at hfull; simp at hfull; omega
      have _ := hne
      obtain ⟨px, py⟩ := Pwrap (hne_iff.2 hne) (by omega)
      refine ⟨Pw, fun _ => ⟨px, py⟩, hview, ?_, ?_⟩
      · intro _ hl
        have := (Plwrap (hne_iff.2 hne) hl (by omega)).1
        omega
      · intro _ _ hl
        exact Or.inr (Plwrap (hne_iff.2 hne) hl (by omega))
    · -- short last row: nothing follows
      have hmore : more = false := by
        cases more with
        | false => rfl
        | true => exact absurd ⟨by omega, rfl⟩ hnl
      refine ⟨Pw, fun h => (by rw [hmore] at h; cases h), hview, fun h => (by rw [hmore] at h; cases h), ?_⟩
      intro _ hne hl
      exact Or.inl (Plin (hne_iff.2 hne) hl (by omega))

/-! ### all rows -/

theorem picOps_w (img : Cell → Cell) (s : Screen) (r : List Cell) (more : Bool) (hcx : s.cx = 0) (hw : 0 < s.w)
    (hfit : (cut r).length ≤ s.w) : (s.runOps (rowOps cut img s.w r more)).w = s.w :=
  (row_spec cut img s r more hcx hw hfit).w_eq

theorem pic_view (img : Cell → Cell) : ∀ (rows : List (List Cell)) (s : Screen), s.cx = 0 → 0 < s.w →
    (∀ r ∈ rows, (cut r).length ≤ s.w) → ∀ x' y',
    shownAt (s.runOps (picOps cut img s.w rows)).lines x' y' =
      if s.cy ≤ y' ∧ y' < s.cy + rows.length ∧ x' < (cut (rows.getD (y' - s.cy) [])).length then
        shown (img ((cut (rows.getD (y' - s.cy) [])).getD x' defaultCell))
      else shownAt s.lines x' y' := by
  intro rows
  induction rows with
  | nil =>
    intro s _ _ _ x' y'
    have : ¬ (s.cy ≤ y' ∧ y' < s.cy + ([] : List (List Cell)).length ∧ x' < (cut (([] : List (List Cell)).getD (y' - s.cy) [])).length) := by
      intro ⟨h1, h2, _⟩; simp at h2; omega
    rw [if_neg this]; rfl
  | cons r rest ih =>
    intro s hcx hw hfit x' y'
    have hfr : (cut r).length ≤ s.w := hfit r (List.mem_cons_self)
    have R := row_spec cut img s r (!rest.isEmpty) hcx hw hfr
    show shownAt (s.runOps (rowOps cut img s.w r (!rest.isEmpty) ++ picOps cut img s.w rest)).lines x' y' = _
    rw [runOps_append]
    cases rest with
    | nil =>
      simp only [picOps, runOps_nil]
      rw [R.view]
      by_cases hc : y' = s.cy ∧ x' < (cut r).length
      · have hc' : s.cy ≤ y' ∧ y' < s.cy + [r].length ∧ x' < (cut ([r].getD (y' - s.cy) [])).length := by
          obtain ⟨h1, h2⟩ := hc
          subst h1; simp; exact h2
        rw [if_pos hc, if_pos hc']
        obtain ⟨h1, _⟩ := hc
        subst h1; simp
      · have hc' : ¬ (s.cy ≤ y' ∧ y' < s.cy + [r].length ∧ x' < (cut ([r].getD (y' - s.cy) [])).length) := by
          intro ⟨h1, h2, h3⟩
          simp at h2
          have e : y' = s.cy := by omega
          subst e; simp at h3; exact hc ⟨rfl, h3⟩
        rw [if_neg hc, if_neg hc']
    | cons r2 rest2 =>
      have hm : (!(r2 :: rest2).isEmpty) = true := rfl
      obtain ⟨px, py⟩ := R.pos hm
      have pw := R.w_eq
      have hfit' : ∀ q ∈ (r2 :: rest2), (cut q).length ≤ (s.runOps (rowOps cut img s.w r (!(r2 :: rest2).isEmpty))).w := by
        intro q hq; rw [pw]; exact hfit q (List.mem_cons_of_mem _ hq)
      have I := ih (s.runOps (rowOps cut img s.w r (!(r2 :: rest2).isEmpty))) px (by rw [pw]; exact hw) hfit' x' y'
      rw [pw] at I
      rw [I, R.view, py]
      have hlen : (r :: r2 :: rest2).length = (r2 :: rest2).length + 1 := rfl
      rcases Nat.lt_trichotomy y' s.cy with hlt | heq | hgt
      · have c1 : ¬ (s.cy + 1 ≤ y' ∧ y' < s.cy + 1 + (r2 :: rest2).length ∧ x' < (cut ((r2 :: rest2).getD (y' - (s.cy + 1)) [])).length) := by omega
        have c2 : ¬ (y' = s.cy ∧ x' < (cut r).length) := by omega
        have c3 : ¬ (s.cy ≤ y' ∧ y' < s.cy + (r :: r2 :: rest2).length ∧ x' < (cut ((r :: r2 :: rest2).getD (y' - s.cy) [])).length) := by omega
        rw [if_neg c1, if_neg c2, if_neg c3]
      · subst heq
        have c1 : ¬ (s.cy + 1 ≤ s.cy ∧ s.cy < s.cy + 1 + (r2 :: rest2).length ∧ x' < (cut ((r2 :: rest2).getD (s.cy - (s.cy + 1)) [])).length) := by omega
        rw [if_neg c1]
        by_cases hx : x' < (cut r).length
        · have c3 : s.cy ≤ s.cy ∧ s.cy < s.cy + (r :: r2 :: rest2).length ∧ x' < (cut ((r :: r2 :: rest2).getD (s.cy - s.cy) [])).length := by
            refine ⟨Nat.le_refl _, by rw [hlen]; omega, ?_⟩
            simp; exact hx
          rw [if_pos ⟨rfl, hx⟩, if_pos c3]; simp
        · have c3 : ¬ (s.cy ≤ s.cy ∧ s.cy < s.cy + (r :: r2 :: rest2).length ∧ x' < (cut ((r :: r2 :: rest2).getD (s.cy - s.cy) [])).length) := by
            intro ⟨_, _, h3⟩; simp at h3; exact hx h3
          have c2 : ¬ (s.cy = s.cy ∧ x' < (cut r).length) := fun h => hx h.2
          rw [if_neg c2, if_neg c3]
      · have e : y' - s.cy = (y' - (s.cy + 1)) + 1 := by omega
        have g : (r :: r2 :: rest2).getD (y' - s.cy) [] = (r2 :: rest2).getD (y' - (s.cy + 1)) [] := by
          rw [e]; rfl
        have c2 : ¬ (y' = s.cy ∧ x' < (cut r).length) := by omega
        rw [if_neg c2, g]
        by_cases hc : s.cy + 1 ≤ y' ∧ y' < s.cy + 1 + (r2 :: rest2).length ∧ x' < (cut ((r2 :: rest2).getD (y' - (s.cy + 1)) [])).length
        · have c3 : s.cy ≤ y' ∧ y' < s.cy + (r :: r2 :: rest2).length ∧ x' < (cut ((r2 :: rest2).getD (y' - (s.cy + 1)) [])).length := by
            rw [hlen]; omega
          rw [if_pos hc, if_pos c3]
        · have c3 : ¬ (s.cy ≤ y' ∧ y' < s.cy + (r :: r2 :: rest2).length ∧ x' < (cut ((r2 :: rest2).getD (y' - (s.cy + 1)) [])).length) := by
            rw [hlen]; omega
          rw [if_neg hc, if_neg c3]

/-- after the whole picture: the layer has exactly `cy0 + rows.length` rows, or one more EMPTY row (the auto-wrap of a
    full-width last row), and the picture's last row holds at least one cell -/
def LenSpec (lines : List (List Cell)) (h : Nat) : Prop :=
  (lines.length = h ∧ RowNonEmpty lines (h - 1)) ∨
  (lines.length = h + 1 ∧ lines[h]? = some [] ∧ RowNonEmpty lines (h - 1))

theorem pic_len (img : Cell → Cell) : ∀ (rows : List (List Cell)) (s : Screen), s.cx = 0 → 0 < s.w →
    (∀ r ∈ rows, (cut r).length ≤ s.w) → rows ≠ [] → (∀ r, rows.getLast? = some r → cut r ≠ []) →
    s.lines.length ≤ s.cy + 1 →
    LenSpec (s.runOps (picOps cut img s.w rows)).lines (s.cy + rows.length) := by
  intro rows
  induction rows with
  | nil => intro s _ _ _ h; exact absurd rfl h
  | cons r rest ih =>
    intro s hcx hw hfit _ hlast hl
    have hfr : (cut r).length ≤ s.w := hfit r (List.mem_cons_self)
    have R := row_spec cut img s r (!rest.isEmpty) hcx hw hfr
    show LenSpec (s.runOps (rowOps cut img s.w r (!rest.isEmpty) ++ picOps cut img s.w rest)).lines _
    rw [runOps_append]
    cases rest with
    | nil =>
      simp only [picOps, runOps_nil]
      have hne : cut r ≠ [] := hlast r rfl
      have := R.len_last rfl hne hl
      unfold LenSpec
      have e : s.cy + [r].length = s.cy + 1 := rfl
      rw [e]
      simpa using this
    | cons r2 rest2 =>
      have hm : (!(r2 :: rest2).isEmpty) = true := rfl
      obtain ⟨px, py⟩ := R.pos hm
      have pw := R.w_eq
      have hfit' : ∀ q ∈ (r2 :: rest2), (cut q).length ≤ (s.runOps (rowOps cut img s.w r (!(r2 :: rest2).isEmpty))).w := by
        intro q hq; rw [pw]; exact hfit q (List.mem_cons_of_mem _ hq)
      have hl' := R.len_more hm hl
      have I := ih (s.runOps (rowOps cut img s.w r (!(r2 :: rest2).isEmpty))) px (by rw [pw]; exact hw) hfit'
        (by simp) (by intro q hq; exact hlast q (by simpa using hq)) (by rw [py]; omega)
      rw [pw, py] at I
      have e : s.cy + 1 + (r2 :: rest2).length = s.cy + (r :: r2 :: rest2).length := by
        simp only [List.length_cons]; omega
      rw [e] at I
      exact I

/-! ### `crop_loaded_file` and the bold folding -/

theorem rowNonEmpty_getLast {lines : List (List Cell)} {h : Nat} (_h0 : 0 < h) (hl : lines.length = h)
    (hr : RowNonEmpty lines (h - 1)) : ¬ (1 < lines.length ∧ lines.getLast? = some []) := by
  intro ⟨_, hg⟩
  rw [List.getLast?_eq_getElem?, hl] at hg
  obtain ⟨l, e, hne⟩ := hr
  rw [e] at hg
  cases hg; exact hne rfl

theorem crop_exact (lines : List (List Cell)) (h : Nat) (h0 : 0 < h) (hl : lines.length = h)
    (hr : RowNonEmpty lines (h - 1)) (fuel : Nat) : cropLines fuel lines = lines := by
  cases fuel with
  | zero => rfl
  | succ n =>
    unfold cropLines
    rw [if_neg (rowNonEmpty_getLast h0 hl hr)]

theorem crop_one (lines : List (List Cell)) (h : Nat) (h0 : 0 < h) (hl : lines.length = h + 1) (he : lines[h]? = some [])
    (hr : RowNonEmpty lines (h - 1)) (n : Nat) :
    cropLines (n + 1) lines = lines.dropLast ∧ lines.dropLast.length = h := by
  have hc : 1 < lines.length ∧ lines.getLast? = some [] := by
    refine ⟨by omega, ?_⟩
    rw [List.getLast?_eq_getElem?, hl]; simpa using he
  have hdl : lines.dropLast.length = h := by rw [List.length_dropLast]; omega
  have hdr : RowNonEmpty lines.dropLast (h - 1) := by
    obtain ⟨l, e, hne⟩ := hr
    refine ⟨l, ?_, hne⟩
    rw [List.getElem?_dropLast, if_pos (by omega)]; exact e
  refine ⟨?_, hdl⟩
  show (if 1 < lines.length ∧ lines.getLast? = some [] then cropLines n lines.dropLast else lines) = _
  rw [if_pos hc, crop_exact _ h h0 hdl hdr]

theorem crop_spec (lines : List (List Cell)) (h : Nat) (h0 : 0 < h) (hs : LenSpec lines h) :
    (cropLines lines.length lines).length = h ∧
    ∀ x y, y < h → shownAt (cropLines lines.length lines) x y = shownAt lines x y := by
  rcases hs with ⟨hl, hr⟩ | ⟨hl, he, hr⟩
  · rw [crop_exact lines h h0 hl hr]
    exact ⟨hl, fun _ _ _ => rfl⟩
  · obtain ⟨e, hdl⟩ := crop_one lines h h0 hl he hr h
    have : cropLines lines.length lines = lines.dropLast := by rw [hl]; exact e
    rw [this]
    refine ⟨hdl, ?_⟩
    intro x y hy
    unfold shownAt
    rw [List.getElem?_dropLast, if_pos (by omega)]

theorem foldBold_default : foldBold defaultCell = defaultCell := by decide

theorem shownAt_foldLines (lines : List (List Cell)) (x y : Nat) :
    shownAt (foldLines lines) x y = foldBold (shownAt lines x y) := by
  unfold shownAt foldLines lineShown
  rw [List.getElem?_map]
  cases hl : lines[y]? with
  | none => simp [foldBold_default]
  | some l =>
    simp only [Option.map_some, Option.getD_some, List.getElem?_map]
    cases hc : l[x]? with
    | none => simp [foldBold_default]
    | some c =>
      simp only [Option.map_some]
      by_cases hv : c.isVisible = true
      · have : (foldBold c).isVisible = true := by
          unfold foldBold; split <;> simp_all [Cell.isVisible]
        simp [hv, shown, this]
      · simp [hv, shown, foldBold_default]

theorem length_foldLines (lines : List (List Cell)) : (foldLines lines).length = lines.length := by
  simp [foldLines]

end

end IcyVerif.ArtIO
