import IcyVerif.Lemmas.ArtAnsiPend
import IcyVerif.Lemmas.ArtAnsiFRows
/-! # The whole ANSI writer: no panic, and its output as chunks (C04, `ansi_rt`)

* `fontRows_some`: when every cell's font page has a font in the buffer, `font_map.get(..).unwrap()` never panics;
* `run_underflow`: the `usize` subtraction in `push_result` never underflows — `last_line_break` is at most
  `output.len() + result.len()` whenever `push_result` runs (the end-of-row code sets it to `result.len()`, which is why);
* `ansi_chunks`: the chunks handed to `push_result` are `ChunkOk` and, put together, they are the bytes of the events. -/
set_option linter.unusedSimpArgs false
namespace IcyVerif.ArtIO
open IcyVerif.Gen.Art

/-! ### fonts -/

/-- every cell's font page has a font in the buffer, and `font_map` sends it to an ANSI font page -/
def FontsOk (fi : FontInfo) : Prop :=
  ∀ y x, ∃ n, fontMap fi.slots ((fi.pages.getD y []).getD x 0) = some n ∧ n < ansiFonts

theorem mapM_some {α β : Type} (f : α → Option β) (P : β → Prop) : ∀ (l : List α), (∀ x ∈ l, ∃ v, f x = some v ∧ P v) →
    ∃ r, l.mapM f = some r ∧ ∀ v ∈ r, P v := by
  intro l
  induction l with
  | nil => intro _; exact ⟨[], rfl, fun v h => by simp at h⟩
  | cons a as ih =>
    intro h
    obtain ⟨v, hv, pv⟩ := h a List.mem_cons_self
    obtain ⟨r, hr, pr⟩ := ih (fun x hx => h x (List.mem_cons_of_mem _ hx))
    refine ⟨v :: r, ?_, ?_⟩
    · simp [List.mapM_cons, hv, hr]
    · intro u hu
      rcases List.mem_cons.1 hu with e | e
      · rw [e]; exact pv
      · exact pr u e

theorem fontRows_some (fi : FontInfo) (hf : FontsOk fi) : ∀ (lines : List (List CharCell)) (y : Nat),
    ∃ frows, fontRows fi.slots fi.pages lines y = some frows ∧ ∀ fr ∈ frows, ∀ f ∈ fr, f < ansiFonts := by
  intro lines
  induction lines with
  | nil => intro y; exact ⟨[], rfl, fun fr h => by simp at h⟩
  | cons line rest ih =>
    intro y
    obtain ⟨r, hr, pr⟩ := mapM_some (fun x => fontMap fi.slots ((fi.pages.getD y []).getD x 0)) (· < ansiFonts) (List.range line.length)
      (fun x _ => hf y x)
    obtain ⟨rs, hrs, prs⟩ := ih (y + 1)
    refine ⟨r :: rs, ?_, ?_⟩
    · unfold fontRows; rw [hr, hrs]
    · intro fr hfr
      rcases List.mem_cons.1 hfr with e | e
      · rw [e]; exact pr
      · exact prs fr e

/-! ### `push_result` never underflows -/

theorem run_append (max : Option Nat) (s : WSt) (a b : List Ev) : WSt.run max s (a ++ b) = WSt.run max (WSt.run max s a) b := by
  simp [WSt.run, List.foldl_append]

theorem run_cons (max : Option Nat) (s : WSt) (e : Ev) (es : List Ev) : WSt.run max s (e :: es) = WSt.run max (s.step max e) es := rfl

/-- `last_line_break` does not exceed what has been written and collected -/
def WSt.Good (s : WSt) : Prop := s.llb ≤ s.out.length + s.res.length ∧ s.underflow = false

theorem step_good (max : Option Nat) (s : WSt) (e : Ev) (hg : s.Good) (he : e ≠ .drop) : (s.step max e).Good := by
  obtain ⟨h1, h2⟩ := hg
  cases e with
  | ext bs => exact ⟨by show s.llb ≤ s.out.length + (s.res ++ bs).length; simp; omega, h2⟩
  | eol => exact ⟨by show s.res.length ≤ s.out.length + s.res.length; omega, h2⟩
  | drop => exact absurd rfl he
  | push =>
    have n1 : ¬ s.out.length + s.res.length < s.llb := by omega
    by_cases hm : overMax max (s.out.length + s.res.length - s.llb) = true
    · have e : s.step max .push = { s with out := s.out ++ ansiSplitPre ++ ansiSplitPost ++ s.res, llb := s.out.length + ansiSplitPre.length, res := [] } := by
        simp [WSt.step, n1, hm]
      rw [e]
      exact ⟨by show s.out.length + ansiSplitPre.length ≤ (s.out ++ ansiSplitPre ++ ansiSplitPost ++ s.res).length + ([] : List Nat).length; simp only [List.length_append, List.length_nil]; omega, h2⟩
    · have e : s.step max .push = { s with out := s.out ++ s.res, res := [] } := by
        simp [WSt.step, n1, hm]
      rw [e]
      exact ⟨by show s.llb ≤ (s.out ++ s.res).length + ([] : List Nat).length; simp only [List.length_append, List.length_nil]; omega, h2⟩

theorem run_good (max : Option Nat) : ∀ (evs : List Ev) (s : WSt), s.Good → Ev.drop ∉ evs → (WSt.run max s evs).Good := by
  intro evs
  induction evs with
  | nil => intro s h _; exact h
  | cons e es ih =>
    intro s h hd
    rw [run_cons]
    exact ih _ (step_good max s e h (fun q => hd (by rw [q]; exact List.mem_cons_self))) (fun q => hd (List.mem_cons_of_mem _ q))

theorem run_res (max : Option Nat) : ∀ (evs : List Ev) (s : WSt), (WSt.run max s evs).res = pend evs s.res := by
  intro evs
  induction evs with
  | nil => intro s; rfl
  | cons e es ih =>
    intro s
    rw [run_cons, ih]
    cases e with
    | ext bs => rfl
    | eol => rfl
    | drop => rfl
    | push =>
      have : (s.step max .push).res = [] := by
        by_cases h1 : s.out.length + s.res.length < s.llb
        · simp [WSt.step, h1]
        · by_cases h2 : overMax max (s.out.length + s.res.length - s.llb) = true <;> simp [WSt.step, h1, h2]
      rw [this]; rfl

/-- events `a`, the end of `result`'s scope, events `b`: no underflow when `a` leaves nothing pending -/
theorem run_underflow (max : Option Nat) (a b : List Ev) (ha : Ev.drop ∉ a) (hb : Ev.drop ∉ b) (hp : pend a [] = []) :
    (WSt.run max {} (a ++ [.drop] ++ b)).underflow = false := by
  rw [run_append, run_append]
  have g0 : (WSt.run max {} a).Good := run_good max a {} ⟨Nat.zero_le _, rfl⟩ ha
  have r0 : (WSt.run max {} a).res = [] := by rw [run_res]; exact hp
  have g1 : (WSt.run max (WSt.run max {} a) [.drop]).Good := by
    obtain ⟨h1, h2⟩ := g0
    refine ⟨?_, h2⟩
    show (WSt.run max {} a).llb ≤ (WSt.run max {} a).out.length + ([] : List Nat).length
    rw [r0] at h1; exact h1
  exact (run_good max b _ g1 hb).2

/-! ### the writer's chunks -/

theorem bytesOf_prepEvs (o : AnsiOpts) (im : IceMode) : bytesOf (prepEvs o im) = ansiPrep o im := by
  unfold prepEvs ansiPrep
  rw [bytesOf_append]
  by_cases h : im = .ice <;> cases o.prep <;> simp [h, bytesOf]

theorem bytesOf_endEvs (im : IceMode) : bytesOf (endEvs im) = ansiEnd im := by
  unfold endEvs ansiEnd
  by_cases h : im = .ice <;> simp [h, bytesOf]

theorem pend_end (im : IceMode) : pend (endEvs im) [] = [] := by
  unfold endEvs; split <;> rfl

theorem evsOk_end' (im : IceMode) : EvsOk (endEvs im) := evsOk_end im

/-- the events of `screen_prep` and `generate` -/
def ansiEvsA (o : AnsiOpts) (skip : Nat → Bool) (frows : List (List Nat)) (p : Pic) : List Ev :=
  prepEvs o p.ice ++ genLinesEv o skip p.w p.rows.length
    (genCellsS o skip p.pal p.ice p.w (p.rows.map fun r => r ++ List.replicate (p.w - r.length) defaultCell) 0 ansiState0) frows 0 true 0

theorem ansiEvs_eq (o : AnsiOpts) (skip : Nat → Bool) (frows : List (List Nat)) (p : Pic) :
    ansiEvs o skip frows p = ansiEvsA o skip frows p ++ [.drop] ++ endEvs p.ice := by
  unfold ansiEvs ansiEvsA; simp

/-- `generate` leaves nothing pending -/
theorem pend_ansiA (o : AnsiOpts) (skip : Nat → Bool) (frows : List (List Nat)) (p : Pic) (hw : 0 < p.w) :
    pend (ansiEvsA o skip frows p) [] = [] := by
  unfold ansiEvsA
  rw [pend_append, pend_prep]
  cases hl : o.longerTerminalOutput with
  | true => exact pend_genLines_longer o skip p.w p.rows.length hl _ _ _ _ _
  | false =>
    generalize hrows : (p.rows.map fun r => r ++ List.replicate (p.w - r.length) defaultCell) = rows
    have hlen : rows.length = p.rows.length := by rw [← hrows]; simp
    by_cases hne : rows = []
    · rw [hne]; simp [genCellsS, genLinesEv, pend]
    · apply pend_genLines_comp o skip p.w p.rows.length hl
      · exact genCellsS_nonempty o skip p.pal p.ice p.w hw hl rows 0 ansiState0
      · rw [genCellsS_length, hlen]; omega
      · intro e
        have := genCellsS_length o skip p.pal p.ice p.w rows 0 ansiState0
        rw [e] at this
        exact hne (List.length_eq_zero_iff.1 this.symm)

/-- the chunks of the whole writer: all `ChunkOk`, and together the bytes of the events -/
theorem ansi_chunks (o : AnsiOpts) (skip : Nat → Bool) (frows : List (List Nat)) (p : Pic) (hw : 0 < p.w)
    (hd : ∀ r ∈ p.rows, ∀ c ∈ r, EncDom o c.ch) :
    (∀ k ∈ chunksOf (ansiEvs o skip frows p) [], ChunkOk k) ∧
    (chunksOf (ansiEvs o skip frows p) []).flatten = bytesOf (ansiEvsA o skip frows p) ++ ansiEnd p.ice ∧
    ∀ max, (WSt.run max {} (ansiEvs o skip frows p)).underflow = false := by
  have okA : EvsOk (ansiEvsA o skip frows p) := evsOk_ansi o skip frows p hd
  have okE : EvsOk (endEvs p.ice) := evsOk_end p.ice
  have hpA := pend_ansiA o skip frows p hw
  have hch : chunksOf (ansiEvs o skip frows p) [] = chunksOf (ansiEvsA o skip frows p) [] ++ chunksOf (endEvs p.ice) [] := by
    rw [ansiEvs_eq, List.append_assoc, chunksOf_append, hpA]
    rfl
  refine ⟨?_, ?_, ?_⟩
  · intro k hk
    rw [hch] at hk
    rcases List.mem_append.1 hk with h | h
    · exact chunksOf_ok _ [] chunkOk_nil okA.ext k h
    · exact chunksOf_ok _ [] chunkOk_nil okE.ext k h
  · rw [hch, List.flatten_append]
    have e1 := chunks_pend (ansiEvsA o skip frows p) okA.noDrop []
    rw [hpA] at e1
    have e2 := chunks_pend (endEvs p.ice) okE.noDrop []
    rw [pend_end] at e2
    simp only [List.append_nil, List.nil_append] at e1 e2
    rw [e1, e2, bytesOf_endEvs]
  · intro max
    rw [ansiEvs_eq]
    exact run_underflow max _ _ okA.noDrop okE.noDrop hpA

end IcyVerif.ArtIO
