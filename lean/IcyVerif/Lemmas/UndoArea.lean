import IcyVerif.Lemmas.UndoStack2
set_option linter.unusedSimpArgs false
set_option linter.unusedVariables false
/-! # C08: `UndoLayerChange` — snapshots (`Layer::from_layer`), stamping them back (`Layer::stamp`), the inverse law -/
namespace IcyVerif.Undo

theorem mem_intRange {a b x : Int} : x ∈ intRange a b ↔ a ≤ x ∧ x < b := by
  simp only [intRange, List.mem_map, List.mem_range]
  constructor
  · rintro ⟨i, hi, rfl⟩
    omega
  · rintro ⟨h1, h2⟩
    exact ⟨(x - a).toNat, by omega, by omega⟩

theorem foldl_obs {α : Type} (step : LayerM → α → LayerM) (Step : LObs → α → LObs)
    (h : ∀ l x, (step l x).obs = Step l.obs x) (xs : List α) (l : LayerM) :
    (xs.foldl step l).obs = xs.foldl Step l.obs := by
  induction xs generalizing l with
  | nil => rfl
  | cons x xs ih => simp only [List.foldl_cons]; rw [ih, h]

theorem LObs.eta (a : LObs) : (a.1, a.2.1, a.2.2.1, a.cells) = a := by
  obtain ⟨w, h, p, c⟩ := a; rfl

theorem LObs.restoreChar_dims (a : LObs) (x y : Int) (c : Cell) :
    (a.restoreChar x y c).1 = a.1 ∧ (a.restoreChar x y c).2.1 = a.2.1 ∧ (a.restoreChar x y c).2.2.1 = a.2.2.1 := ⟨rfl, rfl, rfl⟩

theorem LObs.inside_restoreChar (a : LObs) (x y : Int) (c : Cell) (X Y : Int) : (a.restoreChar x y c).inside X Y = a.inside X Y := rfl

/-- one row of forced writes: the cell at `(x + tx, Y)` gets `c x`, which is `v` of the target position -/
theorem LObs.foldl_restore_row (v : Nat → Nat → Cell) (xs : List Int) (tx Y : Int) (c : Int → Cell) (a : LObs)
    (hv : ∀ x ∈ xs, a.inside (x + tx) Y = true → c x = v (x + tx).toNat Y.toNat) :
    xs.foldl (fun a x => a.restoreChar (x + tx) Y (c x)) a =
      (a.1, a.2.1, a.2.2.1, fun x' y' =>
        if ∃ x ∈ xs, a.inside (x + tx) Y = true ∧ x' = (x + tx).toNat ∧ y' = Y.toNat then v x' y' else a.cells x' y') := by
  induction xs generalizing a with
  | nil =>
    simp only [List.foldl_nil, List.not_mem_nil, false_and, exists_false, if_false]
    exact (LObs.eta a).symm
  | cons x xs ih =>
    simp only [List.foldl_cons]
    have e := ih (a.restoreChar (x + tx) Y (c x)) (fun x2 hx2 hin => hv x2 (List.mem_cons_of_mem _ hx2) hin)
    rw [e]
    show (a.1, a.2.1, a.2.2.1, fun x' y' =>
        if ∃ x2 ∈ xs, a.inside (x2 + tx) Y = true ∧ x' = (x2 + tx).toNat ∧ y' = Y.toNat then v x' y'
        else (if a.inside (x + tx) Y = true ∧ x' = (x + tx).toNat ∧ y' = Y.toNat then c x else a.cells x' y')) = (a.1, a.2.1, a.2.2.1, _)
    congr 3
    funext x' y'
    by_cases h1 : ∃ x2 ∈ xs, a.inside (x2 + tx) Y = true ∧ x' = (x2 + tx).toNat ∧ y' = Y.toNat
    · have h2 : ∃ x2 ∈ x :: xs, a.inside (x2 + tx) Y = true ∧ x' = (x2 + tx).toNat ∧ y' = Y.toNat := by
        obtain ⟨x2, hx2, hh⟩ := h1
        exact ⟨x2, List.mem_cons_of_mem _ hx2, hh⟩
      rw [if_pos h1, if_pos h2]
    · rw [if_neg h1]
      by_cases h3 : a.inside (x + tx) Y = true ∧ x' = (x + tx).toNat ∧ y' = Y.toNat
      · have h2 : ∃ x2 ∈ x :: xs, a.inside (x2 + tx) Y = true ∧ x' = (x2 + tx).toNat ∧ y' = Y.toNat :=
          ⟨x, List.mem_cons_self, h3⟩
        rw [if_pos h3, if_pos h2, hv x List.mem_cons_self h3.1, h3.2.1, h3.2.2]
      · have h2 : ¬ ∃ x2 ∈ x :: xs, a.inside (x2 + tx) Y = true ∧ x' = (x2 + tx).toNat ∧ y' = Y.toNat := by
          rintro ⟨x2, hx2, hh⟩
          rcases List.mem_cons.mp hx2 with rfl | hx2
          · exact h3 hh
          · exact h1 ⟨x2, hx2, hh⟩
        rw [if_neg h3, if_neg h2]

/-- a rectangle of forced writes, row by row -/
theorem LObs.foldl_restore_rect (v : Nat → Nat → Cell) (ys xs : List Int) (tx ty : Int) (c : Int → Int → Cell) (a : LObs)
    (hv : ∀ y ∈ ys, ∀ x ∈ xs, a.inside (x + tx) (y + ty) = true → c x y = v (x + tx).toNat (y + ty).toNat) :
    ys.foldl (fun a y => xs.foldl (fun a x => a.restoreChar (x + tx) (y + ty) (c x y)) a) a =
      (a.1, a.2.1, a.2.2.1, fun x' y' =>
        if ∃ y ∈ ys, ∃ x ∈ xs, a.inside (x + tx) (y + ty) = true ∧ x' = (x + tx).toNat ∧ y' = (y + ty).toNat then v x' y'
        else a.cells x' y') := by
  induction ys generalizing a with
  | nil =>
    simp only [List.foldl_nil, List.not_mem_nil, false_and, exists_false, if_false]
    exact (LObs.eta a).symm
  | cons y ys ih =>
    simp only [List.foldl_cons]
    have e1 : xs.foldl (fun a x => a.restoreChar (x + tx) (y + ty) (c x y)) a = _ :=
      LObs.foldl_restore_row v xs tx (y + ty) (fun x => c x y) a (fun x hx hin => hv y List.mem_cons_self x hx hin)
    rw [e1]
    have e2 := ih (a.1, a.2.1, a.2.2.1, fun x' y' =>
        if ∃ x ∈ xs, a.inside (x + tx) (y + ty) = true ∧ x' = (x + tx).toNat ∧ y' = (y + ty).toNat then v x' y' else a.cells x' y')
      (fun y2 hy2 x hx hin => hv y2 (List.mem_cons_of_mem _ hy2) x hx hin)
    rw [e2]
    show (a.1, a.2.1, a.2.2.1, fun x' y' =>
        if ∃ y2 ∈ ys, ∃ x ∈ xs, a.inside (x + tx) (y2 + ty) = true ∧ x' = (x + tx).toNat ∧ y' = (y2 + ty).toNat then v x' y'
        else (if ∃ x ∈ xs, a.inside (x + tx) (y + ty) = true ∧ x' = (x + tx).toNat ∧ y' = (y + ty).toNat then v x' y' else a.cells x' y')) =
      (a.1, a.2.1, a.2.2.1, _)
    congr 3
    funext x' y'
    by_cases h1 : ∃ y2 ∈ ys, ∃ x ∈ xs, a.inside (x + tx) (y2 + ty) = true ∧ x' = (x + tx).toNat ∧ y' = (y2 + ty).toNat
    · have h2 : ∃ y2 ∈ y :: ys, ∃ x ∈ xs, a.inside (x + tx) (y2 + ty) = true ∧ x' = (x + tx).toNat ∧ y' = (y2 + ty).toNat := by
        obtain ⟨y2, hy2, hh⟩ := h1
        exact ⟨y2, List.mem_cons_of_mem _ hy2, hh⟩
      rw [if_pos h1, if_pos h2]
    · rw [if_neg h1]
      by_cases h3 : ∃ x ∈ xs, a.inside (x + tx) (y + ty) = true ∧ x' = (x + tx).toNat ∧ y' = (y + ty).toNat
      · have h2 : ∃ y2 ∈ y :: ys, ∃ x ∈ xs, a.inside (x + tx) (y2 + ty) = true ∧ x' = (x + tx).toNat ∧ y' = (y2 + ty).toNat :=
          ⟨y, List.mem_cons_self, h3⟩
        rw [if_pos h3, if_pos h2]
      · have h2 : ¬ ∃ y2 ∈ y :: ys, ∃ x ∈ xs, a.inside (x + tx) (y2 + ty) = true ∧ x' = (x + tx).toNat ∧ y' = (y2 + ty).toNat := by
          rintro ⟨y2, hy2, hh⟩
          rcases List.mem_cons.mp hy2 with rfl | hy2
          · exact h3 hh
          · exact h1 ⟨y2, hy2, hh⟩
        rw [if_neg h3, if_neg h2]

/-- on a layer that is visible, unlocked and without alpha channel `set_char` is a forced write -/
theorem LObs.setChar_plain (a : LObs) (x y : Int) (c : Cell)
    (hp : a.props.locked = false ∧ a.props.visible = true ∧ a.props.hasAlpha = false) : a.setChar x y c = a.restoreChar x y c := by
  obtain ⟨h1, h2, h3⟩ := hp
  have : a.writes x y = a.inside x y := by simp [LObs.writes, h1, h2, h3]
  simp only [LObs.setChar, LObs.restoreChar, this]

theorem rowsGet_replicate (h w x y : Nat) : rowsGet (List.replicate h (List.replicate w Cell.invisible)) x y = Cell.invisible := by
  simp only [rowsGet, List.getD_eq_getElem?_getD, List.getElem?_replicate]
  split <;> simp [List.getElem?_replicate] <;> (try split) <;> simp

/-- **`Layer::from_layer`**: the snapshot has the size of the area, no offset, and shows the layer's cells shifted by the
    area's origin (invisible where the layer has none) -/
theorem fromLayer_spec (l : LayerM) (a : Rect) (snap : LayerM) (hs : fromLayer l a = .ok snap) :
    snap.w = a.w ∧ snap.h = a.h ∧ snap.props = defaultProps ∧
      ∀ x' y' : Nat, rowsGet snap.lines x' y' =
        if (x' : Int) < a.w ∧ (y' : Int) < a.h then l.getChar (x' + a.x) (y' + a.y) else Cell.invisible := by
  unfold fromLayer at hs
  cases hn : newLayer a.w a.h with
  | error e => rw [hn] at hs; simp at hs
  | ok r0 =>
    rw [hn] at hs
    simp only [Except.ok.injEq] at hs
    have hr0 : 0 ≤ a.w ∧ 0 ≤ a.h ∧ r0 = ⟨a.w, a.h, defaultProps, List.replicate a.h.toNat (List.replicate a.w.toNat Cell.invisible)⟩ := by
      unfold newLayer at hn
      split at hn
      · simp at hn
      · rename_i hneg
        simp at hneg
        simp only [Except.ok.injEq] at hn
        exact ⟨by omega, by omega, hn.symm⟩
    obtain ⟨hw0, hh0, rfl⟩ := hr0
    -- push the loop to observations and turn `set_char` into forced writes
    have hplain : ∀ (o : LObs), o.props = defaultProps → (o.props.locked = false ∧ o.props.visible = true ∧ o.props.hasAlpha = false) := by
      intro o ho; rw [ho]; exact ⟨rfl, rfl, rfl⟩
    let o0 : LObs := (a.w, a.h, defaultProps, fun _ _ => Cell.invisible)
    have ho0 : (⟨a.w, a.h, defaultProps, List.replicate a.h.toNat (List.replicate a.w.toNat Cell.invisible)⟩ : LayerM).obs = o0 := by
      show (a.w, a.h, defaultProps, rowsGet _) = o0
      congr 3
      funext x y
      exact rowsGet_replicate _ _ _ _
    have hobs : snap.obs = (intRange a.y a.bottom).foldl (fun o y =>
        (intRange a.x a.right).foldl (fun o x => o.restoreChar (x + -a.x) (y + -a.y) (l.getChar x y)) o) o0 := by
      rw [← hs, ← ho0]
      -- generalise over the start layer, keeping "plain" as invariant
      have gen : ∀ (ys : List Int) (r : LayerM), r.props = defaultProps →
          (ys.foldl (fun r y => (intRange a.x a.right).foldl (fun r x => r.setChar (x - a.x) (y - a.y) (l.getChar x y)) r) r).obs =
            ys.foldl (fun o y => (intRange a.x a.right).foldl (fun o x => o.restoreChar (x + -a.x) (y + -a.y) (l.getChar x y)) o) r.obs ∧
          (ys.foldl (fun r y => (intRange a.x a.right).foldl (fun r x => r.setChar (x - a.x) (y - a.y) (l.getChar x y)) r) r).props = defaultProps := by
        have inner : ∀ (y : Int) (xs : List Int) (r : LayerM), r.props = defaultProps →
            (xs.foldl (fun r x => r.setChar (x - a.x) (y - a.y) (l.getChar x y)) r).obs =
              xs.foldl (fun o x => o.restoreChar (x + -a.x) (y + -a.y) (l.getChar x y)) r.obs ∧
            (xs.foldl (fun r x => r.setChar (x - a.x) (y - a.y) (l.getChar x y)) r).props = defaultProps := by
          intro y xs
          induction xs with
          | nil => intro r hr; exact ⟨rfl, hr⟩
          | cons x xs ih =>
            intro r hr
            simp only [List.foldl_cons]
            have hp1 : (r.setChar (x - a.x) (y - a.y) (l.getChar x y)).props = defaultProps := by
              have := congrArg (·.2.2.1) (setChar_obs r (x - a.x) (y - a.y) (l.getChar x y))
              simp only [LObs.setChar] at this
              exact this.trans hr
            obtain ⟨i1, i2⟩ := ih _ hp1
            refine ⟨?_, i2⟩
            rw [i1, setChar_obs, LObs.setChar_plain _ _ _ _ (hplain r.obs hr)]
            simp only [Int.sub_eq_add_neg]
        intro ys
        induction ys with
        | nil => intro r hr; exact ⟨rfl, hr⟩
        | cons y ys ih =>
          intro r hr
          simp only [List.foldl_cons]
          obtain ⟨j1, j2⟩ := inner y (intRange a.x a.right) r hr
          obtain ⟨i1, i2⟩ := ih _ j2
          exact ⟨by rw [i1, j1], i2⟩
      exact (gen _ _ rfl).1
    rw [LObs.foldl_restore_rect (fun X Y => l.getChar (X + a.x) (Y + a.y)) _ _ _ _ _ o0 (by
      intro y hy x hx hin
      have hin' : 0 ≤ x + -a.x ∧ 0 ≤ y + -a.y := by
        simp only [LObs.inside, Bool.and_eq_true, decide_eq_true_eq] at hin
        exact ⟨hin.1.1.1, hin.1.1.2⟩
      have e1 : ((x + -a.x).toNat : Int) + a.x = x := by omega
      have e2 : ((y + -a.y).toNat : Int) + a.y = y := by omega
      show l.getChar x y = l.getChar (((x + -a.x).toNat : Int) + a.x) (((y + -a.y).toNat : Int) + a.y)
      rw [e1, e2])] at hobs
    have h1 : snap.w = a.w := congrArg (·.1) hobs
    have h2 : snap.h = a.h := congrArg (·.2.1) hobs
    have h3 : snap.props = defaultProps := congrArg (·.2.2.1) hobs
    refine ⟨h1, h2, h3, ?_⟩
    intro x' y'
    have h4 := congrFun (congrFun (congrArg (·.2.2.2) hobs) x') y'
    simp only [LayerM.obs] at h4
    rw [h4]
    have hins : ∀ X Y, LObs.inside o0 X Y = (decide (0 ≤ X) && decide (0 ≤ Y) && decide (X < a.w) && decide (Y < a.h)) := fun _ _ => rfl
    by_cases hc : (x' : Int) < a.w ∧ (y' : Int) < a.h
    · have hex : ∃ y ∈ intRange a.y a.bottom, ∃ x ∈ intRange a.x a.right,
          o0.inside (x + -a.x) (y + -a.y) = true ∧ x' = (x + -a.x).toNat ∧ y' = (y + -a.y).toNat := by
        refine ⟨(y' : Int) + a.y, mem_intRange.mpr ⟨by omega, by simp only [Rect.bottom]; omega⟩,
          (x' : Int) + a.x, mem_intRange.mpr ⟨by omega, by simp only [Rect.right]; omega⟩, ?_, by omega, by omega⟩
        rw [hins]
        simp only [Bool.and_eq_true, decide_eq_true_eq]
        omega
      rw [if_pos hex, if_pos hc]
    · have hex : ¬ ∃ y ∈ intRange a.y a.bottom, ∃ x ∈ intRange a.x a.right,
          o0.inside (x + -a.x) (y + -a.y) = true ∧ x' = (x + -a.x).toNat ∧ y' = (y + -a.y).toNat := by
        rintro ⟨y, hy, x, hx, hin, rfl, rfl⟩
        rw [hins] at hin
        simp only [Bool.and_eq_true, decide_eq_true_eq] at hin
        apply hc
        omega
      rw [if_neg hex, if_neg hc]
      rfl

/-- **`Layer::stamp`** of a `from_layer` snapshot at the area's origin: inside the area (and the layer) the cells the
    snapshot was taken from come back, everything else — in particular rows and cells hidden beyond the layer size —
    stays as it is -/
theorem stamp_snapshot (l m snap : LayerM) (a : Rect) (hs : fromLayer l a = .ok snap) (hw : m.w = l.w) (hh : m.h = l.h) :
    (m.stamp a.x a.y snap).obs = (m.w, m.h, m.props, fun (x' y' : Nat) =>
      if a.isInside (x' : Int) (y' : Int) = true ∧ l.inside (x' : Int) (y' : Int) = true then rowsGet l.lines x' y' else rowsGet m.lines x' y') := by
  obtain ⟨s1, s2, s3, s4⟩ := fromLayer_spec l a snap hs
  unfold LayerM.stamp
  have hrect : snap.rect = ⟨0, 0, a.w, a.h⟩ := by
    simp only [LayerM.rect, s1, s2, s3]; rfl
  rw [hrect]
  simp only [Rect.bottom, Rect.right, Int.zero_add]
  -- to observations
  have step1 : ((intRange 0 a.h).foldl (fun l y => (intRange 0 a.w).foldl (fun l x => l.restoreChar (x + a.x) (y + a.y) (snap.getChar x y)) l) m).obs =
      (intRange 0 a.h).foldl (fun o y => (intRange 0 a.w).foldl (fun o x => o.restoreChar (x + a.x) (y + a.y) (snap.getChar x y)) o) m.obs := by
    apply foldl_obs
    intro l0 y
    apply foldl_obs
    intro l1 x
    exact restoreChar_obs _ _ _ _
  rw [step1]
  have hsnap : ∀ X Y : Int, 0 ≤ X → 0 ≤ Y → X < a.w → Y < a.h → snap.getChar X Y = l.getChar (X + a.x) (Y + a.y) := by
    intro X Y hX hY hXw hYh
    have hin : snap.inside X Y = true := by
      simp only [LayerM.inside, s1, s2, Bool.and_eq_true, decide_eq_true_eq]; exact ⟨⟨⟨hX, hY⟩, hXw⟩, hYh⟩
    simp only [LayerM.getChar, hin, if_true]
    rw [s4]
    have e1 : ((X.toNat : Nat) : Int) = X := by omega
    have e2 : ((Y.toNat : Nat) : Int) = Y := by omega
    have hc : ((X.toNat : Nat) : Int) < a.w ∧ ((Y.toNat : Nat) : Int) < a.h := by omega
    rw [if_pos hc, e1, e2]
    rfl
  rw [LObs.foldl_restore_rect (fun X Y => l.getChar X Y) _ _ _ _ _ m.obs (by
    intro y hy x hx hin
    obtain ⟨hy1, hy2⟩ := mem_intRange.mp hy
    obtain ⟨hx1, hx2⟩ := mem_intRange.mp hx
    have hin' : 0 ≤ x + a.x ∧ 0 ≤ y + a.y := by
      simp only [LObs.inside, Bool.and_eq_true, decide_eq_true_eq] at hin
      exact ⟨hin.1.1.1, hin.1.1.2⟩
    rw [hsnap x y hx1 hy1 hx2 hy2]
    have e1 : (((x + a.x).toNat : Nat) : Int) = x + a.x := by omega
    have e2 : (((y + a.y).toNat : Nat) : Int) = y + a.y := by omega
    show l.getChar (x + a.x) (y + a.y) = l.getChar (((x + a.x).toNat : Nat) : Int) (((y + a.y).toNat : Nat) : Int)
    rw [e1, e2])]
  show (m.w, m.h, m.props, _) = (m.w, m.h, m.props, _)
  congr 3
  funext x' y'
  have hmin : ∀ X Y : Int, m.obs.inside X Y = (decide (0 ≤ X) && decide (0 ≤ Y) && decide (X < m.w) && decide (Y < m.h)) := fun _ _ => rfl
  have hlin : l.inside (x' : Int) (y' : Int) = (decide ((0 : Int) ≤ x') && decide ((0 : Int) ≤ y') && decide ((x' : Int) < l.w) && decide ((y' : Int) < l.h)) := rfl
  by_cases hc : a.isInside x' y' = true ∧ l.inside x' y' = true
  · obtain ⟨hc1, hc2⟩ := hc
    simp only [Rect.isInside, Bool.and_eq_true, decide_eq_true_eq] at hc1
    have hc2' := hc2
    rw [hlin] at hc2'
    simp only [Bool.and_eq_true, decide_eq_true_eq] at hc2'
    have hex : ∃ y ∈ intRange 0 a.h, ∃ x ∈ intRange 0 a.w,
        m.obs.inside (x + a.x) (y + a.y) = true ∧ x' = (x + a.x).toNat ∧ y' = (y + a.y).toNat := by
      refine ⟨(y' : Int) - a.y, mem_intRange.mpr ⟨by omega, by omega⟩, (x' : Int) - a.x, mem_intRange.mpr ⟨by omega, by omega⟩, ?_, by omega, by omega⟩
      rw [hmin]
      simp only [Bool.and_eq_true, decide_eq_true_eq]
      omega
    rw [if_pos hex, if_pos ⟨by simp only [Rect.isInside, Bool.and_eq_true, decide_eq_true_eq]; exact hc1, hc2⟩]
    simp only [LayerM.getChar, hc2, if_true, Int.toNat_natCast]
  · have hex : ¬ ∃ y ∈ intRange 0 a.h, ∃ x ∈ intRange 0 a.w,
        m.obs.inside (x + a.x) (y + a.y) = true ∧ x' = (x + a.x).toNat ∧ y' = (y + a.y).toNat := by
      rintro ⟨y, hy, x, hx, hin, rfl, rfl⟩
      obtain ⟨hy1, hy2⟩ := mem_intRange.mp hy
      obtain ⟨hx1, hx2⟩ := mem_intRange.mp hx
      rw [hmin] at hin
      simp only [Bool.and_eq_true, decide_eq_true_eq] at hin
      apply hc
      constructor
      · simp only [Rect.isInside, Bool.and_eq_true, decide_eq_true_eq]
        omega
      · rw [hlin]
        simp only [Bool.and_eq_true, decide_eq_true_eq]
        omega
    rw [if_neg hex, if_neg hc]
    rfl

/-! ## the frame of an area operation and the inverse law -/

/-- `l'` is `l` edited inside the area only: same size and properties, all cells outside `area ∩ layer` (hidden rows and
    cells included) untouched -/
def Frame (a : Rect) (o o' : LObs) : Prop :=
  o'.1 = o.1 ∧ o'.2.1 = o.2.1 ∧ o'.2.2.1 = o.2.2.1 ∧
    ∀ x y : Nat, ¬ (a.isInside x y = true ∧ o.inside x y = true) → o'.cells x y = o.cells x y

theorem Frame.refl (a : Rect) (o : LObs) : Frame a o o := ⟨rfl, rfl, rfl, fun _ _ _ => rfl⟩

theorem Frame.trans {a : Rect} {o1 o2 o3 : LObs} (h12 : Frame a o1 o2) (h23 : Frame a o2 o3) : Frame a o1 o3 := by
  obtain ⟨a1, a2, a3, a4⟩ := h12
  obtain ⟨b1, b2, b3, b4⟩ := h23
  refine ⟨b1.trans a1, b2.trans a2, b3.trans a3, ?_⟩
  intro x y hn
  have hin : o2.inside x y = o1.inside x y := by simp only [LObs.inside, a1, a2]
  rw [b4 x y (by rw [hin]; exact hn), a4 x y hn]

/-- a `set_char` at a position of the area keeps the frame -/
theorem Frame.setChar {a : Rect} {o0 o : LObs} (h : Frame a o0 o) (X Y : Int) (c : Cell) (hin : a.isInside X Y = true) :
    Frame a o0 (o.setChar X Y c) := by
  apply h.trans
  refine ⟨rfl, rfl, rfl, ?_⟩
  intro x y hn
  show (if o.writes X Y = true ∧ x = X.toNat ∧ y = Y.toNat then c else o.cells x y) = o.cells x y
  by_cases hw : o.writes X Y = true ∧ x = X.toNat ∧ y = Y.toNat
  · exfalso
    obtain ⟨hw1, rfl, rfl⟩ := hw
    have hi : o.inside X Y = true := by
      simp only [LObs.writes, Bool.and_eq_true] at hw1; exact hw1.1.1
    have hnn : 0 ≤ X ∧ 0 ≤ Y := by
      simp only [LObs.inside, Bool.and_eq_true, decide_eq_true_eq] at hi; exact ⟨hi.1.1.1, hi.1.1.2⟩
    have e1 : ((X.toNat : Nat) : Int) = X := by omega
    have e2 : ((Y.toNat : Nat) : Int) = Y := by omega
    apply hn
    rw [e1, e2]
    exact ⟨hin, hi⟩
  · rw [if_neg hw]

theorem Frame.foldl {α : Type} {a : Rect} {o0 : LObs} (step : LObs → α → LObs) (xs : List α)
    (hstep : ∀ o x, x ∈ xs → Frame a o0 o → Frame a o0 (step o x)) (o : LObs) (h : Frame a o0 o) : Frame a o0 (xs.foldl step o) := by
  induction xs generalizing o with
  | nil => exact h
  | cons x xs ih =>
    simp only [List.foldl_cons]
    exact ih (fun o x' hx' => hstep o x' (List.mem_cons_of_mem _ hx')) _ (hstep o x List.mem_cons_self h)

/-- **UndoLayerChange** — the full inverse law (after `fix: undo restores recorded cells directly…` and `fix:
    UndoLayerChange always stamps its snapshot…`): for every layer state (locked, hidden, alpha-locked, hidden rows and
    cells, rows not materialised, any offset), every area, whenever the two snapshots were taken with `from_layer` before
    and after an edit that stayed inside the area.  The record never changes. -/
theorem undoable_layerChange (d : Doc) (i : Nat) (a : Rect) (l l' old new : LayerM)
    (hl : d.layers[i]? = some l) (hold : fromLayer l a = .ok old) (hnew : fromLayer l' a = .ok new)
    (hframe : Frame a l.obs l'.obs) :
    Undoable (.layerChange i a.x a.y old new) d.obs (d.setLayer i l').obs := by
  obtain ⟨f1, f2, f3, f4⟩ := hframe
  have f1' : l'.w = l.w := f1
  have f2' : l'.h = l.h := f2
  have f3' : l'.props = l.props := f3
  have f4' : ∀ x y : Nat, ¬ (a.isInside x y = true ∧ l.inside x y = true) → rowsGet l'.lines x y = rowsGet l.lines x y := f4
  have hin : ∀ X Y, l'.inside X Y = l.inside X Y := by intro X Y; simp only [LayerM.inside, f1', f2']
  refine ⟨(· = .layerChange i a.x a.y old new), (· = .layerChange i a.x a.y old new), rfl, ?_, ?_⟩
  · intro o ho e' he'
    subst ho
    have hd' : (d.setLayer i l').layers[i]? = some l' := getElem?_setLayer_self d i _ l hl
    obtain ⟨m, hm1, hm2⟩ := obs_some he'.symm hd'
    have mw : m.w = l.w := (congrArg (·.1) hm2).trans f1'
    have mh : m.h = l.h := (congrArg (·.2.1) hm2).trans f2'
    have mp : m.props = l.props := (congrArg (·.2.2.1) hm2).trans f3'
    have mc : rowsGet m.lines = rowsGet l'.lines := congrArg (·.2.2.2) hm2
    refine ⟨_, e'.setLayer i (layerChangeApply m a.x a.y old), ?_, ?_, rfl⟩
    · simp [UndoOp.undo, onLayer, hm1]
    · have e1 : (layerChangeApply m a.x a.y old).obs = l.obs := by
        unfold layerChangeApply
        rw [stamp_snapshot l m old a hold mw mh]
        show (m.w, m.h, m.props, _) = (l.w, l.h, l.props, rowsGet l.lines)
        rw [mw, mh, mp]
        congr 3
        funext x' y'
        by_cases hc : a.isInside x' y' = true ∧ l.inside x' y' = true
        · rw [if_pos hc]
        · rw [if_neg hc, mc, f4' x' y' hc]
      rw [obs_setLayer, e1]
      have g1 := obs_w he'; have g2 := obs_h he'; have g3 := obs_layers he'; have g4 := obs_x he'
      refine DObs.ext' g1 g2 ?_ g4
      show (e'.layers.map LayerM.obs).set i l.obs = d.layers.map LayerM.obs
      rw [g3]
      show ((d.setLayer i _).layers.map LayerM.obs).set i l.obs = _
      simp only [Doc.setLayer, List.map_set, List.set_set]
      exact map_set_self _ _ _ _ hl
  · intro o ho e he
    subst ho
    obtain ⟨m, hm1, hm2⟩ := obs_some he.symm hl
    have mw : m.w = l.w := congrArg (·.1) hm2
    have mh : m.h = l.h := congrArg (·.2.1) hm2
    have mp : m.props = l.props := congrArg (·.2.2.1) hm2
    have mc : rowsGet m.lines = rowsGet l.lines := congrArg (·.2.2.2) hm2
    refine ⟨_, e.setLayer i (layerChangeApply m a.x a.y new), ?_, ?_, rfl⟩
    · simp [UndoOp.redo, onLayer, hm1]
    · apply obs_setLayer_congr he
      unfold layerChangeApply
      rw [stamp_snapshot l' m new a hnew (mw.trans f1'.symm) (mh.trans f2'.symm)]
      show (m.w, m.h, m.props, _) = (l'.w, l'.h, l'.props, rowsGet l'.lines)
      rw [mw, mh, mp, f1', f2', f3']
      congr 3
      funext x' y'
      by_cases hc : a.isInside x' y' = true ∧ l'.inside x' y' = true
      · rw [if_pos hc]
      · rw [if_neg hc, mc]
        rw [hin] at hc
        exact (f4' x' y' hc).symm

end IcyVerif.Undo
