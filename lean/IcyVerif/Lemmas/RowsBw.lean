import IcyVerif.Lemmas.TermSize
set_option linter.unusedSimpArgs false
set_option linter.unusedVariables false
/-! # The buffer WIDTH stays in 1..=132 along every stream
`GoodSt` (the invariant of C01 / C09) says nothing about the buffer width `bw` (`Buffer::get_width`): cursor geometry
does not read it.  The content operations do — `get_last_editable_column` is `bw - 1` when there are no left/right
margins, and `scroll_left` / `scroll_right` turn that into a column index.  Only `clear_screen` and `Caret::ff` write
`bw` (`set_size(terminal_state.get_size())`), and they set it to the terminal width, which `ScrOk` bounds. -/
namespace IcyVerif.Term

def BwOk (s : Scr) : Prop := 1 ≤ s.bw ∧ s.bw ≤ 132

/-- one step keeps the buffer width or sets it to a value in range -/
def BwStep (st st' : St) : Prop := st'.s.bw = st.s.bw ∨ BwOk st'.s
abbrev BwR (st : St) (r : St × Out) : Prop := BwStep st r.1

theorem bwStep_refl (st : St) : BwStep st st := Or.inl rfl
theorem bwStep_trans {a b c : St} (h1 : BwStep a b) (h2 : BwStep b c) : BwStep a c := by
  cases h2 with
  | inr h => exact Or.inr h
  | inl h =>
    cases h1 with
    | inl g => exact Or.inl (h.trans g)
    | inr g => exact Or.inr (by unfold BwOk at *; rw [h]; exact g)
theorem bwStep_same (st x : St) (h : x.s.bw = st.s.bw) : BwStep st x := Or.inl h
theorem bwOk_of_step {st st' : St} (h : BwStep st st') (h0 : BwOk st.s) : BwOk st'.s := by
  cases h with
  | inl g => unfold BwOk at *; rw [g]; exact h0
  | inr g => exact g

theorem ret_bw (st x : St) (o : Out) (h : x.s.bw = st.s.bw) : okThen (ret x o) (BwR st) := bwStep_same st x h
/-- clear screen / form feed: the buffer gets the terminal's width -/
theorem ret_bw_tw (st x : St) (o : Out) (h : x.s.bw = st.s.tw) (hk : ScrOk st.s) : okThen (ret x o) (BwR st) :=
  Or.inr (by unfold BwOk; rw [h]; exact ⟨hk.tw1, hk.tw2⟩)
theorem liftC_bw (st d : St) (r : Res Car) (o : Out) (h : d.s.bw = st.s.bw) : okThen (liftC d r o) (BwR st) := by
  cases r with
  | ok c => exact bwStep_same st _ h
  | error e => trivial

def KeepsBw (s : Scr) (r : Res (Scr × Car)) : Prop := okThen r (fun p => p.1.bw = s.bw)

theorem lf_keepsBw (s : Scr) (c : Car) : KeepsBw s (lf s c) := by
  unfold KeepsBw lf
  simp only []
  split
  · split
    · rfl
    · trivial
  · rfl

theorem printChar_keepsBw (s : Scr) (c : Car) : KeepsBw s (printChar s c) := by
  unfold KeepsBw printChar
  simp only []
  apply okThen_ite
  · intro _; trivial
  · intro _
    apply okThen_ite
    · intro _; trivial
    · intro _
      apply okThen_ite
      · intro _
        apply okThen_ite
        · intro _; exact lf_keepsBw { s with bh := max s.bh (c.y + 1) } _
        · intro _; rfl
      · intro _; rfl

theorem printN_keepsBw : ∀ (n : Nat) (s : Scr) (c : Car), KeepsBw s (printN n s c) := by
  intro n
  induction n with
  | zero => intro s c; rfl
  | succ n ih =>
    intro s c
    unfold KeepsBw printN
    apply okThen_ite
    · intro _; trivial
    · intro _
      have hp := printChar_keepsBw s c
      cases hpc : printChar s c with
      | error e => trivial
      | ok r =>
        obtain ⟨s1, c1⟩ := r
        rw [hpc] at hp
        have h2 := ih s1 c1
        show okThen (printN n s1 c1) _
        cases hn : printN n s1 c1 with
        | error e => trivial
        | ok r2 =>
          rw [hn] at h2
          exact h2.trans hp

theorem liftSC_bw (st d : St) (r : Res (Scr × Car)) (o : Out) (hk : KeepsBw st.s r) : okThen (liftSC d r o) (BwR st) := by
  cases r with
  | ok p => obtain ⟨s', c'⟩ := p; exact bwStep_same st _ hk
  | error e => trivial

theorem numChar_bw (st st' : St) (ch : Char) (he : numChar st ch = some st') : BwStep st st' := by
  unfold numChar at he
  split at he
  · cases he; exact bwStep_refl _
  · split at he
    · cases he; exact bwStep_refl _
    · cases he

macro "barm" : tactic => `(tactic| first
  | exact ret_bw _ _ _ rfl
  | exact liftC_bw _ _ _ _ rfl
  | exact liftSC_bw _ _ _ _ (lf_keepsBw _ _)
  | exact liftSC_bw _ _ _ _ (printChar_keepsBw _ _)
  | exact liftSC_bw _ _ _ _ (printN_keepsBw _ _ _)
  | exact ret_bw_tw _ _ _ rfl (by assumption)
  | (rename_i hh; exact numChar_bw _ _ _ hh)
  | trivial)

theorem csiFinal_bw (cfg : Cfg) (o : Orc) (st : St) (isStart : Bool) (ch : Char) (hk : ScrOk st.s) :
    okThen (csiFinal cfg o st isStart ch) (BwR st) := by
  unfold csiFinal
  simp only [left, right, up, down]
  repeat' (first | (apply okThen_ite <;> intro _) | split)
  all_goals barm

theorem escChar_bw (st : St) (ch : Char) (hk : ScrOk st.s) : okThen (escChar st ch) (BwR st) := by
  unfold escChar
  simp only [index, reverseIndex, nextLine]
  repeat' (first | (apply okThen_ite <;> intro _) | split)
  all_goals barm

theorem dfltChar_bw (cfg : Cfg) (st d : St) (ch : Char) (hs : d.s = st.s) (hk : ScrOk st.s) :
    okThen (dfltChar cfg d ch) (BwR st) := by
  have hk' : ScrOk d.s := by rw [hs]; exact hk
  have hb : d.s.bw = st.s.bw := by rw [hs]
  have key : okThen (dfltChar cfg d ch) (BwR d) := by
    unfold dfltChar
    simp only []
    repeat' (first | (apply okThen_ite <;> intro _) | split)
    all_goals barm
  exact okThen_mono' key (fun r hr => bwStep_trans (bwStep_same st d hb) hr)

theorem csiCmd_bw (st : St) (ch : Char) : okThen (csiCmd st ch) (BwR st) := by
  unfold csiCmd
  simp only []
  repeat' (first | (apply okThen_ite <;> intro _) | split)
  all_goals barm

theorem csiReq_bw (st : St) (ch : Char) : okThen (csiReq st ch) (BwR st) := by
  unfold csiReq setSpecificMargin
  simp only []
  repeat' (first | (apply okThen_ite <;> intro _) | split)
  all_goals barm

theorem devAttr_bw (st : St) (ch : Char) : okThen (devAttr st ch) (BwR st) := by
  unfold devAttr
  repeat' (first | (apply okThen_ite <;> intro _) | split)
  all_goals barm

/-- what the macro invoker must guarantee -/
def InvBw (inv : Int → St → Res St) : Prop := ∀ id d st', GoodSt d → inv id d = .ok st' → BwStep d st'

theorem endCsi_bw (o : Orc) (inv : Int → St → Res St) (st : St) (f ch : Char) (hinv : InvBw inv) (h : GoodSt st) :
    okThen (endCsi o inv st f ch) (BwR st) := by
  unfold endCsi
  simp only []
  repeat' (first | (apply okThen_ite <;> intro _) | split)
  all_goals first
    | barm
    | (rename_i hh; have h2 := hinv _ _ _ (by exact good_keep st _ h rfl) hh; exact bwStep_trans (bwStep_same st _ rfl) h2)

theorem stepCore_bw (cfg : Cfg) (o : Orc) (inv : Int → St → Res St) (st : St) (ch : Char) (hinv : InvBw inv)
    (h : GoodSt st) : okThen (stepCore cfg o inv st ch) (BwR st) := by
  have hk : ScrOk st.s := h.1
  unfold stepCore
  apply okThen_ite
  · intro _; trivial
  · intro _
    split
    · exact ret_bw _ _ _ rfl
    · exact escChar_bw st ch hk
    · repeat' (first | (apply okThen_ite <;> intro _) | split)
      all_goals barm
    · repeat' (first | (apply okThen_ite <;> intro _) | split)
      all_goals barm
    · -- dcsMacro
      simp only []
      repeat' (first | (apply okThen_ite <;> intro _) | split)
      all_goals first
        | barm
        | (rename_i hh; have h2 := hinv _ _ _ (by exact good_keep st _ h rfl) hh; exact bwStep_trans (bwStep_same st _ rfl) h2)
    · repeat' (first | (apply okThen_ite <;> intro _) | split)
      all_goals barm
    · -- dcsEsc
      apply okThen_ite
      · intro _
        generalize executeDcs { st.p with st := .dflt } o = r
        obtain ⟨p, out⟩ := r
        exact ret_bw _ _ _ rfl
      · intro _
        repeat' (first | (apply okThen_ite <;> intro _) | split)
        all_goals barm
    · repeat' (first | (apply okThen_ite <;> intro _) | split)
      all_goals barm
    · repeat' (first | (apply okThen_ite <;> intro _) | split)
      all_goals barm
    · exact csiCmd_bw st ch
    · exact csiReq_bw st ch
    · -- rip
      apply okThen_ite
      · intro _; exact ret_bw _ _ _ rfl
      · intro _; exact dfltChar_bw cfg st (dflt st) ch rfl hk
    · exact devAttr_bw st ch
    · exact endCsi_bw o inv st _ ch hinv h
    · exact csiFinal_bw cfg o st _ ch hk
    · exact dfltChar_bw cfg st st ch rfl hk

theorem replay_bw (stepf : St → Char → R) (hgood : ∀ st ch, GoodSt st → okOrOv (stepf st ch) GoodR)
    (hbw : ∀ st ch, GoodSt st → okThen (stepf st ch) (BwR st)) :
    ∀ (body : List Char) (st st' : St), GoodSt st → replay stepf body st = .ok st' → BwStep st st' := by
  intro body
  induction body with
  | nil => intro st st' _ h; simp only [replay] at h; cases h; exact bwStep_refl _
  | cons ch rest ih =>
    intro st st' hg h
    unfold replay at h
    split at h
    · cases h; exact bwStep_refl _
    · have hg1 : GoodSt { st with p := { st.p with budget := st.p.budget - 1 } } := good_keep st _ hg rfl
      have h2 := hbw _ ch hg1
      have h3 := hgood _ ch hg1
      simp only [] at h
      cases hs : stepf { st with p := { st.p with budget := st.p.budget - 1 } } ch with
      | error e => rw [hs] at h; cases h
      | ok r =>
        rw [hs] at h h2 h3
        obtain ⟨st1, out⟩ := r
        exact bwStep_trans (bwStep_trans (bwStep_same st _ rfl) h2) (ih st1 st' h3 h)

theorem invoker_bw (stepf : St → Char → R) (top : Bool) (hgood : ∀ st ch, GoodSt st → okOrOv (stepf st ch) GoodR)
    (hbw : ∀ st ch, GoodSt st → okThen (stepf st ch) (BwR st)) : InvBw (invoker stepf top) := by
  intro id d st' hg h
  unfold invoker at h
  split at h
  · cases h; exact bwStep_refl _
  · split at h
    · have h2 := replay_bw stepf hgood hbw _ _ _ (by exact good_keep d _ hg rfl) h
      exact bwStep_trans (bwStep_same d _ rfl) h2
    · exact replay_bw stepf hgood hbw _ _ _ hg h

theorem stepD_bw : ∀ (d : Nat) (cfg : Cfg) (o : Nat → Orc) (st : St) (ch : Char), GoodSt st →
    okThen (stepD d cfg o st ch) (BwR st) := by
  intro d
  induction d with
  | zero =>
    intro cfg o st ch hg
    unfold stepD
    have h := stepCore_bw cfg (o st.p.tick) (fun _ st => .ok st) (tickSt st) ch
      (fun id d st' _ hh => by cases hh; exact bwStep_refl _) (good_keep st _ hg rfl)
    cases hs : stepCore cfg (o st.p.tick) (fun _ st => .ok st) (tickSt st) ch with
    | error e => trivial
    | ok r => rw [hs] at h; exact bwStep_trans (bwStep_same st (tickSt st) rfl) h
  | succ d ih =>
    intro cfg o st ch hg
    unfold stepD
    have h := stepCore_bw cfg (o st.p.tick) (invoker (stepD d cfg o) (decide (d + 1 = MAX_MACRO_DEPTH))) (tickSt st) ch
      (invoker_bw _ _ (fun st ch hs => stepD_good d cfg o st ch hs) (fun st ch hs => ih cfg o st ch hs)) (good_keep st _ hg rfl)
    cases hs : stepCore cfg (o st.p.tick) (invoker (stepD d cfg o) (decide (d + 1 = MAX_MACRO_DEPTH))) (tickSt st) ch with
    | error e => trivial
    | ok r => rw [hs] at h; exact bwStep_trans (bwStep_same st (tickSt st) rfl) h

/-- along one character of the ANSI parser the buffer width is kept or set to the terminal width -/
theorem step_bw (cfg : Cfg) (o : Nat → Orc) (st : St) (ch : Char) (hg : GoodSt st) : okThen (step cfg o st ch) (BwR st) :=
  stepD_bw _ cfg o st ch hg

/-! ## wrappers -/
abbrev BwW (w : WSt) (r : WSt × Out) : Prop := BwStep w.inner r.1.inner

theorem inner_bw (w : WSt) (o : Nat → Orc) (ch : Char) (h : GoodSt w.inner) : okThen (inner w o ch) (BwW w) := by
  unfold inner
  have hs := step_bw wcfg o w.inner ch h
  cases hst : step wcfg o w.inner ch with
  | error e => trivial
  | ok r => rw [hst] at hs; obtain ⟨st, out⟩ := r; exact hs

theorem wlimit_bw (w w0 : WSt) (c : Car) (out : Out) (h : w.inner = w0.inner) : okThen (wlimit w c out) (BwW w0) := by
  unfold wlimit
  cases hl : limit w.inner.s c with
  | error e => trivial
  | ok c' => exact bwStep_same _ _ (by rw [← h])

theorem avtRepeat_bw (o : Nat → Orc) (ch : Char) : ∀ (n : Nat) (w : WSt), GoodSt w.inner →
    okThen (avtRepeat o ch n w) (BwW w) := by
  intro n
  induction n with
  | zero => intro w _; exact bwStep_refl _
  | succ n ih =>
    intro w hg
    unfold avtRepeat
    have hs := step_bw wcfg o w.inner ch hg
    have hgd := step_good wcfg o w.inner ch hg
    cases hst : step wcfg o w.inner ch with
    | error e => trivial
    | ok r =>
      rw [hst] at hs hgd
      obtain ⟨st, out⟩ := r
      have h2 := ih { w with inner := st } hgd
      cases out with
      | err => exact hs
      | ok =>
        show okThen (avtRepeat o ch n { w with inner := st }) _
        cases hr : avtRepeat o ch n { w with inner := st } with
        | error e => trivial
        | ok r2 => rw [hr] at h2; exact bwStep_trans hs h2
      | resize =>
        show okThen (avtRepeat o ch n { w with inner := st }) _
        cases hr : avtRepeat o ch n { w with inner := st } with
        | error e => trivial
        | ok r2 => rw [hr] at h2; exact bwStep_trans hs h2

theorem wok_bw (w x : WSt) (out : Out) (h1 : x.inner.s.bw = w.inner.s.bw) : okThen (.ok (x, out) : WR) (BwW w) :=
  bwStep_same _ _ h1
theorem wok_bw_tw (w x : WSt) (out : Out) (h1 : x.inner.s.bw = w.inner.s.tw) (hk : ScrOk w.inner.s) :
    okThen (.ok (x, out) : WR) (BwW w) := Or.inr (by unfold BwOk; rw [h1]; exact ⟨hk.tw1, hk.tw2⟩)

theorem avatarStep_bw (w : WSt) (o : Nat → Orc) (ch : Char) (h : GoodSt w.inner) : okThen (avatarStep w o ch) (BwW w) := by
  have hk := h.1
  unfold avatarStep
  simp only []
  split
  · repeat' (first | (apply okThen_ite <;> intro _))
    all_goals first
      | exact wok_bw _ _ _ rfl
      | exact wok_bw_tw _ _ _ rfl hk
      | exact inner_bw w o ch h
  · repeat' (first | (apply okThen_ite <;> intro _))
    all_goals first
      | exact wok_bw _ _ _ rfl
      | exact wlimit_bw _ _ _ _ rfl
  · repeat' (first | (apply okThen_ite <;> intro _))
    · exact wok_bw _ _ _ rfl
    · have hr := avtRepeat_bw o w.avtChar (min ch.toNat 255) { w with avt := .repeatChars 3 } h
      cases hrr : avtRepeat o w.avtChar (min ch.toNat 255) { w with avt := .repeatChars 3 } with
      | error e => trivial
      | ok r =>
        rw [hrr] at hr
        obtain ⟨w', out⟩ := r
        cases out <;> exact hr
    · exact wok_bw _ _ _ rfl
  · exact wok_bw _ _ _ rfl
  · repeat' (first | (apply okThen_ite <;> intro _))
    all_goals first
      | exact wok_bw _ _ _ rfl
      | exact wlimit_bw _ _ _ _ rfl

theorem pcboardStep_bw (w : WSt) (o : Nat → Orc) (ch : Char) (h : GoodSt w.inner) : okThen (pcboardStep w o ch) (BwW w) := by
  unfold pcboardStep
  simp only []
  repeat' (first | (apply okThen_ite <;> intro _))
  all_goals first | exact wok_bw _ _ _ rfl | exact inner_bw w o ch h

theorem renegadeStep_bw (w : WSt) (o : Nat → Orc) (ch : Char) (h : GoodSt w.inner) : okThen (renegadeStep w o ch) (BwW w) := by
  unfold renegadeStep
  simp only []
  repeat' (first | (apply okThen_ite <;> intro _))
  all_goals first | exact wok_bw _ _ _ rfl | exact inner_bw w o ch h

theorem ctrlaStep_bw (w : WSt) (o : Nat → Orc) (ch : Char) (h : GoodSt w.inner) : okThen (ctrlaStep w o ch) (BwW w) := by
  have hk := h.1
  unfold ctrlaStep
  simp only []
  repeat' (first | (apply okThen_ite <;> intro _))
  all_goals first
    | exact wok_bw _ _ _ rfl
    | exact wok_bw_tw _ _ _ rfl hk
    | exact inner_bw w o ch h
    | exact wlimit_bw _ _ _ _ rfl
    | skip
  · have hs := step_bw wcfg o w.inner '\x01' h
    cases hst : step wcfg o w.inner '\x01' with
    | error e => simp only [hst]; trivial
    | ok r => simp only [hst]; rw [hst] at hs; obtain ⟨st, out⟩ := r; exact hs

theorem wstep_bw (e : Emu) (o : Nat → Orc) (w : WSt) (ch : Char) (h : GoodSt w.inner) : okThen (wstep e o w ch) (BwW w) := by
  unfold wstep
  apply okThen_ite
  · intro _; trivial
  · intro _
    cases e with
    | avatar => exact avatarStep_bw w o ch h
    | pcboard => exact pcboardStep_bw w o ch h
    | ctrla => exact ctrlaStep_bw w o ch h
    | renegade => exact renegadeStep_bw w o ch h

/-! ## byte-oriented emulations -/
abbrev BwO (st : OSt) (r : OSt × Out) : Prop := r.1.s.bw = st.s.bw ∨ BwOk r.1.s

theorem oret_bw (st x : OSt) (o : Out) (h : x.s.bw = st.s.bw) : okThen (oret x o) (BwO st) := Or.inl h
theorem oret_bw_tw (st x : OSt) (o : Out) (h : x.s.bw = st.s.tw) (hk : ScrOk st.s) : okThen (oret x o) (BwO st) :=
  Or.inr (by unfold BwOk; rw [h]; exact ⟨hk.tw1, hk.tw2⟩)
theorem oliftC_bw (st x : OSt) (r : Res Car) (h : x.s.bw = st.s.bw) : okThen (oliftC x r) (BwO st) := by
  cases r with
  | ok c => exact Or.inl h
  | error e => trivial
theorem oliftSC_bw (st x : OSt) (r : Res (Scr × Car)) (hk : KeepsBw st.s r) : okThen (oliftSC x r) (BwO st) := by
  cases r with
  | ok p => obtain ⟨s', c'⟩ := p; exact Or.inl hk
  | error e => trivial
theorem printValue_bw (st x : OSt) (v : Nat) (h : x.s = st.s) : okThen (printValue x v) (BwO st) := by
  unfold printValue
  apply okThen_ite
  · intro _; exact Or.inl (by rw [h])
  · intro _; rw [h]; exact oliftSC_bw st x _ (printChar_keepsBw _ _)

macro "oarm" : tactic => `(tactic| first
  | exact oret_bw _ _ _ rfl
  | exact oret_bw_tw _ _ _ rfl (by assumption)
  | exact oliftC_bw _ _ _ rfl
  | exact oliftSC_bw _ _ _ (lf_keepsBw _ _)
  | exact oliftSC_bw _ _ _ (printChar_keepsBw _ _)
  | exact printValue_bw _ _ _ rfl
  | trivial)

theorem ostep_bw (e : Emu2) (st : OSt) (ch : Char) (hk : ScrOk st.s) : okThen (ostep e st ch) (BwO st) := by
  unfold ostep
  apply okThen_ite
  · intro _; trivial
  · intro _
    cases e with
    | ascii =>
      show okThen (asciiStep st ch) _
      unfold asciiStep
      simp only []
      repeat' (first | (apply okThen_ite <;> intro _) | split)
      all_goals oarm
    | atascii =>
      show okThen (atasciiStep st ch) _
      unfold atasciiStep
      simp only [up, down, left, right]
      repeat' (first | (apply okThen_ite <;> intro _) | split)
      all_goals oarm
    | petscii =>
      show okThen (petsciiStep st ch) _
      unfold petsciiStep
      simp only [up, down, left, right]
      repeat' (first | (apply okThen_ite <;> intro _) | split)
      all_goals oarm
    | viewdata =>
      show okThen (viewdataStep st ch) _
      unfold viewdataStep
      simp only []
      repeat' (first | (apply okThen_ite <;> intro _) | split)
      all_goals oarm
    | mode7 =>
      show okThen (mode7Step st ch) _
      unfold mode7Step m7Right
      simp only [index]
      repeat' (first | (apply okThen_ite <;> intro _) | split)
      all_goals oarm

end IcyVerif.Term
