import IcyVerif.Lemmas.BinFormatsTndBytes
set_option linter.unusedSimpArgs false
set_option linter.unusedVariables false
/-!
# C05, Tundra: the whole cell stream — writer output vs loader state, by induction over the cells
-/
namespace IcyVerif.BinFormats
open IcyVerif.XbCompress IcyVerif.Gen

def withPal (b : LBuf) (q : List Rgb) : LBuf := { b with pal := q }

theorem setChar_pal (b : LBuf) (q : List Rgb) (x y : Nat) (c : Cell) :
    (withPal b q).setChar x y c = withPal (b.setChar x y c) q := by
  unfold LBuf.setChar withPal
  by_cases h : x ≥ b.lw ∨ (y : Int) ≥ b.lh <;> simp [h]

theorem setChar_bw (b : LBuf) (x y : Nat) (c : Cell) : (b.setChar x y c).bw = b.bw := by
  unfold LBuf.setChar
  by_cases h : x ≥ b.lw ∨ (y : Int) ≥ b.lh <;> simp [h]

theorem placeCell_pal (gl gb : Bool) (x0 xl : Nat) (b : LBuf) (q : List Rgb) (x y : Nat) (c : Cell) :
    placeCell gl gb x0 xl (withPal b q, x, y) c =
      (withPal (placeCell gl gb x0 xl (b, x, y) c).1 q, (placeCell gl gb x0 xl (b, x, y) c).2) := by
  unfold placeCell
  have e : (if gb then ({ (if gl then ({ withPal b q with lh := (y : Int) + 1 } : LBuf) else withPal b q) with bh := (y : Int) + 1 } : LBuf)
       else (if gl then ({ withPal b q with lh := (y : Int) + 1 } : LBuf) else withPal b q)) =
      withPal (if gb then ({ (if gl then ({ b with lh := (y : Int) + 1 } : LBuf) else b) with bh := (y : Int) + 1 } : LBuf)
       else (if gl then ({ b with lh := (y : Int) + 1 } : LBuf) else b)) q := by
    cases gl <;> cases gb <;> rfl
  simp only [e, setChar_pal]
  by_cases h : x + 1 > xl <;> simp [h]

theorem placeCell_bw (gl gb : Bool) (x0 xl : Nat) (b : LBuf) (x y : Nat) (c : Cell) :
    (placeCell gl gb x0 xl (b, x, y) c).1.bw = b.bw := by
  unfold placeCell
  by_cases h : x + 1 > xl <;> simp only [h, if_true, if_false, setChar_bw] <;> cases gl <;> cases gb <;> rfl

theorem placeAll_pal (gl gb : Bool) (x0 xl : Nat) : ∀ (cs : List Cell) (b : LBuf) (q : List Rgb) (x y : Nat),
    placeAll gl gb x0 xl (withPal b q) x y cs =
      (withPal (placeAll gl gb x0 xl b x y cs).1 q, (placeAll gl gb x0 xl b x y cs).2) := by
  intro cs
  induction cs with
  | nil => intro b q x y; rfl
  | cons c cs ih =>
    intro b q x y
    unfold placeAll at ih ⊢
    simp only [List.foldl_cons]
    rw [placeCell_pal]
    obtain ⟨b', x', y'⟩ := placeCell gl gb x0 xl (b, x, y) c
    exact ih b' q x' y'

theorem withPal_withPal (b : LBuf) (q r : List Rgb) : withPal (withPal b q) r = withPal b r := rfl

/-- `set_height; set_char; advance_pos` of the loader on a position inside the non-negative quadrant is `placeCell` -/
theorem tndPut_nat (sl : TL) (xn yn : Nat) (ch : Nat) (hx : sl.x = (xn : Int)) (hy : sl.y = (yn : Int)) (hbw : 1 ≤ sl.buf.bw) :
    tndPut sl ch =
      { sl with buf := (placeCell true false 0 (sl.buf.bw - 1) (sl.buf, xn, yn) ⟨ch, ⟨sl.fg, sl.bg, 0, Xb.defaultPage⟩⟩).1,
                x := ((placeCell true false 0 (sl.buf.bw - 1) (sl.buf, xn, yn) ⟨ch, ⟨sl.fg, sl.bg, 0, Xb.defaultPage⟩⟩).2.1 : Nat),
                y := ((placeCell true false 0 (sl.buf.bw - 1) (sl.buf, xn, yn) ⟨ch, ⟨sl.fg, sl.bg, 0, Xb.defaultPage⟩⟩).2.2 : Nat) } := by
  unfold tndPut placeCell LBuf.setCharI
  rw [hx, hy]
  have h0 : ¬ ((xn : Int) < 0 ∨ (yn : Int) < 0) := by omega
  simp only [h0, if_false, Int.toNat_natCast, if_true, Bool.false_eq_true]
  have hb : (({ sl.buf with lh := (yn : Int) + 1 } : LBuf).setChar xn yn ⟨ch, ⟨sl.fg, sl.bg, 0, Xb.defaultPage⟩⟩).bw = sl.buf.bw := setChar_bw _ _ _ _
  rw [hb]
  by_cases hw : xn + 1 > sl.buf.bw - 1
  · have : (xn : Int) + 1 ≥ (sl.buf.bw : Int) := by omega
    simp only [hw, this, if_true]
    rfl
  · have : ¬ ((xn : Int) + 1 ≥ (sl.buf.bw : Int)) := by omega
    simp only [hw, this, if_false]
    rfl

/-- the loader state after the cells `cells`, started at column `xn`, row `yn` -/
def runResult (P : List Rgb) (js : JS) (sl : TL) (xn yn : Nat) (cells : List Cell) : TL :=
  { buf := withPal (placeAll true false 0 (sl.buf.bw - 1) sl.buf xn yn (jrow P js cells).2).1 (jrow P js cells).1.lpal,
    fg := (jrow P js cells).1.lfg, bg := (jrow P js cells).1.lbg,
    x := ((placeAll true false 0 (sl.buf.bw - 1) sl.buf xn yn (jrow P js cells).2).2.1 : Nat),
    y := ((placeAll true false 0 (sl.buf.bw - 1) sl.buf xn yn (jrow P js cells).2).2.2 : Nat) }

theorem tnd_run (P : List Rgb) : ∀ (cells : List Cell) (js : JS) (sw : TW) (sl : TL) (xn yn idx F : Nat) (X : List Nat),
    sw.attr = js.wattr → sw.first = js.first → sw.skip = none →
    sl.buf.pal = js.lpal → sl.fg = js.lfg → sl.bg = js.lbg → sl.x = (xn : Int) → sl.y = (yn : Int) → 1 ≤ sl.buf.bw →
    (∀ c ∈ cells, isVisible c = true ∧ c.ch ≤ 255) →
    ∃ bytes, tndCells P sw idx cells =
        some { out := sw.out ++ bytes, attr := (jrow P js cells).1.wattr, first := (jrow P js cells).1.first, skip := none } ∧
      tndLoop (F + cells.length) (bytes ++ X) sl = tndLoop F X (runResult P js sl xn yn cells) ∧ cells.length ≤ bytes.length := by
  intro cells
  induction cells with
  | nil =>
    intro js sw sl xn yn idx F X ha hf hs hp hfg hbg hx hy _ _
    refine ⟨[], ?_, ?_, Nat.le_refl _⟩
    · simp only [tndCells, jrow, List.append_nil]
      cases sw; simp only at ha hf hs; rw [ha, hf, hs]
    · simp only [List.nil_append, List.length_nil, Nat.add_zero, runResult, jrow, placeAll, List.foldl_nil]
      congr 1
      cases sl with
      | mk buf fg bg x y =>
        simp only at hp hfg hbg hx hy
        subst hfg; subst hbg; subst hx; subst hy
        cases buf
        simp only at hp
        simp [withPal, hp]
  | cons c cs ih =>
    intro js sw sl xn yn idx F X ha hf hs hp hfg hbg hx hy hbw hcells
    obtain ⟨hv, hc⟩ := hcells c (by simp)
    have hw := tndCell_eq P sw js idx c ha hf hv hc
    -- state after the first cell
    let js1 := (jstep P js c).1
    let cell1 := (jstep P js c).2
    let sl0 : TL := { sl with buf := { sl.buf with pal := js1.lpal }, fg := js1.lfg, bg := js1.lbg }
    have hput := tndPut_nat sl0 xn yn c.ch hx hy hbw
    let pc := placeCell true false 0 (sl.buf.bw - 1) (sl.buf, xn, yn) cell1
    have hpc : placeCell true false 0 (sl0.buf.bw - 1) (sl0.buf, xn, yn) ⟨c.ch, ⟨sl0.fg, sl0.bg, 0, Xb.defaultPage⟩⟩ = (withPal pc.1 js1.lpal, pc.2) := by
      show placeCell true false 0 (sl.buf.bw - 1) (withPal sl.buf js1.lpal, xn, yn) cell1 = _
      exact placeCell_pal _ _ _ _ _ _ _ _ _
    rw [hpc] at hput
    let sl1 : TL := { buf := withPal pc.1 js1.lpal, fg := js1.lfg, bg := js1.lbg, x := (pc.2.1 : Nat), y := (pc.2.2 : Nat) }
    have hsl1 : tndPut sl0 c.ch = sl1 := hput
    have hbw1 : sl1.buf.bw = sl.buf.bw := placeCell_bw _ _ _ _ _ _ _ _
    obtain ⟨bytes', hw', hl', hlen'⟩ := ih js1
      ({ out := sw.out ++ tndChunk P js c, attr := js1.wattr, first := false, skip := sw.skip } : TW) sl1 pc.2.1 pc.2.2 (idx + 1) F X
      rfl (by show false = (jstep P js c).1.first; unfold jstep; rfl) hs rfl rfl rfl rfl rfl (by rw [hbw1]; exact hbw)
      (fun d hd => hcells d (by simp [hd]))
    have hchunk1 : 1 ≤ (tndChunk P js c).length := by
      unfold tndChunk
      by_cases h : (wfOf P js c || wbOf P js c) = true <;> simp [h]
    refine ⟨tndChunk P js c ++ bytes', ?_, ?_, ?_⟩
    · unfold tndCells
      rw [hw]
      simp only
      rw [hw']
      simp only [jrow, List.append_assoc]
      rfl
    · have e1 : F + (c :: cs).length = (F + cs.length) + 1 := by simp only [List.length_cons]; omega
      rw [e1, List.append_assoc, tndLoop_chunk P js c (F + cs.length) (bytes' ++ X) sl hp hfg hbg]
      show tndLoop (F + cs.length) (bytes' ++ X) (tndPut sl0 c.ch) = _
      rw [hsl1, hl']
      congr 1
      -- the two descriptions of the final state agree
      unfold runResult
      have hb : sl1.buf.bw = sl.buf.bw := hbw1
      have hpa : placeAll true false 0 (sl1.buf.bw - 1) sl1.buf pc.2.1 pc.2.2 (jrow P js1 cs).2 =
          (withPal (placeAll true false 0 (sl.buf.bw - 1) pc.1 pc.2.1 pc.2.2 (jrow P js1 cs).2).1 js1.lpal,
           (placeAll true false 0 (sl.buf.bw - 1) pc.1 pc.2.1 pc.2.2 (jrow P js1 cs).2).2) := by
        rw [hb]
        exact placeAll_pal _ _ _ _ _ _ _ _ _
      have hcons : placeAll true false 0 (sl.buf.bw - 1) sl.buf xn yn (jrow P js (c :: cs)).2 =
          placeAll true false 0 (sl.buf.bw - 1) pc.1 pc.2.1 pc.2.2 (jrow P js1 cs).2 := by
        simp only [jrow, placeAll, List.foldl_cons]
        rfl
      rw [hpa, hcons]
      simp only [jrow, withPal_withPal]
      rfl
    · simp only [List.length_cons, List.length_append]
      omega

end IcyVerif.BinFormats
