import IcyVerif.Model.SixelQueue
set_option linter.unusedSimpArgs false
set_option linter.unusedVariables false
/-! Invariant of the decode queue: the layer is the arrival-order placement of the popped prefix. -/
namespace IcyVerif.SixelQueue

def ids (q : List (Nat × Option Res)) : List Nat := q.map (·.1)

/-- every handle in the queue is either still running or holds exactly the result of its payload -/
def Entries (cfg : Cfg) (q : List (Nat × Option Res)) : Prop := ∀ e ∈ q, e.2 = none ∨ e.2 = some (cfg.res e.1)

/-- `arr` = ids arrived so far; `popped` of them were popped, the rest is the queue (same order) -/
structure Good (cfg : Cfg) (arr popped : List Nat) (s : St) : Prop where
  split : arr = popped ++ ids s.queue
  log : s.log = okIds cfg popped
  layer : s.layer = placeAll cfg (okImgs cfg popped)
  entries : Entries cfg s.queue

theorem pollLoop_nil (cfg : Cfg) (layer : List Img) (log : List Nat) (upd : Bool) :
    pollLoop cfg [] layer log upd = (⟨[], layer, log⟩, .ok upd) := rfl
theorem pollLoop_none (cfg : Cfg) (id : Nat) (q : List (Nat × Option Res)) (layer : List Img) (log : List Nat) (upd : Bool) :
    pollLoop cfg ((id, none) :: q) layer log upd = (⟨(id, none) :: q, layer, log⟩, .ok false) := rfl
theorem pollLoop_panicked (cfg : Cfg) (id : Nat) (q : List (Nat × Option Res)) (layer : List Img) (log : List Nat) (upd : Bool) :
    pollLoop cfg ((id, some .panicked) :: q) layer log upd = pollLoop cfg q layer log upd := rfl
theorem pollLoop_err (cfg : Cfg) (id : Nat) (q : List (Nat × Option Res)) (layer : List Img) (log : List Nat) (upd : Bool) :
    pollLoop cfg ((id, some .err) :: q) layer log upd = (⟨q, layer, log⟩, .err) := rfl
theorem pollLoop_ok (cfg : Cfg) (id : Nat) (img : Img) (q : List (Nat × Option Res)) (layer : List Img) (log : List Nat) (upd : Bool) :
    pollLoop cfg ((id, some (.ok img)) :: q) layer log upd = pollLoop cfg q (place cfg layer img) (log ++ [id]) true := rfl

theorem okImgs_append (cfg : Cfg) (a b : List Nat) : okImgs cfg (a ++ b) = okImgs cfg a ++ okImgs cfg b := by
  induction a with
  | nil => rfl
  | cons x xs ih => simp only [List.cons_append, okImgs]; split <;> simp [ih]

theorem okIds_append (cfg : Cfg) (a b : List Nat) : okIds cfg (a ++ b) = okIds cfg a ++ okIds cfg b := by
  induction a with
  | nil => rfl
  | cons x xs ih => simp only [List.cons_append, okIds]; split <;> simp [ih]

theorem placeAll_snoc (cfg : Cfg) (imgs : List Img) (img : Img) :
    placeAll cfg (imgs ++ [img]) = place cfg (placeAll cfg imgs) img := by
  simp [placeAll, List.foldl_append]

/-- what one poll does to a good state: it pops a block `p` of finished handles from the front, the layer
    and the log follow in arrival order, and it never blocks -/
theorem pollLoop_good (cfg : Cfg) (q : List (Nat × Option Res)) (layer : List Img) (log : List Nat) (upd : Bool)
    (popped : List Nat) (hl : layer = placeAll cfg (okImgs cfg popped)) (hg : log = okIds cfg popped)
    (he : Entries cfg q) :
    ∃ p : List Nat, ids q = p ++ ids (pollLoop cfg q layer log upd).1.queue ∧
      (pollLoop cfg q layer log upd).1.layer = placeAll cfg (okImgs cfg (popped ++ p)) ∧
      (pollLoop cfg q layer log upd).1.log = okIds cfg (popped ++ p) ∧
      Entries cfg (pollLoop cfg q layer log upd).1.queue ∧
      (pollLoop cfg q layer log upd).2 ≠ .blocked := by
  induction q generalizing layer log upd popped with
  | nil => exact ⟨[], by simp [pollLoop_nil, ids], by simp [pollLoop_nil, hl], by simp [pollLoop_nil, hg], he, by simp [pollLoop_nil]⟩
  | cons e q ih =>
    obtain ⟨id, h⟩ := e
    have he' : Entries cfg q := fun e' h' => he e' (by simp [h'])
    cases h with
    | none =>
      exact ⟨[], by simp [pollLoop_none, ids], by simp [pollLoop_none, hl],
        by simp [pollLoop_none, hg], by simpa [pollLoop_none] using he, by simp [pollLoop_none]⟩
    | some r =>
      have hr : r = cfg.res id := by
        have := he (id, some r) (by simp)
        simpa using this
      cases r with
      | panicked =>
        obtain ⟨p, h1, h2, h3, h4, h5⟩ := ih layer log upd (popped ++ [id])
          (by rw [okImgs_append, hl]; simp [okImgs, ← hr])
          (by rw [okIds_append, hg]; simp [okIds, ← hr]) he'
        refine ⟨id :: p, ?_, ?_, ?_, ?_, ?_⟩
        · simp only [pollLoop_nil, pollLoop_none, pollLoop_panicked, pollLoop_err, pollLoop_ok] at h1 ⊢; simp [ids] at h1 ⊢; exact h1
        · simp only [pollLoop_nil, pollLoop_none, pollLoop_panicked, pollLoop_err, pollLoop_ok]; simpa using h2
        · simp only [pollLoop_nil, pollLoop_none, pollLoop_panicked, pollLoop_err, pollLoop_ok]; simpa using h3
        · simpa only [pollLoop_nil, pollLoop_none, pollLoop_panicked, pollLoop_err, pollLoop_ok] using h4
        · simpa only [pollLoop_nil, pollLoop_none, pollLoop_panicked, pollLoop_err, pollLoop_ok] using h5
      | err =>
        refine ⟨[id], by simp [pollLoop_nil, pollLoop_none, pollLoop_panicked, pollLoop_err, pollLoop_ok, ids], ?_, ?_, by simpa [pollLoop_nil, pollLoop_none, pollLoop_panicked, pollLoop_err, pollLoop_ok] using he',
          by simp [pollLoop_nil, pollLoop_none, pollLoop_panicked, pollLoop_err, pollLoop_ok]⟩
        · simp only [pollLoop_err]
          rw [okImgs_append, hl]; simp [okImgs, ← hr]
        · simp only [pollLoop_err]
          rw [okIds_append, hg]; simp [okIds, ← hr]
      | ok img =>
        obtain ⟨p, h1, h2, h3, h4, h5⟩ := ih (place cfg layer img) (log ++ [id]) true (popped ++ [id])
          (by rw [okImgs_append, hl]; simp [okImgs, ← hr, placeAll_snoc])
          (by rw [okIds_append, hg]; simp [okIds, ← hr]) he'
        refine ⟨id :: p, ?_, ?_, ?_, ?_, ?_⟩
        · simp only [pollLoop_nil, pollLoop_none, pollLoop_panicked, pollLoop_err, pollLoop_ok] at h1 ⊢; simp [ids] at h1 ⊢; exact h1
        · simp only [pollLoop_nil, pollLoop_none, pollLoop_panicked, pollLoop_err, pollLoop_ok]; simpa using h2
        · simp only [pollLoop_nil, pollLoop_none, pollLoop_panicked, pollLoop_err, pollLoop_ok]; simpa using h3
        · simpa only [pollLoop_nil, pollLoop_none, pollLoop_panicked, pollLoop_err, pollLoop_ok] using h4
        · simpa only [pollLoop_nil, pollLoop_none, pollLoop_panicked, pollLoop_err, pollLoop_ok] using h5

theorem poll_good {cfg : Cfg} {arr popped : List Nat} {s : St} (g : Good cfg arr popped s) :
    ∃ p, Good cfg arr (popped ++ p) (poll cfg s).1 ∧ (poll cfg s).2 ≠ .blocked := by
  obtain ⟨p, h1, h2, h3, h4, h5⟩ := pollLoop_good cfg s.queue s.layer s.log false popped g.layer g.log g.entries
  exact ⟨p, ⟨by rw [g.split, h1, List.append_assoc]; rfl, h3, h2, h4⟩, h5⟩

theorem ids_map_finish (cfg : Cfg) (id : Nat) (q : List (Nat × Option Res)) :
    ids (q.map fun e => if e.1 = id then (e.1, some (cfg.res id)) else e) = ids q := by
  induction q with
  | nil => rfl
  | cons e q ih =>
    simp only [ids, List.map_cons] at ih ⊢
    rw [ih]; split <;> rfl

theorem step_good {cfg : Cfg} {arr popped : List Nat} {s : St} (g : Good cfg arr popped s) (e : Ev) :
    ∃ popped', Good cfg (arrStep arr e) popped' (step cfg s e) := by
  cases e with
  | arrive id =>
    refine ⟨popped, ?_⟩
    simp only [step, arrStep]
    refine ⟨by simp only [ids, List.map_append, List.map_cons, List.map_nil]; rw [g.split]; simp [ids], g.log, g.layer, ?_⟩
    intro e he
    rcases List.mem_append.1 he with h | h
    · exact g.entries e h
    · simp at h; subst h; exact Or.inl rfl
  | finish id =>
    refine ⟨popped, ?_⟩
    simp only [step, arrStep]
    refine ⟨by rw [ids_map_finish]; exact g.split, g.log, g.layer, ?_⟩
    intro e he
    obtain ⟨e0, h0, rfl⟩ := List.mem_map.1 he
    split
    · rename_i hid; right; simp [hid]
    · exact g.entries e0 h0
  | poll =>
    obtain ⟨p, hp, _⟩ := poll_good g
    exact ⟨popped ++ p, by simpa [step, arrStep] using hp⟩
  | clear =>
    exact ⟨[], ⟨rfl, rfl, rfl, fun e h => by simp [step] at h⟩⟩

/-- a `finish` pops nothing -/
theorem finish_good {cfg : Cfg} {arr popped : List Nat} {s : St} (g : Good cfg arr popped s) (id : Nat) :
    Good cfg arr popped (step cfg s (.finish id)) := by
  refine ⟨by simp only [step]; rw [ids_map_finish]; exact g.split, g.log, g.layer, ?_⟩
  intro e he
  obtain ⟨e0, h0, rfl⟩ := List.mem_map.1 he
  split
  · rename_i hid; right; simp [hid]
  · exact g.entries e0 h0

theorem arrivals_append (a b : List Ev) : arrivals (a ++ b) = b.foldl arrStep (arrivals a) := by
  simp [arrivals, List.foldl_append]

theorem foldl_good {cfg : Cfg} (evs : List Ev) {arr popped : List Nat} {s : St} (g : Good cfg arr popped s) :
    ∃ popped', Good cfg (evs.foldl arrStep arr) popped' (evs.foldl (step cfg) s) := by
  induction evs generalizing arr popped s with
  | nil => exact ⟨popped, g⟩
  | cons e evs ih =>
    obtain ⟨p1, g1⟩ := step_good g e
    exact ih g1

theorem good_init (cfg : Cfg) : Good cfg [] [] {} :=
  ⟨rfl, rfl, rfl, fun e h => by simp at h⟩

theorem run_good (cfg : Cfg) (evs : List Ev) : ∃ popped, Good cfg (arrivals evs) popped (run cfg evs) :=
  foldl_good evs (good_init cfg)

/-! ### polling drains finished handles -/
def AllFinished (q : List (Nat × Option Res)) : Prop := ∀ e ∈ q, e.2.isSome = true

/-- a poll that does not report an error leaves the queue empty or with an unfinished head -/
theorem pollLoop_ok_head (cfg : Cfg) (q : List (Nat × Option Res)) (layer : List Img) (log : List Nat) (upd b : Bool)
    (h : (pollLoop cfg q layer log upd).2 = .ok b) :
    (pollLoop cfg q layer log upd).1.queue = [] ∨
      ∃ id rest, (pollLoop cfg q layer log upd).1.queue = (id, none) :: rest := by
  induction q generalizing layer log upd with
  | nil => left; rfl
  | cons e q ih =>
    obtain ⟨id, h'⟩ := e
    cases h' with
    | none => right; exact ⟨id, q, by simp [pollLoop_none]⟩
    | some r =>
      cases r with
      | panicked => simp only [pollLoop_nil, pollLoop_none, pollLoop_panicked, pollLoop_err, pollLoop_ok] at h ⊢; exact ih _ _ _ h
      | err => simp [pollLoop_nil, pollLoop_none, pollLoop_panicked, pollLoop_err, pollLoop_ok] at h
      | ok img => simp only [pollLoop_nil, pollLoop_none, pollLoop_panicked, pollLoop_err, pollLoop_ok] at h ⊢; exact ih _ _ _ h

/-- polling a queue whose handles are all finished pops at least one handle and keeps the rest finished -/
theorem pollLoop_progress (cfg : Cfg) (q : List (Nat × Option Res)) (layer : List Img) (log : List Nat) (upd : Bool)
    (hf : AllFinished q) :
    AllFinished (pollLoop cfg q layer log upd).1.queue ∧
      (pollLoop cfg q layer log upd).1.queue.length ≤ q.length - 1 := by
  induction q generalizing layer log upd with
  | nil => exact ⟨by simpa [pollLoop_nil] using hf, by simp [pollLoop_nil]⟩
  | cons e q ih =>
    obtain ⟨id, h'⟩ := e
    have hf' : AllFinished q := fun e' h'' => hf e' (by simp [h''])
    cases h' with
    | none => have := hf (id, none) (by simp); simp at this
    | some r =>
      cases r with
      | panicked =>
        simp only [pollLoop_nil, pollLoop_none, pollLoop_panicked, pollLoop_err, pollLoop_ok]
        have := ih layer log upd hf'
        exact ⟨by simpa using this.1, by have := this.2; simp at this ⊢; omega⟩
      | err => simp only [pollLoop_nil, pollLoop_none, pollLoop_panicked, pollLoop_err, pollLoop_ok]; exact ⟨by simpa using hf', by simp⟩
      | ok img =>
        simp only [pollLoop_nil, pollLoop_none, pollLoop_panicked, pollLoop_err, pollLoop_ok]
        have := ih (place cfg layer img) (log ++ [id]) true hf'
        exact ⟨by simpa using this.1, by have := this.2; simp at this ⊢; omega⟩

theorem pollN_drains (cfg : Cfg) (n : Nat) (s : St) (hf : AllFinished s.queue) (hn : s.queue.length ≤ n) :
    (pollN cfg n s).queue = [] := by
  induction n generalizing s with
  | zero =>
    simp only [pollN]
    exact List.eq_nil_of_length_eq_zero (by omega)
  | succ n ih =>
    simp only [pollN]
    have := pollLoop_progress cfg s.queue s.layer s.log false hf
    exact ih (poll cfg s).1 this.1 (by have := this.2; simp only [poll]; omega)

theorem pollN_eq_run (cfg : Cfg) (n : Nat) (s : St) :
    pollN cfg n s = (List.replicate n Ev.poll).foldl (step cfg) s := by
  induction n generalizing s with
  | zero => rfl
  | succ n ih => simp only [pollN, List.replicate_succ, List.foldl_cons, step]; exact ih _

/-! ### the log -/
theorem okIds_sublist (cfg : Cfg) (l : List Nat) : (okIds cfg l).Sublist l := by
  induction l with
  | nil => exact List.Sublist.slnil
  | cons x xs ih =>
    simp only [okIds]; split
    · exact ih.cons_cons x
    · exact ih.cons x

theorem mem_okIds {cfg : Cfg} {l : List Nat} {id : Nat} {img : Img} (hm : id ∈ l) (hr : cfg.res id = .ok img) :
    id ∈ okIds cfg l := by
  induction l with
  | nil => simp at hm
  | cons x xs ih =>
    rcases List.mem_cons.1 hm with h | h
    · subst h; simp [okIds, hr]
    · have := ih h
      simp only [okIds]; split <;> simp [this]

/-- the finished block at the front of the queue is delivered by a poll that reports no error -/
theorem pollLoop_delivers (cfg : Cfg) (pre post : List (Nat × Option Res)) (layer : List Img) (log : List Nat)
    (upd b : Bool) (hf : AllFinished pre) (h : (pollLoop cfg (pre ++ post) layer log upd).2 = .ok b) :
    ∃ p, ids pre ++ ids post = p ++ ids (pollLoop cfg (pre ++ post) layer log upd).1.queue ∧
      ∃ p', p = ids pre ++ p' := by
  induction pre generalizing layer log upd with
  | nil =>
    -- nothing required of the prefix
    induction post generalizing layer log upd with
    | nil => exact ⟨[], by simp [pollLoop_nil, ids], [], by simp [ids]⟩
    | cons e q ih =>
      obtain ⟨id, h'⟩ := e
      cases h' with
      | none => exact ⟨[], by simp [pollLoop_none, ids], [], by simp [ids]⟩
      | some r =>
        cases r with
        | panicked =>
          simp only [List.nil_append, pollLoop_nil, pollLoop_none, pollLoop_panicked, pollLoop_err, pollLoop_ok] at h ⊢
          obtain ⟨p, h1, p', h2⟩ := ih layer log upd (by simpa using h)
          exact ⟨id :: p, by simp [ids] at h1 ⊢; exact h1, id :: p, by simp [ids]⟩
        | err => simp [pollLoop_nil, pollLoop_none, pollLoop_panicked, pollLoop_err, pollLoop_ok] at h
        | ok img =>
          simp only [List.nil_append, pollLoop_nil, pollLoop_none, pollLoop_panicked, pollLoop_err, pollLoop_ok] at h ⊢
          obtain ⟨p, h1, p', h2⟩ := ih _ _ _ (by simpa using h)
          exact ⟨id :: p, by simp [ids] at h1 ⊢; exact h1, id :: p, by simp [ids]⟩
  | cons e pre ih =>
    obtain ⟨id, h'⟩ := e
    have hf' : AllFinished pre := fun e' h'' => hf e' (by simp [h''])
    cases h' with
    | none => have := hf (id, none) (by simp); simp at this
    | some r =>
      cases r with
      | panicked =>
        simp only [List.cons_append, pollLoop_nil, pollLoop_none, pollLoop_panicked, pollLoop_err, pollLoop_ok] at h ⊢
        obtain ⟨p, h1, p', h2⟩ := ih layer log upd hf' h
        exact ⟨id :: p, by simp [ids] at h1 ⊢; exact h1, p', by simp [ids] at h2 ⊢; exact h2⟩
      | err => simp [pollLoop_nil, pollLoop_none, pollLoop_panicked, pollLoop_err, pollLoop_ok] at h
      | ok img =>
        simp only [List.cons_append, pollLoop_nil, pollLoop_none, pollLoop_panicked, pollLoop_err, pollLoop_ok] at h ⊢
        obtain ⟨p, h1, p', h2⟩ := ih _ _ _ hf' h
        exact ⟨id :: p, by simp [ids] at h1 ⊢; exact h1, p', by simp [ids] at h2 ⊢; exact h2⟩

/-- a block of finished handles none of which failed, then a handle whose decode failed: the loop takes the block and
    the failing handle, reports the error and leaves the rest of the queue untouched -/
theorem pollLoop_stops_at_err (cfg : Cfg) (pre post : List (Nat × Option Res)) (bad : Nat) (layer : List Img)
    (log : List Nat) (upd : Bool) (hf : AllFinished pre) (hne : ∀ e ∈ pre, e.2 ≠ some .err) :
    (pollLoop cfg (pre ++ (bad, some .err) :: post) layer log upd).2 = .err ∧
      (pollLoop cfg (pre ++ (bad, some .err) :: post) layer log upd).1.queue = post := by
  induction pre generalizing layer log upd with
  | nil => simp [pollLoop_err]
  | cons e pre ih =>
    obtain ⟨id, h'⟩ := e
    have hf' : AllFinished pre := fun e' h'' => hf e' (by simp [h''])
    have hne' : ∀ e ∈ pre, e.2 ≠ some .err := fun e' h'' => hne e' (by simp [h''])
    cases h' with
    | none => have := hf (id, none) (by simp); simp at this
    | some r =>
      cases r with
      | panicked => simp only [List.cons_append, pollLoop_panicked]; exact ih layer log upd hf' hne'
      | err => exact absurd rfl (hne (id, some .err) (by simp))
      | ok img => simp only [List.cons_append, pollLoop_ok]; exact ih _ _ _ hf' hne'

end IcyVerif.SixelQueue
