import IcyVerif.Model.BgiFill
import IcyVerif.Lemmas.Bgi
set_option linter.unusedSimpArgs false
set_option linter.unusedVariables false
/-! Lemmas about the flood-fill model, part 1: the pixel scans of `find_line` stay inside the screen and inside the
scanned row, and a span found at a non-border pixel contains that pixel. -/
namespace IcyVerif.Bgi

theorem scrAt_some {scr : Array Nat} {i : Int} (h0 : 0 ≤ i) (h1 : i < scr.size) : ∃ v, scrAt scr i = some v := by
  unfold scrAt inLen
  have : (0 ≤ i ∧ i < (scr.size : Int)) := ⟨h0, h1⟩
  simp [this]

theorem scrAt_inv {scr : Array Nat} {i : Int} {v : Nat} (h : scrAt scr i = some v) : 0 ≤ i ∧ i < scr.size := by
  unfold scrAt inLen at h
  split at h
  · rename_i hc; simpa using hc
  · cases h

/-- forward scan: `n` reads at most, all inside the screen; the answer is `width` or a column of the scanned range;
when the first pixel is not the border colour the answer lies beyond it -/
theorem scanRight_spec (scr : Array Nat) (b : Nat) (w : Int) (n : Nat) : ∀ (pos ex : Int), 0 ≤ pos → pos + n ≤ scr.size →
    ∃ e c, scanRight scr b w n pos ex = some (e, c) ∧ c ≤ n ∧ (e = w ∨ (ex ≤ e ∧ e < ex + n)) ∧
      (∀ v, scrAt scr pos = some v → v ≠ b → 0 < n → (e = w ∨ ex + 1 ≤ e)) := by
  induction n with
  | zero => intro pos ex _ _; exact ⟨w, 0, rfl, Nat.le_refl _, Or.inl rfl, fun _ _ _ h => absurd h (Nat.lt_irrefl 0)⟩
  | succ k ih =>
    intro pos ex h0 h1
    have hk : ((k + 1 : Nat) : Int) = (k : Int) + 1 := by omega
    obtain ⟨v, hv⟩ := scrAt_some (scr := scr) (i := pos) h0 (by omega)
    unfold scanRight
    simp only [hv]
    by_cases hb : v = b
    · simp only [hb, if_true]
      refine ⟨ex, 1, rfl, by omega, Or.inr ⟨by omega, by omega⟩, ?_⟩
      intro v' hv' hne _
      cases hv'; exact absurd rfl hne
    · simp only [hb, if_false]
      obtain ⟨e, c, he, hc, hr, _⟩ := ih (pos + 1) (ex + 1) (by omega) (by omega)
      rw [he]
      refine ⟨e, c + 1, rfl, by omega, ?_, ?_⟩
      · rcases hr with h | ⟨h2, h3⟩
        · exact Or.inl h
        · exact Or.inr ⟨by omega, by omega⟩
      · intro _ _ _ _
        rcases hr with h | ⟨h2, h3⟩
        · exact Or.inl h
        · exact Or.inr h2

/-- backward scan: `n` reads at most, all inside the screen; the answer is -1 or a column of the scanned range -/
theorem scanLeft_spec (scr : Array Nat) (b : Nat) (n : Nat) : ∀ (pos sx : Int), (0 < n → pos < scr.size) → (n : Int) ≤ pos + 1 →
    ∃ st c, scanLeft scr b n pos sx = some (st, c) ∧ c ≤ n ∧ (st = -1 ∨ (sx - n < st ∧ st ≤ sx)) := by
  induction n with
  | zero => intro pos sx _ _; exact ⟨-1, 0, rfl, Nat.le_refl _, Or.inl rfl⟩
  | succ k ih =>
    intro pos sx h0 h1
    have hk : ((k + 1 : Nat) : Int) = (k : Int) + 1 := by omega
    obtain ⟨v, hv⟩ := scrAt_some (scr := scr) (i := pos) (by omega) (h0 (Nat.succ_pos k))
    unfold scanLeft
    simp only [hv]
    by_cases hb : v = b
    · simp only [hb, if_true]
      exact ⟨sx, 1, rfl, by omega, Or.inr ⟨by omega, by omega⟩⟩
    · simp only [hb, if_false]
      obtain ⟨st, c, he, hc, hr⟩ := ih (pos - 1) (sx - 1) (by intro _; omega) (by omega)
      rw [he]
      refine ⟨st, c + 1, rfl, by omega, ?_⟩
      rcases hr with h | ⟨h2, h3⟩
      · exact Or.inl h
      · exact Or.inr ⟨by omega, by omega⟩

/-- the hypotheses under which `flood_fill` runs its loops: the 640 x 350 window with a complete screen, and a
viewport of positive width (the seed passed the clip test) -/
structure FillCtx (s : Bgi) : Prop where
  hW : s.winW = 640
  hH : s.winH = 350
  hsz : s.screen.size = 224000
  hvw1 : 1 ≤ s.vp.w
  hvw2 : s.vp.w ≤ 1048576

/-- `find_line` at a pixel of the screen: no panic, at most 1280 pixels read; the span lies in row `y`, starts in
0..=x, ends before `min(viewport width, 640)`, and contains `x` when the pixel at `x` is not the border colour and
`x` is left of that limit -/
theorem findLine_spec {s : Bgi} (hc : FillCtx s) (x y : Int) (b : Nat) (hx0 : 0 ≤ x) (hx1 : x ≤ 639) (hy0 : 0 ≤ y) (hy1 : y < 350) :
    ∃ r c, findLine s x y b = some (r, c) ∧ c ≤ 1280 ∧
      ∀ li, r = some li → li.y = y ∧ 0 ≤ li.x1 ∧ li.x1 ≤ x ∧ -1 ≤ li.x2 ∧ li.x2 ≤ min s.vp.w 640 - 1 ∧
        (x < min s.vp.w 640 → ∀ v, scrAt s.screen (y * 640 + x) = some v → v ≠ b → x ≤ li.x2) := by
  obtain ⟨hW, hH, hsz, hv1, hv2⟩ := hc
  unfold findLine
  simp only [hW]
  rw [chk_of_range (v := y * 640) (by simp only [i32Min]; omega) (by simp only [i32Max]; omega)]
  simp only []
  rw [chk_of_range (v := y * 640 + x) (by simp only [i32Min]; omega) (by simp only [i32Max]; omega)]
  simp only []
  have hwid : 1 ≤ min s.vp.w 640 ∧ min s.vp.w 640 ≤ 640 := by omega
  obtain ⟨e, c1, he, hc1, hr, hfirst⟩ := scanRight_spec s.screen b (min s.vp.w 640) (min s.vp.w 640 - x).toNat (y * 640 + x) x
    (by omega) (by rw [hsz]; omega)
  rw [he]
  simp only []
  rw [chk_of_range (v := y * 640 + x - 1) (by simp only [i32Min]; omega) (by simp only [i32Max]; omega)]
  simp only []
  obtain ⟨st, c2, hs, hc2, hl⟩ := scanLeft_spec s.screen b x.toNat (y * 640 + x - 1) (x - 1)
    (by intro _; rw [hsz]; omega) (by omega)
  rw [hs]
  simp only []
  rw [chk_of_range (v := (640 : Int) - 1) (by simp only [i32Min]; omega) (by simp only [i32Max]; omega)]
  simp only []
  have hst : -1 ≤ st ∧ st ≤ x - 1 := by
    rcases hl with h | ⟨h1, h2⟩
    · omega
    · omega
  have hen : e ≤ min s.vp.w 640 ∧ (x ≤ e ∨ e = min s.vp.w 640) := by
    rcases hr with h | ⟨h1, h2⟩
    · omega
    · omega
  split
  · exact ⟨none, c1 + c2, rfl, by omega, fun li h => by cases h⟩
  · refine ⟨some ⟨st + 1, e - 1, y⟩, c1 + c2, rfl, by omega, ?_⟩
    intro li hli
    cases hli
    refine ⟨rfl, by dsimp only; omega, by dsimp only; omega, by dsimp only; omega, by dsimp only; omega, ?_⟩
    intro hxw v hv hne
    have := hfirst v hv hne (by omega)
    show x ≤ e - 1
    omega

end IcyVerif.Bgi
