import IcyVerif.Lemmas.Comp
set_option linter.unusedSimpArgs false
set_option linter.unusedVariables false
/-! A fact about the compositing walk used by C12: `Buffer::get_char` returns either a visible cell or exactly
`AttributedChar::invisible()` carrying the default font page of the lowest covering visible layer. -/
namespace IcyVerif.Comp
open IcyVerif.Gen.Comp

/-- invariant of the loop state: a recorded attribute / transparent cell is visible -/
def StOk (st : St) : Prop :=
  (∀ a, st.attrOpt = some a → (a.flags &&& invisibleBit) = 0) ∧ (∀ t, st.transp = some t → t.isVisible = true)

theorem StOk_init : StOk St.init := by
  constructor <;> intro _ h <;> simp [St.init] at h

theorem isVisible_iff (c : Cell) : c.isVisible = true ↔ (c.attr.flags &&& invisibleBit) = 0 := by
  unfold Cell.isVisible; simp

theorem merge_visible {c : Cell} {chOpt : Option Nat} {attrOpt : Option Attr} (hc : c.isVisible = true)
    (ha : ∀ a, attrOpt = some a → (a.flags &&& invisibleBit) = 0) : (merge c chOpt attrOpt).isVisible = true := by
  unfold merge
  simp only [hc, Bool.not_true, Bool.false_eq_true, if_false]
  cases chOpt <;> cases attrOpt with
  | none => exact hc
  | some a => exact (isVisible_iff _).mpr (ha a rfl)

theorem makeSolid_visible (hb : Cell → Nat × Nat) {t : Cell} (u : Cell) (ht : t.isVisible = true) :
    (makeSolid hb t u).isVisible = true := by
  have : (makeSolid hb t u).attr.flags = t.attr.flags := by
    unfold makeSolid
    split
    · rfl
    · split <;> rfl
  unfold Cell.isVisible at *
  rw [this]; exact ht

theorem defaultCell_visible (p : Nat) : (defaultCell.withPage p).isVisible = true := by
  have : (defaultCell.withPage p).attr.flags = defaultFlags := rfl
  unfold Cell.isVisible; rw [this]; decide

theorem opaqueTail_visible (hb : Cell → Nat × Nat) {st : St} (h : StOk st) : (opaqueTail hb st).isVisible = true := by
  unfold opaqueTail
  have hres := merge_visible (chOpt := st.chOpt) (defaultCell_visible st.dflt) h.1
  simp only
  cases ht : st.transp with
  | none =>
    simp only
    split
    · exact makeSolid_visible hb _ hres
    · exact hres
  | some t => exact makeSolid_visible hb _ (h.2 t ht)

/-- outcome of an iteration: a returned cell is visible, a continued state satisfies the invariant -/
def StepOk : Step → Prop
  | .ret c => c.isVisible = true
  | .next st => StOk st

theorem coveredStep_ok (hb : Cell → Nat × Nat) (l : Layer) (x y : Int) {st : St} (h : StOk st) :
    StepOk (coveredStep hb l x y st) := by
  unfold coveredStep
  cases l.mode with
  | normal =>
    simp only
    cases hv : (l.getChar x y).isVisible with
    | true =>
      have hfound := merge_visible (chOpt := st.chOpt) hv h.1
      simp only [if_true]
      split
      · -- transparent colour: remember it
        have hst' : StOk (if st.transp.isNone then { st with transp := some (merge (l.getChar x y) st.chOpt st.attrOpt) } else st) := by
          split
          · exact ⟨h.1, fun t ht => by cases ht; exact hfound⟩
          · exact h
        split
        · exact opaqueTail_visible hb hst'
        · exact hst'
      · cases ht : st.transp with
        | none => exact hfound
        | some t => exact makeSolid_visible hb _ (h.2 t ht)
    | false =>
      simp only [Bool.false_eq_true, if_false]
      split
      · exact opaqueTail_visible hb h
      · exact h
  | chars =>
    simp only
    split
    · exact ⟨h.1, h.2⟩
    · exact h
  | attributes =>
    simp only
    cases hv : (l.getChar x y).isVisible with
    | true =>
      simp only [if_true]
      exact ⟨fun a ha => by cases ha; exact (isVisible_iff _).mp hv, h.2⟩
    | false => simp only [Bool.false_eq_true, if_false]; exact h

theorem layerStep_ok (hb : Cell → Nat × Nat) (px py : Int) (l : Layer) {st : St} (h : StOk st) :
    StepOk (layerStep hb px py l st) := by
  unfold layerStep
  split
  · exact h
  · simp only
    split
    · exact h
    · exact coveredStep_ok hb l _ _ (st := { st with dflt := l.dfltPage }) ⟨h.1, h.2⟩

theorem finish_shape (t : Bool) {st : St} (h : StOk st) :
    (finish t st).isVisible = true ∨ finish t st = invisibleCell.withPage st.dflt := by
  unfold finish
  cases ht : st.transp with
  | some c => exact Or.inl (h.2 c ht)
  | none =>
    simp only
    split
    · left
      have := merge_visible (c := defaultCell) (chOpt := st.chOpt) (defaultCell_visible 0 ▸ by decide) h.1
      unfold Cell.isVisible Cell.withPage at *
      exact this
    · exact Or.inr rfl

theorem go_shape (hb : Cell → Nat × Nat) (t : Bool) (px py : Int) (L : List Layer) {st : St} (h : StOk st) :
    (go hb t px py L st).isVisible = true ∨ ∃ p, go hb t px py L st = invisibleCell.withPage p := by
  induction L generalizing st with
  | nil =>
    rcases finish_shape t h with hv | he
    · exact Or.inl hv
    · exact Or.inr ⟨_, he⟩
  | cons l L ih =>
    rw [go_cons]
    have hs := layerStep_ok hb px py l h
    cases hstep : layerStep hb px py l st with
    | ret c => rw [hstep] at hs; exact Or.inl hs
    | next st' => rw [hstep] at hs; exact ih hs

/-- `Buffer::get_char` returns a visible cell or exactly `invisible()` with some font page -/
theorem getChar_shape (hb : Cell → Nat × Nat) (t : Bool) (S : List Layer) (px py : Int) :
    (getChar hb t S px py).isVisible = true ∨ ∃ p, getChar hb t S px py = invisibleCell.withPage p :=
  go_shape hb t px py _ StOk_init

end IcyVerif.Comp
