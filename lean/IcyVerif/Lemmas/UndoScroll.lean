import IcyVerif.Lemmas.UndoRows
set_option linter.unusedSimpArgs false
set_option linter.unusedVariables false
/-! # C08: whole-layer scroll records; UndoLayerChange with complete snapshots -/
namespace IcyVerif.Undo


theorem rot_view_up (L : List Row) (h : Nat) (hlen : h ≤ L.length) (x y : Nat) :
    rowsGet (((L.take h).drop (if h > 0 then 1 else 0) ++ (L.take h).take (if h > 0 then 1 else 0)) ++ L.drop h) x y =
      if y < h then (if y + 1 < h then rowsGet L x (y + 1) else rowsGet L x 0) else rowsGet L x y := by
  have hmin : min h L.length = h := by omega
  simp only [rowsGet, List.getD_eq_getElem?_getD, List.getElem?_append, List.getElem?_drop, List.getElem?_take,
    List.length_append, List.length_drop, List.length_take, hmin]
  by_cases hpos : h > 0
  · simp only [hpos, if_true]
    have m1 : min 1 h = 1 := by omega
    simp only [m1]
    have e1 : h - 1 + 1 = h := by omega
    simp only [e1]
    by_cases hy : y < h
    · simp only [hy, if_true]
      by_cases h1 : y + 1 < h
      · have c2 : y < h - 1 := by omega
        have c3 : 1 + y < h := by omega
        simp only [h1, c2, c3, if_true, Nat.add_comm 1 y]
      · have c2 : ¬ y < h - 1 := by omega
        have c3 : y - (h - 1) < 1 := by omega
        have c4 : y - (h - 1) = 0 := by omega
        simp only [h1, c2, c3, c4, hpos, if_true, if_false]
        simp
    · simp only [hy, if_false]
      have : h + (y - h) = y := by omega
      rw [this]
  · have h0 : h = 0 := by omega
    subst h0
    simp

theorem rot_view_down (L : List Row) (h : Nat) (hlen : h ≤ L.length) (x y : Nat) :
    rowsGet (((L.take h).drop ((L.take h).length - (if h > 0 then 1 else 0)) ++ (L.take h).take ((L.take h).length - (if h > 0 then 1 else 0))) ++ L.drop h) x y =
      if y < h then (if y = 0 then rowsGet L x (h - 1) else rowsGet L x (y - 1)) else rowsGet L x y := by
  have hmin : min h L.length = h := by omega
  simp only [rowsGet, List.getD_eq_getElem?_getD, List.getElem?_append, List.getElem?_drop, List.getElem?_take,
    List.length_append, List.length_drop, List.length_take, hmin]
  by_cases hpos : h > 0
  · simp only [hpos, if_true]
    have m1 : min (h - 1) h = h - 1 := by omega
    have e0 : h - (h - 1) = 1 := by omega
    simp only [m1, e0]
    have e1 : 1 + (h - 1) = h := by omega
    simp only [e1]
    by_cases hy : y < h
    · simp only [hy, if_true]
      by_cases h0 : y = 0
      · subst h0
        have c1 : h - 1 + 0 < h := by omega
        simp only [if_true, c1, Nat.lt_one_iff, Nat.add_zero]
        have c5 : h - 1 < h := by omega
        simp [c5]
      · have c2 : ¬ y < 1 := by omega
        have c3 : y - 1 < h - 1 := by omega
        have c4 : y - 1 < h := by omega
        simp only [h0, c2, c3, c4, if_true, if_false]
    · simp only [hy, if_false]
      have : h + (y - h) = y := by omega
      rw [this]
  · have h0 : h = 0 := by omega
    subst h0
    simp


def LObs.scroll (a : LObs) (up : Bool) : LObs :=
  (a.1, a.2.1, a.2.2.1, fun x y =>
    if y < a.2.1.toNat then
      (if up then (if y + 1 < a.2.1.toNat then a.2.2.2 x (y + 1) else a.2.2.2 x 0)
       else (if y = 0 then a.2.2.2 x (a.2.1.toNat - 1) else a.2.2.2 x (y - 1)))
    else a.2.2.2 x y)

theorem scrollRows_obs (l : LayerM) (up : Bool) : (scrollRows l up).obs = l.obs.scroll up := by
  have hlen : l.h.toNat ≤ (growTo l.lines l.h.toNat ([] : Row)).length := length_growTo _ _ _
  cases up with
  | true =>
    simp only [scrollRows, LObs.scroll, LayerM.obs, if_true]
    congr 3
    funext x y
    rw [rot_view_up _ _ hlen]
    simp only [rowsGet_growTo_nil]
    try rfl
  | false =>
    simp only [scrollRows, LObs.scroll, LayerM.obs, Bool.false_eq_true, if_false]
    congr 3
    funext x y
    rw [rot_view_down _ _ hlen]
    simp only [rowsGet_growTo_nil]
    try rfl

theorem LObs.scroll_scroll (a : LObs) (up : Bool) : (a.scroll up).scroll (!up) = a := by
  obtain ⟨w, h, p, c⟩ := a
  cases up with
  | true =>
    simp only [LObs.scroll, Bool.not_true, Bool.false_eq_true, if_false, if_true]
    congr 3
    funext x y
    by_cases hy : y < h.toNat
    · simp only [hy, if_true]
      by_cases h0 : y = 0
      · subst h0
        have c1 : h.toNat - 1 < h.toNat := by omega
        have c2 : ¬ h.toNat - 1 + 1 < h.toNat := by omega
        simp only [c1, c2, if_true, if_false]
      · have c1 : y - 1 < h.toNat := by omega
        have c2 : y - 1 + 1 < h.toNat := by omega
        have c3 : y - 1 + 1 = y := by omega
        simp only [h0, c1, c2, c3, hy, if_true, if_false]
    · simp [hy]
  | false =>
    simp only [LObs.scroll, Bool.not_false, Bool.false_eq_true, if_false, if_true]
    congr 3
    funext x y
    by_cases hy : y < h.toNat
    · simp only [hy, if_true]
      by_cases h1 : y + 1 < h.toNat
      · have c1 : ¬ y + 1 = 0 := by omega
        simp only [h1, c1, if_true, if_false, Nat.add_sub_cancel]
      · have c1 : 0 < h.toNat := by omega
        have c2 : h.toNat - 1 = y := by omega
        simp only [h1, c1, c2, if_true, if_false]
    · simp [hy]

/-- **UndoScrollWholeLayerUp / Down** (after `fix: whole-layer scroll up/down rotates the visible rows…`) — at every
    document: rows not materialised, hidden rows below the layer (they stay where they are), empty layers -/
theorem inverse_scrollUp (d : Doc) (i : Nat) : InverseAt (.scrollUp i) d := by
  intro op' d' hr
  have hop : op' = .scrollUp i := by
    simp only [UndoOp.redo, onLayer] at hr
    cases hl : d.layers[i]? with
    | none => rw [hl] at hr; simp at hr
    | some l => rw [hl] at hr; simp at hr; exact hr.1.symm
  subst hop
  exact undoable_onLayer (.scrollUp i) i .err .err (scrollRows · true) (scrollRows · false)
    (·.scroll true) (·.scroll false) (fun l => scrollRows_obs l true) (fun l => scrollRows_obs l false)
    (fun e _ => rfl) (fun e _ => rfl) hr (fun l _ => LObs.scroll_scroll l.obs true)

theorem inverse_scrollDown (d : Doc) (i : Nat) : InverseAt (.scrollDown i) d := by
  intro op' d' hr
  have hop : op' = .scrollDown i := by
    simp only [UndoOp.redo, onLayer] at hr
    cases hl : d.layers[i]? with
    | none => rw [hl] at hr; simp at hr
    | some l => rw [hl] at hr; simp at hr; exact hr.1.symm
  subst hop
  exact undoable_onLayer (.scrollDown i) i .err .err (scrollRows · false) (scrollRows · true)
    (·.scroll false) (·.scroll true) (fun l => scrollRows_obs l false) (fun l => scrollRows_obs l true)
    (fun e _ => rfl) (fun e _ => rfl) hr (fun l _ => LObs.scroll_scroll l.obs false)



end IcyVerif.Undo
