import IcyVerif.Lemmas.RowsPrim
import IcyVerif.Lemmas.RowsBw
set_option linter.unusedSimpArgs false
set_option linter.unusedVariables false
/-! # The call sites provide the preconditions: no content operation panics along any stream
`GoodSt` (C01 / C09) + `BwOk` give every precondition stated in `Lemmas/RowsPrim.lean`:
cursor coordinates non-negative (`CurOk`), terminal width positive (`ScrOk.tw1`), bottom margin non-negative
(`ScrOk.mtb`), last editable column non-negative (`ScrOk.mlr` / `BwOk`).  The row table itself is arbitrary. -/
namespace IcyVerif.Rows
open IcyVerif.Term

/-! ## preconditions from the invariant -/
theorem bottomOk_of_scrOk (s : Scr) (hk : ScrOk s) : BottomOk s := by
  intro a e he
  have := hk.mtb a e he
  omega

theorem lastCol_nonneg (s : Scr) (hk : ScrOk s) (hb : BwOk s) : 0 ≤ lastCol s := by
  unfold lastCol
  split
  · rename_i l r he
    have := hk.mlr l r he
    omega
  · obtain ⟨h1, h2⟩ := hb
    unfold satSub sat
    omega

/-! ## the operations in the form the arms use: the layer width is kept -/
theorem ok_w {w h : Int} {r : RRes Tab} (hr : Ok r (WH w h)) : Ok r (W w) := ok_mono hr (fun _ ha => ha.1)

theorem times_w (w : Int) (n : Int) (f : Tab → RRes Tab) (t : Tab) (hf : ∀ t, W w t → Ok (f t) (W w)) (ht : W w t) :
    Ok (times n f t) (W w) := times_ok n f (W w) t hf ht

theorem checkScrollUpT_w (w : Int) (hw : 0 ≤ w) (s : Scr) (c : Car) (force : Bool) (t : Tab) (ht : W w t) :
    Ok (checkScrollUpT s c force t) (W w) := ok_w (checkScrollUpT_ok w t.lh hw s c force t ⟨ht, rfl⟩)
theorem checkScrollDownT_w (w : Int) (hw : 0 ≤ w) (s : Scr) (c : Car) (force : Bool) (t : Tab) (ht : W w t) :
    Ok (checkScrollDownT s c force t) (W w) := ok_w (checkScrollDownT_ok w t.lh hw s c force t ⟨ht, rfl⟩)
theorem echT_w (w : Int) (s : Scr) (c : Car) (n : Int) (t : Tab) (ht : W w t) (hx : 0 ≤ c.x) :
    Ok (echT s c n t) (W w) := ok_w (echT_ok w t.lh s c n t ⟨ht, rfl⟩ hx)
theorem insT_w (w : Int) (c : Car) (t : Tab) (ht : W w t) : Ok (insT c t) (W w) := ok_w (insT_ok w t.lh c t ⟨ht, rfl⟩)
theorem delT_w (w : Int) (c : Car) (t : Tab) (ht : W w t) : Ok (delT c t) (W w) := ok_w (delT_ok w t.lh c t ⟨ht, rfl⟩)
theorem bsT_w (w : Int) (hw : 0 ≤ w) (c : Car) (t : Tab) (ht : W w t) : Ok (bsT c t) (W w) := ok_w (bsT_ok w t.lh hw c t ⟨ht, rfl⟩)
theorem removeTerminalLine_w (w : Int) (hw : 0 ≤ w) (s : Scr) (line : Int) (t : Tab) (ht : W w t) (hl : 0 ≤ line)
    (hb : BottomOk s) : Ok (removeTerminalLine s line t) (W w) :=
  ok_w (removeTerminalLine_ok w t.lh hw s line t ⟨ht, rfl⟩ hl hb)
theorem insertTerminalLine_w (w : Int) (hw : 0 ≤ w) (s : Scr) (line : Int) (t : Tab) (ht : W w t) (hl : 0 ≤ line)
    (hb : BottomOk s) : Ok (insertTerminalLine s line t) (W w) :=
  ok_w (insertTerminalLine_ok w t.lh hw s line t ⟨ht, rfl⟩ hl hb)
theorem clearBufferDown_w (w : Int) (hw : 0 ≤ w) (s : Scr) (c : Car) (t : Tab) (ht : W w t) :
    Ok (clearBufferDown s c t) (W w) := ok_w (clearBufferDown_ok w t.lh hw s c t ⟨ht, rfl⟩)
theorem clearBufferUp_w (w : Int) (hw : 0 ≤ w) (s : Scr) (c : Car) (t : Tab) (ht : W w t) :
    Ok (clearBufferUp s c t) (W w) := ok_w (clearBufferUp_ok w t.lh hw s c t ⟨ht, rfl⟩)
theorem clearLine_w (w : Int) (hw : 0 ≤ w) (s : Scr) (c : Car) (t : Tab) (ht : W w t) :
    Ok (clearLine s c t) (W w) := ok_w (clearLine_ok w t.lh hw s c t ⟨ht, rfl⟩)
theorem clearLineEnd_w (w : Int) (hw : 0 ≤ w) (s : Scr) (c : Car) (t : Tab) (ht : W w t) :
    Ok (clearLineEnd s c t) (W w) := ok_w (clearLineEnd_ok w t.lh hw s c t ⟨ht, rfl⟩)
theorem clearLineStart_w (w : Int) (hw : 0 ≤ w) (s : Scr) (c : Car) (t : Tab) (ht : W w t) :
    Ok (clearLineStart s c t) (W w) := ok_w (clearLineStart_ok w t.lh hw s c t ⟨ht, rfl⟩)
theorem scrollUp_w (w : Int) (hw : 0 ≤ w) (s : Scr) (t : Tab) (ht : W w t) : Ok (scrollUp s t) (W w) :=
  ok_w (scrollUp_ok w t.lh hw s t ⟨ht, rfl⟩)
theorem scrollDown_w (w : Int) (hw : 0 ≤ w) (s : Scr) (t : Tab) (ht : W w t) : Ok (scrollDown s t) (W w) :=
  ok_w (scrollDown_ok w t.lh hw s t ⟨ht, rfl⟩)
theorem scrollLeft_w (w : Int) (s : Scr) (t : Tab) (ht : W w t) (hcol : 0 ≤ lastCol s) : Ok (scrollLeft s t) (W w) :=
  ok_w (scrollLeft_ok w t.lh s t ⟨ht, rfl⟩ (by omega))
theorem scrollRight_w (w : Int) (s : Scr) (t : Tab) (ht : W w t) (hcol : 0 ≤ lastCol s) : Ok (scrollRight s t) (W w) :=
  ok_w (scrollRight_ok w t.lh s t ⟨ht, rfl⟩ hcol)
theorem lfT_w (w : Int) (hw : 0 ≤ w) (s : Scr) (c : Car) (t : Tab) (ht : W w t) (htw : 0 ≤ s.tw) :
    Ok (lfT s c t) (W w) := ok_w (lfT_ok w t.lh hw s c t ⟨ht, rfl⟩ htw)
theorem fillArea_w (w : Int) (hw : 0 ≤ w) (s : Scr) (t : Tab) (nums : List Int) (off : Nat) (ht : W w t)
    (hn : off + 3 < nums.length) : Ok (fillArea s t nums off) (W w) := ok_w (fillArea_ok w t.lh hw s t nums off ⟨ht, rfl⟩ hn)
theorem repaintAll_w (w : Int) (hw : 0 ≤ w) (s : Scr) (t : Tab) (ht : W w t) : Ok (repaintAll s t) (W w) :=
  ok_w (repaintAll_ok w t.lh hw s t ⟨ht, rfl⟩)
theorem fillToEol_w (w : Int) (hw : 0 ≤ w) (s : Scr) (c : Car) (cnt : Nat) (t : Tab) (ht : W w t) :
    Ok (fillToEol s c cnt t) (W w) := ok_w (fillToEol_ok w t.lh hw s c cnt t ⟨ht, rfl⟩)
theorem layerSetChar_w (w : Int) (hw : 0 ≤ w) (t : Tab) (x y : Int) (ht : W w t) : Ok (layerSetChar t x y) (W w) :=
  ok_mono (layerSetChar_ok w hw t x y ht) (fun _ ha => ha.1)

/-- one arm of a content dispatcher -/
macro "rarm" : tactic => `(tactic| first
  | assumption
  | exact checkScrollUpT_w _ (by assumption) _ _ _ _ (by assumption)
  | exact checkScrollDownT_w _ (by assumption) _ _ _ _ (by assumption)
  | exact echT_w _ _ _ _ _ (by assumption) (by assumption)
  | exact insT_w _ _ _ (by assumption)
  | exact delT_w _ _ _ (by assumption)
  | exact bsT_w _ (by assumption) _ _ (by assumption)
  | exact removeTerminalLine_w _ (by assumption) _ _ _ (by assumption) (by assumption) (by assumption)
  | exact insertTerminalLine_w _ (by assumption) _ _ _ (by assumption) (by assumption) (by assumption)
  | exact clearBufferDown_w _ (by assumption) _ _ _ (by assumption)
  | exact clearBufferUp_w _ (by assumption) _ _ _ (by assumption)
  | exact clearLine_w _ (by assumption) _ _ _ (by assumption)
  | exact clearLineEnd_w _ (by assumption) _ _ _ (by assumption)
  | exact clearLineStart_w _ (by assumption) _ _ _ (by assumption)
  | exact scrollUp_w _ (by assumption) _ _ (by assumption)
  | exact scrollDown_w _ (by assumption) _ _ (by assumption)
  | exact scrollLeft_w _ _ _ (by assumption) (by assumption)
  | exact scrollRight_w _ _ _ (by assumption) (by assumption)
  | exact lfT_w _ (by assumption) _ _ _ (by assumption) (by assumption)
  | exact printCharT_ok _ (by assumption) _ _ _ (by assumption) (fun _ => ⟨by assumption, by assumption⟩) (by assumption)
  | exact printNT_ok _ (by assumption) _ _ _ _ (by assumption) (by assumption) (by assumption)
  | exact repaintAll_w _ (by assumption) _ _ (by assumption)
  | exact fillToEol_w _ (by assumption) _ _ _ _ (by assumption)
  | exact layerSetChar_w _ (by assumption) _ _ _ (by assumption))

/-- `times n f t` where `f` is one of the operations -/
macro "rtimes" : tactic => `(tactic| (apply times_w _ _ _ _ _ (by assumption); intro t' ht'; rarm))

/- the dispatchers are taken apart with `apply ok_ite` / `split`; the operations themselves must stay opaque there -/
attribute [local irreducible] checkScrollUpT checkScrollDownT echT insT delT bsT removeTerminalLine insertTerminalLine
  clearBufferDown clearBufferUp clearLine clearLineEnd clearLineStart scrollUp scrollDown scrollLeft scrollRight lfT
  printCharT printNT repaintAll fillToEol layerSetChar fillArea times

/-- what an arm may use -/
structure Pre (w : Int) (s : Scr) (c : Car) : Prop where
  hw : 0 ≤ w
  hx : 0 ≤ c.x
  hy : 0 ≤ c.y
  htw : 0 ≤ s.tw
  hbot : BottomOk s
  hcol : 0 ≤ lastCol s
  hk : ScrOk s
  hc : CurOk s c

theorem pre_of_good (w : Int) (hw : 0 ≤ w) (st : St) (h : GoodSt st) (hb : BwOk st.s) : Pre w st.s st.c :=
  ⟨hw, h.2.1.1, h.2.1.2.2.1, by have := h.1.tw1; omega, bottomOk_of_scrOk _ h.1, lastCol_nonneg _ h.1 hb, h.1, h.2.1⟩

theorem csiRows_ok (w : Int) (cfg : Cfg) (st : St) (ch : Char) (t : Tab) (hp : Pre w st.s st.c) (ht : W w t) :
    Ok (csiRows cfg st ch t) (W w) := by
  obtain ⟨hw, hx, hy, htw, hbot, hcol, hk, hc⟩ := hp
  unfold csiRows
  simp only []
  repeat' (first | (apply ok_ite <;> intro _) | split)
  all_goals first | rarm | rtimes

theorem escRows_ok (w : Int) (st : St) (ch : Char) (t : Tab) (hp : Pre w st.s st.c) (ht : W w t) :
    Ok (escRows st ch t) (W w) := by
  obtain ⟨hw, hx, hy, htw, hbot, hcol, hk, hc⟩ := hp
  unfold escRows
  simp only []
  repeat' (first | (apply ok_ite <;> intro _) | split)
  all_goals first | rarm | rtimes

theorem dfltRows_ok (w : Int) (cfg : Cfg) (st : St) (ch : Char) (t : Tab) (hp : Pre w st.s st.c) (ht : W w t) :
    Ok (dfltRows cfg st ch t) (W w) := by
  obtain ⟨hw, hx, hy, htw, hbot, hcol, hk, hc⟩ := hp
  unfold dfltRows
  simp only []
  repeat' (first | (apply ok_ite <;> intro _) | split)
  all_goals first | rarm | rtimes

theorem endCsiRows_ok (w : Int) (st : St) (f ch : Char) (t : Tab) (hp : Pre w st.s st.c) (ht : W w t) :
    Ok (endCsiRows st f ch t) (W w) := by
  obtain ⟨hw, hx, hy, htw, hbot, hcol, hk, hc⟩ := hp
  unfold endCsiRows
  simp only []
  repeat' (first | (apply ok_ite <;> intro _) | split)
  all_goals first
    | rarm
    | rtimes
    | (apply fillArea_w _ (by assumption) _ _ _ _ (by assumption); omega)

theorem ansiRows_ok (w : Int) (cfg : Cfg) (st : St) (ch : Char) (t : Tab) (hp : Pre w st.s st.c) (ht : W w t) :
    Ok (ansiRows cfg st ch t) (W w) := by
  unfold ansiRows
  split
  · exact escRows_ok w st ch t hp ht
  · apply ok_ite
    · intro _; exact ht
    · intro _; exact dfltRows_ok w cfg (dflt st) ch t hp ht
  · exact endCsiRows_ok w st _ ch t hp ht
  · exact csiRows_ok w cfg st ch t hp ht
  · exact dfltRows_ok w cfg st ch t hp ht
  · exact ht

/-! ## the joint step -/
/-- joint invariant: `GoodSt` of C01, buffer width in range, layer width fixed; the row list is arbitrary -/
def JGood (w : Int) (x : JSt) : Prop := GoodSt x.1 ∧ BwOk x.1.s ∧ W w x.2
abbrev JGoodR (w : Int) (r : JSt × Out) : Prop := JGood w r.1

/-- the joint run went on, or was stopped by the conservative `i32` guard of the geometry model —
    never by a content operation, never by another geometry panic -/
def JOk {α : Type} (r : JRes α) (P : α → Prop) : Prop :=
  match r with
  | .ok a => P a
  | .error e => ∃ site, e = JErr.geo (Panic.overflow site)

theorem invokes_good (st : St) (ch : Char) (id : Int) (d : St) (h : invokes st ch = some (id, d)) (hg : GoodSt st) :
    GoodSt d ∧ d.s = st.s := by
  unfold invokes at h
  split at h
  · split at h
    · split at h
      · cases h; exact ⟨good_keep st _ hg rfl, rfl⟩
      · cases h
    · cases h
  · simp only [] at h
    repeat' split at h
    all_goals first
      | (cases h; exact ⟨good_keep st _ hg rfl, rfl⟩)
      | cases h
  · cases h

theorem stepCoreJ_good (w : Int) (hw : 0 ≤ w) (cfg : Cfg) (o : Orc) (invJ : Int → JSt → JRes JSt) (x : JSt) (ch : Char)
    (hinv : ∀ id x, JGood w x → JOk (invJ id x) (JGood w)) (h : JGood w x) :
    JOk (stepCoreJ cfg o invJ x ch) (JGoodR w) := by
  obtain ⟨hg, hb, ht⟩ := h
  unfold stepCoreJ
  split
  · rename_i id d hinvk
    have hi : invokes x.1 ch = some (id, d) := by
      split at hinvk
      · exact hinvk
      · cases hinvk
    obtain ⟨hd, hs⟩ := invokes_good x.1 ch id d hi hg
    have hj : JGood w (d, x.2) := ⟨hd, by rw [hs]; exact hb, ht⟩
    have h2 := hinv id (d, x.2) hj
    cases hr : invJ id (d, x.2) with
    | error e => rw [hr] at h2; exact h2
    | ok x' => rw [hr] at h2; exact h2
  · have hgd := stepCore_good cfg o (fun _ s => .ok s) x.1 ch (fun _ st hs => hs) hg
    have hbw := stepCore_bw cfg o (fun _ s => .ok s) x.1 ch (fun id d st' _ hh => by cases hh; exact bwStep_refl _) hg
    cases hs : stepCore cfg o (fun _ s => .ok s) x.1 ch with
    | error e =>
      rw [hs] at hgd
      obtain ⟨site, he⟩ := hgd
      exact ⟨site, by rw [he]⟩
    | ok r =>
      rw [hs] at hgd hbw
      obtain ⟨st', out⟩ := r
      have hr := ansiRows_ok w cfg x.1 ch x.2 (pre_of_good w hw x.1 hg hb) ht
      cases hrr : ansiRows cfg x.1 ch x.2 with
      | error e => rw [hrr] at hr; exact hr.elim
      | ok t' =>
        rw [hrr] at hr
        exact ⟨hgd, bwOk_of_step hbw hb, hr⟩

theorem replayJ_good (w : Int) (stepf : JSt → Char → JR) (hstep : ∀ x ch, JGood w x → JOk (stepf x ch) (JGoodR w)) :
    ∀ (body : List Char) (x : JSt), JGood w x → JOk (replayJ stepf body x) (JGood w) := by
  intro body
  induction body with
  | nil => intro x h; exact h
  | cons ch rest ih =>
    intro x h
    unfold replayJ
    split
    · exact h
    · have h1 : JGood w ({ x.1 with p := { x.1.p with budget := x.1.p.budget - 1 } }, x.2) :=
        ⟨good_keep x.1 _ h.1 rfl, h.2.1, h.2.2⟩
      have h2 := hstep _ ch h1
      simp only []
      cases hs : stepf ({ x.1 with p := { x.1.p with budget := x.1.p.budget - 1 } }, x.2) ch with
      | error e => rw [hs] at h2; exact h2
      | ok r =>
        rw [hs] at h2
        obtain ⟨x', out⟩ := r
        exact ih x' h2

theorem invokerJ_good (w : Int) (stepf : JSt → Char → JR) (top : Bool)
    (hstep : ∀ x ch, JGood w x → JOk (stepf x ch) (JGoodR w)) (id : Int) (x : JSt) (h : JGood w x) :
    JOk (invokerJ stepf top id x) (JGood w) := by
  unfold invokerJ
  split
  · exact h
  · apply replayJ_good w stepf hstep
    split
    · exact ⟨good_keep x.1 _ h.1 rfl, h.2.1, h.2.2⟩
    · exact h

theorem stepDJ_good (w : Int) (hw : 0 ≤ w) : ∀ (d : Nat) (cfg : Cfg) (o : Nat → Orc) (x : JSt) (ch : Char),
    JGood w x → JOk (stepDJ d cfg o x ch) (JGoodR w) := by
  intro d
  induction d with
  | zero =>
    intro cfg o x ch h
    unfold stepDJ
    exact stepCoreJ_good w hw cfg _ _ _ ch (fun _ x hx => hx) ⟨good_keep x.1 _ h.1 rfl, h.2.1, h.2.2⟩
  | succ d ih =>
    intro cfg o x ch h
    unfold stepDJ
    exact stepCoreJ_good w hw cfg _ _ _ ch (invokerJ_good w _ _ (fun x ch hx => ih cfg o x ch hx))
      ⟨good_keep x.1 _ h.1 rfl, h.2.1, h.2.2⟩

theorem stepJ_good (w : Int) (hw : 0 ≤ w) (cfg : Cfg) (o : Nat → Orc) (x : JSt) (ch : Char) (h : JGood w x) :
    JOk (stepJ cfg o x ch) (JGoodR w) := stepDJ_good w hw _ cfg o x ch h

theorem runJ_good (w : Int) (hw : 0 ≤ w) (cfg : Cfg) (o : Nat → Orc) : ∀ (cs : List Char) (x : JSt), JGood w x →
    JOk (runJ cfg o x cs) (JGood w) := by
  intro cs
  induction cs with
  | nil => intro x h; exact h
  | cons ch rest ih =>
    intro x h
    unfold runJ
    have h2 := stepJ_good w hw cfg o x ch h
    cases hs : stepJ cfg o x ch with
    | error e => rw [hs] at h2; exact h2
    | ok r => rw [hs] at h2; obtain ⟨x', out⟩ := r; exact ih x' h2

end IcyVerif.Rows
