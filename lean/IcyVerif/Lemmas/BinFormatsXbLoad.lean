import IcyVerif.Lemmas.BinFormatsAdf
set_option linter.unusedSimpArgs false
set_option linter.unusedVariables false
/-!
# C05, XBin: the loader on a well-formed header + palette + font blocks + image data
-/
namespace IcyVerif.BinFormats
open IcyVerif.XbCompress IcyVerif.Gen

/-- the five flag bits are read back independently -/
theorem xbFlags_bits : ∀ font pal comp ice ext : Bool,
    (xbFlags font pal comp ice ext &&& Xb.flagPalette == Xb.flagPalette) = pal ∧
    (xbFlags font pal comp ice ext &&& Xb.flagFont == Xb.flagFont) = font ∧
    (xbFlags font pal comp ice ext &&& Xb.flagCompress == Xb.flagCompress) = comp ∧
    (xbFlags font pal comp ice ext &&& Xb.flagNonBlink == Xb.flagNonBlink) = ice ∧
    (xbFlags font pal comp ice ext &&& Xb.flag512 == Xb.flag512) = ext := by decide

/-- whatever `from_bytes` found at the end of the file, the XBin loader's start buffer has no rows, the DOS palette and
    the default font; everything else is overwritten from the header -/
def sauceFonts0 (s : Option Sauce.Sauce) : List (Nat × Font) :=
  match s with
  | none => [(0, defaultFont)]
  | some s' => startFonts s'

theorem xb_start (s : Option Sauce.Sauce) : ∃ bw lw : Nat, ∃ bh lh : Int, ∃ im : IceMode,
    (LBuf.start BinFmt.xbStartW BinFmt.xbStartH (BinFmt.xbClearsRows == 1)).setSauce true s =
      { bw := bw, bh := bh, lw := lw, lh := lh, lines := [], ice := im, pal := dosPalette, fonts := sauceFonts0 s,
        sauce := s.map metaOf } := by
  have hc : (BinFmt.xbClearsRows == 1) = true := by decide
  cases s with
  | none => exact ⟨_, _, _, _, _, by rw [hc, start_setSauce_none]; rfl⟩
  | some s =>
    refine ⟨if s.width = 0 ∨ s.width > BinFmt.sauceMaxWidth then BinFmt.sauceFallbackWidth else s.width,
      if s.width = 0 ∨ s.width > BinFmt.sauceMaxWidth then BinFmt.sauceFallbackWidth else s.width, s.height, s.height,
      if s.ice then .ice else .unlimited, ?_⟩
    unfold LBuf.setSauce LBuf.start sauceFonts0 startFonts
    simp only [hc, if_true, Option.map_some]
    cases s.font.bind sauceFontByName <;> rfl

/-- the buffer the image data is placed into -/
def xbBase (w h fh : Nat) (fontF palF ice ext : Bool) (palB f0d f1d : List Nat) (fs0 : List (Nat × Font)) (m : Option Sauce.Meta) : LBuf :=
  { bw := w, bh := (h : Int), lw := w, lh := (h : Int), lines := [], ice := if ice then .ice else .blink,
    pal := if palF then from63 palB else dosPalette,
    fonts := if fontF then (if ext then [(0, mkFont fh f0d), (1, mkFont fh f1d)] else [(0, mkFont fh f0d)]) else fs0,
    sauce := m }

theorem xb_load (s : Option Sauce.Sauce) (w h fh : Nat) (fontF palF comp ice ext : Bool) (palB f0d f1d img : List Nat)
    (hw1 : 1 ≤ w) (hw2 : w ≤ 4096) (hh : h ≤ 65535) (hfh1 : 1 ≤ fh) (hfh2 : fh ≤ 32)
    (hpalB : palB.length = 48) (hf0 : f0d.length = fh * 256) (hf1 : f1d.length = fh * 256) (hext : ext = true → fontF = true) :
    xbLoad (88 :: 66 :: 73 :: 78 :: 0x1A :: (w % 256) :: ((w / 256) % 256) :: (h % 256) :: ((h / 256) % 256) :: (fh % 256) ::
        xbFlags fontF palF comp ice ext ::
        ((if palF then palB else []) ++ ((if fontF then f0d else []) ++ ((if ext then f1d else []) ++ img)))) s =
      match (if comp then readCompressed img else some (readUncompressed img)) with
      | none => .panic
      | some ps => .ok (placeAll false false 0 (w - 1) (xbBase w h fh fontF palF ice ext palB f0d f1d (sauceFonts0 s) (s.map metaOf)) 0 0
          (ps.map (decodeChar ice ext))).1.crop := by
  obtain ⟨bw0, lw0, bh0, lh0, im0, hst⟩ := xb_start s
  obtain ⟨b1, b2, b3, b4, b5⟩ := xbFlags_bits fontF palF comp ice ext
  have ew : w % 256 + (w / 256) % 256 * 256 = w := by omega
  have eh : h % 256 + (h / 256) % 256 * 256 = h := by omega
  have efh : fh % 256 = fh := by omega
  have efh0 : ¬ (fh = 0) := by omega
  have hpl : Xb.paletteLength = 48 := rfl
  unfold xbLoad xbBlocks xbImage
  rw [hst]
  simp only [bne_self_eq_false, Bool.false_eq_true, if_false, ew, eh, efh, efh0, b1, b2, b3, b4, b5]
  have c1 : ¬ (w < 1 ∨ w > 4096) := by omega
  have c2 : ¬ (fh > 32) := by omega
  simp only [c1, c2, if_false, hpl]
  have T1 : ∀ X : List Nat, (f0d ++ X).take (fh * 256) = f0d := fun X => List.take_left' hf0
  have D1 : ∀ X : List Nat, (f0d ++ X).drop (fh * 256) = X := fun X => List.drop_left' hf0
  have T2 : ∀ X : List Nat, (f1d ++ X).take (fh * 256) = f1d := fun X => List.take_left' hf1
  have D2 : ∀ X : List Nat, (f0d ++ (f1d ++ X)).drop (2 * (fh * 256)) = X := by
    intro X
    rw [← List.append_assoc]
    exact List.drop_left' (by simp [hf0, hf1]; omega)
  have TP : ∀ X : List Nat, (palB ++ X).take 48 = palB := fun X => List.take_left' hpalB
  have DP : ∀ X : List Nat, (palB ++ X).drop 48 = X := fun X => List.drop_left' hpalB
  have n1 : ∀ a b : Nat, ¬ (a + b < a) := by intro a b; omega
  have n2 : ∀ a b : Nat, ¬ (a + (a + b) < 2 * a) := by intro a b; omega
  have n3 : ∀ b : Nat, ¬ (48 + b < 48) := by intro b; omega
  cases palF <;> cases fontF <;> cases ext <;>
    simp only [if_true, if_false, Bool.false_eq_true, List.nil_append, false_and, true_and, hpalB, Nat.lt_irrefl,
      List.length_append, hf0, hf1, and_self, and_true, xbBase, T1, D1, T2, D2, TP, DP, n1, n2, n3] <;>
    (try (exact absurd (hext rfl) (by decide)))
  all_goals rfl

end IcyVerif.BinFormats
