import IcyVerif.Lemmas.UndoLayer
set_option linter.unusedSimpArgs false
set_option linter.unusedVariables false
/-! # C08: the inverse law record by record (`inverse_<record>`), for every document -/
namespace IcyVerif.Undo

/-- `onLayer`/`onLayerIdx` with the failure made a parameter -/
def onLayerE (er : Err) (d : Doc) (i : Nat) (op : UndoOp) (f : LayerM → LayerM) : Res :=
  match d.layers[i]? with
  | some l => .ok (op, d.setLayer i (f l))
  | none => .error er

theorem onLayer_eq (d : Doc) (i : Nat) (op : UndoOp) (f : LayerM → LayerM) : onLayer d i op f = onLayerE .err d i op f := rfl
theorem onLayerIdx_eq (d : Doc) (i : Nat) (op : UndoOp) (f : LayerM → LayerM) : onLayerIdx d i op f = onLayerE .panic d i op f := rfl

theorem getElem?_setLayer_self (d : Doc) (i : Nat) (l l0 : LayerM) (h : d.layers[i]? = some l0) : (d.setLayer i l).layers[i]? = some l := by
  have : i < d.layers.length := (List.getElem?_eq_some_iff.mp h).1
  simp [Doc.setLayer, List.getElem?_set, this]

/-- a record that is a fixed function of one layer in both directions, with both functions acting on observations -/
theorem undoable_onLayer (o : UndoOp) (i : Nat) (eu er : Err) (fr fu : LayerM → LayerM) (FR FU : LObs → LObs)
    (hfr : ∀ l, (fr l).obs = FR l.obs) (hfu : ∀ l, (fu l).obs = FU l.obs)
    {d d' : Doc}
    (hredo : ∀ e, e.obs = d.obs → o.redo e = onLayerE er e i o fr)
    (hundo : ∀ e, e.obs = d'.obs → o.undo e = onLayerE eu e i o fu)
    (hr : o.redo d = .ok (o, d'))
    (hrt : ∀ l, d.layers[i]? = some l → FU (FR l.obs) = l.obs) : Undoable o d.obs d'.obs := by
  rw [hredo d rfl] at hr
  unfold onLayerE at hr
  cases hl : d.layers[i]? with
  | none => rw [hl] at hr; simp at hr
  | some l =>
    rw [hl] at hr
    simp at hr
    subst hr
    refine ⟨(· = o), (· = o), rfl, ?_, ?_⟩
    · intro o1 ho e' he'
      subst ho
      have hl' : (d.setLayer i (fr l)).layers[i]? = some (fr l) := getElem?_setLayer_self d i (fr l) l hl
      obtain ⟨l', hl1, hl2⟩ := obs_some he'.symm hl'
      refine ⟨o1, e'.setLayer i (fu l'), ?_, ?_, rfl⟩
      · rw [hundo e' he']; simp [onLayerE, hl1]
      · rw [obs_setLayer, hfu, hl2, hfr, hrt l hl]
        have h1 := obs_w he'; have h2 := obs_h he'; have h3 := obs_layers he'; have h4 := obs_x he'
        rw [obs_setLayer] at he'
        apply DObs.ext'
        · show e'.w = d.w; rw [h1]; rfl
        · show e'.h = d.h; rw [h2]; rfl
        · show (e'.layers.map LayerM.obs).set i l.obs = d.layers.map LayerM.obs
          rw [h3]
          show ((d.setLayer i (fr l)).layers.map LayerM.obs).set i l.obs = _
          simp only [Doc.setLayer, List.map_set, List.set_set]
          exact map_set_self _ _ _ _ hl
        · show e'.x.obs = d.x.obs; rw [h4]; rfl
    · intro o1 ho e he
      subst ho
      obtain ⟨l', hl1, hl2⟩ := obs_some he.symm hl
      refine ⟨o1, e.setLayer i (fr l'), ?_, ?_, rfl⟩
      · rw [hredo e he]; simp [onLayerE, hl1]
      · exact obs_setLayer_congr he i (by rw [hfr, hfr, hl2])


theorem LObs.setChar_of_not_writes (a : LObs) (x y : Int) (c : Cell) (h : a.writes x y = false) : a.setChar x y c = a := by
  obtain ⟨w, hh, p, cells⟩ := a
  simp [LObs.setChar, h, LObs.cells]

theorem LObs.setChar_of_writes (a : LObs) (x y : Int) (c : Cell) (h : a.writes x y = true) :
    a.setChar x y c = (a.1, a.2.1, a.2.2.1, fun x' y' => if x' = x.toNat ∧ y' = y.toNat then c else a.cells x' y') := by
  simp [LObs.setChar, h]

theorem LObs.restore_setChar (a : LObs) (x y : Int) (old new : Cell) (hold : old = a.getChar x y) :
    (a.setChar x y new).restoreChar x y old = a := by
  obtain ⟨w, hh, p, cells⟩ := a
  by_cases hin : LObs.inside (w, hh, p, cells) x y = true
  · have hin2 : LObs.inside (LObs.setChar (w, hh, p, cells) x y new) x y = true := hin
    simp only [LObs.restoreChar, hin2, true_and]
    show (w, hh, p, _) = (w, hh, p, cells)
    congr 3
    funext x' y'
    by_cases hxy : x' = x.toNat ∧ y' = y.toNat
    · obtain ⟨rfl, rfl⟩ := hxy
      simp [hold, LObs.getChar, hin, LObs.cells]
    · simp only [hxy, if_false, LObs.setChar, LObs.cells, and_false]
  · have hin' : LObs.inside (w, hh, p, cells) x y = false := by simpa using hin
    have hw : LObs.writes (w, hh, p, cells) x y = false := by simp [LObs.writes, hin']
    rw [LObs.setChar_of_not_writes _ x y new hw]
    simp [LObs.restoreChar, hin', LObs.cells]

/-- **UndoSetChar** (set_char, also each half of a mirrored set_char off the centre column).  After `fix: undo restores
    recorded cells directly…` the law holds at EVERY document: locked, hidden and alpha-locked layers, positions outside the
    layer, rows that are not materialised. -/
theorem inverse_setChar (d : Doc) (i : Nat) (x y : Int) (old new : Cell)
    (hold : ∀ l, d.layers[i]? = some l → old = l.getChar x y) :
    InverseAt (.setChar x y i old new) d := by
  intro op' d' hr
  have hop : op' = .setChar x y i old new := by
    simp only [UndoOp.redo, onLayerIdx] at hr
    cases hl : d.layers[i]? with
    | none => rw [hl] at hr; simp at hr
    | some l => rw [hl] at hr; simp at hr; exact hr.1.symm
  subst hop
  exact undoable_onLayer (.setChar x y i old new) i .panic .panic (·.setChar x y new) (·.restoreChar x y old)
    (·.setChar x y new) (·.restoreChar x y old) (fun l => setChar_obs l x y new) (fun l => restoreChar_obs l x y old)
    (fun e _ => rfl) (fun e _ => rfl) hr
    (fun l hl => LObs.restore_setChar l.obs x y old new (by rw [hold l hl]; rfl))

def LObs.swapChar (a : LObs) (x1 y1 x2 y2 : Int) : LObs :=
  if !a.inside x1 y1 || !a.inside x2 y2 then a
  else if a.props.hasAlpha && a.props.alphaLocked && !((a.getChar x1 y1).isVisible && (a.getChar x2 y2).isVisible) then a
  else (a.setChar x1 y1 (a.getChar x2 y2)).setChar x2 y2 (a.getChar x1 y1)

theorem swapChar_obs (l : LayerM) (x1 y1 x2 y2 : Int) : (l.swapChar x1 y1 x2 y2).obs = l.obs.swapChar x1 y1 x2 y2 := by
  have e : l.obs.swapChar x1 y1 x2 y2 =
      if (!l.inside x1 y1 || !l.inside x2 y2) = true then l.obs
      else if (l.props.hasAlpha && l.props.alphaLocked && !((l.getChar x1 y1).isVisible && (l.getChar x2 y2).isVisible)) = true then l.obs
      else (l.obs.setChar x1 y1 (l.obs.getChar x2 y2)).setChar x2 y2 (l.obs.getChar x1 y1) := rfl
  rw [e]
  unfold LayerM.swapChar
  split
  · rfl
  · split
    · rfl
    · simp only [setChar_obs, getChar_obs]

/-- `set_char` writes inside an unlocked, visible layer when the layer is not alpha-locked or the cell is visible -/
theorem LObs.writes_true (b : LObs) (x y : Int) (hin : b.inside x y = true) (hW : (b.props.locked || !b.props.visible) = false)
    (hv : ¬ (b.props.hasAlpha = true ∧ b.props.alphaLocked = true) ∨ (b.cells x.toNat y.toNat).isVisible = true) :
    b.writes x y = true := by
  unfold LObs.writes
  rw [hin, hW]
  rcases hv with h | h
  · cases h1 : b.props.hasAlpha <;> cases h2 : b.props.alphaLocked <;> simp
    exact absurd ⟨h1, h2⟩ h
  · simp [h]

theorem toNat_inj_of_inside {a : LObs} {x1 y1 x2 y2 : Int} (h1 : a.inside x1 y1 = true) (h2 : a.inside x2 y2 = true) :
    (x1.toNat = x2.toNat ∧ y1.toNat = y2.toNat) ↔ (x1 = x2 ∧ y1 = y2) := by
  simp only [LObs.inside, Bool.and_eq_true, decide_eq_true_eq] at h1 h2
  omega

/-- `swap_char` is an involution at every layer state (after `fix: Layer::swap_char on an alpha-locked layer swaps only
    two visible cells…`) -/
theorem LObs.swapChar_swapChar (a : LObs) (x1 y1 x2 y2 : Int) :
    (a.swapChar x1 y1 x2 y2).swapChar x1 y1 x2 y2 = a := by
  by_cases hin : (!a.inside x1 y1 || !a.inside x2 y2) = true
  · simp [LObs.swapChar, hin]
  · have hin' : (!a.inside x1 y1 || !a.inside x2 y2) = false := by simpa using hin
    have i1 : a.inside x1 y1 = true := by
      cases hh : a.inside x1 y1 <;> simp [hh] at hin' ⊢
    have i2 : a.inside x2 y2 = true := by
      cases hh : a.inside x2 y2 <;> simp [hh] at hin' ⊢
    by_cases hg : (a.props.hasAlpha && a.props.alphaLocked && !((a.getChar x1 y1).isVisible && (a.getChar x2 y2).isVisible)) = true
    · have e1 : a.swapChar x1 y1 x2 y2 = a := by
        simp only [LObs.swapChar, hin', hg, if_true, if_false, Bool.false_eq_true]
      rw [e1, e1]
    · have hg' : (a.props.hasAlpha && a.props.alphaLocked && !((a.getChar x1 y1).isVisible && (a.getChar x2 y2).isVisible)) = false := by
        simpa using hg
      by_cases hW : (a.props.locked || !a.props.visible) = true
      · -- nothing is ever written
        have w : ∀ (b : LObs) x y, b.props = a.props → b.writes x y = false := by
          intro b x y hb
          simp only [LObs.writes, hb, hW]; simp
        have s : ∀ (b : LObs) x y c, b.props = a.props → b.setChar x y c = b := fun b x y c hb => LObs.setChar_of_not_writes b x y c (w b x y hb)
        have e1 : a.swapChar x1 y1 x2 y2 = a := by
          simp only [LObs.swapChar, hin', hg', if_false, Bool.false_eq_true]
          rw [s a _ _ _ rfl, s a _ _ _ rfl]
        rw [e1, e1]
      · have hW' : (a.props.locked || !a.props.visible) = false := by simpa using hW
        obtain ⟨w0, h0, p, cells⟩ := a
        -- the two cells are visible unless the layer is not alpha-locked
        have good0 : ¬ (p.hasAlpha = true ∧ p.alphaLocked = true) ∨
            ((cells x1.toNat y1.toNat).isVisible = true ∧ (cells x2.toNat y2.toNat).isVisible = true) := by
          have g1 : LObs.getChar (w0, h0, p, cells) x1 y1 = cells x1.toNat y1.toNat := by simp [LObs.getChar, i1, LObs.cells]
          have g2 : LObs.getChar (w0, h0, p, cells) x2 y2 = cells x2.toNat y2.toNat := by simp [LObs.getChar, i2, LObs.cells]
          have hp : LObs.props (w0, h0, p, cells) = p := rfl
          by_cases hal : p.hasAlpha = true ∧ p.alphaLocked = true
          · right
            obtain ⟨ha, hl⟩ := hal
            rw [g1, g2, hp, ha, hl] at hg'
            simpa using hg'
          · exact Or.inl hal
        have inj := toNat_inj_of_inside i1 i2
        have sw : ∀ (cs : Nat → Nat → Cell),
            (¬ (p.hasAlpha = true ∧ p.alphaLocked = true) ∨ ((cs x1.toNat y1.toNat).isVisible = true ∧ (cs x2.toNat y2.toNat).isVisible = true)) →
            LObs.swapChar (w0, h0, p, cs) x1 y1 x2 y2 =
            (w0, h0, p, fun x' y' => if x' = x2.toNat ∧ y' = y2.toNat then cs x1.toNat y1.toNat
              else if x' = x1.toNat ∧ y' = y1.toNat then cs x2.toNat y2.toNat else cs x' y') := by
          intro cs good
          have j1 : LObs.inside (w0, h0, p, cs) x1 y1 = true := i1
          have j2 : LObs.inside (w0, h0, p, cs) x2 y2 = true := i2
          have g1 : LObs.getChar (w0, h0, p, cs) x1 y1 = cs x1.toNat y1.toNat := by simp [LObs.getChar, j1, LObs.cells]
          have g2 : LObs.getChar (w0, h0, p, cs) x2 y2 = cs x2.toNat y2.toNat := by simp [LObs.getChar, j2, LObs.cells]
          have guard : ((LObs.props (w0, h0, p, cs)).hasAlpha && (LObs.props (w0, h0, p, cs)).alphaLocked &&
              !((LObs.getChar (w0, h0, p, cs) x1 y1).isVisible && (LObs.getChar (w0, h0, p, cs) x2 y2).isVisible)) = false := by
            rw [g1, g2]
            have hp : LObs.props (w0, h0, p, cs) = p := rfl
            rw [hp]
            rcases good with g | ⟨v1, v2⟩
            · have : (p.hasAlpha && p.alphaLocked) = false := by
                cases ha : p.hasAlpha <;> cases hl : p.alphaLocked <;> simp_all
              simp [this]
            · simp [v1, v2]
          simp only [LObs.swapChar, j1, j2, Bool.not_true, Bool.or_self, if_false, Bool.false_eq_true, guard]
          have w1 : LObs.writes (w0, h0, p, cs) x1 y1 = true :=
            LObs.writes_true _ x1 y1 j1 hW' (by
              rcases good with g | ⟨v1, _⟩
              · exact Or.inl g
              · exact Or.inr v1)
          rw [LObs.setChar_of_writes (w0, h0, p, cs) x1 y1 _ w1]
          have w2 : LObs.writes ((w0, h0, p, cs).fst, (w0, h0, p, cs).snd.fst, (w0, h0, p, cs).snd.snd.fst, fun x' y' =>
              if x' = x1.toNat ∧ y' = y1.toNat then LObs.getChar (w0, h0, p, cs) x2 y2 else LObs.cells (w0, h0, p, cs) x' y') x2 y2 = true := by
            refine LObs.writes_true _ x2 y2 (show LObs.inside _ x2 y2 = true from i2) (show ((LObs.props _).locked || !(LObs.props _).visible) = false from hW') ?_
            rcases good with g | ⟨_, v2⟩
            · exact Or.inl g
            · refine Or.inr ?_
              show (if x2.toNat = x1.toNat ∧ y2.toNat = y1.toNat then LObs.getChar (w0, h0, p, cs) x2 y2 else cs x2.toNat y2.toNat).isVisible = true
              rw [g2]
              split <;> exact v2
          rw [LObs.setChar_of_writes _ x2 y2 _ w2]
          simp only [LObs.getChar, j1, j2, if_true, LObs.cells]
        rw [sw cells good0]
        rw [sw _ (by
          rcases good0 with g | ⟨v1, v2⟩
          · exact Or.inl g
          · refine Or.inr ⟨?_, ?_⟩
            · by_cases q : x1.toNat = x2.toNat ∧ y1.toNat = y2.toNat
              · simp [q, v1, v2]
              · simp [q, v1, v2]
            · simp [v1])]
        congr 3
        funext x' y'
        by_cases q2 : x' = x2.toNat ∧ y' = y2.toNat
        · obtain ⟨rfl, rfl⟩ := q2
          by_cases q12 : x1.toNat = x2.toNat ∧ y1.toNat = y2.toNat
          · simp [q12]
          · have q12' : ¬ (x2.toNat = x1.toNat ∧ y2.toNat = y1.toNat) := fun hh => q12 ⟨hh.1.symm, hh.2.symm⟩
            simp [q12, q12']
        · by_cases q1 : x' = x1.toNat ∧ y' = y1.toNat
          · obtain ⟨rfl, rfl⟩ := q1
            simp [q2]
          · simp [q1, q2]

/-- **UndoSwapChar** — self-inverse at every document: positions outside the layer, locked and hidden layers are no-ops,
    an alpha-locked layer swaps two visible cells or nothing -/
theorem inverse_swapChar (d : Doc) (i : Nat) (x1 y1 x2 y2 : Int) : InverseAt (.swapChar i x1 y1 x2 y2) d := by
  intro op' d' hr
  have hop : op' = .swapChar i x1 y1 x2 y2 := by
    simp only [UndoOp.redo, onLayerIdx] at hr
    cases hl : d.layers[i]? with
    | none => rw [hl] at hr; simp at hr
    | some l => rw [hl] at hr; simp at hr; exact hr.1.symm
  subst hop
  exact undoable_onLayer (.swapChar i x1 y1 x2 y2) i .panic .panic (·.swapChar x1 y1 x2 y2) (·.swapChar x1 y1 x2 y2)
    (·.swapChar x1 y1 x2 y2) (·.swapChar x1 y1 x2 y2) (fun l => swapChar_obs l _ _ _ _) (fun l => swapChar_obs l _ _ _ _)
    (fun e _ => rfl) (fun e _ => rfl) hr
    (fun l _ => LObs.swapChar_swapChar l.obs _ _ _ _)



/-- **ToggleLayerVisibility** — self-inverse at every document (an out-of-range index makes the edit itself fail) -/
theorem inverse_toggleVisibility (d : Doc) (i : Nat) : InverseAt (.toggleVisibility i) d := by
  intro op' d' hr
  have hop : op' = .toggleVisibility i := by
    simp only [UndoOp.redo, onLayer] at hr
    cases hl : d.layers[i]? with
    | none => rw [hl] at hr; simp at hr
    | some l => rw [hl] at hr; simp at hr; exact hr.1.symm
  subst hop
  let f : LayerM → LayerM := fun l => { l with props := { l.props with visible := !l.props.visible } }
  let F : LObs → LObs := fun a => (a.1, a.2.1, { a.2.2.1 with visible := !a.2.2.1.visible }, a.2.2.2)
  exact undoable_onLayer (.toggleVisibility i) i .err .err f f F F (fun l => rfl) (fun l => rfl)
    (fun e _ => rfl) (fun e _ => rfl) hr
    (fun (l : LayerM) hl => by
      show F (F l.obs) = l.obs
      obtain ⟨w, h, ⟨v, lk, pl, ha, al, ox, oy, ti, ro⟩, lines⟩ := l
      simp [F, LayerM.obs])

def LObs.setOffset (a : LObs) (x y : Int) : LObs :=
  if a.props.posLocked then a else (a.1, a.2.1, { a.2.2.1 with offX := x, offY := y }, a.2.2.2)

theorem setOffset_obs (l : LayerM) (x y : Int) : (l.setOffset x y).obs = l.obs.setOffset x y := by
  unfold LayerM.setOffset LObs.setOffset
  have : l.obs.props = l.props := rfl
  rw [this]
  split <;> rfl

/-- **MoveLayer** — at every document, provided the record carries the layer's current offset as `from` (it does:
    `move_layer` reads it from the layer it then moves); on a position-locked layer both directions are no-ops -/
theorem inverse_moveLayer (d : Doc) (i : Nat) (fx fy tx ty : Int)
    (hfrom : ∀ l, d.layers[i]? = some l → fx = l.props.offX ∧ fy = l.props.offY) :
    InverseAt (.moveLayer i fx fy tx ty) d := by
  intro op' d' hr
  have hop : op' = .moveLayer i fx fy tx ty := by
    simp only [UndoOp.redo, onLayer] at hr
    cases hl : d.layers[i]? with
    | none => rw [hl] at hr; simp at hr
    | some l => rw [hl] at hr; simp at hr; exact hr.1.symm
  subst hop
  exact undoable_onLayer (.moveLayer i fx fy tx ty) i .err .err (·.setOffset tx ty) (·.setOffset fx fy)
    (·.setOffset tx ty) (·.setOffset fx fy) (fun l => setOffset_obs l _ _) (fun l => setOffset_obs l _ _)
    (fun e _ => rfl) (fun e _ => rfl) hr
    (fun (l : LayerM) hl => by
      obtain ⟨h1, h2⟩ := hfrom l hl
      show (l.obs.setOffset tx ty).setOffset fx fy = l.obs
      obtain ⟨w, h, ⟨v, lk, pl, ha, al, ox, oy, ti, ro⟩, lines⟩ := l
      simp only at h1 h2
      subst h1 h2
      cases pl <;> simp [LObs.setOffset, LayerM.obs, LObs.props])



/-- **SetLayerSize** — the record captures the old size in `redo` (it mutates itself); rows and cells beyond the new
    size stay in `lines`, so shrinking and undoing restores them.  Holds at every document. -/
theorem inverse_setLayerSize (d : Doc) (i : Nat) (fw fh tw th : Int) : InverseAt (.setLayerSize i fw fh tw th) d := by
  intro op' d' hr
  simp only [UndoOp.redo] at hr
  cases hl : d.layers[i]? with
  | none => rw [hl] at hr; simp at hr
  | some l =>
    rw [hl] at hr
    simp at hr
    obtain ⟨rfl, rfl⟩ := hr
    let fr : LayerM → LayerM := fun l => { l with w := tw, h := th }
    let fu : LayerM → LayerM := fun m => { m with w := l.w, h := l.h }
    let FR : LObs → LObs := fun a => (tw, th, a.2.2.1, a.2.2.2)
    let FU : LObs → LObs := fun a => (l.w, l.h, a.2.2.1, a.2.2.2)
    refine undoable_onLayer (.setLayerSize i l.w l.h tw th) i .err .err fr fu FR FU (fun _ => rfl) (fun _ => rfl) ?_ (fun e _ => rfl) ?_ ?_
    · intro e he
      obtain ⟨l', hl1, hl2⟩ := obs_some he.symm hl
      have hw : l'.w = l.w := congrArg (·.1) hl2
      have hh : l'.h = l.h := congrArg (·.2.1) hl2
      simp [UndoOp.redo, onLayerE, hl1, hw, hh, fr]
    · simp [UndoOp.redo, hl, fr]
    · intro m hm
      rw [hl] at hm
      cases hm
      rfl

/-- **ResizeBuffer** (resize_buffer without layers) — at every document, given that the record holds the buffer's
    size as `orig_size` (it is created that way) -/
theorem inverse_resizeBuffer (d : Doc) (w h : Int) : InverseAt (.resizeBuffer d.w d.h w h) d := by
  intro op' d' hr
  simp [UndoOp.redo] at hr
  obtain ⟨rfl, rfl⟩ := hr
  refine ⟨(· = .resizeBuffer d.w d.h w h), (· = .resizeBuffer d.w d.h w h), rfl, ?_, ?_⟩
  · intro o ho e' he'
    subst ho
    refine ⟨_, ({ e' with w := d.w, h := d.h } : Doc).setMaskSize, by simp [UndoOp.undo], ?_, rfl⟩
    have hl := obs_layers he'
    have hx := obs_x he'
    exact DObs.ext' (a := Doc.obs _) (b := Doc.obs _) rfl rfl hl hx
  · intro o ho e he
    subst ho
    refine ⟨_, ({ e with w := w, h := h } : Doc).setMaskSize, by simp [UndoOp.redo], ?_, rfl⟩
    have hl := obs_layers he
    have hx := obs_x he
    exact DObs.ext' (a := Doc.obs _) (b := Doc.obs _) rfl rfl hl hx



theorem map_insertIdx' {α β : Type} (f : α → β) (l : List α) (i : Nat) (a : α) :
    (l.insertIdx i a).map f = (l.map f).insertIdx i (f a) := by
  induction l generalizing i with
  | nil => cases i <;> simp
  | cons x xs ih => cases i <;> simp [ih]

theorem map_eraseIdx' {α β : Type} (f : α → β) (l : List α) (i : Nat) :
    (l.eraseIdx i).map f = (l.map f).eraseIdx i := by
  induction l generalizing i with
  | nil => simp
  | cons x xs ih => cases i <;> simp [ih]

theorem insertIdx_eraseIdx_self' {α : Type} (l : List α) (i : Nat) (a : α) (h : l[i]? = some a) :
    (l.eraseIdx i).insertIdx i a = l := by
  induction l generalizing i with
  | nil => simp at h
  | cons x xs ih =>
    cases i with
    | zero => simp at h; simp [h]
    | succ i => simp at h; simp [ih i h]

theorem getElem?_insertIdx_self' {α : Type} (l : List α) (i : Nat) (a : α) (h : i ≤ l.length) : (l.insertIdx i a)[i]? = some a := by
  simp [List.getElem?_insertIdx, h]


theorem obs_clampCur (d : Doc) : d.clampCur.obs = d.obs := rfl

/-- **AddLayer** (add_new_layer, duplicate_layer) — at every document: the record keeps the removed layer, whatever its
    raw storage looks like -/
theorem inverse_addLayer (d : Doc) (idx : Nat) (l : LayerM) : InverseAt (.addLayer idx (some l)) d := by
  intro op' d' hr
  simp only [UndoOp.redo] at hr
  by_cases hidx : idx ≤ d.layers.length
  · simp only [hidx, if_true] at hr
    simp at hr
    obtain ⟨rfl, rfl⟩ := hr
    refine ⟨fun o => ∃ p, o = .addLayer idx p, fun o => ∃ l', o = .addLayer idx (some l') ∧ l'.obs = l.obs, ⟨none, rfl⟩, ?_, ?_⟩
    · rintro o ⟨p, rfl⟩ e' he'
      have hd' : ({ d with layers := d.layers.insertIdx idx l } : Doc).layers[idx]? = some l := getElem?_insertIdx_self' _ _ _ hidx
      obtain ⟨l', hl1, hl2⟩ := obs_some he'.symm hd'
      refine ⟨.addLayer idx (some l'), ({ e' with layers := e'.layers.eraseIdx idx } : Doc).clampCur, ?_, ?_, l', rfl, hl2⟩
      · simp [UndoOp.undo, hl1]
      · rw [obs_clampCur]
        have h1 := obs_w he'; have h2 := obs_h he'; have h3 := obs_layers he'; have h4 := obs_x he'
        refine DObs.ext' (a := Doc.obs _) (b := Doc.obs _) h1 h2 ?_ h4
        show (e'.layers.eraseIdx idx).map LayerM.obs = d.layers.map LayerM.obs
        rw [map_eraseIdx', h3]
        show ((d.layers.insertIdx idx l).map LayerM.obs).eraseIdx idx = _
        rw [map_insertIdx', List.eraseIdx_insertIdx_self]
    · rintro o ⟨l', rfl, hl'⟩ e he
      have hlen := obs_length he
      refine ⟨.addLayer idx none, { e with layers := e.layers.insertIdx idx l' }, ?_, ?_, none, rfl⟩
      · simp [UndoOp.redo, hlen, hidx]
      · have h1 := obs_w he; have h2 := obs_h he; have h3 := obs_layers he; have h4 := obs_x he
        refine DObs.ext' (a := Doc.obs _) (b := Doc.obs _) h1 h2 ?_ h4
        show (e.layers.insertIdx idx l').map LayerM.obs = (d.layers.insertIdx idx l).map LayerM.obs
        rw [map_insertIdx', map_insertIdx', h3, hl']
  · simp [hidx] at hr

/-- **RemoveLayer** — at every document (an out-of-range index makes the edit itself fail) -/
theorem inverse_removeLayer (d : Doc) (idx : Nat) (p : Option LayerM) : InverseAt (.removeLayer idx p) d := by
  intro op' d' hr
  simp only [UndoOp.redo] at hr
  cases hl : d.layers[idx]? with
  | none => rw [hl] at hr; simp at hr
  | some l =>
    rw [hl] at hr
    simp at hr
    obtain ⟨rfl, rfl⟩ := hr
    have hlt : idx < d.layers.length := (List.getElem?_eq_some_iff.mp hl).1
    refine ⟨fun o => ∃ l', o = .removeLayer idx (some l') ∧ l'.obs = l.obs, fun o => ∃ q, o = .removeLayer idx q, ⟨l, rfl, rfl⟩, ?_, ?_⟩
    · rintro o ⟨l', rfl, hl'⟩ e' he'
      rw [obs_clampCur] at he'
      have hlen := obs_length he'
      have hlen' : e'.layers.length = d.layers.length - 1 := by
        rw [hlen]; show (d.layers.eraseIdx idx).length = _
        simp [List.length_eraseIdx, hlt]
      refine ⟨.removeLayer idx none, { e' with layers := e'.layers.insertIdx idx l' }, ?_, ?_, none, rfl⟩
      · have : idx ≤ e'.layers.length := by omega
        simp [UndoOp.undo, this]
      · have h1 := obs_w he'; have h2 := obs_h he'; have h3 := obs_layers he'; have h4 := obs_x he'
        refine DObs.ext' (a := Doc.obs _) (b := Doc.obs _) h1 h2 ?_ h4
        show (e'.layers.insertIdx idx l').map LayerM.obs = d.layers.map LayerM.obs
        rw [map_insertIdx', h3, hl']
        show ((d.layers.eraseIdx idx).map LayerM.obs).insertIdx idx l.obs = _
        rw [map_eraseIdx']
        exact insertIdx_eraseIdx_self' _ _ _ (by simp [List.getElem?_map, hl])
    · rintro o ⟨q, rfl⟩ e he
      obtain ⟨l', hl1, hl2⟩ := obs_some he.symm hl
      refine ⟨.removeLayer idx (some l'), ({ e with layers := e.layers.eraseIdx idx } : Doc).clampCur, ?_, ?_, l', rfl, hl2⟩
      · simp [UndoOp.redo, hl1]
      · rw [obs_clampCur, obs_clampCur]
        have h1 := obs_w he; have h2 := obs_h he; have h3 := obs_layers he; have h4 := obs_x he
        refine DObs.ext' (a := Doc.obs _) (b := Doc.obs _) h1 h2 ?_ h4
        show (e.layers.eraseIdx idx).map LayerM.obs = (d.layers.eraseIdx idx).map LayerM.obs
        rw [map_eraseIdx', map_eraseIdx', h3]



theorem listSwap_map {α β : Type} (f : α → β) (l : List α) (i j : Nat) :
    listSwap (l.map f) i j = (listSwap l i j).map (List.map f) := by
  unfold listSwap
  simp only [List.getElem?_map]
  cases l[i]? <;> cases l[j]? <;> simp [List.map_set]

theorem listSwap_invol {α : Type} (l l' : List α) (i j : Nat) (h : listSwap l i j = some l') : listSwap l' i j = some l := by
  unfold listSwap at h ⊢
  cases hi : l[i]? with
  | none => simp [hi] at h
  | some a =>
    cases hj : l[j]? with
    | none => simp [hi, hj] at h
    | some b =>
      simp [hi, hj] at h
      subst h
      have hil : i < l.length := (List.getElem?_eq_some_iff.mp hi).1
      have hjl : j < l.length := (List.getElem?_eq_some_iff.mp hj).1
      have hia : l[i] = a := (List.getElem?_eq_some_iff.mp hi).2
      have hjb : l[j] = b := (List.getElem?_eq_some_iff.mp hj).2
      by_cases hij : i = j
      · subst hij
        have hab : a = b := by rw [hi] at hj; simpa using hj
        subst hab
        simp [List.getElem?_set, hil]
        apply List.ext_getElem?
        intro k
        simp only [List.getElem?_set, List.length_set]
        by_cases hk : i = k
        · subst hk; simp [hil, hi, hia]
        · simp [hk]
      · have hji : ¬ j = i := fun hh => hij hh.symm
        have e1 : ((l.set i b).set j a)[i]? = some b := by simp [List.getElem?_set, hij, hji, hil]
        have e2 : ((l.set i b).set j a)[j]? = some a := by simp [List.getElem?_set, hjl]
        simp only [e1, e2]
        congr 1
        apply List.ext_getElem?
        intro k
        simp only [List.getElem?_set, List.length_set]
        by_cases hk1 : j = k
        · subst hk1; simp [hjl, hj, hjb]
        · by_cases hk2 : i = k
          · subst hk2; simp [hk1, hil, hi, hij, hia]
          · simp [hk1, hk2]

/-- a record whose undo and redo are the same involutive rearrangement of the layer stack -/
theorem undoable_swap (o : UndoOp) (i j : Nat) {d d' : Doc}
    (hredo : ∀ e, o.redo e = match listSwap e.layers i j with | some ls => .ok (o, { e with layers := ls }) | none => .error .panic)
    (hundo : ∀ e, o.undo e = match listSwap e.layers i j with | some ls => .ok (o, { e with layers := ls }) | none => .error .panic)
    (hr : o.redo d = .ok (o, d')) : Undoable o d.obs d'.obs := by
  rw [hredo d] at hr
  cases hs : listSwap d.layers i j with
  | none => rw [hs] at hr; simp at hr
  | some ls =>
    rw [hs] at hr
    simp at hr
    subst hr
    have hback := listSwap_invol _ _ _ _ hs
    -- any document observed like `x` swaps to a document observed like `x` swapped
    have key : ∀ (x e : Doc) (xs : List LayerM), e.obs = x.obs → listSwap x.layers i j = some xs →
        ∃ es, listSwap e.layers i j = some es ∧ ({ e with layers := es } : Doc).obs = ({ x with layers := xs } : Doc).obs := by
      intro x e xs he hx
      have h3 := obs_layers he
      have := listSwap_map LayerM.obs e.layers i j
      rw [h3, listSwap_map, hx] at this
      cases hes : listSwap e.layers i j with
      | none => rw [hes] at this; simp at this
      | some es =>
        rw [hes] at this
        simp at this
        have hx := obs_x he
        exact ⟨es, rfl, DObs.ext' (a := Doc.obs _) (b := Doc.obs _) (obs_w he) (obs_h he) this.symm hx⟩
    refine ⟨(· = o), (· = o), rfl, ?_, ?_⟩
    · intro o1 ho e' he'
      subst ho
      obtain ⟨es, h1, h2⟩ := key { d with layers := ls } e' d.layers he' hback
      exact ⟨o1, { e' with layers := es }, by rw [hundo, h1], h2, rfl⟩
    · intro o1 ho e he
      subst ho
      obtain ⟨es, h1, h2⟩ := key d e ls he hs
      exact ⟨o1, { e with layers := es }, by rw [hredo, h1], h2, rfl⟩

/-- **RaiseLayer** — at every document; the top layer cannot be raised (the edit fails), an index past the end panics in
    `redo`, so no such record is ever pushed -/
theorem inverse_raiseLayer (d : Doc) (idx : Nat) : InverseAt (.raiseLayer idx) d := by
  intro op' d' hr
  have hop : op' = .raiseLayer idx := by
    simp only [UndoOp.redo] at hr
    cases hs : listSwap d.layers idx (idx + 1) with
    | none => rw [hs] at hr; simp at hr
    | some ls => rw [hs] at hr; simp at hr; exact hr.1.symm
  subst hop
  exact undoable_swap (.raiseLayer idx) idx (idx + 1) (fun e => by simp only [UndoOp.redo]; cases listSwap e.layers idx (idx + 1) <;> rfl)
    (fun e => by simp only [UndoOp.undo]; cases listSwap e.layers idx (idx + 1) <;> rfl) hr

/-- **LowerLayer** — at every document (`lower_layer(0)` pushes nothing; index 0 in a record would underflow) -/
theorem inverse_lowerLayer (d : Doc) (idx : Nat) : InverseAt (.lowerLayer idx) d := by
  intro op' d' hr
  by_cases h0 : idx = 0
  · simp [UndoOp.redo, h0] at hr
  · have hop : op' = .lowerLayer idx := by
      simp only [UndoOp.redo, h0, if_false] at hr
      cases hs : listSwap d.layers idx (idx - 1) with
      | none => rw [hs] at hr; simp at hr
      | some ls => rw [hs] at hr; simp at hr; exact hr.1.symm
    subst hop
    exact undoable_swap (.lowerLayer idx) idx (idx - 1)
      (fun e => by simp only [UndoOp.redo, h0, if_false]; cases listSwap e.layers idx (idx - 1) <;> rfl)
      (fun e => by simp only [UndoOp.undo, h0, if_false]; cases listSwap e.layers idx (idx - 1) <;> rfl) hr



/-- **ClearLayer** — the record and the layer swap their row storage; at every document -/
theorem inverse_clearLayer (d : Doc) (idx : Nat) (lines0 : List Row) : InverseAt (.clearLayer idx lines0) d := by
  intro op' d' hr
  simp only [UndoOp.redo] at hr
  cases hl : d.layers[idx]? with
  | none => rw [hl] at hr; simp at hr
  | some l =>
    rw [hl] at hr
    simp at hr
    obtain ⟨rfl, rfl⟩ := hr
    refine ⟨fun o => ∃ ls, o = .clearLayer idx ls ∧ rowsGet ls = rowsGet l.lines,
            fun o => ∃ ls, o = .clearLayer idx ls ∧ rowsGet ls = rowsGet lines0, ⟨l.lines, rfl, rfl⟩, ?_, ?_⟩
    · rintro o ⟨ls, rfl, hls⟩ e' he'
      have hd' : (d.setLayer idx { l with lines := lines0 }).layers[idx]? = some { l with lines := lines0 } :=
        getElem?_setLayer_self d idx _ l hl
      obtain ⟨l', hl1, hl2⟩ := obs_some he'.symm hd'
      refine ⟨.clearLayer idx l'.lines, e'.setLayer idx { l' with lines := ls }, ?_, ?_, l'.lines, rfl, ?_⟩
      · simp [UndoOp.undo, hl1]
      · have e1 : ({ l' with lines := ls } : LayerM).obs = l.obs := by
          have hw : l'.w = l.w := congrArg (·.1) hl2
          have hh : l'.h = l.h := congrArg (·.2.1) hl2
          have hp : l'.props = l.props := congrArg (·.2.2.1) hl2
          simp [LayerM.obs, hw, hh, hp, hls]
        rw [obs_setLayer, e1]
        have h1 := obs_w he'; have h2 := obs_h he'; have h3 := obs_layers he'; have h4 := obs_x he'
        refine DObs.ext' h1 h2 ?_ h4
        show (e'.layers.map LayerM.obs).set idx l.obs = d.layers.map LayerM.obs
        rw [h3]
        show ((d.setLayer idx _).layers.map LayerM.obs).set idx l.obs = _
        simp only [Doc.setLayer, List.map_set, List.set_set]
        exact map_set_self _ _ _ _ hl
      · exact congrArg (·.2.2.2) hl2
    · rintro o ⟨ls, rfl, hls⟩ e he
      obtain ⟨l', hl1, hl2⟩ := obs_some he.symm hl
      refine ⟨.clearLayer idx l'.lines, e.setLayer idx { l' with lines := ls }, ?_, ?_, l'.lines, rfl, congrArg (·.2.2.2) hl2⟩
      · simp [UndoOp.redo, hl1]
      · apply obs_setLayer_congr he
        have hw : l'.w = l.w := congrArg (·.1) hl2
        have hh : l'.h = l.h := congrArg (·.2.1) hl2
        have hp : l'.props = l.props := congrArg (·.2.2.1) hl2
        simp [LayerM.obs, hw, hh, hp, hls]

/-- **Crop** (resize_buffer with layers, crop, crop_rect): the edit builds the new layer vector, the record keeps the
    old one and both are swapped back and forth — exact at every document, whatever the new layers are -/
theorem undoable_crop (d : Doc) (w h : Int) (newLayers : List LayerM) :
    Undoable (.crop d.w d.h w h d.layers) d.obs ({ d with w := w, h := h, layers := newLayers } : Doc).obs := by
  refine ⟨fun o => ∃ ls, o = .crop d.w d.h w h ls ∧ ls.map LayerM.obs = d.layers.map LayerM.obs,
          fun o => ∃ ls, o = .crop d.w d.h w h ls ∧ ls.map LayerM.obs = newLayers.map LayerM.obs, ⟨d.layers, rfl, rfl⟩, ?_, ?_⟩
  · rintro o ⟨ls, rfl, hls⟩ e' he'
    refine ⟨.crop d.w d.h w h e'.layers, ({ e' with w := d.w, h := d.h, layers := ls } : Doc).setMaskSize, by simp [UndoOp.undo], ?_, e'.layers, rfl, obs_layers he'⟩
    have hx := obs_x he'
    exact DObs.ext' (a := Doc.obs _) (b := Doc.obs _) rfl rfl hls hx
  · rintro o ⟨ls, rfl, hls⟩ e he
    refine ⟨.crop d.w d.h w h e.layers, ({ e with w := w, h := h, layers := ls } : Doc).setMaskSize, by simp [UndoOp.redo], ?_, e.layers, rfl, obs_layers he⟩
    have hx := obs_x he
    exact DObs.ext' (a := Doc.obs _) (b := Doc.obs _) rfl rfl hls hx

/-- selection records do not touch the document state at all -/
theorem undoable_selection (o : UndoOp) (d d' : Doc) (hobs : d'.obs = d.obs)
    (hu : ∀ e, ∃ e₂, o.undo e = .ok (o, e₂) ∧ e₂.obs = e.obs)
    (hr : ∀ e, ∃ e₂, o.redo e = .ok (o, e₂) ∧ e₂.obs = e.obs) : Undoable o d.obs d'.obs := by
  refine ⟨(· = o), (· = o), rfl, ?_, ?_⟩
  · intro o1 ho e' he'
    subst ho
    obtain ⟨e₂, h1, h2⟩ := hu e'
    exact ⟨o1, e₂, h1, by rw [h2, he', hobs], rfl⟩
  · intro o1 ho e he
    subst ho
    obtain ⟨e₂, h1, h2⟩ := hr e
    exact ⟨o1, e₂, h1, by rw [h2, he, hobs], rfl⟩

theorem inverse_setSelection (d : Doc) (old new : Option Sel) : InverseAt (.setSelection old new) d := by
  intro op' d' hr
  simp [UndoOp.redo] at hr
  obtain ⟨rfl, rfl⟩ := hr
  exact undoable_selection _ _ _ rfl (fun e => ⟨{ e with sel := old }, by simp [UndoOp.undo], rfl⟩) (fun e => ⟨{ e with sel := new }, by simp [UndoOp.redo], rfl⟩)

theorem inverse_selectNothing (d : Doc) (sel : Option Sel) (mask : Mask) : InverseAt (.selectNothing sel mask) d := by
  intro op' d' hr
  simp [UndoOp.redo] at hr
  obtain ⟨rfl, rfl⟩ := hr
  exact undoable_selection _ _ _ rfl (fun e => ⟨{ e with sel := sel, mask := mask }, by simp [UndoOp.undo], rfl⟩)
    (fun e => ⟨{ e with sel := none, mask := e.mask.clear }, by simp [UndoOp.redo], rfl⟩)

theorem inverse_deselect (d : Doc) (sel : Sel) : InverseAt (.deselect sel) d := by
  intro op' d' hr
  simp [UndoOp.redo] at hr
  obtain ⟨rfl, rfl⟩ := hr
  exact undoable_selection _ _ _ rfl (fun e => ⟨{ e with sel := some sel }, by simp [UndoOp.undo], rfl⟩) (fun e => ⟨{ e with sel := none }, by simp [UndoOp.redo], rfl⟩)

end IcyVerif.Undo
