import IcyVerif.Lemmas.TermOther
set_option linter.unusedSimpArgs false
set_option linter.unusedVariables false
namespace IcyVerif.Term

/-! # macro replay is bounded: one input character triggers at most `MAX_MACRO_EXPANSION` inner steps
`tick` counts every executed `stepD` (outer and replayed characters). -/

/-- tick and budget as in `st` -/
def SameTB (st : St) (x : St) : Prop := x.p.tick = st.p.tick ∧ x.p.budget = st.p.budget

/-- the result has the tick/budget of `st`, or it is what the macro invoker returned for a state that has them -/
def FrameOrInv (inv : Int → St → Res St) (st : St) (r : St × Out) : Prop :=
  SameTB st r.1 ∨ ∃ id d, inv id d = .ok r.1 ∧ SameTB st d

theorem liftC_tb (st d : St) (r : Res Car) (o : Out) (inv : Int → St → Res St) (hd : SameTB st d) :
    okThen (liftC d r o) (FrameOrInv inv st) := by
  cases r with
  | ok c => exact Or.inl hd
  | error e => trivial
theorem liftSC_tb (st d : St) (r : Res (Scr × Car)) (o : Out) (inv : Int → St → Res St) (hd : SameTB st d) :
    okThen (liftSC d r o) (FrameOrInv inv st) := by
  cases r with
  | ok p => exact Or.inl hd
  | error e => trivial
theorem ret_tb (st x : St) (o : Out) (inv : Int → St → Res St) (hx : SameTB st x) :
    okThen (ret x o) (FrameOrInv inv st) := Or.inl hx

theorem numChar_tb (st st' : St) (ch : Char) (he : numChar st ch = some st') : SameTB st st' := by
  unfold numChar at he
  split at he
  · cases he; exact ⟨rfl, rfl⟩
  · split at he
    · cases he; exact ⟨rfl, rfl⟩
    · cases he

theorem executeDcs_tb (p : Par) (o : Orc) : (executeDcs p o).1.tick = p.tick ∧ (executeDcs p o).1.budget = p.budget := by
  unfold executeDcs
  repeat' split
  all_goals exact ⟨rfl, rfl⟩

macro "tbarm" : tactic => `(tactic| first
  | exact ret_tb _ _ _ _ ⟨rfl, rfl⟩
  | exact liftC_tb _ _ _ _ _ ⟨rfl, rfl⟩
  | exact liftSC_tb _ _ _ _ _ ⟨rfl, rfl⟩
  | (rename_i hh; exact ret_tb _ _ _ _ (numChar_tb _ _ _ hh))
  | trivial)

theorem csiFinal_tb (cfg : Cfg) (o : Orc) (inv : Int → St → Res St) (st : St) (isStart : Bool) (ch : Char) :
    okThen (csiFinal cfg o st isStart ch) (FrameOrInv inv st) := by
  unfold csiFinal
  simp only [left, right, up, down]
  repeat' (first | (apply okThen_ite <;> intro _) | split)
  all_goals tbarm

theorem escChar_tb (inv : Int → St → Res St) (st : St) (ch : Char) : okThen (escChar st ch) (FrameOrInv inv st) := by
  unfold escChar
  simp only [index, reverseIndex, nextLine]
  repeat' (first | (apply okThen_ite <;> intro _) | split)
  all_goals tbarm

theorem dfltChar_tb (cfg : Cfg) (inv : Int → St → Res St) (st d : St) (ch : Char) (hd : SameTB st d) :
    okThen (dfltChar cfg d ch) (FrameOrInv inv st) := by
  unfold dfltChar
  simp only []
  repeat' (first | (apply okThen_ite <;> intro _) | split)
  all_goals first
    | exact ret_tb _ _ _ _ hd
    | exact liftC_tb _ _ _ _ _ hd
    | exact liftSC_tb _ _ _ _ _ hd

theorem csiCmd_tb (inv : Int → St → Res St) (st : St) (ch : Char) : okThen (csiCmd st ch) (FrameOrInv inv st) := by
  unfold csiCmd
  simp only []
  repeat' (first | (apply okThen_ite <;> intro _) | split)
  all_goals tbarm

theorem csiReq_tb (inv : Int → St → Res St) (st : St) (ch : Char) : okThen (csiReq st ch) (FrameOrInv inv st) := by
  unfold csiReq setSpecificMargin
  simp only []
  repeat' (first | (apply okThen_ite <;> intro _) | split)
  all_goals tbarm

theorem devAttr_tb (inv : Int → St → Res St) (st : St) (ch : Char) : okThen (devAttr st ch) (FrameOrInv inv st) := by
  unfold devAttr
  repeat' (first | (apply okThen_ite <;> intro _) | split)
  all_goals tbarm

theorem endCsi_tb (o : Orc) (inv : Int → St → Res St) (st : St) (f ch : Char) :
    okThen (endCsi o inv st f ch) (FrameOrInv inv st) := by
  unfold endCsi
  simp only []
  repeat' (first | (apply okThen_ite <;> intro _) | split)
  all_goals first
    | tbarm
    | (rename_i hh; exact Or.inr ⟨_, _, hh, rfl, rfl⟩)

theorem stepCore_tb (cfg : Cfg) (o : Orc) (inv : Int → St → Res St) (st : St) (ch : Char) :
    okThen (stepCore cfg o inv st ch) (FrameOrInv inv st) := by
  unfold stepCore
  apply okThen_ite
  · intro _; trivial
  · intro _
    split
    · exact ret_tb _ _ _ _ ⟨rfl, rfl⟩
    · exact escChar_tb inv st ch
    · repeat' (first | (apply okThen_ite <;> intro _) | split)
      all_goals tbarm
    · repeat' (first | (apply okThen_ite <;> intro _) | split)
      all_goals tbarm
    · simp only []
      repeat' (first | (apply okThen_ite <;> intro _) | split)
      all_goals first
        | tbarm
        | (rename_i hh; exact Or.inr ⟨_, _, hh, rfl, rfl⟩)
    · repeat' (first | (apply okThen_ite <;> intro _) | split)
      all_goals tbarm
    · apply okThen_ite
      · intro _
        have hx := executeDcs_tb { st.p with st := .dflt } o
        generalize executeDcs { st.p with st := .dflt } o = r at hx
        obtain ⟨p, out⟩ := r
        exact ret_tb _ _ _ _ ⟨hx.1, hx.2⟩
      · intro _
        repeat' (first | (apply okThen_ite <;> intro _) | split)
        all_goals tbarm
    · repeat' (first | (apply okThen_ite <;> intro _) | split)
      all_goals tbarm
    · repeat' (first | (apply okThen_ite <;> intro _) | split)
      all_goals tbarm
    · exact csiCmd_tb inv st ch
    · exact csiReq_tb inv st ch
    · apply okThen_ite
      · intro _; exact ret_tb _ _ _ _ ⟨rfl, rfl⟩
      · intro _; exact dfltChar_tb cfg inv st (dflt st) ch ⟨rfl, rfl⟩
    · exact devAttr_tb inv st ch
    · exact endCsi_tb o inv st _ ch
    · exact csiFinal_tb cfg o inv st _ ch
    · exact dfltChar_tb cfg inv st st ch ⟨rfl, rfl⟩

/-- potential of a state: steps executed so far + steps the budget still allows -/
def pot (st : St) : Nat := st.p.tick + st.p.budget

/-- replaying a body with a step function that raises the potential by at most one (its own tick) and never
    raises the budget cannot raise the potential at all: every replayed character first pays one budget unit -/
theorem replay_pot (stepf : St → Char → R)
    (hstep : ∀ st ch, okThen (stepf st ch) (fun r => pot r.1 ≤ pot st + 1 ∧ r.1.p.budget ≤ st.p.budget)) :
    ∀ (body : List Char) (st : St), okThen (replay stepf body st) (fun st' => pot st' ≤ pot st ∧ st'.p.budget ≤ st.p.budget) := by
  intro body
  induction body with
  | nil => intro st; exact ⟨Nat.le_refl _, Nat.le_refl _⟩
  | cons ch rest ih =>
    intro st
    unfold replay
    apply okThen_ite
    · intro _; exact ⟨Nat.le_refl _, Nat.le_refl _⟩
    · intro hb
      simp only []
      have h2 := hstep { st with p := { st.p with budget := st.p.budget - 1 } } ch
      cases hs : stepf { st with p := { st.p with budget := st.p.budget - 1 } } ch with
      | error e => trivial
      | ok r =>
        rw [hs] at h2
        obtain ⟨st', out⟩ := r
        have h3 := ih st'
        show okThen (replay stepf rest st') _
        cases hr : replay stepf rest st' with
        | error e => trivial
        | ok st'' =>
          rw [hr] at h3
          obtain ⟨a1, a2⟩ := h2
          obtain ⟨b1, b2⟩ := h3
          simp only [pot] at *
          have : st.p.budget ≠ 0 := hb
          exact ⟨by omega, by omega⟩

theorem invoker_pot (stepf : St → Char → R)
    (hstep : ∀ st ch, okThen (stepf st ch) (fun r => pot r.1 ≤ pot st + 1 ∧ r.1.p.budget ≤ st.p.budget))
    (id : Int) (st : St) :
    okThen (invoker stepf false id st) (fun st' => pot st' ≤ pot st ∧ st'.p.budget ≤ st.p.budget) := by
  unfold invoker
  split
  · exact ⟨Nat.le_refl _, Nat.le_refl _⟩
  · exact replay_pot stepf hstep _ st

theorem invoker_top (stepf : St → Char → R)
    (hstep : ∀ st ch, okThen (stepf st ch) (fun r => pot r.1 ≤ pot st + 1 ∧ r.1.p.budget ≤ st.p.budget))
    (id : Int) (st : St) :
    okThen (invoker stepf true id st) (fun st' => st'.p.tick ≤ st.p.tick + MAX_MACRO_EXPANSION) := by
  unfold invoker
  split
  · show st.p.tick ≤ st.p.tick + MAX_MACRO_EXPANSION
    omega
  · rename_i body _
    have hr := replay_pot stepf hstep body { st with p := { st.p with budget := MAX_MACRO_EXPANSION } }
    simp only [if_true]
    cases hrr : replay stepf body { st with p := { st.p with budget := MAX_MACRO_EXPANSION } } with
    | error e => trivial
    | ok st' =>
      rw [hrr] at hr
      obtain ⟨h1, _⟩ := hr
      simp only [pot] at h1
      show st'.p.tick ≤ st.p.tick + MAX_MACRO_EXPANSION
      omega

/-- below the top level a step costs exactly its own tick plus whatever its macro replay paid for out of the budget -/
theorem stepD_pot : ∀ (d : Nat), d < MAX_MACRO_DEPTH → ∀ (cfg : Cfg) (o : Nat → Orc) (st : St) (ch : Char),
    okThen (stepD d cfg o st ch) (fun r => pot r.1 ≤ pot st + 1 ∧ r.1.p.budget ≤ st.p.budget) := by
  intro d
  induction d with
  | zero =>
    intro _ cfg o st ch
    unfold stepD
    have h := stepCore_tb cfg (o st.p.tick) (fun _ st => .ok st) (tickSt st) ch
    cases hs : stepCore cfg (o st.p.tick) (fun _ st => .ok st) (tickSt st) ch with
    | error e => trivial
    | ok r =>
      rw [hs] at h
      rcases h with ⟨t1, t2⟩ | ⟨id, d0, hi, t1, t2⟩
      · simp only [tickSt] at t1 t2
        simp only [pot, okThen]; omega
      · cases hi
        simp only [tickSt] at t1 t2
        simp only [pot, okThen]; omega
  | succ d ih =>
    intro hd cfg o st ch
    have hd' : d < MAX_MACRO_DEPTH := Nat.lt_of_succ_lt hd
    have hne : decide (d + 1 = MAX_MACRO_DEPTH) = false := by
      simp only [decide_eq_false_iff_not]; exact Nat.ne_of_lt hd
    unfold stepD
    rw [hne]
    have h := stepCore_tb cfg (o st.p.tick) (invoker (stepD d cfg o) false) (tickSt st) ch
    cases hs : stepCore cfg (o st.p.tick) (invoker (stepD d cfg o) false) (tickSt st) ch with
    | error e => trivial
    | ok r =>
      rw [hs] at h
      rcases h with ⟨t1, t2⟩ | ⟨id, d0, hi, t1, t2⟩
      · simp only [tickSt] at t1 t2
        simp only [pot, okThen]; omega
      · have hr := invoker_pot (stepD d cfg o) (fun st ch => ih hd' cfg o st ch) id d0
        rw [hi] at hr
        simp only [tickSt] at t1 t2
        simp only [pot, okThen] at hr ⊢; omega

/-- C03, macro clause: one input character executes at most `1 + MAX_MACRO_EXPANSION` steps of the parser, however the
    macros are defined (self-invoking, mutually recursive, fan-out) -/
theorem macro_steps_bounded (cfg : Cfg) (o : Nat → Orc) (st st' : St) (ch : Char) (out : Out)
    (h : step cfg o st ch = .ok (st', out)) : st'.p.tick ≤ st.p.tick + 1 + MAX_MACRO_EXPANSION := by
  have hM : MAX_MACRO_DEPTH = 7 + 1 := rfl
  unfold step at h
  rw [hM] at h
  unfold stepD at h
  have hdec : decide (7 + 1 = MAX_MACRO_DEPTH) = true := by decide
  rw [hdec] at h
  have hf := stepCore_tb cfg (o st.p.tick) (invoker (stepD 7 cfg o) true) (tickSt st) ch
  rw [h] at hf
  rcases hf with ⟨t1, t2⟩ | ⟨id, d0, hi, t1, t2⟩
  · simp only [tickSt] at t1; omega
  · have hr := invoker_top (stepD 7 cfg o) (fun st ch => stepD_pot 7 (by decide) cfg o st ch) id d0
    rw [hi] at hr
    simp only [tickSt] at t1
    simp only [okThen] at hr
    omega

end IcyVerif.Term
