import IcyVerif.Lemmas.IgsPaint
set_option linter.unusedSimpArgs false
set_option linter.unusedVariables false
/-! Lemmas about the IGS `DrawExecutor` model, part 2: every painting primitive changes nothing but screen cells, keeps
the length of the screen, and writes pen numbers only (`Keeps`). -/
namespace IcyVerif.IgsPaint

def PixOk (p : Paint) : Prop := ∀ v, v ∈ p.screen.toList → v < 16

theorem setPixel_kept {p p' : Paint} {x y : Int} {c : Nat} (h : setPixel p x y c = .ok p') : Kept p p' := by
  unfold setPixel at h
  obtain ⟨off, _, h⟩ := bind_ok h
  split at h
  · have := pure_ok h; subst this; exact ⟨rfl, by simp⟩
  · have := pure_ok h; subst this; exact Kept.refl p

theorem setPixel_pix {p p' : Paint} {x y : Int} {c : Nat} (hp : PixOk p) (hc : c < 16) (h : setPixel p x y c = .ok p') : PixOk p' :=
  (setPixel_keeps hc h).2 hp

-- ------------------------------------------------------------------------------------------------ draw_line
theorem lineLoop_keeps (x1 y1 dx dy sx sy : Int) (color : Nat) (hc : color < 16) :
    ∀ (f : Nat) (p p' : Paint) (x y err : Int) (mask : Nat), lineLoop x1 y1 dx dy sx sy color f p x y err mask = .ok p' → Keeps p p' := by
  intro f
  induction f with
  | zero => intro p p' x y err mask h; cases h
  | succ k ih =>
    intro p p' x y err mask h
    unfold lineLoop at h
    obtain ⟨p1, h1, h⟩ := bind_ok h
    have k1 : Keeps p p1 := by
      split at h1
      · exact setPixel_keeps hc h1
      · have := pure_ok h1; subst this; exact Keeps.refl p
    split at h
    · have := pure_ok h; subst this; exact k1
    · obtain ⟨e2, _, h⟩ := bind_ok h
      obtain ⟨r1, _, h⟩ := bind_ok h
      obtain ⟨err1, xn⟩ := r1
      simp only [] at h
      obtain ⟨r2, _, h⟩ := bind_ok h
      obtain ⟨err2, yn⟩ := r2
      simp only [] at h
      exact k1.trans (ih _ _ _ _ _ _ h)

theorem drawLine_keeps {p p' : Paint} {x0 y0 x1 y1 : Int} {color mask : Nat} (hc : color < 16)
    (h : drawLine p x0 y0 x1 y1 color mask = .ok p') : Keeps p p' := by
  unfold drawLine at h
  obtain ⟨_, _, h⟩ := bind_ok h
  obtain ⟨_, _, h⟩ := bind_ok h
  obtain ⟨_, _, h⟩ := bind_ok h
  obtain ⟨_, _, h⟩ := bind_ok h
  obtain ⟨_, _, h⟩ := bind_ok h
  exact lineLoop_keeps _ _ _ _ _ _ _ hc _ _ _ _ _ _ _ h

-- ------------------------------------------------------------------------------------------------ polygons
theorem polySegs_keeps (color mask : Nat) (hc : color < 16) : ∀ (n : Nat) (l : List Int), l.length ≤ n →
    ∀ (p : Paint) (x y : Int) (r : Paint × Int × Int), polySegs color mask l p x y = .ok r → Keeps p r.1 := by
  intro n
  induction n with
  | zero =>
    intro l hl p x y r h
    cases l with
    | nil => unfold polySegs at h; cases h; exact Keeps.refl p
    | cons a t => simp at hl
  | succ k ih =>
    intro l hl p x y r h
    cases l with
    | nil => unfold polySegs at h; cases h; exact Keeps.refl p
    | cons a t =>
      cases t with
      | nil => unfold polySegs at h; cases h
      | cons b rest =>
        unfold polySegs at h
        obtain ⟨p1, h1, h⟩ := bind_ok h
        have k1 := drawLine_keeps hc h1
        exact k1.trans (ih rest (by simp at hl; omega) p1 a b r h)

theorem drawPolyline_keeps {p p' : Paint} {ps : List Int} (hc : p.fillColor < 16) (h : drawPolyline p ps = .ok p') : Keeps p p' := by
  unfold drawPolyline at h
  split at h
  · obtain ⟨r, h1, h⟩ := bind_ok h
    have := pure_ok h; subst this
    exact polySegs_keeps _ _ hc _ _ (Nat.le_refl _) _ _ _ _ h1
  · cases h

theorem drawPoly_keeps {p p' : Paint} {ps : List Int} (hc : p.fillColor < 16) (h : drawPoly p ps = .ok p') : Keeps p p' := by
  unfold drawPoly at h
  split at h
  · obtain ⟨r, h1, h⟩ := bind_ok h
    have k1 := polySegs_keeps _ _ hc _ _ (Nat.le_refl _) _ _ _ _ h1
    exact k1.trans (drawLine_keeps (by rw [k1.1.fillColor]; exact hc) h)
  · cases h

theorem fillPairs_keeps (y : Int) : ∀ (n : Nat) (l : List Int) (p p' : Paint), p.fillColor < 16 → fillPairs y n l p = .ok p' → Keeps p p' := by
  intro n
  induction n with
  | zero => intro l p p' _ h; unfold fillPairs at h; cases h; exact Keeps.refl p
  | succ k ih =>
    intro l p p' hc h
    cases l with
    | nil => unfold fillPairs at h; cases h
    | cons a t =>
      cases t with
      | nil => unfold fillPairs at h; cases h
      | cons b rest =>
        unfold fillPairs at h
        obtain ⟨p1, h1, h⟩ := bind_ok h
        have k1 := fillRow_keeps _ _ _ _ _ hc h1
        exact k1.trans (ih rest p1 p' (by rw [k1.1.fillColor]; exact hc) h)

theorem scanLines_keeps (pts : Array Int) (cnt : Nat) : ∀ (n : Nat) (y : Int) (p p' : Paint), p.fillColor < 16 →
    scanLines pts cnt n y p = .ok p' → Keeps p p' := by
  intro n
  induction n with
  | zero => intro y p p' _ h; unfold scanLines at h; cases h; exact Keeps.refl p
  | succ k ih =>
    intro y p p' hc h
    unfold scanLines at h
    obtain ⟨r, _, h⟩ := bind_ok h
    obtain ⟨inter, eb⟩ := r
    simp only [] at h
    split at h
    · exact ih _ _ _ hc h
    · obtain ⟨p1, h1, h⟩ := bind_ok h
      have k1 := fillPairs_keeps _ _ _ _ _ hc h1
      exact k1.trans (ih _ p1 p' (by rw [k1.1.fillColor]; exact hc) h)

theorem fillPoly_keeps {p p' : Paint} {pts : List Int} (hc : p.fillColor < 16) (h : fillPoly p pts = .ok p') : Keeps p p' := by
  unfold fillPoly at h
  split at h
  · exact scanLines_keeps _ _ _ _ _ _ hc h
  · cases h

theorem roundRect_keeps {p p' : Paint} {x1 y1 x2 y2 par : Int} (hc : p.fillColor < 16) (h : roundRect p x1 y1 x2 y2 par = .ok p') :
    Keeps p p' := by
  unfold roundRect at h
  obtain ⟨_, _, h⟩ := bind_ok h
  obtain ⟨_, _, h⟩ := bind_ok h
  obtain ⟨_, _, h⟩ := bind_ok h
  obtain ⟨_, _, h⟩ := bind_ok h
  obtain ⟨_, _, h⟩ := bind_ok h
  obtain ⟨_, _, h⟩ := bind_ok h
  obtain ⟨_, _, h⟩ := bind_ok h
  obtain ⟨_, _, h⟩ := bind_ok h
  obtain ⟨_, _, h⟩ := bind_ok h
  obtain ⟨_, _, h⟩ := bind_ok h
  obtain ⟨_, _, h⟩ := bind_ok h
  obtain ⟨_, _, h⟩ := bind_ok h
  obtain ⟨_, _, h⟩ := bind_ok h
  obtain ⟨_, _, h⟩ := bind_ok h
  obtain ⟨_, _, h⟩ := bind_ok h
  obtain ⟨_, _, h⟩ := bind_ok h
  obtain ⟨_, _, h⟩ := bind_ok h
  split at h
  · exact fillPoly_keeps hc h
  · exact drawPoly_keeps hc h

theorem markerLines_keeps (tab : Array Int) (x0 y0 : Int) : ∀ (n i : Nat) (p p' : Paint), p.fillColor < 16 →
    markerLines tab x0 y0 n i p = .ok p' → Keeps p p' := by
  intro n
  induction n with
  | zero => intro i p p' _ h; unfold markerLines at h; cases h; exact Keeps.refl p
  | succ k ih =>
    intro i p p' hc h
    unfold markerLines at h
    obtain ⟨_, _, h⟩ := bind_ok h
    obtain ⟨_, _, h⟩ := bind_ok h
    obtain ⟨p1, h1, h⟩ := bind_ok h
    have k1 := drawPolyline_keeps hc h1
    exact k1.trans (ih _ p1 p' (by rw [k1.1.fillColor]; exact hc) h)

theorem drawPolyMarker_keeps {p p' : Paint} {x0 y0 : Int} (hl : p.lineColor < 16) (h : drawPolyMarker p x0 y0 = .ok p') : Keeps p p' := by
  unfold drawPolyMarker at h
  obtain ⟨_, _, h⟩ := bind_ok h
  obtain ⟨p2, h2, h⟩ := bind_ok h
  have := pure_ok h
  subst this
  have k := markerLines_keeps _ _ _ _ _ _ _ (by exact hl) h2
  obtain ⟨⟨e, sz⟩, px⟩ := k
  refine ⟨⟨?_, sz⟩, px⟩
  rw [e]

-- ------------------------------------------------------------------------------------------------ ellipses, circles
theorem ellipseLoop_keeps (xm ym a2 b2 : Int) (fill : Bool) : ∀ (f : Nat) (p : Paint) (x y err : Int) (r : Paint × Int),
    p.fillColor < 16 → p.lineColor < 16 → ellipseLoop xm ym a2 b2 fill f p x y err = .ok r → Keeps p r.1 := by
  intro f
  induction f with
  | zero =>
    intro p x y err r _ _ h
    unfold ellipseLoop at h
    split at h
    · cases h
    · cases h; exact Keeps.refl p
  | succ k ih =>
    intro p x y err r hf hl h
    unfold ellipseLoop at h
    split at h
    · cases h; exact Keeps.refl p
    · obtain ⟨_, _, h⟩ := bind_ok h
      obtain ⟨_, _, h⟩ := bind_ok h
      obtain ⟨_, _, h⟩ := bind_ok h
      obtain ⟨p2, h2, h⟩ := bind_ok h
      have k2 : Keeps p p2 := by
        split at h2
        · obtain ⟨q1, g1, h2⟩ := bind_ok h2
          obtain ⟨_, _, h2⟩ := bind_ok h2
          have c1 := fillRect_keeps hf g1
          exact c1.trans (fillRect_keeps (by rw [c1.1.fillColor]; exact hf) h2)
        · obtain ⟨q1, g1, h2⟩ := bind_ok h2
          obtain ⟨q2, g2, h2⟩ := bind_ok h2
          obtain ⟨_, _, h2⟩ := bind_ok h2
          obtain ⟨q3, g3, h2⟩ := bind_ok h2
          exact ((setPixel_keeps hl g1).trans (setPixel_keeps hl g2)).trans ((setPixel_keeps hl g3).trans (setPixel_keeps hl h2))
      obtain ⟨_, _, h⟩ := bind_ok h
      obtain ⟨_, _, h⟩ := bind_ok h
      obtain ⟨r1, _, h⟩ := bind_ok h
      obtain ⟨xa, ea⟩ := r1
      simp only [] at h
      obtain ⟨_, _, h⟩ := bind_ok h
      obtain ⟨r2, _, h⟩ := bind_ok h
      obtain ⟨ya, eb⟩ := r2
      simp only [] at h
      exact k2.trans (ih p2 _ _ _ r (by rw [k2.1.fillColor]; exact hf) (by rw [k2.1.lineColor]; exact hl) h)

theorem tipLoop_keeps (xm ym b : Int) : ∀ (n : Nat) (p p' : Paint) (y : Int), p.lineColor < 16 → tipLoop xm ym b n p y = .ok p' → Keeps p p' := by
  intro n
  induction n with
  | zero => intro p p' y _ h; unfold tipLoop at h; cases h; exact Keeps.refl p
  | succ k ih =>
    intro p p' y hl h
    unfold tipLoop at h
    split at h
    · cases h; exact Keeps.refl p
    · obtain ⟨_, _, h⟩ := bind_ok h
      obtain ⟨_, _, h⟩ := bind_ok h
      obtain ⟨p1, h1, h⟩ := bind_ok h
      obtain ⟨_, _, h⟩ := bind_ok h
      obtain ⟨p2, h2, h⟩ := bind_ok h
      have k1 := setPixel_keeps hl h1
      have k2 := setPixel_keeps (p := p1) hl h2
      exact (k1.trans k2).trans (ih p2 p' _ (by rw [k2.1.lineColor, k1.1.lineColor]; exact hl) h)

theorem ellipse_keeps {p p' : Paint} {xm ym a b : Int} {fill : Bool} (hf : p.fillColor < 16) (hl : p.lineColor < 16)
    (h : ellipse p xm ym a b fill = .ok p') : Keeps p p' := by
  unfold ellipse at h
  obtain ⟨_, _, h⟩ := bind_ok h
  obtain ⟨_, _, h⟩ := bind_ok h
  obtain ⟨_, _, h⟩ := bind_ok h
  obtain ⟨_, _, h⟩ := bind_ok h
  obtain ⟨_, _, h⟩ := bind_ok h
  obtain ⟨r, hr, h⟩ := bind_ok h
  have k1 := ellipseLoop_keeps _ _ _ _ _ _ _ _ _ _ r hf hl hr
  exact k1.trans (tipLoop_keeps _ _ _ _ _ _ _ (by rw [k1.1.lineColor]; exact hl) h)

theorem circleLoop_keeps (xm ym : Int) : ∀ (f : Nat) (p p' : Paint) (x y err : Int), p.lineColor < 16 →
    circleLoop xm ym f p x y err = .ok p' → Keeps p p' := by
  intro f
  induction f with
  | zero =>
    intro p p' x y err _ h
    unfold circleLoop at h
    split at h
    · cases h
    · cases h; exact Keeps.refl p
  | succ k ih =>
    intro p p' x y err hl h
    unfold circleLoop at h
    split at h
    · cases h; exact Keeps.refl p
    · obtain ⟨_, _, h⟩ := bind_ok h
      obtain ⟨_, _, h⟩ := bind_ok h
      obtain ⟨q1, g1, h⟩ := bind_ok h
      obtain ⟨_, _, h⟩ := bind_ok h
      obtain ⟨_, _, h⟩ := bind_ok h
      obtain ⟨q2, g2, h⟩ := bind_ok h
      obtain ⟨_, _, h⟩ := bind_ok h
      obtain ⟨_, _, h⟩ := bind_ok h
      obtain ⟨q3, g3, h⟩ := bind_ok h
      obtain ⟨_, _, h⟩ := bind_ok h
      obtain ⟨_, _, h⟩ := bind_ok h
      obtain ⟨q4, g4, h⟩ := bind_ok h
      have k4 : Keeps p q4 := ((setPixel_keeps hl g1).trans (setPixel_keeps hl g2)).trans ((setPixel_keeps hl g3).trans (setPixel_keeps hl g4))
      obtain ⟨r1, _, h⟩ := bind_ok h
      obtain ⟨ya, ea⟩ := r1
      simp only [] at h
      obtain ⟨r2, _, h⟩ := bind_ok h
      obtain ⟨xa, eb⟩ := r2
      simp only [] at h
      exact k4.trans (ih q4 p' _ _ _ (by rw [k4.1.lineColor]; exact hl) h)

theorem drawCircle_keeps {p p' : Paint} {xm ym r : Int} (hl : p.lineColor < 16) (h : drawCircle p xm ym r = .ok p') : Keeps p p' := by
  unfold drawCircle at h
  obtain ⟨_, _, h⟩ := bind_ok h
  obtain ⟨_, _, h⟩ := bind_ok h
  obtain ⟨_, _, h⟩ := bind_ok h
  exact circleLoop_keeps _ _ _ _ _ _ _ _ hl h

-- ------------------------------------------------------------------------------------------------ flood fill
theorem floodLoop_keeps (old col : Nat) (hc : col < 16) : ∀ (f : Nat) (st : List (Int × Int)) (p p' : Paint),
    floodLoop old col f st p = .ok p' → Keeps p p' := by
  intro f
  induction f with
  | zero =>
    intro st p p' h
    cases st with
    | nil => unfold floodLoop at h; cases h; exact Keeps.refl p
    | cons a t => unfold floodLoop at h; cases h
  | succ k ih =>
    intro st p p' h
    cases st with
    | nil => unfold floodLoop at h; cases h; exact Keeps.refl p
    | cons a t =>
      obtain ⟨x, y⟩ := a
      unfold floodLoop at h
      split at h
      · exact ih _ _ _ h
      · obtain ⟨cp, _, h⟩ := bind_ok h
        split at h
        · exact ih _ _ _ h
        · obtain ⟨p1, h1, h⟩ := bind_ok h
          obtain ⟨_, _, h⟩ := bind_ok h
          obtain ⟨_, _, h⟩ := bind_ok h
          obtain ⟨_, _, h⟩ := bind_ok h
          obtain ⟨_, _, h⟩ := bind_ok h
          exact (setPixel_keeps hc h1).trans (ih _ _ _ h)

theorem floodFill_keeps {p p' : Paint} {x0 y0 : Int} (hf : p.fillColor < 16) (h : floodFill p x0 y0 = .ok p') : Keeps p p' := by
  unfold floodFill at h
  split at h
  · cases h; exact Keeps.refl p
  · obtain ⟨old, _, h⟩ := bind_ok h
    split at h
    · have := pure_ok h; subst this; exact Keeps.refl p
    · exact floodLoop_keeps _ _ hf _ _ _ _ h

-- ------------------------------------------------------------------------------------------------ blits
/-- a primitive that copies cells: it keeps everything but the cells, and pen numbers stay pen numbers -/
theorem blitSSRow_keeps (fx fy dx dy y : Int) : ∀ (n : Nat) (p p' : Paint) (x : Int), blitSSRow fx fy dx dy y n p x = .ok p' → Keeps p p' := by
  intro n
  induction n with
  | zero => intro p p' x h; unfold blitSSRow at h; cases h; exact Keeps.refl p
  | succ k ih =>
    intro p p' x h
    unfold blitSSRow at h
    obtain ⟨_, _, h⟩ := bind_ok h
    obtain ⟨_, _, h⟩ := bind_ok h
    obtain ⟨c, hc, h⟩ := bind_ok h
    obtain ⟨_, _, h⟩ := bind_ok h
    obtain ⟨_, _, h⟩ := bind_ok h
    obtain ⟨p1, h1, h⟩ := bind_ok h
    have k1 : Keeps p p1 := ⟨setPixel_kept h1, fun hp => setPixel_pix hp (getPixel_lt hp hc) h1⟩
    exact k1.trans (ih p1 p' _ h)

theorem blitSSRows_keeps (fx fy dx dy : Int) (cols : Nat) : ∀ (n : Nat) (p p' : Paint) (y : Int),
    blitSSRows fx fy dx dy cols n p y = .ok p' → Keeps p p' := by
  intro n
  induction n with
  | zero => intro p p' y h; unfold blitSSRows at h; cases h; exact Keeps.refl p
  | succ k ih =>
    intro p p' y h
    unfold blitSSRows at h
    obtain ⟨p1, h1, h⟩ := bind_ok h
    exact (blitSSRow_keeps _ _ _ _ _ _ _ _ _ h1).trans (ih p1 p' _ h)

theorem blitScreenToScreen_keeps {p p' : Paint} {fx fy tx ty dx dy : Int} (h : blitScreenToScreen p fx fy tx ty dx dy = .ok p') : Keeps p p' := by
  unfold blitScreenToScreen at h
  obtain ⟨_, _, h⟩ := bind_ok h
  obtain ⟨_, _, h⟩ := bind_ok h
  exact blitSSRows_keeps _ _ _ _ _ _ _ _ _ h

theorem getD_mem_lt {a : Array Nat} (hm : ∀ v, v ∈ a.toList → v < 16) (i : Nat) (hi : i < a.size) : a.getD i 0 < 16 := by
  have : a.getD i 0 = a[i] := by simp [Array.getD, hi]
  rw [this]
  exact hm _ (by simp)

theorem blitMSRow_keeps (fx dx dy yp width y : Int) : ∀ (n : Nat) (p p' : Paint) (x : Int), (∀ v, v ∈ p.mem.toList → v < 16) →
    blitMSRow fx dx dy yp width y n p x = .ok p' → Keeps p p' := by
  intro n
  induction n with
  | zero => intro p p' x _ h; unfold blitMSRow at h; cases h; exact Keeps.refl p
  | succ k ih =>
    intro p p' x hm h
    unfold blitMSRow at h
    obtain ⟨_, _, h⟩ := bind_ok h
    obtain ⟨_, _, h⟩ := bind_ok h
    split at h
    · have := pure_ok h; subst this; exact Keeps.refl p
    · obtain ⟨p1, h1, h⟩ := bind_ok h
      have k1 : Keeps p p1 := by
        split at h1
        · rename_i hoff
          obtain ⟨_, _, h1⟩ := bind_ok h1
          exact setPixel_keeps (getD_mem_lt hm _ (by omega)) h1
        · have := pure_ok h1; subst this; exact Keeps.refl p
      exact k1.trans (ih p1 p' _ (by rw [k1.1.mem]; exact hm) h)

theorem blitMSRows_keeps (fx fy dx dy width : Int) (cols : Nat) : ∀ (n : Nat) (p p' : Paint) (y : Int), (∀ v, v ∈ p.mem.toList → v < 16) →
    blitMSRows fx fy dx dy width cols n p y = .ok p' → Keeps p p' := by
  intro n
  induction n with
  | zero => intro p p' y _ h; unfold blitMSRows at h; cases h; exact Keeps.refl p
  | succ k ih =>
    intro p p' y hm h
    unfold blitMSRows at h
    obtain ⟨_, _, h⟩ := bind_ok h
    obtain ⟨_, _, h⟩ := bind_ok h
    split at h
    · have := pure_ok h; subst this; exact Keeps.refl p
    · obtain ⟨p1, h1, h⟩ := bind_ok h
      have k1 := blitMSRow_keeps _ _ _ _ _ _ _ _ _ _ hm h1
      exact k1.trans (ih p1 p' _ (by rw [k1.1.mem]; exact hm) h)

theorem blitMemoryToScreen_keeps {p p' : Paint} {fx fy tx ty dx dy : Int} (hm : ∀ v, v ∈ p.mem.toList → v < 16)
    (h : blitMemoryToScreen p fx fy tx ty dx dy = .ok p') : Keeps p p' := by
  unfold blitMemoryToScreen at h
  obtain ⟨_, _, h⟩ := bind_ok h
  obtain ⟨_, _, h⟩ := bind_ok h
  exact blitMSRows_keeps _ _ _ _ _ _ _ _ _ _ hm h

theorem grabRow_lt (y : Int) : ∀ (n : Nat) (p : Paint) (x : Int) (m m' : Array Nat), PixOk p → (∀ v, v ∈ m.toList → v < 16) →
    grabRow y n p x m = .ok m' → ∀ v, v ∈ m'.toList → v < 16 := by
  intro n
  induction n with
  | zero => intro p x m m' _ hm h; unfold grabRow at h; cases h; exact hm
  | succ k ih =>
    intro p x m m' hp hm h
    unfold grabRow at h
    obtain ⟨c, hc, h⟩ := bind_ok h
    apply ih p _ (m.push c) m' hp ?_ h
    intro v hv
    simp only [Array.toList_push, List.mem_append, List.mem_singleton] at hv
    rcases hv with h1 | h1
    · exact hm v h1
    · rw [h1]; exact getPixel_lt hp hc

theorem grabRows_lt (fx : Int) (cols : Nat) : ∀ (n : Nat) (p : Paint) (y : Int) (m m' : Array Nat), PixOk p → (∀ v, v ∈ m.toList → v < 16) →
    grabRows fx cols n p y m = .ok m' → ∀ v, v ∈ m'.toList → v < 16 := by
  intro n
  induction n with
  | zero => intro p y m m' _ hm h; unfold grabRows at h; cases h; exact hm
  | succ k ih =>
    intro p y m m' hp hm h
    unfold grabRows at h
    obtain ⟨m1, h1, h⟩ := bind_ok h
    exact ih p _ m1 m' hp (grabRow_lt _ _ _ _ _ _ hp hm h1) h

/-- `blit_screen_to_memory` leaves the screen alone and saves pen numbers -/
theorem blitScreenToMemory_good {p p' : Paint} {fx fy tx ty : Int} (hg : Good p) (h : blitScreenToMemory p fx fy tx ty = .ok p') : Good p' := by
  unfold blitScreenToMemory at h
  obtain ⟨_, _, h⟩ := bind_ok h
  obtain ⟨_, _, h⟩ := bind_ok h
  obtain ⟨_, _, h⟩ := bind_ok h
  obtain ⟨_, _, h⟩ := bind_ok h
  obtain ⟨m, hm, h⟩ := bind_ok h
  have := pure_ok h
  subst this
  have hlt := grabRows_lt _ _ _ _ _ _ _ hg.pix (by intro v hv; simp at hv) hm
  exact ⟨hg.res, hg.size, hg.pix, hg.pens, hg.line, hg.fill, hlt⟩

end IcyVerif.IgsPaint
