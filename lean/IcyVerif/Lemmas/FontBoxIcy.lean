import IcyVerif.Model.FontBox
import IcyVerif.Lemmas.FontRt
import IcyVerif.Props.C07
set_option linter.unusedSimpArgs false
/-!
# C17: the `FONT_n` chunks of an IcyDraw document — C07's `doc_rt` with the real font codec

`icyCodecs` satisfies the font clause of C07's `CodecsOk` for every document whose font slots hold well-formed fonts
(`WfFont`: width 8, any height 1..=255, 256 / 512 / any number ≤ 55296 of glyphs) with valid UTF-8 names.
-/
namespace IcyVerif.FontBox
open IcyVerif.Font IcyVerif.Uni

theorem lossyBytes_valid (name : List Nat) (hv : ValidUtf8 name) : lossyBytes name = name := by
  obtain ⟨cs, hcs, rfl⟩ := hv
  unfold lossyBytes lossy
  rw [lossyAux_encodeAll cs hcs _ (Nat.le_refl _)]

/-- what C17 asks of a font slot of a document -/
structure WfIcyFont (f : IcyFont) : Prop where
  utf8 : ValidUtf8 f.name
  short : f.name.length < 4294967296
  font : ∃ h, WfFont f.font h

theorem icy_font_codec {S : Type} (palEnc : List IcyDraw.RGB → List Nat) (palDec : List Nat → IcyDraw.Res (List IcyDraw.RGB))
    (sauceDec : List Nat → IcyDraw.Res (Option S)) (dflt : IcyFont) (f : IcyFont) (wf : WfIcyFont f) :
    let cd := icyCodecs palEnc palDec sauceDec dflt
    (cd.fontName f).length < 4294967296 ∧ cd.fontDec (cd.fontName f) (cd.fontData f) = .ok f := by
  obtain ⟨h, hwf⟩ := wf.font
  refine ⟨wf.short, ?_⟩
  show (match fromBytes (match f.font.toPsf2 with | .ok d => d | _ => []) with
        | Font.Res.ok g => IcyDraw.Res.ok (⟨lossyBytes f.name, g⟩ : IcyFont)
        | Font.Res.err => IcyDraw.Res.fail .errCodec
        | Font.Res.panic => IcyDraw.Res.fail .panic) = IcyDraw.Res.ok f
  rw [toPsf2_eq f.font h hwf]
  simp only
  rw [psf2_roundtrip f.font h hwf, lossyBytes_valid f.name wf.utf8]

/-- the payload of the chunk is `<u32 length><name><PSF2 header><glyph rows>` -/
theorem icy_font_payload {S : Type} (palEnc : List IcyDraw.RGB → List Nat) (palDec : List Nat → IcyDraw.Res (List IcyDraw.RGB))
    (sauceDec : List Nat → IcyDraw.Res (Option S)) (dflt : IcyFont) (f : IcyFont) (h : Nat) (wf : WfFont f.font h) :
    IcyDraw.fontPayload (icyCodecs palEnc palDec sauceDec dflt) f =
      IcyDraw.leBytes 4 f.name.length ++ f.name ++ (psf2Header f.font ++ flat f.font.glyphs) := by
  show IcyDraw.leBytes 4 f.name.length ++ f.name ++ (match f.font.toPsf2 with | .ok d => d | _ => []) = _
  rw [toPsf2_eq f.font h wf]

end IcyVerif.FontBox
