import IcyVerif.Lemmas.BinFormatsCells
set_option linter.unusedSimpArgs false
set_option linter.unusedVariables false
/-!
# C05: `from_bytes` on a file the engine wrote with / without a SAUCE record
-/
namespace IcyVerif.BinFormats
open IcyVerif.XbCompress IcyVerif.Gen

/-- with a SAUCE record: `from_bytes` hands the loader exactly the body and the size / ice flag of the record -/
theorem fromBytes_sauced (f : Fmt) (k : SauceKind) (p : Pic) (date body : List Nat) (f0 : Font) (dt ft t1 t2 : Nat) (ice named : Bool)
    (hf0 : lookupFont p.fonts 0 = some f0) (hfields : sauceFields k p = some (dt, ft, t1, t2, ice, named))
    (hdate : dateOk date = true) :
    ∃ bytes, writeSauce k p date body = .ok bytes ∧
      fromBytes f bytes = loadBody f body (some
        ⟨(sauceDims (dt % 256) (ft % 256) (t1 % 256 + (t1 / 256) % 256 * 256) (t2 % 256 + (t2 / 256) % 256 * 256)
            (if ice then BinFmt.sauceFlagNonBlink else 0)).1,
         (sauceDims (dt % 256) (ft % 256) (t1 % 256 + (t1 / 256) % 256 * 256) (t2 % 256 + (t2 / 256) % 256 * 256)
            (if ice then BinFmt.sauceFlagNonBlink else 0)).2.1,
         (sauceDims (dt % 256) (ft % 256) (t1 % 256 + (t1 / 256) % 256 * 256) (t2 % 256 + (t2 / 256) % 256 * 256)
            (if ice then BinFmt.sauceFlagNonBlink else 0)).2.2, 129⟩) := by
  have hd8 := dateOk_length date hdate
  let info := infoStr (if named then f0.name else [])
  let fl := if ice then BinFmt.sauceFlagNonBlink else 0
  let bytes := body ++ [0x1A] ++ sauceHead date (body.length + 1) ++
      ([dt % 256, ft % 256] ++ u16le t1 ++ u16le t2 ++ [0, 0, 0, 0] ++ [0, fl] ++ info)
  have hsave : writeSauce k p date body = .ok bytes := by
    unfold writeSauce
    simp only [hf0, hfields]
    rfl
  obtain ⟨hext, hlen⟩ := extract_written body date info (dt % 256) (ft % 256) (t1 % 256) ((t1 / 256) % 256)
    (t2 % 256) ((t2 / 256) % 256) 0 0 0 0 fl hd8 hdate (infoStr_length _)
  have hext' : extractSauce bytes = _ := hext
  have hlen' : bytes.length = body.length + 129 := hlen
  refine ⟨bytes, hsave, ?_⟩
  unfold fromBytes
  rw [hext']
  simp only
  have hbody : bytes.take (bytes.length - 129) = body := by
    rw [hlen']
    have e : body.length + 129 - 129 = body.length := by omega
    rw [e]
    show (body ++ [0x1A] ++ sauceHead date (body.length + 1) ++ _).take body.length = body
    rw [List.append_assoc, List.append_assoc]
    exact List.take_left' rfl
  rw [hbody]

/-- without a SAUCE record (and no picture content that reads as one): the loader sees the whole file -/
theorem fromBytes_plain (f : Fmt) (bytes : List Nat) (h : looksLikeSauce bytes = false) :
    fromBytes f bytes = loadBody f bytes none := by
  unfold fromBytes
  rw [extract_none bytes h]

end IcyVerif.BinFormats
