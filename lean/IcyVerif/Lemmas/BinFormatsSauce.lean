import IcyVerif.Lemmas.BinFormatsCells
import IcyVerif.Props.C11
set_option linter.unusedSimpArgs false
set_option linter.unusedVariables false
/-!
# C05: `from_bytes` on a file the engine wrote with / without a SAUCE record

The SAUCE model is C11's (`Model/Sauce.lean`); its theorems `load_ignores_sauce` (the loader is handed exactly the
content and the record the variant can carry, for every content and all metadata) and `extract_total` do the work here.
-/
namespace IcyVerif.BinFormats
open IcyVerif.XbCompress IcyVerif.Gen

theorem kind_lt (k : SauceKind) : k.idx < 9 := by cases k <;> decide

/-- `metaOk` is C11's `Valid` plus the comment limit -/
theorem metaOk_valid (p : Pic) (name : List Nat) (h : metaOk p.sauce = true) :
    Sauce.Valid (bufInfo p name) ∧ (p.sauce.getD {}).comments.length ≤ Gen.Sauce.commentLimit := by
  unfold metaOk at h
  cases hs : p.sauce with
  | none =>
    refine ⟨⟨?_, ?_, ?_, ?_⟩, ?_⟩ <;> simp [bufInfo, hs]
  | some m =>
    rw [hs] at h
    simp only [Bool.and_eq_true, decide_eq_true_eq, List.all_eq_true] at h
    obtain ⟨⟨⟨⟨h1, h2⟩, h3⟩, h4⟩, h5⟩ := h
    refine ⟨⟨?_, ?_, ?_, ?_⟩, ?_⟩ <;> simp only [bufInfo, hs, Option.getD_some]
    · exact h1
    · exact h2
    · exact h3
    · exact h4
    · exact h5

/-- with a SAUCE record: the writer succeeds and `from_bytes` hands the loader exactly the body and the record the
    variant carries (C11 `load_ignores_sauce`) — whatever the body is, whatever title / author / group / comments -/
theorem fromBytes_sauced (f : Fmt) (k : SauceKind) (p : Pic) (date body : List Nat) (f0 : Font)
    (hf0 : lookupFont p.fonts 0 = some f0) (hm : metaOk p.sauce = true) (hbin : k = .bin → p.w / 2 ≤ 255)
    (hdate : dateOk date = true) :
    ∃ bytes, writeSauce k p date body = .ok bytes ∧ body.length ≤ bytes.length ∧
      fromBytes f bytes = loadBody f body (some (Sauce.carry k.idx (bufInfo p f0.name) (bytes.length - body.length))) := by
  obtain ⟨hv, hc⟩ := metaOk_valid p f0.name hm
  have hd8 : date.length = Gen.Sauce.dateLen := dateOk_length date hdate
  have hout := IcyVerif.C11.write_outcome k.idx (bufInfo p f0.name) date body
  have hcl : ¬ ((p.sauce.getD {}).comments.length > Gen.Sauce.commentLimit) := by omega
  rcases hout with ⟨bytes, hw⟩ | ⟨_, hgt⟩ | ⟨_, hnone, hgt⟩
  · refine ⟨bytes, ?_, ?_, ?_⟩
    · unfold writeSauce
      simp only [hcl, if_false, hf0, hw]
    · simp only [Sauce.writeSauceInfo] at hw
      obtain ⟨tail, _, h2⟩ := Sauce.bind_eq_ok hw
      have := (Sauce.Res.ok.inj h2).symm
      subst this
      simp only [List.length_append]; omega
    · unfold fromBytes
      rw [IcyVerif.C11.load_ignores_sauce dateOk k.idx (kind_lt k) (bufInfo p f0.name) hv date hd8 hdate body bytes hw]
  · exact absurd hgt (by simpa [bufInfo] using hcl)
  · exfalso
    cases k with
    | bin => have := hbin rfl; simp only [bufInfo] at hgt; omega
    | xbin => revert hnone; decide
    | ansi => revert hnone; decide
    | tundra => revert hnone; decide

/-- `SauceData::extract` never panics (C11), so `from_bytes` without a record hands the loader the whole file -/
theorem fromBytes_plain' (f : Fmt) (bytes : List Nat) (h : tailReadsAsSauce bytes = false) :
    fromBytes f bytes = loadBody f bytes none := by
  unfold fromBytes Sauce.fromBytesSplit
  unfold tailReadsAsSauce at h
  have hsl : Sauce.slice bytes 0 bytes.length = .ok bytes := by
    rw [Sauce.slice_ok (Nat.zero_le _) (Nat.le_refl _)]; simp
  cases hx : Sauce.extract dateOk bytes with
  | ok o =>
    cases o with
    | none => simp only [hsl, Sauce.bind_ok]
    | some s => rw [hx] at h; exact absurd h (by simp)
  | err e => simp only [hsl, Sauce.bind_ok]
  | panic site => exact absurd hx (IcyVerif.C11.extract_total dateOk bytes site)

theorem commentPart_len_le' {data : List Nat} {nc : Nat} {cs : List (List Nat)} {len : Nat}
    (h : Sauce.commentPart data nc = .ok (cs, len)) : len + 128 ≤ data.length := by
  have hl : Gen.Sauce.sauceLen = 128 := rfl
  simp only [Sauce.commentPart] at h
  split at h
  · obtain ⟨avail, h1, h⟩ := Sauce.bind_eq_ok h
    obtain ⟨_, ha⟩ := Sauce.usub_eq_ok h1
    split at h
    · cases h
    obtain ⟨x, h2, h⟩ := Sauce.bind_eq_ok h
    obtain ⟨_, hx⟩ := Sauce.usub_eq_ok h2
    obtain ⟨st, h3, h⟩ := Sauce.bind_eq_ok h
    obtain ⟨_, hst⟩ := Sauce.usub_eq_ok h3
    obtain ⟨id, _, h⟩ := Sauce.bind_eq_ok h
    split at h
    · cases h
    obtain ⟨cs', _, h⟩ := Sauce.bind_eq_ok h
    have := Sauce.Res.ok.inj h
    have hlen : st = len := congrArg Prod.snd this
    omega
  · obtain ⟨l, h1, h⟩ := Sauce.bind_eq_ok h
    obtain ⟨_, hl'⟩ := Sauce.usub_eq_ok h1
    have := Sauce.Res.ok.inj h
    have hlen : l = len := congrArg Prod.snd this
    omega

/-- a record found by `extract` claims at least its own 128 bytes -/
theorem sauce_header_ge (dateOk : List Nat → Bool) (data : List Nat) (s : Sauce.Sauce)
    (h : Sauce.extract dateOk data = .ok (some s)) : 128 ≤ s.headerLen := by
  simp only [Sauce.extract] at h
  split at h
  · cases h
  obtain ⟨o0, _, h⟩ := Sauce.bind_eq_ok h
  obtain ⟨oh, _, h⟩ := Sauce.bind_eq_ok h
  cases oh with
  | none => cases h
  | some hd =>
    obtain ⟨r, hr, h⟩ := Sauce.bind_eq_ok h
    obtain ⟨hl, h1, h⟩ := Sauce.bind_eq_ok h
    obtain ⟨_, e⟩ := Sauce.usub_eq_ok h1
    have := Option.some.inj (Sauce.Res.ok.inj h)
    rw [← this]
    show 128 ≤ hl
    have hcp := commentPart_len_le' (cs := r.1) (len := r.2) (by simpa using hr)
    have : Gen.Sauce.eofLen = 1 := rfl
    omega

/-- no SAUCE signature 128 bytes before the end: `extract` answers `Ok(None)` -/
theorem tail_of_looks (bytes : List Nat) (h : looksLikeSauce bytes = false) : tailReadsAsSauce bytes = false := by
  unfold tailReadsAsSauce Sauce.extract
  unfold looksLikeSauce at h
  have hl : Gen.Sauce.sauceLen = 128 := rfl
  have hl' : BinFmt.sauceLen = 128 := rfl
  by_cases hlen : bytes.length < 128
  · simp [hl, hlen]
  · have hge : 128 ≤ bytes.length := by omega
    simp only [hl, hlen, if_false]
    rw [Sauce.usub_ok hge, Sauce.bind_ok]
    unfold Sauce.parseHeader
    have hs5 : Gen.Sauce.sauceIdSlice = 5 := rfl
    rw [Sauce.slice_ok (by omega) (by rw [hs5]; omega), Sauce.bind_ok]
    simp only [hl', hge, decide_true, Bool.true_and, beq_eq_false_iff_ne, ne_eq] at h
    have hne : Gen.Sauce.sauceId ≠ List.take (bytes.length - 128 + Gen.Sauce.sauceIdSlice - (bytes.length - 128)) (List.drop (bytes.length - 128) bytes) := by
      have e : bytes.length - 128 + Gen.Sauce.sauceIdSlice - (bytes.length - 128) = 5 := by rw [hs5]; omega
      rw [e]
      intro hc
      exact h hc.symm
    simp only [hne, ne_eq, not_false_eq_true, if_true, Sauce.bind_ok]

/-- without a SAUCE record (and no picture content that starts with the signature): the loader sees the whole file -/
theorem fromBytes_plain (f : Fmt) (bytes : List Nat) (h : looksLikeSauce bytes = false) :
    fromBytes f bytes = loadBody f bytes none :=
  fromBytes_plain' f bytes (tail_of_looks bytes h)

/-! ## the start buffer of a loader after `set_sauce(record, true)` -/

/-- the font table after `set_sauce`: font 0 is the font the record names when that is one of `SAUCE_FONT_NAMES` -/
def startFonts (s : Sauce.Sauce) : List (Nat × Font) :=
  match s.font.bind sauceFontByName with
  | some f => setFont [(0, defaultFont)] 0 f
  | none => [(0, defaultFont)]

theorem start_setSauce (w0 h0 : Nat) (s : Sauce.Sauce) (hw1 : 1 ≤ s.width) (hw2 : s.width ≤ 1000) :
    (LBuf.start w0 h0 true).setSauce true (some s) =
      { bw := s.width, bh := s.height, lw := s.width, lh := s.height, lines := [], ice := if s.ice then .ice else .unlimited,
        pal := dosPalette, fonts := startFonts s, sauce := some (metaOf s) } := by
  unfold LBuf.setSauce LBuf.start startFonts
  have hm : BinFmt.sauceMaxWidth = 1000 := rfl
  have hcond : ¬ (s.width = 0 ∨ s.width > BinFmt.sauceMaxWidth) := by rw [hm]; omega
  simp only [if_true, hcond, if_false]
  cases s.font.bind sauceFontByName <;> rfl

theorem start_setSauce_none (w0 h0 : Nat) :
    (LBuf.start w0 h0 true).setSauce true none =
      { bw := w0, bh := h0, lw := w0, lh := h0, lines := [], ice := .unlimited, pal := dosPalette, fonts := [(0, defaultFont)],
        sauce := none } := by
  unfold LBuf.setSauce LBuf.start
  simp

/-! ## what the record of each writer carries (C11 `carry_*`), in the form the loaders use -/

theorem carry_xbin (p : Pic) (name : List Nat) (hl : Nat) (hw : p.w < 65536) (hh : p.h < 65536) :
    (Sauce.carry SauceKind.xbin.idx (bufInfo p name) hl).width = p.w ∧ (Sauce.carry SauceKind.xbin.idx (bufInfo p name) hl).height = p.h ∧
    (Sauce.carry SauceKind.xbin.idx (bufInfo p name) hl).ice = false ∧ (Sauce.carry SauceKind.xbin.idx (bufInfo p name) hl).font = none := by
  obtain ⟨h1, h2, h3, _, _, h6, _⟩ := IcyVerif.C11.carry_plain 8 (by decide) (bufInfo p name) hl
  refine ⟨?_, ?_, h3, h6⟩
  · rw [show SauceKind.xbin.idx = 8 from rfl, h1]; simp only [bufInfo]; omega
  · rw [show SauceKind.xbin.idx = 8 from rfl, h2]; simp only [bufInfo]; simp; omega

theorem carry_tundra (p : Pic) (name : List Nat) (hl : Nat) (hw : p.w < 65536) :
    (Sauce.carry SauceKind.tundra.idx (bufInfo p name) hl).width = p.w ∧ (Sauce.carry SauceKind.tundra.idx (bufInfo p name) hl).height = p.h % 65536 ∧
    (Sauce.carry SauceKind.tundra.idx (bufInfo p name) hl).ice = false ∧ (Sauce.carry SauceKind.tundra.idx (bufInfo p name) hl).font = none := by
  obtain ⟨h1, h2, h3, _, _, h6, _⟩ := IcyVerif.C11.carry_plain 6 (by decide) (bufInfo p name) hl
  refine ⟨?_, ?_, h3, h6⟩
  · rw [show SauceKind.tundra.idx = 6 from rfl, h1]; simp only [bufInfo]; omega
  · rw [show SauceKind.tundra.idx = 6 from rfl, h2]; simp only [bufInfo]

theorem carry_ansi (p : Pic) (name : List Nat) (hl : Nat) (hw : p.w < 65536) (hh : p.h < 65536) :
    (Sauce.carry SauceKind.ansi.idx (bufInfo p name) hl).width = p.w ∧ (Sauce.carry SauceKind.ansi.idx (bufInfo p name) hl).height = p.h ∧
    (Sauce.carry SauceKind.ansi.idx (bufInfo p name) hl).ice = (p.ice == .ice) := by
  obtain ⟨h1, h2, h3, _⟩ := IcyVerif.C11.carry_ansi 2 (by decide) (bufInfo p name) hl
  refine ⟨?_, ?_, h3⟩
  · rw [show SauceKind.ansi.idx = 2 from rfl, h1]; simp only [bufInfo]; omega
  · rw [show SauceKind.ansi.idx = 2 from rfl, h2]; simp only [bufInfo]; omega

theorem carry_bin (p : Pic) (name : List Nat) (hl : Nat) :
    (Sauce.carry SauceKind.bin.idx (bufInfo p name) hl).width = p.w / 2 * 2 ∧ (Sauce.carry SauceKind.bin.idx (bufInfo p name) hl).height = 25 ∧
    (Sauce.carry SauceKind.bin.idx (bufInfo p name) hl).ice = (p.ice == .ice) ∧
    (Sauce.carry SauceKind.bin.idx (bufInfo p name) hl).font =
      some (Sauce.strText (Sauce.carryNul (Sauce.strFrom Gen.Sauce.tinfoLen name))) := by
  obtain ⟨h1, h2, h3, _, _, h6, _⟩ := IcyVerif.C11.carry_bin (bufInfo p name) hl
  exact ⟨h1, h2, h3, h6⟩

/-- the SAUCE data a loaded buffer keeps: the texts of the saved buffer as a SAUCE field carries them -/
theorem metaOf_carry (k : SauceKind) (p : Pic) (name : List Nat) (hl : Nat) :
    (metaOf (Sauce.carry k.idx (bufInfo p name) hl)).title = Sauce.carryPad Gen.Sauce.titleLen Gen.Sauce.titlePad (p.sauce.getD {}).title ∧
    (metaOf (Sauce.carry k.idx (bufInfo p name) hl)).author = Sauce.carryPad Gen.Sauce.authorLen Gen.Sauce.authorPad (p.sauce.getD {}).author ∧
    (metaOf (Sauce.carry k.idx (bufInfo p name) hl)).group = Sauce.carryPad Gen.Sauce.groupLen Gen.Sauce.groupPad (p.sauce.getD {}).group ∧
    (metaOf (Sauce.carry k.idx (bufInfo p name) hl)).comments = (p.sauce.getD {}).comments.map Sauce.carryNul := by
  obtain ⟨h1, h2, h3, h4, _⟩ := IcyVerif.C11.carry_texts k.idx (bufInfo p name) hl
  exact ⟨h1, h2, h3, h4⟩

end IcyVerif.BinFormats
