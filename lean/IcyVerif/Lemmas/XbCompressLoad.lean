import IcyVerif.Lemmas.XbCompress
set_option linter.unusedSimpArgs false
set_option linter.unusedVariables false
/-!
# The crate's loader on well-formed run streams (C06, "decode to identical pictures")

`readCompressed_sers`: on the serialisation of any list of well-formed runs the model of `read_data_compressed`
does not fail and hands exactly the runs' cells, in order, to `decode_char`.
`readUncompressed_raw`: `read_data_uncompressed` on the raw pair stream.
-/
namespace IcyVerif.XbCompress
open IcyVerif.Gen

theorem rhdr_off : ∀ n, n < 64 → (Xb.compOff ||| n) &&& Xb.readTypeMask = Xb.compOff ∧ (Xb.compOff ||| n) &&& Xb.readCountMask = n := by decide
theorem rhdr_chr : ∀ n, n < 64 → (Xb.compChar ||| n) &&& Xb.readTypeMask = Xb.compChar ∧ (Xb.compChar ||| n) &&& Xb.readCountMask = n := by decide
theorem rhdr_att : ∀ n, n < 64 → (Xb.compAttr ||| n) &&& Xb.readTypeMask = Xb.compAttr ∧ (Xb.compAttr ||| n) &&& Xb.readCountMask = n := by decide
theorem rhdr_full : ∀ n, n < 64 → (Xb.compFull ||| n) &&& Xb.readTypeMask = Xb.compFull ∧ (Xb.compFull ||| n) &&& Xb.readCountMask = n := by decide

theorem rdOff_cells (cs : List (Nat × Nat)) (tl : List Nat) :
    ∀ acc, rdOff cs.length (cs.flatMap (fun c => [c.1, c.2]) ++ tl) acc = (acc ++ cs, tl) := by
  induction cs with
  | nil => intro acc; simp [rdOff]
  | cons c cs ih => intro acc; simp [rdOff, ih]

theorem rdChr_cells (c : Nat) (as : List Nat) (tl : List Nat) :
    ∀ acc, rdChr c as.length (as ++ tl) acc = (acc ++ as.map (fun a => (c, a)), tl) := by
  induction as with
  | nil => intro acc; simp [rdChr]
  | cons a as ih => intro acc; simp [rdChr, ih]

theorem rdAtt_cells (a : Nat) (cs : List Nat) (tl : List Nat) :
    ∀ acc, rdAtt a cs.length (cs ++ tl) acc = (acc ++ cs.map (fun c => (c, a)), tl) := by
  induction cs with
  | nil => intro acc; simp [rdAtt]
  | cons c cs ih => intro acc; simp [rdAtt, ih]

theorem codes_distinct : Xb.compChar ≠ Xb.compOff ∧ Xb.compAttr ≠ Xb.compOff ∧ Xb.compAttr ≠ Xb.compChar ∧
    Xb.compFull ≠ Xb.compOff ∧ Xb.compFull ≠ Xb.compChar ∧ Xb.compFull ≠ Xb.compAttr := by decide

/-- one well-formed run is read as its cells, the cursor ends right behind it -/
theorem readAux_run (r : Run) (hr : r.ok) (tl : List Nat) (fuel : Nat) (acc : List (Nat × Nat)) :
    readCompressedAux (fuel + 1) (r.ser ++ tl) acc = readCompressedAux fuel tl (acc ++ r.cells) := by
  obtain ⟨m, hd, rest⟩ := r
  obtain ⟨hlen, hm⟩ := hr
  obtain ⟨d1, d2, d3, d4, d5, d6⟩ := codes_distinct
  simp only at hlen hm
  cases m with
  | off =>
    obtain ⟨h1, h2⟩ := rhdr_off rest.length hlen
    have := rdOff_cells (hd :: rest) tl acc
    simp only [List.length_cons] at this
    simp only [Run.ser, Run.payload, Run.cells, Mode.code, List.cons_append, readCompressedAux, h1, h2, if_true, this]
  | chr =>
    obtain ⟨h1, h2⟩ := rhdr_chr rest.length hlen
    have := rdChr_cells hd.1 ((hd :: rest).map (·.2)) tl acc
    simp only [List.length_map, List.length_cons] at this
    have hmap := map_fst_const hd.1 rest hm
    simp only [Run.ser, Run.payload, Run.cells, Mode.code, List.cons_append, readCompressedAux, h1, h2, d1, if_false,
      if_true, this]
    simp [hmap]
  | att =>
    obtain ⟨h1, h2⟩ := rhdr_att rest.length hlen
    have := rdAtt_cells hd.2 ((hd :: rest).map (·.1)) tl acc
    simp only [List.length_map, List.length_cons] at this
    have hmap := map_snd_const hd.2 rest hm
    simp only [Run.ser, Run.payload, Run.cells, Mode.code, List.cons_append, readCompressedAux, h1, h2, d2, d3,
      if_false, if_true, this]
    simp [hmap]
  | full =>
    obtain ⟨h1, h2⟩ := rhdr_full rest.length hlen
    have hrep := replicate_of_all hd rest hm
    simp only [Run.ser, Run.payload, Run.cells, Mode.code, List.cons_append, readCompressedAux, h1, h2, d4, d5, d6,
      if_false]
    simp [List.replicate_succ, hrep]

theorem readAux_sers (runs : List Run) (hok : ∀ r ∈ runs, r.ok) :
    ∀ fuel acc, runs.length < fuel → readCompressedAux fuel (runs.flatMap Run.ser) acc = some (acc ++ expand runs) := by
  induction runs with
  | nil =>
    intro fuel acc hf
    obtain ⟨f, rfl⟩ : ∃ f, fuel = f + 1 := ⟨fuel - 1, by omega⟩
    simp [readCompressedAux, expand]
  | cons r rs ih =>
    intro fuel acc hf
    obtain ⟨f, rfl⟩ : ∃ f, fuel = f + 1 := ⟨fuel - 1, by simp at hf; omega⟩
    have hr := hok r (by simp)
    have := ih (fun r' h' => hok r' (by simp [h'])) f (acc ++ r.cells) (by simp at hf; omega)
    simp only [List.flatMap_cons, readAux_run r hr, this, expand_cons, List.append_assoc]

theorem sers_length (runs : List Run) : runs.length ≤ (runs.flatMap Run.ser).length := by
  induction runs with
  | nil => simp
  | cons r rs ih =>
    simp only [List.flatMap_cons, List.length_append, List.length_cons, Run.ser]
    omega

/-- the loader on a well-formed run stream: no failure, exactly the runs' cells -/
theorem readCompressed_sers (runs : List Run) (hok : ∀ r ∈ runs, r.ok) :
    readCompressed (runs.flatMap Run.ser) = some (expand runs) := by
  have := readAux_sers runs hok ((runs.flatMap Run.ser).length + 1) [] (by have := sers_length runs; omega)
  simpa [readCompressed] using this

theorem readUncompressed_raw (enc : Attr → Nat) (cells : List Cell) :
    readUncompressed (cells.flatMap (fun c => [c.ch, enc c.attr])) = cells.map (encCell enc) := by
  induction cells with
  | nil => simp [readUncompressed]
  | cons c cs ih => simp [readUncompressed, ih, encCell]

end IcyVerif.XbCompress
