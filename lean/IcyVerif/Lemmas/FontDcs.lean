import IcyVerif.Model.FontDcs
import IcyVerif.Lemmas.FontRaw
import IcyVerif.Lemmas.Base64
set_option linter.unusedSimpArgs false
set_option linter.unusedVariables false
/-!
# C17: the DCS framing of `CTerm:Font:` — lemmas over `Model/FontDcs.lean`

* `run_text` — text without ESC in the Default state changes nothing;
* `dcs_frame` — `ESC P` + any ESC-free payload + `ESC \` from the Default state is exactly `execute_dcs` on that payload
  (the framing is transparent: `parse_string` is the payload, `parsed_numbers` empty);
* `executeDcs_esc_untouched` — a recorded string that contains an ESC never installs a font (not the font branch, or the
  slot number / the base64 text is rejected);
* `run_interrupted` — a foreign `ESC x` inside the payload poisons the whole string: at the terminator nothing is installed.
-/
namespace IcyVerif.FontDcs
open IcyVerif.Font

theorem step_eq (p : P) (ch : Nat) : step p ch = stepCore (invoker (stepD 7) true) p ch := rfl

theorem step_dflt (p : P) (ch : Nat) (h : p.st = .dflt) :
    step p ch = if ch = ESC then ({ p with st := .esc }, .ok) else (p, .ok) := by
  rw [step_eq]; unfold stepCore; rw [h]

theorem step_esc_P (p : P) (h : p.st = .esc) : step p 80 = ({ p with st := .dcs, strRev := [], nums := [] }, .ok) := by
  rw [step_eq]; unfold stepCore; rw [h]; simp [escChar]

theorem step_dcs (p : P) (ch : Nat) (h : p.st = .dcs) :
    step p ch = if ch = ESC then ({ p with st := .dcsEsc }, .ok) else ({ p with strRev := ch :: p.strRev }, .ok) := by
  rw [step_eq]; unfold stepCore; rw [h]

theorem step_dcsEsc_st (p : P) (h : p.st = .dcsEsc) : step p 92 = executeDcs { p with st := .dflt } := by
  rw [step_eq]; unfold stepCore; rw [h]; simp

theorem step_dcsEsc_other (p : P) (x : Nat) (h : p.st = .dcsEsc) (h92 : x ≠ 92) (h91 : x ≠ 91) :
    step p x = ({ p with st := .dcs, strRev := x :: ESC :: p.strRev }, .ok) := by
  rw [step_eq]; unfold stepCore; rw [h]; simp [h92, h91]

theorem run_nil (p : P) : run p [] = p := rfl
theorem run_cons (p : P) (c : Nat) (s : List Nat) : run p (c :: s) = run (step p c).1 s := rfl
theorem run_append (p : P) (a b : List Nat) : run p (a ++ b) = run (run p a) b := by
  unfold run; rw [List.foldl_append]

/-- text without ESC in the Default state: parser and font table are exactly what they were -/
theorem run_text (p : P) (t : List Nat) (h : p.st = .dflt) (ht : ESC ∉ t) : run p t = p := by
  induction t with
  | nil => rfl
  | cons c t ih =>
    have hc : c ≠ ESC := fun e => ht (by simp [e])
    rw [run_cons, step_dflt p c h, if_neg hc]
    exact ih (fun e => ht (List.mem_cons_of_mem _ e))

/-- an ESC-free run inside a DCS is recorded verbatim -/
theorem run_record (t : List Nat) : ∀ (p : P), p.st = .dcs → ESC ∉ t → run p t = { p with strRev := t.reverse ++ p.strRev } := by
  induction t with
  | nil => intro p h _; simp [run_nil]
  | cons c t ih =>
    intro p h ht
    have hc : c ≠ ESC := fun e => ht (by simp [e])
    rw [run_cons, step_dcs p c h, if_neg hc]
    show run { p with strRev := c :: p.strRev } t = _
    rw [ih { p with strRev := c :: p.strRev } h (fun e => ht (List.mem_cons_of_mem _ e))]
    simp

/-- **the framing is transparent**: `ESC P` + ESC-free payload + `ESC \` from the Default state = `execute_dcs` on a parser
    whose `parse_string` is exactly the payload and whose `parsed_numbers` are empty -/
theorem dcs_frame (p : P) (s : List Nat) (h : p.st = .dflt) (hs : ESC ∉ s) :
    run p (ESC :: 80 :: (s ++ [ESC, 92])) = (executeDcs { p with st := .dflt, strRev := s.reverse, nums := [] }).1 := by
  rw [run_cons, step_dflt p ESC h, if_pos rfl, run_cons]
  show run (step { p with st := .esc } 80).1 (s ++ [ESC, 92]) = _
  rw [step_esc_P _ rfl, run_append, run_record s _ rfl hs, run_cons, step_dcs _ _ rfl, if_pos rfl, run_cons,
    step_dcsEsc_st _ rfl, run_nil]
  simp

/-- an unterminated sequence: everything is recorded, nothing is executed -/
theorem run_unterminated (p : P) (a : List Nat) (h : p.st = .dflt) (ha : ESC ∉ a) :
    run p (ESC :: 80 :: a) = { p with st := .dcs, strRev := a.reverse, nums := [] } := by
  rw [run_cons, step_dflt p ESC h, if_pos rfl, run_cons]
  show run (step { p with st := .esc } 80).1 a = _
  rw [step_esc_P _ rfl, run_record a _ rfl ha]
  simp

/-! ### what `execute_dcs` can do to the font table -/

theorem prefix_noesc : ESC ∉ prefixCTerm := by decide

theorem splitColon_spec : ∀ (l num rest : List Nat), splitColon l = some (num, rest) → l = num ++ 58 :: rest := by
  intro l
  induction l with
  | nil => intro num rest h; simp [splitColon] at h
  | cons x xs ih =>
    intro num rest h
    unfold splitColon at h
    by_cases hx : x = 58
    · rw [if_pos hx] at h
      simp only [Option.some.injEq, Prod.mk.injEq] at h
      obtain ⟨rfl, rfl⟩ := h
      simp [hx]
    · rw [if_neg hx] at h
      simp only [Option.map_eq_some_iff] at h
      obtain ⟨⟨n', r'⟩, hs, he⟩ := h
      simp only [Prod.mk.injEq] at he
      obtain ⟨rfl, rfl⟩ := he
      rw [ih n' r' hs]
      rfl

theorem parse_aux (ds : List Nat) (hds : ESC ∈ ds) :
    (if ds.isEmpty then (none : Option Nat)
     else if ds.all (fun c => decide (48 ≤ c) && decide (c ≤ 57)) then
       (let v := ds.foldl (fun acc c => acc * 10 + (c - 48)) 0
        if v < 18446744073709551616 then some v else none)
     else none) = none := by
  have hne : ds.isEmpty = false := by cases ds with | nil => simp at hds | cons _ _ => rfl
  have hall : ds.all (fun c => decide (48 ≤ c) && decide (c ≤ 57)) = false := by
    rw [List.all_eq_false]
    exact ⟨ESC, hds, by decide⟩
  rw [hne, hall]; rfl

theorem parseUsize_noesc (s : List Nat) (h : ESC ∈ s) : IcyVerif.B64.parseUsize s = none := by
  have hds : ESC ∈ (match s with | 43 :: r => r | r => r) := by
    split
    · rename_i r
      simp only [List.mem_cons] at h
      rcases h with h | h
      · exact absurd h (by decide)
      · exact h
    · exact h
  unfold IcyVerif.B64.parseUsize
  exact parse_aux _ hds

theorem decChar_esc : IcyVerif.B64.decChar ESC = none := by decide

theorem decode_quad' (a b c d : Nat) (rest : List Nat) (hne : ¬ (d = 61 ∧ rest = [])) :
    IcyVerif.B64.decode (a :: b :: c :: d :: rest) =
      match IcyVerif.B64.decChar a, IcyVerif.B64.decChar b, IcyVerif.B64.decChar c, IcyVerif.B64.decChar d with
      | some x, some y, some z, some w =>
        (IcyVerif.B64.decode rest).map fun r => (x * 4 + y / 16) :: (y % 16 * 16 + z / 4) :: (z % 4 * 64 + w) :: r
      | _, _, _, _ => none := by
  rw [IcyVerif.B64.decode.eq_def]
  split
  · simp_all
  · rename_i heq
    simp only [List.cons.injEq] at heq
    exact absurd ⟨heq.2.2.2.1, heq.2.2.2.2⟩ hne
  · rename_i heq
    simp only [List.cons.injEq] at heq
    exact absurd ⟨heq.2.2.2.1, heq.2.2.2.2⟩ hne
  · rename_i heq
    simp only [List.cons.injEq] at heq
    obtain ⟨rfl, rfl, rfl, rfl, rfl⟩ := heq
    rfl
  · rename_i hx
    exact (hx a b c d rest rfl).elim

theorem decode_noesc : ∀ (n : Nat) (l : List Nat), l.length ≤ n → ESC ∈ l → IcyVerif.B64.decode l = none := by
  intro n
  induction n with
  | zero =>
    intro l hl h
    have : l = [] := by cases l with | nil => rfl | cons _ _ => simp at hl
    subst this; simp at h
  | succ n ih =>
    intro l hl h
    match l, hl, h with
    | [], _, h => simp at h
    | [_], _, _ => simp [IcyVerif.B64.decode]
    | [_, _], _, _ => simp [IcyVerif.B64.decode]
    | [_, _, _], _, _ => simp [IcyVerif.B64.decode]
    | a :: b :: x :: y :: rest, hl, h =>
      by_cases hy : y = 61 ∧ rest = []
      · obtain ⟨rfl, rfl⟩ := hy
        by_cases hx : x = 61
        · subst hx
          rw [IcyVerif.B64.decode_pad2]
          simp only [List.mem_cons, List.not_mem_nil, or_false] at h
          rcases h with h | h | h | h
          · rw [← h, decChar_esc]
          · rw [← h, decChar_esc]; cases IcyVerif.B64.decChar a <;> rfl
          · exact absurd h (by decide)
          · exact absurd h (by decide)
        · rw [IcyVerif.B64.decode_pad1 a b x hx]
          simp only [List.mem_cons, List.not_mem_nil, or_false] at h
          rcases h with h | h | h | h
          · rw [← h, decChar_esc]
          · rw [← h, decChar_esc]; cases IcyVerif.B64.decChar a <;> rfl
          · rw [← h, decChar_esc]; cases IcyVerif.B64.decChar a <;> cases IcyVerif.B64.decChar b <;> rfl
          · exact absurd h (by decide)
      · rw [decode_quad' a b x y rest hy]
        simp only [List.mem_cons] at h
        rcases h with h | h | h | h | h
        · rw [← h, decChar_esc]
        · rw [← h, decChar_esc]; cases IcyVerif.B64.decChar a <;> rfl
        · rw [← h, decChar_esc]; cases IcyVerif.B64.decChar a <;> cases IcyVerif.B64.decChar b <;> rfl
        · rw [← h, decChar_esc]
          cases IcyVerif.B64.decChar a <;> cases IcyVerif.B64.decChar b <;> cases IcyVerif.B64.decChar x <;> rfl
        · rw [ih rest (by simp at hl; omega) h]
          cases IcyVerif.B64.decChar a <;> cases IcyVerif.B64.decChar b <;> cases IcyVerif.B64.decChar x <;>
            cases IcyVerif.B64.decChar y <;> rfl

/-- a recorded string with an ESC in it is never accepted as a font -/
theorem loadCustomFont_noesc (s : List Nat) (hp : prefixCTerm.isPrefixOf s = true) (h : ESC ∈ s) :
    ∀ r, loadCustomFont IcyVerif.B64.stdCodec s ≠ .ok r := by
  intro r
  obtain ⟨t, rfl⟩ := List.isPrefixOf_iff_prefix.mp hp
  have ht : ESC ∈ t := by
    simp only [List.mem_append] at h
    rcases h with h | h
    · exact absurd h prefix_noesc
    · exact h
  unfold loadCustomFont
  rw [List.drop_left]
  cases hsp : splitColon t with
  | none => simp
  | some nr =>
    obtain ⟨num, payload⟩ := nr
    have := splitColon_spec t num payload hsp
    subst this
    simp only [List.mem_append, List.mem_cons] at ht
    rcases ht with ht | ht | ht
    · have : IcyVerif.B64.stdCodec.parse num = none := parseUsize_noesc num ht
      simp [this]
    · exact absurd ht (by decide)
    · have : IcyVerif.B64.stdCodec.b64d payload = none := decode_noesc payload.length payload (Nat.le_refl _) ht
      cases hpn : IcyVerif.B64.stdCodec.parse num with
      | none => simp [hpn]
      | some v => simp [hpn, this]

/-- `execute_dcs` outside the font branch never touches the font table; inside it only through `load_custom_font` -/
theorem executeDcs_fonts (p : P) :
    (executeDcs p).1.fonts = (if prefixCTerm.isPrefixOf p.str then
      (match loadCustomFont IcyVerif.B64.stdCodec p.str with | .ok (slot, f) => setFont p.fonts slot f | _ => p.fonts)
      else p.fonts) := by
  unfold executeDcs
  by_cases hp : prefixCTerm.isPrefixOf p.str = true
  · simp only [hp, if_true]
    cases loadCustomFont IcyVerif.B64.stdCodec p.str with
    | ok r => obtain ⟨slot, f⟩ := r; rfl
    | err => rfl
    | panic => rfl
  · simp only [hp, if_false, Bool.false_eq_true]
    generalize IcyVerif.Term.takeNums (chars p.str) [] = tn
    obtain ⟨nums, rest⟩ := tn
    simp only
    split
    · split
      · rfl
      · split <;> (try split) <;> (try split) <;> rfl
    · rfl
    · rfl

theorem executeDcs_st (p : P) : (executeDcs p).1.st = p.st := by
  unfold executeDcs
  by_cases hp : prefixCTerm.isPrefixOf p.str = true
  · simp only [hp, if_true]
    cases loadCustomFont IcyVerif.B64.stdCodec p.str with
    | ok r => obtain ⟨slot, f⟩ := r; rfl
    | err => rfl
    | panic => rfl
  · simp only [hp, if_false, Bool.false_eq_true]
    generalize IcyVerif.Term.takeNums (chars p.str) [] = tn
    obtain ⟨nums, rest⟩ := tn
    simp only
    split
    · split
      · rfl
      · split <;> (try split) <;> (try split) <;> rfl
    · rfl
    · rfl

/-- the font branch of `execute_dcs` leaves the macro table alone -/
theorem executeDcs_macros_font (p : P) (hp : prefixCTerm.isPrefixOf p.str = true) : (executeDcs p).1.macros = p.macros := by
  unfold executeDcs
  simp only [hp, if_true]
  cases loadCustomFont IcyVerif.B64.stdCodec p.str with
  | ok r => obtain ⟨slot, f⟩ := r; rfl
  | err => rfl
  | panic => rfl

theorem executeDcs_esc_untouched (p : P) (h : ESC ∈ p.str) : (executeDcs p).1.fonts = p.fonts := by
  rw [executeDcs_fonts]
  split
  · rename_i hp
    cases hl : loadCustomFont IcyVerif.B64.stdCodec p.str with
    | ok r => exact absurd hl (loadCustomFont_noesc p.str hp h r)
    | err => rfl
    | panic => rfl
  · rfl

/-- a foreign `ESC x` (x neither `\` nor `[`) inside the payload: the string that reaches `execute_dcs` contains the ESC,
    nothing is installed, the parser is back in the Default state -/
theorem run_interrupted (p : P) (a b : List Nat) (x : Nat) (h : p.st = .dflt) (ha : ESC ∉ a) (hb : ESC ∉ b)
    (h92 : x ≠ 92) (h91 : x ≠ 91) :
    (run p (ESC :: 80 :: (a ++ ESC :: x :: (b ++ [ESC, 92])))).fonts = p.fonts ∧
    (run p (ESC :: 80 :: (a ++ ESC :: x :: (b ++ [ESC, 92])))).st = .dflt := by
  have e : ESC :: 80 :: (a ++ ESC :: x :: (b ++ [ESC, 92])) = (ESC :: 80 :: a) ++ (ESC :: x :: (b ++ [ESC, 92])) := by simp
  rw [e, run_append, run_unterminated p a h ha, run_cons, step_dcs _ _ rfl, if_pos rfl, run_cons]
  show (run (step { p with st := .dcsEsc, strRev := a.reverse, nums := [] } x).1 (b ++ [ESC, 92])).fonts = _ ∧ _
  rw [step_dcsEsc_other _ x rfl h92 h91, run_append, run_record b _ rfl hb, run_cons, step_dcs _ _ rfl, if_pos rfl, run_cons,
    step_dcsEsc_st _ rfl, run_nil]
  constructor
  · rw [executeDcs_esc_untouched]
    simp [P.str, ESC]
  · rw [executeDcs_st]

end IcyVerif.FontDcs
