import IcyVerif.Lemmas.BinFormatsTndRt
set_option linter.unusedSimpArgs false
set_option linter.unusedVariables false
/-!
# C05: what the loaders can produce (the range of `from_bytes`), shared part

* `toPic_wellFormed`: the picture a loaded buffer shows (`LBuf.toPic`: `Buffer::get_char` over buffer width x height) always
  has `height` rows of `width` cells.
* `CellsOK P g`: every VISIBLE cell the layer holds satisfies `P`; `setChar`, `placeAll`, `crop` keep it when the cells
  written satisfy `P`; `allCells_toPic`: then every cell of the picture satisfies any `Q` that holds for `P`-cells, for the
  default cell (what `get_char` answers for an invisible cell inside the layer) and for the invisible cell (outside it).
* `usage_*`: `analyze_font_usage` of a picture all of whose cells use page 0 (pages 0 / 1).
* `metaOk_extract`: the SAUCE data a loaded buffer keeps is within the field lengths (`SauceString::read` reads at most
  `LEN` bytes) and has at most 255 comment lines (the count is one byte).
-/
namespace IcyVerif.BinFormats
open IcyVerif.XbCompress IcyVerif.Gen

/-! ## the picture of a loaded buffer is rectangular -/

theorem rowCells_length (b : LBuf) (y : Nat) : (b.rowCells y).length = b.bw := by
  unfold LBuf.rowCells
  split
  · simp only [List.length_append, List.length_map, List.length_take, List.length_replicate]
    omega
  · simp

theorem toPic_rows_length (b : LBuf) : b.toPic.rows.length = b.toPic.h := by
  simp [LBuf.toPic]

theorem toPic_wellFormed (b : LBuf) (h : 1 ≤ b.bh) : wellFormed b.toPic = true := by
  unfold wellFormed
  simp only [Bool.and_eq_true, beq_iff_eq, List.all_eq_true, decide_eq_true_eq]
  refine ⟨⟨toPic_rows_length b, ?_⟩, ?_⟩
  · intro r hr
    simp only [LBuf.toPic, List.mem_map, List.mem_range] at hr
    obtain ⟨y, _, rfl⟩ := hr
    exact rowCells_length b y
  · show 1 ≤ b.bh.toNat
    omega

/-! ## an invariant of the cells a layer holds -/

/-- every visible cell of the layer satisfies `P` -/
def CellsOK (P : Cell → Prop) (lines : List (List Cell)) : Prop :=
  ∀ line ∈ lines, ∀ c ∈ line, isVisible c = true → P c

theorem cellsOK_nil (P : Cell → Prop) : CellsOK P [] := by
  intro l hl; cases hl

theorem invisible_not_visible : isVisible Cell.invisible = false := by decide

theorem cellsOK_append_invisible (P : Cell → Prop) (lines : List (List Cell)) (k w : Nat) (h : CellsOK P lines) :
    CellsOK P (lines ++ List.replicate k (List.replicate w Cell.invisible)) := by
  intro l hl c hc hv
  rcases List.mem_append.mp hl with h1 | h1
  · exact h l h1 c hc hv
  · rw [List.eq_of_mem_replicate h1] at hc
    rw [List.eq_of_mem_replicate hc, invisible_not_visible] at hv
    cases hv

theorem mem_lineSet (row : List Cell) (x : Nat) (c d : Cell) (h : d ∈ lineSet row x c) :
    d = c ∨ d ∈ row ∨ d = Cell.invisible := by
  unfold lineSet at h
  have := List.mem_or_eq_of_mem_set h
  rcases this with h1 | h1
  · split at h1
    · rcases List.mem_append.mp h1 with h2 | h2
      · exact Or.inr (Or.inl h2)
      · exact Or.inr (Or.inr (List.eq_of_mem_replicate h2))
    · exact Or.inr (Or.inl h1)
  · exact Or.inl h1

theorem cellsOK_setChar (P : Cell → Prop) (b : LBuf) (x y : Nat) (c : Cell) (h : CellsOK P b.lines) (hc : isVisible c = true → P c) :
    CellsOK P (b.setChar x y c).lines := by
  unfold LBuf.setChar
  split
  · exact h
  · simp only
    generalize hls : (if y ≥ b.lines.length then b.lines ++ List.replicate (y + 1 - b.lines.length) (List.replicate b.lw Cell.invisible) else b.lines) = ls
    have hlsok : CellsOK P ls := by
      rw [← hls]
      split
      · exact cellsOK_append_invisible P _ _ _ h
      · exact h
    intro l hl d hd hv
    rcases List.mem_or_eq_of_mem_set hl with h1 | h1
    · exact hlsok l h1 d hd hv
    · subst h1
      rcases mem_lineSet _ _ _ _ hd with h2 | h2 | h2
      · subst h2; exact hc hv
      · have hrow : ls.getD y [] ∈ ls ∨ ls.getD y [] = [] := by
          rw [List.getD_eq_getElem?_getD]
          cases hg : ls[y]? with
          | none => right; rfl
          | some r => left; exact List.mem_of_getElem? hg
        rcases hrow with h3 | h3
        · exact hlsok _ h3 d h2 hv
        · rw [h3] at h2; cases h2
      · subst h2; rw [invisible_not_visible] at hv; cases hv

theorem placeCell_lines (P : Cell → Prop) (gl gb : Bool) (x0 xl : Nat) (s : LBuf × Nat × Nat) (c : Cell)
    (h : CellsOK P s.1.lines) (hc : isVisible c = true → P c) : CellsOK P (placeCell gl gb x0 xl s c).1.lines := by
  unfold placeCell
  simp only
  have key : CellsOK P ((if gb then ({ (if gl then ({ s.1 with lh := (s.2.2 : Int) + 1 } : LBuf) else s.1) with bh := (s.2.2 : Int) + 1 } : LBuf)
      else (if gl then ({ s.1 with lh := (s.2.2 : Int) + 1 } : LBuf) else s.1)).setChar s.2.1 s.2.2 c).lines := by
    apply cellsOK_setChar P _ _ _ _ _ hc
    cases gl <;> cases gb <;> exact h
  split <;> exact key

theorem placeAll_lines (P : Cell → Prop) (gl gb : Bool) (x0 xl : Nat) (cells : List Cell) :
    ∀ (b : LBuf) (x y : Nat), CellsOK P b.lines → (∀ c ∈ cells, isVisible c = true → P c) →
      CellsOK P (placeAll gl gb x0 xl b x y cells).1.lines := by
  induction cells with
  | nil => intro b x y h _; exact h
  | cons c cs ih =>
    intro b x y h hc
    unfold placeAll
    simp only [List.foldl_cons]
    have h1 := placeCell_lines P gl gb x0 xl (b, x, y) c h (hc c (by simp))
    have := ih (placeCell gl gb x0 xl (b, x, y) c).1 (placeCell gl gb x0 xl (b, x, y) c).2.1 (placeCell gl gb x0 xl (b, x, y) c).2.2 h1
      (fun d hd => hc d (by simp [hd]))
    unfold placeAll at this
    exact this

theorem mem_popEmpty (ls : List (List Cell)) (l : List Cell) (h : l ∈ popEmpty ls) : l ∈ ls := by
  unfold popEmpty at h
  split at h
  · cases h
  · rename_i last before hr
    have hsub : ∀ (r : List (List Cell)), ∀ l ∈ popEmpty.dropEmptyRev r, l ∈ r := by
      intro r
      induction r with
      | nil => intro l hl; simp [popEmpty.dropEmptyRev] at hl
      | cons a t ih =>
        intro l hl
        cases t with
        | nil => simpa [popEmpty.dropEmptyRev] using hl
        | cons a2 t2 =>
          unfold popEmpty.dropEmptyRev at hl
          split at hl
          · exact List.mem_cons_of_mem _ (ih l hl)
          · exact hl
    have := hsub _ l (by simpa using h)
    rw [← hr] at this
    simpa using this

theorem cellsOK_crop (P : Cell → Prop) (b : LBuf) (h : CellsOK P b.lines) : CellsOK P b.crop.lines := by
  intro l hl
  exact h l (mem_popEmpty _ _ hl)

/-! ## from the layer to the picture -/

theorem mem_rowCells (b : LBuf) (y : Nat) (c : Cell) (h : c ∈ b.rowCells y) :
    c = Cell.dflt ∨ c = Cell.invisible ∨ (isVisible c = true ∧ ∃ line ∈ b.lines, c ∈ line) := by
  unfold LBuf.rowCells at h
  split at h
  · rcases List.mem_append.mp h with h1 | h1
    · obtain ⟨d, hd, rfl⟩ := List.mem_map.mp h1
      by_cases hv : isVisible d = true
      · rw [if_pos hv]
        rcases List.mem_append.mp hd with h2 | h2
        · right; right
          refine ⟨hv, b.lines.getD y [], ?_, List.mem_of_mem_take h2⟩
          rw [List.getD_eq_getElem?_getD]
          cases hg : b.lines[y]? with
          | none => rw [List.getD_eq_getElem?_getD, hg] at h2; simp at h2
          | some r => exact List.mem_of_getElem? hg
        · rw [List.eq_of_mem_replicate h2, invisible_not_visible] at hv; cases hv
      · simp only [hv, Bool.false_eq_true, if_false]; left; trivial
    · right; left; exact List.eq_of_mem_replicate h1
  · right; left; exact List.eq_of_mem_replicate h

/-- every cell of the picture satisfies `Q` when the layer's visible cells do, and the default and invisible cells do -/
theorem allCells_toPic (P : Cell → Prop) (Q : Cell → Bool) (b : LBuf) (h : CellsOK P b.lines)
    (hPQ : ∀ c, isVisible c = true → P c → Q c = true) (hd : Q Cell.dflt = true) (hi : Q Cell.invisible = true) :
    allCells b.toPic Q = true := by
  unfold allCells
  apply List.all_eq_true.mpr
  intro r hr
  apply List.all_eq_true.mpr
  intro c hc
  simp only [LBuf.toPic, List.mem_map, List.mem_range] at hr
  obtain ⟨y, _, rfl⟩ := hr
  rcases mem_rowCells b y c hc with h1 | h1 | ⟨hv, line, hl, hcl⟩
  · rw [h1]; exact hd
  · rw [h1]; exact hi
  · exact hPQ c hv (h line hl c hcl hv)

/-- the same for Tundra-like buffers whose picture lies inside the layer: no invisible cell shows -/
theorem mem_rowCells_inside (b : LBuf) (y : Nat) (c : Cell) (h : c ∈ b.rowCells y) (hw : b.bw ≤ b.lw) (hy : (y : Int) < b.lh) :
    c = Cell.dflt ∨ (isVisible c = true ∧ ∃ line ∈ b.lines, c ∈ line) := by
  unfold LBuf.rowCells at h
  simp only [hy, if_true] at h
  have hmin : min b.bw b.lw = b.bw := Nat.min_eq_left hw
  rw [hmin, Nat.sub_self, List.replicate_zero, List.append_nil] at h
  obtain ⟨d, hd, rfl⟩ := List.mem_map.mp h
  by_cases hv : isVisible d = true
  · rw [if_pos hv]
    rcases List.mem_append.mp hd with h2 | h2
    · right
      refine ⟨hv, b.lines.getD y [], ?_, List.mem_of_mem_take h2⟩
      rw [List.getD_eq_getElem?_getD]
      cases hg : b.lines[y]? with
      | none => rw [List.getD_eq_getElem?_getD, hg] at h2; simp at h2
      | some r => exact List.mem_of_getElem? hg
    · rw [List.eq_of_mem_replicate h2, invisible_not_visible] at hv; cases hv
  · simp only [hv, Bool.false_eq_true, if_false]; left; trivial

/-! ## font pages in use -/

theorem usage_fold_zero (cells : List Cell) (h : ∀ c ∈ cells, c.attr.page = 0) :
    ∀ acc, (acc = [] ∨ acc = [0]) →
      (cells.foldl (fun acc c => insertSorted c.attr.page acc) acc = [] ∧ cells = [] ∧ acc = []) ∨
      cells.foldl (fun acc c => insertSorted c.attr.page acc) acc = [0] := by
  induction cells with
  | nil =>
    intro acc hacc
    rcases hacc with h1 | h1
    · left; exact ⟨by simp [h1], rfl, h1⟩
    · right; simp [h1]
  | cons c cs ih =>
    intro acc hacc
    have hp : c.attr.page = 0 := h c (by simp)
    simp only [List.foldl_cons, hp]
    have hstep : insertSorted 0 acc = [0] := by
      rcases hacc with h1 | h1 <;> rw [h1] <;> decide
    rw [hstep]
    rcases ih (fun d hd => h d (by simp [hd])) [0] (Or.inr rfl) with ⟨_, _, h3⟩ | h2
    · cases h3
    · right; exact h2

/-- all cells on page 0, at least one cell: `analyze_font_usage = [0]` -/
theorem usage_zero (cells : List Cell) (hne : cells ≠ []) (h : ∀ c ∈ cells, c.attr.page = 0) : analyzeFontUsage cells = [0] := by
  unfold analyzeFontUsage
  rcases usage_fold_zero cells h [] (Or.inl rfl) with ⟨_, h2, _⟩ | h2
  · exact absurd h2 hne
  · exact h2

theorem toPic_flatten_ne (b : LBuf) (hh : 1 ≤ b.bh) (hw : 1 ≤ b.bw) : b.toPic.rows.flatten ≠ [] := by
  intro he
  have hlen : b.toPic.rows.flatten.length = 0 := by rw [he]; rfl
  have hr0 : b.rowCells 0 ∈ b.toPic.rows := by
    simp only [LBuf.toPic, List.mem_map, List.mem_range]
    exact ⟨0, by omega, rfl⟩
  have : (b.rowCells 0).length ≤ b.toPic.rows.flatten.length := by
    obtain ⟨s, t, hst⟩ := List.append_of_mem hr0
    rw [hst]
    simp only [List.flatten_append, List.flatten_cons, List.length_append]
    omega
  rw [rowCells_length] at this
  omega

theorem mem_toPic_flatten (b : LBuf) (c : Cell) (h : c ∈ b.toPic.rows.flatten) : ∃ y, c ∈ b.rowCells y := by
  obtain ⟨r, hr, hc⟩ := List.mem_flatten.mp h
  simp only [LBuf.toPic, List.mem_map, List.mem_range] at hr
  obtain ⟨y, _, rfl⟩ := hr
  exact ⟨y, hc⟩

/-- a picture all of whose layer cells use page 0 uses page 0 only -/
theorem toPic_usage_zero (b : LBuf) (hh : 1 ≤ b.bh) (hw : 1 ≤ b.bw) (h : CellsOK (fun c => c.attr.page = 0) b.lines) :
    analyzeFontUsage b.toPic.rows.flatten = [0] := by
  apply usage_zero _ (toPic_flatten_ne b hh hw)
  intro c hc
  obtain ⟨y, hy⟩ := mem_toPic_flatten b c hc
  rcases mem_rowCells b y c hy with h1 | h1 | ⟨hv, line, hl, hcl⟩
  · rw [h1]; rfl
  · rw [h1]; rfl
  · exact h line hl c hcl hv

/-! ## the SAUCE data a loaded buffer keeps -/

theorem readLoop_length (pad : Nat) : ∀ (n i : Nat) (rest acc : List Nat) (last : Nat) (r : List Nat × Nat),
    Sauce.readLoop pad n i rest acc last = .ok r → r.1.length ≤ acc.length + n := by
  intro n
  induction n with
  | zero =>
    intro i rest acc last r h
    simp only [Sauce.readLoop] at h
    have := Sauce.Res.ok.inj h
    rw [← this]; simp
  | succ n ih =>
    intro i rest acc last r h
    cases rest with
    | nil => simp [Sauce.readLoop] at h
    | cons b rest =>
      simp only [Sauce.readLoop] at h
      split at h
      · have := Sauce.Res.ok.inj h
        rw [← this]; simp
      · have := ih _ _ _ _ _ h
        simp only [List.length_append, List.length_cons, List.length_nil] at this
        omega

theorem strRead_length (len pad : Nat) (d s : List Nat) (h : Sauce.strRead len pad d = .ok s) : s.length ≤ len := by
  unfold Sauce.strRead at h
  split at h
  · rename_i acc last heq
    have hl := readLoop_length pad len 0 d [] len (acc, last) heq
    have := Sauce.Res.ok.inj h
    rw [← this]
    simp only [List.length_nil, Nat.zero_add] at hl
    split
    · rw [List.length_take]; omega
    · exact hl
  · cases h
  · cases h

end IcyVerif.BinFormats

namespace IcyVerif.BinFormats
open IcyVerif.XbCompress IcyVerif.Gen

theorem readAt_length (len pad : Nat) (data : List Nat) (o : Nat) (s : List Nat) (h : Sauce.readAt len pad data o = .ok s) :
    s.length ≤ len := by
  unfold Sauce.readAt at h
  obtain ⟨d, _, h2⟩ := Sauce.bind_eq_ok h
  exact strRead_length len pad d s h2

theorem idx_mem (d : List Nat) (i b : Nat) (h : Sauce.idx d i = .ok b) : b ∈ d := by
  unfold Sauce.idx at h
  split at h
  · rename_i v hv
    have := Sauce.Res.ok.inj h
    rw [← this]
    exact List.mem_of_getElem? hv
  · cases h

theorem readComments_ok (data : List Nat) : ∀ (n o : Nat) (acc r : List (List Nat)),
    Sauce.readComments data n o acc = .ok r → (∀ c ∈ acc, c.length ≤ Gen.Sauce.commentLen) →
      (∀ c ∈ r, c.length ≤ Gen.Sauce.commentLen) ∧ r.length = acc.length + n := by
  intro n
  induction n with
  | zero =>
    intro o acc r h hacc
    simp only [Sauce.readComments] at h
    have := Sauce.Res.ok.inj h
    rw [← this]
    exact ⟨hacc, rfl⟩
  | succ n ih =>
    intro o acc r h hacc
    simp only [Sauce.readComments] at h
    obtain ⟨c, hc, h2⟩ := Sauce.bind_eq_ok h
    have hl := readAt_length _ _ _ _ _ hc
    obtain ⟨h3, h4⟩ := ih _ _ _ h2 (by
      intro c' hc'
      rcases List.mem_append.mp hc' with h5 | h5
      · exact hacc c' h5
      · simp only [List.mem_cons, List.not_mem_nil, or_false] at h5; rw [h5]; exact hl)
    refine ⟨h3, ?_⟩
    rw [h4]; simp only [List.length_append, List.length_cons, List.length_nil]; omega

theorem commentPart_ok (data : List Nat) (nc : Nat) (cs : List (List Nat)) (len : Nat)
    (h : Sauce.commentPart data nc = .ok (cs, len)) : (∀ c ∈ cs, c.length ≤ Gen.Sauce.commentLen) ∧ cs.length = nc := by
  simp only [Sauce.commentPart] at h
  split at h
  · obtain ⟨avail, _, h⟩ := Sauce.bind_eq_ok h
    split at h
    · cases h
    obtain ⟨x, _, h⟩ := Sauce.bind_eq_ok h
    obtain ⟨st, _, h⟩ := Sauce.bind_eq_ok h
    obtain ⟨id, _, h⟩ := Sauce.bind_eq_ok h
    split at h
    · cases h
    obtain ⟨cs', hcs, h⟩ := Sauce.bind_eq_ok h
    have := Sauce.Res.ok.inj h
    have e : cs' = cs := congrArg Prod.fst this
    subst e
    have := readComments_ok data nc _ [] cs' hcs (by intro c hc; cases hc)
    simpa using this
  · rename_i hnc
    obtain ⟨l, _, h⟩ := Sauce.bind_eq_ok h
    have := Sauce.Res.ok.inj h
    have e : ([] : List (List Nat)) = cs := congrArg Prod.fst this
    subst e
    refine ⟨fun c hc => absurd hc (by simp), ?_⟩
    simp only [List.length_nil]; omega

theorem parseHeader_ok (dateOk : List Nat → Bool) (data : List Nat) (o0 : Nat) (h : Sauce.Header)
    (hp : Sauce.parseHeader dateOk data o0 = .ok (some h)) :
    h.title.length ≤ Gen.Sauce.titleLen ∧ h.author.length ≤ Gen.Sauce.authorLen ∧ h.group.length ≤ Gen.Sauce.groupLen ∧
      h.nComments ∈ data ∧ ((∀ b ∈ data, b < 256) → h.t1 < 65536) := by
  unfold Sauce.parseHeader at hp
  obtain ⟨id, _, hp⟩ := Sauce.bind_eq_ok hp
  split at hp
  · cases hp
  obtain ⟨ver, _, hp⟩ := Sauce.bind_eq_ok hp
  split at hp
  · cases hp
  obtain ⟨title, ht, hp⟩ := Sauce.bind_eq_ok hp
  obtain ⟨author, ha, hp⟩ := Sauce.bind_eq_ok hp
  obtain ⟨group, hg, hp⟩ := Sauce.bind_eq_ok hp
  obtain ⟨date, _, hp⟩ := Sauce.bind_eq_ok hp
  split at hp
  · cases hp
  obtain ⟨dataType, _, hp⟩ := Sauce.bind_eq_ok hp
  obtain ⟨fileType, _, hp⟩ := Sauce.bind_eq_ok hp
  obtain ⟨t1, ht1, hp⟩ := Sauce.bind_eq_ok hp
  obtain ⟨t2, _, hp⟩ := Sauce.bind_eq_ok hp
  obtain ⟨nComments, hn, hp⟩ := Sauce.bind_eq_ok hp
  obtain ⟨flags, _, hp⟩ := Sauce.bind_eq_ok hp
  obtain ⟨tinfo, _, hp⟩ := Sauce.bind_eq_ok hp
  dsimp only at hp
  split at hp
  · cases hp
  have := Option.some.inj (Sauce.Res.ok.inj hp)
  rw [← this]
  refine ⟨readAt_length _ _ _ _ _ ht, readAt_length _ _ _ _ _ ha, readAt_length _ _ _ _ _ hg, idx_mem _ _ _ hn, ?_⟩
  intro hb
  unfold Sauce.rd16 at ht1
  obtain ⟨lo, hlo, ht1⟩ := Sauce.bind_eq_ok ht1
  obtain ⟨hi, hhi, ht1⟩ := Sauce.bind_eq_ok ht1
  have := Sauce.Res.ok.inj ht1
  have h1 := hb _ (idx_mem _ _ _ hlo)
  have h2 := hb _ (idx_mem _ _ _ hhi)
  show t1 < 65536
  omega

/-- the SAUCE data `extract` returns fits `metaOk` (bytes are bytes) -/
theorem metaOk_extract (data : List Nat) (hb : ∀ b ∈ data, b < 256) (s : Sauce.Sauce)
    (h : Sauce.extract dateOk data = .ok (some s)) : metaOk (some (metaOf s)) = true := by
  simp only [Sauce.extract] at h
  split at h
  · cases h
  obtain ⟨o0, _, h⟩ := Sauce.bind_eq_ok h
  obtain ⟨oh, hph, h⟩ := Sauce.bind_eq_ok h
  cases oh with
  | none => cases h
  | some hd =>
    obtain ⟨r, hr, h⟩ := Sauce.bind_eq_ok h
    obtain ⟨hl, _, h⟩ := Sauce.bind_eq_ok h
    have hs := Option.some.inj (Sauce.Res.ok.inj h)
    obtain ⟨h1, h2, h3, h4, _⟩ := parseHeader_ok dateOk data o0 hd hph
    obtain ⟨h5, h6⟩ := commentPart_ok data hd.nComments r.1 r.2 (by simpa using hr)
    have h7 := hb _ h4
    rw [← hs]
    unfold metaOk metaOf Sauce.interpret
    simp only [Bool.and_eq_true, decide_eq_true_eq, List.all_eq_true]
    have hcl : Gen.Sauce.commentLimit = 255 := rfl
    exact ⟨⟨⟨⟨h1, h2⟩, h3⟩, h5⟩, by rw [h6, hcl]; omega⟩

/-- … so the buffer a loader returns keeps SAUCE data that the writer accepts -/
theorem metaOk_split (bytes : List Nat) (hb : ∀ b ∈ bytes, b < 256) (content : List Nat) (s : Option Sauce.Sauce)
    (h : Sauce.fromBytesSplit dateOk bytes = .ok (content, s)) :
    metaOk (s.map metaOf) = true ∧ (∀ b ∈ content, b < 256) := by
  unfold Sauce.fromBytesSplit at h
  cases hx : Sauce.extract dateOk bytes with
  | ok o =>
    rw [hx] at h
    cases o with
    | none =>
      simp only at h
      obtain ⟨c, hc, h⟩ := Sauce.bind_eq_ok h
      have := Sauce.Res.ok.inj h
      have e1 : c = content := congrArg Prod.fst this
      have e2 : none = s := congrArg Prod.snd this
      subst e1 e2
      refine ⟨rfl, ?_⟩
      unfold Sauce.slice at hc
      split at hc
      · have := Sauce.Res.ok.inj hc
        rw [← this]
        intro b hbm
        exact hb b (List.mem_of_mem_drop (List.mem_of_mem_take hbm))
      · cases hc
    | some s' =>
      simp only at h
      obtain ⟨len, _, h⟩ := Sauce.bind_eq_ok h
      obtain ⟨c, hc, h⟩ := Sauce.bind_eq_ok h
      have := Sauce.Res.ok.inj h
      have e1 : c = content := congrArg Prod.fst this
      have e2 : some s' = s := congrArg Prod.snd this
      subst e1 e2
      refine ⟨metaOk_extract bytes hb s' hx, ?_⟩
      unfold Sauce.slice at hc
      split at hc
      · have := Sauce.Res.ok.inj hc
        rw [← this]
        intro b hbm
        exact hb b (List.mem_of_mem_drop (List.mem_of_mem_take hbm))
      · cases hc
  | err e =>
    rw [hx] at h
    simp only at h
    obtain ⟨c, hc, h⟩ := Sauce.bind_eq_ok h
    have := Sauce.Res.ok.inj h
    have e1 : c = content := congrArg Prod.fst this
    have e2 : none = s := congrArg Prod.snd this
    subst e1 e2
    refine ⟨rfl, ?_⟩
    unfold Sauce.slice at hc
    split at hc
    · have := Sauce.Res.ok.inj hc
      rw [← this]
      intro b hbm
      exact hb b (List.mem_of_mem_drop (List.mem_of_mem_take hbm))
    · cases hc
  | panic site => rw [hx] at h; cases h

/-- the width a SAUCE record announces is a 16-bit value -/
theorem sauce_width_lt (data : List Nat) (hb : ∀ b ∈ data, b < 256) (s : Sauce.Sauce)
    (h : Sauce.extract dateOk data = .ok (some s)) : s.width < 65536 := by
  simp only [Sauce.extract] at h
  split at h
  · cases h
  obtain ⟨o0, _, h⟩ := Sauce.bind_eq_ok h
  obtain ⟨oh, hph, h⟩ := Sauce.bind_eq_ok h
  cases oh with
  | none => cases h
  | some hd =>
    obtain ⟨r, hr, h⟩ := Sauce.bind_eq_ok h
    obtain ⟨hl, _, h⟩ := Sauce.bind_eq_ok h
    have hs := Option.some.inj (Sauce.Res.ok.inj h)
    obtain ⟨_, _, _, _, h5⟩ := parseHeader_ok dateOk data o0 hd hph
    have ht1 := h5 hb
    rw [← hs]
    have key : ∀ (c1 c2 : Prop) [Decidable c1] [Decidable c2],
        (if c1 then hd.t1 else if c2 then hd.fileType * 2 % 65536 else Gen.Sauce.readerDefaultWidth) < 65536 := by
      intro c1 c2 _ _
      have : Gen.Sauce.readerDefaultWidth = 80 := rfl
      split
      · exact ht1
      · split <;> omega
    exact key _ _

theorem split_width (bytes : List Nat) (hb : ∀ b ∈ bytes, b < 256) (content : List Nat) (s : Option Sauce.Sauce)
    (h : Sauce.fromBytesSplit dateOk bytes = .ok (content, s)) : ∀ s', s = some s' → s'.width < 65536 := by
  intro s' hs'
  subst hs'
  unfold Sauce.fromBytesSplit at h
  cases hx : Sauce.extract dateOk bytes with
  | ok o =>
    rw [hx] at h
    cases o with
    | none =>
      simp only at h
      obtain ⟨c, _, h⟩ := Sauce.bind_eq_ok h
      have := congrArg Prod.snd (Sauce.Res.ok.inj h)
      cases this
    | some s'' =>
      simp only at h
      obtain ⟨len, _, h⟩ := Sauce.bind_eq_ok h
      obtain ⟨c, _, h⟩ := Sauce.bind_eq_ok h
      have := congrArg Prod.snd (Sauce.Res.ok.inj h)
      simp only at this
      rw [← Option.some.inj this]
      exact sauce_width_lt bytes hb s'' hx
  | err e =>
    rw [hx] at h
    simp only at h
    obtain ⟨c, _, h⟩ := Sauce.bind_eq_ok h
    have := congrArg Prod.snd (Sauce.Res.ok.inj h)
    cases this
  | panic site => rw [hx] at h; cases h

end IcyVerif.BinFormats
