import IcyVerif.Lemmas.ArtAnsiTrim
/-! # The compressing ANSI writer, row by row (C04, third theorem): trimming, line breaks, state threading -/
set_option linter.unusedSimpArgs false
namespace IcyVerif.ArtIO
open IcyVerif.Gen.Art

/-- the rows of a picture next to the item rows the reader performs for them -/
inductive RowsOk (o : AnsiOpts) (w : Nat) : List (List Cell) → List (List (Option Cell)) → Prop
  | nil : RowsOk o w [] []
  | cons (row : List Cell) (items : List (Option Cell)) (rows : List (List Cell)) (irows : List (List (Option Cell))) :
      items.length = ansiRowLen o dosPalette w row → ItemsOk 0 w (row.take (ansiRowLen o dosPalette w row)) items → RowsOk o w rows irows →
      RowsOk o w (row :: rows) (items :: irows)

theorem RowsOk.length_eq {o : AnsiOpts} {w : Nat} {rows : List (List Cell)} {irows : List (List (Option Cell))}
    (h : RowsOk o w rows irows) : irows.length = rows.length := by
  induction h with
  | nil => rfl
  | cons _ _ _ _ _ _ _ ih => simp [ih]

theorem RowsOk.get {o : AnsiOpts} {w : Nat} {rows : List (List Cell)} {irows : List (List (Option Cell))}
    (h : RowsOk o w rows irows) : ∀ y, y < rows.length →
      (irows.getD y []).length = ansiRowLen o dosPalette w (rows.getD y []) ∧
      ItemsOk 0 w ((rows.getD y []).take (ansiRowLen o dosPalette w (rows.getD y []))) (irows.getD y []) := by
  induction h with
  | nil => intro y hy; simp at hy
  | cons row items rows irows h1 h2 _ ih =>
    intro y hy
    cases y with
    | zero => exact ⟨by simpa using h1, by simpa using h2⟩
    | succ y' => simpa using ih y' (by simp at hy; omega)

theorem itemsOk_skips {x w : Nat} {cells : List Cell} {items : List (Option Cell)} (hl : items.length = cells.length)
    (h : ItemsOk x w cells items) : ∀ i, i < items.length → items.getD i none = none → x + i + 1 < w := by
  intro i hi hn
  rcases h i (by omega) with h' | ⟨_, _, h3⟩
  · rw [hn] at h'; cases h'
  · exact h3

theorem RowsOk.fits {o : AnsiOpts} {w : Nat} (hw : 0 < w) {rows : List (List Cell)} {irows : List (List (Option Cell))}
    (h : RowsOk o w rows irows) (hfull : ∀ r ∈ rows, r.length = w) :
    ∀ r ∈ irows, r.length ≤ w ∧ RowSkipsInside w r := by
  induction h with
  | nil => intro r hr; cases hr
  | cons row items rows irows h1 h2 _ ih =>
    intro r hr
    rcases List.mem_cons.1 hr with e | hm
    · subst e
      obtain ⟨l1, l2, _⟩ := ansiRowLen_spec o w hw row
      have hrow : row.length = w := hfull row List.mem_cons_self
      have htl : (row.take (ansiRowLen o dosPalette w row)).length = ansiRowLen o dosPalette w row := by simp; omega
      refine ⟨by omega, ?_⟩
      intro i hi hn
      have := itemsOk_skips (by rw [htl]; exact h1) h2 i hi hn
      omega
    · exact ih (fun q hq => hfull q (List.mem_cons_of_mem _ hq)) r hm

theorem ansiRun_crlf (p : AnsiP) (core : Core) (hs : core.stuck = false) (hg : p.st = .ground) :
    ansiRun p core [13, 10] = (p, { core with scr := core.scr.exec Op.nl }) := by
  rw [ansiRun_cons, ansiStep_cr p core hs hg]
  simp only []
  rw [ansiRun_cons, ansiStep_lf p { core with scr := core.scr.cr } hs hg, ansiRun_nil]
  rfl

/-- all rows of the compressing writer: the reader performs the item rows -/
theorem rows_comp (o : AnsiOpts) (im : IceMode) (ic : Bool) (hic : ic = decide (im = .ice)) (w ht : Nat) (hw0 : 0 < w) (hw : w ≤ 999)
    (hl : o.longerTerminalOutput = false) : ∀ (rows : List (List Cell)) (st : AnsiState) (A : Attr) (y : Nat) (first : Bool)
    (p : AnsiP) (core : Core),
    (∀ r ∈ rows, r.length = w) → (∀ r ∈ rows, ∀ c ∈ r, CellDom o ic c) → RelS ic st.isBlink st A → CInv ic A w p core →
    (rows ≠ [] → core.scr.cx = 0) → y + rows.length = ht →
    ∃ irows, RowsOk o w rows irows ∧
      (ansiRun p core (genLines o w ht (genCells o dosPalette im w rows st) y first)).2.scr = picItems w irows core.scr ∧
      (ansiRun p core (genLines o w ht (genCells o dosPalette im w rows st) y first)).2.stuck = false ∧
      (ansiRun p core (genLines o w ht (genCells o dosPalette im w rows st) y first)).1.st = .ground := by
  intro rows
  induction rows with
  | nil =>
    intro st A y first p core _ _ _ hinv _ _
    exact ⟨[], RowsOk.nil, rfl, hinv.ns, hinv.ag⟩
  | cons row rest ih =>
    intro st A y first p core hfull hd hrel hinv hcx hy
    have hrow : row.length = w := hfull row List.mem_cons_self
    obtain ⟨l1, l2, l3⟩ := ansiRowLen_spec o w hw0 row
    have htl : (row.take (ansiRowLen o dosPalette w row)).length = ansiRowLen o dosPalette w row := by simp; omega
    obtain ⟨G1, G2⟩ := lineOk_gen o im ic hic row (hd row List.mem_cons_self) (ansiRowLen o dosPalette w row) 0 st A (by omega) hrel
    unfold genCells
    generalize hg : genCellsRow o dosPalette im row (ansiRowLen o dosPalette w row) 0 st = res at G1 G2
    obtain ⟨line, st1⟩ := res
    simp only [List.drop_zero] at G1 G2 ⊢
    have hll : line.length = ansiRowLen o dosPalette w row := by rw [G1.length_eq, htl]
    have hx0 : core.scr.cx = 0 := hcx (by simp)
    obtain ⟨items, I1, I2, I3, I4⟩ := genLine_items o ic w hw line.length (row.take (ansiRowLen o dosPalette w row)) line A 0 p core (Nat.le_refl _) G1
      (by rw [htl]; omega) hinv (fun _ => hx0)
    have hil : items.length = ansiRowLen o dosPalette w row := by rw [I1, htl]
    unfold genLines
    simp only [hl, Bool.false_eq_true, if_false, List.nil_append, Bool.not_false, true_and]
    -- the row's own screen effect, as `rowItems`
    have hsk : RowSkipsInside w items := by
      intro i hi hn
      have := itemsOk_skips (by rw [I1]) I2 i hi hn
      omega
    have hmore : (y + 1 < ht) ↔ (!rest.isEmpty) = true := by
      cases rest with
      | nil => simp at hy ⊢; omega
      | cons a b => simp at hy ⊢; omega
    have hrowscr : ∃ p2 core2, ansiRun p core (genLine o w line.length 0 line ++
          (if line.length < w ∧ y + 1 < ht then (if o.compress = true ∧ w ≤ line.length + 1 then [32] else [13, 10]) else [])) = (p2, core2) ∧
        core2.scr = rowItems w items (!rest.isEmpty) core.scr ∧ CInv ic (lastAttr ic A (row.take (ansiRowLen o dosPalette w row))) w p2 core2 := by
      rw [ansiRun_append]
      generalize hr : ansiRun p core (genLine o w line.length 0 line) = res at I3 I4
      obtain ⟨p1, core1⟩ := res
      simp only [] at I3 I4 ⊢
      unfold rowItems
      by_cases hshort : line.length < w ∧ y + 1 < ht
      · rw [if_pos hshort]
        have hnot : ¬ (o.compress = true ∧ w ≤ line.length + 1) := by
          intro ⟨_, h2⟩
          rcases l3 with e | ⟨e, _⟩ <;> omega
        rw [if_neg hnot, ansiRun_crlf p1 core1 I4.ns I4.ag]
        have hc : items.length < w ∧ (!rest.isEmpty) = true := ⟨by omega, hmore.1 hshort.2⟩
        rw [if_pos hc]
        refine ⟨_, _, rfl, by show core1.scr.exec Op.nl = _; rw [I3], ?_⟩
        exact ⟨I4.ns, I4.ag, I4.ice, I4.attr, by show (core1.scr.exec Op.nl).w = w; rw [exec_w]; exact I4.sw, I4.th⟩
      · rw [if_neg hshort, ansiRun_nil]
        have hc : ¬ (items.length < w ∧ (!rest.isEmpty) = true) := by
          intro ⟨h1, h2⟩; exact hshort ⟨by omega, hmore.2 h2⟩
        rw [if_neg hc]
        exact ⟨_, _, rfl, I3, I4⟩
    obtain ⟨p2, core2, e2, s2, inv2⟩ := hrowscr
    rw [ansiRun_append, e2]
    simp only []
    -- the caret is in column 0 of the next row when another row follows
    have hsw : core.scr.w = w := hinv.sw
    have R := rowItems_spec core.scr items (!rest.isEmpty) hx0 (by rw [hsw]; exact hw0) (by rw [hsw]; omega)
      (by rw [hsw]; omega) (by rw [hsw]; exact hsk)
    rw [hsw] at R
    have hcx2 : rest ≠ [] → core2.scr.cx = 0 := by
      intro hne
      rw [s2]
      have : (!rest.isEmpty) = true := by cases rest <;> simp_all
      exact (R.pos this).1
    obtain ⟨irows, J1, J2, J3, J4⟩ := ih st1 (lastAttr ic A (row.take (ansiRowLen o dosPalette w row))) (y + 1) false p2 core2
      (fun r hr => hfull r (List.mem_cons_of_mem _ hr)) (fun r hr => hd r (List.mem_cons_of_mem _ hr)) G2 inv2 hcx2
      (by simp at hy; omega)
    refine ⟨items :: irows, RowsOk.cons row items rest irows hil I2 J1, ?_, J3, J4⟩
    rw [J2, s2]
    have hemp : irows.isEmpty = rest.isEmpty := by
      have := J1.length_eq
      cases irows <;> cases rest <;> simp_all
    show _ = picItems w irows (rowItems w items (!irows.isEmpty) core.scr)
    rw [hemp]

/-! ### longer-terminal output: every row is positioned with `CSI y H`, no line breaks -/

theorem ansiRun_cupRow (p : AnsiP) (core : Core) (y : Nat) (hs : core.stuck = false) (hg : p.st = .ground) (hy : y + 1 < 1000) :
    ansiRun p core (csi [y + 1] 72) = ({ p with st := .ground }, { core with scr := core.scr.gotoRow y }) := by
  rw [csi_read p core [y + 1] 72 hs hg (by simp) (by intro n hn; simp at hn; omega)]
  simp [ansiStep, hs, cup, Screen.limit, Screen.gotoRow]

theorem ansiRun_sgr0 (p : AnsiP) (core : Core) (hs : core.stuck = false) (hg : p.st = .ground) :
    ansiRun p core (csi [0] 109) = ({ p with st := .ground }, sgr core [0]) := by
  rw [csi_read p core [0] 109 hs hg (by simp) (by intro n hn; simp at hn; omega)]
  simp [ansiStep, hs]

theorem head_read (ic : Bool) (A : Attr) (w : Nat) (p : AnsiP) (core : Core) (y : Nat) (first : Bool) (hinv : CInv ic A w p core)
    (hA : first = true → A = defaultAttr) (hy : y + 1 < 1000) :
    ∃ p1 core1, ansiRun p core ((if first = true then csi [0] 109 else []) ++ csi [y + 1] 72) = (p1, core1) ∧
      core1.scr = core.scr.gotoRow y ∧ CInv ic A w p1 core1 := by
  rw [ansiRun_append]
  cases first with
  | false =>
    simp only [Bool.false_eq_true, if_false, ansiRun_nil]
    rw [ansiRun_cupRow p core y hinv.ns hinv.ag hy]
    exact ⟨_, _, rfl, rfl, hinv.ns, rfl, hinv.ice, hinv.attr, hinv.sw, hinv.th⟩
  | true =>
    simp only [if_true]
    rw [ansiRun_sgr0 p core hinv.ns hinv.ag]
    have ha : core.attr = defaultAttr := by rw [hinv.attr]; exact hA rfl
    have e : sgr core [0] = { core with attr := defaultAttr } := by
      simp [sgr, sgrLoop, sgrOne]
    rw [e]
    simp only []
    have hc := ansiRun_cupRow { p with st := .ground } { core with attr := defaultAttr } y hinv.ns rfl hy
    rw [hc]
    exact ⟨_, _, rfl, rfl, hinv.ns, rfl, hinv.ice, (hA rfl).symm, hinv.sw, hinv.th⟩

/-- all rows in longer-terminal mode: the reader performs the item rows, each at column 0 of its own row -/
theorem rows_longer (o : AnsiOpts) (im : IceMode) (ic : Bool) (hic : ic = decide (im = .ice)) (w ht : Nat) (hw0 : 0 < w) (hw : w ≤ 999)
    (hht : ht ≤ 999) (hl : o.longerTerminalOutput = true) : ∀ (rows : List (List Cell)) (st : AnsiState) (A : Attr) (y : Nat) (first : Bool)
    (p : AnsiP) (core : Core),
    (∀ r ∈ rows, r.length = w) → (∀ r ∈ rows, ∀ c ∈ r, CellDom o ic c) → RelS ic st.isBlink st A → CInv ic A w p core →
    (first = true → A = defaultAttr) → y + rows.length = ht →
    ∃ irows, RowsOk o w rows irows ∧
      (ansiRun p core (genLines o w ht (genCells o dosPalette im w rows st) y first)).2.scr = picItemsL irows y core.scr ∧
      (ansiRun p core (genLines o w ht (genCells o dosPalette im w rows st) y first)).2.stuck = false ∧
      (ansiRun p core (genLines o w ht (genCells o dosPalette im w rows st) y first)).1.st = .ground := by
  intro rows
  induction rows with
  | nil =>
    intro st A y first p core _ _ _ hinv _ _
    exact ⟨[], RowsOk.nil, rfl, hinv.ns, hinv.ag⟩
  | cons row rest ih =>
    intro st A y first p core hfull hd hrel hinv hA hy
    have hrow : row.length = w := hfull row List.mem_cons_self
    obtain ⟨l1, l2, l3⟩ := ansiRowLen_spec o w hw0 row
    have htl : (row.take (ansiRowLen o dosPalette w row)).length = ansiRowLen o dosPalette w row := by simp; omega
    obtain ⟨G1, G2⟩ := lineOk_gen o im ic hic row (hd row List.mem_cons_self) (ansiRowLen o dosPalette w row) 0 st A (by omega) hrel
    unfold genCells
    generalize hg : genCellsRow o dosPalette im row (ansiRowLen o dosPalette w row) 0 st = res at G1 G2
    obtain ⟨line, st1⟩ := res
    simp only [List.drop_zero] at G1 G2 ⊢
    have hll : line.length = ansiRowLen o dosPalette w row := by rw [G1.length_eq, htl]
    have hylt : y + 1 < 1000 := by simp at hy; omega
    obtain ⟨p1, core1, e1, s1, inv1⟩ := head_read ic A w p core y first hinv hA hylt
    have hx0 : core1.scr.cx = 0 := by rw [s1]; rfl
    obtain ⟨items, I1, I2, I3, I4⟩ := genLine_items o ic w hw line.length (row.take (ansiRowLen o dosPalette w row)) line A 0 p1 core1 (Nat.le_refl _) G1
      (by rw [htl]; omega) inv1 (fun _ => hx0)
    have hil : items.length = ansiRowLen o dosPalette w row := by rw [I1, htl]
    unfold genLines
    simp only [hl, if_true, Bool.not_true, Bool.false_eq_true, false_and, if_false, List.append_nil]
    rw [List.append_assoc, ansiRun_append, e1]
    simp only []
    rw [ansiRun_append]
    generalize hr : ansiRun p1 core1 (genLine o w line.length 0 line) = res at I3 I4
    obtain ⟨p2, core2⟩ := res
    simp only [] at I3 I4 ⊢
    obtain ⟨irows, J1, J2, J3, J4⟩ := ih st1 (lastAttr ic A (row.take (ansiRowLen o dosPalette w row))) (y + 1) false p2 core2
      (fun r hr => hfull r (List.mem_cons_of_mem _ hr)) (fun r hr => hd r (List.mem_cons_of_mem _ hr)) G2 I4 (fun h => by cases h)
      (by simp at hy; omega)
    refine ⟨items :: irows, RowsOk.cons row items rest irows hil I2 J1, ?_, J3, J4⟩
    rw [J2, I3, s1]
    rfl

/-- what the layer shows after the item rows, per cell -/
def itemsShown (irows : List (List (Option Cell))) (x y : Nat) : Cell :=
  if y < irows.length ∧ x < (irows.getD y []).length then itemShown ((irows.getD y []).getD x none) defaultCell else defaultCell

/-- from the reader's final screen to the loaded picture, without any assumption on which rows are empty: a loaded cell
    is the bold-folded shown cell, or it lies below the cropped height and then nothing but a default blank was there -/
theorem finish_view (f : Fmt) (hf : f ≠ .atascii) (rs : RS) (w : Nat) (irows : List (List (Option Cell)))
    (hsw : rs.core.scr.w = w) (hV : ∀ x y, shownAt rs.core.scr.lines x y = itemsShown irows x y) :
    (finish f rs).w = w ∧ (finish f rs).stuck = rs.core.stuck ∧ ∀ x y, x < w →
      ((finish f rs).cellAt x y = foldBold (itemsShown irows x y) ∨
       ((finish f rs).cellAt x y = invisibleCell ∧ itemsShown irows x y = defaultCell)) := by
  obtain ⟨C1, C2, C3⟩ := crop_view rs.core.scr.lines.length rs.core.scr.lines
  unfold finish
  rw [if_neg hf]
  refine ⟨hsw, rfl, ?_⟩
  intro x y hx
  have hcell : (⟨rs.core.scr.w, (cropLines rs.core.scr.lines.length rs.core.scr.lines).length,
      foldLines (cropLines rs.core.scr.lines.length rs.core.scr.lines), rs.core.pal, rs.core.bufIce, rs.core.stuck⟩ : Loaded).cellAt x y =
      if w ≤ x ∨ (cropLines rs.core.scr.lines.length rs.core.scr.lines).length ≤ y then invisibleCell
      else shownAt (foldLines (cropLines rs.core.scr.lines.length rs.core.scr.lines)) x y := by
    show viewLines _ _ _ x y = _
    rw [viewLines_eq, hsw]
  show (⟨rs.core.scr.w, (cropLines rs.core.scr.lines.length rs.core.scr.lines).length,
      foldLines (cropLines rs.core.scr.lines.length rs.core.scr.lines), rs.core.pal, rs.core.bufIce, rs.core.stuck⟩ : Loaded).cellAt x y = _ ∨
    ((⟨rs.core.scr.w, (cropLines rs.core.scr.lines.length rs.core.scr.lines).length,
      foldLines (cropLines rs.core.scr.lines.length rs.core.scr.lines), rs.core.pal, rs.core.bufIce, rs.core.stuck⟩ : Loaded).cellAt x y = _ ∧ _)
  rw [hcell]
  by_cases hy : y < (cropLines rs.core.scr.lines.length rs.core.scr.lines).length
  · left
    have : ¬ (w ≤ x ∨ (cropLines rs.core.scr.lines.length rs.core.scr.lines).length ≤ y) := by omega
    rw [if_neg this, shownAt_foldLines, C2 x y hy, hV]
  · right
    have : w ≤ x ∨ (cropLines rs.core.scr.lines.length rs.core.scr.lines).length ≤ y := Or.inr (by omega)
    rw [if_pos this]
    exact ⟨rfl, by rw [← hV]; exact C3 x y (by omega)⟩

/-- rows separated by line breaks -/
theorem finish_items (f : Fmt) (hf : f ≠ .atascii) (rs : RS) (w H : Nat) (irows : List (List (Option Cell))) (hw0 : 0 < w)
    (hw : w ≤ 100000) (hfits : ∀ r ∈ irows, r.length ≤ w ∧ RowSkipsInside w r)
    (hscr : rs.core.scr = picItems w irows (freshScreen w H)) :
    (finish f rs).w = w ∧ (finish f rs).stuck = rs.core.stuck ∧ ∀ x y, x < w →
      ((finish f rs).cellAt x y = foldBold (itemsShown irows x y) ∨
       ((finish f rs).cellAt x y = invisibleCell ∧ itemsShown irows x y = defaultCell)) := by
  have e0 : (freshScreen w H).w = w := rfl
  have hsw : rs.core.scr.w = w := by
    rw [hscr]
    have := picItems_w irows (freshScreen w H) rfl (by rw [e0]; exact hw0) (by rw [e0]; exact hw) (by rw [e0]; exact hfits)
    rw [e0] at this; exact this
  have V := picItems_view irows (freshScreen w H) rfl (by rw [e0]; exact hw0) (by rw [e0]; exact hw) (by rw [e0]; exact hfits)
  rw [e0, ← hscr] at V
  refine finish_view f hf rs w irows hsw ?_
  intro x y
  rw [V x y]
  unfold itemsShown
  have e1 : (freshScreen w H).cy = 0 := rfl
  have e2 : shownAt (freshScreen w H).lines x y = defaultCell := shownAt_nil x y
  rw [e1, e2]
  by_cases hc : y < irows.length ∧ x < (irows.getD y []).length
  · have hc' : 0 ≤ y ∧ y < 0 + irows.length ∧ x < (irows.getD (y - 0) []).length := by
      refine ⟨Nat.zero_le _, by omega, ?_⟩; simpa using hc.2
    rw [if_pos hc, if_pos hc']; simp
  · have hc' : ¬ (0 ≤ y ∧ y < 0 + irows.length ∧ x < (irows.getD (y - 0) []).length) := by
      intro ⟨_, h2, h3⟩; apply hc; exact ⟨by omega, by simpa using h3⟩
    rw [if_neg hc, if_neg hc']

/-- rows positioned with `CSI y H` -/
theorem finish_itemsL (f : Fmt) (hf : f ≠ .atascii) (rs : RS) (w H : Nat) (irows : List (List (Option Cell))) (hw0 : 0 < w)
    (hw : w ≤ 100000) (hfits : ∀ r ∈ irows, r.length ≤ w ∧ RowSkipsInside w r)
    (hscr : rs.core.scr = picItemsL irows 0 (freshScreen w H)) :
    (finish f rs).w = w ∧ (finish f rs).stuck = rs.core.stuck ∧ ∀ x y, x < w →
      ((finish f rs).cellAt x y = foldBold (itemsShown irows x y) ∨
       ((finish f rs).cellAt x y = invisibleCell ∧ itemsShown irows x y = defaultCell)) := by
  have e0 : (freshScreen w H).w = w := rfl
  have hsw : rs.core.scr.w = w := by rw [hscr, picItemsL_w]; rfl
  have V := picItemsL_view irows 0 (freshScreen w H) (by rw [e0]; exact hw0) (by rw [e0]; exact hw) (by rw [e0]; exact hfits)
  rw [← hscr] at V
  refine finish_view f hf rs w irows hsw ?_
  intro x y
  rw [V x y]
  unfold itemsShown
  have e2 : shownAt (freshScreen w H).lines x y = defaultCell := shownAt_nil x y
  rw [e2]
  by_cases hc : y < irows.length ∧ x < (irows.getD y []).length
  · have hc' : 0 ≤ y ∧ y < 0 + irows.length ∧ x < (irows.getD (y - 0) []).length := by
      refine ⟨Nat.zero_le _, by omega, ?_⟩; simpa using hc.2
    rw [if_pos hc, if_pos hc']; simp
  · have hc' : ¬ (0 ≤ y ∧ y < 0 + irows.length ∧ x < (irows.getD (y - 0) []).length) := by
      intro ⟨_, h2, h3⟩; apply hc; exact ⟨by omega, by simpa using h3⟩
    rw [if_neg hc, if_neg hc']

end IcyVerif.ArtIO
