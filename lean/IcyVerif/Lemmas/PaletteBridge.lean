import IcyVerif.Model.BinFormats
import IcyVerif.Model.Palette
set_option linter.unusedSimpArgs false
/-! The 6-bit palette block of XBin / IDF files as the whole-file model of C05 (`Model/BinFormats.lean`) reads and
    writes it: `from_63 ∘ as_vec_63 ∘ from_63 = from_63` for EVERY byte block (also values above 63), and the C05
    functions are the C16 ones (`Model/Palette.lean`) under the obvious conversion. -/
namespace IcyVerif.PaletteBridge
open IcyVerif.BinFormats

/-- all 256 byte values: decoding, re-encoding and decoding again gives the first decoding -/
theorem expand6_fix : ∀ v, v < 256 → expand6 (expand6 v / 4) = expand6 v := by decide +kernel

theorem expand6_six : ∀ v, v < 64 → expand6 v / 4 = v := by decide +kernel

theorem triples_thirds (l : List Rgb) :
    triples (l.flatMap fun c => [c.1 / 4, c.2.1 / 4, c.2.2 / 4]) = l.map fun c => (c.1 / 4, c.2.1 / 4, c.2.2 / 4) := by
  induction l with
  | nil => rfl
  | cons c l ih => simp only [List.flatMap_cons, List.cons_append, List.nil_append, triples, List.map_cons, ih]

theorem triples_mem (bs : List Nat) : ∀ c ∈ triples bs, c.1 ∈ bs ∧ c.2.1 ∈ bs ∧ c.2.2 ∈ bs := by
  fun_induction triples bs with
  | case1 r g b rest ih =>
    intro c hc
    simp only [List.mem_cons] at hc ⊢
    rcases hc with rfl | hc
    · simp
    · have := ih c hc
      exact ⟨Or.inr (Or.inr (Or.inr this.1)), Or.inr (Or.inr (Or.inr this.2.1)), Or.inr (Or.inr (Or.inr this.2.2))⟩
  | case2 bs h => intro c hc; simp at hc

/-- load -> save -> load of a palette block: the same palette, for every block of bytes -/
theorem from63_asVec63_from63 (bs : List Nat) (hb : ∀ b ∈ bs, b < 256) :
    from63 (asVec63 (from63 bs)) = from63 bs := by
  unfold from63 asVec63
  rw [triples_thirds, List.map_map, List.map_map]
  apply List.map_congr_left
  intro c hc
  obtain ⟨h1, h2, h3⟩ := triples_mem bs c hc
  simp only [Function.comp]
  rw [expand6_fix _ (hb _ h1), expand6_fix _ (hb _ h2), expand6_fix _ (hb _ h3)]

/-- save -> load -> save of a 6-bit block: the same bytes -/
theorem asVec63_from63_six (bs : List Nat) (hb : ∀ b ∈ bs, b < 64) (h3 : bs.length % 3 = 0) :
    asVec63 (from63 bs) = bs := by
  unfold from63 asVec63
  induction bs using triples.induct with
  | case1 r g b rest ih =>
    simp only [triples, List.map_cons, List.flatMap_cons, List.cons_append, List.nil_append]
    rw [expand6_six r (hb r (by simp)), expand6_six g (hb g (by simp)), expand6_six b (hb b (by simp))]
    have : rest.length % 3 = 0 := by simp only [List.length_cons] at h3; omega
    rw [ih (fun x hx => hb x (by simp [hx])) this]
  | case2 bs h =>
    match bs, h with
    | [], _ => rfl
    | [_], _ => simp at h3
    | [_, _], _ => simp at h3
    | a :: b :: c :: rest, h => exact absurd rfl (h a b c rest)

def toC16 (c : Rgb) : Palette.Rgb := ⟨c.1, c.2.1, c.2.2⟩

theorem shifts : Gen.Palette.sixUp = [(2, 4), (2, 4), (2, 4)] ∧ Gen.Palette.sixDown = [2, 2, 2] := ⟨rfl, rfl⟩

theorem upWith_eq (v : Nat) : Palette.upWith (2, 4) v = expand6 v := by
  simp [Palette.upWith, expand6, Nat.shiftLeft_eq, Nat.shiftRight_eq_div_pow]

/-- the C05 decoder is the C16 decoder -/
theorem from63_bridge (bs : List Nat) (h3 : bs.length % 3 = 0) :
    Palette.from63 bs = .ok ((from63 bs).map toC16) := by
  unfold from63
  induction bs using triples.induct with
  | case1 r g b rest ih =>
    have : rest.length % 3 = 0 := by simp only [List.length_cons] at h3; omega
    simp only [Palette.from63, ih this, triples, List.map_cons, toC16, Palette.up6, shifts.1, List.getD_cons_zero,
      List.getD_cons_succ, upWith_eq]
  | case2 bs h =>
    match bs, h with
    | [], _ => rfl
    | [_], _ => simp at h3
    | [_, _], _ => simp at h3
    | a :: b :: c :: rest, h => exact absurd rfl (h a b c rest)

end IcyVerif.PaletteBridge
