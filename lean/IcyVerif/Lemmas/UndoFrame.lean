import IcyVerif.Model.Undo
set_option linter.unusedSimpArgs false
set_option linter.unusedVariables false
/-! # C08 framework: observations, links between documents, the stack invariant

`Doc.obs` is the document state the property talks about: buffer size and, per layer in stack order, size, properties
(visibility, locks, alpha, offset) and every stored cell — read through `rowsGet`, i.e. INCLUDING the rows/cells hidden
beyond the layer size, but NOT the representation (how many rows/cells are materialised).  Caret, selection, current
layer and mirror mode are not part of it. -/
namespace IcyVerif.Undo

abbrev LObs := Int × Int × Props × (Nat → Nat → Cell)

def LayerM.obs (l : LayerM) : LObs := (l.w, l.h, l.props, rowsGet l.lines)

/-- the buffer besides size and layers; the font table is observed as the function slot → font -/
structure XObs where
  fonts : Nat → Option Nat
  fontMode : Nat
  palette : List Nat
  paletteMode : Nat
  iceMode : Nat
  sauce : Option Nat

def Extra.obs (x : Extra) : XObs := ⟨fmLookup x.fonts, x.fontMode, x.palette, x.paletteMode, x.iceMode, x.sauce⟩

structure DObs where
  w : Int
  h : Int
  layers : List LObs
  x : XObs

def Doc.obs (d : Doc) : DObs := ⟨d.w, d.h, d.layers.map LayerM.obs, d.x.obs⟩

theorem DObs.ext' {a b : DObs} (hw : a.w = b.w) (hh : a.h = b.h) (hl : a.layers = b.layers) (hx : a.x = b.x) : a = b := by
  cases a; cases b; simp_all

theorem obs_x {d e : Doc} (h : d.obs = e.obs) : d.x.obs = e.x.obs := congrArg DObs.x h

theorem obs_w {d e : Doc} (h : d.obs = e.obs) : d.w = e.w := congrArg DObs.w h
theorem obs_h {d e : Doc} (h : d.obs = e.obs) : d.h = e.h := congrArg DObs.h h
theorem obs_layers {d e : Doc} (h : d.obs = e.obs) : d.layers.map LayerM.obs = e.layers.map LayerM.obs := congrArg DObs.layers h
theorem obs_length {d e : Doc} (h : d.obs = e.obs) : d.layers.length = e.layers.length := by
  have := congrArg List.length (obs_layers h); simpa using this

theorem obs_getElem? {d e : Doc} (h : d.obs = e.obs) (i : Nat) :
    (d.layers[i]?).map LayerM.obs = (e.layers[i]?).map LayerM.obs := by
  have := congrArg (fun l => l[i]?) (obs_layers h)
  simpa [List.getElem?_map] using this

theorem obs_some {d e : Doc} (h : d.obs = e.obs) {i : Nat} {l : LayerM} (hl : d.layers[i]? = some l) :
    ∃ l', e.layers[i]? = some l' ∧ l'.obs = l.obs := by
  have := obs_getElem? h i
  rw [hl] at this
  cases he : e.layers[i]? with
  | none => rw [he] at this; simp at this
  | some l' => rw [he] at this; simp at this; exact ⟨l', rfl, this.symm⟩

theorem obs_none {d e : Doc} (h : d.obs = e.obs) {i : Nat} (hl : d.layers[i]? = none) : e.layers[i]? = none := by
  have := obs_getElem? h i
  rw [hl] at this
  cases he : e.layers[i]? with
  | none => rfl
  | some l' => rw [he] at this; simp at this

theorem obs_setLayer (d : Doc) (i : Nat) (l : LayerM) :
    (d.setLayer i l).obs = ⟨d.w, d.h, (d.layers.map LayerM.obs).set i l.obs, d.x.obs⟩ := by
  simp [Doc.setLayer, Doc.obs, List.map_set]

theorem obs_setLayer_congr {d e : Doc} (h : d.obs = e.obs) (i : Nat) {l l' : LayerM} (hl : l.obs = l'.obs) :
    (d.setLayer i l).obs = (e.setLayer i l').obs := by
  rw [obs_setLayer, obs_setLayer, obs_w h, obs_h h, obs_layers h, hl, obs_x h]

/-! ## links -/

/-- `U` describes the records that may sit on the undo stack between the document classes `a` (below) and `a'` (above),
    `R` the records on the redo stack: undoing a `U` record from ANY document observed as `a'` succeeds, lands on a
    document observed as `a` and leaves an `R` record; redoing an `R` record from any document observed as `a` succeeds,
    lands on `a'` and leaves a `U` record.  (Records mutate themselves, so `U`/`R` are sets of records.) -/
structure Link (a a' : DObs) (U R : UndoOp → Prop) : Prop where
  undo_ok : ∀ o, U o → ∀ e', e'.obs = a' → ∃ o2 e, o.undo e' = .ok (o2, e) ∧ e.obs = a ∧ R o2
  redo_ok : ∀ o, R o → ∀ e, e.obs = a → ∃ o2 e', o.redo e = .ok (o2, e') ∧ e'.obs = a' ∧ U o2

/-- `op` can be undone from `a'` to `a`, redone, undone again … for ever -/
def Undoable (op : UndoOp) (a a' : DObs) : Prop := ∃ U R, U op ∧ Link a a' U R
/-- `op` can be redone from `a` to `a'`, undone, redone again … for ever -/
def Redoable (op : UndoOp) (a a' : DObs) : Prop := ∃ U R, R op ∧ Link a a' U R

theorem Undoable.step {op : UndoOp} {a a' : DObs} (h : Undoable op a a') {e' : Doc} (he : e'.obs = a') :
    ∃ o2 e, op.undo e' = .ok (o2, e) ∧ e.obs = a ∧ Redoable o2 a a' := by
  obtain ⟨U, R, hU, hL⟩ := h
  obtain ⟨o2, e, h1, h2, h3⟩ := hL.undo_ok op hU e' he
  exact ⟨o2, e, h1, h2, U, R, h3, hL⟩

theorem Redoable.step {op : UndoOp} {a a' : DObs} (h : Redoable op a a') {e : Doc} (he : e.obs = a) :
    ∃ o2 e', op.redo e = .ok (o2, e') ∧ e'.obs = a' ∧ Undoable o2 a a' := by
  obtain ⟨U, R, hR, hL⟩ := h
  obtain ⟨o2, e', h1, h2, h3⟩ := hL.redo_ok op hR e he
  exact ⟨o2, e', h1, h2, U, R, h3, hL⟩

/-- the inverse law of DESIGN §4 C08 follows from `Undoable`: undo restores (observationally), redo re-applies -/
theorem Undoable.inverse {op' : UndoOp} {d d' : Doc} (h : Undoable op' d.obs d'.obs) :
    ∃ op'' d₂, op'.undo d' = .ok (op'', d₂) ∧ d₂.obs = d.obs ∧
      ∃ op''' d₃, op''.redo d₂ = .ok (op''', d₃) ∧ d₃.obs = d'.obs := by
  obtain ⟨o2, e, h1, h2, h3⟩ := h.step rfl
  obtain ⟨o3, e3, h4, h5, _⟩ := h3.step h2
  exact ⟨o2, e, h1, h2, o3, e3, h4, h5⟩

/-- a record that never changes itself, whose undo/redo respect observational equality, and that undoes its own redo -/
theorem undoable_const (o : UndoOp) (d d' : Doc)
    (hr : o.redo d = .ok (o, d'))
    (hu : ∃ d₂, o.undo d' = .ok (o, d₂) ∧ d₂.obs = d.obs)
    (cu : ∀ e x x₂, e.obs = x.obs → o.undo x = .ok (o, x₂) → ∃ e₂, o.undo e = .ok (o, e₂) ∧ e₂.obs = x₂.obs)
    (cr : ∀ e x x₂, e.obs = x.obs → o.redo x = .ok (o, x₂) → ∃ e₂, o.redo e = .ok (o, e₂) ∧ e₂.obs = x₂.obs) :
    Undoable o d.obs d'.obs := by
  refine ⟨(· = o), (· = o), rfl, ?_, ?_⟩
  · intro o1 ho e' he'
    subst ho
    obtain ⟨d₂, hu1, hu2⟩ := hu
    obtain ⟨e₂, h1, h2⟩ := cu e' d' d₂ he' hu1
    exact ⟨o1, e₂, h1, h2.trans hu2, rfl⟩
  · intro o1 ho e he
    subst ho
    obtain ⟨e₂, h1, h2⟩ := cr e d d' he hr
    exact ⟨o1, e₂, h1, h2, rfl⟩

/-! ## atomic groups -/

/-- records in push order leading from `a` up to `c`, each undoable -/
inductive UChain : List UndoOp → DObs → DObs → Prop
  | nil (a : DObs) : UChain [] a a
  | cons {op : UndoOp} {rest : List UndoOp} {a b c : DObs} : Undoable op a b → UChain rest b c → UChain (op :: rest) a c

inductive RChain : List UndoOp → DObs → DObs → Prop
  | nil (a : DObs) : RChain [] a a
  | cons {op : UndoOp} {rest : List UndoOp} {a b c : DObs} : Redoable op a b → RChain rest b c → RChain (op :: rest) a c

theorem UChain.undoList {ops : List UndoOp} {a c : DObs} (h : UChain ops a c) {e' : Doc} (he : e'.obs = c) :
    ∃ ops2 e, undoList ops e' = .ok (ops2, e) ∧ e.obs = a ∧ RChain ops2 a c := by
  induction h generalizing e' with
  | nil a => exact ⟨[], e', by simp [IcyVerif.Undo.undoList], he, .nil _⟩
  | cons hop _ ih =>
    obtain ⟨rest2, e1, h1, h2, h3⟩ := ih he
    obtain ⟨o2, e, h4, h5, h6⟩ := hop.step h2
    exact ⟨o2 :: rest2, e, by simp [IcyVerif.Undo.undoList, h1, h4], h5, .cons h6 h3⟩

theorem RChain.redoList {ops : List UndoOp} {a c : DObs} (h : RChain ops a c) {e : Doc} (he : e.obs = a) :
    ∃ ops2 e', redoList ops e = .ok (ops2, e') ∧ e'.obs = c ∧ UChain ops2 a c := by
  induction h generalizing e with
  | nil a => exact ⟨[], e, by simp [IcyVerif.Undo.redoList], he, .nil _⟩
  | cons hop _ ih =>
    obtain ⟨o2, e1, h1, h2, h3⟩ := hop.step he
    obtain ⟨rest2, e', h4, h5, h6⟩ := ih h2
    exact ⟨o2 :: rest2, e', by simp [IcyVerif.Undo.redoList, h1, h4], h5, .cons h3 h6⟩

/-- an `AtomicUndo` over a chain of undoable records is undoable as a whole (groups nest: the members may be atomic) -/
theorem undoable_atomic {ops : List UndoOp} {a c : DObs} (h : UChain ops a c) : Undoable (.atomic ops) a c := by
  refine ⟨fun o => ∃ l, o = .atomic l ∧ UChain l a c, fun o => ∃ l, o = .atomic l ∧ RChain l a c, ⟨ops, rfl, h⟩, ?_, ?_⟩
  · rintro o ⟨l, rfl, hl⟩ e' he'
    obtain ⟨l2, e, h1, h2, h3⟩ := hl.undoList he'
    exact ⟨.atomic l2, e, by simp [UndoOp.undo, h1], h2, l2, rfl, h3⟩
  · rintro o ⟨l, rfl, hl⟩ e he
    obtain ⟨l2, e', h1, h2, h3⟩ := hl.redoList he
    exact ⟨.atomic l2, e', by simp [UndoOp.redo, h1], h2, l2, rfl, h3⟩

/-! ## the two stacks -/

/-- undo stack (top first) under the document class `a`; `bs` lists the class below each entry -/
inductive UStack : DObs → List UndoOp → List DObs → Prop
  | nil (a : DObs) : UStack a [] []
  | cons {op : UndoOp} {rest : List UndoOp} {a b : DObs} {bs : List DObs} :
      Undoable op b a → UStack b rest bs → UStack a (op :: rest) (b :: bs)

/-- redo stack (top first) over the document class `a`; `cs` lists the class above each entry -/
inductive RStack : DObs → List UndoOp → List DObs → Prop
  | nil (a : DObs) : RStack a [] []
  | cons {op : UndoOp} {rest : List UndoOp} {a b : DObs} {cs : List DObs} :
      Redoable op a b → RStack b rest cs → RStack a (op :: rest) (b :: cs)

theorem UStack.length_eq {a : DObs} {ops : List UndoOp} {bs : List DObs} (h : UStack a ops bs) : bs.length = ops.length := by
  induction h with
  | nil => rfl
  | cons _ _ ih => simp [ih]

/-- the top `n ≥ 1` entries of the undo stack, folded into push order, form a chain from the class below them -/
theorem UStack.fold {a : DObs} {ops : List UndoOp} {bs : List DObs} (h : UStack a ops bs) (n : Nat) (hn : n < ops.length) :
    ∃ b, bs[n]? = some b ∧ UChain ((ops.take (n + 1)).reverse) b a ∧ UStack b (ops.drop (n + 1)) (bs.drop (n + 1)) := by
  -- generalised: a chain `tail` from `a` up to `top` is appended
  suffices H : ∀ (top : DObs) (tail : List UndoOp), UChain tail a top →
      ∃ b, bs[n]? = some b ∧ UChain ((ops.take (n + 1)).reverse ++ tail) b top ∧ UStack b (ops.drop (n + 1)) (bs.drop (n + 1)) by
    obtain ⟨b, h1, h2, h3⟩ := H a [] (.nil a)
    exact ⟨b, h1, by simpa using h2, h3⟩
  induction h generalizing n with
  | nil a => simp at hn
  | @cons op rest a b bs hop hrest ih =>
    intro top tail htail
    cases n with
    | zero =>
      refine ⟨b, by simp, ?_, by simpa using hrest⟩
      simpa using UChain.cons hop htail
    | succ n =>
      have hn' : n < rest.length := by simpa using hn
      obtain ⟨b', h1, h2, h3⟩ := ih n hn' top (op :: tail) (.cons hop htail)
      refine ⟨b', by simpa using h1, ?_, by simpa using h3⟩
      simpa [List.take_succ_cons, List.reverse_cons, List.append_assoc] using h2

end IcyVerif.Undo
