import IcyVerif.Lemmas.UndoFrames
set_option linter.unusedSimpArgs false
set_option linter.unusedVariables false
/-! # C08: erase_selection, set_char (with mirror mode), scroll_area_* obey the inverse law -/
namespace IcyVerif.Undo

/-! ## erase_selection -/

theorem erase_good : (Step.edit eraseEdit).Good := by
  intro d op d' h
  unfold eraseEdit at h
  split at h
  · simp at h
  · cases hc : d.curLayer with
    | none => rw [hc] at h; simp at h
    | some p =>
      obtain ⟨i, l⟩ := p
      rw [hc] at h
      simp only at h
      generalize hl' : (intRange 0 l.h).foldl (fun l y => (intRange 0 l.w).foldl (fun l x =>
          if d.isSelected (x + l.props.offX) (y + l.props.offY) = true then l.setChar x y Cell.invisible else l) l) l = l' at h
      have hframe : Frame ⟨0, 0, l.w, l.h⟩ l.obs l'.obs := by
        rw [← hl']
        apply frame_foldl _ _ _ _ (Frame.refl _ _)
        intro l1 y hy h1
        apply frame_foldl _ _ _ _ h1
        intro l2 x hx h2
        split
        · obtain ⟨hx1, hx2⟩ := mem_intRange.mp hx
          obtain ⟨hy1, hy2⟩ := mem_intRange.mp hy
          rw [frame_w h1] at hx2
          exact frame_setChar h2 _ _ _ ((isInside_iff _ _ _).mpr ⟨hx1, hy1, by simpa using hx2, by simpa using hy2⟩)
        · exact h2
      cases hle : layerEdit d i l ⟨0, 0, l.w, l.h⟩ (.ok l') with
      | error e => rw [hle] at h; simp at h
      | ok r =>
        rw [hle] at h
        cases r with
        | none => simp at h
        | some q =>
          obtain ⟨lc, d1⟩ := q
          simp at h
          obtain ⟨rfl, rfl⟩ := h
          have hlc : Undoable lc d.obs d1.obs :=
            layerEdit_undoable (curLayer_some hc) (fun l2 hl2 => by
              simp only [Except.ok.injEq] at hl2; subst hl2; exact hframe) hle
          have hsn : Undoable (.selectNothing d.sel d.mask) d1.obs ({ d1 with sel := none, mask := d1.mask.clear } : Doc).obs :=
            undoable_selection _ d1 _ rfl (fun e => ⟨{ e with sel := d.sel, mask := d.mask }, by simp [UndoOp.undo], rfl⟩)
              (fun e => ⟨{ e with sel := none, mask := e.mask.clear }, by simp [UndoOp.redo], rfl⟩)
          exact undoable_atomic (.cons hlc (.cons hsn (.nil _)))

/-! ## set_char -/

theorem LObs.getChar_setChar_ne (a : LObs) (X Y x y : Int) (c : Cell) (hne : x ≠ X) : (a.setChar X Y c).getChar x y = a.getChar x y := by
  have hin : (a.setChar X Y c).inside x y = a.inside x y := rfl
  unfold LObs.getChar
  rw [hin]
  by_cases hi : a.inside x y = true
  · simp only [hi, if_true]
    show (if a.writes X Y = true ∧ x.toNat = X.toNat ∧ y.toNat = Y.toNat then c else a.cells x.toNat y.toNat) = _
    have : ¬ (a.writes X Y = true ∧ x.toNat = X.toNat ∧ y.toNat = Y.toNat) := by
      rintro ⟨hw, hx, _⟩
      have hI : a.inside X Y = true := by simp only [LObs.writes, Bool.and_eq_true] at hw; exact hw.1.1
      simp only [LObs.inside, Bool.and_eq_true, decide_eq_true_eq] at hi hI
      omega
    rw [if_neg this]
  · simp [hi]

theorem LObs.restore_absorbs_set (b : LObs) (x y : Int) (c v : Cell) : (b.setChar x y c).restoreChar x y v = b.restoreChar x y v := by
  obtain ⟨w, h, p, cells⟩ := b
  have hin : LObs.inside (LObs.setChar (w, h, p, cells) x y c) x y = LObs.inside (w, h, p, cells) x y := rfl
  simp only [LObs.restoreChar, hin]
  show (w, h, p, _) = (w, h, p, _)
  congr 3
  funext x' y'
  by_cases hc : LObs.inside (w, h, p, cells) x y = true ∧ x' = x.toNat ∧ y' = y.toNat
  · rw [if_pos hc, if_pos hc]
  · rw [if_neg hc, if_neg hc]
    show (if LObs.writes (w, h, p, cells) x y = true ∧ x' = x.toNat ∧ y' = y.toNat then c else cells x' y') = cells x' y'
    have : ¬ (LObs.writes (w, h, p, cells) x y = true ∧ x' = x.toNat ∧ y' = y.toNat) := by
      rintro ⟨hw, hx, hy⟩
      apply hc
      refine ⟨?_, hx, hy⟩
      simp only [LObs.writes, Bool.and_eq_true] at hw; exact hw.1.1
    rw [if_neg this]

theorem LObs.restore_idem (b : LObs) (x y : Int) (v : Cell) : (b.restoreChar x y v).restoreChar x y v = b.restoreChar x y v := by
  obtain ⟨w, h, p, cells⟩ := b
  show (w, h, p, fun x' y' => if LObs.inside (w, h, p, cells) x y = true ∧ x' = x.toNat ∧ y' = y.toNat then v
      else (if LObs.inside (w, h, p, cells) x y = true ∧ x' = x.toNat ∧ y' = y.toNat then v else cells x' y')) =
    (w, h, p, fun x' y' => if LObs.inside (w, h, p, cells) x y = true ∧ x' = x.toNat ∧ y' = y.toNat then v else cells x' y')
  congr 3
  funext x' y'
  by_cases hc : LObs.inside (w, h, p, cells) x y = true ∧ x' = x.toNat ∧ y' = y.toNat
  · rw [if_pos hc, if_pos hc]
  · rw [if_neg hc, if_neg hc]

theorem LObs.restore_self (a : LObs) (x y : Int) : a.restoreChar x y (a.getChar x y) = a := by
  have := LObs.restore_setChar a x y (a.getChar x y) (a.getChar x y) rfl
  rw [LObs.restore_absorbs_set] at this
  exact this

/-- the record of a mirrored `set_char` on the centre column: the same `UndoSetChar` twice.  Neither copy alone obeys the
    inverse law after the other has been applied, the group does. -/
theorem undoable_setChar_twice (d : Doc) (i : Nat) (x y : Int) (c : Cell) (l : LayerM) (hl : d.layers[i]? = some l) :
    Undoable (.atomic [.setChar x y i (l.getChar x y) c, .setChar x y i (l.getChar x y) c]) d.obs
      (d.setLayer i ((l.setChar x y c).setChar x y c)).obs := by
  let r : UndoOp := .setChar x y i (l.getChar x y) c
  refine ⟨(· = .atomic [r, r]), (· = .atomic [r, r]), rfl, ?_, ?_⟩
  · intro o ho e' he'
    subst ho
    have hd' : (d.setLayer i ((l.setChar x y c).setChar x y c)).layers[i]? = some ((l.setChar x y c).setChar x y c) :=
      getElem?_setLayer_self d i _ l hl
    obtain ⟨m, hm1, hm2⟩ := obs_some he'.symm hd'
    let m1 := m.restoreChar x y (l.getChar x y)
    let m2 := m1.restoreChar x y (l.getChar x y)
    have hlt : i < e'.layers.length := (List.getElem?_eq_some_iff.mp hm1).1
    have hm1' : (e'.setLayer i m1).layers[i]? = some m1 := getElem?_setLayer_self e' i m1 m hm1
    refine ⟨.atomic [r, r], (e'.setLayer i m1).setLayer i m2, ?_, ?_, rfl⟩
    · simp [UndoOp.undo, undoList, onLayerIdx, hm1, hm1', r, m1, m2]
    · have e1 : m2.obs = l.obs := by
        show ((m.restoreChar x y (l.getChar x y)).restoreChar x y (l.getChar x y)).obs = l.obs
        rw [restoreChar_obs, restoreChar_obs, hm2, setChar_obs, setChar_obs, LObs.restore_idem, LObs.restore_absorbs_set,
          LObs.restore_absorbs_set, getChar_obs, LObs.restore_self]
      have e2 : (e'.setLayer i m1).setLayer i m2 = e'.setLayer i m2 := by
        simp [Doc.setLayer, List.set_set]
      rw [e2, obs_setLayer, e1]
      have g1 := obs_w he'; have g2 := obs_h he'; have g3 := obs_layers he'; have g4 := obs_x he'
      refine DObs.ext' g1 g2 ?_ g4
      show (e'.layers.map LayerM.obs).set i l.obs = d.layers.map LayerM.obs
      rw [g3]
      show ((d.setLayer i _).layers.map LayerM.obs).set i l.obs = _
      simp only [Doc.setLayer, List.map_set, List.set_set]
      exact map_set_self _ _ _ _ hl
  · intro o ho e he
    subst ho
    obtain ⟨m, hm1, hm2⟩ := obs_some he.symm hl
    let m1 := m.setChar x y c
    let m2 := m1.setChar x y c
    have hm1' : (e.setLayer i m1).layers[i]? = some m1 := getElem?_setLayer_self e i m1 m hm1
    refine ⟨.atomic [r, r], (e.setLayer i m1).setLayer i m2, ?_, ?_, rfl⟩
    · simp [UndoOp.redo, redoList, onLayerIdx, hm1, hm1', r, m1, m2]
    · have e2 : (e.setLayer i m1).setLayer i m2 = e.setLayer i m2 := by
        simp [Doc.setLayer, List.set_set]
      rw [e2]
      apply obs_setLayer_congr he
      show ((m.setChar x y c).setChar x y c).obs = ((l.setChar x y c).setChar x y c).obs
      rw [setChar_obs, setChar_obs, setChar_obs, setChar_obs, hm2]

theorem setChar_redo_eq (d : Doc) (i : Nat) (l : LayerM) (hl : d.layers[i]? = some l) (x y : Int) (old c : Cell) :
    (UndoOp.setChar x y i old c).redo d = .ok (.setChar x y i old c, d.setLayer i (l.setChar x y c)) := by
  simp [UndoOp.redo, onLayerIdx, hl]

theorem setChar_good (x y : Int) (c : Cell) : (Step.edit (setCharEdit x y c)).Good := by
  intro d op d' h
  unfold setCharEdit at h
  cases hc : d.curLayer with
  | none => rw [hc] at h; simp at h
  | some p =>
    obtain ⟨i, l⟩ := p
    rw [hc] at h
    have hl := curLayer_some hc
    simp only at h
    by_cases hm : d.mirror = true
    · simp only [hm, if_true] at h
      simp at h
      obtain ⟨rfl, rfl⟩ := h
      by_cases hcen : l.w - x - 1 = x
      · rw [hcen]
        exact undoable_setChar_twice d i x y c l hl
      · -- two records at different columns: a chain
        have h1 : Undoable (.setChar (l.w - x - 1) y i (l.getChar (l.w - x - 1) y) c) d.obs (d.setLayer i (l.setChar (l.w - x - 1) y c)).obs :=
          inverse_setChar d i _ y _ c (fun l0 hl0 => by rw [hl] at hl0; cases hl0; rfl) _ _ (setChar_redo_eq d i l hl _ _ _ _)
        have hl1 : (d.setLayer i (l.setChar (l.w - x - 1) y c)).layers[i]? = some (l.setChar (l.w - x - 1) y c) :=
          getElem?_setLayer_self d i _ l hl
        have h2 : Undoable (.setChar x y i (l.getChar x y) c) (d.setLayer i (l.setChar (l.w - x - 1) y c)).obs
            ((d.setLayer i (l.setChar (l.w - x - 1) y c)).setLayer i ((l.setChar (l.w - x - 1) y c).setChar x y c)).obs :=
          inverse_setChar _ i x y _ c (fun l0 hl0 => by
            rw [hl1] at hl0; cases hl0
            rw [getChar_obs, getChar_obs, setChar_obs]
            exact (LObs.getChar_setChar_ne l.obs _ y x y c (fun hh => hcen hh.symm)).symm) _ _ (setChar_redo_eq _ i _ hl1 _ _ _ _)
        have e2 : (d.setLayer i (l.setChar (l.w - x - 1) y c)).setLayer i ((l.setChar (l.w - x - 1) y c).setChar x y c) =
            d.setLayer i ((l.setChar (l.w - x - 1) y c).setChar x y c) := by
          simp [Doc.setLayer, List.set_set]
        rw [e2] at h2
        exact undoable_atomic (.cons h1 (.cons h2 (.nil _)))
    · have hm' : d.mirror = false := by simpa using hm
      simp only [hm', Bool.false_eq_true, if_false] at h
      simp at h
      obtain ⟨rfl, rfl⟩ := h
      have h1 : Undoable (.setChar x y i (l.getChar x y) c) d.obs (d.setLayer i (l.setChar x y c)).obs :=
        inverse_setChar d i x y _ c (fun l0 hl0 => by rw [hl] at hl0; cases hl0; rfl) _ _ (setChar_redo_eq d i l hl _ _ _ _)
      exact undoable_atomic (.cons h1 (.nil _))

/-! ## scroll_area_left/right/up/down: direct edits of the row storage -/

theorem getArea_inside (sel : Option Sel) (l : LayerM) (x y : Nat) (h : (getArea sel l.rect).isInside x y = true) :
    l.inside x y = true := by
  simp only [Rect.isInside, Bool.and_eq_true, decide_eq_true_eq] at h
  simp only [LayerM.inside, Bool.and_eq_true, decide_eq_true_eq]
  unfold getArea at h
  cases sel with
  | none =>
    simp only [Rect.shift, LayerM.rect] at h
    omega
  | some s =>
    simp only [Rect.shift, LayerM.rect, Rect.intersect, Rect.right, Rect.bottom] at h
    omega

theorem getArea_nonneg (sel : Option Sel) (l : LayerM) : 0 ≤ (getArea sel l.rect).x ∧ 0 ≤ (getArea sel l.rect).y := by
  unfold getArea
  cases sel with
  | none => simp only [Rect.shift, LayerM.rect]; omega
  | some s => simp only [Rect.shift, LayerM.rect, Rect.intersect, Rect.right, Rect.bottom]; omega

/-- rewriting the area rows with a function that leaves the cells left and right of the area alone keeps the frame -/
theorem mapAreaRows_frame (l : LayerM) (a : Rect) (f : Nat → Row → Row)
    (hsub : ∀ x y : Nat, a.isInside x y = true → l.inside x y = true) (hx0 : 0 ≤ a.x) (hy0 : 0 ≤ a.y)
    (hf : ∀ (y : Nat) (r : Row) (k : Nat), a.right.toNat ≤ r.length → (k < a.x.toNat ∨ a.right.toNat ≤ k) →
      (f y r).getD k Cell.invisible = r.getD k Cell.invisible) :
    Frame a l.obs (mapAreaRows l a f).obs := by
  refine ⟨rfl, rfl, rfl, ?_⟩
  intro x y hn
  show rowsGet (mapAreaRows l a f).lines x y = rowsGet l.lines x y
  simp only [mapAreaRows, rowsGet, List.getD_eq_getElem?_getD, List.getElem?_mapIdx]
  cases hr : l.lines[y]? with
  | none => simp
  | some r =>
    simp only [Option.map_some, Option.getD_some]
    by_cases hy : a.y.toNat ≤ y ∧ y < a.bottom.toNat
    · rw [if_pos hy]
      have hlen : a.right.toNat ≤ (growTo r a.right.toNat Cell.invisible).length := by simp [growTo]; omega
      by_cases hx : x < a.x.toNat ∨ a.right.toNat ≤ x
      · have := hf y (growTo r a.right.toNat Cell.invisible) x hlen hx
        simp only [List.getD_eq_getElem?_getD] at this
        rw [this]
        have g := getD_growTo_inv r a.right.toNat x
        simp only [List.getD_eq_getElem?_getD] at g
        exact g
      · exfalso
        apply hn
        have hin : a.isInside x y = true := by
          apply (isInside_iff _ _ _).mpr
          simp only [Rect.right, Rect.bottom] at hx hy
          omega
        exact ⟨hin, hsub x y hin⟩
    · rw [if_neg hy]

theorem getD_eq_getElem?_getD' {α : Type} (l : List α) (k : Nat) (d : α) : l.getD k d = (l[k]?).getD d := List.getD_eq_getElem?_getD ..

theorem scrollLeft_row (r : Row) (L R k : Nat) (hLR : L < R) (hR : R ≤ r.length) (hk : k < L ∨ R ≤ k) :
    ((r.eraseIdx L).insertIdx (R - 1) (r.getD L Cell.invisible)).getD k Cell.invisible = r.getD k Cell.invisible := by
  simp only [List.getD_eq_getElem?_getD, List.getElem?_insertIdx, List.getElem?_eraseIdx]
  rcases hk with hk | hk
  · have h1 : k < R - 1 := by omega
    simp [h1, hk]
  · have h1 : ¬ k < R - 1 := by omega
    have h2 : ¬ k = R - 1 := by omega
    have h3 : ¬ k - 1 < L := by omega
    have h4 : k - 1 + 1 = k := by omega
    simp [h1, h2, h3, h4]

theorem scrollRight_row (r : Row) (L R k : Nat) (hLR : L < R) (hR : R ≤ r.length) (hk : k < L ∨ R ≤ k) :
    ((r.eraseIdx (R - 1)).insertIdx L (r.getD (R - 1) Cell.invisible)).getD k Cell.invisible = r.getD k Cell.invisible := by
  simp only [List.getD_eq_getElem?_getD, List.getElem?_insertIdx, List.getElem?_eraseIdx]
  rcases hk with hk | hk
  · have h1 : k < R - 1 := by omega
    simp [h1, hk]
  · have h1 : ¬ k < L := by omega
    have h2 : ¬ k = L := by omega
    have h3 : ¬ k - 1 < R - 1 := by omega
    have h4 : k - 1 + 1 = k := by omega
    simp [h1, h2, h3, h4]

theorem putArea_row (r cells : Row) (L R k : Nat) (hLR : L ≤ R) (hR : R ≤ r.length) (hc : cells.length = R - L) (hk : k < L ∨ R ≤ k) :
    (r.take L ++ cells ++ r.drop R).getD k Cell.invisible = r.getD k Cell.invisible := by
  simp only [List.getD_eq_getElem?_getD]
  rcases hk with hk | hk
  · rw [List.append_assoc, List.getElem?_append_left (by simp; omega)]
    simp [List.getElem?_take, hk]
  · rw [List.getElem?_append_right (by simp; omega)]
    simp only [List.length_append, List.length_take, hc, List.getElem?_drop]
    have : R + (k - (min L r.length + (R - L))) = k := by omega
    rw [this]

theorem areaCells_length (l : LayerM) (a : Rect) (y : Nat) (hx0 : 0 ≤ a.x) (hw : 0 ≤ a.w) : (areaCells l a y).length = a.right.toNat - a.x.toNat := by
  simp only [areaCells, List.length_take, List.length_drop, growTo, List.length_append, List.length_replicate, Rect.right]
  omega

theorem isEmpty_false {a : Rect} (h : a.isEmpty = false) : 0 < a.w ∧ 0 < a.h := by
  simp only [Rect.isEmpty, Bool.or_eq_false_iff, decide_eq_false_iff_not] at h
  omega

/-- `scroll_area_left` / `scroll_area_right` -/
theorem scrollLR_good (left : Bool) :
    (Step.edit (fun d => match d.curLayer with
      | none => .error .err
      | some (i, l) => let a := getArea d.sel l.rect; if a.isEmpty then .ok none else layerEdit d i l a (if left then scrollLeftF d l a else scrollRightF d l a))).Good := by
  intro d op d' h
  simp only at h
  cases hc : d.curLayer with
  | none => rw [hc] at h; simp at h
  | some p =>
    obtain ⟨i, l⟩ := p
    rw [hc] at h
    simp only at h
    by_cases he : (getArea d.sel l.rect).isEmpty = true
    · simp [he] at h
    · have he' : (getArea d.sel l.rect).isEmpty = false := by simpa using he
      simp only [he', Bool.false_eq_true, if_false] at h
      obtain ⟨hw, hh⟩ := isEmpty_false he'
      obtain ⟨hx0, hy0⟩ := getArea_nonneg d.sel l
      refine layerEdit_undoable (curLayer_some hc) ?_ h
      intro l' hl'
      cases left with
      | true =>
        simp only [if_true, scrollLeftF, he', Bool.false_eq_true, if_false] at hl'
        split at hl'
        · simp at hl'
        · simp only [Except.ok.injEq] at hl'
          subst hl'
          apply mapAreaRows_frame l _ _ (getArea_inside d.sel l) hx0 hy0
          intro y r k hlen hk
          exact scrollLeft_row r _ _ k (by simp only [Rect.right]; omega) hlen hk
      | false =>
        simp only [Bool.false_eq_true, if_false, scrollRightF, he'] at hl'
        split at hl'
        · simp at hl'
        · simp only [Except.ok.injEq] at hl'
          subst hl'
          apply mapAreaRows_frame l _ _ (getArea_inside d.sel l) hx0 hy0
          intro y r k hlen hk
          exact scrollRight_row r _ _ k (by simp only [Rect.right]; omega) hlen hk

/-- `scroll_area_up` / `scroll_area_down`: nothing on an empty area, the whole-layer record when the area is as wide as
    the layer, nothing on a single row, otherwise an `UndoLayerChange` of the rotated area -/
theorem scroll_good (up : Bool) : (Step.edit (scrollEdit up)).Good := by
  intro d op d' h
  unfold scrollEdit at h
  cases hc : d.curLayer with
  | none => rw [hc] at h; simp at h
  | some p =>
    obtain ⟨i, l⟩ := p
    rw [hc] at h
    have hl := curLayer_some hc
    simp only at h
    by_cases he : (getArea d.sel l.rect).isEmpty = true
    · simp [he] at h
    · have he' : (getArea d.sel l.rect).isEmpty = false := by simpa using he
      simp only [he', Bool.false_eq_true, if_false] at h
      by_cases hwide : (getArea d.sel l.rect).w ≥ l.w
      · simp only [hwide, if_true] at h
        simp at h
        obtain ⟨rfl, rfl⟩ := h
        cases up with
        | true =>
          exact inverse_scrollUp d i _ _ (by simp [UndoOp.redo, onLayer, hl])
        | false =>
          exact inverse_scrollDown d i _ _ (by simp [UndoOp.redo, onLayer, hl])
      · simp only [hwide, if_false] at h
        by_cases hone : (getArea d.sel l.rect).h < 2
        · simp [hone] at h
        · simp only [hone, if_false] at h
          obtain ⟨hw, hh⟩ := isEmpty_false he'
          obtain ⟨hx0, hy0⟩ := getArea_nonneg d.sel l
          refine layerEdit_undoable hl ?_ h
          intro l' hl'
          unfold scrollPartialF at hl'
          split at hl'
          · simp at hl'
          · simp only [Except.ok.injEq] at hl'
            subst hl'
            apply mapAreaRows_frame l _ _ (getArea_inside d.sel l) hx0 hy0
            intro y r k hlen hk
            unfold putAreaCells
            exact putArea_row r _ _ _ k (by simp only [Rect.right]; omega) hlen
              (areaCells_length l _ _ hx0 (by omega)) hk

end IcyVerif.Undo
