import IcyVerif.Lemmas.ArtFinish
/-! # ASCII, PCBoard, Renegade: the writer's bytes drive the reader through the picture's screen program (C15) -/
set_option linter.unusedSimpArgs false
namespace IcyVerif.ArtIO
open IcyVerif.Gen.Art

/-- characters the ANSI parser prints in its ground state -/
def AnsiPrintable (ch : Nat) : Prop := ch ≠ 27 ∧ ch ≠ 10 ∧ ch ≠ 12 ∧ ch ≠ 13 ∧ ch ≠ 7 ∧ ch ≠ 127

theorem ansiStep_print (p : AnsiP) (c : Core) (ch : Nat) (hs : c.stuck = false) (hg : p.st = .ground) (hp : AnsiPrintable ch) :
    ansiStep p c ch = ({ p with lastCh := ch }, c.printAnsi ch) := by
  obtain ⟨h1, h2, h3, h4, h5, h6⟩ := hp
  unfold ansiStep
  simp [hs, hg, h1, h2, h3, h4, h5, h6]

theorem ansiStep_cr (p : AnsiP) (c : Core) (hs : c.stuck = false) (hg : p.st = .ground) :
    ansiStep p c 13 = (p, { c with scr := c.scr.cr }) := by
  unfold ansiStep; simp [hs, hg]

theorem ansiStep_lf (p : AnsiP) (c : Core) (hs : c.stuck = false) (hg : p.st = .ground) :
    ansiStep p c 10 = (p, { c with scr := c.scr.lf }) := by
  unfold ansiStep; simp [hs, hg]

theorem same_iff (a b : Attr) : a.same b = true ↔ a = b := by
  cases a; cases b; simp [Attr.same, and_assoc]

theorem chByte_id {ch : Nat} (h0 : 0 < ch) (h1 : ch < 256) : chByte ch = ch := by
  unfold chByte; rw [if_neg (by omega)]; omega

theorem cell_eta (c : Cell) : (⟨c.ch, c.attr⟩ : Cell) = c := by cases c; rfl

/-! ### ASCII -/

def AscDom (c : Cell) : Prop :=
  0 < c.ch ∧ c.ch < 255 ∧ c.ch ≠ 7 ∧ c.ch ≠ 10 ∧ c.ch ≠ 12 ∧ c.ch ≠ 13 ∧ c.ch ≠ 8 ∧ c.ch ≠ 127

/-- the ASCII loader keeps no colours: every cell comes back in the default attribute -/
def ascImg (c : Cell) : Cell := ⟨c.ch, defaultAttr⟩

def AscR (_ : Unit) (r : RS) : Prop := r.core.stuck = false ∧ r.core.attr = defaultAttr

theorem asc_cell (s : Unit) (r : RS) (c : Cell) (hR : AscR s r) (hd : AscDom c) :
    ∃ b s', ascEmit s c = some (b, s') ∧ AscR s' (b.foldl (step .ascii) r) ∧
      (b.foldl (step .ascii) r).core.scr = r.core.scr.put (ascImg c) := by
  obtain ⟨h0, h1, h7, h10, h12, h13, h8, h127⟩ := hd
  obtain ⟨ns, ha⟩ := hR
  have hcb : chByte c.ch = c.ch := chByte_id h0 (by omega)
  have hm : c.ch % 65536 = c.ch := by omega
  have hsur : ¬ (55296 ≤ c.ch ∧ c.ch ≤ 57343) := by omega
  have h255 : c.ch ≠ 255 := by omega
  have h00 : c.ch ≠ 0 := by omega
  refine ⟨[c.ch], (), by simp [ascEmit, hcb], ?_, ?_⟩
  · simp [step, ascStep, ns, h00, h255, h7, h10, h12, h13, h8, h127, Core.printValue, hm, hsur, AscR, ha]
  · simp [step, ascStep, ns, h00, h255, h7, h10, h12, h13, h8, h127, Core.printValue, hm, hsur, ha, ascImg]

theorem asc_eol (s : Unit) (r : RS) (hR : AscR s r) :
    AscR s (crlf.foldl (step .ascii) r) ∧ (crlf.foldl (step .ascii) r).core.scr = r.core.scr.exec Op.nl := by
  obtain ⟨ns, ha⟩ := hR
  constructor
  · simp [crlf, step, ascStep, ns, AscR, ha]
  · simp [crlf, step, ascStep, ns, Screen.exec]

/-! ### PCBoard -/

theorem pcb_hex : ∀ n < 16, ∃ b, hexTable[n]? = some b ∧ pcbConvCh b = n ∧ b ≠ 64 := by decide

theorem pcb_attr : ∀ fg < 16, ∀ bg < 8, attrFromU8 (bg * 16 % 256 + fg) .unlimited = ⟨fg, bg, Flags.none⟩ := by decide

structure PcbR (s : Attr × Bool) (r : RS) : Prop where
  ns : r.core.stuck = false
  q : r.pcb.code = false ∧ r.pcb.color = false
  ag : r.ansi.st = .ground
  ice : r.core.caretIce = false
  bi : r.core.bufIce = .unlimited
  attr : s.2 = false → r.core.attr = s.1

def PcbDom (c : Cell) : Prop :=
  c.attr.fg < 16 ∧ c.attr.bg < 8 ∧ c.attr.fl = Flags.none ∧ 0 < c.ch ∧ c.ch < 256 ∧ c.ch ≠ 64 ∧ AnsiPrintable c.ch

theorem pcb_cell (s : Attr × Bool) (r : RS) (c : Cell) (hR : PcbR s r) (hd : PcbDom c) :
    ∃ b s', pcbEmit s c = some (b, s') ∧ PcbR s' (b.foldl (step .pcboard) r) ∧
      (b.foldl (step .pcboard) r).core.scr = r.core.scr.put (id c) := by
  obtain ⟨hfg, hbg, hfl, hc0, hc1, hc64, hpr⟩ := hd
  obtain ⟨bb, hb1, hb2, hb3⟩ := pcb_hex c.attr.bg (by omega)
  obtain ⟨bf, hf1, hf2, hf3⟩ := pcb_hex c.attr.fg hfg
  have hcb : chByte c.ch = c.ch := chByte_id hc0 hc1
  have hattr : (⟨c.attr.fg, c.attr.bg, Flags.none⟩ : Attr) = c.attr := by
    cases c with | mk ch a => cases a with | mk fg bg fl => simp_all
  obtain ⟨ns, ⟨q1, q2⟩, ag, ice, bi, hat⟩ := hR
  by_cases hchg : (s.2 || !(c.attr.same s.1)) = true
  · refine ⟨[64, 88, bb, bf, c.ch], (c.attr, false), ?_, ?_, ?_⟩
    · unfold pcbEmit; rw [if_pos hchg, hb1, hf1, hcb]
    · have e : [64, 88, bb, bf, c.ch].foldl (step .pcboard) r =
          { r with core := { r.core with attr := c.attr, scr := r.core.scr.put c }, ansi := { r.ansi with lastCh := c.ch },
                   pcb := { r.pcb with pos := 2, value := c.attr.bg * 16 % 256 + c.attr.fg } } := by
        simp [step, pcbStep, ns, q1, q2, hb2, hf2, hb3, hf3, hc64, ansiStep_print, ag, hpr, bi,
          pcb_attr c.attr.fg hfg c.attr.bg hbg, Core.printAnsi, Core.printAttr, ice, hattr, cell_eta]
      rw [e]
      exact ⟨ns, ⟨q1, q2⟩, ag, ice, bi, fun _ => rfl⟩
    · simp [step, pcbStep, ns, q1, q2, hb2, hf2, hb3, hf3, hc64, ansiStep_print, ag, hpr, bi,
        pcb_attr c.attr.fg hfg c.attr.bg hbg, Core.printAnsi, Core.printAttr, ice, hattr, cell_eta]
  · have hs2 : s.2 = false := by
      cases h : s.2 with
      | false => rfl
      | true => simp [h] at hchg
    have hsame : c.attr = s.1 := by
      have : c.attr.same s.1 = true := by
        cases h : c.attr.same s.1 with
        | true => rfl
        | false => simp [h] at hchg
      exact (same_iff _ _).1 this
    have hra : r.core.attr = c.attr := by rw [hat hs2, hsame]
    refine ⟨[c.ch], (s.1, false), ?_, ?_, ?_⟩
    · unfold pcbEmit; rw [if_neg hchg, hcb]
    · have e : [c.ch].foldl (step .pcboard) r =
          { r with core := { r.core with scr := r.core.scr.put c }, ansi := { r.ansi with lastCh := c.ch } } := by
        simp [step, pcbStep, ns, q1, q2, hc64, ansiStep_print, ag, hpr, Core.printAnsi, Core.printAttr, ice, hra, cell_eta]
      rw [e]
      exact ⟨ns, ⟨q1, q2⟩, ag, ice, bi, fun _ => hat hs2⟩
    · simp [step, pcbStep, ns, q1, q2, hc64, ansiStep_print, ag, hpr, Core.printAnsi, Core.printAttr, ice, hra, cell_eta]

theorem pcb_eol (s : Attr × Bool) (r : RS) (hR : PcbR s r) :
    PcbR s (crlf.foldl (step .pcboard) r) ∧ (crlf.foldl (step .pcboard) r).core.scr = r.core.scr.exec Op.nl := by
  obtain ⟨ns, ⟨q1, q2⟩, ag, ice, bi, hat⟩ := hR
  have e : crlf.foldl (step .pcboard) r = { r with core := { r.core with scr := r.core.scr.cr.lf } } := by
    simp [crlf, step, pcbStep, ns, q1, q2, ansiStep_cr, ansiStep_lf, ag]
  rw [e]
  exact ⟨⟨ns, ⟨q1, q2⟩, ag, ice, bi, hat⟩, rfl⟩

/-- `@CLS@` (and nothing for the other two options) leaves the reader in its initial state -/
theorem pcb_prep (prep : Prep) (r : RS) (hR : PcbR (defaultAttr, true) r) :
    PcbR (defaultAttr, true) ((pcbPrep prep).foldl (step .pcboard) r) ∧
    ((pcbPrep prep).foldl (step .pcboard) r).core.scr = r.core.scr := by
  obtain ⟨ns, ⟨q1, q2⟩, ag, ice, bi, hat⟩ := hR
  cases prep with
  | none => exact ⟨⟨ns, ⟨q1, q2⟩, ag, ice, bi, hat⟩, rfl⟩
  | home => exact ⟨⟨ns, ⟨q1, q2⟩, ag, ice, bi, hat⟩, rfl⟩
  | clear =>
    have e : (pcbPrep .clear).foldl (step .pcboard) r = r := by
      simp [pcbPrep, step, pcbStep, ns, q1, q2]
      cases r with | mk core ansi pcb ren ctrla avt ata => cases pcb; simp_all
    rw [e]
    exact ⟨⟨ns, ⟨q1, q2⟩, ag, ice, bi, hat⟩, rfl⟩

/-! ### Renegade -/

structure RenR (last : Attr) (r : RS) : Prop where
  ns : r.core.stuck = false
  q : r.ren = .normal
  ag : r.ansi.st = .ground
  ice : r.core.caretIce = false
  attr : r.core.attr = last
  fl : last.fl = Flags.none

def RenDom (c : Cell) : Prop :=
  c.attr.fg < 16 ∧ c.attr.bg < 8 ∧ c.attr.fl = Flags.none ∧ 0 < c.ch ∧ c.ch < 256 ∧ c.ch ≠ 124 ∧ AnsiPrintable c.ch

/-- `|nn` with nn < 16 sets the foreground -/
theorem ren_fg (r : RS) (n : Nat) (hn : n < 16) (ns : r.core.stuck = false) (q : r.ren = .normal) :
    (pipe2 n).foldl (step .renegade) r = { r with core := { r.core with attr := { r.core.attr with fg := n } } } := by
  have h100 : n < 100 := by omega
  have m1 : (48 + n / 10) % 256 = 48 + n / 10 := by omega
  have m2 : (48 + n % 10) % 256 = 48 + n % 10 := by omega
  have a1 : 48 + n / 10 ≤ 51 := by omega
  have a2 : 48 + n % 10 ≤ 57 := by omega
  have a3 : n / 10 * 10 + n % 10 = n := by omega
  simp [pipe2, h100, step, renStep, ns, q, m1, m2, a1, a2, a3, hn]

/-- `|nn` with 16 ≤ nn < 24 sets the background -/
theorem ren_bg (r : RS) (n : Nat) (hn : n < 8) (ns : r.core.stuck = false) (q : r.ren = .normal) :
    (pipe2 (16 + n)).foldl (step .renegade) r = { r with core := { r.core with attr := { r.core.attr with bg := n } } } := by
  have h100 : 16 + n < 100 := by omega
  have m1 : (48 + (16 + n) / 10) % 256 = 48 + (16 + n) / 10 := by omega
  have m2 : (48 + (16 + n) % 10) % 256 = 48 + (16 + n) % 10 := by omega
  have a1 : 48 + (16 + n) / 10 ≤ 51 := by omega
  have a2 : 48 + (16 + n) % 10 ≤ 57 := by omega
  have a3 : (16 + n) / 10 * 10 + (16 + n) % 10 = 16 + n := by omega
  have a4 : ¬ (16 + n < 16) := by omega
  simp [pipe2, h100, step, renStep, ns, q, m1, m2, a1, a2, a3, a4]

theorem ren_fg' (last : Attr) (r : RS) (n : Nat) (hn : n < 16) (hR : RenR last r) :
    RenR { last with fg := n } ((pipe2 n).foldl (step .renegade) r) ∧
    ((pipe2 n).foldl (step .renegade) r).core.scr = r.core.scr := by
  obtain ⟨ns, q, ag, ice, hat, hfl⟩ := hR
  rw [ren_fg r n hn ns q]
  exact ⟨⟨ns, q, ag, ice, by simp [hat], hfl⟩, rfl⟩

theorem ren_bg' (last : Attr) (r : RS) (n : Nat) (hn : n < 8) (hR : RenR last r) :
    RenR { last with bg := n } ((pipe2 (16 + n)).foldl (step .renegade) r) ∧
    ((pipe2 (16 + n)).foldl (step .renegade) r).core.scr = r.core.scr := by
  obtain ⟨ns, q, ag, ice, hat, hfl⟩ := hR
  rw [ren_bg r n hn ns q]
  exact ⟨⟨ns, q, ag, ice, by simp [hat], hfl⟩, rfl⟩

theorem ren_print (last : Attr) (r : RS) (ch : Nat) (h124 : ch ≠ 124) (hpr : AnsiPrintable ch) (hR : RenR last r) :
    RenR last ([ch].foldl (step .renegade) r) ∧
    ([ch].foldl (step .renegade) r).core.scr = r.core.scr.put ⟨ch, last⟩ := by
  obtain ⟨ns, q, ag, ice, hat, hfl⟩ := hR
  have e : [ch].foldl (step .renegade) r =
      { r with core := { r.core with scr := r.core.scr.put ⟨ch, last⟩ }, ansi := { r.ansi with lastCh := ch } } := by
    simp [step, renStep, ns, q, h124, ansiStep_print, ag, hpr, Core.printAnsi, Core.printAttr, ice, hat]
  rw [e]
  exact ⟨⟨ns, q, ag, ice, hat, hfl⟩, rfl⟩

theorem ren_cell (last : Attr) (r : RS) (c : Cell) (hR : RenR last r) (hd : RenDom c) :
    ∃ b s', renEmit last c = some (b, s') ∧ RenR s' (b.foldl (step .renegade) r) ∧
      (b.foldl (step .renegade) r).core.scr = r.core.scr.put (id c) := by
  obtain ⟨hfg, hbg, hfl, hc0, hc1, hc124, hpr⟩ := hd
  have hcb : chByte c.ch = c.ch := chByte_id hc0 hc1
  have hlfl : last.fl = Flags.none → ({ ({ last with fg := c.attr.fg } : Attr) with bg := c.attr.bg } : Attr) = c.attr := by
    intro h
    cases c with | mk ch a => cases a with | mk fg bg fl => cases last; simp_all
  by_cases hchg : (!(c.attr.same last)) = true
  · -- colour codes for the components that differ, then the character
    have A : ∃ r1, (if c.attr.fg ≠ last.fg then pipe2 c.attr.fg else []).foldl (step .renegade) r = r1 ∧
        RenR { last with fg := c.attr.fg } r1 ∧ r1.core.scr = r.core.scr := by
      by_cases h : c.attr.fg ≠ last.fg
      · rw [if_pos h]; exact ⟨_, rfl, ren_fg' last r _ hfg hR⟩
      · have h' : c.attr.fg = last.fg := by omega
        rw [if_neg h]
        refine ⟨r, rfl, ?_, rfl⟩
        have : ({ last with fg := c.attr.fg } : Attr) = last := by rw [h']
        rw [this]; exact hR
    obtain ⟨r1, e1, R1, s1⟩ := A
    have B : ∃ r2, (if c.attr.bg ≠ last.bg then pipe2 (16 + c.attr.bg) else []).foldl (step .renegade) r1 = r2 ∧
        RenR { ({ last with fg := c.attr.fg } : Attr) with bg := c.attr.bg } r2 ∧ r2.core.scr = r.core.scr := by
      by_cases h : c.attr.bg ≠ last.bg
      · rw [if_pos h]
        obtain ⟨R2, s2⟩ := ren_bg' _ r1 _ hbg R1
        exact ⟨_, rfl, R2, by rw [s2, s1]⟩
      · have h' : c.attr.bg = last.bg := by omega
        rw [if_neg h]
        refine ⟨r1, rfl, ?_, s1⟩
        have : ({ ({ last with fg := c.attr.fg } : Attr) with bg := c.attr.bg } : Attr) = { last with fg := c.attr.fg } := by
          rw [h']
        rw [this]; exact R1
    obtain ⟨r2, e2, R2, s2⟩ := B
    rw [hlfl hR.fl] at R2
    obtain ⟨R3, s3⟩ := ren_print c.attr r2 c.ch hc124 hpr R2
    refine ⟨(if c.attr.fg ≠ last.fg then pipe2 c.attr.fg else []) ++ (if c.attr.bg ≠ last.bg then pipe2 (16 + c.attr.bg) else []) ++ [c.ch],
      c.attr, ?_, ?_, ?_⟩
    · unfold renEmit; rw [if_pos hchg, hcb]
    · rw [List.foldl_append, List.foldl_append, e1, e2]; exact R3
    · rw [List.foldl_append, List.foldl_append, e1, e2, s3, s2, cell_eta]; rfl
  · have hsame : c.attr = last := by
      have : c.attr.same last = true := by
        cases h : c.attr.same last with
        | true => rfl
        | false => simp [h] at hchg
      exact (same_iff _ _).1 this
    obtain ⟨R3, s3⟩ := ren_print last r c.ch hc124 hpr hR
    refine ⟨[c.ch], last, ?_, R3, ?_⟩
    · unfold renEmit; rw [if_neg hchg, hcb]
    · rw [s3, ← hsame, cell_eta]; rfl

theorem ren_eol (last : Attr) (r : RS) (hR : RenR last r) :
    RenR last (crlf.foldl (step .renegade) r) ∧ (crlf.foldl (step .renegade) r).core.scr = r.core.scr.exec Op.nl := by
  obtain ⟨ns, q, ag, ice, hat, hfl⟩ := hR
  have e : crlf.foldl (step .renegade) r = { r with core := { r.core with scr := r.core.scr.cr.lf } } := by
    simp [crlf, step, renStep, ns, q, ansiStep_cr, ansiStep_lf, ag]
  rw [e]
  exact ⟨⟨ns, q, ag, ice, hat, hfl⟩, rfl⟩

end IcyVerif.ArtIO

namespace IcyVerif.ArtIO
open IcyVerif.Gen.Art

/-! ### a PCBoard file never starts with a UTF-8 BOM -/

theorem noBom_of_head {bytes : List Nat} (h : bytes.head? ≠ some 239) : bomPrefixed bytes = false := by
  unfold bomPrefixed
  cases bytes with
  | nil => rfl
  | cons a t =>
    have ha : a ≠ 239 := by intro e; apply h; simp [e]
    cases t with
    | nil => simp
    | cons b t2 =>
      cases t2 with
      | nil => simp
      | cons c t3 => simp [ha]

theorem pcb_cells_head (s : Attr × Bool) (hs : s.2 = true) (cells : List Cell) (b : List Nat) (s' : Attr × Bool)
    (h : writeCells pcbEmit s cells = some (b, s')) : (cells = [] ∧ b = [] ∧ s' = s) ∨ b.head? = some 64 := by
  cases cells with
  | nil =>
    left; simp only [writeCells, Option.some.injEq, Prod.mk.injEq] at h
    exact ⟨rfl, h.1.symm, h.2.symm⟩
  | cons c cs =>
    right
    simp only [writeCells] at h
    split at h
    · cases h
    · rename_i b1 s1 he
      split at h
      · cases h
      · rename_i bs s2 hw
        simp only [Option.some.injEq, Prod.mk.injEq] at h
        unfold pcbEmit at he
        rw [if_pos (by simp [hs])] at he
        split at he
        · simp only [Option.some.injEq, Prod.mk.injEq] at he
          rw [← h.1, ← he.1]; rfl
        · cases he

theorem pcb_rows_head (w : Nat) : ∀ (rows : List (List Cell)) (s : Attr × Bool), s.2 = true → ∀ b,
    writeRows pcbEmit crlf w s rows = some b → b.head? ≠ some 239 := by
  intro rows
  induction rows with
  | nil => intro s _ b h; simp [writeRows] at h; subst h; simp
  | cons r rest ih =>
    intro s hs b h
    simp only [writeRows] at h
    split at h
    · cases h
    · rename_i b1 s1 hc
      split at h
      · cases h
      · rename_i bs hr
        simp only [Option.some.injEq] at h
        rcases pcb_cells_head s hs _ _ _ hc with ⟨_, e2, e3⟩ | hh
        · subst e2; subst e3
          rw [← h]
          by_cases hnl : (trimRow r).length < w ∧ (!rest.isEmpty) = true
          · rw [if_pos hnl]; simp [crlf]
          · rw [if_neg hnl]
            simp only [List.nil_append]
            exact ih s1 hs bs hr
        · rw [← h]
          cases b1 with
          | nil => simp at hh
          | cons a t => simp at hh; simp [hh]

theorem pcb_noBom (prep : Prep) (w : Nat) (rows : List (List Cell)) (b : List Nat)
    (h : writeRows pcbEmit crlf w (defaultAttr, true) rows = some b) : bomPrefixed (pcbPrep prep ++ b) = false := by
  apply noBom_of_head
  cases prep with
  | clear => simp [pcbPrep]
  | none => simp only [pcbPrep, List.nil_append]; exact pcb_rows_head w rows _ rfl b h
  | home => simp only [pcbPrep, List.nil_append]; exact pcb_rows_head w rows _ rfl b h

end IcyVerif.ArtIO
