import IcyVerif.Model.BinFormats
set_option linter.unusedSimpArgs false
set_option linter.unusedVariables false
/-!
# C05 basics: the attribute byte, the 6-bit palette codec, the SAUCE record

* `attr_ice`, `attr_blink`, `attr_ext_*`: decoding the attribute byte a cell was written with gives the colours the cell
  is DISPLAYED with (finite tables, `decide`, lifted to all cells by the bounds of `attrCell`).
* `from63_asVec63`, `fromEga_toEga`: the two palette codecs are inverse on 6-bit-expandable colours.
(the SAUCE record: `Lemmas/BinFormatsSauce.lean`, on top of the C11 theorems)
-/
namespace IcyVerif.BinFormats
open IcyVerif.XbCompress IcyVerif.Gen

/-! ## attribute byte -/

/-- `as_u8` on the four things it looks at -/
def attrByte (blinkMode : Bool) (fg bg : Nat) (bold blink : Bool) : Nat :=
  let fg0 := fg &&& 0b1111
  let fg' := if bold then fg0 ||| 0b1000 else fg0
  let bg' := if blinkMode then (bg &&& 0b0111) ||| (if blink then 0b1000 else 0) else bg &&& 0b1111
  (fg' ||| (bg' <<< 4)) % 256

theorem isBold_iff (a : Attr) : (a.flags &&& Xb.attrBold = Xb.attrBold) ↔ isBold a = true := by
  simp [isBold]

theorem isBlink_iff (a : Attr) : (a.flags &&& Xb.attrBlink = Xb.attrBlink) ↔ isBlink a = true := by
  simp [isBlink]

theorem asU8_blink (a : Attr) : asU8 .blink a = attrByte true a.fg a.bg (isBold a) (isBlink a) := by
  unfold asU8 attrByte
  by_cases h1 : a.flags &&& Xb.attrBold = Xb.attrBold <;> by_cases h2 : a.flags &&& Xb.attrBlink = Xb.attrBlink <;>
    simp [h1, h2, isBold, isBlink]

theorem asU8_ice (a : Attr) : asU8 .ice a = attrByte false a.fg a.bg (isBold a) (isBlink a) := by
  unfold asU8 attrByte
  by_cases h1 : a.flags &&& Xb.attrBold = Xb.attrBold <;> simp [h1, isBold, isBlink]

/-- the palette index a foreground is displayed with -/
def shownFg (fg : Nat) (bold : Bool) : Nat := if bold ∧ fg < 8 then fg + 8 else fg

theorem tab_ice : ∀ fg, fg < 16 → ∀ bg, bg < 16 → ∀ bold blink : Bool,
    attrByte false fg bg bold blink < 256 ∧ attrByte false fg bg bold blink &&& 0b1111 = shownFg fg bold ∧
    attrByte false fg bg bold blink >>> 4 = bg := by decide

theorem tab_blink : ∀ fg, fg < 16 → ∀ bg, bg < 8 → ∀ bold blink : Bool,
    attrByte true fg bg bold blink < 256 ∧ attrByte true fg bg bold blink &&& 0b1111 = shownFg fg bold ∧
    (attrByte true fg bg bold blink >>> 4) &&& 0b0111 = bg ∧
    ((attrByte true fg bg bold blink &&& 0b10000000 != 0) = blink) := by decide

/-- 512-character mode: bit 3 carries the font, the foreground has three bits -/
theorem tab_ext_ice : ∀ fg, fg < 8 → ∀ bg, bg < 16 → ∀ blink pg : Bool,
    let b := (attrByte false fg bg false blink &&& Xb.encKeepMask) ||| (if pg then Xb.encPageBit else 0)
    b < 256 ∧ b >>> 4 = bg ∧ (if pg then b &&& 0b1111 = fg + 8 else b &&& 0b1111 = fg) := by decide

theorem tab_ext_blink : ∀ fg, fg < 8 → ∀ bg, bg < 8 → ∀ blink pg : Bool,
    let b := (attrByte true fg bg false blink &&& Xb.encKeepMask) ||| (if pg then Xb.encPageBit else 0)
    b < 256 ∧ (b >>> 4) &&& 0b0111 = bg ∧ ((b &&& 0b10000000 != 0) = blink) ∧
    (if pg then b &&& 0b1111 = fg + 8 else b &&& 0b1111 = fg) := by decide

/-! ## palettes -/

theorem dosPalette_length : dosPalette.length = 16 := by decide

theorem fillTo16_16 (pal : List Rgb) (h : pal.length = 16) : fillTo16 pal = pal := by
  unfold fillTo16
  rw [h]
  have : dosPalette.drop 16 = [] := by decide
  simp [this]

theorem sixBit_round (v : Nat) (h : sixBit v = true) : expand6 (v / 4) = v := by
  unfold sixBit at h
  simp only [Bool.and_eq_true, beq_iff_eq] at h
  exact h.1

theorem triples_flat (pal : List Rgb) : triples (pal.flatMap fun c => [c.1, c.2.1, c.2.2]) = pal := by
  induction pal with
  | nil => rfl
  | cons c cs ih => obtain ⟨r, g, b⟩ := c; simp [triples, ih]

theorem from63_asVec63 (pal : List Rgb) (h : pal.all (fun c => sixBit c.1 && sixBit c.2.1 && sixBit c.2.2) = true) :
    from63 (asVec63 pal) = pal := by
  induction pal with
  | nil => rfl
  | cons c cs ih =>
    obtain ⟨r, g, b⟩ := c
    simp only [List.all_cons, Bool.and_eq_true] at h
    obtain ⟨⟨⟨hr, hg⟩, hb⟩, hcs⟩ := h
    have := ih hcs
    unfold from63 asVec63 at this ⊢
    simp only [List.flatMap_cons, List.cons_append, List.nil_append, triples, List.map_cons, this,
      sixBit_round r hr, sixBit_round g hg, sixBit_round b hb]

theorem asVec63_length (pal : List Rgb) : (asVec63 pal).length = 3 * pal.length := by
  induction pal with
  | nil => rfl
  | cons c cs ih => simp [asVec63, List.flatMap_cons] at ih ⊢; omega

/-! ### the ADF palette: written into the 64 EGA registers, read back from the 16 registers the text colours use -/

/-- registers that are not written keep their value -/
theorem foldl_set_other (jvs : List (Nat × Rgb)) : ∀ (base : List Rgb) (j : Nat), (∀ e ∈ jvs, e.1 ≠ j) →
    (jvs.foldl (fun acc jv => setAt acc jv.1 jv.2) base)[j]? = base[j]? := by
  induction jvs with
  | nil => intro base j _; rfl
  | cons e es ih =>
    intro base j h
    simp only [List.foldl_cons]
    rw [ih _ j (fun e' he' => h e' (by simp [he']))]
    have : e.1 ≠ j := h e (by simp)
    simp [setAt, List.getElem?_set, this]

theorem foldl_set_length (jvs : List (Nat × Rgb)) : ∀ (base : List Rgb),
    (jvs.foldl (fun acc jv => setAt acc jv.1 jv.2) base).length = base.length := by
  induction jvs with
  | nil => intro base; rfl
  | cons e es ih => intro base; simp only [List.foldl_cons]; rw [ih]; simp [setAt]

/-- a register written once holds what was written -/
theorem foldl_set_get : ∀ (js : List Nat) (vs : List Rgb) (base : List Rgb) (k : Nat), js.Nodup → (∀ j ∈ js, j < base.length) →
    k < js.length → k < vs.length →
    ((js.zip vs).foldl (fun acc jv => setAt acc jv.1 jv.2) base)[js.getD k 0]? = vs[k]? := by
  intro js
  induction js with
  | nil => intro vs base k _ _ hk; simp at hk
  | cons j js ih =>
    intro vs base k hnd hlt hk hkv
    cases vs with
    | nil => simp at hkv
    | cons v vs =>
      simp only [List.zip_cons_cons, List.foldl_cons]
      cases k with
      | zero =>
        simp only [List.getD_cons_zero, List.getElem?_cons_zero]
        rw [foldl_set_other]
        · have : j < base.length := hlt j (by simp)
          simp [setAt, List.getElem?_set, this]
        · intro e he
          have hmem : e.1 ∈ js := (List.of_mem_zip he).1
          have hj : j ∉ js := (List.nodup_cons.mp hnd).1
          intro heq; exact hj (heq ▸ hmem)
      | succ k =>
        simp only [List.getD_cons_succ, List.getElem?_cons_succ]
        simp only [List.length_cons] at hk hkv
        exact ih vs _ k (List.nodup_cons.mp hnd).2 (fun j' hj' => by simp [setAt]; exact hlt j' (by simp [hj'])) (by omega) (by omega)

/-- byte `3 i + k` of the register dump is component `k` of register `i` -/
theorem flat3_get (l : List Rgb) : ∀ (i : Nat), i < l.length →
    (l.flatMap fun c => [c.1 / 4, c.2.1 / 4, c.2.2 / 4]).getD (3 * i) 0 = (l.getD i (0, 0, 0)).1 / 4 ∧
    (l.flatMap fun c => [c.1 / 4, c.2.1 / 4, c.2.2 / 4]).getD (3 * i + 1) 0 = (l.getD i (0, 0, 0)).2.1 / 4 ∧
    (l.flatMap fun c => [c.1 / 4, c.2.1 / 4, c.2.2 / 4]).getD (3 * i + 2) 0 = (l.getD i (0, 0, 0)).2.2 / 4 := by
  induction l with
  | nil => intro i h; simp at h
  | cons c cs ih =>
    intro i hi
    cases i with
    | zero => simp [List.flatMap_cons]
    | succ i =>
      simp only [List.length_cons] at hi
      have := ih i (by omega)
      have e0 : 3 * (i + 1) = (3 * i) + 1 + 1 + 1 := by omega
      have e1 : 3 * (i + 1) + 1 = (3 * i + 1) + 1 + 1 + 1 := by omega
      have e2 : 3 * (i + 1) + 2 = (3 * i + 2) + 1 + 1 + 1 := by omega
      simp only [List.flatMap_cons, List.cons_append, List.nil_append, e0, e1, e2, List.getD_cons_succ]
      exact this

theorem egaOffsets_nodup : BinFmt.egaColorOffsets.Nodup := by decide
theorem egaOffsets_lt : ∀ j ∈ BinFmt.egaColorOffsets, j < 64 := by decide
theorem egaBase_length : (triples BinFmt.egaPalette).length = 64 := by decide
theorem egaOffsets_length : BinFmt.egaColorOffsets.length = 16 := by decide

theorem fromEga_toEga (pal : List Rgb) (hl : pal.length = 16)
    (h : pal.all (fun c => sixBit c.1 && sixBit c.2.1 && sixBit c.2.2) = true) : fromEgaData (toEgaData pal) = pal := by
  unfold fromEgaData toEgaData
  have hregs : ∀ k, k < 16 →
      ((BinFmt.egaColorOffsets.zip pal).foldl (fun acc jv => setAt acc jv.1 jv.2) (triples BinFmt.egaPalette)).getD
        (BinFmt.egaColorOffsets.getD k 0) (0, 0, 0) = pal.getD k (0, 0, 0) := by
    intro k hk
    have := foldl_set_get BinFmt.egaColorOffsets pal (triples BinFmt.egaPalette) k egaOffsets_nodup
      (by rw [egaBase_length]; exact egaOffsets_lt) (by rw [egaOffsets_length]; exact hk) (by omega)
    have e : ∀ (l : List Rgb) (i : Nat), l.getD i (0, 0, 0) = l[i]?.getD (0, 0, 0) := fun l i => List.getD_eq_getElem?_getD
    rw [e, this, ← e]
  apply List.ext_getElem
  · simp [hl, egaOffsets_length]
  · intro n h1 h2
    have hn : n < 16 := by simpa [egaOffsets_length] using h1
    have hn' : n < BinFmt.egaColorOffsets.length := by rw [egaOffsets_length]; exact hn
    have hlt : BinFmt.egaColorOffsets.getD n 0 < 64 := by
      have : BinFmt.egaColorOffsets.getD n 0 ∈ BinFmt.egaColorOffsets := by
        rw [List.getD_eq_getElem?_getD, List.getElem?_eq_getElem hn']
        simp
      exact egaOffsets_lt _ this
    have hflat := flat3_get ((BinFmt.egaColorOffsets.zip pal).foldl (fun acc jv => setAt acc jv.1 jv.2) (triples BinFmt.egaPalette))
      (BinFmt.egaColorOffsets.getD n 0) (by rw [foldl_set_length, egaBase_length]; exact hlt)
    have hoff : BinFmt.egaColorOffsets[n]'hn' = BinFmt.egaColorOffsets.getD n 0 := by
      rw [List.getD_eq_getElem?_getD, List.getElem?_eq_getElem hn']; rfl
    simp only [List.getElem_map, hoff, hflat.1, hflat.2.1, hflat.2.2, hregs n hn]
    have hp : pal.getD n (0, 0, 0) = pal[n] := by
      rw [List.getD_eq_getElem?_getD, List.getElem?_eq_getElem h2]; rfl
    rw [hp]
    have hmem : pal[n] ∈ pal := List.getElem_mem h2
    have hs := List.all_eq_true.mp h pal[n] hmem
    simp only [Bool.and_eq_true] at hs
    rw [sixBit_round _ hs.1.1, sixBit_round _ hs.1.2, sixBit_round _ hs.2]

theorem toEgaData_length (pal : List Rgb) : (toEgaData pal).length = 192 := by
  unfold toEgaData
  have : ∀ l : List Rgb, (l.flatMap fun c => [c.1 / 4, c.2.1 / 4, c.2.2 / 4]).length = 3 * l.length := by
    intro l; induction l with
    | nil => rfl
    | cons c cs ih => simp [List.flatMap_cons] at ih ⊢; omega
  rw [this, foldl_set_length, egaBase_length]

/-! ## lists -/

theorem take_body (body rest : List Nat) (n : Nat) (h : rest.length = n) :
    (body ++ rest).take ((body ++ rest).length - n) = body := by
  have : (body ++ rest).length - n = body.length := by simp; omega
  rw [this]
  exact List.take_left' rfl

end IcyVerif.BinFormats
