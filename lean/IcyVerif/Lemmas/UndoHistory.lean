import IcyVerif.Lemmas.UndoFrame
set_option linter.unusedSimpArgs false
set_option linter.unusedVariables false
/-! # C08 framework: histories over the editor state, induction with the two stacks -/
namespace IcyVerif.Undo

/-- the inverse law for one record at one document: whenever `redo` succeeds, the record it leaves can be undone back to
    (a document observed as) `d`, redone, undone … for ever — from ANY document observed like the current one -/
def InverseAt (op : UndoOp) (d : Doc) : Prop := ∀ op' d', op.redo d = .ok (op', d') → Undoable op' d.obs d'.obs

/-- what the history's steps must satisfy: every record pushed is linked to the documents before/after its edit -/
def Step.Good : Step → Prop
  | .edit f => ∀ d op d', f d = .ok (some (op, d')) → Undoable op d.obs d'.obs
  | .act build => ∀ d op, build d = .ok (some op) → InverseAt op d
  | .touch f => ∀ d, (f d).obs = d.obs
  | _ => True

def Ed.undoN : Nat → Ed → Except Err Ed
  | 0, ed => .ok ed
  | k + 1, ed =>
    match ed.undo with
    | .ok ed' => ed'.undoN k
    | .error e => .error e

def Ed.redoN : Nat → Ed → Except Err Ed
  | 0, ed => .ok ed
  | k + 1, ed =>
    match ed.redo with
    | .ok ed' => ed'.redoN k
    | .error e => .error e

/-- both stacks are chains of links starting at the current document -/
structure Ed.WF (ed : Ed) (bs cs : List DObs) : Prop where
  ustack : UStack ed.doc.obs ed.undoStack bs
  rstack : RStack ed.doc.obs ed.redoStack cs

theorem Ed.undo_spec {ed : Ed} {op : UndoOp} {rest : List UndoOp} {b : DObs} {bs cs : List DObs}
    (hs : ed.undoStack = op :: rest) (h : ed.WF (b :: bs) cs) :
    ∃ ed', ed.undo = .ok ed' ∧ ed'.doc.obs = b ∧ ed'.undoStack = rest ∧ ed'.guards = ed.guards ∧ ed'.WF bs (ed.doc.obs :: cs) := by
  have hu := h.ustack
  rw [hs] at hu
  cases hu with
  | cons hop hrest =>
    obtain ⟨o2, e, h1, h2, h3⟩ := hop.step rfl
    refine ⟨{ ed with doc := e, undoStack := rest, redoStack := o2 :: ed.redoStack }, ?_, h2, rfl, rfl, ?_, ?_⟩
    · simp [Ed.undo, hs, h1]
    · simpa [h2] using hrest
    · show RStack e.obs (o2 :: ed.redoStack) (ed.doc.obs :: cs)
      rw [h2]
      exact .cons h3 h.rstack

theorem Ed.redo_spec {ed : Ed} {op : UndoOp} {rest : List UndoOp} {c : DObs} {bs cs : List DObs}
    (hs : ed.redoStack = op :: rest) (h : ed.WF bs (c :: cs)) :
    ∃ ed', ed.redo = .ok ed' ∧ ed'.doc.obs = c ∧ ed'.redoStack = rest ∧ ed'.undoStack.length = ed.undoStack.length + 1 ∧
      ed'.guards = ed.guards ∧ ed'.WF (ed.doc.obs :: bs) cs := by
  have hr := h.rstack
  rw [hs] at hr
  cases hr with
  | cons hop hrest =>
    obtain ⟨o2, e, h1, h2, h3⟩ := hop.step rfl
    refine ⟨{ ed with doc := e, redoStack := rest, undoStack := o2 :: ed.undoStack }, ?_, h2, rfl, by simp, rfl, ?_, ?_⟩
    · simp [Ed.redo, hs, h1]
    · show UStack e.obs (o2 :: ed.undoStack) (ed.doc.obs :: bs)
      rw [h2]
      exact .cons h3 h.ustack
    · simpa [h2] using hrest

/-- undoing `k` entries walks down the recorded document classes, redoing them walks back up: neither fails, the
    document classes (and the shape of both stacks) are those before -/
theorem Ed.undoN_redoN {k : Nat} : ∀ {ed : Ed} {bs cs : List DObs}, ed.WF bs cs → k ≤ ed.undoStack.length →
    ∃ ed2, ed.undoN k = .ok ed2 ∧ (ed.doc.obs :: bs)[k]? = some ed2.doc.obs ∧ ed2.undoStack = ed.undoStack.drop k ∧
      ∃ ed3, ed2.redoN k = .ok ed3 ∧ ed3.doc.obs = ed.doc.obs ∧ ed3.undoStack.length = ed.undoStack.length ∧
        ed3.redoStack.length = ed.redoStack.length ∧ ed3.WF bs cs := by
  induction k with
  | zero =>
    intro ed bs cs h _
    exact ⟨ed, rfl, by simp, by simp, ed, rfl, rfl, rfl, rfl, h⟩
  | succ k ih =>
    intro ed bs cs h hk
    cases hs : ed.undoStack with
    | nil => rw [hs] at hk; simp at hk
    | cons op rest =>
      have hlen := h.ustack.length_eq
      rw [hs] at hlen
      cases bs with
      | nil => simp at hlen
      | cons b bs =>
        obtain ⟨ed1, h1, h2, h3, _, h5⟩ := Ed.undo_spec hs h
        have hk' : k ≤ ed1.undoStack.length := by rw [h3]; rw [hs] at hk; simpa using hk
        obtain ⟨ed2, g1, g2, g3, ed3, g4, g5, g6, g7, g8⟩ := ih h5 hk'
        -- the redo stack of ed1 has one more entry than ed's; after redoing k from ed2 it has that shape again
        have hr3 : ∃ o r, ed3.redoStack = o :: r := by
          have : ed3.redoStack.length = ed1.redoStack.length := g7
          have h1r : ed1.redoStack.length = ed.redoStack.length + 1 := by
            have := h5.rstack
            have hl : ∀ {a : DObs} {ops : List UndoOp} {cs : List DObs}, RStack a ops cs → cs.length = ops.length := by
              intro a ops cs hh; induction hh with
              | nil => rfl
              | cons _ _ ih => simp [ih]
            have e1 := hl this
            have e2 := hl h.rstack
            simp at e1; omega
          cases hh : ed3.redoStack with
          | nil => rw [hh] at this; simp at this; omega
          | cons o r => exact ⟨o, r, rfl⟩
        obtain ⟨o, r, hr3⟩ := hr3
        obtain ⟨ed4, f1, f2, f3, f4, _, f6⟩ := Ed.redo_spec hr3 g8
        refine ⟨ed2, ?_, ?_, ?_, ed4, ?_, ?_, ?_, ?_, ?_⟩
        · simp [Ed.undoN, h1, g1]
        · simpa [h2] using g2
        · rw [g3, h3]; simp
        · -- redoN (k+1) ed2 = redoN k ed2 then one more redo
          have comm : ∀ (k : Nat) (x y z : Ed), x.redoN k = .ok y → y.redo = .ok z → x.redoN (k + 1) = .ok z := by
            intro k
            induction k with
            | zero => intro x y z hx hy; simp [Ed.redoN] at hx; subst hx; simp [Ed.redoN, hy]
            | succ k ihk =>
              intro x y z hx hy
              simp only [Ed.redoN] at hx
              cases hxr : x.redo with
              | error e => rw [hxr] at hx; simp at hx
              | ok x1 =>
                rw [hxr] at hx
                have := ihk x1 y z hx hy
                show (match x.redo with | .ok ed' => ed'.redoN (k + 1) | .error e => .error e) = _
                rw [hxr]; exact this
          exact comm k ed2 ed3 ed4 g4 f1
        · rw [f2]
        · rw [f4, g6, h3]; simp
        · rw [f3]
          have : ed3.redoStack.length = ed1.redoStack.length := g7
          have hl : ∀ {a : DObs} {ops : List UndoOp} {cs : List DObs}, RStack a ops cs → cs.length = ops.length := by
            intro a ops cs hh; induction hh with
            | nil => rfl
            | cons _ _ ih => simp [ih]
          have e1 := hl h5.rstack
          have e2 := hl h.rstack
          rw [hr3] at this
          simp at this e1; omega
        · rw [g5, h2] at f6
          exact f6

/-! ## the invariant of a history -/

/-- invariant of a history that started on a stack of height `floor` under the document class `a0` -/
structure Ed.Inv (floor : Nat) (a0 : DObs) (st0 : List UndoOp) (ed : Ed) : Prop where
  wf : ∃ bs cs, ed.WF bs cs ∧ (ed.doc.obs :: bs)[ed.undoStack.length - floor]? = some a0
  above : floor ≤ ed.undoStack.length
  bottom : ed.undoStack.drop (ed.undoStack.length - floor) = st0
  guards : ∀ g ∈ ed.guards, floor ≤ g

theorem Ed.Inv.push {floor : Nat} {a0 : DObs} {st0 : List UndoOp} {ed : Ed} (h : ed.Inv floor a0 st0) {op : UndoOp} {d' : Doc}
    (hop : Undoable op ed.doc.obs d'.obs) : (({ ed with doc := d' } : Ed).pushPlainUndo op).Inv floor a0 st0 := by
  obtain ⟨bs, cs, hwf, hbot⟩ := h.wf
  have habove := h.above
  refine ⟨⟨ed.doc.obs :: bs, [], ⟨.cons hop hwf.ustack, .nil _⟩, ?_⟩, ?_, ?_, h.guards⟩
  · show (d'.obs :: ed.doc.obs :: bs)[(op :: ed.undoStack).length - floor]? = some a0
    have : (op :: ed.undoStack).length - floor = (ed.undoStack.length - floor) + 1 := by simp; omega
    rw [this]; simpa using hbot
  · show floor ≤ (op :: ed.undoStack).length
    simp; omega
  · show (op :: ed.undoStack).drop ((op :: ed.undoStack).length - floor) = st0
    have : (op :: ed.undoStack).length - floor = (ed.undoStack.length - floor) + 1 := by simp; omega
    rw [this]; simpa using h.bottom

theorem Ed.Inv.endAtomic {floor : Nat} {a0 : DObs} {st0 : List UndoOp} {ed : Ed} (h : ed.Inv floor a0 st0) :
    ed.endAtomic.Inv floor a0 st0 := by
  obtain ⟨bs, cs, hwf, hbot⟩ := h.wf
  have habove := h.above
  unfold Ed.endAtomic
  cases hg : ed.guards with
  | nil => simpa [hg] using h
  | cons base gs =>
    have hbase : floor ≤ base := h.guards base (by simp [hg])
    have hgs : ∀ g ∈ gs, floor ≤ g := fun g hg' => h.guards g (by simp [hg, hg'])
    simp only []
    by_cases hc : base ≥ ed.undoStack.length
    · simp only [hc, if_true]
      exact ⟨⟨bs, cs, ⟨hwf.ustack, hwf.rstack⟩, hbot⟩, habove, h.bottom, hgs⟩
    · simp only [hc, if_false]
      have hn : ed.undoStack.length - base - 1 < ed.undoStack.length := by omega
      obtain ⟨b, hb1, hb2, hb3⟩ := hwf.ustack.fold (ed.undoStack.length - base - 1) hn
      have hn1 : ed.undoStack.length - base - 1 + 1 = ed.undoStack.length - base := by omega
      rw [hn1] at hb2 hb3
      have hlen := hwf.ustack.length_eq
      refine ⟨⟨b :: bs.drop (ed.undoStack.length - base), cs, ⟨.cons (undoable_atomic hb2) hb3, hwf.rstack⟩, ?_⟩, ?_, ?_, hgs⟩
      · show (ed.doc.obs :: b :: bs.drop (ed.undoStack.length - base))[(UndoOp.atomic _ :: ed.undoStack.drop (ed.undoStack.length - base)).length - floor]? = some a0
        simp only [List.length_cons, List.length_drop]
        have e1 : ed.undoStack.length - (ed.undoStack.length - base) + 1 - floor = (base - floor) + 1 := by omega
        rw [e1]
        simp only [List.getElem?_cons_succ]
        -- (b :: bs.drop n)[base - floor] = (obs :: bs)[len - floor]
        have e2 : ed.undoStack.length - floor = (ed.undoStack.length - base - 1) + (base - floor) + 1 := by omega
        rw [e2] at hbot
        simp only [List.getElem?_cons_succ] at hbot
        by_cases hz : base - floor = 0
        · rw [hz]; rw [hz] at hbot
          simpa [hb1] using hbot
        · obtain ⟨j, hj⟩ : ∃ j, base - floor = j + 1 := ⟨base - floor - 1, by omega⟩
          rw [hj]; rw [hj] at hbot
          simp only [List.getElem?_cons_succ, List.getElem?_drop]
          have : ed.undoStack.length - base + j = ed.undoStack.length - base - 1 + (j + 1) := by omega
          rw [this]; exact hbot
      · show floor ≤ (UndoOp.atomic _ :: ed.undoStack.drop (ed.undoStack.length - base)).length
        simp; omega
      · show (UndoOp.atomic _ :: ed.undoStack.drop (ed.undoStack.length - base)).drop
            ((UndoOp.atomic _ :: ed.undoStack.drop (ed.undoStack.length - base)).length - floor) = st0
        simp only [List.length_cons, List.length_drop]
        have e1 : ed.undoStack.length - (ed.undoStack.length - base) + 1 - floor = (base - floor) + 1 := by omega
        rw [e1]
        simp only [List.drop_succ_cons, List.drop_drop]
        have : ed.undoStack.length - base + (base - floor) = ed.undoStack.length - floor := by omega
        rw [Nat.add_comm] at this
        have h2 := h.bottom
        first
          | (rw [this]; exact h2)
          | (rw [Nat.add_comm, this] ; exact h2)
          | (rw [Nat.add_comm] at this; rw [this]; exact h2)


theorem RStack.length_eq {a : DObs} {ops : List UndoOp} {cs : List DObs} (h : RStack a ops cs) : cs.length = ops.length := by
  induction h with
  | nil => rfl
  | cons _ _ ih => simp [ih]

theorem Ed.Inv.touch {floor : Nat} {a0 : DObs} {st0 : List UndoOp} {ed : Ed} (h : ed.Inv floor a0 st0) {f : Doc → Doc}
    (hf : (f ed.doc).obs = ed.doc.obs) : ({ ed with doc := f ed.doc } : Ed).Inv floor a0 st0 := by
  obtain ⟨bs, cs, hwf, hbot⟩ := h.wf
  refine ⟨⟨bs, cs, ⟨?_, ?_⟩, ?_⟩, h.above, h.bottom, h.guards⟩
  · show UStack (f ed.doc).obs ed.undoStack bs
    rw [hf]; exact hwf.ustack
  · show RStack (f ed.doc).obs ed.redoStack cs
    rw [hf]; exact hwf.rstack
  · show ((f ed.doc).obs :: bs)[ed.undoStack.length - floor]? = some a0
    rw [hf]; exact hbot

theorem Ed.Inv.beginAtomic {floor : Nat} {a0 : DObs} {st0 : List UndoOp} {ed : Ed} (h : ed.Inv floor a0 st0) :
    ed.beginAtomic.Inv floor a0 st0 := by
  obtain ⟨bs, cs, hwf, hbot⟩ := h.wf
  refine ⟨⟨bs, [], ⟨hwf.ustack, .nil _⟩, hbot⟩, h.above, h.bottom, ?_⟩
  intro g hg
  simp [Ed.beginAtomic] at hg
  rcases hg with rfl | hg
  · exact h.above
  · exact h.guards g hg

theorem Ed.Inv.clearRedo {floor : Nat} {a0 : DObs} {st0 : List UndoOp} {ed : Ed} (h : ed.Inv floor a0 st0) :
    ({ ed with redoStack := [] } : Ed).Inv floor a0 st0 := by
  obtain ⟨bs, cs, hwf, hbot⟩ := h.wf
  exact ⟨⟨bs, [], ⟨hwf.ustack, .nil _⟩, hbot⟩, h.above, h.bottom, h.guards⟩

theorem Ed.Inv.undo {floor : Nat} {a0 : DObs} {st0 : List UndoOp} {ed : Ed} (h : ed.Inv floor a0 st0)
    (hlen : floor < ed.undoStack.length) : ∃ ed', ed.undo = .ok ed' ∧ ed'.Inv floor a0 st0 := by
  obtain ⟨bs, cs, hwf, hbot⟩ := h.wf
  cases hs : ed.undoStack with
  | nil => rw [hs] at hlen; simp at hlen
  | cons op rest =>
    have hl := hwf.ustack.length_eq
    rw [hs] at hl
    cases bs with
    | nil => simp at hl
    | cons b bs =>
      obtain ⟨ed', h1, h2, h3, h4, h5⟩ := Ed.undo_spec hs hwf
      rw [hs] at hlen hbot
      have hb := h.bottom
      rw [hs] at hb
      refine ⟨ed', h1, ⟨bs, _, h5, ?_⟩, ?_, ?_, ?_⟩
      · rw [h2, h3]
        have : (op :: rest).length - floor = (rest.length - floor) + 1 := by simp at hlen ⊢; omega
        rw [this] at hbot
        simpa using hbot
      · rw [h3]; simp at hlen; omega
      · rw [h3]
        have : (op :: rest).length - floor = (rest.length - floor) + 1 := by simp at hlen ⊢; omega
        rw [this] at hb
        simpa using hb
      · rw [h4]; exact h.guards

theorem Ed.Inv.redo {floor : Nat} {a0 : DObs} {st0 : List UndoOp} {ed : Ed} (h : ed.Inv floor a0 st0) :
    ∃ ed', ed.redo = .ok ed' ∧ ed'.Inv floor a0 st0 := by
  obtain ⟨bs, cs, hwf, hbot⟩ := h.wf
  cases hs : ed.redoStack with
  | nil => exact ⟨ed, by simp [Ed.redo, hs], h⟩
  | cons op rest =>
    have hl := hwf.rstack.length_eq
    rw [hs] at hl
    cases cs with
    | nil => simp at hl
    | cons c cs =>
      obtain ⟨ed', h1, h2, h3, h4, h5, h6⟩ := Ed.redo_spec hs hwf
      have habove := h.above
      -- the new undo stack is one entry on top of the old one
      have hstack : ∃ o2, ed'.undoStack = o2 :: ed.undoStack := by
        simp only [Ed.redo, hs] at h1
        cases hr : op.redo ed.doc with
        | error e => rw [hr] at h1; simp at h1
        | ok p =>
          rw [hr] at h1
          simp at h1
          exact ⟨p.1, by rw [← h1]⟩
      obtain ⟨o2, hst⟩ := hstack
      refine ⟨ed', h1, ⟨_, cs, h6, ?_⟩, ?_, ?_, ?_⟩
      · rw [h2, hst]
        have : (o2 :: ed.undoStack).length - floor = (ed.undoStack.length - floor) + 1 := by simp; omega
        rw [this]
        simpa using hbot
      · rw [hst]; simp; omega
      · rw [hst]
        have : (o2 :: ed.undoStack).length - floor = (ed.undoStack.length - floor) + 1 := by simp; omega
        rw [this]
        simpa using h.bottom
      · rw [h5]; exact h.guards

/-- one step of a good history keeps the invariant; `undo`/`redo` steps do not fail -/
theorem Ed.Inv.step {floor : Nat} {a0 : DObs} {st0 : List UndoOp} {ed : Ed} (h : ed.Inv floor a0 st0) {s : Step} (hg : s.Good) :
    (∀ e, ed.step floor s ≠ .error (.undoFailed e)) ∧ (∀ e, ed.step floor s ≠ .error (.redoFailed e)) ∧
      ∀ ed', ed.step floor s = .ok ed' → ed'.Inv floor a0 st0 := by
  cases s with
  | edit f =>
    simp only [Ed.step]
    cases hf : f ed.doc with
    | error e => simp
    | ok p =>
      cases p with
      | none =>
        refine ⟨by simp, by simp, ?_⟩
        intro ed' he
        simp at he
        subst he
        exact h
      | some q =>
        obtain ⟨op, d'⟩ := q
        refine ⟨by simp, by simp, ?_⟩
        intro ed' he
        simp at he
        subst he
        exact h.push (hg ed.doc op d' hf)
  | act build =>
    simp only [Ed.step]
    cases hb : build ed.doc with
    | error e => simp
    | ok q =>
      cases q with
      | none =>
        refine ⟨by simp, by simp, ?_⟩
        intro ed' he
        simp at he
        subst he
        exact h
      | some op =>
        simp only [Ed.pushUndoAction]
        cases hr : op.redo ed.doc with
        | error e => simp
        | ok p =>
          obtain ⟨op', d'⟩ := p
          refine ⟨by simp, by simp, ?_⟩
          intro ed' he
          simp at he
          subst he
          exact h.push (hg ed.doc op hb op' d' hr)
  | touch f =>
    refine ⟨by simp [Ed.step], by simp [Ed.step], ?_⟩
    intro ed' he
    simp [Ed.step] at he
    subst he
    exact h.touch (f := f) (hg ed.doc)
  | clearRedo p =>
    refine ⟨by simp [Ed.step], by simp [Ed.step], ?_⟩
    intro ed' he
    simp [Ed.step] at he
    subst he
    by_cases hp : p ed.doc = true
    · simp only [hp, if_true]; exact h.clearRedo
    · simp only [hp, if_false]; exact h
  | beginAtomic =>
    refine ⟨by simp [Ed.step], by simp [Ed.step], ?_⟩
    intro ed' he
    simp [Ed.step] at he
    subst he
    exact h.beginAtomic
  | endAtomic =>
    refine ⟨by simp [Ed.step], by simp [Ed.step], ?_⟩
    intro ed' he
    simp [Ed.step] at he
    subst he
    exact h.endAtomic
  | undo =>
    simp only [Ed.step]
    by_cases hl : ed.undoStack.length ≤ floor
    · simp only [hl, if_true]
      refine ⟨by simp, by simp, ?_⟩
      intro ed' he
      simp at he
      subst he
      exact h
    · simp only [hl, if_false]
      obtain ⟨ed1, h1, h2⟩ := h.undo (by omega)
      rw [h1]
      refine ⟨by simp, by simp, ?_⟩
      intro ed' he
      simp at he
      subst he
      exact h2
  | redo =>
    simp only [Ed.step]
    obtain ⟨ed1, h1, h2⟩ := h.redo
    rw [h1]
    refine ⟨by simp, by simp, ?_⟩
    intro ed' he
    simp at he
    subst he
    exact h2

theorem Ed.Inv.run {floor : Nat} {a0 : DObs} {st0 : List UndoOp} (hist : List Step) : ∀ {ed : Ed}, ed.Inv floor a0 st0 →
    (∀ s ∈ hist, s.Good) →
    (∀ e, ed.run floor hist ≠ .error (.undoFailed e)) ∧ (∀ e, ed.run floor hist ≠ .error (.redoFailed e)) ∧
      ∀ ed', ed.run floor hist = .ok ed' → ed'.Inv floor a0 st0 := by
  induction hist with
  | nil =>
    intro ed h _
    refine ⟨by simp [Ed.run], by simp [Ed.run], ?_⟩
    intro ed' he
    simp [Ed.run] at he
    subst he
    exact h
  | cons s rest ih =>
    intro ed h hg
    obtain ⟨s1, s2, s3⟩ := h.step (hg s (by simp))
    simp only [Ed.run]
    cases hs : ed.step floor s with
    | error e =>
      refine ⟨?_, ?_, by simp⟩
      · intro e' he'
        simp at he'
        subst he'
        exact s1 _ hs
      · intro e' he'
        simp at he'
        subst he'
        exact s2 _ hs
    | ok ed1 =>
      exact ih (s3 ed1 hs) (fun s' hs' => hg s' (by simp [hs']))

/-- the invariant at the start of a history: any editor state whose stacks are chains of links and with no open guard -/
theorem Ed.Inv.init {ed : Ed} {bs cs : List DObs} (h : ed.WF bs cs) (hg : ed.guards = []) :
    ed.Inv ed.undoStack.length ed.doc.obs ed.undoStack := by
  refine ⟨⟨bs, cs, h, by simp⟩, Nat.le_refl _, by simp, ?_⟩
  intro g hg'
  rw [hg] at hg'
  simp at hg'

/-- from the invariant: undoing what the history added restores the initial document class and stack, redoing it
    restores the final one; neither fails -/
theorem Ed.Inv.undo_all {floor : Nat} {a0 : DObs} {st0 : List UndoOp} {ed : Ed} (h : ed.Inv floor a0 st0) :
    ∃ ed2, ed.undoN (ed.undoStack.length - floor) = .ok ed2 ∧ ed2.doc.obs = a0 ∧ ed2.undoStack = st0 ∧
      ∃ ed3, ed2.redoN (ed.undoStack.length - floor) = .ok ed3 ∧ ed3.doc.obs = ed.doc.obs ∧
        ed3.undoStack.length = ed.undoStack.length := by
  obtain ⟨bs, cs, hwf, hbot⟩ := h.wf
  obtain ⟨ed2, h1, h2, h3, ed3, h4, h5, h6, _, _⟩ := Ed.undoN_redoN (k := ed.undoStack.length - floor) hwf (by omega)
  refine ⟨ed2, h1, ?_, ?_, ed3, h4, h5, h6⟩
  · rw [hbot] at h2
    simpa using h2.symm
  · rw [h3]; exact h.bottom

end IcyVerif.Undo
