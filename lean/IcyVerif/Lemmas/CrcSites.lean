import IcyVerif.Model.CrcSites
import IcyVerif.Lemmas.Crc16
import IcyVerif.Lemmas.Crc32
set_option linter.unusedSimpArgs false
/-! Lemmas for the CRC call sites: nested feeding loops = one fold over the serialised bytes; XOR-linearity of the raw CRC-32
register in its initial value; the cache invariant of `Palette::get_checksum`. -/
namespace IcyVerif.CrcSites
open IcyVerif.Crc IcyVerif.Gen.CrcSites

/-! ### folds over nested loops -/
theorem foldl_flatMap' {α β γ : Type} (f : β → List γ) (g : α → γ → α) (l : List β) (a : α) :
    (l.flatMap f).foldl g a = l.foldl (fun a x => (f x).foldl g a) a := by
  induction l generalizing a with
  | nil => rfl
  | cons x xs ih => simp only [List.flatMap_cons, List.foldl_append, List.foldl_cons, ih]

theorem foldl_filterMap' {α β γ : Type} (f : β → Option γ) (g : α → γ → α) (l : List β) (a : α) :
    (l.filterMap f).foldl g a = l.foldl (fun a x => match f x with | some y => g a y | none => a) a := by
  induction l generalizing a with
  | nil => rfl
  | cons x xs ih =>
    simp only [List.filterMap_cons, List.foldl_cons]
    cases h : f x with
    | none => simp only [ih]
    | some y => simp only [List.foldl_cons, ih]

theorem foldl_filterMap_flatten {α β γ : Type} (f : β → Option (List γ)) (g : α → γ → α) (l : List β) (a : α) :
    ((l.filterMap f).flatten).foldl g a = l.foldl (fun a x => match f x with | some y => y.foldl g a | none => a) a := by
  induction l generalizing a with
  | nil => rfl
  | cons x xs ih =>
    simp only [List.filterMap_cons, List.foldl_cons]
    cases h : f x with
    | none => simp only [ih]
    | some y => simp only [List.flatten_cons, List.foldl_append, ih]

/-! ### DECRQCRA -/
theorem cellFold_eq (crc : BitVec 16) (c : Cell) : cellFold crc c = c.serial.foldl updateCrc16 crc := by
  unfold cellFold Cell.serial
  rw [foldl_flatMap']

theorem rectChecksum_fold (g : Grid) (pt pl pb pr : Nat) :
    rectChecksum g pt pl pb pr = (rectSerial g pt pl pb pr).foldl updateCrc16 0 := by
  unfold rectChecksum rectSerial rectCells
  rw [foldl_flatMap', foldl_flatMap']
  congr 1
  funext crc y
  rw [foldl_filterMap']
  congr 1
  funext crc x
  by_cases h : (getCell g x y).visible
  · simp only [h, if_true, cellFold_eq]
  · simp only [h, if_false, Bool.false_eq_true]

/-! ### the raw CRC-32 register is XOR-linear in (initial value, data) -/
theorem bitUpd32_xor (r s : BitVec 32) (b : BitVec 8) :
    bitUpd32 (r ^^^ s) b = bitUpd32 r b ^^^ bitUpd32 s 0 := by
  unfold bitUpd32
  rw [← Z, ← Z, ← Z, ← Z_linear]
  congr 1
  have : (0 : BitVec 8).setWidth 32 = 0#32 := by decide
  rw [this, BitVec.xor_zero]
  ac_rfl

theorem raw_fold_xor (bs : List (BitVec 8)) (r s : BitVec 32) :
    bs.foldl bitUpd32 (r ^^^ s) = bs.foldl bitUpd32 r ^^^ (List.replicate bs.length (0 : BitVec 8)).foldl bitUpd32 s := by
  induction bs generalizing r s with
  | nil => rfl
  | cons b bs ih =>
    simp only [List.foldl_cons, List.length_cons, List.replicate_succ]
    rw [bitUpd32_xor, ih]

theorem fold_upd_eq_bit (bs : List (BitVec 8)) (r : BitVec 32) : bs.foldl updateCrc32 r = bs.foldl bitUpd32 r := by
  induction bs generalizing r with
  | nil => rfl
  | cons b bs ih => simp only [List.foldl_cons]; rw [update_crc32_eq, ih]

theorem not_xor_not (a b : BitVec 32) : ~~~ a ^^^ ~~~ b = a ^^^ b := by
  apply BitVec.eq_of_getLsbD_eq
  intro j hj
  simp [hj]

/-- the register started at 0 (what fonts and palettes store) in terms of the standard CRC-32 (all-ones start, final inversion) -/
theorem raw_zero_eq (bs : List (BitVec 8)) :
    bs.foldl bitUpd32 0 = bitCrc32 bs ^^^ bitCrc32 (List.replicate bs.length 0) := by
  have h := raw_fold_xor bs (0xFFFFFFFF#32) (0xFFFFFFFF#32)
  rw [BitVec.xor_self] at h
  unfold bitCrc32
  rw [not_xor_not]
  exact h

/-! ### fonts -/
theorem fontChecksum_fold (length : Int) (t : GlyphTable) :
    fontChecksum length t = (fontBytes length t).foldl updateCrc32 (BitVec.ofNat 32 fontInit) := by
  unfold fontChecksum fontBytes
  rw [foldl_filterMap_flatten]
  congr 1
  funext crc ch
  cases glyphAt t ch <;> rfl

theorem isScalar_small (n : Nat) (h : n < 0xD800) : isScalar n = true := by
  unfold isScalar
  simp [h]

/-- looking up the indices `k .. k+n` of a table whose entries from `k` on are `gs.map some` gives back `gs` -/
theorem filterMap_glyphs (pre : List (Option (List Byte))) (gs : List (List Byte)) (h : pre.length + gs.length ≤ 0xD800) :
    (List.range' pre.length gs.length).filterMap (glyphAt (pre ++ gs.map some)) = gs := by
  induction gs generalizing pre with
  | nil => rfl
  | cons g gs ih =>
    simp only [List.length_cons] at h
    simp only [List.length_cons, List.range'_succ, List.filterMap_cons]
    have h1 : glyphAt (pre ++ (g :: gs).map some) pre.length = some g := by
      unfold glyphAt
      rw [isScalar_small _ (by omega)]
      simp [List.getD_eq_getElem?_getD]
    rw [h1]
    congr 1
    have := ih (pre ++ [some g]) (by simp; omega)
    simp only [List.length_append, List.length_cons, List.length_nil, List.append_assoc, List.cons_append,
      List.nil_append, Nat.zero_add] at this
    simpa [List.map_cons] using this

/-! ### palettes -/
theorem colorFold_eq (reg : BitVec 32) (c : Rgb) : colorFold reg c = c.serial.foldl updateCrc32 reg := by
  unfold colorFold Rgb.serial
  rw [List.foldl_map]

theorem colors_fold (cs : List Rgb) (reg : BitVec 32) : cs.foldl colorFold reg = (palBytes cs).foldl updateCrc32 reg := by
  unfold palBytes
  rw [foldl_flatMap']
  have : colorFold = fun reg c => c.serial.foldl updateCrc32 reg := by
    funext reg c
    exact colorFold_eq reg c
  rw [this]

/-- the cache invariant: the register is the fold over the first `old` colours -/
def Pal.Good (p : Pal) : Prop := p.old ≤ p.colors.length ∧ p.reg = (p.colors.take p.old).foldl colorFold 0

theorem good_fresh (cs : List Rgb) : (Pal.fresh cs).Good := by
  unfold Pal.Good Pal.fresh
  have h1 : palInitOld = 0 := rfl
  have h2 : palInitReg = 0 := rfl
  simp [h1, h2]

theorem good_invalidate (p : Pal) : p.invalidate.Good := by
  unfold Pal.Good Pal.invalidate
  simp

theorem good_append (p : Pal) (h : p.Good) (xs : List Rgb) : ({ p with colors := p.colors ++ xs } : Pal).Good := by
  obtain ⟨h1, h2⟩ := h
  refine ⟨by simp; omega, ?_⟩
  simp only
  rw [List.take_append_of_le_length h1]
  exact h2

theorem length_resizeVec (cs : List Rgb) (n : Nat) : (resizeVec cs n).length = n := by
  unfold resizeVec
  simp only [List.length_append, List.length_take, List.length_replicate]
  omega

theorem fillTo16_eq (cs : List Rgb) : ∃ xs, fillTo16 cs = cs ++ xs := by
  unfold fillTo16
  split
  · exact ⟨_, rfl⟩
  · exact ⟨[], by simp⟩

/-- growing keeps every colour that was there -/
theorem resizeVec_grow (cs xs : List Rgb) (n : Nat) (h : cs.length ≤ n) : ∃ ys, resizeVec (cs ++ xs) n = cs ++ ys := by
  unfold resizeVec
  refine ⟨xs.take (n - cs.length) ++ List.replicate (n - (cs ++ xs).length) colorDefaultRgb, ?_⟩
  rw [List.take_append, List.take_of_length_le h, List.append_assoc]

theorem good_getChecksum (p : Pal) (h : p.Good) : p.getChecksum.1.Good := by
  obtain ⟨h1, h2⟩ := h
  unfold Pal.getChecksum Pal.Good
  simp only [Nat.le_refl, List.take_length, true_and]
  rw [h2, ← List.foldl_append, List.take_append_drop]

theorem good_resize (p : Pal) (n : Nat) (h : p.Good) : (p.resize n).Good := by
  unfold Pal.resize
  by_cases hn : n > p.colors.length
  · simp only [hn, if_true, length_resizeVec, Nat.lt_irrefl, if_false]
    obtain ⟨xs, hx⟩ := fillTo16_eq p.colors
    obtain ⟨ys, hy⟩ := resizeVec_grow p.colors xs n (by omega)
    rw [hx, hy]
    exact good_append p h ys
  · simp only [hn, if_false]
    split
    · exact good_invalidate _
    · exact h

theorem good_insert (p : Pal) (c : Rgb) (h : p.Good) : (p.insertColor c).1.Good := by
  unfold Pal.insertColor
  split
  · exact h
  · exact good_append p h [c]

theorem good_step (p : Pal) (op : PalOp) (h : p.Good) : (p.step op).1.Good := by
  cases op with
  | push c => exact good_append p h [c]
  | setColor i c => exact good_invalidate _
  | clear => exact good_invalidate _
  | resize n => exact good_resize p n h
  | fill16 =>
    obtain ⟨xs, hx⟩ := fillTo16_eq p.colors
    show ({ p with colors := fillTo16 p.colors } : Pal).Good
    rw [hx]
    exact good_append p h xs
  | insertColor c => exact good_insert p c h
  | getChecksum => exact good_getChecksum p h
  | clone => exact h

theorem good_run (p : Pal) (ops : List PalOp) (h : p.Good) : (p.run ops).Good := by
  unfold Pal.run
  induction ops generalizing p with
  | nil => exact h
  | cons op ops ih => exact ih _ (good_step p op h)

/-- in a good state `get_checksum` returns the fold over ALL colours present -/
theorem getChecksum_of_good (p : Pal) (h : p.Good) : p.getChecksum.2 = p.colors.foldl colorFold 0 := by
  obtain ⟨h1, h2⟩ := h
  unfold Pal.getChecksum
  simp only
  rw [h2, ← List.foldl_append, List.take_append_drop]

end IcyVerif.CrcSites
