import IcyVerif.Lemmas.PaletteText
set_option linter.unusedSimpArgs false
/-! Export → import of the five palette file formats gives back the RGB sequence (C16). -/
namespace IcyVerif.Palette
open IcyVerif.Gen.Palette

/-- metadata without line breaks (what `export_palette` hands to `export_lines`) -/
def Pal.Clean (p : Pal) : Prop :=
  NoBreak p.title ∧ NoBreak p.author ∧ NoBreak p.description ∧ ∀ c ∈ p.colors, ∀ n, c.name = some n → NoBreak n

/-- all colours are three `u8` -/
def Pal.ValidColors (p : Pal) : Prop := ∀ c ∈ p.colors, c.rgb.Valid

theorem flatten_clean (p : Pal) : p.flatten.Clean := by
  refine ⟨oneLine_noBreak _, oneLine_noBreak _, oneLine_noBreak _, ?_⟩
  intro c hc n hn
  simp only [Pal.flatten, List.mem_map] at hc
  obtain ⟨c0, _, rfl⟩ := hc
  cases h : c0.name with
  | none => simp [h] at hn
  | some m => simp [h] at hn; rw [← hn]; exact oneLine_noBreak _

theorem flatten_rgbs (p : Pal) : p.flatten.rgbs = p.rgbs := by
  simp [Pal.flatten, Pal.rgbs, List.map_map, Function.comp_def]

theorem flatten_valid (p : Pal) (h : p.ValidColors) : p.flatten.ValidColors := by
  intro c hc
  simp only [Pal.flatten, List.mem_map] at hc
  obtain ⟨c0, h0, rfl⟩ := hc
  exact h c0 h0

/-! ### shapes of the generated templates (closed facts about `Gen/Palette.lean`) -/

def lineOf (segs : List (List Nat)) : List Nat := (segs.getD 0 []).dropLast
/-- a template without placeholders that is one line -/
def isLineTpl (segs : List (List Nat)) : Bool := segs == [lineOf segs ++ [10]] && noBreakB (lineOf segs)
def pfxOf (segs : List (List Nat)) : List Nat := segs.getD 0 []
/-- `<comment char><label>{}\n` -/
def isMetaTpl (comment : Nat) (segs : List (List Nat)) : Bool :=
  segs == [pfxOf segs, [10]] && noBreakB (pfxOf segs) && (pfxOf segs).head? == some comment

theorem tpl_line (segs : List (List Nat)) (h : isLineTpl segs = true) :
    tpl segs [] = lineOf segs ++ [10] ∧ NoBreak (lineOf segs) := by
  simp only [isLineTpl, Bool.and_eq_true, beq_iff_eq] at h
  constructor
  · rw [h.1]; simp [tpl, lineOf]
  · exact noBreak_of_B _ h.2

theorem tpl_meta (comment : Nat) (segs : List (List Nat)) (v : List Nat) (h : isMetaTpl comment segs = true) (hv : NoBreak v) :
    tpl segs [v] = (pfxOf segs ++ v) ++ [10] ∧ NoBreak (pfxOf segs ++ v) ∧ (pfxOf segs ++ v).head? = some comment := by
  simp only [isMetaTpl, Bool.and_eq_true, beq_iff_eq] at h
  refine ⟨?_, (noBreak_of_B _ h.1.2).append hv, ?_⟩
  · have e := h.1.1
    generalize pfxOf segs = pf at e ⊢
    rw [e]; simp [tpl]
  · have := h.2
    cases hp : pfxOf segs with
    | nil => rw [hp] at this; simp at this
    | cons a as => rw [hp] at this; simpa using this

theorem shapes :
    hexColorSegs = [[], [], [], [10]] ∧ palColorSegs = [[], [32], [32], [10]] ∧ palCountSegs = [[], [10]] ∧
    gplColorSegs = [[], [32], [32], [32], [10]] ∧ iceColorSegs = [[], [], [], [10]] ∧
    txtColorSegs = [[70, 70], [], [], [10]] ∧ palIgnoredLines = [1, 2] ∧
    gplComment = 35 ∧ iceComment = 35 ∧ txtComment = 59 := by decide

theorem line_shapes :
    isLineTpl palMagicSegs = true ∧ lineOf palMagicSegs = palMagicLine ∧ isLineTpl palVersionSegs = true ∧
    isLineTpl gplMagicSegs = true ∧ lineOf gplMagicSegs = gplMagicLine ∧
    isLineTpl iceMagicSegs = true ∧ lineOf iceMagicSegs = iceMagicLine ∧
    isLineTpl txtMagicSegs = true ∧ (lineOf txtMagicSegs).head? = some txtComment := by decide

theorem meta_shapes :
    isMetaTpl gplComment gplNameSegs = true ∧ isMetaTpl gplComment gplAuthorSegs = true ∧
    isMetaTpl gplComment gplDescriptionSegs = true ∧ isMetaTpl gplComment gplCountSegs = true ∧
    isMetaTpl iceComment iceNameSegs = true ∧ isMetaTpl iceComment iceAuthorSegs = true ∧
    isMetaTpl iceComment iceDescriptionSegs = true ∧ isMetaTpl iceComment iceCountSegs = true ∧
    isMetaTpl iceComment iceColorNameSegs = true ∧
    isMetaTpl txtComment txtNameSegs = true ∧ isMetaTpl txtComment txtAuthorSegs = true ∧
    isMetaTpl txtComment txtDescriptionSegs = true ∧ isMetaTpl txtComment txtCountSegs = true := by decide

/-! ### generic fold -/

theorem flatMap_congr' {α β : Type} (l : List α) (f g : α → List β) (h : ∀ a ∈ l, f a = g a) :
    l.flatMap f = l.flatMap g := by
  induction l with
  | nil => rfl
  | cons a as ih => simp [h a (by simp), ih (fun x hx => h x (by simp [hx]))]

theorem flatMap_single {α β : Type} (f : α → β) (l : List α) : (l.flatMap fun a => [f a]) = l.map f := by
  induction l with
  | nil => rfl
  | cons a as ih => simp [ih]

theorem foldOpt_adds {σ β : Type} (f : σ → List Nat → Option σ) (proj : σ → List Rgb) (render : β → List Nat)
    (add : β → List Rgb) (src : List β)
    (h : ∀ b ∈ src, ∀ st, ∃ st', f st (render b) = some st' ∧ proj st' = proj st ++ add b) :
    ∀ st, ∃ st', foldOpt f st (src.map render) = some st' ∧ proj st' = proj st ++ src.flatMap add := by
  induction src with
  | nil => intro st; exact ⟨st, rfl, by simp⟩
  | cons b bs ih =>
    intro st
    obtain ⟨s1, h1, p1⟩ := h b (by simp) st
    obtain ⟨s2, h2, p2⟩ := ih (fun x hx => h x (by simp [hx])) s1
    refine ⟨s2, ?_, ?_⟩
    · simp only [List.map_cons, foldOpt, h1, h2]
    · rw [p2, p1]; simp

/-! ### Hex -/

theorem tpl4 (a b c : List Nat) (s0 s1 s2 s3 : List Nat) :
    tpl [s0, s1, s2, s3] [a, b, c] = s0 ++ a ++ (s1 ++ b ++ (s2 ++ c ++ s3)) := by simp [tpl]

theorem scan_hex_colors (cs : List Color) (h : ∀ c ∈ cs, c.rgb.Valid) :
    scanWith (hexRun 6) (cs.flatMap fun c => hex6 c.rgb ++ [10]) 0 = cs.map fun c => hex6 c.rgb := by
  induction cs with
  | nil => rfl
  | cons c cs ih =>
    obtain ⟨hd, tl, e, _, _⟩ := hex6_head c.rgb
    have hrun := hex6_run c.rgb (10 :: (cs.flatMap fun c => hex6 c.rgb ++ [10]))
    simp only [List.flatMap_cons, List.map_cons, List.append_assoc, List.cons_append, List.nil_append]
    rw [e] at hrun ⊢
    simp only [List.cons_append] at hrun ⊢
    rw [scanWith_match _ hd tl _ _ hrun, scanWith_nomatch _ _ _ (hexRun_break 5 _)]
    rw [ih (fun x hx => h x (by simp [hx]))]

theorem import_hex (p : Pal) (hv : p.ValidColors) :
    ∃ q, importM .hex (exportLines .hex p) = some q ∧ q.rgbs = p.rgbs := by
  refine ⟨_, rfl, ?_⟩
  simp only [Pal.rgbs, colorsOfHexText, exportLines, shapes.1, tpl4, List.nil_append, List.map_map]
  have : (p.colors.flatMap fun c => hex2 c.rgb.r ++ (hex2 c.rgb.g ++ (hex2 c.rgb.b ++ [10]))) =
      p.colors.flatMap fun c => hex6 c.rgb ++ [10] := by
    rfl
  rw [this, scan_hex_colors p.colors hv, List.map_map]
  apply List.map_congr_left
  intro c hc
  exact rgbOfHex6_hex6 c.rgb (hv c hc)

/-! ### decimal colour lines (PAL, GPL) -/

theorem dec_run (n : Nat) (h : n < 256) : dec n ≠ [] ∧ ∀ c ∈ dec n, isDigit c = true :=
  ⟨(dec_byte n h).1, fun c hc => (isDigit_iff c).mpr (dec_digits n c hc)⟩

theorem rgbOfDec_dec (c : Rgb) (h : c.Valid) : rgbOfDec (dec c.r, dec c.g, dec c.b) = some c := by
  simp only [rgbOfDec, (dec_byte c.r h.1).2.2, (dec_byte c.g h.2.1).2.2, (dec_byte c.b h.2.2).2.2]

/-- `r g b` as the PAL exporter writes it -/
def palLine (c : Rgb) : List Nat := dec c.r ++ (32 :: (dec c.g ++ (32 :: dec c.b)))

theorem palLine_noBreak (c : Rgb) : NoBreak (palLine c) :=
  (dec_noBreak _).append (NoBreak.cons (by decide) ((dec_noBreak _).append (NoBreak.cons (by decide) (dec_noBreak _))))

theorem palLineColors_palLine (c : Rgb) (h : c.Valid) : palLineColors (palLine c) = some [⟨none, c⟩] := by
  have hr := dec_run c.r h.1
  have hg := dec_run c.g h.2.1
  have hb := dec_run c.b h.2.2
  have hat := rgbAt_triple (dec c.r) (dec c.g) (dec c.b) [] 0 0 hr hg hb rfl
  simp only [List.replicate_succ, List.replicate_zero, List.cons_append, List.nil_append, List.append_nil] at hat
  obtain ⟨d0, ds, e⟩ := List.exists_cons_of_ne_nil hr.1
  have hl : palLine c = d0 :: ((ds ++ (32 :: (dec c.g ++ (32 :: dec c.b)))) ++ []) := by simp [palLine, e]
  have hat' : rgbAt (d0 :: ((ds ++ (32 :: (dec c.g ++ (32 :: dec c.b)))) ++ [])) = some ((dec c.r, dec c.g, dec c.b), []) := by
    rw [← hl]; exact hat
  unfold palLineColors
  rw [hl, scanWith_match rgbAt d0 _ [] _ hat']
  simp [scanWith, mapOpt, rgbOfDec_dec c h]

theorem palLoop_colors (cs : List Color) (h : ∀ c ∈ cs, c.rgb.Valid) (i : Nat) (hi : 3 ≤ i) (acc : List Color) :
    palLoop (cs.map fun c => palLine c.rgb) i acc = some (acc ++ cs.map fun c => ⟨none, c.rgb⟩) := by
  induction cs generalizing i acc with
  | nil => simp [palLoop]
  | cons c cs ih =>
    have h0 : i ≠ 0 := by omega
    have h12 : i ∉ palIgnoredLines := by rw [shapes.2.2.2.2.2.2.1]; simp; omega
    simp only [List.map_cons, palLoop, if_neg h0, if_neg h12, palLineColors_palLine c.rgb (h c (by simp))]
    rw [ih (fun x hx => h x (by simp [hx])) (i + 1) (by omega)]
    simp

theorem import_pal (p : Pal) (hv : p.ValidColors) :
    ∃ q, importM .pal (exportLines .pal p) = some q ∧ q.rgbs = p.rgbs := by
  obtain ⟨hm, hml, hver, _⟩ := line_shapes
  have e : exportLines .pal p = joinLines ([palMagicLine, lineOf palVersionSegs, dec p.colors.length] ++
      p.colors.map fun c => palLine c.rgb) := by
    simp only [exportLines, (tpl_line _ hm).1, (tpl_line _ hver).1, hml, shapes.2.1, shapes.2.2.1, tpl4]
    simp [joinLines, tpl, palLine, List.flatMap_map]
  have hnb : ∀ l ∈ ([palMagicLine, lineOf palVersionSegs, dec p.colors.length] ++ p.colors.map fun c => palLine c.rgb),
      NoBreak l := by
    intro l hl
    simp only [List.mem_append, List.mem_cons, List.mem_map, List.not_mem_nil, or_false] at hl
    rcases hl with (rfl | rfl | rfl) | ⟨c, _, rfl⟩
    · rw [← hml]; exact (tpl_line _ hm).2
    · exact (tpl_line _ hver).2
    · exact dec_noBreak _
    · exact palLine_noBreak _
  simp only [importM, importPal]
  rw [e, splitLines_joinLines _ hnb]
  have h12 : palIgnoredLines = [1, 2] := shapes.2.2.2.2.2.2.1
  simp only [List.cons_append, List.nil_append, palLoop, if_true, if_pos, h12]
  simp only [show (1 : Nat) ≠ 0 by decide, if_false, List.mem_cons, true_or, if_true, show (1 + 1 : Nat) ≠ 0 by decide,
    show (1 + 1 : Nat) = 2 by rfl, or_true]
  rw [palLoop_colors p.colors hv 3 (by decide) []]
  exact ⟨_, rfl, by simp [Pal.rgbs, List.map_map, Function.comp_def]⟩

/-! ### GPL -/

theorem tpl5 (a b c d : List Nat) (s0 s1 s2 s3 s4 : List Nat) :
    tpl [s0, s1, s2, s3, s4] [a, b, c, d] = s0 ++ a ++ (s1 ++ b ++ (s2 ++ c ++ (s3 ++ d ++ s4))) := by simp [tpl]

theorem pad3_head : ∀ n, n < 256 → (pad3 n).head? ≠ some 35 ∧ (pad3 n).head? ≠ none := by decide +kernel

/-- `{:3} {:3} {:3} {}` as the GPL exporter writes it -/
def gplLine (c : Rgb) (d : List Nat) : List Nat := pad3 c.r ++ (32 :: (pad3 c.g ++ (32 :: (pad3 c.b ++ (32 :: d)))))

theorem gplLine_noBreak (c : Rgb) (d : List Nat) (hd : NoBreak d) : NoBreak (gplLine c d) := by
  have hp : ∀ n, NoBreak (pad3 n) := by
    intro n x hx
    simp only [pad3, List.mem_append, List.mem_replicate] at hx
    rcases hx with ⟨_, rfl⟩ | hx
    · decide
    · exact dec_noBreak n x hx
  exact (hp _).append (NoBreak.cons (by decide) ((hp _).append (NoBreak.cons (by decide)
    ((hp _).append (NoBreak.cons (by decide) hd)))))

theorem gplLine_head (c : Rgb) (d : List Nat) (h : c.Valid) : (gplLine c d).head? ≠ some gplComment := by
  have := pad3_head c.r h.1
  rw [shapes.2.2.2.2.2.2.2.1]
  unfold gplLine
  cases hp : pad3 c.r with
  | nil => rw [hp] at this; simp at this
  | cons a as => rw [hp] at this; simpa using this.1

theorem findFirst_gplLine (c : Rgb) (d : List Nat) (h : c.Valid) :
    findFirst rgbAt (gplLine c d) = some ((dec c.r, dec c.g, dec c.b), 32 :: d) := by
  have hr := dec_run c.r h.1
  have hg := dec_run c.g h.2.1
  have hb := dec_run c.b h.2.2
  have hat := rgbAt_triple (dec c.r) (dec c.g) (dec c.b) (32 :: d) (3 - (dec c.g).length) (3 - (dec c.b).length)
    hr hg hb (takeWhile_digit_space d)
  have e : gplLine c d = List.replicate (3 - (dec c.r).length) 32 ++ (dec c.r ++ (List.replicate (3 - (dec c.g).length + 1) 32 ++
      (dec c.g ++ (List.replicate (3 - (dec c.b).length + 1) 32 ++ (dec c.b ++ 32 :: d))))) := by
    simp [gplLine, pad3, List.replicate_succ]
  rw [e, findFirst_spaces]
  obtain ⟨d0, ds, e0⟩ := List.exists_cons_of_ne_nil hr.1
  rw [e0] at hat ⊢
  exact findFirst_here rgbAt d0 _ _ hat

theorem gplStep_comment (p : Pal) (line : List Nat) (h : line.head? = some gplComment) :
    ∃ p', gplStep p line = some p' ∧ p'.rgbs = p.rgbs ++ [] := by
  unfold gplStep; rw [if_pos h]; exact ⟨_, rfl, by simp [Pal.rgbs]⟩

theorem gplStep_color (p : Pal) (c : Rgb) (d : List Nat) (h : c.Valid) :
    ∃ p', gplStep p (gplLine c d) = some p' ∧ p'.rgbs = p.rgbs ++ [c] := by
  unfold gplStep
  rw [if_neg (gplLine_head c d h), findFirst_gplLine c d h]
  simp only [rgbOfDec_dec c h]
  exact ⟨_, rfl, by simp [Pal.rgbs]⟩

theorem import_gpl (p : Pal) (hc : p.Clean) (hv : p.ValidColors) :
    ∃ q, importM .gpl (exportLines .gpl p) = some q ∧ q.rgbs = p.rgbs := by
  obtain ⟨_, _, _, hm, hml, _⟩ := line_shapes
  obtain ⟨m1, m2, m3, m4, _⟩ := meta_shapes
  obtain ⟨ht, ha, hd, _⟩ := hc
  have t1 := tpl_meta _ _ p.title m1 ht
  have t2 := tpl_meta _ _ p.author m2 ha
  have t3 := tpl_meta _ _ p.description m3 hd
  have t4 := tpl_meta _ _ (dec p.colors.length) m4 (dec_noBreak _)
  let src : List (List Nat × List Rgb) :=
    [(pfxOf gplNameSegs ++ p.title, []), (pfxOf gplAuthorSegs ++ p.author, []),
     (pfxOf gplDescriptionSegs ++ p.description, []), (pfxOf gplCountSegs ++ dec p.colors.length, [])] ++
    p.colors.map fun c => (gplLine c.rgb p.description, [c.rgb])
  have e : exportLines .gpl p = joinLines (gplMagicLine :: src.map Prod.fst) := by
    simp only [exportLines, (tpl_line _ hm).1, hml, t1.1, t2.1, t3.1, t4.1, shapes.2.2.2.1, tpl5, src]
    simp [joinLines, gplLine, List.flatMap_map]
  have hnb : ∀ l ∈ gplMagicLine :: src.map Prod.fst, NoBreak l := by
    intro l hl
    simp only [src, List.map_append, List.map_cons, List.map_nil, List.map_map, List.mem_cons, List.mem_append,
      List.mem_map, List.not_mem_nil, or_false, Function.comp_def] at hl
    rcases hl with rfl | (rfl | rfl | rfl | rfl) | ⟨c, _, rfl⟩
    · rw [← hml]; exact (tpl_line _ hm).2
    · exact t1.2.1
    · exact t2.2.1
    · exact t3.2.1
    · exact t4.2.1
    · exact gplLine_noBreak _ _ hd
  have hfold := foldOpt_adds gplStep Pal.rgbs Prod.fst Prod.snd src (by
    intro b hb st
    simp only [src, List.mem_append, List.mem_cons, List.mem_map, List.not_mem_nil, or_false] at hb
    rcases hb with (rfl | rfl | rfl | rfl) | ⟨c, hcm, rfl⟩
    · exact gplStep_comment st _ t1.2.2
    · exact gplStep_comment st _ t2.2.2
    · exact gplStep_comment st _ t3.2.2
    · exact gplStep_comment st _ t4.2.2
    · exact gplStep_color st c.rgb _ (hv c hcm)) Pal.empty
  obtain ⟨q, hq, hrgb⟩ := hfold
  refine ⟨q, ?_, ?_⟩
  · simp only [importM, importGpl]
    rw [e, splitLines_joinLines _ hnb]
    simp only [if_true]
    exact hq
  · rw [hrgb]
    simp [src, Pal.rgbs, Pal.empty, List.flatMap_map, flatMap_single]

/-! ### ICE -/

theorem hex6_line_head (c : Rgb) (k : Nat) (hk : k = 35 ∨ k = 59) : (hex6 c).head? ≠ some k := by
  obtain ⟨h, t, e, h1, h2⟩ := hex6_head c
  rw [e]; simp; rcases hk with rfl | rfl <;> assumption

theorem findFirst_hex6 (c : Rgb) : findFirst (hexRun 6) (hex6 c) = some (hex6 c, []) := by
  obtain ⟨h, t, e, _, _⟩ := hex6_head c
  have := hex6_run c []
  rw [List.append_nil, e] at this
  rw [e]; exact findFirst_here _ h t _ this

theorem iceStep_comment (st : Pal × List Nat) (line : List Nat) (h : line.head? = some iceComment) :
    ∃ st', iceStep st line = some st' ∧ st'.1.rgbs = st.1.rgbs ++ [] := by
  unfold iceStep; simp only [if_pos h]; exact ⟨_, rfl, by simp [Pal.rgbs]⟩

theorem iceStep_color (st : Pal × List Nat) (c : Rgb) (h : c.Valid) :
    ∃ st', iceStep st (hex6 c) = some st' ∧ st'.1.rgbs = st.1.rgbs ++ [c] := by
  unfold iceStep
  simp only [if_neg (hex6_line_head c iceComment (Or.inl shapes.2.2.2.2.2.2.2.2.1)), findFirst_hex6 c]
  exact ⟨_, rfl, by simp [Pal.rgbs, rgbOfHex6_hex6 c h]⟩

/-- the lines the ICE exporter writes for one colour -/
def iceColorSrc (c : Color) : List (List Nat × List Rgb) :=
  (match c.name with
    | some n => [(pfxOf iceColorNameSegs ++ n, [])]
    | none => []) ++ [(hex6 c.rgb, [c.rgb])]

theorem import_ice (p : Pal) (hc : p.Clean) (hv : p.ValidColors) :
    ∃ q, importM .ice (exportLines .ice p) = some q ∧ q.rgbs = p.rgbs := by
  obtain ⟨_, _, _, _, _, hm, hml, _⟩ := line_shapes
  obtain ⟨_, _, _, _, m1, m2, m3, m4, m5, _⟩ := meta_shapes
  obtain ⟨ht, ha, hd, hn⟩ := hc
  have t1 := tpl_meta _ _ p.title m1 ht
  have t2 := tpl_meta _ _ p.author m2 ha
  have t3 := tpl_meta _ _ p.description m3 hd
  have t4 := tpl_meta _ _ (dec p.colors.length) m4 (dec_noBreak _)
  let src : List (List Nat × List Rgb) :=
    [(pfxOf iceNameSegs ++ p.title, []), (pfxOf iceAuthorSegs ++ p.author, []),
     (pfxOf iceDescriptionSegs ++ p.description, []), (pfxOf iceCountSegs ++ dec p.colors.length, [])] ++
    p.colors.flatMap iceColorSrc
  have ecol : ∀ c ∈ p.colors, iceColorText c = joinLines ((iceColorSrc c).map Prod.fst) := by
    intro c hcm
    unfold iceColorText
    cases hname : c.name with
    | none => simp [iceColorSrc, hname, joinLines, shapes.2.2.2.2.1, tpl4, hex6]
    | some n =>
      have := tpl_meta _ _ n m5 (hn c hcm n hname)
      simp [iceColorSrc, hname, joinLines, shapes.2.2.2.2.1, tpl4, hex6, this.1]
  have e : exportLines .ice p = joinLines (iceMagicLine :: src.map Prod.fst) := by
    simp only [exportLines, (tpl_line _ hm).1, hml, t1.1, t2.1, t3.1, t4.1, src]
    rw [flatMap_congr' _ _ _ ecol]
    simp [joinLines, List.flatMap_map, List.map_flatMap, List.flatMap_assoc]
  have hnb : ∀ l ∈ iceMagicLine :: src.map Prod.fst, NoBreak l := by
    intro l hl
    simp only [src, List.map_append, List.map_cons, List.map_nil, List.mem_cons, List.mem_append,
      List.mem_map, List.not_mem_nil, or_false, List.mem_flatMap] at hl
    rcases hl with rfl | (rfl | rfl | rfl | rfl) | ⟨b, ⟨c, hcm, hb⟩, rfl⟩
    · rw [← hml]; exact (tpl_line _ hm).2
    · exact t1.2.1
    · exact t2.2.1
    · exact t3.2.1
    · exact t4.2.1
    · simp only [iceColorSrc, List.mem_append, List.mem_cons, List.not_mem_nil, or_false] at hb
      rcases hb with hb | rfl
      · cases hname : c.name with
        | none => simp [hname] at hb
        | some n =>
          simp [hname] at hb; rw [hb]
          exact (tpl_meta _ _ n m5 (hn c hcm n hname)).2.1
      · exact hex6_noBreak _
  have hfold := foldOpt_adds iceStep (fun st => st.1.rgbs) Prod.fst Prod.snd src (by
    intro b hb st
    simp only [src, List.mem_append, List.mem_cons, List.mem_flatMap, List.not_mem_nil, or_false] at hb
    rcases hb with (rfl | rfl | rfl | rfl) | ⟨c, hcm, hb⟩
    · exact iceStep_comment st _ t1.2.2
    · exact iceStep_comment st _ t2.2.2
    · exact iceStep_comment st _ t3.2.2
    · exact iceStep_comment st _ t4.2.2
    · simp only [iceColorSrc, List.mem_append, List.mem_cons, List.not_mem_nil, or_false] at hb
      rcases hb with hb | rfl
      · cases hname : c.name with
        | none => simp [hname] at hb
        | some n =>
          simp [hname] at hb; rw [hb]
          exact iceStep_comment st _ (tpl_meta _ _ n m5 (hn c hcm n hname)).2.2
      · exact iceStep_color st c.rgb (hv c hcm)) (Pal.empty, [])
  obtain ⟨q, hq, hrgb⟩ := hfold
  refine ⟨q.1, ?_, ?_⟩
  · simp only [importM, importIce]
    rw [e, splitLines_joinLines _ hnb]
    simp only [if_true, hq, Option.map_some]
  · rw [hrgb]
    have : ∀ c : Color, (iceColorSrc c).flatMap Prod.snd = [c.rgb] := by
      intro c; cases hname : c.name <;> simp [iceColorSrc, hname]
    simp [src, Pal.rgbs, Pal.empty, List.flatMap_assoc, this, flatMap_single]

/-! ### TXT -/

/-- `FF{:02x}{:02x}{:02x}` -/
def txtLine (c : Rgb) : List Nat := 70 :: 70 :: hex6 c

theorem txtLine_noBreak (c : Rgb) : NoBreak (txtLine c) :=
  NoBreak.cons (by decide) (NoBreak.cons (by decide) (hex6_noBreak c))

theorem findFirst_txtLine (c : Rgb) : ∃ m, findFirst (hexRun 8) (txtLine c) = some (m, []) ∧ (c.Valid → rgbOfHex8 m = c) := by
  refine ⟨70 :: 70 :: hex6 c, ?_, ?_⟩
  · apply findFirst_here
    simp only [txtLine, hex6, hex2, List.cons_append, List.nil_append]
    exact hexRun8 _ _ _ _ _ _ _ _ [] ⟨by decide, by decide, (hex2_isHex c.r).1, (hex2_isHex c.r).2, (hex2_isHex c.g).1,
      (hex2_isHex c.g).2, (hex2_isHex c.b).1, (hex2_isHex c.b).2⟩
  · intro h
    simp only [hex6, hex2, List.cons_append, List.nil_append, rgbOfHex8]
    rw [hex2_parse c.r h.1, hex2_parse c.g h.2.1, hex2_parse c.b h.2.2]

theorem txtStep_comment (p : Pal) (line : List Nat) (h : line.head? = some txtComment) :
    ∃ p', txtStep p line = some p' ∧ p'.rgbs = p.rgbs ++ [] := by
  unfold txtStep; rw [if_pos h]; exact ⟨_, rfl, by simp [Pal.rgbs]⟩

theorem txtStep_color (p : Pal) (c : Rgb) (h : c.Valid) :
    ∃ p', txtStep p (txtLine c) = some p' ∧ p'.rgbs = p.rgbs ++ [c] := by
  obtain ⟨m, hm, hc⟩ := findFirst_txtLine c
  have hh : (txtLine c).head? ≠ some txtComment := by rw [shapes.2.2.2.2.2.2.2.2.2]; simp [txtLine]
  unfold txtStep
  rw [if_neg hh, hm]
  exact ⟨_, rfl, by simp [Pal.rgbs, hc h]⟩

theorem import_txt (p : Pal) (hc : p.Clean) (hv : p.ValidColors) :
    ∃ q, importM .txt (exportLines .txt p) = some q ∧ q.rgbs = p.rgbs := by
  obtain ⟨_, _, _, _, _, _, _, hm, hmh⟩ := line_shapes
  obtain ⟨_, _, _, _, _, _, _, _, _, m1, m2, m3, m4⟩ := meta_shapes
  obtain ⟨ht, ha, hd, _⟩ := hc
  have t1 := tpl_meta _ _ p.title m1 ht
  have t2 := tpl_meta _ _ p.author m2 ha
  have t3 := tpl_meta _ _ p.description m3 hd
  have t4 := tpl_meta _ _ (dec p.colors.length) m4 (dec_noBreak _)
  let src : List (List Nat × List Rgb) :=
    [(lineOf txtMagicSegs, []), (pfxOf txtNameSegs ++ p.title, []), (pfxOf txtAuthorSegs ++ p.author, []),
     (pfxOf txtDescriptionSegs ++ p.description, []), (pfxOf txtCountSegs ++ dec p.colors.length, [])] ++
    p.colors.map fun c => (txtLine c.rgb, [c.rgb])
  have e : exportLines .txt p = joinLines (src.map Prod.fst) := by
    simp only [exportLines, (tpl_line _ hm).1, t1.1, t2.1, t3.1, t4.1, shapes.2.2.2.2.2.1, tpl4, src]
    simp [joinLines, txtLine, hex6, List.flatMap_map]
  have hnb : ∀ l ∈ src.map Prod.fst, NoBreak l := by
    intro l hl
    simp only [src, List.map_append, List.map_cons, List.map_nil, List.map_map, List.mem_cons, List.mem_append,
      List.mem_map, List.not_mem_nil, or_false, Function.comp_def] at hl
    rcases hl with (rfl | rfl | rfl | rfl | rfl) | ⟨c, _, rfl⟩
    · exact (tpl_line _ hm).2
    · exact t1.2.1
    · exact t2.2.1
    · exact t3.2.1
    · exact t4.2.1
    · exact txtLine_noBreak _
  have hfold := foldOpt_adds txtStep Pal.rgbs Prod.fst Prod.snd src (by
    intro b hb st
    simp only [src, List.mem_append, List.mem_cons, List.mem_map, List.not_mem_nil, or_false] at hb
    rcases hb with (rfl | rfl | rfl | rfl | rfl) | ⟨c, hcm, rfl⟩
    · exact txtStep_comment st _ hmh
    · exact txtStep_comment st _ t1.2.2
    · exact txtStep_comment st _ t2.2.2
    · exact txtStep_comment st _ t3.2.2
    · exact txtStep_comment st _ t4.2.2
    · exact txtStep_color st c.rgb (hv c hcm)) Pal.empty
  obtain ⟨q, hq, hrgb⟩ := hfold
  refine ⟨q, ?_, ?_⟩
  · simp only [importM, importTxt]
    rw [e, splitLines_joinLines _ hnb]
    exact hq
  · rw [hrgb]
    simp [src, Pal.rgbs, Pal.empty, List.flatMap_map, flatMap_single]

/-- all five formats: what `export_lines` writes for a palette with single-line metadata is read back by
    `load_palette` with the same RGB sequence -/
theorem import_exportLines (f : Fmt) (p : Pal) (hc : p.Clean) (hv : p.ValidColors) :
    ∃ q, importM f (exportLines f p) = some q ∧ q.rgbs = p.rgbs := by
  cases f
  · exact import_hex p hv
  · exact import_pal p hv
  · exact import_gpl p hc hv
  · exact import_ice p hc hv
  · exact import_txt p hc hv

end IcyVerif.Palette
