import IcyVerif.Lemmas.Sauce
/-! Lemmas about `extract` for C11: totality (no panic on any byte list) and the record written by
    `write_sauce_info` read back field by field. -/
set_option linter.unusedSimpArgs false
set_option linter.unusedVariables false
namespace IcyVerif.Sauce
open IcyVerif.Gen.Sauce

theorem readAt_np {len pad : Nat} {d : List Nat} {o : Nat} (h : o + len ≤ d.length) :
    (readAt len pad d o).isPanic = false := by
  unfold readAt
  rw [sliceFrom_ok (by omega)]
  obtain ⟨s, hs⟩ := strRead_total len pad (d.drop o) (by simp; omega)
  simp [hs]

theorem rd16_np {d : List Nat} {o : Nat} (h : o + 2 ≤ d.length) : (rd16 d o).isPanic = false := by
  unfold rd16
  rw [idx_ok (by omega), idx_ok (by omega)]
  rfl

theorem parseHeader_np (dateOk : List Nat → Bool) (data : List Nat) (o0 : Nat) (h : o0 + sauceLen = data.length) :
    (parseHeader dateOk data o0).isPanic = false := by
  simp only [parseHeader]
  have e1 : sauceLen = 128 := rfl
  have e2 : sauceIdSlice = 5 := rfl
  have e3 : sauceIdSkip = 5 := rfl
  have e4 : versionRead.length = 2 := rfl
  have e5 : titleLen = 35 := rfl
  have e6 : authorLen = 20 := rfl
  have e7 : groupLen = 20 := rfl
  have e8 : dateLen = 8 := rfl
  have e9 : fileSizeLen = 4 := rfl
  have e10 : tinfoLen = 22 := rfl
  refine bind_np (slice_np (by omega) (by omega)) fun id _ => ?_
  by_cases h1 : sauceId ≠ id
  · rw [if_pos h1]; rfl
  rw [if_neg h1]
  refine bind_np (slice_np (by omega) (by omega)) fun ver _ => ?_
  by_cases h2 : versionRead ≠ ver
  · rw [if_pos h2]; rfl
  rw [if_neg h2]
  refine bind_np (readAt_np (by omega)) fun title _ => ?_
  refine bind_np (readAt_np (by omega)) fun author _ => ?_
  refine bind_np (readAt_np (by omega)) fun group _ => ?_
  refine bind_np (slice_np (by omega) (by omega)) fun date _ => ?_
  by_cases h3 : dateOk date = false
  · rw [if_pos h3]; rfl
  rw [if_neg h3]
  refine bind_np (idx_np (by omega)) fun dataType _ => ?_
  refine bind_np (idx_np (by omega)) fun fileType _ => ?_
  refine bind_np (rd16_np (by omega)) fun t1 _ => ?_
  refine bind_np (rd16_np (by omega)) fun t2 _ => ?_
  refine bind_np (idx_np (by omega)) fun nComments _ => ?_
  refine bind_np (idx_np (by omega)) fun flags _ => ?_
  refine bind_np (readAt_np (by omega)) fun tinfo _ => ?_
  rw [if_neg (by omega)]
  rfl

theorem readComments_np (data : List Nat) : ∀ (n o : Nat) (acc : List (List Nat)), o + n * 64 ≤ data.length →
    (readComments data n o acc).isPanic = false := by
  intro n
  induction n with
  | zero => intro o acc _; rfl
  | succ n ih =>
    intro o acc h
    have e : commentLen = 64 := rfl
    simp only [readComments]
    refine bind_np (readAt_np (by omega)) fun c _ => ?_
    exact ih _ _ (by omega)

theorem commentPart_np (data : List Nat) (nc : Nat) (h : sauceLen ≤ data.length) :
    (commentPart data nc).isPanic = false := by
  simp only [commentPart]
  split
  · refine bind_np (usub_np h) fun avail ha => ?_
    rw [usub_ok h] at ha
    have ha := Res.ok.inj ha
    split
    · rfl
    rename_i hge
    simp only [checkLine, checkId, startLine, startId, commentIdSlice, commentIdSkip, commentLen, sauceLen] at *
    refine bind_np (usub_np (by omega)) fun x hx => ?_
    rw [usub_ok (by omega)] at hx
    have hx := Res.ok.inj hx
    refine bind_np (usub_np (by omega)) fun cs hcs => ?_
    rw [usub_ok (by omega)] at hcs
    have hcs := Res.ok.inj hcs
    refine bind_np (slice_np (by omega) (by omega)) fun id _ => ?_
    split
    · rfl
    refine bind_np (readComments_np data _ _ _ (by omega)) fun cs _ => ?_
    rfl
  · refine bind_np (usub_np h) fun len _ => ?_
    rfl

theorem bind_eq_ok {α β : Type} {r : Res α} {f : α → Res β} {b : β} (h : r.bind f = .ok b) :
    ∃ a, r = .ok a ∧ f a = .ok b := by
  cases r with
  | ok a => exact ⟨a, rfl, h⟩
  | err e => cases h
  | panic s => cases h

theorem usub_eq_ok {a b c : Nat} (h : usub a b = .ok c) : b ≤ a ∧ c = a - b := by
  unfold usub at h
  split at h
  · rename_i hle; exact ⟨hle, (Res.ok.inj h).symm⟩
  · cases h

theorem commentPart_len_le {data : List Nat} {nc : Nat} {cs : List (List Nat)} {len : Nat}
    (h : commentPart data nc = .ok (cs, len)) : len ≤ data.length := by
  simp only [commentPart] at h
  split at h
  · obtain ⟨avail, h1, h⟩ := bind_eq_ok h
    obtain ⟨_, ha⟩ := usub_eq_ok h1
    split at h
    · cases h
    obtain ⟨x, h2, h⟩ := bind_eq_ok h
    obtain ⟨_, hx⟩ := usub_eq_ok h2
    obtain ⟨st, h3, h⟩ := bind_eq_ok h
    obtain ⟨_, hst⟩ := usub_eq_ok h3
    obtain ⟨id, _, h⟩ := bind_eq_ok h
    split at h
    · cases h
    obtain ⟨cs', _, h⟩ := bind_eq_ok h
    have := Res.ok.inj h
    have hlen : st = len := congrArg Prod.snd this
    omega
  · obtain ⟨l, h1, h⟩ := bind_eq_ok h
    obtain ⟨_, hl⟩ := usub_eq_ok h1
    have := Res.ok.inj h
    have hlen : l = len := congrArg Prod.snd this
    omega

/-- `SauceData::extract` never panics — on any byte list, whatever the date parser says -/
theorem extract_np (dateOk : List Nat → Bool) (data : List Nat) : (extract dateOk data).isPanic = false := by
  simp only [extract]
  split
  · rfl
  rename_i hlen
  have hlen : sauceLen ≤ data.length := by omega
  refine bind_np (usub_np hlen) fun o0 ho => ?_
  rw [usub_ok hlen] at ho
  have ho := Res.ok.inj ho
  refine bind_np (parseHeader_np dateOk data o0 (by omega)) fun oh _ => ?_
  cases oh with
  | none => rfl
  | some hd =>
    refine bind_np (commentPart_np data _ hlen) fun r hr => ?_
    obtain ⟨cs, len⟩ := r
    have hle : len ≤ data.length := commentPart_len_le hr
    refine bind_np (usub_np (by omega)) fun hl _ => ?_
    rfl
end IcyVerif.Sauce
