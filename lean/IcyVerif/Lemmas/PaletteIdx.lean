import IcyVerif.Model.Palette
set_option linter.unusedSimpArgs false
/-! Index laws of `Palette` (C16): `insert_color`, `set_color`, `push`, `get_rgb`, and their lifting to histories. -/
namespace IcyVerif.Palette

theorem firstIdx_le (c : Rgb) (p : List Rgb) : firstIdx c p ≤ p.length := by
  induction p with
  | nil => simp [firstIdx]
  | cons x xs ih => simp only [firstIdx]; split <;> simp <;> omega

theorem firstIdx_lt_iff (c : Rgb) (p : List Rgb) : firstIdx c p < p.length ↔ c ∈ p := by
  induction p with
  | nil => simp [firstIdx]
  | cons x xs ih =>
    simp only [firstIdx]
    split
    · rename_i h; simp [h]
    · rename_i h
      have : ¬ c = x := fun e => h e.symm
      simp [this, ih]

theorem getD_firstIdx (c : Rgb) (p : List Rgb) (d : Rgb) (h : firstIdx c p < p.length) :
    p.getD (firstIdx c p) d = c := by
  induction p with
  | nil => simp at h
  | cons x xs ih =>
    simp only [firstIdx] at h ⊢
    split
    · rename_i hx; simp [hx]
    · rename_i hx
      rw [if_neg hx] at h
      simp only [List.getD_cons_succ]
      exact ih (by simpa using h)

/-- nothing before the returned position equals the colour: it is the FIRST occurrence -/
theorem firstIdx_first (c : Rgb) (p : List Rgb) (d : Rgb) (j : Nat) (hj : j < firstIdx c p) : p.getD j d ≠ c := by
  induction p generalizing j with
  | nil => simp [firstIdx] at hj
  | cons x xs ih =>
    simp only [firstIdx] at hj
    split at hj
    · omega
    · rename_i hx
      cases j with
      | zero => simpa using hx
      | succ j => simp only [List.getD_cons_succ]; exact ih j (by omega)

theorem and_bit31_of_lt (i : Nat) (h : i < 2147483648) : i &&& 0x80000000 = 0 := by
  have e : (0x80000000 : Nat) = 2 ^ 31 := by decide
  rw [e]
  apply Nat.eq_of_testBit_eq
  intro j
  simp only [Nat.testBit_and, Nat.testBit_two_pow, Nat.zero_testBit]
  by_cases hj : 31 = j
  · subst hj; simp [Nat.testBit_lt_two_pow (show i < 2^31 by omega)]
  · simp [hj]

theorem getRgb_of_lt (p : List Rgb) (i : Nat) (h : i < 2147483648) : getRgb p i = p.getD i black := by
  unfold getRgb; rw [and_bit31_of_lt i h]; simp

/-- `getRgb` of two palettes agree at `i` as soon as their in-palette lookups agree -/
theorem getRgb_congr (p q : List Rgb) (i : Nat) (h : p.getD i black = q.getD i black) : getRgb p i = getRgb q i := by
  unfold getRgb; split
  · rfl
  · exact h

theorem insertColor_mem (p : List Rgb) (c : Rgb) (h : c ∈ p) : insertColor p c = (p, firstIdx c p) := by
  unfold insertColor; rw [if_pos ((firstIdx_lt_iff c p).mpr h)]

theorem insertColor_not_mem (p : List Rgb) (c : Rgb) (h : c ∉ p) : insertColor p c = (p ++ [c], p.length) := by
  unfold insertColor; rw [if_neg (fun hh => h ((firstIdx_lt_iff c p).mp hh))]

theorem insertColor_idx_lt (p : List Rgb) (c : Rgb) : (insertColor p c).2 < (insertColor p c).1.length := by
  unfold insertColor; split
  · assumption
  · simp

theorem insertColor_len (p : List Rgb) (c : Rgb) : p.length ≤ (insertColor p c).1.length := by
  unfold insertColor; split <;> simp

theorem insertColor_getD (p : List Rgb) (c : Rgb) : (insertColor p c).1.getD (insertColor p c).2 black = c := by
  unfold insertColor; split
  · rename_i h; exact getD_firstIdx c p black h
  · simp [List.getD_eq_getElem?_getD]

theorem insertColor_getD_lt (p : List Rgb) (c : Rgb) (i : Nat) (hi : i < p.length) :
    (insertColor p c).1.getD i black = p.getD i black := by
  unfold insertColor; split
  · rfl
  · simp [List.getD_eq_getElem?_getD, List.getElem?_append_left hi]

theorem getD_append_replicate (p : List Rgb) (n j : Nat) : (p ++ List.replicate n black).getD j black = p.getD j black := by
  simp only [List.getD_eq_getElem?_getD]
  by_cases hj : j < p.length
  · rw [List.getElem?_append_left hj]
  · rw [List.getElem?_append_right (by omega), List.getElem?_eq_none (l := p) (by omega)]
    by_cases h2 : j - p.length < n
    · simp [List.getElem?_replicate, h2]
    · simp [List.getElem?_replicate, h2]

theorem setColor_getD_self (p : List Rgb) (i : Nat) (c : Rgb) : (setColor p i c).getD i black = c := by
  unfold setColor
  split
  · rename_i h
    simp only [List.getD_eq_getElem?_getD, List.getElem?_set, List.length_append, List.length_replicate]
    rw [if_pos trivial, if_pos (by omega)]; rfl
  · rename_i h
    simp only [List.getD_eq_getElem?_getD, List.getElem?_set]
    rw [if_pos trivial, if_pos (by omega)]; rfl

theorem setColor_getD_ne (p : List Rgb) (i j : Nat) (c : Rgb) (h : j ≠ i) :
    (setColor p i c).getD j black = p.getD j black := by
  unfold setColor
  split
  · have := getD_append_replicate p (i + 1 - p.length) j
    simp only [List.getD_eq_getElem?_getD] at this ⊢
    rw [List.getElem?_set_ne (by omega)]
    exact this
  · simp only [List.getD_eq_getElem?_getD]
    rw [List.getElem?_set_ne (by omega)]

theorem setColor_len (p : List Rgb) (i : Nat) (c : Rgb) : p.length ≤ (setColor p i c).length := by
  unfold setColor; split <;> simp

/-- an operation that may change what index `i` resolves to: only `set i _` -/
def Op.touches (i : Nat) : Op → Prop
  | .set j _ => j = i
  | _ => False

theorem step_len (p : List Rgb) (op : Op) : p.length ≤ (step p op).1.length := by
  cases op <;> simp only [step]
  · exact insertColor_len _ _
  · exact setColor_len _ _ _
  · exact Nat.le_refl _
  · simp

theorem step_getD (p : List Rgb) (op : Op) (i : Nat) (hi : i < p.length) (h : ¬ op.touches i) :
    (step p op).1.getD i black = p.getD i black := by
  cases op with
  | insert c => exact insertColor_getD_lt p c i hi
  | set j c => exact setColor_getD_ne p j i c (fun e => h e.symm)
  | lookup j => rfl
  | push c => simp [step, List.getD_eq_getElem?_getD, List.getElem?_append_left hi]

theorem runOps_getD (ops : List Op) (p : List Rgb) (i : Nat) (hi : i < p.length)
    (h : ∀ op ∈ ops, ¬ op.touches i) : (runOps p ops).getD i black = p.getD i black ∧ i < (runOps p ops).length := by
  induction ops generalizing p with
  | nil => exact ⟨rfl, hi⟩
  | cons op ops ih =>
    have h1 := step_getD p op i hi (h op (by simp))
    have h2 : i < (step p op).1.length := Nat.lt_of_lt_of_le hi (step_len p op)
    have := ih (step p op).1 h2 (fun o ho => h o (by simp [ho]))
    simp only [runOps, List.foldl] at this ⊢
    exact ⟨this.1.trans h1, this.2⟩

theorem trace_snd (p : List Rgb) (ops : List Op) : (trace p ops).2 = runOps p ops := by
  induction ops generalizing p with
  | nil => rfl
  | cons op ops ih => simp only [trace, runOps, List.foldl]; exact ih _

end IcyVerif.Palette
