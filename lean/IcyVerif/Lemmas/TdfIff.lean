import IcyVerif.Lemmas.TdfRt
import IcyVerif.Lemmas.FontBoxIcy
set_option linter.unusedSimpArgs false
set_option linter.unusedVariables false
/-!
# C17: the TheDraw round trip holds ONLY on `WfTdf` (the converse of `tdf_rt`)

For a font whose name is a Rust `String` (valid UTF-8): if `as_tdf_bytes` succeeds and `from_tdf_bytes` gives the font back,
then every clause of `WfTdf` holds.  The pieces: what the glyph reader returns determines the glyph data's shape
(`readGlyphData_*_conv`), the table (`readGlyphs_enc_conv`), the name field up to its first NUL (`nameBytes_takeWhile`,
`takeWhile_encodeAll`), and the reader's general result on what the writer wrote (`readFont_fontBytes_gen`).
-/
namespace IcyVerif.Tdf
open IcyVerif.Uni IcyVerif.Font

/-! ### glyph data: the reader's answer determines the shape -/

theorem consOk_ok (c : Nat) (x : Res (List Nat)) (d : List Nat) (h : consOk c x = .ok d) : ∃ d', x = .ok d' ∧ d = c :: d' := by
  cases x with
  | ok d' => simp only [consOk, Res.ok.injEq] at h; exact ⟨d', rfl, h.symm⟩
  | err => simp [consOk] at h
  | panic => simp [consOk] at h

theorem readGlyphData_plain_conv (rest : List Nat) : ∀ (data : List Nat),
    readGlyphData false (data ++ 0 :: rest) = .ok data → data.all (· ≠ 0) = true := by
  intro data
  induction data with
  | nil => intro _; rfl
  | cons c cs ih =>
    intro h
    cases hcs : cs ++ 0 :: rest with
    | nil => simp at hcs
    | cons a r =>
      simp only [List.cons_append, hcs] at h
      unfold readGlyphData at h
      by_cases hc : c = 0
      · rw [if_pos hc] at h; simp at h
      · rw [if_neg hc] at h
        simp only [Bool.false_and, Bool.false_eq_true, if_false] at h
        obtain ⟨d', hd', he⟩ := consOk_ok _ _ _ h
        simp only [List.cons.injEq, true_and] at he
        subst he
        rw [← hcs] at hd'
        have := ih hd'
        simp only [List.all_cons, Bool.and_eq_true, decide_eq_true_eq]
        exact ⟨hc, this⟩

theorem readGlyphData_color_conv (rest : List Nat) : ∀ (n : Nat) (data : List Nat), data.length ≤ n →
    readGlyphData true (data ++ 0 :: rest) = .ok data → colorWfB data = true := by
  intro n
  induction n with
  | zero =>
    intro data hl _
    have : data = [] := List.eq_nil_of_length_eq_zero (by omega)
    subst this; rfl
  | succ n ih =>
    intro data hl h
    match data, hl, h with
    | [], _, _ => rfl
    | [c], hl, h =>
      -- input `c :: 0 :: rest`: a character without its attribute byte takes the terminator as attribute
      simp only [List.cons_append, List.nil_append] at h
      unfold readGlyphData at h
      by_cases hc : c = 0
      · rw [if_pos hc] at h; simp at h
      · rw [if_neg hc] at h
        by_cases h13 : c = 13
        · subst h13; rfl
        · have hb : (true && c != 13) = true := by simp [h13]
          rw [if_pos hb] at h
          obtain ⟨d', hd', he⟩ := consOk_ok _ _ _ h
          obtain ⟨d'', _, he'⟩ := consOk_ok _ _ _ hd'
          subst he'
          simp at he
    | c :: a :: tl, hl, h =>
      simp only [List.cons_append] at h
      unfold readGlyphData at h
      by_cases hc : c = 0
      · rw [if_pos hc] at h; simp at h
      · rw [if_neg hc] at h
        by_cases h13 : c = 13
        · have hb : ¬ ((true && c != 13) = true) := by simp [h13]
          rw [if_neg hb] at h
          obtain ⟨d', hd', he⟩ := consOk_ok _ _ _ h
          simp only [List.cons.injEq, true_and] at he
          subst he
          have := ih (a :: tl) (by simp at hl ⊢; omega) hd'
          unfold colorWfB
          simp [h13, this]
        · have hb : (true && c != 13) = true := by simp [h13]
          rw [if_pos hb] at h
          obtain ⟨d', hd', he⟩ := consOk_ok _ _ _ h
          obtain ⟨d'', hd'', he'⟩ := consOk_ok _ _ _ hd'
          subst he'
          simp only [List.cons.injEq, true_and] at he
          subst he
          have := ih tl (by simp at hl; omega) hd''
          unfold colorWfB
          simp [hc, h13, this]

theorem asU8_fix (x : Int) (h : ((asU8 x : Nat) : Int) = x) : 0 ≤ x ∧ x ≤ 255 := by
  unfold asU8 at h
  have h1 : 0 ≤ x % 256 := Int.emod_nonneg x (by omega)
  have h2 : x % 256 < 256 := Int.emod_lt_of_pos x (by omega)
  rw [Int.toNat_of_nonneg h1] at h
  omega

/-- the table the reader returns for what the writer wrote equals the written table ONLY IF every glyph is well formed -/
theorem readGlyphs_enc_conv (color : Bool) (bs : Nat) (hbs : bs ≤ 65535) (t : List (Option TGlyph)) :
    ∀ (pre post : List Nat), pre.length + (encData t).length ≤ bs →
      readGlyphs color bs (pre ++ encData t ++ post) (encOffs pre.length t) = .ok t → TableWf color t := by
  induction t with
  | nil => intro _ _ _ _ g hg; simp at hg
  | cons g r ih =>
    intro pre post hlen h
    cases g with
    | none =>
      simp only [encOffs, encData, readGlyphs, readGlyph, if_true] at h
      cases hr : readGlyphs color bs (pre ++ encData r ++ post) (encOffs pre.length r) with
      | ok gs =>
        rw [hr] at h
        simp only [Res.ok.injEq, List.cons.injEq, true_and] at h
        subst h
        have := ih pre post (by simpa [encData] using hlen) hr
        intro g hg
        simp only [List.mem_cons] at hg
        rcases hg with rfl | hg
        · trivial
        · exact this g hg
      | err => rw [hr] at h; simp at h
      | panic => rw [hr] at h; simp at h
    | some g =>
      simp only [encData, List.length_append, glyphBytes_length] at hlen
      have hoff : pre.length % 65536 = pre.length := Nat.mod_eq_of_lt (by omega)
      simp only [encOffs, encData, readGlyphs, readGlyph, hoff] at h
      rw [if_neg (by omega), if_neg (by omega)] at h
      have hdrop : (pre ++ (glyphBytes g ++ encData r) ++ post).drop pre.length =
          asU8 g.w :: asU8 g.h :: (g.data ++ 0 :: (encData r ++ post)) := by
        rw [List.append_assoc, List.drop_left]
        simp [glyphBytes, List.append_assoc]
      rw [hdrop] at h
      simp only at h
      cases hread : readGlyphData color (g.data ++ 0 :: (encData r ++ post)) with
      | err => rw [hread] at h; simp at h
      | panic => rw [hread] at h; simp at h
      | ok d =>
        rw [hread] at h
        simp only at h
        have e : pre ++ (glyphBytes g ++ encData r) ++ post = (pre ++ glyphBytes g) ++ encData r ++ post := by
          simp [List.append_assoc]
        have el : pre.length + (glyphBytes g).length = (pre ++ glyphBytes g).length := by simp
        rw [e, el] at h
        cases hr : readGlyphs color bs ((pre ++ glyphBytes g) ++ encData r ++ post) (encOffs (pre ++ glyphBytes g).length r) with
        | err => rw [hr] at h; simp at h
        | panic => rw [hr] at h; simp at h
        | ok gs =>
          rw [hr] at h
          simp only [Res.ok.injEq, List.cons.injEq, Option.some.injEq] at h
          obtain ⟨hg, hgs⟩ := h
          subst hgs
          have ihr := ih (pre ++ glyphBytes g) post (by simp [glyphBytes_length]; omega) hr
          have hw : ((asU8 g.w : Nat) : Int) = g.w := congrArg TGlyph.w hg
          have hh : ((asU8 g.h : Nat) : Int) = g.h := congrArg TGlyph.h hg
          have hd : d = g.data := congrArg TGlyph.data hg
          subst hd
          obtain ⟨w0, w1⟩ := asU8_fix _ hw
          obtain ⟨h0, h1⟩ := asU8_fix _ hh
          intro x hx
          simp only [List.mem_cons] at hx
          rcases hx with rfl | hx
          · show glyphWfB color g = true
            unfold glyphWfB
            have hdata : (if color = true then colorWfB g.data else g.data.all (· ≠ 0)) = true := by
              cases color with
              | true => simpa using readGlyphData_color_conv _ g.data.length g.data (Nat.le_refl _) hread
              | false => simpa using readGlyphData_plain_conv _ g.data hread
            simp only [Bool.and_eq_true, decide_eq_true_eq]
            exact ⟨⟨⟨⟨w0, w1⟩, h0⟩, h1⟩, hdata⟩
          · exact ihr x hx

/-! ### the name field -/

theorem nameBytes_takeWhile (name tail : List Nat) : ∀ (k : Nat),
    nameBytes (name.length + k) (name ++ List.replicate k 0 ++ tail) = some (name.takeWhile (· ≠ 0)) := by
  induction name with
  | nil =>
    intro k
    cases k with
    | zero => simp [nameBytes]
    | succ k => simp [nameBytes, List.replicate_succ]
  | cons c cs ih =>
    intro k
    have e : (c :: cs).length + k = (cs.length + k) + 1 := by simp; omega
    rw [e]
    simp only [List.cons_append, nameBytes]
    by_cases hc : c = 0
    · simp [hc]
    · rw [if_neg hc, ih k]
      simp [hc]

theorem encodeUtf8_nonzero (c : Nat) (hc : c ≠ 0) : ∀ b ∈ encodeUtf8 c, b ≠ 0 := by
  intro b hb
  unfold encodeUtf8 at hb
  split at hb
  · simp at hb; omega
  · split at hb
    · simp at hb; omega
    · split at hb
      · simp at hb; omega
      · simp at hb; omega

theorem takeWhile_append_all (p : Nat → Bool) (a b : List Nat) (h : ∀ x ∈ a, p x = true) :
    (a ++ b).takeWhile p = a ++ b.takeWhile p := by
  induction a with
  | nil => rfl
  | cons x xs ih =>
    have hx := h x (List.mem_cons_self ..)
    simp only [List.cons_append, List.takeWhile_cons, hx, if_true]
    rw [ih (fun y hy => h y (List.mem_cons_of_mem _ hy))]

/-- cutting a valid UTF-8 string at its first NUL byte cuts it at a character boundary -/
theorem takeWhile_encodeAll (cs : List Nat) :
    (encodeAll cs).takeWhile (· ≠ 0) = encodeAll (cs.takeWhile (· ≠ 0)) := by
  induction cs with
  | nil => rfl
  | cons c cs ih =>
    rw [encodeAll_cons]
    by_cases hc : c = 0
    · subst hc
      have : encodeUtf8 0 = [0] := by decide
      rw [this]
      simp [encodeAll]
    · rw [takeWhile_append_all _ _ _ (fun b hb => by simpa using encodeUtf8_nonzero c hc b hb), ih]
      have : (c :: cs).takeWhile (· ≠ 0) = c :: cs.takeWhile (· ≠ 0) := by simp [hc]
      rw [this, encodeAll_cons]

theorem takeWhile_eq_self (p : Nat → Bool) (l : List Nat) (h : l.takeWhile p = l) : l.all p = true := by
  induction l with
  | nil => rfl
  | cons x xs ih =>
    simp only [List.takeWhile_cons] at h
    by_cases hx : p x = true
    · rw [if_pos hx] at h
      simp only [List.cons.injEq, true_and] at h
      simp [hx, ih h]
    · rw [if_neg hx] at h; simp at h

/-- the name the reader returns equals the written name ONLY IF the name has no NUL byte -/
theorem name_back_nonul (name : List Nat) (hv : validUtf8 name = true)
    (h : lossyBytes (name.takeWhile (· ≠ 0)) = name) : name.all (· ≠ 0) = true := by
  obtain ⟨cs, hcs, rfl⟩ := (validUtf8_iff name).mp hv
  rw [takeWhile_encodeAll] at h
  have hval : ValidUtf8 (encodeAll (cs.takeWhile (· ≠ 0))) :=
    ⟨_, fun c hc => hcs c ((List.takeWhile_prefix _).subset hc), rfl⟩
  rw [IcyVerif.FontBox.lossyBytes_valid _ hval, ← takeWhile_encodeAll] at h
  exact takeWhile_eq_self _ _ h

/-! ### the reader on what the writer wrote, without any well-formedness -/

theorem u16s_length (l : List Nat) : (u16s l).length = 2 * l.length := by
  induction l with
  | nil => rfl
  | cons x xs ih => simp [u16s, u16le, ih]; omega

theorem fontBytes_length_gen (f : TdfFont) (hn : f.name.length ≤ 12) (htl : f.table.length = 94) :
    (fontBytes f).length = 213 + (encData f.table).length := by
  have hl : (u16s (encOffs 0 f.table)).length = 188 := by rw [u16s_length, encOffs_length, htl]
  simp [fontBytes, indicator, u16le, hl]
  omega

theorem readFont_fontBytes_gen (f : TdfFont) (hn : f.name.length ≤ 12) (htl : f.table.length = 94)
    (hsz : (encData f.table).length ≤ 0xFFFF) (tail : List Nat) :
    readFont (fontBytes f ++ tail) =
      (if f.ftype > 2 then .err else if asU8 f.spaces > 40 then .err else
        match readGlyphs (f.ftype == 2) (encData f.table).length (encData f.table ++ tail) (encOffs 0 f.table) with
        | .ok gs => .ok ({ name := lossyBytes (f.name.takeWhile (· ≠ 0)), ftype := f.ftype, spaces := ((asU8 f.spaces : Nat) : Int),
                           table := gs }, tail)
        | .err => .err
        | .panic => .panic) := by
  have hlen : ¬ ((fontBytes f ++ tail).length < 213) := by
    have := fontBytes_length_gen f hn htl
    simp only [List.length_append]; omega
  unfold readFont
  rw [if_neg hlen]
  unfold fontBytes
  simp only [indicator, List.cons_append, List.nil_append, List.append_assoc]
  simp only [ne_eq, not_true_eq_false, if_false, gt_iff_lt, Nat.lt_irrefl]
  generalize hY : f.ftype :: asU8 f.spaces :: (u16le (encData f.table).length ++
      (u16s (encOffs 0 f.table) ++ (encData f.table ++ tail))) = Y
  have hname : nameBytes 12 (f.name ++ (List.replicate (12 - f.name.length) 0 ++ 0 :: 0 :: 0 :: 0 :: Y)) =
      some (f.name.takeWhile (· ≠ 0)) := by
    have := nameBytes_takeWhile f.name (0 :: 0 :: 0 :: 0 :: Y) (12 - f.name.length)
    have e : f.name.length + (12 - f.name.length) = 12 := by omega
    rw [e, List.append_assoc] at this
    exact this
  have hdrop : List.drop 16 (f.name ++ (List.replicate (12 - f.name.length) 0 ++ 0 :: 0 :: 0 :: 0 :: Y)) = Y := by
    have e : f.name ++ (List.replicate (12 - f.name.length) 0 ++ 0 :: 0 :: 0 :: 0 :: Y) =
        (f.name ++ List.replicate (12 - f.name.length) 0 ++ [0, 0, 0, 0]) ++ Y := by simp [List.append_assoc]
    have l : (f.name ++ List.replicate (12 - f.name.length) 0 ++ [0, 0, 0, 0]).length = 16 := by
      simp; omega
    rw [e, ← l, List.drop_left]
  rw [hname, hdrop, ← hY]
  simp only
  by_cases hty : f.ftype > 2
  · rw [if_pos hty, if_pos hty]
  · rw [if_neg hty, if_neg hty]
    by_cases hsp : asU8 f.spaces > 40
    · rw [if_pos hsp, if_pos hsp]
    · rw [if_neg hsp, if_neg hsp]
      simp only [u16le, List.cons_append, List.nil_append]
      have hoffs : readU16s 94 (u16s (encOffs 0 f.table) ++ (encData f.table ++ tail)) =
          some (encOffs 0 f.table, encData f.table ++ tail) := by
        have := readU16s_u16s (encOffs 0 f.table) (encData f.table ++ tail) (encOffs_lt 0 f.table)
        rw [encOffs_length, htl] at this
        exact this
      rw [hoffs]
      simp only
      have hbs : (encData f.table).length % 256 + 256 * ((encData f.table).length / 256 % 256) = (encData f.table).length := by
        omega
      rw [hbs]
      cases readGlyphs (f.ftype == 2) (encData f.table).length (encData f.table ++ tail) (encOffs 0 f.table) with
      | ok gs => simp only [List.drop_left]
      | err => rfl
      | panic => rfl

/-! ### whatever `from_tdf_bytes` returns has 94 table entries -/

theorem readU16s_length : ∀ (n : Nat) (l offs rest : List Nat), readU16s n l = some (offs, rest) → offs.length = n := by
  intro n
  induction n with
  | zero => intro l offs rest h; simp [readU16s] at h; simp [h.1.symm]
  | succ n ih =>
    intro l offs rest h
    match l, h with
    | a :: b :: l', h =>
      simp only [readU16s, Option.map_eq_some_iff] at h
      obtain ⟨⟨o', r'⟩, hs, he⟩ := h
      simp only [Prod.mk.injEq] at he
      obtain ⟨rfl, rfl⟩ := he
      simp [ih l' o' r' hs]
    | [], h => simp [readU16s] at h
    | [_], h => simp [readU16s] at h

theorem readGlyphs_length (color : Bool) (bs : Nat) (blk : List Nat) : ∀ (offs : List Nat) (gs : List (Option TGlyph)),
    readGlyphs color bs blk offs = .ok gs → gs.length = offs.length := by
  intro offs
  induction offs with
  | nil => intro gs h; simp [readGlyphs] at h; simp [← h]
  | cons o os ih =>
    intro gs h
    unfold readGlyphs at h
    cases hg : readGlyph color bs blk o with
    | ok g =>
      rw [hg] at h
      simp only at h
      cases hr : readGlyphs color bs blk os with
      | ok gs' =>
        rw [hr] at h
        simp only [Res.ok.injEq] at h
        subst h
        simp [ih gs' hr]
      | err => rw [hr] at h; simp at h
      | panic => rw [hr] at h; simp at h
    | err => rw [hg] at h; simp at h
    | panic => rw [hg] at h; simp at h

/-! ### the converse -/

theorem readFont_table_length (rem : List Nat) (f' : TdfFont) (r' : List Nat) (h : readFont rem = .ok (f', r')) :
    f'.table.length = 94 := by
  unfold readFont at h
  repeat' (split at h)
  all_goals (first | (simp at h; done) | skip)
  rename_i x1 offs blk hu x0 gs hg
  simp only [Res.ok.injEq, Prod.mk.injEq] at h
  obtain ⟨rfl, _⟩ := h
  simp only
  rw [readGlyphs_length _ _ _ _ _ hg, readU16s_length _ _ _ _ hu]

/-- what a successful `add_font_data` has checked and written -/
theorem addFontData_ok (f : TdfFont) (d : List Nat) (h : addFontData f = .ok d) :
    f.name.length ≤ 12 ∧ f.spaces ≤ 40 ∧ (encData f.table).length ≤ 0xFFFF ∧ d = fontBytes f := by
  unfold addFontData at h
  split at h
  · simp at h
  · split at h
    · simp at h
    · rw [encLoop_eq] at h
      simp only [List.nil_append, List.length_nil] at h
      split at h
      · simp at h
      · simp only [Res.ok.injEq] at h
        refine ⟨by omega, by omega, by omega, ?_⟩
        rw [← h]; rfl

/-- the reader gives the font back ONLY IF the font is well formed (name a Rust `String`) -/
theorem tdf_only_if (f : TdfFont) (hv : validUtf8 f.name = true) (bytes : List Nat)
    (h1 : asTdf f = .ok bytes) (h2 : fromTdf bytes = .ok [f]) : WfTdf f := by
  unfold asTdf at h1
  cases ha : addFontData f with
  | err => rw [ha] at h1; simp at h1
  | panic => rw [ha] at h1; simp at h1
  | ok d =>
    rw [ha] at h1
    simp only [Res.ok.injEq] at h1
    subst h1
    obtain ⟨hn, hsp, hsz, rfl⟩ := addFontData_ok f d ha
    have hfont : ∃ rem', readFont (fontBytes f) = .ok (f, rem') := by
      unfold fromTdf at h2
      split at h2
      · simp at h2
      · simp only [fileHeader_eq, List.cons_append, List.append_assoc, List.nil_append] at h2
        simp only [ne_eq, not_true_eq_false, if_false] at h2
        have htake : List.take 18 (idBytes ++ 26 :: fontBytes f) = idBytes := by
          rw [← idBytes_length, List.take_left]
        have hdrop : List.drop 18 (idBytes ++ 26 :: fontBytes f) = 26 :: fontBytes f := by
          rw [← idBytes_length, List.drop_left]
        rw [htake, hdrop] at h2
        simp only [ne_eq, not_true_eq_false, if_false] at h2
        obtain ⟨r, hr⟩ := fontBytes_head f
        rw [hr] at h2 ⊢
        simp only [List.length_cons, readFonts] at h2
        rw [if_neg (by omega)] at h2
        cases hrf : readFont (85 :: r) with
        | err => rw [hrf] at h2; simp at h2
        | panic => rw [hrf] at h2; simp at h2
        | ok p =>
          obtain ⟨f1, rem'⟩ := p
          rw [hrf] at h2
          simp only at h2
          cases hrs : readFonts r.length rem' with
          | err => rw [hrs] at h2; simp at h2
          | panic => rw [hrs] at h2; simp at h2
          | ok fs =>
            rw [hrs] at h2
            simp only [Res.ok.injEq, List.cons.injEq] at h2
            exact ⟨rem', by rw [h2.1]⟩
    obtain ⟨rem', hfont⟩ := hfont
    have htl := readFont_table_length _ _ _ hfont
    have gen := readFont_fontBytes_gen f hn htl hsz []
    rw [List.append_nil] at gen
    rw [gen] at hfont
    split at hfont
    · simp at hfont
    · rename_i hty
      split at hfont
      · simp at hfont
      · rename_i hsp8
        split at hfont
        · rename_i gs hgs
          simp only [Res.ok.injEq, Prod.mk.injEq] at hfont
          obtain ⟨hrec, _⟩ := hfont
          have hname : lossyBytes (f.name.takeWhile (· ≠ 0)) = f.name := congrArg TdfFont.name hrec
          have hspaces : ((asU8 f.spaces : Nat) : Int) = f.spaces := congrArg TdfFont.spaces hrec
          have htab : gs = f.table := congrArg TdfFont.table hrec
          subst htab
          rw [List.append_nil] at hgs
          have htw := readGlyphs_enc_conv (f.ftype == 2) (encData f.table).length (by omega) f.table [] []
            (by simp) (by simpa using hgs)
          obtain ⟨s0, _⟩ := asU8_fix _ hspaces
          unfold WfTdf wfTdfB
          simp only [Bool.and_eq_true, decide_eq_true_eq]
          refine ⟨⟨⟨⟨⟨⟨⟨⟨hn, hv⟩, name_back_nonul f.name hv hname⟩, by omega⟩, s0⟩, hsp⟩, htl⟩, ?_⟩, ?_⟩
          · rw [List.all_eq_true]
            intro g hg
            have := htw g hg
            cases g with
            | none => rfl
            | some g => exact this
          · rw [encLoop_eq]; simpa using hsz
        · simp at hfont
        · simp at hfont
end IcyVerif.Tdf
