import IcyVerif.Model.ArtWriters
/-! # Screen-level lemmas for the art readers (C15, C04)

What `Buffer::print_char` / `Caret::lf` do to the picture `Buffer::get_char` shows (`shownAt`), independent of any
format: a `put` changes exactly the cell under the caret, an `lf` changes nothing that is shown; plus the bookkeeping of
the number of rows needed for `crop_loaded_file`. -/
set_option linter.unusedSimpArgs false
namespace IcyVerif.ArtIO

/-- what `Buffer::get_char` shows of one row at column `x` (inside the layer) -/
def lineShown (l : List Cell) (x : Nat) : Cell :=
  match l[x]? with
  | some c => shown c
  | none => defaultCell

/-- what `Buffer::get_char` shows at `(x, y)` (inside the layer) -/
def shownAt (lines : List (List Cell)) (x y : Nat) : Cell := lineShown ((lines[y]?).getD []) x

theorem viewLines_eq (w h : Nat) (lines : List (List Cell)) (x y : Nat) :
    viewLines w h lines x y = if w ≤ x ∨ h ≤ y then invisibleCell else shownAt lines x y := by
  unfold viewLines shownAt lineShown
  by_cases hb : w ≤ x ∨ h ≤ y
  · simp [hb]
  · simp only [hb, if_false]
    cases hl : lines[y]? with
    | none => simp
    | some l => rfl

theorem shown_invisible : shown invisibleCell = defaultCell := by decide

theorem shown_of_visible {c : Cell} (h : c.isVisible = true) : shown c = c := by simp [shown, h]

theorem lineShown_nil (x : Nat) : lineShown [] x = defaultCell := by simp [lineShown]

theorem lineShown_replicate_invisible (n x : Nat) : lineShown (List.replicate n invisibleCell) x = defaultCell := by
  unfold lineShown
  rw [List.getElem?_replicate]
  by_cases hx : x < n <;> simp [hx, shown_invisible]

theorem lineShown_lineSetChar (l : List Cell) (x x' : Nat) (c : Cell) :
    lineShown (lineSetChar l x c) x' = if x' = x then shown c else lineShown l x' := by
  unfold lineSetChar lineShown
  by_cases h : l.length ≤ x
  · simp only [h, if_true]
    rw [List.getElem?_set]
    by_cases hx : x = x'
    · subst hx
      have : x < l.length + (x + 1 - l.length) := by omega
      simp [this]
    · have hx' : ¬ x' = x := fun e => hx e.symm
      simp only [hx, hx', if_false]
      rw [List.getElem?_append]
      by_cases hl : x' < l.length
      · simp [hl]
      · simp only [hl, if_false]
        rw [List.getElem?_replicate]
        have : l[x']? = none := by simp; omega
        rw [this]
        by_cases hq : x' - l.length < x + 1 - l.length <;> simp [hq, shown_invisible]
  · simp only [h, if_false]
    rw [List.getElem?_set]
    by_cases hx : x = x'
    · subst hx
      have : x < l.length := by omega
      simp [this]
    · have hx' : ¬ x' = x := fun e => hx e.symm
      simp [hx, hx']

theorem length_lineSetChar (l : List Cell) (x : Nat) (c : Cell) : (lineSetChar l x c).length = max l.length (x + 1) := by
  unfold lineSetChar
  by_cases h : l.length ≤ x <;> simp [h] <;> omega

theorem lineSetChar_ne_nil (l : List Cell) (x : Nat) (c : Cell) : lineSetChar l x c ≠ [] := by
  intro h
  have h1 : (lineSetChar l x c).length = 0 := by rw [h]; rfl
  rw [length_lineSetChar] at h1
  omega

theorem shownAt_linesSetChar (lines : List (List Cell)) (w x y x' y' : Nat) (c : Cell) :
    shownAt (linesSetChar lines w x y c) x' y' = if x' = x ∧ y' = y then shown c else shownAt lines x' y' := by
  unfold shownAt linesSetChar
  rw [List.getElem?_modify]
  by_cases hy : y = y'
  · subst hy
    by_cases hl : lines.length ≤ y
    · simp only [hl, if_true]
      rw [List.getElem?_append]
      have h1 : ¬ y < lines.length := by omega
      have h2 : lines[y]? = none := by simp; omega
      simp only [h1, if_false, h2, List.getElem?_replicate]
      have h3 : y - lines.length < y + 1 - lines.length := by omega
      simp only [h3, if_true, Option.map_eq_map, Option.map_some, Option.getD_some, Option.getD_none, lineShown_lineSetChar,
        lineShown_replicate_invisible, lineShown_nil]
      by_cases hx : x' = x <;> simp [hx]
    · simp only [hl, if_false]
      have h1 : y < lines.length := by omega
      have : lines[y]? = some lines[y] := by simp [h1]
      rw [this]
      simp only [Option.map_eq_map, Option.map_some, Option.getD_some, if_true, lineShown_lineSetChar]
      by_cases hx : x' = x <;> simp [hx]
  · have hy' : ¬ y' = y := fun e => hy e.symm
    simp only [hy, hy', and_false, if_false]
    by_cases hl : lines.length ≤ y
    · simp only [hl, if_true]
      rw [List.getElem?_append]
      by_cases h1 : y' < lines.length
      · simp [h1]
      · have h2 : lines[y']? = none := by simp; omega
        simp only [h1, if_false, h2, List.getElem?_replicate]
        by_cases h3 : y' - lines.length < y + 1 - lines.length
        · simp [h3, lineShown_replicate_invisible, lineShown_nil]
        · simp [h3]
    · simp [hl]

theorem length_linesSetChar (lines : List (List Cell)) (w x y : Nat) (c : Cell) :
    (linesSetChar lines w x y c).length = max lines.length (y + 1) := by
  unfold linesSetChar
  rw [List.length_modify]
  by_cases hl : lines.length ≤ y <;> simp [hl] <;> omega

/-- row `y` exists and holds at least one cell -/
def RowNonEmpty (lines : List (List Cell)) (y : Nat) : Prop := ∃ l, lines[y]? = some l ∧ l ≠ []

theorem rowNonEmpty_linesSetChar (lines : List (List Cell)) (w x y : Nat) (c : Cell) :
    RowNonEmpty (linesSetChar lines w x y c) y := by
  unfold RowNonEmpty linesSetChar
  rw [List.getElem?_modify]
  by_cases hl : lines.length ≤ y
  · simp only [hl, if_true]
    rw [List.getElem?_append]
    have h1 : ¬ y < lines.length := by omega
    have h3 : y - lines.length < y + 1 - lines.length := by omega
    simp only [h1, if_false, List.getElem?_replicate, h3, if_true]
    exact ⟨_, rfl, lineSetChar_ne_nil _ _ _⟩
  · simp only [hl, if_false]
    have h1 : y < lines.length := by omega
    have : lines[y]? = some lines[y] := by simp [h1]
    rw [this]
    exact ⟨_, rfl, lineSetChar_ne_nil _ _ _⟩

theorem rowNonEmpty_linesSetChar_other (lines : List (List Cell)) (w x y y' : Nat) (c : Cell)
    (h : RowNonEmpty lines y') : RowNonEmpty (linesSetChar lines w x y c) y' := by
  by_cases e : y' = y
  · subst e; exact rowNonEmpty_linesSetChar _ _ _ _ _
  · obtain ⟨l, hl, hne⟩ := h
    refine ⟨l, ?_, hne⟩
    unfold linesSetChar
    rw [List.getElem?_modify]
    have e' : ¬ y = y' := fun q => e q.symm
    have hlt : y' < lines.length := by
      rcases Nat.lt_or_ge y' lines.length with q | q
      · exact q
      · rw [List.getElem?_eq_none q] at hl; cases hl
    by_cases hq : lines.length ≤ y
    · simp only [hq, if_true, List.getElem?_append, hlt, e', if_false, hl]; rfl
    · simp only [hq, if_false, e', hl]; rfl

theorem getElem?_linesExtend (lines : List (List Cell)) (y j : Nat) :
    (linesExtend lines y)[j]? = if j < lines.length then lines[j]? else if j ≤ y then some [] else none := by
  unfold linesExtend
  by_cases hl : lines.length ≤ y
  · simp only [hl, if_true]
    rw [List.getElem?_append]
    by_cases hj : j < lines.length
    · simp [hj]
    · simp only [hj, if_false, List.getElem?_replicate]
      by_cases hq : j ≤ y
      · have : j - lines.length < y + 1 - lines.length := by omega
        simp [hq, this]
      · have : ¬ j - lines.length < y + 1 - lines.length := by omega
        simp [hq, this]
  · simp only [hl, if_false]
    by_cases hj : j < lines.length
    · simp [hj]
    · have h1 : ¬ j ≤ y := by omega
      have h2 : lines[j]? = none := by simp; omega
      simp [hj, h1, h2]

theorem length_linesExtend (lines : List (List Cell)) (y : Nat) :
    (linesExtend lines y).length = max lines.length (y + 1) := by
  unfold linesExtend
  by_cases hl : lines.length ≤ y <;> simp [hl] <;> omega

theorem shownAt_linesExtend (lines : List (List Cell)) (y x' y' : Nat) :
    shownAt (linesExtend lines y) x' y' = shownAt lines x' y' := by
  unfold shownAt
  rw [getElem?_linesExtend]
  by_cases hj : y' < lines.length
  · simp [hj]
  · have h2 : lines[y']? = none := by simp; omega
    by_cases hq : y' ≤ y <;> simp [hj, hq, h2]

theorem rowNonEmpty_linesExtend (lines : List (List Cell)) (y y' : Nat) (h : RowNonEmpty lines y') :
    RowNonEmpty (linesExtend lines y) y' := by
  obtain ⟨l, hl, hne⟩ := h
  refine ⟨l, ?_, hne⟩
  rw [getElem?_linesExtend]
  have hlt : y' < lines.length := by
    rcases Nat.lt_or_ge y' lines.length with q | q
    · exact q
    · rw [List.getElem?_eq_none q] at hl; cases hl
  rw [if_pos hlt]; exact hl

/-! ### `put` in normal form -/

theorem put_eq (s : Screen) (c : Cell) (h : s.cx < s.w) :
    s.put c =
      if s.cx + 1 < s.w then
        { w := s.w, layerH := max s.layerH (s.cy + 1), lines := linesSetChar s.lines s.w s.cx s.cy c, cx := s.cx + 1, cy := s.cy }
      else
        { w := s.w, layerH := max s.layerH (s.cy + 1), lines := linesExtend (linesSetChar s.lines s.w s.cx s.cy c) (s.cy + 1),
          cx := 0, cy := s.cy + 1 } := by
  unfold Screen.put Screen.setChar Screen.lf
  by_cases hH : s.layerH < s.cy + 1
  · have e : max s.layerH (s.cy + 1) = s.cy + 1 := by omega
    have n1 : ¬ (s.w ≤ s.cx ∨ s.cy + 1 ≤ s.cy) := by omega
    by_cases hw : s.cx + 1 < s.w
    · have n2 : ¬ (s.w ≤ s.cx + 1) := by omega
      simp [hH, e, n1, hw, n2]
    · have n2 : s.w ≤ s.cx + 1 := by omega
      simp [hH, e, n1, hw, n2]
  · have e : max s.layerH (s.cy + 1) = s.layerH := by omega
    have n1 : ¬ (s.w ≤ s.cx ∨ s.layerH ≤ s.cy) := by omega
    by_cases hw : s.cx + 1 < s.w
    · have n2 : ¬ (s.w ≤ s.cx + 1) := by omega
      simp [hH, e, n1, hw, n2]
    · have n2 : s.w ≤ s.cx + 1 := by omega
      simp [hH, e, n1, hw, n2]

theorem put_w (s : Screen) (c : Cell) (h : s.cx < s.w) : (s.put c).w = s.w := by
  rw [put_eq s c h]; split <;> rfl

theorem put_view (s : Screen) (c : Cell) (h : s.cx < s.w) (x' y' : Nat) :
    shownAt (s.put c).lines x' y' = if x' = s.cx ∧ y' = s.cy then shown c else shownAt s.lines x' y' := by
  rw [put_eq s c h]
  split
  · exact shownAt_linesSetChar _ _ _ _ _ _ _
  · show shownAt (linesExtend _ _) x' y' = _
    rw [shownAt_linesExtend]; exact shownAt_linesSetChar _ _ _ _ _ _ _

theorem put_pos_in (s : Screen) (c : Cell) (h : s.cx + 1 < s.w) : (s.put c).cx = s.cx + 1 ∧ (s.put c).cy = s.cy := by
  rw [put_eq s c (by omega)]; simp [h]

theorem put_pos_wrap (s : Screen) (c : Cell) (h : s.cx + 1 = s.w) : (s.put c).cx = 0 ∧ (s.put c).cy = s.cy + 1 := by
  have n : ¬ s.cx + 1 < s.w := by omega
  rw [put_eq s c (by omega)]; simp [n]

theorem put_lines_in (s : Screen) (c : Cell) (h : s.cx + 1 < s.w) :
    (s.put c).lines = linesSetChar s.lines s.w s.cx s.cy c := by
  rw [put_eq s c (by omega)]; simp [h]

theorem put_lines_wrap (s : Screen) (c : Cell) (h : s.cx + 1 = s.w) :
    (s.put c).lines = linesExtend (linesSetChar s.lines s.w s.cx s.cy c) (s.cy + 1) := by
  have n : ¬ s.cx + 1 < s.w := by omega
  rw [put_eq s c (by omega)]; simp [n]

/-! ### screen programs -/

/-- the two things a writer-shaped row does to the screen: print a cell, end the row (CR LF) -/
inductive Op
  | put (c : Cell)
  | nl
deriving Repr

def Screen.exec (s : Screen) : Op → Screen
  | .put c => s.put c
  | .nl => s.cr.lf

def Screen.runOps (s : Screen) (ops : List Op) : Screen := ops.foldl Screen.exec s

theorem runOps_append (s : Screen) (a b : List Op) : s.runOps (a ++ b) = (s.runOps a).runOps b := by
  simp [Screen.runOps, List.foldl_append]

theorem runOps_nil (s : Screen) : s.runOps [] = s := rfl
theorem runOps_cons (s : Screen) (o : Op) (os : List Op) : s.runOps (o :: os) = (s.exec o).runOps os := rfl

def putOps (cells : List Cell) : List Op := cells.map Op.put

/-- everything the proofs need to know about printing `cells` from column `s.cx` of row `s.cy` when they fit into the row -/
structure PutsSpec (s s' : Screen) (cells : List Cell) : Prop where
  w_eq : s'.w = s.w
  pos_in : s.cx + cells.length < s.w → s'.cx = s.cx + cells.length ∧ s'.cy = s.cy
  pos_wrap : cells ≠ [] → s.cx + cells.length = s.w → s'.cx = 0 ∧ s'.cy = s.cy + 1
  view : ∀ x' y', shownAt s'.lines x' y' =
    if y' = s.cy ∧ s.cx ≤ x' ∧ x' < s.cx + cells.length then shown (cells.getD (x' - s.cx) defaultCell) else shownAt s.lines x' y'
  len_in : cells ≠ [] → s.lines.length ≤ s.cy + 1 → s.cx + cells.length < s.w →
    s'.lines.length = s.cy + 1 ∧ RowNonEmpty s'.lines s.cy
  len_wrap : cells ≠ [] → s.lines.length ≤ s.cy + 1 → s.cx + cells.length = s.w →
    s'.lines.length = s.cy + 2 ∧ s'.lines[s.cy + 1]? = some [] ∧ RowNonEmpty s'.lines s.cy

theorem puts_spec (cells : List Cell) : ∀ (s : Screen), s.cx + cells.length ≤ s.w → PutsSpec s (s.runOps (putOps cells)) cells := by
  induction cells with
  | nil =>
    intro s _
    refine ⟨rfl, fun _ => ⟨by simp [putOps, runOps_nil], by simp [putOps, runOps_nil]⟩, fun h => absurd rfl h, ?_, fun h => absurd rfl h, fun h => absurd rfl h⟩
    intro x' y'
    have : ¬ (y' = s.cy ∧ s.cx ≤ x' ∧ x' < s.cx + ([] : List Cell).length) := by
      intro ⟨_, h1, h2⟩; simp at h2; omega
    rw [if_neg this]; rfl
  | cons c cs ih =>
    intro s hfit
    have hlen : (c :: cs).length = cs.length + 1 := rfl
    have hcx : s.cx < s.w := by rw [hlen] at hfit; omega
    show PutsSpec s ((s.exec (Op.put c)).runOps (putOps cs)) (c :: cs)
    show PutsSpec s ((s.put c).runOps (putOps cs)) (c :: cs)
    by_cases hin : s.cx + 1 < s.w
    · -- the cell does not reach the margin: continue with the rest on the same row
      obtain ⟨px, py⟩ := put_pos_in s c hin
      have pw := put_w s c hcx
      have pl := put_lines_in s c hin
      have hfit' : (s.put c).cx + cs.length ≤ (s.put c).w := by rw [px, pw]; rw [hlen] at hfit; omega
      have I := ih (s.put c) hfit'
      refine ⟨by rw [I.w_eq, pw], ?_, ?_, ?_, ?_, ?_⟩
      · intro h
        have := I.pos_in (by rw [px, pw]; rw [hlen] at h; omega)
        rw [px, py] at this
        rw [hlen]; constructor <;> omega
      · intro _ h
        have hne : cs ≠ [] := by
          intro e; subst e; simp at h; omega
        have := I.pos_wrap hne (by rw [px, pw]; rw [hlen] at h; omega)
        rw [py] at this
        exact this
      · intro x' y'
        rw [I.view, put_view s c hcx, px, py]
        by_cases hy : y' = s.cy
        · by_cases h0 : x' = s.cx
          · subst h0
            have : ¬ (s.cx + 1 ≤ s.cx) := by omega
            simp [hy, this]
          · by_cases h1 : s.cx + 1 ≤ x' ∧ x' < s.cx + 1 + cs.length
            · have h2 : s.cx ≤ x' ∧ x' < s.cx + (c :: cs).length := by rw [hlen]; omega
              have e : x' - s.cx = (x' - (s.cx + 1)) + 1 := by omega
              simp only [hy, h1, h2, and_self, if_true, true_and]
              rw [e]; rfl
            · have h2 : ¬ (s.cx ≤ x' ∧ x' < s.cx + (c :: cs).length) := by rw [hlen]; omega
              simp only [hy, true_and, h1, h2, if_false, h0, false_and]
        · simp [hy]
      · intro _ hl h
        by_cases hne : cs = []
        · subst hne
          simp only [putOps, List.map_nil, runOps_nil]
          rw [pl]
          exact ⟨by rw [length_linesSetChar]; omega, rowNonEmpty_linesSetChar _ _ _ _ _⟩
        · have hl' : (s.put c).lines.length ≤ (s.put c).cy + 1 := by rw [pl, py, length_linesSetChar]; omega
          have := I.len_in hne hl' (by rw [px, pw]; rw [hlen] at h; omega)
          rw [py] at this
          exact this
      · intro _ hl h
        have hne : cs ≠ [] := by
          intro e; subst e; simp at h; omega
        have hl' : (s.put c).lines.length ≤ (s.put c).cy + 1 := by rw [pl, py, length_linesSetChar]; omega
        have := I.len_wrap hne hl' (by rw [px, pw]; rw [hlen] at h; omega)
        rw [py] at this
        exact this
    · -- the cell is the last of the row: auto-wrap
      have hw : s.cx + 1 = s.w := by omega
      have hcs : cs = [] := by
        cases cs with
        | nil => rfl
        | cons a b => simp at hfit; omega
      subst hcs
      obtain ⟨px, py⟩ := put_pos_wrap s c hw
      have pw := put_w s c hcx
      have pl := put_lines_wrap s c hw
      simp only [putOps, List.map_nil, runOps_nil]
      refine ⟨pw, ?_, ?_, ?_, ?_, ?_⟩
      · intro h; simp at h; omega
      · intro _ _; exact ⟨px, py⟩
      · intro x' y'
        rw [put_view s c hcx]
        by_cases hxy : x' = s.cx ∧ y' = s.cy
        · obtain ⟨hx, hy⟩ := hxy
          subst hx; subst hy
          have : s.cy = s.cy ∧ s.cx ≤ s.cx ∧ s.cx < s.cx + [c].length := by simp
          rw [if_pos ⟨rfl, rfl⟩, if_pos this]
          simp
        · have : ¬ (y' = s.cy ∧ s.cx ≤ x' ∧ x' < s.cx + [c].length) := by
            intro ⟨h1, h2, h3⟩; simp at h3; exact hxy ⟨by omega, h1⟩
          rw [if_neg hxy, if_neg this]
      · intro _ _ h; simp at h; omega
      · intro _ hl _
        rw [pl]
        refine ⟨?_, ?_, ?_⟩
        · rw [length_linesExtend, length_linesSetChar]; omega
        · rw [getElem?_linesExtend, length_linesSetChar]
          have : ¬ s.cy + 1 < max s.lines.length (s.cy + 1) := by omega
          simp [this]
        · exact rowNonEmpty_linesExtend _ _ _ (rowNonEmpty_linesSetChar _ _ _ _ _)

/-! ### CR LF -/

theorem nl_spec (s : Screen) :
    (s.exec Op.nl).w = s.w ∧ (s.exec Op.nl).cx = 0 ∧ (s.exec Op.nl).cy = s.cy + 1 ∧
    (∀ x' y', shownAt (s.exec Op.nl).lines x' y' = shownAt s.lines x' y') ∧
    (s.exec Op.nl).lines.length = max s.lines.length (s.cy + 2) := by
  refine ⟨rfl, rfl, rfl, ?_, ?_⟩
  · intro x' y'; exact shownAt_linesExtend _ _ _ _
  · show (linesExtend _ _).length = _
    rw [length_linesExtend]; rfl

end IcyVerif.ArtIO
