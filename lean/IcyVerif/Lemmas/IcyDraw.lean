import IcyVerif.Model.IcyDraw
/-! Lemmas about the IcyDraw model (C07): little-endian fields, the attribute markers, one cell, one row, all rows
of a layer payload: the reader run on what the writer emits returns exactly the cells the writer saw. -/
set_option linter.unusedSimpArgs false
namespace IcyVerif.IcyDraw
open IcyVerif.Gen.Icy

theorem leBytes_length (n v : Nat) : (leBytes n v).length = n := by
  induction n generalizing v with
  | zero => rfl
  | succ n ih => simp [leBytes, ih]

theorem leVal_leBytes (n v : Nat) : leVal (leBytes n v) = v % 256 ^ n := by
  induction n generalizing v with
  | zero => simp [leBytes, leVal, Nat.mod_one]
  | succ n ih =>
    simp only [leBytes, leVal, ih]
    rw [Nat.pow_succ, Nat.mul_comm (256 ^ n) 256, Nat.mod_mul]

theorem lenLt_iff (bs : Bytes) (n : Nat) : lenLt bs n = true ↔ bs.length < n := by
  induction bs generalizing n with
  | nil => cases n <;> simp [lenLt]
  | cons b r ih => cases n with
    | zero => simp [lenLt]
    | succ n => simp [lenLt, ih]

theorem lenLt_false (bs : Bytes) (n : Nat) (h : n ≤ bs.length) : lenLt bs n = false := by
  cases hh : lenLt bs n with
  | false => rfl
  | true => rw [lenLt_iff] at hh; omega

theorem rdSlice_append (s r : Bytes) : rdSlice s.length (s ++ r) = .ok (s, r) := by
  unfold rdSlice
  rw [lenLt_false _ _ (by simp)]
  simp

theorem rdLE_leBytes (n v : Nat) (r : Bytes) : rdLE n (leBytes n v ++ r) = .ok (v % 256 ^ n, r) := by
  unfold rdLE
  have := rdSlice_append (leBytes n v) r
  rw [leBytes_length] at this
  rw [this]
  simp [leVal_leBytes]

theorem attr_short (a : Nat) (ha : a < 65536) (hv : a &&& 32768 = 0) (hs : a &&& 16384 = 0) :
    (a ||| 16384) < 65536 ∧ (a ||| 16384) ≠ 49152 ∧ (a ||| 16384) &&& 16384 ≠ 0 ∧ (a ||| 16384) &&& 49151 = a := by
  refine ⟨?_, ?_, ?_, ?_⟩
  · exact Nat.or_lt_two_pow (n := 16) ha (by decide)
  · intro h
    have : (a ||| 16384) &&& 32768 = 0 := by rw [Nat.and_or_distrib_right, hv]; decide
    rw [h] at this; revert this; decide
  · rw [Nat.and_or_distrib_right, hs]; decide
  · rw [Nat.and_or_distrib_right]
    have h1 : a &&& 65535 = a := by
      have := Nat.and_two_pow_sub_one_eq_mod a 16
      simp at this; rw [this]; omega
    have h2 : (65535 : Nat) = 49151 ||| 16384 := by decide
    have h3 : a &&& 49151 = a := by
      conv => rhs; rw [← h1, h2, Nat.and_or_distrib_left, hs]
      simp
    rw [h3]; simp

theorem attr_long (a : Nat) (hv : a &&& 32768 = 0) : a ≠ 49152 ∧ a ≠ 32768 := by
  constructor <;> (intro h; subst h; revert hv; decide)

/-- what the reader does with a cell: `some c` = `set_char`, `none` = skipped -/
def optCell (c : Cell) : Option Cell := if c.visible then some c else none

theorem le2_val (x : Nat) (h : x < 65536) : x % 256 + 256 * (x / 256 % 256) = x := by omega

/-- prepend the outcome of one cell to the outcome of the rest of the row -/
def consRow (o : Option Cell) : Res (List (Option Cell) × Bytes) → Res (List (Option Cell) × Bytes)
  | .ok (cs, r) => .ok (o :: cs, r)
  | .fail e => .fail e

theorem readRow_term (w : Nat) (rest : Bytes) :
    readRow (w + 1) (leBytes 2 attrInvisibleShort ++ rest) = .ok ([], rest) := by
  simp [readRow, leBytes, attrInvisibleShort]

theorem readRow_invisible (w : Nat) (rest : Bytes) :
    readRow (w + 1) (leBytes 2 attrInvisible ++ rest) = consRow none (readRow w rest) := by
  simp [readRow, leBytes, attrInvisible, attrInvisibleShort, attrShortData, consRow]
  cases readRow w rest with
  | ok p => rfl
  | fail e => rfl

theorem readRow_visible (w : Nat) (c : Cell) (rest : Bytes) (hw : c.wf = true) (hv : c.visible = true) :
    readRow (w + 1) (encodeCell c ++ rest) = consRow (some c) (readRow w rest) := by
  obtain ⟨ch, fg, bg, page, attr⟩ := c
  simp only [Cell.wf, Cell.visible, Bool.and_eq_true, decide_eq_true_eq, Bool.or_eq_true, Bool.not_eq_true',
    beq_iff_eq, attrInvisible, attrShortData] at hw hv
  obtain ⟨⟨⟨⟨⟨hsc, hfg⟩, hbg⟩, hpg⟩, hat⟩, hsh⟩ := hw
  have hs : attr &&& 16384 = 0 := by
    rcases hsh with h | h
    · simp [hv] at h
    · exact h
  obtain ⟨f1, f2, f3, f4⟩ := attr_short attr hat hv hs
  obtain ⟨g1, g2⟩ := attr_long attr hv
  unfold encodeCell
  simp only [Cell.visible, attrInvisible, hv, beq_self_eq_true, if_true]
  by_cases hshort : Cell.isShort ⟨ch, fg, bg, page, attr⟩ = true
  · simp only [hshort, if_true]
    simp only [Cell.isShort, Cell.visible, attrInvisible, hv, shortMax, Bool.and_eq_true, decide_eq_true_eq, beq_self_eq_true, true_and] at hshort
    obtain ⟨⟨⟨h1, h2⟩, h3⟩, h4⟩ := hshort
    have h1 := of_decide_eq_true h1
    have h2 := of_decide_eq_true h2
    have h3 := of_decide_eq_true h3
    have h4 := of_decide_eq_true h4
    have f3' : ((attr ||| 16384) &&& 16384 != 0) = true := by simp [f3]
    simp only [leBytes, List.cons_append, List.nil_append, readRow, attrShortData, attrInvisibleShort, attrInvisible, notShort]
    rw [le2_val _ f1]
    simp only [f2, if_false, f3', if_true, f4, g2]
    simp only [readCellBody, if_true, lenLt, Bool.and_false, Bool.false_eq_true, if_false]
    have e1 : ch % 256 = ch := by omega
    have e2 : fg % 256 = fg := by omega
    have e3 : bg % 256 = bg := by omega
    have e4 : page % 256 = page := by omega
    simp only [e1, e2, e3, e4, hsc, Bool.not_true, Bool.false_eq_true, if_false, consRow]
    cases readRow w rest with
    | ok p => rfl
    | fail e => rfl
  · simp only [hshort, Bool.false_eq_true, if_false]
    simp only [leBytes, List.cons_append, List.nil_append, List.append_assoc, readRow, attrShortData, attrInvisibleShort, attrInvisible, notShort]
    rw [le2_val _ hat]
    have hs' : (attr &&& 16384 != 0) = false := by simp [hs]
    simp only [g1, if_false, hs', Bool.false_eq_true, g2]
    have hlen : ∀ (a b c d e f g h i j k l m n : Nat) (r : Bytes), lenLt (a :: b :: c :: d :: e :: f :: g :: h :: i :: j :: k :: l :: m :: n :: r) 14 = false := by
      intros; simp [lenLt]
    simp only [readCellBody, Bool.false_eq_true, if_false, hlen, Bool.and_false]
    have r4 : ∀ v r, rdLE 4 (v % 256 :: v / 256 % 256 :: v / 256 / 256 % 256 :: v / 256 / 256 / 256 % 256 :: r) = .ok (v % 256 ^ 4, r) := by
      intro v r; exact rdLE_leBytes 4 v r
    have r2 : ∀ v r, rdLE 2 (v % 256 :: v / 256 % 256 :: r) = .ok (v % 256 ^ 2, r) := by
      intro v r; exact rdLE_leBytes 2 v r
    simp only [r4, r2]
    have e1 : ch % 256 ^ 4 = ch := by
      simp only [isScalar, Bool.or_eq_true, decide_eq_true_eq, Bool.and_eq_true] at hsc; omega
    have e2 : fg % 256 ^ 4 = fg := by omega
    have e3 : bg % 256 ^ 4 = bg := by omega
    have e4 : page % 256 ^ 2 = page := by omega
    simp only [e1, e2, e3, e4, hsc, Bool.not_true, Bool.false_eq_true, if_false, consRow]
    cases readRow w rest with
    | ok p => rfl
    | fail e => rfl


/-! ## rows -/

def optRow (cs : List Cell) : List (Option Cell) := cs.map optCell

theorem encodeCell_invisible (c : Cell) (h : c.visible = false) : encodeCell c = leBytes 2 attrInvisible := by
  simp [encodeCell, h]

theorem readRow_cells (cs : List Cell) (k : Nat) (tail rest : Bytes) (hwf : ∀ c ∈ cs, c.wf = true)
    (hk : (k = 0 ∧ tail = []) ∨ (0 < k ∧ tail = leBytes 2 attrInvisibleShort)) :
    readRow (cs.length + k) (cs.flatMap encodeCell ++ (tail ++ rest)) = .ok (optRow cs, rest) := by
  induction cs with
  | nil =>
    rcases hk with ⟨rfl, rfl⟩ | ⟨hk, rfl⟩
    · simp [readRow, optRow]
    · obtain ⟨k', rfl⟩ : ∃ k', k = k' + 1 := ⟨k - 1, by omega⟩
      simp only [List.length_nil, Nat.zero_add, List.flatMap_nil, List.nil_append]
      rw [readRow_term]; rfl
  | cons c cs ih =>
    have ih' := ih (fun c hc => hwf c (List.mem_cons_of_mem _ hc))
    have hc := hwf c (List.mem_cons_self ..)
    have e : (c :: cs).length + k = (cs.length + k) + 1 := by simp; omega
    rw [e, List.flatMap_cons, List.append_assoc]
    cases hv : c.visible with
    | true =>
      rw [readRow_visible _ _ _ hc hv, ih']
      simp [consRow, optRow, optCell, hv]
    | false =>
      rw [encodeCell_invisible _ hv, readRow_invisible, ih']
      simp [consRow, optRow, optCell, hv]

theorem stripInv_prefix (cells : List Cell) :
    ∃ t, cells = stripInv cells ++ t ∧ ∀ c ∈ t, c.visible = false := by
  induction cells with
  | nil => exact ⟨[], rfl, by simp⟩
  | cons c cs ih =>
    obtain ⟨t, ht, hinv⟩ := ih
    simp only [stripInv]
    split
    · rename_i hnil
      rw [hnil] at ht
      simp only [List.nil_append] at ht
      cases hv : c.visible with
      | true => exact ⟨cs, by simp, by rw [ht]; exact hinv⟩
      | false =>
        refine ⟨c :: cs, by simp, ?_⟩
        intro d hd
        rcases List.mem_cons.mp hd with rfl | hd
        · exact hv
        · rw [ht] at hd; exact hinv d hd
    · exact ⟨t, by rw [List.cons_append, ← ht], hinv⟩

theorem stripInv_length_le (cells : List Cell) : (stripInv cells).length ≤ cells.length := by
  obtain ⟨t, ht, _⟩ := stripInv_prefix cells
  have := congrArg List.length ht
  simp at this; omega

theorem stripInv_mem (cells : List Cell) (c : Cell) (h : c ∈ stripInv cells) : c ∈ cells := by
  obtain ⟨t, ht, _⟩ := stripInv_prefix cells
  rw [ht]; exact List.mem_append_left _ h

theorem readRow_encodeRow (w : Nat) (cells : List Cell) (hlen : cells.length = w)
    (hwf : ∀ c ∈ cells, c.wf = true) (rest : Bytes) :
    readRow w (encodeRow w cells ++ rest) = .ok (optRow (stripInv cells), rest) := by
  have hle := stripInv_length_le cells
  have hwf' : ∀ c ∈ stripInv cells, c.wf = true := fun c hc => hwf c (stripInv_mem _ _ hc)
  unfold encodeRow
  simp only []
  by_cases hfull : w > (stripInv cells).length
  · simp only [hfull, if_true, List.append_assoc]
    have := readRow_cells (stripInv cells) (w - (stripInv cells).length) (leBytes 2 attrInvisibleShort) rest hwf'
      (Or.inr ⟨by omega, rfl⟩)
    rw [show (stripInv cells).length + (w - (stripInv cells).length) = w by omega] at this
    exact this
  · simp only [hfull, if_false, List.append_nil]
    have := readRow_cells (stripInv cells) 0 [] rest hwf' (Or.inl ⟨rfl, rfl⟩)
    rw [show (stripInv cells).length + 0 = w by omega] at this
    simpa using this

theorem encodeCell_ne_nil (c : Cell) : encodeCell c ≠ [] := by
  unfold encodeCell
  split
  · split <;> simp [leBytes]
  · simp [leBytes]

theorem encodeRow_ne_nil (w : Nat) (hw : 0 < w) (cells : List Cell) (hlen : cells.length = w) :
    encodeRow w cells ≠ [] := by
  unfold encodeRow
  simp only []
  by_cases hfull : w > (stripInv cells).length
  · simp [hfull, leBytes]
  · simp only [hfull, if_false, List.append_nil]
    have hle := stripInv_length_le cells
    cases hs : stripInv cells with
    | nil => rw [hs] at hfull; simp at hfull; omega
    | cons c cs => simp [List.flatMap_cons, encodeCell_ne_nil]

theorem readRows_rows (w : Nat) (hw : 0 < w) (rows : List (List Cell))
    (hlen : ∀ r ∈ rows, r.length = w) (hwf : ∀ r ∈ rows, ∀ c ∈ r, c.wf = true) :
    readRows w rows.length (rows.flatMap (encodeRow w)) = .ok (rows.map fun r => optRow (stripInv r)) := by
  induction rows with
  | nil => simp [readRows]
  | cons r rs ih =>
    have ih' := ih (fun r hr => hlen r (List.mem_cons_of_mem _ hr)) (fun r hr => hwf r (List.mem_cons_of_mem _ hr))
    have hr := hlen r (List.mem_cons_self ..)
    have hne := encodeRow_ne_nil w hw r hr
    simp only [List.length_cons, List.flatMap_cons, readRows]
    have : (encodeRow w r ++ rs.flatMap (encodeRow w)).isEmpty = false := by
      cases h : encodeRow w r with
      | nil => exact absurd h hne
      | cons a b => rfl
    rw [this]
    simp only [Bool.false_eq_true, if_false]
    rw [readRow_encodeRow w r hr (hwf r (List.mem_cons_self ..))]
    simp only [ih', List.map_cons]

end IcyVerif.IcyDraw
