import IcyVerif.Model.Unicode
set_option linter.unusedSimpArgs false
namespace IcyVerif.Uni

theorem isScalar_iff (v : Nat) : isScalar v = true ↔ (v ≤ 0xD7FF ∨ (0xE000 ≤ v ∧ v ≤ 0x10FFFF)) := by
  simp [isScalar]

theorem enc1 (c : Nat) (h : c < 0x80) : encodeUtf8 c = [c] := by
  rw [encodeUtf8, if_pos h]
theorem enc2 (c : Nat) (h1 : ¬ c < 0x80) (h : c < 0x800) : encodeUtf8 c = [0xC0 + c / 64, 0x80 + c % 64] := by
  rw [encodeUtf8, if_neg h1, if_pos h]
theorem enc3 (c : Nat) (h1 : ¬ c < 0x800) (h : c < 0x10000) :
    encodeUtf8 c = [0xE0 + c / 4096, 0x80 + c / 64 % 64, 0x80 + c % 64] := by
  rw [encodeUtf8, if_neg (by omega), if_neg h1, if_pos h]
theorem enc4 (c : Nat) (h1 : ¬ c < 0x10000) :
    encodeUtf8 c = [0xF0 + c / 262144, 0x80 + c / 4096 % 64, 0x80 + c / 64 % 64, 0x80 + c % 64] := by
  rw [encodeUtf8, if_neg (by omega), if_neg (by omega), if_neg h1]

theorem isCont_iff (b : Nat) : isCont b = true ↔ (0x80 ≤ b ∧ b ≤ 0xBF) := by simp [isCont]
theorem ok3_iff (b c : Nat) : ok3 b c = true ↔
    ((b = 0xE0 ∧ 0xA0 ≤ c ∧ c ≤ 0xBF) ∨ (0xE1 ≤ b ∧ b ≤ 0xEC ∧ 0x80 ≤ c ∧ c ≤ 0xBF) ∨
     (b = 0xED ∧ 0x80 ≤ c ∧ c ≤ 0x9F) ∨ (0xEE ≤ b ∧ b ≤ 0xEF ∧ 0x80 ≤ c ∧ c ≤ 0xBF)) := by
  simp [ok3, isCont]; omega
theorem ok4_iff (b c : Nat) : ok4 b c = true ↔
    ((b = 0xF0 ∧ 0x90 ≤ c ∧ c ≤ 0xBF) ∨ (0xF1 ≤ b ∧ b ≤ 0xF3 ∧ 0x80 ≤ c ∧ c ≤ 0xBF) ∨
     (b = 0xF4 ∧ 0x80 ≤ c ∧ c ≤ 0x8F)) := by
  simp [ok4, isCont]; omega

theorem take1 (a : Nat) (t : List Nat) : (a :: t).take 1 = [a] := rfl
theorem take2 (a b : Nat) (t : List Nat) : (a :: b :: t).take 2 = [a, b] := rfl
theorem take3 (a b c : Nat) (t : List Nat) : (a :: b :: c :: t).take 3 = [a, b, c] := rfl
theorem take4 (a b c d : Nat) (t : List Nat) : (a :: b :: c :: d :: t).take 4 = [a, b, c, d] := rfl

theorem dec2 (b c1 : Nat) (h2 : 194 ≤ b ∧ b ≤ 223) (hc : 128 ≤ c1 ∧ c1 ≤ 191) :
    encodeUtf8 ((b - 192) * 64 + (c1 - 128)) = [b, c1] := by
  rw [enc2 _ (by omega) (by omega)]
  have a1 : 192 + ((b - 192) * 64 + (c1 - 128)) / 64 = b := by omega
  have a2 : 128 + ((b - 192) * 64 + (c1 - 128)) % 64 = c1 := by omega
  rw [a1, a2]
theorem dec3 (b c1 c2 : Nat) (hb : 224 ≤ b ∧ b ≤ 239) (h1 : 128 ≤ c1 ∧ c1 ≤ 191) (h2 : 128 ≤ c2 ∧ c2 ≤ 191)
    (hlo : b = 224 → 160 ≤ c1) :
    encodeUtf8 ((b - 224) * 4096 + (c1 - 128) * 64 + (c2 - 128)) = [b, c1, c2] := by
  rw [enc3 _ (by omega) (by omega)]
  have a1 : 224 + ((b - 224) * 4096 + (c1 - 128) * 64 + (c2 - 128)) / 4096 = b := by omega
  have a2 : 128 + ((b - 224) * 4096 + (c1 - 128) * 64 + (c2 - 128)) / 64 % 64 = c1 := by omega
  have a3 : 128 + ((b - 224) * 4096 + (c1 - 128) * 64 + (c2 - 128)) % 64 = c2 := by omega
  rw [a1, a2, a3]
theorem dec4 (b c1 c2 c3 : Nat) (hb : 240 ≤ b ∧ b ≤ 244) (h1 : 128 ≤ c1 ∧ c1 ≤ 191) (h2 : 128 ≤ c2 ∧ c2 ≤ 191)
    (h3 : 128 ≤ c3 ∧ c3 ≤ 191) (hlo : b = 240 → 144 ≤ c1) :
    encodeUtf8 ((b - 240) * 262144 + (c1 - 128) * 4096 + (c2 - 128) * 64 + (c3 - 128)) = [b, c1, c2, c3] := by
  rw [enc4 _ (by omega)]
  have a1 : 240 + ((b - 240) * 262144 + (c1 - 128) * 4096 + (c2 - 128) * 64 + (c3 - 128)) / 262144 = b := by omega
  have a2 : 128 + ((b - 240) * 262144 + (c1 - 128) * 4096 + (c2 - 128) * 64 + (c3 - 128)) / 4096 % 64 = c1 := by omega
  have a3 : 128 + ((b - 240) * 262144 + (c1 - 128) * 4096 + (c2 - 128) * 64 + (c3 - 128)) / 64 % 64 = c2 := by omega
  have a4 : 128 + ((b - 240) * 262144 + (c1 - 128) * 4096 + (c2 - 128) * 64 + (c3 - 128)) % 64 = c3 := by omega
  rw [a1, a2, a3, a4]

/-- a well-formed sequence at the head decodes to a scalar whose encoding is exactly the consumed bytes -/
theorem step_ch (b : Nat) (rest : List Nat) (cp n : Nat) (h : step b rest = .ch cp n) :
    isScalar cp = true ∧ encodeUtf8 cp = (b :: rest).take n ∧ 1 ≤ n := by
  unfold step at h
  split at h
  · rename_i h1
    injection h with h2 h3; subst h2; subst h3
    exact ⟨by rw [isScalar_iff]; omega, by rw [enc1 _ h1, take1], by omega⟩
  · split at h
    · rename_i h1 h2
      simp only [Bool.and_eq_true, decide_eq_true_eq] at h2
      split at h
      · split at h
        · rename_i c1 _ hc
          rw [isCont_iff] at hc
          injection h with h3 h4; subst h3; subst h4
          refine ⟨by rw [isScalar_iff]; omega, ?_, by omega⟩
          rw [take2]; exact dec2 b c1 h2 hc
        · cases h
      · cases h
    · split at h
      · rename_i h1 h2 h3
        simp only [Bool.and_eq_true, decide_eq_true_eq] at h2 h3
        split at h
        · split at h
          · rename_i c1 rest2 hok
            rw [ok3_iff] at hok
            split at h
            · split at h
              · rename_i c2 _ hc
                rw [isCont_iff] at hc
                injection h with h4 h5; subst h4; subst h5
                refine ⟨by rw [isScalar_iff]; omega, ?_, by omega⟩
                rw [take3]; exact dec3 b c1 c2 h3 (by omega) hc (by omega)
              · cases h
            · cases h
          · cases h
        · cases h
      · split at h
        · rename_i h1 h2 h3 h4
          simp only [Bool.and_eq_true, decide_eq_true_eq] at h2 h3 h4
          split at h
          · split at h
            · rename_i c1 rest2 hok
              rw [ok4_iff] at hok
              split at h
              · split at h
                · rename_i c2 rest3 hc2
                  rw [isCont_iff] at hc2
                  split at h
                  · split at h
                    · rename_i c3 _ hc3
                      rw [isCont_iff] at hc3
                      injection h with h5 h6; subst h5; subst h6
                      refine ⟨by rw [isScalar_iff]; omega, ?_, by omega⟩
                      rw [take4]; exact dec4 b c1 c2 c3 h4 (by omega) hc2 hc3 (by omega)
                    · cases h
                  · cases h
                · cases h
              · cases h
            · cases h
          · cases h
        · cases h


theorem step_enc (c : Nat) (tail : List Nat) (hs : isScalar c = true) :
    ∃ b rest, encodeUtf8 c ++ tail = b :: rest ∧ step b rest = .ch c (encodeUtf8 c).length := by
  rw [isScalar_iff] at hs
  by_cases h1 : c < 0x80
  · refine ⟨c, tail, by rw [enc1 _ h1]; rfl, ?_⟩
    rw [enc1 _ h1]; simp [step, h1]
  · by_cases h2 : c < 0x800
    · refine ⟨0xC0 + c / 64, (0x80 + c % 64) :: tail, by rw [enc2 _ h1 h2]; rfl, ?_⟩
      rw [enc2 _ h1 h2]
      have e1 : ¬ (0xC0 + c / 64 < 0x80) := by omega
      have e2 : (decide (0xC2 ≤ 0xC0 + c / 64) && decide (0xC0 + c / 64 ≤ 0xDF)) = true := by
        simp only [Bool.and_eq_true, decide_eq_true_eq]; omega
      have e3 : isCont (0x80 + c % 64) = true := by rw [isCont_iff]; omega
      have e4 : (0xC0 + c / 64 - 0xC0) * 64 + (0x80 + c % 64 - 0x80) = c := by omega
      simp only [step, e1, e2, e3, e4, if_false, if_true, List.length]
    · by_cases h3 : c < 0x10000
      · refine ⟨0xE0 + c / 4096, (0x80 + c / 64 % 64) :: (0x80 + c % 64) :: tail, by rw [enc3 _ h2 h3]; rfl, ?_⟩
        rw [enc3 _ h2 h3]
        have e1 : ¬ (0xE0 + c / 4096 < 0x80) := by omega
        have e2 : (decide (0xC2 ≤ 0xE0 + c / 4096) && decide (0xE0 + c / 4096 ≤ 0xDF)) = false := by
          simp only [Bool.and_eq_false_iff, decide_eq_false_iff_not]; omega
        have e2' : (decide (0xE0 ≤ 0xE0 + c / 4096) && decide (0xE0 + c / 4096 ≤ 0xEF)) = true := by
          simp only [Bool.and_eq_true, decide_eq_true_eq]; omega
        have e3 : ok3 (0xE0 + c / 4096) (0x80 + c / 64 % 64) = true := by rw [ok3_iff]; omega
        have e3' : isCont (0x80 + c % 64) = true := by rw [isCont_iff]; omega
        have e4 : (0xE0 + c / 4096 - 0xE0) * 4096 + (0x80 + c / 64 % 64 - 0x80) * 64 + (0x80 + c % 64 - 0x80) = c := by omega
        simp only [step, e1, e2, e2', e3, e3', e4, if_false, if_true, List.length, Bool.false_eq_true]
      · refine ⟨0xF0 + c / 262144, (0x80 + c / 4096 % 64) :: (0x80 + c / 64 % 64) :: (0x80 + c % 64) :: tail,
          by rw [enc4 _ h3]; rfl, ?_⟩
        rw [enc4 _ h3]
        have e1 : ¬ (0xF0 + c / 262144 < 0x80) := by omega
        have e2 : (decide (0xC2 ≤ 0xF0 + c / 262144) && decide (0xF0 + c / 262144 ≤ 0xDF)) = false := by
          simp only [Bool.and_eq_false_iff, decide_eq_false_iff_not]; omega
        have e2' : (decide (0xE0 ≤ 0xF0 + c / 262144) && decide (0xF0 + c / 262144 ≤ 0xEF)) = false := by
          simp only [Bool.and_eq_false_iff, decide_eq_false_iff_not]; omega
        have e2'' : (decide (0xF0 ≤ 0xF0 + c / 262144) && decide (0xF0 + c / 262144 ≤ 0xF4)) = true := by
          simp only [Bool.and_eq_true, decide_eq_true_eq]; omega
        have e3 : ok4 (0xF0 + c / 262144) (0x80 + c / 4096 % 64) = true := by rw [ok4_iff]; omega
        have e3' : isCont (0x80 + c / 64 % 64) = true := by rw [isCont_iff]; omega
        have e3'' : isCont (0x80 + c % 64) = true := by rw [isCont_iff]; omega
        have e4 : (0xF0 + c / 262144 - 0xF0) * 262144 + (0x80 + c / 4096 % 64 - 0x80) * 4096 +
            (0x80 + c / 64 % 64 - 0x80) * 64 + (0x80 + c % 64 - 0x80) = c := by omega
        simp only [step, e1, e2, e2', e2'', e3, e3', e3'', e4, if_false, if_true, List.length, Bool.false_eq_true]


theorem scalar_fffd : isScalar 0xFFFD = true := by decide

theorem lossyAux_scalar (fuel : Nat) (bs : List Nat) : ∀ c ∈ lossyAux fuel bs, isScalar c = true := by
  induction fuel generalizing bs with
  | zero => intro c hc; simp [lossyAux] at hc
  | succ fuel ih =>
    cases bs with
    | nil => intro c hc; simp [lossyAux] at hc
    | cons b rest =>
      intro c hc
      unfold lossyAux at hc
      split at hc
      · rename_i cp n hst
        rcases List.mem_cons.mp hc with h | h
        · subst h; exact (step_ch _ _ _ _ hst).1
        · exact ih _ _ h
      · rcases List.mem_cons.mp hc with h | h
        · subst h; exact scalar_fffd
        · exact ih _ _ h

theorem encodeAll_cons (c : Nat) (cs : List Nat) : encodeAll (c :: cs) = encodeUtf8 c ++ encodeAll cs := by
  simp [encodeAll]

theorem encodeUtf8_length_pos (c : Nat) : 1 ≤ (encodeUtf8 c).length := by
  unfold encodeUtf8; split
  · simp
  · split
    · simp
    · split <;> simp

/-- decoding the encoding of scalar values gives them back (any sufficient fuel) -/
theorem lossyAux_encodeAll (cs : List Nat) (hs : ∀ c ∈ cs, isScalar c = true) :
    ∀ fuel, (encodeAll cs).length ≤ fuel → lossyAux fuel (encodeAll cs) = cs := by
  induction cs with
  | nil => intro fuel _; cases fuel <;> simp [encodeAll, lossyAux]
  | cons c cs ih =>
    intro fuel hf
    rw [encodeAll_cons] at hf ⊢
    obtain ⟨b, rest, hbr, hst⟩ := step_enc c (encodeAll cs) (hs c (List.mem_cons_self ..))
    have hl := encodeUtf8_length_pos c
    rw [hbr] at hf ⊢
    cases fuel with
    | zero => simp at hf
    | succ fuel =>
      unfold lossyAux
      rw [hst]
      simp only
      have hrest : rest.drop ((encodeUtf8 c).length - 1) = encodeAll cs := by
        have : rest = (encodeUtf8 c ++ encodeAll cs).tail := by rw [hbr]; rfl
        rw [this]
        cases henc : encodeUtf8 c with
        | nil => rw [henc] at hl; simp at hl
        | cons x xs => simp
      rw [hrest]
      congr 1
      apply ih (fun c hc => hs c (List.mem_cons_of_mem _ hc))
      have : (b :: rest).length = (encodeUtf8 c ++ encodeAll cs).length := by rw [hbr]
      simp at this hf
      omega

theorem validAux_encodeAll (cs : List Nat) (hs : ∀ c ∈ cs, isScalar c = true) :
    ∀ fuel, (encodeAll cs).length ≤ fuel → validAux fuel (encodeAll cs) = true := by
  induction cs with
  | nil => intro fuel _; cases fuel <;> simp [encodeAll, validAux]
  | cons c cs ih =>
    intro fuel hf
    rw [encodeAll_cons] at hf ⊢
    obtain ⟨b, rest, hbr, hst⟩ := step_enc c (encodeAll cs) (hs c (List.mem_cons_self ..))
    have hl := encodeUtf8_length_pos c
    rw [hbr] at hf ⊢
    cases fuel with
    | zero => simp at hf
    | succ fuel =>
      unfold validAux
      rw [hst]
      simp only
      have hrest : rest.drop ((encodeUtf8 c).length - 1) = encodeAll cs := by
        have : rest = (encodeUtf8 c ++ encodeAll cs).tail := by rw [hbr]; rfl
        rw [this]
        cases henc : encodeUtf8 c with
        | nil => rw [henc] at hl; simp at hl
        | cons x xs => simp
      rw [hrest]
      apply ih (fun c hc => hs c (List.mem_cons_of_mem _ hc))
      have : (b :: rest).length = (encodeUtf8 c ++ encodeAll cs).length := by rw [hbr]
      simp at this hf
      omega

/-- what the validator accepts is the encoding of scalar values -/
theorem validAux_sound (fuel : Nat) (bs : List Nat) (hf : bs.length ≤ fuel) (hv : validAux fuel bs = true) :
    ∃ cs, (∀ c ∈ cs, isScalar c = true) ∧ bs = encodeAll cs := by
  induction fuel generalizing bs with
  | zero =>
    cases bs with
    | nil => exact ⟨[], by simp, rfl⟩
    | cons b r => simp at hf
  | succ fuel ih =>
    cases bs with
    | nil => exact ⟨[], by simp, rfl⟩
    | cons b rest =>
      unfold validAux at hv
      split at hv
      · rename_i cp n hst
        obtain ⟨hsc, henc, hn⟩ := step_ch _ _ _ _ hst
        have hlen : (rest.drop (n - 1)).length ≤ fuel := by simp at hf ⊢; omega
        obtain ⟨cs, hcs, hrest⟩ := ih _ hlen hv
        refine ⟨cp :: cs, ?_, ?_⟩
        · intro c hc
          rcases List.mem_cons.mp hc with h | h
          · subst h; exact hsc
          · exact hcs c h
        · rw [encodeAll_cons, henc, ← hrest]
          have : (b :: rest).drop n = rest.drop (n - 1) := by
            cases n with
            | zero => omega
            | succ m => simp
          rw [← this, List.take_append_drop]
      · cases hv

theorem validUtf8_iff (bs : List Nat) : validUtf8 bs = true ↔ ValidUtf8 bs := by
  constructor
  · intro h; exact validAux_sound _ _ (Nat.le_refl _) h
  · rintro ⟨cs, hcs, rfl⟩; exact validAux_encodeAll cs hcs _ (Nat.le_refl _)

end IcyVerif.Uni
