import IcyVerif.Model.Tdf
import IcyVerif.Lemmas.Unicode
set_option linter.unusedSimpArgs false
/-! round-trip lemmas for `Model/Tdf.lean` (C17) -/
namespace IcyVerif.Tdf
open IcyVerif.Uni IcyVerif.Font

/-! ### glyph data -/
theorem readGlyphData_plain (data rest : List Nat) (h : data.all (· ≠ 0) = true) :
    readGlyphData false (data ++ 0 :: rest) = .ok data := by
  induction data with
  | nil => cases rest <;> simp [readGlyphData]
  | cons c cs ih =>
    simp only [List.all_cons, Bool.and_eq_true, decide_eq_true_eq] at h
    have := ih h.2
    cases hcs : cs ++ 0 :: rest with
    | nil => simp at hcs
    | cons a r =>
      rw [hcs] at this
      simp only [List.cons_append, hcs, readGlyphData, if_neg h.1, Bool.false_and, Bool.false_eq_true, if_false, this, consOk]

theorem readGlyphData_color_aux (rest : List Nat) : ∀ (n : Nat) (data : List Nat), data.length ≤ n →
    colorWfB data = true → readGlyphData true (data ++ 0 :: rest) = .ok data := by
  intro n
  induction n with
  | zero =>
    intro data hl _
    have : data = [] := List.eq_nil_of_length_eq_zero (by omega)
    subst this; cases rest <;> simp [readGlyphData]
  | succ n ih =>
    intro data hl h
    match data, hl, h with
    | [], _, _ => cases rest <;> simp [readGlyphData]
    | c :: tl, hl, h =>
      unfold colorWfB at h
      split at h
      · cases h
      · rename_i hc
        split at h
        · rename_i h13
          have := ih tl (by simp at hl; omega) h
          cases hcs : tl ++ 0 :: rest with
          | nil => simp at hcs
          | cons a r => rw [hcs] at this; simp [readGlyphData, hc, h13, hcs, this, consOk]
        · rename_i h13
          match tl, hl, h with
          | [], _, h => cases h
          | a :: rest', hl, h =>
            have := ih rest' (by simp at hl; omega) h
            simp [readGlyphData, hc, h13, this, consOk]

theorem readGlyphData_color (data rest : List Nat) (h : colorWfB data = true) :
    readGlyphData true (data ++ 0 :: rest) = .ok data :=
  readGlyphData_color_aux rest data.length data (Nat.le_refl _) h

/-! ### the writer loop without accumulators -/
def encData : List (Option TGlyph) → List Nat
  | [] => []
  | some g :: r => glyphBytes g ++ encData r
  | none :: r => encData r

def encOffs (off : Nat) : List (Option TGlyph) → List Nat
  | [] => []
  | some g :: r => (off % 65536) :: encOffs (off + (glyphBytes g).length) r
  | none :: r => 0xFFFF :: encOffs off r

def u16s : List Nat → List Nat
  | [] => []
  | n :: r => u16le n ++ u16s r

theorem u16s_append (a b : List Nat) : u16s (a ++ b) = u16s a ++ u16s b := by
  induction a with
  | nil => rfl
  | cons x xs ih => simp [u16s, ih, List.append_assoc]

theorem encLoop_eq (lk fd : List Nat) (t : List (Option TGlyph)) :
    encLoop lk fd t = (lk ++ u16s (encOffs fd.length t), fd ++ encData t) := by
  induction t generalizing lk fd with
  | nil => simp [encLoop, encOffs, u16s, encData]
  | cons g r ih =>
    cases g with
    | none => simp [encLoop, encOffs, u16s, encData, ih, List.append_assoc]
    | some g => simp [encLoop, encOffs, u16s, encData, ih, List.append_assoc]

theorem encOffs_length (off : Nat) (t : List (Option TGlyph)) : (encOffs off t).length = t.length := by
  induction t generalizing off with
  | nil => rfl
  | cons g r ih => cases g <;> simp [encOffs, ih]

theorem encOffs_lt (off : Nat) (t : List (Option TGlyph)) : ∀ x ∈ encOffs off t, x < 65536 := by
  induction t generalizing off with
  | nil => simp [encOffs]
  | cons g r ih =>
    cases g with
    | none =>
      intro x hx; simp [encOffs] at hx
      rcases hx with h | h
      · omega
      · exact ih _ x h
    | some g =>
      intro x hx; simp only [encOffs, List.mem_cons] at hx
      rcases hx with h | h
      · subst h; exact Nat.mod_lt _ (by omega)
      · exact ih _ x h

theorem readU16s_u16s (offs rest : List Nat) (h : ∀ x ∈ offs, x < 65536) :
    readU16s offs.length (u16s offs ++ rest) = some (offs, rest) := by
  induction offs with
  | nil => simp [readU16s, u16s]
  | cons x xs ih =>
    have hx := h x (List.mem_cons_self ..)
    have := ih (fun y hy => h y (List.mem_cons_of_mem _ hy))
    simp only [u16s, u16le, List.length_cons, List.cons_append, List.nil_append, readU16s, this, Option.map_some]
    have e : x % 256 + 256 * (x / 256 % 256) = x := by omega
    rw [e]

/-! ### the glyph table -/
def GlyphWf (color : Bool) (g : TGlyph) : Prop := glyphWfB color g = true
def TableWf (color : Bool) (t : List (Option TGlyph)) : Prop :=
  ∀ g ∈ t, match g with | some g => GlyphWf color g | none => True

theorem asU8_id (x : Int) (h0 : 0 ≤ x) (h1 : x ≤ 255) : ((asU8 x : Nat) : Int) = x := by
  unfold asU8
  have : x % 256 = x := Int.emod_eq_of_lt h0 (by omega)
  rw [this]; omega

theorem glyphBytes_length (g : TGlyph) : (glyphBytes g).length = g.data.length + 3 := by
  simp [glyphBytes]

theorem readGlyphs_enc (color : Bool) (bs : Nat) (hbs : bs ≤ 65535) (t : List (Option TGlyph)) (hw : TableWf color t) :
    ∀ (pre post : List Nat), pre.length + (encData t).length ≤ bs →
      readGlyphs color bs (pre ++ encData t ++ post) (encOffs pre.length t) = .ok t := by
  induction t with
  | nil => intro pre post _; simp [encOffs, readGlyphs]
  | cons g r ih =>
    intro pre post hlen
    have hr : TableWf color r := fun x hx => hw x (List.mem_cons_of_mem _ hx)
    cases g with
    | none =>
      have := ih hr pre post (by simpa [encData] using hlen)
      simp only [encOffs, encData, readGlyphs, readGlyph, if_true, this]
    | some g =>
      have hg : GlyphWf color g := hw (some g) (List.mem_cons_self ..)
      unfold GlyphWf glyphWfB at hg
      simp only [Bool.and_eq_true, decide_eq_true_eq] at hg
      obtain ⟨⟨⟨⟨hw0, hw1⟩, hh0⟩, hh1⟩, hdata⟩ := hg
      simp only [encData, List.length_append, glyphBytes_length] at hlen
      have hoff : pre.length % 65536 = pre.length := Nat.mod_eq_of_lt (by omega)
      simp only [encOffs, encData, readGlyphs, readGlyph, hoff]
      rw [if_neg (by omega), if_neg (by omega)]
      have hdrop : (pre ++ (glyphBytes g ++ encData r) ++ post).drop pre.length =
          asU8 g.w :: asU8 g.h :: (g.data ++ 0 :: (encData r ++ post)) := by
        rw [List.append_assoc, List.drop_left]
        simp [glyphBytes, List.append_assoc]
      rw [hdrop]
      simp only
      have hread : readGlyphData color (g.data ++ 0 :: (encData r ++ post)) = .ok g.data := by
        cases color with
        | true => exact readGlyphData_color _ _ (by simpa using hdata)
        | false => exact readGlyphData_plain _ _ (by simpa using hdata)
      rw [hread]
      simp only
      have hih := ih hr (pre ++ glyphBytes g) post (by simp [glyphBytes_length]; omega)
      simp only [List.length_append, List.append_assoc] at hih
      simp only [List.append_assoc]
      rw [hih]
      simp only [asU8_id _ hw0 hw1, asU8_id _ hh0 hh1]

/-! ### the name field -/
theorem nameBytes_exact (name tail : List Nat) (h : name.all (· ≠ 0) = true) :
    nameBytes name.length (name ++ tail) = some name := by
  induction name with
  | nil => simp [nameBytes]
  | cons c cs ih =>
    simp only [List.all_cons, Bool.and_eq_true, decide_eq_true_eq] at h
    simp [nameBytes, h.1, ih h.2]

theorem nameBytes_padded (name tail : List Nat) (k : Nat) (h : name.all (· ≠ 0) = true) :
    nameBytes (name.length + (k + 1)) (name ++ 0 :: tail) = some name := by
  induction name with
  | nil => simp [nameBytes]
  | cons c cs ih =>
    simp only [List.all_cons, Bool.and_eq_true, decide_eq_true_eq] at h
    have : (c :: cs).length + (k + 1) = (cs.length + (k + 1)) + 1 := by simp; omega
    rw [this]
    simp [nameBytes, h.1, ih h.2]

theorem nameBytes_field (name tail : List Nat) (hl : name.length ≤ 12) (h : name.all (· ≠ 0) = true) :
    nameBytes 12 (name ++ List.replicate (12 - name.length) 0 ++ tail) = some name := by
  by_cases he : name.length = 12
  · rw [he]; simp only [Nat.sub_self, List.replicate_zero, List.append_nil]
    rw [← he]; exact nameBytes_exact name tail h
  · obtain ⟨k, hk⟩ : ∃ k, 12 - name.length = k + 1 := ⟨12 - name.length - 1, by omega⟩
    rw [hk, List.replicate_succ, List.append_assoc, List.cons_append]
    have : 12 = name.length + (k + 1) := by omega
    rw [this]
    exact nameBytes_padded name _ k h

end IcyVerif.Tdf
