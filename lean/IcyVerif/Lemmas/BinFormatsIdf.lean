import IcyVerif.Lemmas.BinFormatsXbRt
set_option linter.unusedSimpArgs false
set_option linter.unusedVariables false
/-!
# C05, iCE Draw IDF: the run-length coding read back, and the round trip

`idfRow_scan`: for EVERY row of representable cells, raw or compressed, the loader's scan of the bytes the writer emitted
(followed by anything) yields items that expand to the row's `shownCell`s and consumes exactly those bytes — induction
over the row with the writer's three cases: plain pair, `01 00 count` repeat, the "fake repeat" for character 1 on
attribute 0.
-/
namespace IcyVerif.BinFormats
open IcyVerif.XbCompress IcyVerif.Gen

/-- cells an item stands for -/
def idfExpand (items : List (Nat × Nat × Nat)) : List Cell :=
  items.flatMap fun it => List.replicate it.1 (⟨it.2.1, fromU8 true it.2.2⟩ : Cell)

/-- more fuel than bytes: one more unit changes nothing -/
theorem idfScan_fuel : ∀ (F : Nat) (bs : List Nat), bs.length < F → idfScan (F + 1) bs = idfScan F bs := by
  intro F
  induction F with
  | zero => intro bs h; omega
  | succ F ih =>
    intro bs h
    match bs with
    | [] => simp [idfScan]
    | [_] => simp [idfScan]
    | c :: a :: rest =>
      simp only [List.length_cons] at h
      unfold idfScan
      by_cases hesc : (c == BinFmt.idfEscChar && a == BinFmt.idfEscAttr) = true
      · simp only [hesc, if_true]
        match rest with
        | [] => rfl
        | [_] => rfl
        | [_, _] => rfl
        | [_, _, _] => rfl
        | nl :: nh :: c2 :: a2 :: rest2 =>
          simp only [List.length_cons] at h
          simp only [ih rest2 (by omega)]
      · simp only [hesc, Bool.false_eq_true, if_false]
        simp only [ih rest (by omega)]

theorem idfScan_fuel_le (F G : Nat) (bs : List Nat) (h1 : bs.length < F) (h2 : F ≤ G) : idfScan G bs = idfScan F bs := by
  induction G with
  | zero => omega
  | succ G ih =>
    by_cases h : F = G + 1
    · rw [h]
    · rw [idfScan_fuel G bs (by omega)]; exact ih (by omega)

theorem idfScan_esc (F nl nh c2 a2 : Nat) (rest2 : List Nat) :
    idfScan (F + 1) (1 :: 0 :: nl :: nh :: c2 :: a2 :: rest2) =
      ((nl + nh * 256, c2, a2) :: (idfScan F rest2).1, 6 + (idfScan F rest2).2) := by
  have : ((1 : Nat) == BinFmt.idfEscChar && (0 : Nat) == BinFmt.idfEscAttr) = true := by decide
  simp only [idfScan, this, if_true]

theorem idfScan_plain (F c a : Nat) (rest : List Nat) (h : (c == BinFmt.idfEscChar && a == BinFmt.idfEscAttr) = false) :
    idfScan (F + 1) (c :: a :: rest) = ((1, c, a) :: (idfScan F rest).1, 2 + (idfScan F rest).2) := by
  simp only [idfScan, h, Bool.false_eq_true, if_false]

/-- the cells at the head of `rest` that `runLen` counts are equal to `c` (Rust `PartialEq`) -/
theorem runLen_take (c : Cell) : ∀ (rest : List Cell) (n : Nat), n + 1 ≤ runLen c rest → ∀ d ∈ rest.take n, c.eqv d = true := by
  intro rest
  induction rest with
  | nil => intro n _ d hd; simp at hd
  | cons e es ih =>
    intro n hn d hd
    cases n with
    | zero => simp at hd
    | succ n =>
      unfold runLen at hn
      by_cases he : c.eqv e = true
      · simp only [he, if_true] at hn
        simp only [List.take_succ_cons, List.mem_cons] at hd
        rcases hd with hd | hd
        · rw [hd]; exact he
        · exact ih n (by omega) d hd
      · simp only [he, Bool.false_eq_true, if_false] at hn
        omega

theorem runLen_le (c : Cell) : ∀ rest : List Cell, runLen c rest ≤ rest.length + 1 := by
  intro rest
  induction rest with
  | nil => simp [runLen]
  | cons e es ih => unfold runLen; by_cases he : c.eqv e = true <;> simp [he] <;> omega

theorem runLen_pos (c : Cell) (rest : List Cell) : 1 ≤ runLen c rest := by
  cases rest with
  | nil => simp [runLen]
  | cons e es => unfold runLen; by_cases he : c.eqv e = true <;> simp [he]

/-- one row -/
theorem idfRow_scan (compress : Bool) : ∀ (fuel : Nat) (row : List Cell) (out : List Nat),
    idfRow compress fuel row = some out → row.length ≤ fuel →
    (∀ c ∈ row, attrCell true c = true ∧ c.attr.page = 0) →
    ∀ (X : List Nat) (F : Nat), (out ++ X).length < F →
      ∃ items, idfScan F (out ++ X) = (items ++ (idfScan F X).1, out.length + (idfScan F X).2) ∧
        idfExpand items = row.map shownCell := by
  intro fuel
  induction fuel with
  | zero =>
    intro row out h hl _ X F _
    have : row = [] := by cases row with | nil => rfl | cons _ _ => simp at hl
    subst this
    simp only [idfRow, Option.some.injEq] at h
    subst h
    exact ⟨[], by simp, rfl⟩
  | succ fuel ih =>
    intro row out h hl hcells X F hF
    cases row with
    | nil =>
      simp only [idfRow, Option.some.injEq] at h
      subst h
      exact ⟨[], by simp, rfl⟩
    | cons c rest =>
      obtain ⟨hac, hp0⟩ := hcells c (by simp)
      obtain ⟨hch, _, _, _⟩ := attrCell_ice c hac
      unfold idfRow at h
      have hch' : ¬ (c.ch > 255) := by omega
      simp only [hch', if_false] at h
      -- the run and what is done with it
      generalize hrun : min (runLen c rest) 65535 = run at h
      generalize hesc : (compress && (decide (run > BinFmt.idfRleMin) || c.ch == BinFmt.idfEscChar)) = esc at h
      generalize hrle : (if esc = true then run else 1) = rle at h
      have hrle1 : 1 ≤ rle := by
        rw [← hrle]; by_cases he : esc = true <;> simp [he]
        have := runLen_pos c rest; omega
      have hrle2 : rle ≤ 65535 := by
        rw [← hrle]; by_cases he : esc = true <;> simp [he] <;> omega
      have hrle3 : rle ≤ runLen c rest := by
        rw [← hrle]; by_cases he : esc = true <;> simp [he]
        · omega
        · exact runLen_pos c rest
      cases hrec : idfRow compress fuel (rest.drop (rle - 1)) with
      | none => rw [hrec] at h; simp at h
      | some out' =>
        rw [hrec] at h
        simp only [Option.some.injEq] at h
        have hrl := runLen_le c rest
        obtain ⟨items', hscan', hexp'⟩ := ih (rest.drop (rle - 1)) out' hrec
          (by simp only [List.length_drop, List.length_cons] at hl ⊢; omega)
          (fun d hd => hcells d (by simp [List.mem_of_mem_drop hd])) X F
          (by rw [← h] at hF; simp only [List.length_append] at hF ⊢; omega)
        -- the cells of the run all are `c`
        have hsame : ∀ d ∈ rest.take (rle - 1), d = c := by
          intro d hd
          have he := runLen_take c rest (rle - 1) (by omega) d hd
          have hpd := (hcells d (by simp [List.mem_of_mem_take hd])).2
          exact (Cell.eq_of_eqv c d he (by rw [hp0, hpd])).symm
        have hexp : List.replicate rle (⟨c.ch, fromU8 true (asU8 .ice c.attr)⟩ : Cell) ++ (rest.drop (rle - 1)).map shownCell =
            (c :: rest).map shownCell := by
          rw [dec_ice c hac hp0]
          have h1 : (c :: rest) = (c :: rest.take (rle - 1)) ++ rest.drop (rle - 1) := by simp
          rw [h1, List.map_append]
          congr 1
          have h2 : (c :: rest.take (rle - 1)) = List.replicate rle c := by
            have hl2 : (rest.take (rle - 1)).length = rle - 1 := by
              rw [List.length_take]; omega
            have : rest.take (rle - 1) = List.replicate (rle - 1) c := by
              apply List.eq_replicate_iff.mpr
              exact ⟨hl2, hsame⟩
            rw [this]
            have : rle = (rle - 1) + 1 := by omega
            conv => rhs; rw [this, List.replicate_succ]
          rw [h2, List.map_replicate]
        have hesc1 : BinFmt.idfEscChar = 1 := rfl
        have hesc0 : BinFmt.idfEscAttr = 0 := rfl
        have hfake : BinFmt.idfFakeRepeat = [1, 0, 1, 0] := rfl
        -- the next-fuel form of the tail
        have htail : ∀ (G : Nat), (out' ++ X).length < G → idfScan G (out' ++ X) = (items' ++ (idfScan F X).1, out'.length + (idfScan F X).2) := by
          intro G hG
          have hF' : (out' ++ X).length < F := by rw [← h] at hF; simp only [List.length_append] at hF ⊢; omega
          by_cases hle : F ≤ G
          · rw [idfScan_fuel_le F G _ hF' hle]; exact hscan'
          · rw [← idfScan_fuel_le G F _ hG (by omega)]; exact hscan'
        obtain ⟨F', rfl⟩ : ∃ F', F = F' + 1 := ⟨F - 1, by omega⟩
        by_cases he : esc = true
        · -- an explicit repeat `01 00 lo hi ch attr`
          have hrle' : rle = run := by rw [← hrle]; simp [he]
          have hcomp : compress = true := by
            rw [← hesc] at he; simp only [Bool.and_eq_true] at he; exact he.1
          have hnofake : (c.ch == BinFmt.idfEscChar && asU8 .ice c.attr == BinFmt.idfEscAttr && rle == 1 && !compress) = false := by
            rw [hcomp]; simp
          simp only [he, if_true, hnofake, Bool.false_eq_true, if_false, List.append_nil] at h
          refine ⟨(rle, c.ch, asU8 .ice c.attr) :: items', ?_, ?_⟩
          · rw [← h]
            simp only [List.cons_append, List.nil_append, List.append_assoc]
            rw [idfScan_esc]
            have hG : (out' ++ X).length < F' := by
              rw [← h] at hF; simp only [List.length_append, List.length_cons, List.length_nil] at hF ⊢; omega
            rw [htail F' hG]
            have : rle % 256 + rle / 256 % 256 * 256 = rle := by omega
            simp only [this, List.length_append, List.length_cons, List.length_nil, List.cons_append]
            refine Prod.ext rfl ?_
            simp only; omega
          · unfold idfExpand at hexp' ⊢
            rw [List.flatMap_cons, hexp']
            exact hexp
        · have he' : esc = false := by simpa using he
          have hrle' : rle = 1 := by rw [← hrle]; simp [he']
          subst hrle'
          simp only [he', Bool.false_eq_true, if_false, List.nil_append] at h
          by_cases hfk : (c.ch == BinFmt.idfEscChar && asU8 .ice c.attr == BinFmt.idfEscAttr && (1 : Nat) == 1 && !compress) = true
          · -- the fake repeat `01 00 01 00 01 00`
            simp only [hfk, if_true, hfake] at h
            simp only [Bool.and_eq_true, beq_iff_eq, Bool.not_eq_true'] at hfk
            obtain ⟨⟨⟨hc1, ha0⟩, _⟩, _⟩ := hfk
            refine ⟨(1, c.ch, asU8 .ice c.attr) :: items', ?_, ?_⟩
            · rw [← h, hc1, ha0]
              simp only [List.cons_append, List.nil_append, List.append_assoc]
              rw [idfScan_esc]
              have hG : (out' ++ X).length < F' := by
                rw [← h] at hF; simp only [List.length_append, List.length_cons, List.length_nil] at hF ⊢; omega
              rw [htail F' hG]
              simp only [List.length_append, List.length_cons, List.length_nil, List.cons_append]
              refine Prod.ext rfl ?_
              simp only; omega
            · unfold idfExpand at hexp' ⊢
              rw [List.flatMap_cons, hexp']
              exact hexp
          · -- a plain pair that is not the escape pair
            have hfk' : (c.ch == BinFmt.idfEscChar && asU8 .ice c.attr == BinFmt.idfEscAttr && (1 : Nat) == 1 && !compress) = false := by
              simpa using hfk
            simp only [hfk', Bool.false_eq_true, if_false, List.nil_append] at h
            have hnotesc : (c.ch == BinFmt.idfEscChar && asU8 .ice c.attr == BinFmt.idfEscAttr) = false := by
              cases hcomp : compress with
              | true =>
                -- compressed: character 1 is always written as a repeat, so this is not character 1
                rw [← hesc, hcomp] at he'
                simp only [Bool.true_and, Bool.or_eq_false_iff] at he'
                rw [he'.2]; rfl
              | false =>
                rw [hcomp] at hfk'
                simpa using hfk'
            refine ⟨(1, c.ch, asU8 .ice c.attr) :: items', ?_, ?_⟩
            · rw [← h]
              simp only [List.cons_append, List.nil_append, List.append_assoc]
              rw [idfScan_plain _ _ _ _ hnotesc]
              have hG : (out' ++ X).length < F' := by
                rw [← h] at hF; simp only [List.length_append, List.length_cons, List.length_nil] at hF ⊢; omega
              rw [htail F' hG]
              simp only [List.length_append, List.length_cons, List.length_nil, List.cons_append]
              refine Prod.ext rfl ?_
              simp only; omega
            · unfold idfExpand at hexp' ⊢
              rw [List.flatMap_cons, hexp']
              exact hexp


theorem idfScan_nil (F : Nat) : idfScan F [] = ([], 0) := by
  cases F <;> simp [idfScan]

/-- all rows -/
theorem idfRows_scan (compress : Bool) : ∀ (rows : List (List Cell)) (img : List Nat),
    idfRows compress rows = some img → (∀ r ∈ rows, ∀ c ∈ r, attrCell true c = true ∧ c.attr.page = 0) →
    ∀ (X : List Nat) (F : Nat), (img ++ X).length < F →
      ∃ items, idfScan F (img ++ X) = (items ++ (idfScan F X).1, img.length + (idfScan F X).2) ∧
        idfExpand items = rows.flatten.map shownCell := by
  intro rows
  induction rows with
  | nil =>
    intro img h _ X F _
    simp only [idfRows, Option.some.injEq] at h
    subst h
    exact ⟨[], by simp, rfl⟩
  | cons row rows ih =>
    intro img h hcells X F hF
    unfold idfRows at h
    cases ha : idfRow compress row.length row with
    | none => rw [ha] at h; simp at h
    | some a =>
      cases hb : idfRows compress rows with
      | none => rw [ha, hb] at h; simp at h
      | some b =>
        rw [ha, hb] at h
        simp only [Option.some.injEq] at h
        subst h
        obtain ⟨it2, hs2, he2⟩ := ih b hb (fun r hr => hcells r (by simp [hr])) X F (by
          simp only [List.length_append] at hF ⊢; omega)
        obtain ⟨it1, hs1, he1⟩ := idfRow_scan compress row.length row a ha (Nat.le_refl _) (hcells row (by simp)) (b ++ X) F (by
          simp only [List.length_append] at hF ⊢; omega)
        refine ⟨it1 ++ it2, ?_, ?_⟩
        · rw [List.append_assoc, hs1, hs2]
          simp only [List.append_assoc, List.length_append]
          refine Prod.ext rfl ?_
          simp only; omega
        · unfold idfExpand at he1 he2 ⊢
          rw [List.flatMap_append, he1, he2]
          simp

/-- the buffer the IDF loader produces for a representable picture -/
def idfLoaded (p : Pic) (f0 : Font) (m : Option Sauce.Meta) : LBuf :=
  { bw := p.w, bh := (p.h : Int), lw := 80, lh := (p.h : Int),
    lines := (p.rows.map fun r => r.map shownCell).map (partRow 80), ice := .ice, pal := p.pal,
    fonts := [(0, mkFont 16 f0.data)], sauce := m }

theorem setSauce_false (b : LBuf) (s : Option Sauce.Sauce) (hb : b.sauce = none) :
    b.setSauce false s = { b with sauce := s.map metaOf } := by
  cases s with
  | none => cases b; simp only [LBuf.setSauce, Option.map_none]; simp at hb; rw [hb]
  | some s' => rfl

theorem replicate_flat_length {α : Type} (items : List (Nat × Nat × Nat)) (f : Nat × Nat × Nat → α) :
    (items.flatMap fun it => List.replicate it.1 (f it)).length = (items.map fun it => it.1).sum := by
  induction items with
  | nil => rfl
  | cons it rest ih => simp [List.flatMap_cons, ih]

theorem flatten_length_rows (rows : List (List Cell)) (w : Nat) (h : ∀ r ∈ rows, r.length = w) : rows.flatten.length = w * rows.length := by
  induction rows with
  | nil => simp
  | cons r rs ih =>
    simp only [List.flatten_cons, List.length_append, List.length_cons]
    rw [ih (fun r' hr' => h r' (by simp [hr'])), h r (by simp)]
    rw [Nat.mul_succ]; omega

theorem take_mid (A B C : List Nat) (n : Nat) (h : A.length = n) : ((A ++ (B ++ C)).take (n + B.length)).drop n = B := by
  subst h
  rw [← List.append_assoc, List.take_left' (by simp), List.drop_left' rfl]

theorem idf_load (p : Pic) (f0 : Font) (img : List Nat) (compress : Bool)
    (hwf : wellFormed p = true) (hw1 : 1 ≤ p.w) (hw2 : p.w ≤ 80) (hh : p.h ≤ 200) (hcells : allCells p (attrCell true) = true)
    (hpal : pal16 p.pal = true) (hpages : analyzeFontUsage p.rows.flatten = [0]) (hfd : f0.data.length = 4096)
    (himg : idfRows compress p.rows = some img) (s : Option Sauce.Sauce) :
    idfLoad (4 :: 49 :: 46 :: 52 :: 0 :: 0 :: 0 :: 0 :: ((p.w - 1) % 256) :: (((p.w - 1) / 256) % 256) :: ((p.h - 1) % 256) ::
        (((p.h - 1) / 256) % 256) :: (img ++ (f0.data ++ asVec63 p.pal))) s = .ok (idfLoaded p f0 (s.map metaOf)) := by
  obtain ⟨hne, hrows, hwid⟩ := rows_nonempty p hwf
  unfold pal16 at hpal
  simp only [Bool.and_eq_true, beq_iff_eq] at hpal
  obtain ⟨hpl, hp6⟩ := hpal
  have hpb : (asVec63 p.pal).length = 48 := by rw [asVec63_length, hpl]
  let rows' := p.rows.map fun r => r.map shownCell
  have hcond : ∀ r ∈ p.rows, ∀ c ∈ r, attrCell true c = true ∧ c.attr.page = 0 := by
    intro r hr c hc
    unfold allCells at hcells
    exact ⟨List.all_eq_true.mp (List.all_eq_true.mp hcells r hr) c hc, page_zero p.rows hpages r hr c hc⟩
  obtain ⟨items, hscan, hexp⟩ := idfRows_scan compress p.rows img himg hcond [] (img.length + 1) (by simp)
  simp only [List.append_nil, idfScan_nil, Nat.add_zero] at hscan
  have hrl : rows'.length = p.h := by simp [rows', hrows]
  have hrne : rows' ≠ [] := by simp [rows', hne]
  have hrw : ∀ r ∈ rows', r.length = p.w := by
    intro r hr
    obtain ⟨r0, hr0, rfl⟩ := List.mem_map.mp hr
    rw [List.length_map]; exact hwid r0 hr0
  generalize hdata : (4 :: 49 :: 46 :: 52 :: 0 :: 0 :: 0 :: 0 :: ((p.w - 1) % 256) :: (((p.w - 1) / 256) % 256) :: ((p.h - 1) % 256) ::
        (((p.h - 1) / 256) % 256) :: (img ++ (f0.data ++ asVec63 p.pal))) = data
  have hlen : data.length = 12 + img.length + 4096 + 48 := by
    rw [← hdata]; simp [hfd, hpb]; omega
  have hsplit : data = [4, 49, 46, 52, 0, 0, 0, 0, (p.w - 1) % 256, ((p.w - 1) / 256) % 256, (p.h - 1) % 256, ((p.h - 1) / 256) % 256] ++
      (img ++ (f0.data ++ asVec63 p.pal)) := by rw [← hdata]; rfl
  have ht4 : data.take 4 = BinFmt.idfHeader14 := by rw [← hdata]; rfl
  have hg4 : data.getD 4 0 = 0 := by rw [← hdata]; rfl
  have hg5 : data.getD 5 0 = 0 := by rw [← hdata]; rfl
  have hg6 : data.getD 6 0 = 0 := by rw [← hdata]; rfl
  have hg7 : data.getD 7 0 = 0 := by rw [← hdata]; rfl
  have hg8 : data.getD 8 0 = (p.w - 1) % 256 := by rw [← hdata]; rfl
  have hg9 : data.getD 9 0 = ((p.w - 1) / 256) % 256 := by rw [← hdata]; rfl
  have hhs : BinFmt.idfHeaderSize = 12 := rfl
  have hfs : BinFmt.idfFontSize = 4096 := rfl
  have hps : BinFmt.idfPaletteSize = 48 := rfl
  have hscreen : (data.take (data.length - BinFmt.idfFontSize - BinFmt.idfPaletteSize)).drop BinFmt.idfHeaderSize = img := by
    have e : data.length - BinFmt.idfFontSize - BinFmt.idfPaletteSize = 12 + img.length := by rw [hlen, hfs, hps]; omega
    rw [e, hsplit, hhs]
    exact take_mid _ img _ 12 rfl
  have hfont : (data.drop (BinFmt.idfHeaderSize + img.length)).take BinFmt.idfFontSize = f0.data := by
    rw [hsplit, hhs, hfs, ← List.append_assoc, List.drop_left' (by simp only [List.length_append, List.length_cons, List.length_nil])]
    exact List.take_left' hfd
  have hpalb : (data.drop (BinFmt.idfHeaderSize + img.length + BinFmt.idfFontSize)).take BinFmt.idfPaletteSize = asVec63 p.pal := by
    rw [hsplit, hhs, hfs, hps, ← List.append_assoc, ← List.append_assoc,
      List.drop_left' (by simp only [List.length_append, List.length_cons, List.length_nil, hfd])]
    rw [← hpb, List.take_length]
  unfold idfLoad
  have c1 : ¬ (data.length < BinFmt.idfHeaderSize + BinFmt.idfFontSize + BinFmt.idfPaletteSize) := by
    rw [hlen, hhs, hfs, hps]; omega
  have c2 : ¬ ((data.take 4 != BinFmt.idfHeader13) = true ∧ (data.take 4 != BinFmt.idfHeader14) = true) := by
    rw [ht4]; simp
  have ex2 : (p.w - 1) % 256 + ((p.w - 1) / 256) % 256 * 256 = p.w - 1 := by omega
  simp only [c1, c2, if_false, hg4, hg5, hg6, hg7, hg8, hg9, ex2, Nat.zero_mul, Nat.add_zero, Nat.not_lt_zero, Nat.sub_zero]
  rw [hscreen, hscan]
  simp only
  have hw' : p.w - 1 + 1 = p.w := by omega
  have hexp0 : (items.flatMap fun it => List.replicate it.1 (⟨it.2.1, fromU8 true it.2.2⟩ : Cell)) = rows'.flatten := by
    have := hexp
    unfold idfExpand at this
    rw [this, map_flatten_rows]
  have htot : (items.map fun it => it.1).sum = p.w * p.h := by
    rw [← replicate_flat_length items (fun it => (⟨it.2.1, fromU8 true it.2.2⟩ : Cell)), hexp0, flatten_length_rows rows' p.w hrw, hrl]
  have cY : ¬ ((items.map fun it => it.1).sum > 0 ∧ ((items.map fun it => it.1).sum - 1) / (p.w - 1 + 1) > BinFmt.idfMaxY) := by
    rw [htot, hw']
    have hmy : BinFmt.idfMaxY = 65535 := rfl
    rw [hmy]
    intro ⟨h0, h1⟩
    have : (p.w * p.h - 1) / p.w < p.h := by
      apply (Nat.div_lt_iff_lt_mul (by omega)).mpr
      have : p.w * p.h = p.h * p.w := Nat.mul_comm _ _
      omega
    omega
  simp only [Nat.zero_add, cY, if_false]
  have hclear : (BinFmt.idfClearsRows == 1) = true := by decide
  have hexp' : (items.flatMap fun it => List.replicate it.1 (⟨it.2.1, fromU8 true it.2.2⟩ : Cell)) = rows'.flatten := by
    have := hexp
    unfold idfExpand at this
    rw [this, map_flatten_rows]
  rw [hexp', hfont, hpalb, from63_asVec63 p.pal hp6, hw']
  have hplace := placeAll_rows true true p.w (by omega) rows'
    ({ bw := p.w, bh := 25, lw := 80, lh := 25, lines := [], ice := IceMode.ice, pal := dosPalette, fonts := [(0, defaultFont)],
       sauce := s.map metaOf } : LBuf)
    hrw hw2 (Or.inl rfl)
  simp only [List.length_nil, List.nil_append, hrne, ne_eq, not_false_eq_true, and_true, if_true, hrl] at hplace
  rw [setSauce_false _ s (by simp [LBuf.start])]
  unfold LBuf.start
  have hsw : BinFmt.idfStartW = 80 := rfl
  have hsh : BinFmt.idfStartH = 25 := rfl
  simp only [hclear, if_true, hsw, hsh]
  have h25 : ((25 : Nat) : Int) = 25 := rfl
  rw [h25, hplace]
  unfold idfLoaded
  have hfil : ([(0, defaultFont)] : List (Nat × Font)).filter (fun e => e.1 != 0) = [] := by decide
  simp only [hfil, rows', Int.natCast_zero, Int.zero_add]


theorem idfRow_some (compress : Bool) : ∀ (fuel : Nat) (row : List Cell), (∀ c ∈ row, c.ch ≤ 255) →
    ∃ out, idfRow compress fuel row = some out := by
  intro fuel
  induction fuel with
  | zero => intro row _; exact ⟨[], by simp [idfRow]⟩
  | succ fuel ih =>
    intro row h
    cases row with
    | nil => exact ⟨[], by simp [idfRow]⟩
    | cons c rest =>
      have hc : ¬ (c.ch > 255) := by have := h c (by simp); omega
      unfold idfRow
      simp only [hc, if_false]
      obtain ⟨out', ho⟩ := ih (rest.drop ((if (compress && (decide (min (runLen c rest) 65535 > BinFmt.idfRleMin) || c.ch == BinFmt.idfEscChar)) = true
        then min (runLen c rest) 65535 else 1) - 1)) (fun d hd => h d (by simp [List.mem_of_mem_drop hd]))
      rw [ho]
      exact ⟨_, rfl⟩

theorem idfRows_some (compress : Bool) : ∀ (rows : List (List Cell)), (∀ r ∈ rows, ∀ c ∈ r, c.ch ≤ 255) →
    ∃ img, idfRows compress rows = some img := by
  intro rows
  induction rows with
  | nil => intro _; exact ⟨[], rfl⟩
  | cons r rs ih =>
    intro h
    obtain ⟨a, ha⟩ := idfRow_some compress r.length r (h r (by simp))
    obtain ⟨b, hb⟩ := ih (fun r' hr' => h r' (by simp [hr']))
    exact ⟨a ++ b, by unfold idfRows; rw [ha, hb]⟩

theorem samePicture_idf (p : Pic) (f0 : Font) (m : Option Sauce.Meta) (hwf : wellFormed p = true) (hw2 : p.w ≤ 80) (hice : p.ice = .ice)
    (hpages : analyzeFontUsage p.rows.flatten = [0]) (hf : lookupFont p.fonts 0 = some f0) (hf16 : f0.height = 16) :
    SamePicture .idf p (idfLoaded p f0 m) := by
  obtain ⟨hne, hrows, hwid⟩ := rows_nonempty p hwf
  refine ⟨rfl, rfl, ?_, ?_, ?_, ?_, ?_⟩
  · show (((p.rows.map fun r => r.map shownCell).map (partRow 80)).length : Int) ≤ (p.h : Int)
    simp [hrows]
  · show isIce IceMode.ice = isIce p.ice
    rw [hice]
  · exact cells_of_rows p (idfLoaded p f0 m) hwf hw2 rfl rfl rfl
  · intro _
    unfold fontsSame
    rw [hpages]
    simp only [List.all_cons, List.all_nil, Bool.and_true, hf]
    show (match lookupFont [(0, mkFont 16 f0.data)] 0 with
          | some b => f0.height == b.height && f0.data == b.data
          | none => false) = true
    rw [lookupFont_single]
    simp [mkFont, hf16]
  · intro _; exact palSame_of_eq p _ rfl

/-- IDF: every representable picture (raw or run-length coded) is written, and — unless it was saved without a SAUCE record
    and its tail reads as one — loaded back as the same picture -/
theorem idf_roundtrip (o : Opts) (date : List Nat) (p : Pic) (hrep : Representable .idf o p = true) (hdate : dateOk date = true) :
    ∃ bytes, save .idf o date p = .ok bytes ∧
      ((o.sauce = true ∨ tailReadsAsSauce bytes = false) → ∃ g, fromBytes .idf bytes = .ok g ∧ SamePicture .idf p g) := by
  unfold Representable at hrep
  simp only [Bool.and_eq_true, beq_iff_eq, decide_eq_true_eq] at hrep
  obtain ⟨⟨hmeta, hwf⟩, ⟨⟨⟨⟨⟨⟨⟨hw1, hw2⟩, hh⟩, hice⟩, hcells⟩, hpal⟩, hpages⟩, hfont⟩⟩ := hrep
  cases hf : lookupFont p.fonts 0 with
  | none => rw [hf] at hfont; exact absurd hfont (by simp)
  | some f0 =>
    rw [hf] at hfont
    obtain ⟨hf16, hfd⟩ := font16_parts f0 hfont
    have hpl : p.pal.length = 16 := by
      unfold pal16 at hpal; simp only [Bool.and_eq_true, beq_iff_eq] at hpal; exact hpal.1
    have hch : ∀ r ∈ p.rows, ∀ c ∈ r, c.ch ≤ 255 := by
      intro r hr c hc
      unfold allCells at hcells
      exact (attrCell_ice c (List.all_eq_true.mp (List.all_eq_true.mp hcells r hr) c hc)).1
    obtain ⟨img, himg⟩ := idfRows_some o.compress p.rows hch
    let body := 4 :: 49 :: 46 :: 52 :: 0 :: 0 :: 0 :: 0 :: ((p.w - 1) % 256) :: (((p.w - 1) / 256) % 256) :: ((p.h - 1) % 256) ::
        (((p.h - 1) / 256) % 256) :: (img ++ (f0.data ++ asVec63 p.pal))
    have hsave0 : idfSave o.compress o.sauce date p = if o.sauce then writeSauce .bin p date body else .ok body := by
      unfold idfSave
      have h1 : (p.ice != IceMode.ice) = false := by rw [hice]; rfl
      have h2 : ¬ (p.h > BinFmt.idfMaxHeight) := by have : BinFmt.idfMaxHeight = 200 := rfl; omega
      have h3 : ¬ (p.pal.length ≠ 16) := by rw [hpl]; decide
      have h4 : ¬ ((analyzeFontUsage p.rows.flatten).length > 1) := by rw [hpages]; decide
      have h5 : ¬ (f0.height ≠ 16) := by rw [hf16]; decide
      have h6 : (analyzeFontUsage p.rows.flatten).headD 0 = 0 := by rw [hpages]; rfl
      simp only [h1, Bool.false_eq_true, if_false, h2, h3, h4, himg, hf, h5, h6]
      have hb : BinFmt.idfHeader14 ++ [0, 0, 0, 0] ++ u16le (p.w - 1) ++ u16le (p.h - 1) ++ img ++ f0.data ++ asVec63 p.pal = body := by
        simp [body, BinFmt.idfHeader14, u16le, List.append_assoc]
      rw [hb]
    have hload := idf_load p f0 img o.compress hwf hw1 hw2 hh hcells hpal hpages hfd himg
    cases hsa : o.sauce with
    | true =>
      obtain ⟨bytes, hw, _, hfb⟩ := fromBytes_sauced .idf .bin p date body f0 hf hmeta (fun _ => by omega) hdate
      generalize Sauce.carry SauceKind.bin.idx (bufInfo p f0.name) (bytes.length - body.length) = sc at hfb
      refine ⟨bytes, ?_, fun _ => ⟨idfLoaded p f0 (some (metaOf sc)), ?_, samePicture_idf p f0 _ hwf hw2 hice hpages hf hf16⟩⟩
      · show idfSave o.compress o.sauce date p = _
        rw [hsave0, hsa]; exact hw
      · rw [hfb]; exact hload (some sc)
    | false =>
      refine ⟨body, ?_, fun hor => ?_⟩
      · show idfSave o.compress o.sauce date p = _
        rw [hsave0, hsa]; rfl
      · have hl : tailReadsAsSauce body = false := by
          rcases hor with h | h
          · exact absurd h (by simp)
          · exact h
        refine ⟨idfLoaded p f0 none, ?_, samePicture_idf p f0 none hwf hw2 hice hpages hf hf16⟩
        rw [fromBytes_plain' .idf body hl]
        exact hload none

end IcyVerif.BinFormats
