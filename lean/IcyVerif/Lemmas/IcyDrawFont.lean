import IcyVerif.Model.IcyDrawFont
import IcyVerif.Lemmas.Font
import IcyVerif.Lemmas.IcyDrawDoc
set_option linter.unusedSimpArgs false
/-! PSF2 round trip of a font slot for EVERY width a `BitFont` can hold (one byte per glyph row: 1..=8), every height
    1..=255 and every complete glyph table — the generalisation of C17's `psf2_roundtrip` (width 8 only) that C07's
    "every font slot" needs — and the exact outcome outside that range. -/
namespace IcyVerif.IcyDraw
open IcyVerif.Font IcyVerif.Uni

/-- the domain of the font-slot round trip: width 1..=8 (a glyph row is one byte), `h` rows per glyph with 1 ≤ h ≤ 255
    (`create_8` takes `u8`s), a complete table (`length` = number of glyphs, all indices scalar values: 256 and 512 are
    instances), every glyph has `h` rows -/
structure WfFontW (f : BitFont) (h : Nat) : Prop where
  w1 : 1 ≤ f.w
  w8 : f.w ≤ 8
  hh : f.h = h
  h1 : 1 ≤ h
  h255 : h ≤ 255
  n : f.glyphs.length ≤ 55296
  len : f.length = f.glyphs.length
  rows : AllRows h f.glyphs

theorem loop_eq_w (f : BitFont) (h : Nat) (wf : WfFontW f h) : f.loop = f.glyphs := by
  unfold BitFont.loop
  rw [wf.len]; simp [lookups_self]

theorem toPsf2_eq_w (f : BitFont) (h : Nat) (wf : WfFontW f h) : f.toPsf2 = .ok (psf2Header f ++ flat f.glyphs) := by
  unfold BitFont.toPsf2
  rw [loop_eq_w f h wf, allGlyphs_flat h _ wf.rows]

/-- the header the writer emits: magic, version 0, header size 32, flags 0, length, charsize = height, height, width -/
theorem psf2Header_eq_w (f : BitFont) (h : Nat) (wf : WfFontW f h) :
    psf2Header f = [0x72, 0xb5, 0x4a, 0x86, 0, 0, 0, 0, 32, 0, 0, 0, 0, 0, 0, 0] ++
      u32le f.glyphs.length ++ u32le h ++ u32le h ++ u32le f.w.toNat := by
  unfold psf2Header
  rw [wf.len, wf.hh]
  have hw : f.w = (f.w.toNat : Int) := by have := wf.w1; omega
  rw [asU32_nat _ (by have := wf.n; omega), asU32_nat _ (by have := wf.h255; omega)]
  rw [hw, asU32_nat _ (by have := wf.w8; omega)]
  simp only [Int.toNat_natCast]
  rfl

theorem psf2_roundtrip_w (f : BitFont) (h : Nat) (wf : WfFontW f h) :
    fromBytes (psf2Header f ++ flat f.glyphs) = .ok f := by
  rw [psf2Header_eq_w f h wf]
  have hn := wf.n
  have hlen := flat_length h _ wf.rows
  have hw1 := wf.w1
  have hw8 := wf.w8
  generalize hwn : f.w.toNat = w at *
  have hwn1 : 1 ≤ w := by omega
  have hwn8 : w ≤ 8 := by omega
  generalize hd : flat f.glyphs = d at hlen
  simp only [u32le, List.cons_append, List.nil_append]
  unfold fromBytes
  simp only
  rw [if_neg (by decide), if_pos (by decide)]
  unfold loadPsf2
  have hl32 : ¬ ((114 :: 181 :: 74 :: 134 :: 0 :: 0 :: 0 :: 0 :: 32 :: 0 :: 0 :: 0 :: 0 :: 0 :: 0 :: 0 ::
      f.glyphs.length % 256 :: f.glyphs.length / 256 % 256 :: f.glyphs.length / 65536 % 256 :: f.glyphs.length / 16777216 % 256 ::
      h % 256 :: h / 256 % 256 :: h / 65536 % 256 :: h / 16777216 % 256 ::
      h % 256 :: h / 256 % 256 :: h / 65536 % 256 :: h / 16777216 % 256 ::
      w % 256 :: w / 256 % 256 :: w / 65536 % 256 :: w / 16777216 % 256 :: d).length < 32) := by
    simp only [List.length_cons]; omega
  rw [if_neg hl32]
  simp only [rd32, List.drop_succ_cons, List.drop_zero]
  rw [le32_u32le, le32_u32le, le32_u32le]
  have e1 : f.glyphs.length % 4294967296 = f.glyphs.length := Nat.mod_eq_of_lt (by omega)
  have e2 : h % 4294967296 = h := Nat.mod_eq_of_lt (by have := wf.h255; omega)
  have e3 : le32 0 0 0 0 = 0 := rfl
  have e4 : le32 32 0 0 0 = 32 := rfl
  have e5 : w % 4294967296 = w := Nat.mod_eq_of_lt (by omega)
  rw [e1, e2, e3, e4, e5, asI32_small _ (by omega), asI32_small _ (by have := wf.h255; omega), asI32_small w (by omega)]
  rw [if_neg (by omega)]
  have hdiv : (w + 7) / 8 = 1 := by omega
  have hcond : ¬ ((f.glyphs.length : Int) < 0 ∨ (h : Int) ≤ 0 ∨
      (f.glyphs.length : Int) * (h : Int) + ((32 : Nat) : Int) ≠
        ((114 :: 181 :: 74 :: 134 :: 0 :: 0 :: 0 :: 0 :: 32 :: 0 :: 0 :: 0 :: 0 :: 0 :: 0 :: 0 ::
      f.glyphs.length % 256 :: f.glyphs.length / 256 % 256 :: f.glyphs.length / 65536 % 256 :: f.glyphs.length / 16777216 % 256 ::
      h % 256 :: h / 256 % 256 :: h / 65536 % 256 :: h / 16777216 % 256 ::
      h % 256 :: h / 256 % 256 :: h / 65536 % 256 :: h / 16777216 % 256 ::
      w % 256 :: w / 256 % 256 :: w / 65536 % 256 :: w / 16777216 % 256 :: d).length : Int) ∨
      (h : Int) ≠ ((h * ((w + 7) / 8) : Nat) : Int)) := by
    have h1 := wf.h1
    rw [hdiv]
    simp only [List.length_cons, hlen]
    rw [← Int.natCast_mul]
    omega
  rw [if_neg hcond]
  have hdrop : (32 : Nat) = 0 + 1 + 1 + 1 + 1 + 1 + 1 + 1 + 1 + 1 + 1 + 1 + 1 + 1 + 1 + 1 + 1 + 1 + 1 + 1 + 1 + 1 + 1 + 1 + 1 + 1 + 1 + 1 + 1 + 1 + 1 + 1 + 1 := rfl
  rw [hdrop]
  simp only [List.drop_succ_cons, List.drop_zero]
  rw [← hd, glyphsFromU8_flat h wf.h1 _ wf.rows wf.n]
  have := wf.len; have := wf.hh
  have hwi : f.w = (w : Int) := by omega
  cases f
  simp_all

/-- the exact boundary of the domain: a font whose width is NOT in 1..=8 (everything else as in `WfFontW`) is written
    without complaint — `charsize` is always the height — and refused by the reader's consistency check
    `charsize == height * ((width + 7) / 8)` -/
theorem psf2_width_out_of_range (f : BitFont) (h : Nat) (hh : f.h = h) (h1 : 1 ≤ h) (h255 : h ≤ 255)
    (hn : f.glyphs.length ≤ 55296) (hlenf : f.length = f.glyphs.length) (rows : AllRows h f.glyphs)
    (hi : -2147483648 ≤ f.w ∧ f.w < 2147483648) (hw : f.w < 1 ∨ 8 < f.w) :
    f.toPsf2 = .ok (psf2Header f ++ flat f.glyphs) ∧ fromBytes (psf2Header f ++ flat f.glyphs) = .err := by
  constructor
  · unfold BitFont.toPsf2 BitFont.loop
    rw [hlenf]; simp [lookups_self, allGlyphs_flat h _ rows]
  have hlen := flat_length h _ rows
  have hW : asU32 f.w < 4294967296 := by unfold asU32; omega
  have hW' : asU32 f.w = 0 ∨ 9 ≤ asU32 f.w := by unfold asU32; omega
  have hhdr : psf2Header f = [0x72, 0xb5, 0x4a, 0x86, 0, 0, 0, 0, 32, 0, 0, 0, 0, 0, 0, 0] ++
      u32le f.glyphs.length ++ u32le h ++ u32le h ++ u32le (asU32 f.w) := by
    unfold psf2Header
    rw [hlenf, hh, asU32_nat _ (by omega), asU32_nat _ (by omega)]
    rfl
  rw [hhdr]
  generalize asU32 f.w = w at *
  generalize hd : flat f.glyphs = d at hlen
  simp only [u32le, List.cons_append, List.nil_append]
  unfold fromBytes
  simp only
  rw [if_neg (by decide), if_pos (by decide)]
  unfold loadPsf2
  have hl32 : ¬ ((114 :: 181 :: 74 :: 134 :: 0 :: 0 :: 0 :: 0 :: 32 :: 0 :: 0 :: 0 :: 0 :: 0 :: 0 :: 0 ::
      f.glyphs.length % 256 :: f.glyphs.length / 256 % 256 :: f.glyphs.length / 65536 % 256 :: f.glyphs.length / 16777216 % 256 ::
      h % 256 :: h / 256 % 256 :: h / 65536 % 256 :: h / 16777216 % 256 ::
      h % 256 :: h / 256 % 256 :: h / 65536 % 256 :: h / 16777216 % 256 ::
      w % 256 :: w / 256 % 256 :: w / 65536 % 256 :: w / 16777216 % 256 :: d).length < 32) := by
    simp only [List.length_cons]; omega
  rw [if_neg hl32]
  simp only [rd32, List.drop_succ_cons, List.drop_zero]
  rw [le32_u32le, le32_u32le, le32_u32le]
  have e1 : f.glyphs.length % 4294967296 = f.glyphs.length := Nat.mod_eq_of_lt (by omega)
  have e2 : h % 4294967296 = h := Nat.mod_eq_of_lt (by omega)
  have e3 : le32 0 0 0 0 = 0 := rfl
  have e4 : le32 32 0 0 0 = 32 := rfl
  have e5 : w % 4294967296 = w := Nat.mod_eq_of_lt hW
  rw [e1, e2, e3, e4, e5, asI32_small _ (by omega), asI32_small _ (by omega)]
  rw [if_neg (by omega)]
  have hne : (h : Int) ≠ ((h * ((w + 7) / 8) : Nat) : Int) := by
    rcases hW' with h0 | h9
    · subst h0; simp; omega
    · have h2 : 2 ≤ (w + 7) / 8 := by omega
      have : h * 2 ≤ h * ((w + 7) / 8) := Nat.mul_le_mul_left h h2
      omega
  rw [if_pos (Or.inr (Or.inr (Or.inr hne)))]

end IcyVerif.IcyDraw
