import IcyVerif.Lemmas.LoaderCostBase
import IcyVerif.Lemmas.LoadersXb
set_option linter.unusedSimpArgs false
set_option linter.unusedVariables false
/-! XBin loader: the cost-instrumented model forgets to the C02 model (`_res`), and its budgets (C03). -/
namespace IcyVerif.LoaderCost
open IcyVerif.Bytes IcyVerif.Bytes.Res IcyVerif.Loaders IcyVerif.Gen IcyVerif.Gen.Loaders RC

-- ------------------------------------------------------------------------------------------------ forgetting the counters
theorem xbOffRunC_res (d : Bytes) (bw : Int) : ∀ n o p g, (xbOffRunC d bw n o p g).res = xbOffRun d bw n o p g := by
  intro n
  induction n with
  | zero => intro o p g; rfl
  | succ n ih =>
    intro o p g
    simp only [xbOffRunC, xbOffRun, res_bind, res_tick, ok_bind, apply_ite RC.res, res_pure, res_lift, res_setCharC, ih]

theorem xbOneRunC_res (d : Bytes) (bw : Int) : ∀ n o p g, (xbOneRunC d bw n o p g).res = xbOneRun d bw n o p g := by
  intro n
  induction n with
  | zero => intro o p g; rfl
  | succ n ih =>
    intro o p g
    simp only [xbOneRunC, xbOneRun, res_bind, res_tick, ok_bind, apply_ite RC.res, res_pure, res_lift, res_setCharC, ih]

theorem xbFullRunC_res (bw : Int) : ∀ n p g, (xbFullRunC bw n p g).res = xbFullRun bw n p g := by
  intro n
  induction n with
  | zero => intro p g; rfl
  | succ n ih =>
    intro p g
    simp only [xbFullRunC, xbFullRun, res_bind, res_tick, ok_bind, apply_ite RC.res, res_pure, res_lift, res_setCharC, ih]

theorem xbCompressedC_res (d : Bytes) (bw bh : Int) : ∀ fuel o p g, (xbCompressedC d bw bh fuel o p g).res = xbCompressed d bw bh fuel o p g := by
  intro fuel
  induction fuel with
  | zero =>
    intro o p g
    unfold xbCompressedC xbCompressed
    split <;> rfl
  | succ fuel ih =>
    intro o p g
    unfold xbCompressedC xbCompressed
    simp only [res_bind, res_tick, ok_bind, apply_ite RC.res, res_pure, res_lift, xbOffRunC_res, xbOneRunC_res, xbFullRunC_res, ih]

theorem xbUncompressedC_res (d : Bytes) (bw bh : Int) : ∀ fuel o p g, (xbUncompressedC d bw bh fuel o p g).res = xbUncompressed d bw bh fuel o p g := by
  intro fuel
  induction fuel with
  | zero =>
    intro o p g
    unfold xbUncompressedC xbUncompressed
    split
    · rfl
    · split <;> rfl
  | succ fuel ih =>
    intro o p g
    unfold xbUncompressedC xbUncompressed
    simp only [res_bind, res_tick, ok_bind, apply_ite RC.res, res_pure, res_lift, res_setCharC, ih]

theorem loadXbC_res (d : Bytes) (sauce : Option (Nat × Nat)) : (loadXbC d sauce).res = loadXb d sauce := by
  unfold loadXbC loadXb
  simp only [res_bind, res_tick, res_spend, res_fail, ok_bind, apply_ite RC.res, res_pure, res_lift, xbCompressedC_res, xbUncompressedC_res]
  rfl

-- ------------------------------------------------------------------------------------------------ budgets
/-- linear index of a position in a picture `bw` cells wide -/
def idx (p : Pos) (bw : Int) : Int := p.y * bw + p.x

theorem idx_zero (bw : Int) : idx ⟨0, 0⟩ bw = 0 := by simp [idx]

/-- a position whose index is below `B * bw` lies on a row below `B` -/
theorem row_lt_of_idx {p : Pos} {bw : Int} {B : Nat} (hx : 0 ≤ p.x) (hbw : 0 < bw) (h : idx p bw < B * bw) : p.y < B := by
  unfold idx at h
  have h1 : p.y * bw < (B : Int) * bw := by omega
  exact Int.lt_of_mul_lt_mul_right h1 (Int.le_of_lt hbw)

/-- `advance_pos`: the index grows by at most one (it is reset to the start of the next row at the right edge) -/
theorem advance_idx {s : String} {bw : Int} {p : Pos} (hbw : bw ≤ 4096)
    (hx : 0 ≤ p.x ∧ p.x < 4096) (hy : 0 ≤ p.y ∧ p.y < 2147483647) :
    (advance s bw p).Sat (fun q => 0 ≤ q.x ∧ q.x < 4096 ∧ p.y ≤ q.y ∧ q.y ≤ p.y + 1 ∧ idx q bw ≤ idx p bw + 1) := by
  unfold advance
  apply Sat.bind (chk32_sat (by omega)); intro x hx'
  subst hx'
  split
  · rename_i hge
    apply Sat.bind (chk32_sat (by omega)); intro y hy'
    subst hy'
    simp only [sat_pure, idx]
    refine ⟨by omega, by omega, by omega, by omega, ?_⟩
    rw [Int.add_mul, Int.one_mul]
    omega
  · simp only [sat_pure, idx]; omega

/-- what the run loops preserve / establish -/
structure RunPost (bw : Int) (B : Nat) (p : Pos) (g : Geo) (n : Nat) (q : Pos) (g' : Geo) : Prop where
  pos : XbPos q
  y : q.y ≤ p.y + n
  ix : idx q bw ≤ idx p bw + n
  lines : g'.lines ≤ B
  mono : g.lines ≤ g'.lines
  bw : g'.bw = g.bw
  bh : g'.bh = g.bh
  lw : g'.lw = g.lw
  lh : g'.lh = g.lh

theorem xbFullRunC_pot (bw : Int) (hbw1 : 0 < bw) (hbw : bw ≤ 4096) (B : Nat) :
    ∀ (n : Nat) (p : Pos) (g : Geo), XbPos p → p.y + n < 2147483647 → idx p bw + n ≤ B * bw → g.lines ≤ B →
      (xbFullRunC bw n p g).Pot n (B - g.lines) 0 (fun r => RunPost bw B p g n r.1 r.2)
        (fun _ => 0) (fun r => B - r.2.lines) (fun _ => 0) := by
  intro n
  induction n with
  | zero =>
    intro p g hp hy hi hg
    exact Pot.pure ⟨hp, by show p.y ≤ p.y + ((0 : Nat) : Int); omega, by show idx p bw ≤ idx p bw + ((0 : Nat) : Int); omega,
      hg, Nat.le_refl _, rfl, rfl, rfl, rfl⟩ (Nat.le_refl _) (Nat.le_refl _) (Nat.le_refl _)
  | succ n ih =>
    intro p g hp hy hi hg
    obtain ⟨hx0, hx1, hy0⟩ := hp
    unfold xbFullRunC
    have hrow : p.y < B := row_lt_of_idx hx0 hbw1 (by omega)
    apply Pot.bind_le pot_tick (by somega) (by somega) (by somega); intro _ _
    apply Pot.bind_le (pot_setCharC g p.x p.y B hg hrow) (by somega) (by somega) (by somega); intro g' hg'
    have hf := setChar_fields g p.x p.y
    have hl1 := setChar_lines_ge g p.x p.y
    have hl2 := setChar_lines_le g p.x p.y B hg hrow
    subst hg'
    apply Pot.bind_le (pot_lift (advance_idx (s := sXbAdv) hbw ⟨hx0, hx1⟩ ⟨hy0, by omega⟩)) (by somega) (by somega) (by somega); intro q hq
    obtain ⟨q1, q2, q3, q4, q5⟩ := hq
    apply Pot.mono (ih q (g.setChar p.x p.y) ⟨q1, q2, by omega⟩ (by omega) (by omega) hl2) (by somega) (by somega) (by somega)
    intro r hr
    exact ⟨⟨hr.pos, by have := hr.y; omega, by have := hr.ix; omega, hr.lines, Nat.le_trans hl1 hr.mono,
      hr.bw.trans hf.1, hr.bh.trans hf.2.1, hr.lw.trans hf.2.2.1, hr.lh.trans hf.2.2.2⟩, by omega, by omega, by omega⟩

theorem xbOffRunC_pot (d : Bytes) (bw : Int) (hbw1 : 0 < bw) (hbw : bw ≤ 4096) (B : Nat) :
    ∀ (n o : Nat) (p : Pos) (g : Geo), XbPos p → p.y + n < 2147483647 → idx p bw + n ≤ B * bw → g.lines ≤ B →
      (xbOffRunC d bw n o p g).Pot n (B - g.lines) 0 (fun r => o ≤ r.1 ∧ RunPost bw B p g n r.2.1 r.2.2)
        (fun _ => 0) (fun r => B - r.2.2.lines) (fun _ => 0) := by
  intro n
  induction n with
  | zero =>
    intro o p g hp hy hi hg
    exact Pot.pure ⟨Nat.le_refl _, hp, by show p.y ≤ p.y + ((0 : Nat) : Int); omega, by show idx p bw ≤ idx p bw + ((0 : Nat) : Int); omega,
      hg, Nat.le_refl _, rfl, rfl, rfl, rfl⟩ (Nat.le_refl _) (Nat.le_refl _) (Nat.le_refl _)
  | succ n ih =>
    intro o p g hp hy hi hg
    obtain ⟨hx0, hx1, hy0⟩ := hp
    unfold xbOffRunC
    have hrow : p.y < B := row_lt_of_idx hx0 hbw1 (by omega)
    apply Pot.bind_le pot_tick (by somega) (by somega) (by somega); intro _ _
    split
    · exact Pot.pure ⟨Nat.le_refl _, ⟨hx0, hx1, hy0⟩, by show p.y ≤ p.y + ((n + 1 : Nat) : Int); omega,
        by show idx p bw ≤ idx p bw + ((n + 1 : Nat) : Int); omega, hg, Nat.le_refl _, rfl, rfl, rfl, rfl⟩ (by somega) (by somega) (by somega)
    · rename_i hlen
      apply Pot.bind_le (pot_lift (rd_sat (by omega))) (by somega) (by somega) (by somega); intro _ _
      apply Pot.bind_le (pot_lift (rd_sat (by omega))) (by somega) (by somega) (by somega); intro _ _
      apply Pot.bind_le (pot_setCharC g p.x p.y B hg hrow) (by somega) (by somega) (by somega); intro g' hg'
      have hf := setChar_fields g p.x p.y
      have hl1 := setChar_lines_ge g p.x p.y
      have hl2 := setChar_lines_le g p.x p.y B hg hrow
      subst hg'
      apply Pot.bind_le (pot_lift (advance_idx (s := sXbAdv) hbw ⟨hx0, hx1⟩ ⟨hy0, by omega⟩)) (by somega) (by somega) (by somega); intro q hq
      obtain ⟨q1, q2, q3, q4, q5⟩ := hq
      apply Pot.mono (ih (o + 2) q (g.setChar p.x p.y) ⟨q1, q2, by omega⟩ (by omega) (by omega) hl2) (by somega) (by somega) (by somega)
      intro r hr
      obtain ⟨hr0, hr⟩ := hr
      exact ⟨⟨by omega, hr.pos, by have := hr.y; omega, by have := hr.ix; omega, hr.lines, Nat.le_trans hl1 hr.mono,
        hr.bw.trans hf.1, hr.bh.trans hf.2.1, hr.lw.trans hf.2.2.1, hr.lh.trans hf.2.2.2⟩, by omega, by omega, by omega⟩

theorem xbOneRunC_pot (d : Bytes) (bw : Int) (hbw1 : 0 < bw) (hbw : bw ≤ 4096) (B : Nat) :
    ∀ (n o : Nat) (p : Pos) (g : Geo), XbPos p → p.y + n < 2147483647 → idx p bw + n ≤ B * bw → g.lines ≤ B →
      (xbOneRunC d bw n o p g).Pot n (B - g.lines) 0 (fun r => o ≤ r.1 ∧ RunPost bw B p g n r.2.1 r.2.2)
        (fun _ => 0) (fun r => B - r.2.2.lines) (fun _ => 0) := by
  intro n
  induction n with
  | zero =>
    intro o p g hp hy hi hg
    exact Pot.pure ⟨Nat.le_refl _, hp, by show p.y ≤ p.y + ((0 : Nat) : Int); omega, by show idx p bw ≤ idx p bw + ((0 : Nat) : Int); omega,
      hg, Nat.le_refl _, rfl, rfl, rfl, rfl⟩ (Nat.le_refl _) (Nat.le_refl _) (Nat.le_refl _)
  | succ n ih =>
    intro o p g hp hy hi hg
    obtain ⟨hx0, hx1, hy0⟩ := hp
    unfold xbOneRunC
    have hrow : p.y < B := row_lt_of_idx hx0 hbw1 (by omega)
    apply Pot.bind_le pot_tick (by somega) (by somega) (by somega); intro _ _
    split
    · exact Pot.pure ⟨Nat.le_refl _, ⟨hx0, hx1, hy0⟩, by show p.y ≤ p.y + ((n + 1 : Nat) : Int); omega,
        by show idx p bw ≤ idx p bw + ((n + 1 : Nat) : Int); omega, hg, Nat.le_refl _, rfl, rfl, rfl, rfl⟩ (by somega) (by somega) (by somega)
    · rename_i hlen
      apply Pot.bind_le (pot_lift (rd_sat (by omega))) (by somega) (by somega) (by somega); intro _ _
      apply Pot.bind_le (pot_setCharC g p.x p.y B hg hrow) (by somega) (by somega) (by somega); intro g' hg'
      have hf := setChar_fields g p.x p.y
      have hl1 := setChar_lines_ge g p.x p.y
      have hl2 := setChar_lines_le g p.x p.y B hg hrow
      subst hg'
      apply Pot.bind_le (pot_lift (advance_idx (s := sXbAdv) hbw ⟨hx0, hx1⟩ ⟨hy0, by omega⟩)) (by somega) (by somega) (by somega); intro q hq
      obtain ⟨q1, q2, q3, q4, q5⟩ := hq
      apply Pot.mono (ih (o + 1) q (g.setChar p.x p.y) ⟨q1, q2, by omega⟩ (by omega) (by omega) hl2) (by somega) (by somega) (by somega)
      intro r hr
      obtain ⟨hr0, hr⟩ := hr
      exact ⟨⟨by omega, hr.pos, by have := hr.y; omega, by have := hr.ix; omega, hr.lines, Nat.le_trans hl1 hr.mono,
        hr.bw.trans hf.1, hr.bh.trans hf.2.1, hr.lw.trans hf.2.2.1, hr.lh.trans hf.2.2.2⟩, by omega, by omega, by omega⟩

/-- what the data loops return: a geometry with at most `B` rows, not fewer than before, other fields untouched -/
structure GeoPost (B : Nat) (g g' : Geo) : Prop where
  lines : g'.lines ≤ B
  mono : g.lines ≤ g'.lines
  bw : g'.bw = g.bw
  bh : g'.bh = g.bh
  lw : g'.lw = g.lw
  lh : g'.lh = g.lh

theorem GeoPost.refl {B : Nat} {g : Geo} (h : g.lines ≤ B) : GeoPost B g g := ⟨h, Nat.le_refl _, rfl, rfl, rfl, rfl⟩

theorem GeoPost.ofRun {bw : Int} {B : Nat} {p q : Pos} {g g' g'' : Geo} {n : Nat} (h : RunPost bw B p g n q g') (h2 : GeoPost B g' g'') :
    GeoPost B g g'' :=
  ⟨h2.lines, Nat.le_trans h.mono h2.mono, h2.bw.trans h.bw, h2.bh.trans h.bh, h2.lw.trans h.lw, h2.lh.trans h.lh⟩

/-- `read_data_compressed`: at most 65 loop iterations per byte (one control byte starts a run of at most 64 cells);
    rows are allocated only as far as the cells decoded so far reach: with `B * bw > 64 * |data|` at most `B` rows -/
theorem xbCompressedC_pot (d : Bytes) (bw bh : Int) (hbw1 : 0 < bw) (hbw : bw ≤ 4096) (hbh : bh ≤ 65535) (B : Nat) :
    ∀ (fuel o : Nat) (p : Pos) (g : Geo), d.size < fuel + o → XbPos p → idx p bw + 64 * ((d.size - o : Nat) : Int) < B * bw → g.lines ≤ B →
      (xbCompressedC d bw bh fuel o p g).Pot (65 * (d.size - o)) (B - g.lines) 0 (fun g' => GeoPost B g g')
        (fun _ => 0) (fun g' => B - g'.lines) (fun _ => 0) := by
  intro fuel
  induction fuel with
  | zero =>
    intro o p g hf hp hi hg
    unfold xbCompressedC
    split
    · exact Pot.pure (GeoPost.refl hg) (by somega) (by somega) (by somega)
    · rename_i hc
      have hc' : o < d.size ∧ p.y < bh := Decidable.not_not.mp hc
      omega
  | succ fuel ih =>
    intro o p g hf hp hi hg
    unfold xbCompressedC
    split
    · exact Pot.pure (GeoPost.refl hg) (by somega) (by somega) (by somega)
    · rename_i hc
      obtain ⟨ho, hy⟩ : o < d.size ∧ p.y < bh := Decidable.not_not.mp hc
      apply Pot.bind_le pot_tick (by somega) (by somega) (by somega); intro _ _
      apply Pot.bind_le (pot_lift (rd_sat ho)) (by somega) (by somega) (by somega); intro c _
      have hcnt := count_le c
      dsimp only
      split
      · apply Pot.bind_le (xbOffRunC_pot d bw hbw1 hbw B _ (o + 1) p g hp (by omega) (by omega) hg) (by somega) (by somega) (by somega); intro r hr
        obtain ⟨hr0, hr⟩ := hr
        apply Pot.mono (ih r.1 r.2.1 r.2.2 (by omega) hr.pos (by have := hr.ix; omega) hr.lines) (by somega) (by somega) (by somega)
        intro g' hg'
        exact ⟨GeoPost.ofRun hr hg', by omega, by omega, by omega⟩
      · split
        · split
          · exact Pot.pure (GeoPost.refl hg) (by somega) (by somega) (by somega)
          · rename_i ho2
            apply Pot.bind_le (pot_lift (rd_sat (by omega))) (by somega) (by somega) (by somega); intro _ _
            apply Pot.bind_le (xbOneRunC_pot d bw hbw1 hbw B _ (o + 1 + 1) p g hp (by omega) (by omega) hg) (by somega) (by somega) (by somega); intro r hr
            obtain ⟨hr0, hr⟩ := hr
            apply Pot.mono (ih r.1 r.2.1 r.2.2 (by omega) hr.pos (by have := hr.ix; omega) hr.lines) (by somega) (by somega) (by somega)
            intro g' hg'
            exact ⟨GeoPost.ofRun hr hg', by omega, by omega, by omega⟩
        · split
          · exact Pot.pure (GeoPost.refl hg) (by somega) (by somega) (by somega)
          · rename_i ho2
            apply Pot.bind_le (pot_lift (rd_sat (by omega))) (by somega) (by somega) (by somega); intro _ _
            skip
            split
            · exact Pot.pure (GeoPost.refl hg) (by somega) (by somega) (by somega)
            · rename_i ho3
              apply Pot.bind_le (pot_lift (rd_sat (by omega))) (by somega) (by somega) (by somega); intro _ _
              apply Pot.bind_le (xbFullRunC_pot bw hbw1 hbw B _ p g hp (by omega) (by omega) hg) (by somega) (by somega) (by somega); intro r hr
              apply Pot.mono (ih (o + 1 + 1 + 1) r.1 r.2 (by omega) hr.pos (by have := hr.ix; omega) hr.lines) (by somega) (by somega) (by somega)
              intro g' hg'
              exact ⟨GeoPost.ofRun hr hg', by omega, by omega, by omega⟩

/-- `read_data_uncompressed`: one iteration per two bytes -/
theorem xbUncompressedC_pot (d : Bytes) (bw bh : Int) (hbw1 : 0 < bw) (hbw : bw ≤ 4096) (hbh : bh ≤ 65535) (B : Nat) :
    ∀ (fuel o : Nat) (p : Pos) (g : Geo), d.size < fuel + o → XbPos p → idx p bw + ((d.size - o : Nat) : Int) < B * bw → g.lines ≤ B →
      (xbUncompressedC d bw bh fuel o p g).Pot (d.size - o) (B - g.lines) 0 (fun g' => GeoPost B g g')
        (fun _ => 0) (fun g' => B - g'.lines) (fun _ => 0) := by
  intro fuel
  induction fuel with
  | zero =>
    intro o p g hf hp hi hg
    unfold xbUncompressedC
    split
    · exact Pot.pure (GeoPost.refl hg) (by somega) (by somega) (by somega)
    · rename_i hc
      have hc' : o < d.size ∧ p.y < bh := Decidable.not_not.mp hc
      omega
  | succ fuel ih =>
    intro o p g hf hp hi hg
    unfold xbUncompressedC
    split
    · exact Pot.pure (GeoPost.refl hg) (by somega) (by somega) (by somega)
    · rename_i hc
      obtain ⟨ho, hy⟩ : o < d.size ∧ p.y < bh := Decidable.not_not.mp hc
      split
      · exact Pot.pure (GeoPost.refl hg) (by somega) (by somega) (by somega)
      · rename_i h1
        obtain ⟨hx0, hx1, hy0⟩ := hp
        have hrow : p.y < B := row_lt_of_idx hx0 hbw1 (by omega)
        apply Pot.bind_le pot_tick (by somega) (by somega) (by somega); intro _ _
        apply Pot.bind_le (pot_lift (rd_sat (by omega))) (by somega) (by somega) (by somega); intro _ _
        apply Pot.bind_le (pot_lift (rd_sat (by omega))) (by somega) (by somega) (by somega); intro _ _
        apply Pot.bind_le (pot_setCharC g p.x p.y B hg hrow) (by somega) (by somega) (by somega); intro g' hg'
        have hf' := setChar_fields g p.x p.y
        have hl1 := setChar_lines_ge g p.x p.y
        have hl2 := setChar_lines_le g p.x p.y B hg hrow
        subst hg'
        apply Pot.bind_le (pot_lift (advance_idx (s := sXbAdv) hbw ⟨hx0, hx1⟩ ⟨hy0, by omega⟩)) (by somega) (by somega) (by somega); intro q hq
        obtain ⟨q1, q2, q3, q4, q5⟩ := hq
        apply Pot.mono (ih (o + 2) q (g.setChar p.x p.y) (by omega) ⟨q1, q2, by omega⟩ (by omega) hl2) (by somega) (by somega) (by somega)
        intro g' hg'
        exact ⟨⟨hg'.lines, Nat.le_trans hl1 hg'.mono, hg'.bw.trans hf'.1, hg'.bh.trans hf'.2.1, hg'.lw.trans hf'.2.2.1, hg'.lh.trans hf'.2.2.2⟩,
          by omega, by omega, by omega⟩

theorem initGeo_lines (w h : Nat) (c : Bool) (s : Option (Nat × Nat)) : (initGeo w h c s).lines = if c then 0 else h := by
  cases s with
  | none => rfl
  | some p => cases p; rfl

/-- the width an XBin header declares -/
def xbWidth (d : Bytes) : Nat := byteAt d 5 + byteAt d 6 * 256

theorem rdU16_val {s : String} {d : Bytes} {o : Nat} (h : o + 1 < d.size) :
    (rdU16 s d o).Sat (fun v => v = byteAt d o + byteAt d (o + 1) * 256 ∧ v < 65536) := by
  have h0 : o < d.size := by omega
  simp only [rdU16, rd, h0, h, if_true, sat_ok, true_and]
  have := byteAt_lt d o; have := byteAt_lt d (o + 1); omega

theorem nat_lt_div_succ_mul (a w : Nat) (hw : 0 < w) : a < (a / w + 1) * w := by
  have := Nat.lt_mul_div_succ a hw
  rw [Nat.mul_comm] at this
  exact this

/-- XBin: `B = 64 * |d| / width + 1` rows suffice; loop iterations `<= 65 * |d|`; bytes copied into palette and fonts `<= |d|` -/
theorem loadXbC_pot (d : Bytes) (sauce : Option (Nat × Nat)) :
    (loadXbC d sauce).Pot (65 * d.size) (64 * d.size / xbWidth d + 1) d.size (fun _ => True) (fun _ => 0) (fun _ => 0) (fun _ => 0) := by
  unfold loadXbC
  dsimp only
  generalize hR0 : 64 * d.size / xbWidth d + 1 = R0
  have hH : Xb.headerSize = 11 := rfl
  have hMax : xbMaxWidth = 4096 := rfl
  have hMin : xbMinWidth = 1 := rfl
  split
  · exact pot_fail
  · rename_i hlen
    apply Pot.bind_le (pot_lift (slice_sat (by omega))) (by somega) (by somega) (by somega); intro _ _
    split
    · exact pot_fail
    · apply Pot.bind_le (pot_lift (rdU16_val (by omega))) (by somega) (by somega) (by somega); intro w hw
      obtain ⟨hwv, hw⟩ := hw
      have hwd : w = xbWidth d := hwv
      split
      · exact pot_fail
      · rename_i hwr
        apply Pot.bind_le (pot_lift (rdU16_sat (by omega))) (by somega) (by somega) (by somega); intro h hh
        apply Pot.bind_le (pot_lift (rd_sat (by omega))) (by somega) (by somega) (by somega); intro fs _
        try dsimp only
        generalize (if fs = 0 then xbDefaultFontSize else fs) = fs'
        split
        · exact pot_fail
        · apply Pot.bind_le (pot_lift (rd_sat (by omega))) (by somega) (by somega) (by somega); intro flags _
          split
          · exact pot_fail
          apply Pot.bind_le (pot_lift (xbPalette_sat d _ _ (by omega))) (by somega) (by somega) (by somega); intro o1 ho1
          apply Pot.bind_le (pot_lift (xbFonts_sat d o1 _ _ _ ho1)) (by somega) (by somega) (by somega); intro o2 ho2
          apply Pot.bind_le (pot_spend (o2 - Xb.headerSize)) (by somega) (by somega) (by somega); intro _ _
          apply Pot.bind_le (pot_lift (slice_sat (by omega))) (by somega) (by somega) (by somega); intro _ _
          have hw' : (w : Int) ≤ 4096 := by omega
          have hw1 : (0 : Int) < w := by omega
          have hh' : (h : Int) ≤ 65535 := by omega
          have hsz : (d.extract o2 d.size).size ≤ d.size := by simp only [Array.size_extract]; omega
          have hB : 64 * d.size < R0 * w := by
            rw [← hR0, ← hwd]; exact nat_lt_div_succ_mul _ _ (by omega)
          have hBi : ((64 * d.size : Nat) : Int) < (R0 : Int) * (w : Int) := by
            have := Int.ofNat_lt.mpr hB
            simpa [Int.natCast_mul] using this
          split
          · apply Pot.bind_le (xbCompressedC_pot _ _ _ hw1 hw' hh' R0 _ 0 ⟨0, 0⟩ _ (by omega) ⟨by decide, by decide, by decide⟩
              (by rw [idx_zero]; omega) (by show (initGeo xbInitW xbInitH xbLinesCleared sauce).lines ≤ _; rw [initGeo_lines]; simp [xbLinesCleared])) (by somega) (by somega) (by somega)
            intro g hg
            exact Pot.pure trivial (by somega) (by somega) (by somega)
          · apply Pot.bind_le (xbUncompressedC_pot _ _ _ hw1 hw' hh' R0 _ 0 ⟨0, 0⟩ _ (by omega) ⟨by decide, by decide, by decide⟩
              (by rw [idx_zero]; omega) (by show (initGeo xbInitW xbInitH xbLinesCleared sauce).lines ≤ _; rw [initGeo_lines]; simp [xbLinesCleared])) (by somega) (by somega) (by somega)
            intro g hg
            exact Pot.pure trivial (by somega) (by somega) (by somega)
