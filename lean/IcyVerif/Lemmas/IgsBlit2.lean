import IcyVerif.Lemmas.IgsBlit
set_option linter.unusedSimpArgs false
set_option linter.unusedVariables false
/-! Lemmas about the IGS `DrawExecutor` model, part 7: `blit_screen_to_memory` and `blit_memory_to_screen` (GrabScreen
modes 1, 2, 3) are total for corner coordinates within ±2^21: no i32 overflow, no index out of range. -/
namespace IcyVerif.IgsPaint

/-- within ±2^21 (what `to - from` of two values within ±2^20 can be; the saved block's size) -/
def Bd2 (v : Int) : Prop := -2097152 ≤ v ∧ v ≤ 2097152

theorem Bd.bd2 {v : Int} (h : Bd v) : Bd2 v := by unfold Bd at h; unfold Bd2; omega

theorem grabRow_total (y : Int) (hy : -1048576 - 400 ≤ y ∧ y ≤ 1048576 + 400) :
    ∀ (n : Nat) (p : Paint) (x : Int) (m : Array Nat), p.res < 3 → -2097152 ≤ x → x + n ≤ 2097152 → ∃ m', grabRow y n p x m = .ok m' := by
  intro n
  induction n with
  | zero => intro p x m _ _ _; exact ⟨m, rfl⟩
  | succ k ih =>
    intro p x m hr h0 h1
    unfold grabRow
    obtain ⟨c, hc⟩ := getPixel_total p hr x y (by omega) hy
    rw [hc, ok_bind]
    exact ih p (x + 1) _ hr (by omega) (by omega)

theorem grabRows_total (fx : Int) (cols : Nat) (hfx : -2097152 ≤ fx ∧ fx + cols ≤ 2097152) :
    ∀ (n : Nat) (p : Paint) (y : Int) (m : Array Nat), p.res < 3 → -1048576 - 400 ≤ y → y + n ≤ 1048576 + 400 → ∃ m', grabRows fx cols n p y m = .ok m' := by
  intro n
  induction n with
  | zero => intro p y m _ _ _; exact ⟨m, rfl⟩
  | succ k ih =>
    intro p y m hr h0 h1
    unfold grabRows
    obtain ⟨m1, h⟩ := grabRow_total y (by omega) cols p fx m hr hfx.1 hfx.2
    rw [h, ok_bind]
    exact ih p (y + 1) m1 hr (by omega) (by omega)

/-- `blit_screen_to_memory` for corners within ±2^20: returns; the saved block is at most width x height and its
recorded size is within [-2^21, 640] x [-2^21, 400] -/
theorem blitScreenToMemory_total (p : Paint) (hr : p.res < 3) (fx fy tx ty : Int) (hfx : Bd fx) (hfy : Bd fy) (htx : Bd tx) (hty : Bd ty) :
    ∃ p', blitScreenToMemory p fx fy tx ty = .ok p' ∧ p'.cur = p.cur ∧ p'.fillPattern = p.fillPattern ∧
      (Bd2 p'.memSize.1 ∧ p'.memSize.1 ≤ 640) ∧ (Bd2 p'.memSize.2 ∧ p'.memSize.2 ≤ 400) ∧ p'.polymarkerType = p.polymarkerType := by
  obtain ⟨hw, hh⟩ := resWH p hr
  unfold Bd at hfx hfy htx hty
  unfold blitScreenToMemory
  rw [chk_of_range (v := tx - fx) (by simp only [i32Min]; omega) (by simp only [i32Max]; omega), ok_bind]
  rw [chk_of_range (v := ty - fy) (by simp only [i32Min]; omega) (by simp only [i32Max]; omega), ok_bind]
  simp only []
  have hW : min (tx - fx) (resW p) ≤ 640 ∧ -2097152 ≤ min (tx - fx) (resW p) := by rcases hw with h | h <;> rw [h] <;> omega
  have hH : min (ty - fy) (resH p) ≤ 400 ∧ -2097152 ≤ min (ty - fy) (resH p) := by rcases hh with h | h <;> rw [h] <;> omega
  generalize min (tx - fx) (resW p) = W at hW
  generalize min (ty - fy) (resH p) = H at hH
  rw [chk_of_range (v := fy + H) (by simp only [i32Min]; omega) (by simp only [i32Max]; omega), ok_bind]
  have h3 : ∃ v, (if H > 0 then chk (fx + W) else pure 0 : Res Int) = .ok v := by
    split
    · exact ⟨_, chk_of_range (by simp only [i32Min]; omega) (by simp only [i32Max]; omega)⟩
    · exact ⟨_, rfl⟩
  obtain ⟨v, hv⟩ := h3
  rw [hv, ok_bind]
  obtain ⟨m, hm⟩ := grabRows_total fx W.toNat (by omega) H.toNat p fy #[] hr (by omega) (by omega)
  rw [hm, ok_bind]
  refine ⟨_, rfl, rfl, rfl, ⟨?_, hW.1⟩, ⟨?_, hH.1⟩, rfl⟩ <;> (unfold Bd2; simp only []; omega)

theorem blitMSRow_total (fx dx dy yp width y : Int) (hfx : Bd2 fx) (hdx : Bd dx) (hdy : Bd dy) (hy : 0 ≤ y ∧ dy + y ≤ 400) :
    ∀ (n : Nat) (p : Paint) (x : Int), p.res < 3 → 0 ≤ x → x + n ≤ 4194304 →
      ∃ p', blitMSRow fx dx dy yp width y n p x = .ok p' ∧ p'.res = p.res := by
  unfold Bd at hdx hdy
  unfold Bd2 at hfx
  intro n
  induction n with
  | zero => intro p x _ _ _; exact ⟨p, rfl, rfl⟩
  | succ k ih =>
    intro p x hr h0 h1
    obtain ⟨hw, hh⟩ := resWH p hr
    unfold blitMSRow
    rw [chk_of_range (v := x + fx) (by simp only [i32Min]; omega) (by simp only [i32Max]; omega), ok_bind]
    rw [chk_of_range (v := dx + x) (by simp only [i32Min]; omega) (by simp only [i32Max]; omega), ok_bind]
    by_cases hout : dx + x ≥ resW p
    · simp only [hout, if_true]; exact ⟨p, rfl, rfl⟩
    · simp only [hout, if_false]
      by_cases hoff : 0 ≤ yp * width + (x + fx) ∧ yp * width + (x + fx) < (p.mem.size : Int)
      · simp only [hoff, and_self, if_true]
        rw [chk_of_range (v := dy + y) (by simp only [i32Min]; omega) (by simp only [i32Max]; omega), ok_bind]
        obtain ⟨p1, h1'⟩ := setPixel_total' p hr (dx + x) (dy + y) (p.mem.getD (yp * width + (x + fx)).toNat 0)
          (by rcases hw with h | h <;> rw [h] at hout <;> omega) (by omega)
        rw [h1', ok_bind]
        obtain ⟨p2, e, r⟩ := ih p1 (x + 1) (by rw [setPixel_res h1']; exact hr) (by omega) (by omega)
        exact ⟨p2, e, by rw [r, setPixel_res h1']⟩
      · simp only [hoff, if_false]
        show ∃ p', blitMSRow fx dx dy yp width y k p (x + 1) = Res.ok p' ∧ p'.res = p.res
        exact ih p (x + 1) hr (by omega) (by omega)

theorem blitMSRows_total (fx fy dx dy width : Int) (cols : Nat) (hfx : Bd2 fx) (hfy : Bd2 fy) (hdx : Bd dx) (hdy : Bd dy) (hc : cols ≤ 4194304) :
    ∀ (n : Nat) (p : Paint) (y : Int), p.res < 3 → 0 ≤ y → y + n ≤ 4194304 → ∃ p', blitMSRows fx fy dx dy width cols n p y = .ok p' := by
  unfold Bd2 at hfy
  have hdy' := hdy
  unfold Bd at hdy'
  intro n
  induction n with
  | zero => intro p y _ _ _; exact ⟨p, rfl⟩
  | succ k ih =>
    intro p y hr h0 h1
    obtain ⟨hw, hh⟩ := resWH p hr
    unfold blitMSRows
    rw [chk_of_range (v := y + fy) (by simp only [i32Min]; omega) (by simp only [i32Max]; omega), ok_bind]
    rw [chk_of_range (v := dy + y) (by simp only [i32Min]; omega) (by simp only [i32Max]; omega), ok_bind]
    by_cases hout : dy + y ≥ resH p
    · simp only [hout, if_true]; exact ⟨p, rfl⟩
    · simp only [hout, if_false]
      obtain ⟨p1, h, r⟩ := blitMSRow_total fx dx dy (y + fy) width y hfx hdx hdy
        ⟨h0, by rcases hh with h | h <;> rw [h] at hout <;> omega⟩ cols p 0 hr (by omega) (by omega)
      rw [h, ok_bind]
      exact ih p1 (y + 1) (by rw [r]; exact hr) (by omega) (by omega)

/-- `blit_memory_to_screen` for source corners within ±2^21 and a destination within ±2^20: returns -/
theorem blitMemoryToScreen_total (p : Paint) (hr : p.res < 3) (fx fy tx ty dx dy : Int)
    (hfx : Bd2 fx) (hfy : Bd2 fy) (htx : Bd2 tx) (hty : Bd2 ty) (hdx : Bd dx) (hdy : Bd dy) :
    ∃ p', blitMemoryToScreen p fx fy tx ty dx dy = .ok p' := by
  have a := hfx; have b := hfy; have c := htx; have d := hty
  unfold Bd2 at a b c d
  unfold blitMemoryToScreen
  rw [chk_of_range (v := tx - fx) (by simp only [i32Min]; omega) (by simp only [i32Max]; omega), ok_bind]
  rw [chk_of_range (v := ty - fy) (by simp only [i32Min]; omega) (by simp only [i32Max]; omega), ok_bind]
  exact blitMSRows_total fx fy dx dy _ _ hfx hfy hdx hdy (by omega) _ p 0 hr (by omega) (by omega)

end IcyVerif.IgsPaint
