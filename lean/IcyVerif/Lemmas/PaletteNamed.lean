import IcyVerif.Model.PaletteNamed
import IcyVerif.Model.PalStream
import IcyVerif.Lemmas.PaletteIdx
set_option linter.unusedSimpArgs false
/-! The named-colour model (`Model/PaletteNamed.lean`) IS the RGB model once names are erased. -/
namespace IcyVerif.Palette
open IcyVerif.Gen.PalColor

theorem rgb_eq_iff (a b : Rgb) : a = b ↔ a.r = b.r ∧ a.g = b.g ∧ a.b = b.b := by
  cases a; cases b; simp

/-- the search of `insert_color` compares the three channels and nothing else -/
theorem eqOn_insert (a b : Color) : eqOn insertEqFields a b = decide (a.rgb = b.rgb) := by
  simp only [eqOn, insertEqFields, List.all_cons, List.all_nil, fieldEq, Bool.and_true]
  rw [Bool.eq_iff_iff]
  simp only [Bool.and_eq_true, beq_iff_eq, decide_eq_true_eq, rgb_eq_iff]

/-- `PartialEq for Color` compares the three channels and nothing else -/
theorem colorEq_rgb (a b : Color) : colorEq a b = decide (a.rgb = b.rgb) := by
  simp only [colorEq, eqOn, colorEqFields, List.all_cons, List.all_nil, fieldEq, Bool.and_true]
  rw [Bool.eq_iff_iff]
  simp only [Bool.and_eq_true, beq_iff_eq, decide_eq_true_eq, rgb_eq_iff]

theorem firstIdxN_eq (c : Color) (p : List Color) : firstIdxN c p = firstIdx c.rgb (rgbsOf p) := by
  induction p with
  | nil => rfl
  | cons x xs ih =>
    simp only [firstIdxN, rgbsOf, List.map_cons, firstIdx, eqOn_insert]
    by_cases h : x.rgb = c.rgb
    · simp [h]
    · simp only [h, decide_false, Bool.false_eq_true, if_false]
      rw [ih]; rfl

theorem rgbsOf_length (p : List Color) : (rgbsOf p).length = p.length := by simp [rgbsOf]

theorem rgbsOf_append (p q : List Color) : rgbsOf (p ++ q) = rgbsOf p ++ rgbsOf q := by simp [rgbsOf]

/-- `insert_color` on stored colours = `insert_color` on their RGB values: same index, same RGB sequence -/
theorem insertColorN_erase (p : List Color) (c : Color) :
    (rgbsOf (insertColorN p c).1, (insertColorN p c).2) = insertColor (rgbsOf p) c.rgb := by
  unfold insertColorN insertColor
  rw [firstIdxN_eq, rgbsOf_length]
  split
  · rfl
  · simp [rgbsOf]

theorem rgbsOf_replicate (n : Nat) : rgbsOf (List.replicate n blackC) = List.replicate n black := by
  simp [rgbsOf, blackC]

theorem rgbsOf_set (p : List Color) (i : Nat) (c : Color) : rgbsOf (p.set i c) = (rgbsOf p).set i c.rgb := by
  simp [rgbsOf, List.map_set]

theorem setColorN_erase (p : List Color) (i : Nat) (c : Color) : rgbsOf (setColorN p i c) = setColor (rgbsOf p) i c.rgb := by
  unfold setColorN setColor
  rw [rgbsOf_set, rgbsOf_length]
  split
  · rw [rgbsOf_append, rgbsOf_replicate]
  · rfl

/-- one step: the answers (without the `is_default` flag) and the RGB sequence are those of the RGB model -/
theorem stepN_erase (dos : List Rgb) (p : List Color) (op : NOp) :
    rgbsOf (stepN dos p op).1 = (op.erase.foldl (fun q o => (step q o).1) (rgbsOf p)) ∧
    ((stepN dos p op).2.toList.flatMap NOut.erase) = op.erase.flatMap fun o => (step (rgbsOf p) o).2.toList := by
  cases op with
  | insert c =>
    have h := insertColorN_erase p c
    have h1 : rgbsOf (insertColorN p c).1 = (insertColor (rgbsOf p) c.rgb).1 := by rw [← h]
    have h2 : (insertColorN p c).2 = (insertColor (rgbsOf p) c.rgb).2 := by rw [← h]
    simp [stepN, NOp.erase, step, NOut.erase, h1, h2]
  | set i c => simp [stepN, NOp.erase, step, setColorN_erase]
  | lookup i => simp [stepN, NOp.erase, step, NOut.erase, getRgbN]
  | push c => simp [stepN, NOp.erase, step, rgbsOf]
  | isDefault => simp [stepN, NOp.erase, NOut.erase]

theorem trace_append (ops1 ops2 : List Op) : ∀ p : List Rgb,
    trace p (ops1 ++ ops2) = ((trace p ops1).1 ++ (trace (trace p ops1).2 ops2).1, (trace (trace p ops1).2 ops2).2) := by
  induction ops1 with
  | nil => intro p; simp [trace]
  | cons o os ih =>
    intro p
    simp only [List.cons_append, trace]
    rw [ih]
    cases (step p o).2 <;> simp

/-- the trace of the (at most one) erased operation of a named operation -/
theorem trace_erase_one (q : List Rgb) (e : List Op) (he : e.length ≤ 1) :
    trace q e = (e.flatMap (fun o => (step q o).2.toList), e.foldl (fun q o => (step q o).1) q) := by
  match e, he with
  | [], _ => simp [trace]
  | [o], _ =>
    simp only [trace, List.flatMap_cons, List.flatMap_nil, List.append_nil, List.foldl_cons, List.foldl_nil]
    cases (step q o).2 <;> simp

theorem erase_length (op : NOp) : op.erase.length ≤ 1 := by cases op <;> simp [NOp.erase]

/-- EVERY HISTORY on a palette whose entries carry names answers like the same history on the bare RGB values -/
theorem traceN_erase (dos : List Rgb) (ops : List NOp) : ∀ p : List Color,
    ((traceN dos p ops).1.flatMap NOut.erase, rgbsOf (traceN dos p ops).2) = trace (rgbsOf p) (ops.flatMap NOp.erase) := by
  induction ops with
  | nil => intro p; simp [traceN, trace]
  | cons op ops ih =>
    intro p
    simp only [traceN, List.flatMap_cons]
    rw [trace_append, trace_erase_one _ _ (erase_length op)]
    obtain ⟨h1, h2⟩ := stepN_erase dos p op
    simp only []
    rw [← h1, ← ih, ← h2]
    cases (stepN dos p op).2 <;> simp

theorem all_zip_rgb (p q : List Color) (hl : p.length = q.length) :
    ((p.zip q).all fun e => colorEq e.1 e.2) = true ↔ rgbsOf p = rgbsOf q := by
  induction p generalizing q with
  | nil => cases q with
    | nil => simp [rgbsOf]
    | cons _ _ => simp at hl
  | cons x xs ih =>
    cases q with
    | nil => simp at hl
    | cons y ys =>
      simp only [List.length_cons, Nat.add_right_cancel_iff] at hl
      rw [List.zip_cons_cons, List.all_cons, Bool.and_eq_true, ih ys hl, colorEq_rgb, decide_eq_true_eq]
      show x.rgb = y.rgb ∧ rgbsOf xs = rgbsOf ys ↔ x.rgb :: rgbsOf xs = y.rgb :: rgbsOf ys
      rw [List.cons.injEq]

/-- `are_colors_equal` / `Vec<Color> ==` sees RGB values only -/
theorem colorsEqual_rgb (p q : List Color) : colorsEqual p q = true ↔ rgbsOf p = rgbsOf q := by
  unfold colorsEqual
  by_cases hl : p.length = q.length
  · simp only [hl, beq_self_eq_true, Bool.true_and]
    exact all_zip_rgb p q hl
  · have : rgbsOf p ≠ rgbsOf q := fun h => hl (by rw [← rgbsOf_length p, ← rgbsOf_length q, h])
    simp [hl, this]

theorem rgbsOf_unnamed (d : List Rgb) : rgbsOf (unnamed d) = d := by
  simp [rgbsOf, unnamed, Function.comp_def]

theorem isDefaultN_eq_colorsEqual (dos : List Rgb) (p : List Color) : isDefaultN dos p = colorsEqual p (unnamed dos) := by
  simp [isDefaultN, colorsEqual, unnamed]

/-- `is_default` of a palette with names = `is_default` of its RGB values -/
theorem isDefaultN_rgb (p : List Color) : isDefaultN PalStream.dosDefault p = PalStream.isDefault (rgbsOf p) := by
  rw [isDefaultN_eq_colorsEqual, Bool.eq_iff_iff, colorsEqual_rgb, rgbsOf_unnamed]
  simp [PalStream.isDefault]

end IcyVerif.Palette
