import IcyVerif.Model.BinFormats
/-!
# C05: facts about the regenerated table of SAUCE fonts (`Gen/BinFonts.lean`), checked by evaluation — the quantifier IS the
16-entry table.  Kept in a file of its own: the check walks 57 600 glyph bytes.
-/
namespace IcyVerif.BinFormats
open IcyVerif.Gen

/-- every font `BitFont::from_sauce_name` can return has 256 glyphs of 1..=32 rows and is not called like the default font -/
theorem sauceFonts_shape : BinFonts.sauceFonts.all (fun e => decide (1 ≤ e.2.1) && decide (e.2.1 ≤ 32) && e.2.2.length == 256 * e.2.1 &&
    e.1 != BinFmt.defaultFontName) = true := by decide +kernel

/-- the names are pairwise different, at most 22 bytes long, free of NULs and trailing blanks: a name written into TInfoS
    reads back as itself -/
theorem sauceFonts_names : BinFonts.sauceFonts.all (fun e => decide (e.1.length ≤ 22) && !e.1.contains 0 && e.1.getLast? != some 32 && e.1 != [] &&
    (BinFonts.sauceFonts.find? (fun e' => e'.1 == e.1)).map (·.1) == some e.1) = true := by decide +kernel

theorem defaultFont_length : BinFmt.defaultFontData.length = 256 * BinFmt.defaultFontHeight := by decide +kernel

end IcyVerif.BinFormats
