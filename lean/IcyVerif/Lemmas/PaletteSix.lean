import IcyVerif.Model.Palette
set_option linter.unusedSimpArgs false
/-! 6-bit VGA codec (C16): `from_63` / `as_vec_63` and the EGA slot variant of ADF files. -/
namespace IcyVerif.Palette
open IcyVerif.Gen.Palette

def chanUp (k v : Nat) : Nat := upWith (sixUp.getD k (0, 0)) v
def chanDown (k v : Nat) : Nat := v >>> sixDown.getD k 0
def chanUpE (k v : Nat) : Nat := upWith (egaUp.getD k (0, 0)) v
def chanDownE (k v : Nat) : Nat := v >>> egaDown.getD k 0

/-- the complete 6-bit domain, each of the three channels: expand then reduce is the identity -/
theorem six_chan : ∀ k, k < 3 → ∀ v, v < 64 → chanDown k (chanUp k v) = v := by decide
theorem six_chanE : ∀ k, k < 3 → ∀ v, v < 64 → chanDownE k (chanUpE k v) = v := by decide
/-- reducing any byte gives a 6-bit value -/
theorem chanDown_lt : ∀ k, k < 3 → ∀ v, v < 256 → chanDown k v < 64 := by decide +kernel
theorem chanDownE_lt : ∀ k, k < 3 → ∀ v, v < 256 → chanDownE k v < 64 := by decide +kernel
theorem chanUpE_lt : ∀ k, k < 3 → ∀ v, v < 64 → chanUpE k v < 256 := by decide
theorem chanUp_lt : ∀ k, k < 3 → ∀ v, v < 64 → chanUp k v < 256 := by decide

theorem down6_up6 (c : Rgb) (h : c.r < 64 ∧ c.g < 64 ∧ c.b < 64) : down6 (up6 c) = c := by
  have hr := six_chan 0 (by decide) c.r h.1
  have hg := six_chan 1 (by decide) c.g h.2.1
  have hb := six_chan 2 (by decide) c.b h.2.2
  cases c
  simp only [chanUp, chanDown] at hr hg hb
  simp only [down6, up6, Rgb.mk.injEq]
  exact ⟨hr, hg, hb⟩

theorem downEga_upEga (c : Rgb) (h : c.r < 64 ∧ c.g < 64 ∧ c.b < 64) : downEga (upEga c) = c := by
  have hr := six_chanE 0 (by decide) c.r h.1
  have hg := six_chanE 1 (by decide) c.g h.2.1
  have hb := six_chanE 2 (by decide) c.b h.2.2
  cases c
  simp only [chanUpE, chanDownE] at hr hg hb
  simp only [downEga, upEga, Rgb.mk.injEq]
  exact ⟨hr, hg, hb⟩

theorem down6_lt (c : Rgb) (h : c.Valid) : (down6 c).r < 64 ∧ (down6 c).g < 64 ∧ (down6 c).b < 64 :=
  ⟨chanDown_lt 0 (by decide) c.r h.1, chanDown_lt 1 (by decide) c.g h.2.1, chanDown_lt 2 (by decide) c.b h.2.2⟩

theorem downEga_lt (c : Rgb) (h : c.Valid) : (downEga c).r < 64 ∧ (downEga c).g < 64 ∧ (downEga c).b < 64 :=
  ⟨chanDownE_lt 0 (by decide) c.r h.1, chanDownE_lt 1 (by decide) c.g h.2.1, chanDownE_lt 2 (by decide) c.b h.2.2⟩

theorem upEga_valid (c : Rgb) (h : c.r < 64 ∧ c.g < 64 ∧ c.b < 64) : (upEga c).Valid :=
  ⟨chanUpE_lt 0 (by decide) c.r h.1, chanUpE_lt 1 (by decide) c.g h.2.1, chanUpE_lt 2 (by decide) c.b h.2.2⟩

theorem up6_valid (c : Rgb) (h : c.r < 64 ∧ c.g < 64 ∧ c.b < 64) : (up6 c).Valid :=
  ⟨chanUp_lt 0 (by decide) c.r h.1, chanUp_lt 1 (by decide) c.g h.2.1, chanUp_lt 2 (by decide) c.b h.2.2⟩

/-! ### `from_63` -/

theorem from63_ok_cons (r g b : Nat) (rest : List Nat) (cs : List Rgb) (h : from63 rest = .ok cs) :
    from63 (r :: g :: b :: rest) = .ok (up6 ⟨r, g, b⟩ :: cs) := by
  simp only [from63, h]

theorem asVec63_from63 (bs : List Nat) : ∀ (p : List Rgb), from63 bs = .ok p → (∀ b ∈ bs, b < 64) → asVec63 p = bs := by
  fun_induction from63 bs with
  | case1 => intro p h _; cases h; rfl
  | case2 r g b rest cs hrest ih =>
    intro p h hb
    cases h
    have h3 : down6 (up6 ⟨r, g, b⟩) = ⟨r, g, b⟩ :=
      down6_up6 _ ⟨hb r (by simp), hb g (by simp), hb b (by simp)⟩
    have := ih cs hrest (fun x hx => hb x (by simp [hx]))
    simp only [asVec63, List.flatMap_cons] at this ⊢
    rw [this, h3]; rfl
  | case3 r g b rest e hrest ih => intro p h; cases h
  | case4 t h1 h2 => intro p h; cases h

theorem from63_asVec63 (p : List Rgb) : from63 (asVec63 p) = .ok (p.map fun c => up6 (down6 c)) := by
  induction p with
  | nil => rfl
  | cons c cs ih =>
    simp only [asVec63, List.flatMap_cons, flat, List.cons_append, List.nil_append, List.map_cons] at ih ⊢
    exact from63_ok_cons _ _ _ _ _ ih

/-- whole triples never panic, a ragged tail always does -/
theorem from63_total (n : Nat) : ∀ bs : List Nat, bs.length = n →
    (bs.length % 3 = 0 → ∃ p, from63 bs = .ok p ∧ 3 * p.length = bs.length) ∧
    (bs.length % 3 ≠ 0 → from63 bs = .error "palette_handling.rs::from_63") := by
  induction n using Nat.strongRecOn with
  | ind n ih =>
    intro bs hn
    match bs, hn with
    | [], _ => exact ⟨fun _ => ⟨[], rfl, rfl⟩, fun h => absurd rfl h⟩
    | [_], _ => exact ⟨fun h => by simp at h, fun _ => rfl⟩
    | [_, _], _ => exact ⟨fun h => by simp at h, fun _ => rfl⟩
    | r :: g :: b :: rest, hn =>
      have := ih rest.length (by simp at hn; omega) rest rfl
      constructor
      · intro h
        obtain ⟨p, hp, hl⟩ := this.1 (by simp at h; omega)
        exact ⟨_, from63_ok_cons r g b rest p hp, by simp; omega⟩
      · intro h
        have := this.2 (by simp at h; omega)
        simp only [from63, this]

/-! ### EGA slots -/

/-- colour read from slot `i` of a flat 6-bit table -/
def slot (d : List Nat) (i : Nat) : Rgb := upEga ⟨d.getD (3 * i) 0, d.getD (3 * i + 1) 0, d.getD (3 * i + 2) 0⟩

theorem fromEgaGo_ok (d : List Nat) (is : List Nat) (h : ∀ i ∈ is, 3 * i + 2 < d.length) :
    fromEgaGo d is = .ok (is.map (slot d)) := by
  induction is with
  | nil => rfl
  | cons i is ih =>
    have hi := h i (by simp)
    have h0 : d[3 * i]? = some (d.getD (3 * i) 0) := by
      rw [List.getD_eq_getElem?_getD, List.getElem?_eq_getElem (by omega)]; rfl
    have h1 : d[3 * i + 1]? = some (d.getD (3 * i + 1) 0) := by
      rw [List.getD_eq_getElem?_getD, List.getElem?_eq_getElem (by omega)]; rfl
    have h2 : d[3 * i + 2]? = some (d.getD (3 * i + 2) 0) := by
      rw [List.getD_eq_getElem?_getD, List.getElem?_eq_getElem (by omega)]; rfl
    simp only [fromEgaGo, h0, h1, h2, ih (fun j hj => h j (by simp [hj])), List.map_cons, slot]

theorem fromEgaGo_eq (d : List Nat) (is : List Nat) (p : List Rgb) (h : fromEgaGo d is = .ok p) : p = is.map (slot d) := by
  induction is generalizing p with
  | nil => cases h; rfl
  | cons i is ih =>
    simp only [fromEgaGo] at h
    split at h
    · rename_i r g b h0 h1 h2
      split at h
      · rename_i cs hcs
        cases h
        have := ih cs hcs
        have e0 : d.getD (3 * i) 0 = r := by rw [List.getD_eq_getElem?_getD, h0]; rfl
        have e1 : d.getD (3 * i + 1) 0 = g := by rw [List.getD_eq_getElem?_getD, h1]; rfl
        have e2 : d.getD (3 * i + 2) 0 = b := by rw [List.getD_eq_getElem?_getD, h2]; rfl
        rw [this]; simp only [List.map_cons, slot, e0, e1, e2]
      · cases h
    · cases h

theorem egaFill_length (p : List Rgb) (os : List Nat) (i : Nat) (acc : List Rgb) : (egaFill p os i acc).length = acc.length := by
  induction os generalizing i acc with
  | nil => rfl
  | cons o os ih => simp only [egaFill]; split; rfl; rw [ih]; simp

/-- a slot that is not written keeps the base colour -/
theorem egaFill_untouched (p : List Rgb) (os : List Nat) (i : Nat) (acc : List Rgb) (s : Nat) (h : s ∉ os) :
    (egaFill p os i acc)[s]? = acc[s]? := by
  induction os generalizing i acc with
  | nil => rfl
  | cons o os ih =>
    simp only [egaFill]
    split
    · rfl
    · rw [ih _ _ (fun hh => h (by simp [hh])), List.getElem?_set_ne (fun e => h (by simp [e]))]

/-- the `j`-th written slot holds palette colour `i + j` (slots are pairwise distinct) -/
theorem egaFill_touched (p : List Rgb) (os : List Nat) (i : Nat) (acc : List Rgb) (j : Nat) (hn : os.Nodup)
    (hj : j < os.length) (hp : i + j < p.length) (hs : os.getD j 0 < acc.length) :
    (egaFill p os i acc)[os.getD j 0]? = some (p.getD (i + j) black) := by
  induction os generalizing i acc j with
  | nil => simp at hj
  | cons o os ih =>
    simp only [egaFill]
    rw [if_neg (by omega)]
    cases j with
    | zero =>
      simp only [List.getD_cons_zero, Nat.add_zero] at hs ⊢
      rw [egaFill_untouched _ _ _ _ _ (List.nodup_cons.mp hn).1, List.getElem?_set_self hs]
    | succ j =>
      simp only [List.getD_cons_succ] at hs ⊢
      have := ih (i + 1) (acc.set o (p.getD i black)) j (List.nodup_cons.mp hn).2 (by simpa using hj) (by omega)
        (by simpa using hs)
      rw [this]; congr 2; omega

theorem getD_flatMap3 (g : Rgb → Rgb) (l : List Rgb) (s j : Nat) (hj : j < 3) :
    (l.flatMap fun c => flat (g c)).getD (3 * s + j) 0 = (flat (g (l.getD s black))).getD j 0 ∨ l.length ≤ s := by
  induction l generalizing s with
  | nil => right; simp
  | cons c cs ih =>
    cases s with
    | zero =>
      left
      simp only [List.flatMap_cons, flat, Nat.mul_zero, Nat.zero_add, List.getD_cons_zero]
      match j, hj with
      | 0, _ => rfl
      | 1, _ => rfl
      | 2, _ => rfl
    | succ s =>
      rcases ih s with h | h
      · left
        have e : 3 * (s + 1) + j = (3 * s + j) + 3 := by omega
        simp only [List.flatMap_cons, flat, e, List.cons_append, List.nil_append, List.getD_cons_succ]
        exact h
      · right; simp; omega

theorem length_flatMap3 (g : Rgb → Rgb) (l : List Rgb) : (l.flatMap fun c => flat (g c)).length = 3 * l.length := by
  induction l with
  | nil => rfl
  | cons c cs ih =>
    simp only [List.flatMap_cons, List.length_append, List.length_cons, flat, List.length_nil]
    simp only [flat] at ih
    omega

theorem ega_consts : egaOffsets.Nodup ∧ egaOffsets.length = 16 ∧ egaCount = 16 ∧ egaBase.length = 64 ∧
    (∀ o ∈ egaOffsets, o < 64) := by decide

theorem fromEgaGo_bound (d : List Nat) (is : List Nat) (p : List Rgb) (h : fromEgaGo d is = .ok p) :
    ∀ i ∈ is, 3 * i + 2 < d.length := by
  induction is generalizing p with
  | nil => intro i hi; simp at hi
  | cons i is ih =>
    simp only [fromEgaGo] at h
    split at h
    · rename_i r g b h0 h1 h2
      split at h
      · rename_i cs hcs
        intro k hk
        rcases List.mem_cons.mp hk with rfl | hk
        · have := List.getElem?_eq_some_iff.mp h2
          exact this.1
        · exact ih cs hcs k hk
      · cases h
    · cases h

theorem getD_lt64 (d : List Nat) (hd : ∀ x ∈ d, x < 64) (k : Nat) : d.getD k 0 < 64 := by
  rw [List.getD_eq_getElem?_getD]
  by_cases hk : k < d.length
  · rw [List.getElem?_eq_getElem hk]; exact hd _ (List.getElem_mem hk)
  · rw [List.getElem?_eq_none (by omega)]; decide

/-- slot `i` read back from `to_ega_data p`, when slot `i` is the `j`-th EGA offset and `p` has a `j`-th colour -/
theorem slot_toEga (p : List Rgb) (j : Nat) (hj : j < 16) (hp : j < p.length) :
    slot (toEga p) (egaOffsets.getD j 0) = upEga (downEga (p.getD j black)) := by
  obtain ⟨hnd, hlen, hcnt, hbase, hlt⟩ := ega_consts
  have htake : egaOffsets.take egaCount = egaOffsets := by rw [hcnt, ← hlen]; exact List.take_length
  have hmem : egaOffsets.getD j 0 ∈ egaOffsets := by
    rw [List.getD_eq_getElem?_getD, List.getElem?_eq_getElem (by omega)]; exact List.getElem_mem _
  have hi : egaOffsets.getD j 0 < 64 := hlt _ hmem
  have hF := egaFill_touched p egaOffsets 0 egaBase j hnd (by omega) (by omega) (by rw [hbase]; exact hi)
  have hFl : (egaFill p egaOffsets 0 egaBase).length = 64 := by rw [egaFill_length, hbase]
  have hget : (egaFill p egaOffsets 0 egaBase).getD (egaOffsets.getD j 0) black = p.getD j black := by
    rw [List.getD_eq_getElem?_getD, hF]; simp
  have key : ∀ c, c < 3 → (toEga p).getD (3 * egaOffsets.getD j 0 + c) 0 = (flat (downEga (p.getD j black))).getD c 0 := by
    intro c hc
    unfold toEga
    rw [htake]
    rcases getD_flatMap3 downEga (egaFill p egaOffsets 0 egaBase) (egaOffsets.getD j 0) c hc with h | h
    · rw [h, hget]
    · omega
  have k0 := key 0 (by decide)
  have k1 := key 1 (by decide)
  have k2 := key 2 (by decide)
  simp only [Nat.add_zero, flat, List.getD_cons_zero, List.getD_cons_succ] at k0 k1 k2
  unfold slot
  rw [k0, k1, k2]

/-- ADF: load → save → load gives the palette of the first load -/
theorem ega_rt' (d : List Nat) (p : List Rgb) (hd : ∀ x ∈ d, x < 64) (h : fromEga d = .ok p) :
    fromEga (toEga p) = .ok p := by
  obtain ⟨hnd, hlen, hcnt, hbase, hlt⟩ := ega_consts
  have hp : p = egaOffsets.map (slot d) := fromEgaGo_eq d egaOffsets p h
  have hpl : p.length = 16 := by rw [hp, List.length_map, hlen]
  have htl : (toEga p).length = 192 := by
    unfold toEga; rw [length_flatMap3, egaFill_length, hbase]
  unfold fromEga
  rw [fromEgaGo_ok (toEga p) egaOffsets (fun i hi => by have := hlt i hi; omega)]
  congr 1
  conv => rhs; rw [hp]
  apply List.map_congr_left
  intro i hi
  obtain ⟨j, hj, hij⟩ := List.getElem_of_mem hi
  have hj16 : j < 16 := by omega
  have e : i = egaOffsets.getD j 0 := by
    rw [← hij, List.getD_eq_getElem?_getD, List.getElem?_eq_getElem hj]; rfl
  rw [e, slot_toEga p j hj16 (by omega)]
  have hpj : p.getD j black = slot d (egaOffsets.getD j 0) := by
    rw [hp, List.getD_eq_getElem?_getD, List.getElem?_map, List.getElem?_eq_getElem hj, ← e, ← hij]
    rfl
  rw [hpj]
  unfold slot
  rw [downEga_upEga _ ⟨getD_lt64 d hd _, getD_lt64 d hd _, getD_lt64 d hd _⟩]

theorem flatMap_flat_map (g : Rgb → Rgb) (l : List Rgb) : (l.flatMap fun c => flat (g c)) = (l.map g).flatMap flat := by
  induction l with
  | nil => rfl
  | cons c cs ih => simp [ih]

theorem toEga_eq (p : List Rgb) : toEga p = ((egaFill p egaOffsets 0 egaBase).map downEga).flatMap flat := by
  have htake : egaOffsets.take egaCount = egaOffsets := by
    rw [ega_consts.2.2.1, ← ega_consts.2.1]; exact List.take_length
  unfold toEga
  rw [htake]
  exact flatMap_flat_map downEga _

theorem getD_map_nat (l : List Nat) (f : Nat → Rgb) (j : Nat) (h : j < l.length) :
    (l.map f).getD j black = f (l.getD j 0) := by
  induction l generalizing j with
  | nil => simp at h
  | cons a as ih =>
    cases j with
    | zero => rfl
    | succ j => simp only [List.map_cons, List.getD_cons_succ]; exact ih j (by simpa using h)

/-- ADF: save → load → save writes the same 192 bytes (palettes with at least the 16 EGA colours) -/
theorem ega_save_idem (p : List Rgb) (hv : ∀ c ∈ p, c.Valid) (hl : 16 ≤ p.length) :
    ∃ q, fromEga (toEga p) = .ok q ∧ toEga q = toEga p := by
  obtain ⟨hnd, hlen, hcnt, hbase, hlt⟩ := ega_consts
  have htake : egaOffsets.take egaCount = egaOffsets := by rw [hcnt, ← hlen]; exact List.take_length
  have htl : (toEga p).length = 192 := by unfold toEga; rw [length_flatMap3, egaFill_length, hbase]
  refine ⟨egaOffsets.map (slot (toEga p)), ?_, ?_⟩
  · unfold fromEga
    exact fromEgaGo_ok (toEga p) egaOffsets (fun i hi => by have := hlt i hi; omega)
  · have hq : ∀ j, j < 16 → (egaOffsets.map (slot (toEga p))).getD j black = upEga (downEga (p.getD j black)) := by
      intro j hj
      rw [getD_map_nat _ _ j (by omega), slot_toEga p j hj (by omega)]
    have hql : (egaOffsets.map (slot (toEga p))).length = 16 := by rw [List.length_map, hlen]
    generalize egaOffsets.map (slot (toEga p)) = q at hq hql ⊢
    rw [toEga_eq, toEga_eq]
    suffices h : (egaFill q egaOffsets 0 egaBase).map downEga = (egaFill p egaOffsets 0 egaBase).map downEga by rw [h]
    apply List.ext_getElem?
    intro s
    rw [List.getElem?_map, List.getElem?_map]
    by_cases hs : s ∈ egaOffsets
    · obtain ⟨j, hj, hij⟩ := List.getElem_of_mem hs
      have hj16 : j < 16 := by omega
      have e : s = egaOffsets.getD j 0 := by
        rw [← hij, List.getD_eq_getElem?_getD, List.getElem?_eq_getElem hj]; rfl
      have hs64 : egaOffsets.getD j 0 < egaBase.length := by rw [← e, hbase]; exact hlt s hs
      rw [e, egaFill_touched _ egaOffsets 0 egaBase j hnd (by omega) (by omega) hs64,
        egaFill_touched p egaOffsets 0 egaBase j hnd (by omega) (by omega) hs64]
      simp only [Nat.zero_add, Option.map_some, Option.some.injEq]
      rw [hq j hj16]
      have hpj : (p.getD j black).Valid := by
        rw [List.getD_eq_getElem?_getD, List.getElem?_eq_getElem (by omega)]
        exact hv _ (List.getElem_mem _)
      exact downEga_upEga _ (downEga_lt _ hpj)
    · rw [egaFill_untouched _ _ _ _ _ hs, egaFill_untouched _ _ _ _ _ hs]

end IcyVerif.Palette
