import IcyVerif.Lemmas.Font
set_option linter.unusedSimpArgs false
namespace IcyVerif.Font
open IcyVerif.Uni

/-- the domain of the bitmap-font round trips: width 8, `h` rows per glyph, a complete table whose indices are all
    scalar values (256 and 512 are instances), rows are bytes -/
structure WfFont (f : BitFont) (h : Nat) : Prop where
  w8 : f.w = 8
  hh : f.h = h
  h1 : 1 ≤ h
  h255 : h ≤ 255
  n : f.glyphs.length ≤ 55296
  len : f.length = f.glyphs.length
  rows : AllRows h f.glyphs

theorem loop_eq (f : BitFont) (h : Nat) (wf : WfFont f h) : f.loop = f.glyphs := by
  unfold BitFont.loop
  rw [wf.len]; simp [lookups_self]

theorem toPsf2_eq (f : BitFont) (h : Nat) (wf : WfFont f h) : f.toPsf2 = .ok (psf2Header f ++ flat f.glyphs) := by
  unfold BitFont.toPsf2
  rw [loop_eq f h wf, allGlyphs_flat h _ wf.rows]

theorem psf2Header_eq (f : BitFont) (h : Nat) (wf : WfFont f h) :
    psf2Header f = [0x72, 0xb5, 0x4a, 0x86, 0, 0, 0, 0, 32, 0, 0, 0, 0, 0, 0, 0] ++
      u32le f.glyphs.length ++ u32le h ++ u32le h ++ u32le 8 := by
  unfold psf2Header
  rw [wf.len, wf.hh, wf.w8]
  rw [asU32_nat _ (by have := wf.n; omega), asU32_nat _ (by have := wf.h255; omega)]
  rfl

theorem psf2_roundtrip (f : BitFont) (h : Nat) (wf : WfFont f h) :
    fromBytes (psf2Header f ++ flat f.glyphs) = .ok f := by
  rw [psf2Header_eq f h wf]
  have hn := wf.n
  have hlen := flat_length h _ wf.rows
  generalize hd : flat f.glyphs = d at hlen
  simp only [u32le, List.cons_append, List.nil_append]
  unfold fromBytes
  simp only
  rw [if_neg (by decide), if_pos (by decide)]
  unfold loadPsf2
  have hl32 : ¬ ((114 :: 181 :: 74 :: 134 :: 0 :: 0 :: 0 :: 0 :: 32 :: 0 :: 0 :: 0 :: 0 :: 0 :: 0 :: 0 ::
      f.glyphs.length % 256 :: f.glyphs.length / 256 % 256 :: f.glyphs.length / 65536 % 256 :: f.glyphs.length / 16777216 % 256 ::
      h % 256 :: h / 256 % 256 :: h / 65536 % 256 :: h / 16777216 % 256 ::
      h % 256 :: h / 256 % 256 :: h / 65536 % 256 :: h / 16777216 % 256 ::
      8 % 256 :: 8 / 256 % 256 :: 8 / 65536 % 256 :: 8 / 16777216 % 256 :: d).length < 32) := by
    simp only [List.length_cons]; omega
  rw [if_neg hl32]
  simp only [rd32, List.drop_succ_cons, List.drop_zero]
  rw [le32_u32le, le32_u32le]
  have e1 : f.glyphs.length % 4294967296 = f.glyphs.length := Nat.mod_eq_of_lt (by omega)
  have e2 : h % 4294967296 = h := Nat.mod_eq_of_lt (by have := wf.h255; omega)
  have e3 : le32 0 0 0 0 = 0 := rfl
  have e4 : le32 32 0 0 0 = 32 := rfl
  have e5 : le32 (8 % 256) (8 / 256 % 256) (8 / 65536 % 256) (8 / 16777216 % 256) = 8 := rfl
  rw [e1, e2, e3, e4, e5, asI32_small _ (by omega), asI32_small _ (by have := wf.h255; omega), asI32_small 8 (by omega)]
  rw [if_neg (by omega)]
  have hcond : ¬ ((f.glyphs.length : Int) < 0 ∨ (h : Int) ≤ 0 ∨
      (f.glyphs.length : Int) * (h : Int) + ((32 : Nat) : Int) ≠
        ((114 :: 181 :: 74 :: 134 :: 0 :: 0 :: 0 :: 0 :: 32 :: 0 :: 0 :: 0 :: 0 :: 0 :: 0 :: 0 ::
      f.glyphs.length % 256 :: f.glyphs.length / 256 % 256 :: f.glyphs.length / 65536 % 256 :: f.glyphs.length / 16777216 % 256 ::
      h % 256 :: h / 256 % 256 :: h / 65536 % 256 :: h / 16777216 % 256 ::
      h % 256 :: h / 256 % 256 :: h / 65536 % 256 :: h / 16777216 % 256 ::
      8 % 256 :: 8 / 256 % 256 :: 8 / 65536 % 256 :: 8 / 16777216 % 256 :: d).length : Int) ∨
      (h : Int) ≠ ((h * ((8 + 7) / 8) : Nat) : Int)) := by
    have h1 := wf.h1
    simp only [List.length_cons, hlen]
    rw [← Int.natCast_mul]
    omega
  rw [if_neg hcond]
  have hdrop : (32 : Nat) = 0 + 1 + 1 + 1 + 1 + 1 + 1 + 1 + 1 + 1 + 1 + 1 + 1 + 1 + 1 + 1 + 1 + 1 + 1 + 1 + 1 + 1 + 1 + 1 + 1 + 1 + 1 + 1 + 1 + 1 + 1 + 1 + 1 := rfl
  rw [hdrop]
  simp only [List.drop_succ_cons, List.drop_zero]
  rw [← hd, glyphsFromU8_flat h wf.h1 _ wf.rows wf.n]
  have := wf.len; have := wf.hh; have := wf.w8
  cases f
  simp_all



theorem toU8_eq (f : BitFont) (h : Nat) (wf : WfFont f h) : f.toU8 = .ok (flat f.glyphs) := by
  unfold BitFont.toU8
  rw [loop_eq f h wf, convertAux_flat h _ _ wf.rows]

/-- raw glyph data of a 256-glyph font through `from_bytes`, provided it is not mistaken for a PSF file -/
theorem raw_roundtrip (f : BitFont) (h : Nat) (wf : WfFont f h) (h256 : f.glyphs.length = 256)
    (hm : noMagic (flat f.glyphs) = true) : fromBytes (flat f.glyphs) = .ok f := by
  have hlen := flat_length h _ wf.rows
  have hg := glyphsFromU8_flat h wf.h1 _ wf.rows wf.n
  have h1 := wf.h1
  generalize hd : flat f.glyphs = d at hlen hm hg
  rw [h256] at hlen
  match d, hlen, hm, hg with
  | a :: b :: c :: e :: rest, hlen, hm, hg =>
    unfold fromBytes
    simp only [noMagic, Bool.and_eq_true, Bool.not_eq_true', beq_eq_false_iff_ne, ne_eq, Bool.and_eq_false_iff] at hm
    simp only
    have hpsf1 : ¬ (a = 0x36 ∧ b = 0x04) := by
      intro ⟨h1, h2⟩; rcases hm.1 with h | h
      · exact h h1
      · exact h h2
    rw [if_neg hpsf1, if_neg hm.2]
    unfold loadPlain
    have hmod : (a :: b :: c :: e :: rest).length % 256 = 0 := by rw [hlen]; omega
    have hdiv : (a :: b :: c :: e :: rest).length / 256 = h := by rw [hlen]; omega
    rw [if_neg (by omega)]
    simp only [hdiv, hg]
    have := wf.len; have := wf.hh; have := wf.w8
    cases f
    simp_all
  | [], hlen, _, _ => simp at hlen; omega
  | [_], hlen, _, _ => simp at hlen; omega
  | [_, _], hlen, _, _ => simp at hlen; omega
  | [_, _, _], hlen, _, _ => simp at hlen; omega

/-- raw glyph data through `create_8` / `from_basic` (what the XBin, ADF and IDF loaders call): no sniffing -/
theorem basic_roundtrip (f : BitFont) (h : Nat) (wf : WfFont f h) (h256 : f.glyphs.length = 256) :
    fromBasic 8 h (flat f.glyphs) = f := by
  unfold fromBasic
  rw [glyphsFromU8_flat h wf.h1 _ wf.rows wf.n]
  have := wf.len; have := wf.hh; have := wf.w8
  cases f
  simp_all

theorem splitColon_append (a rest : List Nat) (h : 58 ∉ a) : splitColon (a ++ 58 :: rest) = some (a, rest) := by
  induction a with
  | nil => simp [splitColon]
  | cons x xs ih =>
    have hx : x ≠ 58 := fun e => h (by simp [e])
    have hxs : 58 ∉ xs := fun e => h (List.mem_cons_of_mem _ e)
    simp [splitColon, hx, ih hxs]

/-- what the theorems assume about crate `base64` and `{}` / `parse::<usize>` -/
structure CodecLaws (c : Codec) : Prop where
  b64 : ∀ x, c.b64d (c.b64e x) = some x
  num : ∀ n, c.parse (c.fmt n) = some n
  nocolon : ∀ n, 58 ∉ c.fmt n

theorem dcs_roundtrip (c : Codec) (hc : CodecLaws c) (f : BitFont) (h : Nat) (wf : WfFont f h)
    (h256 : f.glyphs.length = 256) (hm : noMagic (flat f.glyphs) = true) (slot : Nat) :
    ∃ s, encodeAnsi c f slot = .ok s ∧ loadCustomFont c s = .ok (slot, f) := by
  refine ⟨prefixCTerm ++ c.fmt slot ++ [58] ++ c.b64e (flat f.glyphs), ?_, ?_⟩
  · unfold encodeAnsi; rw [toU8_eq f h wf]
  · unfold loadCustomFont
    have hdrop : (prefixCTerm ++ c.fmt slot ++ [58] ++ c.b64e (flat f.glyphs)).drop prefixCTerm.length =
        c.fmt slot ++ 58 :: c.b64e (flat f.glyphs) := by
      simp [List.append_assoc]
    rw [hdrop, splitColon_append _ _ (hc.nocolon slot)]
    simp only [hc.num, hc.b64, raw_roundtrip f h wf h256 hm]

theorem rd32_u32le (n : Nat) (rest : List Nat) : rd32 (u32le n ++ rest) 0 = some (n % 4294967296) := by
  simp only [u32le, rd32, List.drop_zero, List.cons_append, List.nil_append]
  rw [le32_u32le]

/-- IcyDraw string field followed by anything: a valid UTF-8 name is read back unchanged, and the reader reports the
    right number of consumed bytes -/
theorem string_roundtrip (name rest : List Nat) (hv : ValidUtf8 name) (hl : name.length < 4294967296) :
    readString (writeString name ++ rest) = .ok (name, name.length + 4) ∧
    (writeString name ++ rest).drop (name.length + 4) = rest := by
  have hmod : name.length % 4294967296 = name.length := Nat.mod_eq_of_lt hl
  constructor
  · unfold readString writeString
    rw [List.append_assoc, rd32_u32le, hmod]
    have hlen : ¬ ((u32le name.length ++ (name ++ rest)).length < 4 + name.length) := by
      simp [u32le]; omega
    simp only [hlen, if_false]
    have : ((u32le name.length ++ (name ++ rest)).drop 4).take name.length = name := by
      simp [u32le]
    rw [this]
    have hlossy : lossyBytes name = name := by
      obtain ⟨cs, hcs, rfl⟩ := hv
      unfold lossyBytes lossy
      rw [lossyAux_encodeAll cs hcs _ (Nat.le_refl _)]
    rw [hlossy]
  · unfold writeString
    simp [u32le, List.append_assoc]

end IcyVerif.Font
