import IcyVerif.Lemmas.BinFormatsResave
import IcyVerif.Model.BinLayers
set_option linter.unusedSimpArgs false
set_option linter.unusedVariables false
/-!
# C05 on buffers with a layer stack: the flattened picture is a picture like any other
-/
namespace IcyVerif.BinFormats
open IcyVerif.XbCompress IcyVerif.Gen

theorem flatten_wellFormed (hb : Comp.Cell → Nat × Nat) (B : Layered) (h : 1 ≤ B.h) : wellFormed (B.flatten hb) = true := by
  unfold wellFormed Layered.flatten
  simp only [Bool.and_eq_true, beq_iff_eq, List.all_eq_true, decide_eq_true_eq, List.length_map, List.length_range, List.mem_map,
    List.mem_range]
  refine ⟨⟨trivial, ?_⟩, h⟩
  rintro r ⟨y, _, rfl⟩
  simp

/-- the cell the flattened picture has at (x, y) is `Buffer::get_char((x, y))` -/
theorem flatten_cell (hb : Comp.Cell → Nat × Nat) (B : Layered) (x y : Nat) (hx : x < B.w) (hy : y < B.h) :
    (B.flatten hb).cell x y = cellOf (Comp.getChar hb B.isTerm B.layers (x : Int) (y : Int)) := by
  unfold Pic.cell Layered.flatten
  simp [List.getD_eq_getElem?_getD, List.getElem?_map, List.getElem?_range, hx, hy]

/-- one visible, opaque, `Normal` layer at offset 0 that covers the buffer (what every loader produces, and what the
    single-layer cases of the correspondence run build): the picture is the layer's visible cells, and the default cell
    (on the layer's default font page) where the layer holds an invisible one -/
theorem flatten_single (hb : Comp.Cell → Nat × Nat) (B : Layered) (l : Comp.Layer) (hl : B.layers = [l]) (hv : l.visible = true)
    (hna : l.alpha = false) (hm : l.mode = .normal) (hox : l.offX = 0) (hoy : l.offY = 0) (x y : Nat)
    (hx : (x : Int) < l.w) (hy : (y : Int) < l.h) :
    Comp.getChar hb B.isTerm B.layers (x : Int) (y : Int) =
      (if (l.getChar x y).isVisible then
        (if (l.getChar x y).hasTransparentColor then Comp.makeSolid hb (l.getChar x y) (Comp.defaultCell.withPage l.dfltPage)
         else l.getChar x y)
       else Comp.defaultCell.withPage l.dfltPage) := by
  unfold Comp.getChar
  rw [hl]
  simp only [List.reverse_cons, List.reverse_nil, List.nil_append, Comp.go, Comp.layerStep, hv, Bool.not_true, Bool.false_eq_true, if_false,
    hox, hoy, Int.sub_zero]
  have hcov : ((x : Int) < 0 || (y : Int) < 0 || (x : Int) ≥ l.w || (y : Int) ≥ l.h) = false := by
    simp only [Bool.or_eq_false_iff, decide_eq_false_iff_not]
    omega
  simp only [hcov, Bool.false_eq_true, if_false, Comp.coveredStep, hm, hna, Bool.not_false, if_true]
  by_cases hvis : (l.getChar x y).isVisible = true
  · simp only [hvis, if_true]
    have hmerge : Comp.merge (l.getChar x y) Comp.St.init.chOpt Comp.St.init.attrOpt = l.getChar x y := by
      unfold Comp.merge Comp.St.init
      simp [hvis]
    simp only [Comp.St.init] at hmerge ⊢
    simp only [hmerge]
    by_cases htc : (l.getChar x y).hasTransparentColor = true
    · simp only [htc, if_true, Option.isNone_none, Comp.opaqueTail, Comp.merge, Option.isSome_none, Bool.or_self, Bool.false_eq_true, if_false]
      simp [Comp.Cell.withPage, Comp.Cell.isVisible, Comp.defaultCell, Comp.defaultFlags, Comp.invisibleBit]
    · have : (l.getChar x y).hasTransparentColor = false := by simpa using htc
      simp only [this, Bool.false_eq_true, if_false]
  · have : (l.getChar x y).isVisible = false := by simpa using hvis
    simp only [this, Bool.false_eq_true, if_false, Comp.opaqueTail, Comp.St.init, Comp.merge, Option.isSome_none, Bool.or_self]
    simp [Comp.Cell.withPage, Comp.Cell.isVisible, Comp.defaultCell, Comp.defaultFlags, Comp.invisibleBit]

/-- **buffers with several layers**: whatever the stack (visibility, offsets, alpha channel, `Chars` / `Attributes` layers),
    if the picture the compositor shows is in the format's domain, saving the buffer and loading the file gives that picture -/
theorem layered_roundtrip (hb : Comp.Cell → Nat × Nat) (f : Fmt) (o : Opts) (date : List Nat) (B : Layered)
    (hrep : Representable f o (B.flatten hb) = true) (hdate : dateOk date = true) :
    ∃ bytes, saveLayered hb f o date B = .ok bytes ∧
      ((o.sauce = true ∨ tailReadsAsSauce bytes = false) → ∃ g, fromBytes f bytes = .ok g ∧ SamePicture f (B.flatten hb) g) := by
  unfold saveLayered
  cases f with
  | xb => exact xb_roundtrip o date _ hrep hdate
  | bin =>
    obtain ⟨b, g, h1, h2, h3⟩ := bin_roundtrip o date _ hrep hdate
    exact ⟨b, h1, fun _ => ⟨g, h2, h3⟩⟩
  | adf => exact adf_roundtrip o date _ hrep hdate
  | idf => exact idf_roundtrip o date _ hrep hdate
  | tnd => exact tnd_roundtrip o date _ hrep hdate

end IcyVerif.BinFormats
