import IcyVerif.Lemmas.BinFormatsTnd
set_option linter.unusedSimpArgs false
set_option linter.unusedVariables false
/-!
# C05, Tundra: the bytes the writer emits drive the loader as `jstep` says
-/
namespace IcyVerif.BinFormats
open IcyVerif.XbCompress IcyVerif.Gen

/-- the bytes written for one cell -/
def tndChunk (P : List Rgb) (s : JS) (c : Cell) : List Nat :=
  if wfOf P s c || wbOf P s c then
    [boolBit (wfOf P s c) BinFmt.tndColorFg ||| boolBit (wbOf P s c) BinFmt.tndColorBg, c.ch] ++
      (if wfOf P s c then rgbBytes (getRgb P (tndShown c.attr)) else []) ++
      (if wbOf P s c then rgbBytes (getRgb P c.attr.bg) else [])
  else [c.ch]

theorem cmd_ne_zero : ∀ wf wb : Bool,
    (boolBit wf BinFmt.tndColorFg ||| boolBit wb BinFmt.tndColorBg ≠ 0) ↔ (wf || wb) = true := by decide

/-- the writer on one visible 8-bit cell -/
theorem tndCell_eq (P : List Rgb) (sw : TW) (js : JS) (idx : Nat) (c : Cell) (ha : sw.attr = js.wattr) (hf : sw.first = js.first)
    (hv : isVisible c = true) (hc : c.ch ≤ 255) :
    tndCell P sw idx c = some { out := sw.out ++ tndChunk P js c, attr := (jstep P js c).1.wattr, first := false, skip := sw.skip } := by
  unfold tndCell
  have hc' : ¬ (c.ch > 255) := by omega
  simp only [hv, Bool.not_true, Bool.false_eq_true, if_false, hc']
  have hwf : (getRgb P (tndShown sw.attr) != getRgb P (tndShown c.attr) || isBold sw.attr != isBold c.attr ||
      (decide (BinFmt.tndCtlLo ≤ c.ch) && decide (c.ch ≤ BinFmt.tndCtlHi)) || sw.first) = wfOf P js c := by
    unfold wfOf ctlChar; rw [ha, hf]
  have hwb : (getRgb P sw.attr.bg != getRgb P c.attr.bg || sw.first) = wbOf P js c := by
    unfold wbOf; rw [ha, hf]
  rw [hwf, hwb]
  unfold tndChunk jstep
  by_cases hany : (wfOf P js c || wbOf P js c) = true
  · have hne := (cmd_ne_zero (wfOf P js c) (wbOf P js c)).mpr hany
    simp only [hne, ne_eq, not_false_eq_true, if_true, hany, List.append_assoc]
  · have hany' : (wfOf P js c || wbOf P js c) = false := by simpa using hany
    have hne : ¬ (boolBit (wfOf P js c) BinFmt.tndColorFg ||| boolBit (wbOf P js c) BinFmt.tndColorBg ≠ 0) := by
      rw [cmd_ne_zero]; simp [hany']
    simp only [hne, if_false, hany', Bool.false_eq_true, ha]

theorem loop_fg (F ch z r g b : Nat) (X : List Nat) (sl : TL) :
    tndLoop (F + 1) (2 :: ch :: z :: r :: g :: b :: X) sl =
      tndLoop F X (tndPut { sl with buf := { sl.buf with pal := (insertColor sl.buf.pal (r, g, b)).1 }, fg := (insertColor sl.buf.pal (r, g, b)).2 } ch) := by
  rw [tndLoop]
  have h1 : ¬ ((2 : Nat) = BinFmt.tndPosition) := by decide
  have h2 : (2 : Nat) > BinFmt.tndCmdAbove ∧ 2 ≤ BinFmt.tndCmdUpTo := by decide
  have h3 : (2 : Nat) &&& BinFmt.tndColorFg ≠ 0 := by decide
  have h4 : ¬ ((2 : Nat) &&& BinFmt.tndColorBg ≠ 0) := by decide
  simp only [h1, if_false, h2, and_self, if_true, h3, h4, ne_eq, not_false_eq_true]

theorem loop_bg (F ch z r g b : Nat) (X : List Nat) (sl : TL) :
    tndLoop (F + 1) (4 :: ch :: z :: r :: g :: b :: X) sl =
      tndLoop F X (tndPut { sl with buf := { sl.buf with pal := (insertColor sl.buf.pal (r, g, b)).1 }, bg := (insertColor sl.buf.pal (r, g, b)).2 } ch) := by
  rw [tndLoop]
  have h1 : ¬ ((4 : Nat) = BinFmt.tndPosition) := by decide
  have h2 : (4 : Nat) > BinFmt.tndCmdAbove ∧ 4 ≤ BinFmt.tndCmdUpTo := by decide
  have h3 : ¬ ((4 : Nat) &&& BinFmt.tndColorFg ≠ 0) := by decide
  have h4 : (4 : Nat) &&& BinFmt.tndColorBg ≠ 0 := by decide
  simp only [h1, if_false, h2, and_self, if_true, h3, h4, ne_eq, not_false_eq_true]

theorem loop_both (F ch z r g b z2 r2 g2 b2 : Nat) (X : List Nat) (sl : TL) :
    tndLoop (F + 1) (6 :: ch :: z :: r :: g :: b :: z2 :: r2 :: g2 :: b2 :: X) sl =
      tndLoop F X (tndPut { sl with
        buf := { sl.buf with pal := (insertColor (insertColor sl.buf.pal (r, g, b)).1 (r2, g2, b2)).1 },
        fg := (insertColor sl.buf.pal (r, g, b)).2,
        bg := (insertColor (insertColor sl.buf.pal (r, g, b)).1 (r2, g2, b2)).2 } ch) := by
  have h1 : ¬ ((6 : Nat) = BinFmt.tndPosition) := by decide
  have h2 : (6 : Nat) > BinFmt.tndCmdAbove ∧ 6 ≤ BinFmt.tndCmdUpTo := by decide
  have h3 : (6 : Nat) &&& BinFmt.tndColorFg ≠ 0 := by decide
  have h4 : (6 : Nat) &&& BinFmt.tndColorBg ≠ 0 := by decide
  simp only [tndLoop, h1, if_false, h2, and_self, if_true, h3, h4, ne_eq, not_false_eq_true]

theorem loop_plain (F ch : Nat) (X : List Nat) (sl : TL) (h : ch = 0 ∨ ch > 6) :
    tndLoop (F + 1) (ch :: X) sl = tndLoop F X (tndPut sl ch) := by
  have n1 : ¬ (ch = BinFmt.tndPosition) := by have : BinFmt.tndPosition = 1 := rfl; omega
  have n2 : ¬ (ch > BinFmt.tndCmdAbove ∧ ch ≤ BinFmt.tndCmdUpTo) := by
    have h1 : BinFmt.tndCmdAbove = 1 := rfl
    have h2 : BinFmt.tndCmdUpTo = 6 := rfl
    omega
  simp only [tndLoop, n1, n2, if_false]

/-- the loader on the bytes of one cell -/
theorem tndLoop_chunk (P : List Rgb) (js : JS) (c : Cell) (F : Nat) (X : List Nat) (sl : TL)
    (hp : sl.buf.pal = js.lpal) (hfg : sl.fg = js.lfg) (hbg : sl.bg = js.lbg) :
    tndLoop (F + 1) (tndChunk P js c ++ X) sl =
      tndLoop F X (tndPut { sl with buf := { sl.buf with pal := (jstep P js c).1.lpal }, fg := (jstep P js c).1.lfg, bg := (jstep P js c).1.lbg } c.ch) := by
  unfold tndChunk jstep
  obtain ⟨buf, fg, bg, x, y⟩ := sl
  simp only at hp hfg hbg
  subst hfg; subst hbg
  cases hwf : wfOf P js c <;> cases hwb : wbOf P js c
  · -- plain byte
    have hctl : ctlChar c.ch = false := by
      unfold wfOf at hwf; simp only [Bool.or_eq_false_iff] at hwf; exact hwf.1.2
    have hlo : BinFmt.tndCtlLo = 1 := rfl
    have hhi : BinFmt.tndCtlHi = 6 := rfl
    have hrange : c.ch = 0 ∨ c.ch > 6 := by
      unfold ctlChar at hctl
      simp only [hlo, hhi, Bool.and_eq_false_iff, decide_eq_false_iff_not] at hctl
      omega
    simp only [Bool.or_self, Bool.false_eq_true, if_false, List.cons_append, List.nil_append]
    rw [loop_plain _ _ _ _ hrange]
    congr 2
    cases buf
    simp only at hp
    simp [hp]
  · simp only [Bool.false_or, if_true, Bool.false_eq_true, if_false, List.append_nil, rgbBytes, List.cons_append, List.nil_append]
    have : boolBit false BinFmt.tndColorFg ||| boolBit true BinFmt.tndColorBg = 4 := by decide
    rw [this, loop_bg]
    simp only [hp]
  · simp only [Bool.or_false, if_true, Bool.false_eq_true, if_false, List.append_nil, rgbBytes, List.cons_append, List.nil_append]
    have : boolBit true BinFmt.tndColorFg ||| boolBit false BinFmt.tndColorBg = 2 := by decide
    rw [this, loop_fg]
    simp only [hp]
  · simp only [Bool.or_self, if_true, rgbBytes, List.cons_append, List.nil_append, List.append_assoc]
    have : boolBit true BinFmt.tndColorFg ||| boolBit true BinFmt.tndColorBg = 6 := by decide
    rw [this, loop_both]
    simp only [hp]

end IcyVerif.BinFormats
