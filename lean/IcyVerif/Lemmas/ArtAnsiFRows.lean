import IcyVerif.Lemmas.ArtAnsiFLine
import IcyVerif.Lemmas.ArtAnsiXRows
/-! # The row loop of the whole ANSI writer against the reader: font pages and skipped rows (C04, `ansi_rt`)

`rows_compF` / `rows_longerF` are `rows_compX` / `rows_longerX` (Lemmas/ArtAnsiXRows.lean) for the event-level writer
`genLinesEv` over `genCellsS`: font pages (threaded through the rows as `cur_font_page`) and, with longer-terminal
positioning, rows left out by `skip_lines` — a skipped row emits nothing and neither the writer's rendition state nor
the reader moves; its item row is empty.  Because every row that IS written starts with `CSI y H`, the caret position a
skipped row would have had does not matter: the longer-terminal lemma speaks about the screen up to the caret (`ScrC`). -/
set_option linter.unusedSimpArgs false
namespace IcyVerif.ArtIO
open IcyVerif.Gen.Art

/-- the rows of a picture from row `y` on next to the item rows the reader performs for them; `es` = the row is skipped -/
inductive RowsOkS (o : AnsiOpts) (pal Pf : List Rgb) (w : Nat) (es : Nat → Bool) : Nat → List (List Cell) → List (List (Option Cell)) → Prop
  | nil (y : Nat) : RowsOkS o pal Pf w es y [] []
  | cons (y : Nat) (row : List Cell) (items : List (Option Cell)) (rows : List (List Cell)) (irows : List (List (Option Cell))) :
      es y = false → items.length = ansiRowLen o pal w row → ItemsOkX pal Pf 0 w (row.take (ansiRowLen o pal w row)) items →
      RowsOkS o pal Pf w es (y + 1) rows irows → RowsOkS o pal Pf w es y (row :: rows) (items :: irows)
  | skip (y : Nat) (row : List Cell) (rows : List (List Cell)) (irows : List (List (Option Cell))) :
      es y = true → RowsOkS o pal Pf w es (y + 1) rows irows → RowsOkS o pal Pf w es y (row :: rows) ([] :: irows)

theorem RowsOkS.mono {o : AnsiOpts} {pal P Q : List Rgb} {w : Nat} {es : Nat → Bool} {y : Nat} {rows : List (List Cell)}
    {irows : List (List (Option Cell))} (h : RowsOkS o pal P w es y rows irows) (hq : P <+: Q) : RowsOkS o pal Q w es y rows irows := by
  induction h with
  | nil y => exact RowsOkS.nil y
  | cons y row items rows irows h0 h1 h2 _ ih => exact RowsOkS.cons y row items rows irows h0 h1 (h2.mono hq) ih
  | skip y row rows irows h0 _ ih => exact RowsOkS.skip y row rows irows h0 ih

theorem RowsOkS.length_eq {o : AnsiOpts} {pal Pf : List Rgb} {w : Nat} {es : Nat → Bool} {y : Nat} {rows : List (List Cell)}
    {irows : List (List (Option Cell))} (h : RowsOkS o pal Pf w es y rows irows) : irows.length = rows.length := by
  induction h with
  | nil => rfl
  | cons _ _ _ _ _ _ _ _ _ ih => simp [ih]
  | skip _ _ _ _ _ _ ih => simp [ih]

/-- row `y0 + k`: skipped and then without items, or written and then with the items of its cells -/
theorem RowsOkS.get {o : AnsiOpts} {pal Pf : List Rgb} {w : Nat} {es : Nat → Bool} {y0 : Nat} {rows : List (List Cell)}
    {irows : List (List (Option Cell))} (h : RowsOkS o pal Pf w es y0 rows irows) : ∀ k, k < rows.length →
      (es (y0 + k) = true ∧ irows.getD k [] = []) ∨
      (es (y0 + k) = false ∧ (irows.getD k []).length = ansiRowLen o pal w (rows.getD k []) ∧
        ItemsOkX pal Pf 0 w ((rows.getD k []).take (ansiRowLen o pal w (rows.getD k []))) (irows.getD k [])) := by
  induction h with
  | nil => intro k hk; simp at hk
  | cons y row items rows irows h0 h1 h2 _ ih =>
    intro k hk
    cases k with
    | zero => right; exact ⟨by simpa using h0, by simpa using h1, by simpa using h2⟩
    | succ k' =>
      have := ih k' (by simp at hk; omega)
      have e : y + (k' + 1) = y + 1 + k' := by omega
      rw [e]; simpa using this
  | skip y row rows irows h0 _ ih =>
    intro k hk
    cases k with
    | zero => left; exact ⟨by simpa using h0, by simp⟩
    | succ k' =>
      have := ih k' (by simp at hk; omega)
      have e : y + (k' + 1) = y + 1 + k' := by omega
      rw [e]; simpa using this

theorem RowsOkS.fits {o : AnsiOpts} {pal Pf : List Rgb} {w : Nat} {es : Nat → Bool} {y : Nat} (hw : 0 < w) {rows : List (List Cell)}
    {irows : List (List (Option Cell))} (h : RowsOkS o pal Pf w es y rows irows) (hfull : ∀ r ∈ rows, r.length = w) :
    ∀ r ∈ irows, r.length ≤ w ∧ RowSkipsInside w r := by
  induction h with
  | nil => intro r hr; cases hr
  | cons y row items rows irows h0 h1 h2 _ ih =>
    intro r hr
    rcases List.mem_cons.1 hr with e | hm
    · subst e
      obtain ⟨l1, l2, _⟩ := ansiRowLen_specX o pal w hw row
      have hrow : row.length = w := hfull row List.mem_cons_self
      have htl : (row.take (ansiRowLen o pal w row)).length = ansiRowLen o pal w row := by simp; omega
      refine ⟨by omega, ?_⟩
      intro i hi hn
      have := itemsOk_skipsX (by rw [htl]; exact h1) h2 i hi hn
      omega
    · exact ih (fun q hq => hfull q (List.mem_cons_of_mem _ hq)) r hm
  | skip y row rows irows h0 _ ih =>
    intro r hr
    rcases List.mem_cons.1 hr with e | hm
    · subst e; exact ⟨Nat.zero_le _, fun i hi _ => by simp at hi⟩
    · exact ih (fun q hq => hfull q (List.mem_cons_of_mem _ hq)) r hm

/-- all rows of the writer without longer-terminal positioning (rows are separated by line breaks; `skip_lines` is not looked at) -/
theorem rows_compF (o : AnsiOpts) (skip : Nat → Bool) (pal : List Rgb) (hpal : PalBytes pal) (im : IceMode) (ic : Bool) (hic : ic = decide (im = .ice))
    (w ht : Nat) (hw0 : 0 < w) (hw : w ≤ 999) (hl : o.longerTerminalOutput = false) :
    ∀ (rows : List (List Cell)) (frows : List (List Nat)) (st : AnsiState) (R : RdSt) (y : Nat) (first : Bool) (cur : Nat) (p : AnsiP) (core : Core),
    (∀ r ∈ rows, r.length = w) → (∀ r ∈ rows, ∀ c ∈ r, CellDomX o ic c) → RelX ic st.isBlink st R.1 R.2 → CInvX ic R w p core →
    (rows ≠ [] → core.scr.cx = 0) → y + rows.length = ht → (∀ fr ∈ frows, ∀ f ∈ fr, f < ansiFonts) →
    ∃ (irows : List (List (Option Cell))) (Rf : RdSt), RowsOkS o pal Rf.2 w (fun _ => false) y rows irows ∧ R.2 <+: Rf.2 ∧
      Rf.2.length ≤ R.2.length + 2 * w * rows.length ∧
      (ansiRun p core (bytesOf (genLinesEv o skip w ht (genCellsS o skip pal im w rows y st) frows y first cur))).2.scr = picItems w irows core.scr ∧
      (ansiRun p core (bytesOf (genLinesEv o skip w ht (genCellsS o skip pal im w rows y st) frows y first cur))).2.stuck = false ∧
      (ansiRun p core (bytesOf (genLinesEv o skip w ht (genCellsS o skip pal im w rows y st) frows y first cur))).2.pal = Rf.2 ∧
      (ansiRun p core (bytesOf (genLinesEv o skip w ht (genCellsS o skip pal im w rows y st) frows y first cur))).1.st = .ground := by
  intro rows
  induction rows with
  | nil =>
    intro frows st R y first cur p core _ _ _ hinv _ _ _
    exact ⟨[], R, RowsOkS.nil y, List.prefix_refl _, by simp, rfl, hinv.base.ns, hinv.pal, hinv.base.ag⟩
  | cons row rest ih =>
    intro frows st R y first cur p core hfull hd hrel hinv hcx hy hfonts
    have hrow : row.length = w := hfull row List.mem_cons_self
    obtain ⟨l1, l2, l3⟩ := ansiRowLen_specX o pal w hw0 row
    have htl : (row.take (ansiRowLen o pal w row)).length = ansiRowLen o pal w row := by simp; omega
    obtain ⟨Re, G1, G2⟩ := lineOk_genX o pal hpal im ic hic row (hd row List.mem_cons_self) (ansiRowLen o pal w row) 0 st R (by omega) hrel
    unfold genCellsS
    simp only [hl, Bool.false_eq_true, false_and, if_false]
    generalize hg : genCellsRow o pal im row (ansiRowLen o pal w row) 0 st = res at G1 G2
    obtain ⟨line, st1⟩ := res
    simp only [List.drop_zero] at G1 G2 ⊢
    have hll : line.length = ansiRowLen o pal w row := by rw [G1.length_eq, htl]
    have hx0 : core.scr.cx = 0 := hcx (by simp)
    obtain ⟨gr1, gr2⟩ := G1.grow
    have hf0 : ∀ f ∈ frows.headD [], f < ansiFonts := by
      cases frows with
      | nil => intro f hf; simp at hf
      | cons a b => exact hfonts a List.mem_cons_self
    have hftail : ∀ fr ∈ frows.tail, ∀ f ∈ fr, f < ansiFonts := fun fr h => hfonts fr (List.mem_of_mem_tail h)
    obtain ⟨items, I1, I2, I3, I4⟩ := genLine_itemsF o ic pal w hw line.length (row.take (ansiRowLen o pal w row)) line (frows.headD []) R Re 0 cur p core
      (Nat.le_refl _) G1 (by rw [htl]; omega) hinv (fun _ => hx0) hf0
    have hil : items.length = ansiRowLen o pal w row := by rw [I1, htl]
    unfold genLinesEv
    simp only [hl, Bool.false_eq_true, false_and, if_false, List.nil_append, Bool.not_false, true_and]
    have hsk : RowSkipsInside w items := by
      intro i hi hn
      have := itemsOk_skipsX (by rw [I1]) I2 i hi hn
      omega
    have hmore : (y + 1 < ht) ↔ (!rest.isEmpty) = true := by
      cases rest with
      | nil => simp at hy ⊢; omega
      | cons a b => simp at hy ⊢; omega
    have heol : bytesOf (if line.length < w ∧ y + 1 < ht then [Ev.ext (if o.compress = true ∧ w ≤ line.length + 1 then [32] else [13, 10]), Ev.eol] else []) =
        (if line.length < w ∧ y + 1 < ht then (if o.compress = true ∧ w ≤ line.length + 1 then [32] else [13, 10]) else []) := by
      by_cases hc : line.length < w ∧ y + 1 < ht
      · rw [if_pos hc, if_pos hc]; simp [bytesOf]
      · rw [if_neg hc, if_neg hc]; rfl
    rw [bytesOf_append, bytesOf_append, heol]
    have hrowscr : ∃ p2 core2, ansiRun p core (bytesOf (genLineEv o w line.length 0 cur line (frows.headD [])).1 ++
          (if line.length < w ∧ y + 1 < ht then (if o.compress = true ∧ w ≤ line.length + 1 then [32] else [13, 10]) else [])) = (p2, core2) ∧
        core2.scr = rowItems w items (!rest.isEmpty) core.scr ∧ CInvX ic Re w p2 core2 := by
      rw [ansiRun_append]
      generalize hr : ansiRun p core (bytesOf (genLineEv o w line.length 0 cur line (frows.headD [])).1) = res at I3 I4
      obtain ⟨p1, core1⟩ := res
      simp only [] at I3 I4 ⊢
      unfold rowItems
      by_cases hshort : line.length < w ∧ y + 1 < ht
      · rw [if_pos hshort]
        have hnot : ¬ (o.compress = true ∧ w ≤ line.length + 1) := by
          intro ⟨_, h2⟩
          rcases l3 with e | ⟨e, _⟩ <;> omega
        rw [if_neg hnot, ansiRun_crlf p1 core1 I4.base.ns I4.base.ag]
        have hc : items.length < w ∧ (!rest.isEmpty) = true := ⟨by omega, hmore.1 hshort.2⟩
        rw [if_pos hc]
        refine ⟨_, _, rfl, by show core1.scr.exec Op.nl = _; rw [I3], ?_⟩
        exact ⟨⟨I4.base.ns, I4.base.ag, I4.base.ice, I4.base.attr, by show (core1.scr.exec Op.nl).w = w; rw [exec_w]; exact I4.base.sw, I4.base.th⟩, I4.pal⟩
      · rw [if_neg hshort, ansiRun_nil]
        have hc : ¬ (items.length < w ∧ (!rest.isEmpty) = true) := by
          intro ⟨h1, h2⟩; exact hshort ⟨by omega, hmore.2 h2⟩
        rw [if_neg hc]
        exact ⟨_, _, rfl, I3, I4⟩
    obtain ⟨p2, core2, e2, s2, inv2⟩ := hrowscr
    rw [List.append_assoc, ← List.append_assoc, ansiRun_append, e2]
    simp only []
    have hsw : core.scr.w = w := hinv.base.sw
    have Rs := rowItems_spec core.scr items (!rest.isEmpty) hx0 (by rw [hsw]; exact hw0) (by rw [hsw]; omega)
      (by rw [hsw]; omega) (by rw [hsw]; exact hsk)
    rw [hsw] at Rs
    have hcx2 : rest ≠ [] → core2.scr.cx = 0 := by
      intro hne
      rw [s2]
      have : (!rest.isEmpty) = true := by cases rest <;> simp_all
      exact (Rs.pos this).1
    obtain ⟨irows, Rf, J1, J2, J3, J4, J5, J6, J7⟩ := ih frows.tail st1 Re (y + 1) false (genLineEv o w line.length 0 cur line (frows.headD [])).2 p2 core2
      (fun r hr => hfull r (List.mem_cons_of_mem _ hr)) (fun r hr => hd r (List.mem_cons_of_mem _ hr)) G2 inv2 hcx2
      (by simp at hy; omega) hftail
    refine ⟨items :: irows, Rf, RowsOkS.cons y row items rest irows rfl hil (I2.mono J2) J1, List.IsPrefix.trans gr1 J2, ?_, ?_, J5, J6, J7⟩
    · rw [htl] at gr2
      have : 2 * ansiRowLen o pal w row ≤ 2 * w := by omega
      simp only [List.length_cons]
      rw [Nat.mul_add]
      omega
    · rw [J4, s2]
      have hemp : irows.isEmpty = rest.isEmpty := by
        have := J1.length_eq
        cases irows <;> cases rest <;> simp_all
      show _ = picItems w irows (rowItems w items (!irows.isEmpty) core.scr)
      rw [hemp]

/-! ### longer-terminal output, with skipped rows -/

/-- the same screen up to the caret -/
structure ScrC (s t : Screen) : Prop where
  w : s.w = t.w
  layerH : s.layerH = t.layerH
  lines : s.lines = t.lines

theorem ScrC.refl (s : Screen) : ScrC s s := ⟨rfl, rfl, rfl⟩
theorem ScrC.trans {a b c : Screen} (h1 : ScrC a b) (h2 : ScrC b c) : ScrC a c :=
  ⟨h1.w.trans h2.w, h1.layerH.trans h2.layerH, h1.lines.trans h2.lines⟩
theorem ScrC.symm {a b : Screen} (h : ScrC a b) : ScrC b a := ⟨h.w.symm, h.layerH.symm, h.lines.symm⟩

theorem scrC_gotoRow (s : Screen) (y : Nat) : ScrC (s.gotoRow y) s := ⟨rfl, rfl, rfl⟩

theorem gotoRow_congr {s t : Screen} (h : ScrC s t) (y : Nat) : s.gotoRow y = t.gotoRow y := by
  obtain ⟨h1, h2, h3⟩ := h
  cases s; cases t
  simp only [Screen.gotoRow] at *
  subst h1; subst h2; subst h3; rfl

/-- the rows positioned with `CSI y H` do not depend on where the caret was -/
theorem picItemsL_congr {s t : Screen} (h : ScrC s t) : ∀ (rows : List (List (Option Cell))) (y : Nat),
    ScrC (picItemsL rows y s) (picItemsL rows y t) := by
  intro rows y
  cases rows with
  | nil => exact h
  | cons r rest =>
    show ScrC (picItemsL rest (y + 1) ((s.gotoRow y).runItems r)) (picItemsL rest (y + 1) ((t.gotoRow y).runItems r))
    rw [gotoRow_congr h y]; exact ScrC.refl _

/-- all rows in longer-terminal mode: the reader performs the item rows of the rows that are not skipped, each at column 0
    of its own row -/
theorem rows_longerF (o : AnsiOpts) (skip : Nat → Bool) (pal : List Rgb) (hpal : PalBytes pal) (im : IceMode) (ic : Bool) (hic : ic = decide (im = .ice))
    (w ht : Nat) (hw0 : 0 < w) (hw : w ≤ 999) (hht : ht ≤ 999) (hl : o.longerTerminalOutput = true) :
    ∀ (rows : List (List Cell)) (frows : List (List Nat)) (st : AnsiState) (R : RdSt) (y : Nat) (first : Bool) (cur : Nat) (p : AnsiP) (core : Core),
    (∀ r ∈ rows, r.length = w) → (∀ r ∈ rows, ∀ c ∈ r, CellDomX o ic c) → RelX ic st.isBlink st R.1 R.2 → CInvX ic R w p core →
    (first = true → R.1 = defaultAttr) → y + rows.length = ht → (∀ fr ∈ frows, ∀ f ∈ fr, f < ansiFonts) →
    ∃ (irows : List (List (Option Cell))) (Rf : RdSt), RowsOkS o pal Rf.2 w skip y rows irows ∧ R.2 <+: Rf.2 ∧
      Rf.2.length ≤ R.2.length + 2 * w * rows.length ∧
      ScrC (ansiRun p core (bytesOf (genLinesEv o skip w ht (genCellsS o skip pal im w rows y st) frows y first cur))).2.scr (picItemsL irows y core.scr) ∧
      (ansiRun p core (bytesOf (genLinesEv o skip w ht (genCellsS o skip pal im w rows y st) frows y first cur))).2.stuck = false ∧
      (ansiRun p core (bytesOf (genLinesEv o skip w ht (genCellsS o skip pal im w rows y st) frows y first cur))).2.pal = Rf.2 ∧
      (ansiRun p core (bytesOf (genLinesEv o skip w ht (genCellsS o skip pal im w rows y st) frows y first cur))).1.st = .ground := by
  intro rows
  induction rows with
  | nil =>
    intro frows st R y first cur p core _ _ _ hinv _ _ _
    exact ⟨[], R, RowsOkS.nil y, List.prefix_refl _, by simp, ScrC.refl _, hinv.base.ns, hinv.pal, hinv.base.ag⟩
  | cons row rest ih =>
    intro frows st R y first cur p core hfull hd hrel hinv hA hy hfonts
    have hftail : ∀ fr ∈ frows.tail, ∀ f ∈ fr, f < ansiFonts := fun fr h => hfonts fr (List.mem_of_mem_tail h)
    by_cases hsk : skip y = true
    · -- the row is left out: no events, no state change
      unfold genCellsS
      simp only [hl, hsk, and_self, if_true]
      unfold genLinesEv
      simp only [hl, hsk, and_self, if_true]
      obtain ⟨irows, Rf, J1, J2, J3, J4, J5, J6, J7⟩ := ih frows.tail st R (y + 1) first cur p core
        (fun r hr => hfull r (List.mem_cons_of_mem _ hr)) (fun r hr => hd r (List.mem_cons_of_mem _ hr)) hrel hinv hA
        (by simp at hy; omega) hftail
      refine ⟨[] :: irows, Rf, RowsOkS.skip y row rest irows hsk J1, J2, ?_, ?_, J5, J6, J7⟩
      · simp only [List.length_cons]; rw [Nat.mul_add]; omega
      · refine J4.trans ?_
        show ScrC (picItemsL irows (y + 1) core.scr) (picItemsL irows (y + 1) ((core.scr.gotoRow y).runItems []))
        exact picItemsL_congr (scrC_gotoRow core.scr y).symm irows (y + 1)
    · have hsk' : skip y = false := by cases h : skip y <;> simp_all
      have hrow : row.length = w := hfull row List.mem_cons_self
      obtain ⟨l1, l2, l3⟩ := ansiRowLen_specX o pal w hw0 row
      have htl : (row.take (ansiRowLen o pal w row)).length = ansiRowLen o pal w row := by simp; omega
      obtain ⟨Re, G1, G2⟩ := lineOk_genX o pal hpal im ic hic row (hd row List.mem_cons_self) (ansiRowLen o pal w row) 0 st R (by omega) hrel
      unfold genCellsS
      simp only [hl, hsk', Bool.false_eq_true, and_false, if_false]
      generalize hg : genCellsRow o pal im row (ansiRowLen o pal w row) 0 st = res at G1 G2
      obtain ⟨line, st1⟩ := res
      simp only [List.drop_zero] at G1 G2 ⊢
      have hll : line.length = ansiRowLen o pal w row := by rw [G1.length_eq, htl]
      have hylt : y + 1 < 1000 := by simp at hy; omega
      obtain ⟨gr1, gr2⟩ := G1.grow
      have hf0 : ∀ f ∈ frows.headD [], f < ansiFonts := by
        cases frows with
        | nil => intro f hf; simp at hf
        | cons a b => exact hfonts a List.mem_cons_self
      obtain ⟨p1, core1, e1, s1, inv1⟩ := head_readX ic R w p core y first hinv hA hylt
      have hx0 : core1.scr.cx = 0 := by rw [s1]; rfl
      obtain ⟨items, I1, I2, I3, I4⟩ := genLine_itemsF o ic pal w hw line.length (row.take (ansiRowLen o pal w row)) line (frows.headD []) R Re 0 cur p1 core1
        (Nat.le_refl _) G1 (by rw [htl]; omega) inv1 (fun _ => hx0) hf0
      have hil : items.length = ansiRowLen o pal w row := by rw [I1, htl]
      unfold genLinesEv
      simp only [hl, hsk', Bool.false_eq_true, and_false, if_false, if_true, Bool.not_true, false_and, List.append_nil]
      have hhead : bytesOf ((if first = true then [Ev.ext (csi [0] 109)] else []) ++ [Ev.ext (csi [y + 1] 72), Ev.push]) =
          (if first = true then csi [0] 109 else []) ++ csi [y + 1] 72 := by
        cases first <;> simp [bytesOf]
      rw [bytesOf_append, bytesOf_append, hhead, List.append_assoc, ansiRun_append, e1]
      simp only []
      rw [ansiRun_append]
      generalize hr : ansiRun p1 core1 (bytesOf (genLineEv o w line.length 0 cur line (frows.headD [])).1) = res at I3 I4
      obtain ⟨p2, core2⟩ := res
      simp only [] at I3 I4 ⊢
      obtain ⟨irows, Rf, J1, J2, J3, J4, J5, J6, J7⟩ := ih frows.tail st1 Re (y + 1) false (genLineEv o w line.length 0 cur line (frows.headD [])).2 p2 core2
        (fun r hr => hfull r (List.mem_cons_of_mem _ hr)) (fun r hr => hd r (List.mem_cons_of_mem _ hr)) G2 I4 (fun h => by cases h)
        (by simp at hy; omega) hftail
      refine ⟨items :: irows, Rf, RowsOkS.cons y row items rest irows hsk' hil (I2.mono J2) J1, List.IsPrefix.trans gr1 J2, ?_, ?_, J5, J6, J7⟩
      · rw [htl] at gr2
        have : 2 * ansiRowLen o pal w row ≤ 2 * w := by omega
        simp only [List.length_cons]
        rw [Nat.mul_add]
        omega
      · refine J4.trans ?_
        rw [I3, s1]
        exact ScrC.refl _

end IcyVerif.ArtIO
