import IcyVerif.Lemmas.Tdf
set_option linter.unusedSimpArgs false
namespace IcyVerif.Tdf
open IcyVerif.Uni IcyVerif.Font

/-- the decidable domain of the TDF round trip -/
def WfTdf (f : TdfFont) : Prop := wfTdfB f = true

structure WfFacts (f : TdfFont) : Prop where
  nameLen : f.name.length ≤ 12
  nameValid : validUtf8 f.name = true
  nameNoNul : f.name.all (· ≠ 0) = true
  ty : f.ftype ≤ 2
  sp0 : 0 ≤ f.spaces
  sp40 : f.spaces ≤ 40
  tlen : f.table.length = 94
  table : TableWf (f.ftype == 2) f.table
  size : (encData f.table).length ≤ 0xFFFF

theorem wf_facts (f : TdfFont) (h : WfTdf f) : WfFacts f := by
  unfold WfTdf wfTdfB at h
  simp only [Bool.and_eq_true, decide_eq_true_eq] at h
  obtain ⟨⟨⟨⟨⟨⟨⟨⟨h1, h2⟩, h3⟩, h4⟩, h5⟩, h6⟩, h7⟩, h8⟩, h9⟩ := h
  refine ⟨h1, h2, h3, h4, h5, h6, h7, ?_, ?_⟩
  · intro g hg
    have := List.all_eq_true.mp h8 g hg
    cases g with
    | none => trivial
    | some g => exact this
  · rw [encLoop_eq] at h9; simpa using h9

/-- the bytes `add_font_data` appends for a well-formed font -/
def fontBytes (f : TdfFont) : List Nat :=
  indicator ++ [12] ++ f.name ++ List.replicate (12 - f.name.length) 0 ++ [0, 0, 0, 0] ++
    [f.ftype] ++ [asU8 f.spaces] ++ u16le (encData f.table).length ++ u16s (encOffs 0 f.table) ++ encData f.table

theorem addFontData_eq (f : TdfFont) (h : WfTdf f) : addFontData f = .ok (fontBytes f) := by
  have w := wf_facts f h
  unfold addFontData
  rw [if_neg (by have := w.nameLen; omega), if_neg (by have := w.sp40; omega)]
  rw [encLoop_eq]
  simp only [List.nil_append, List.length_nil]
  rw [if_neg (by have := w.size; omega)]
  rfl

theorem fontBytes_head (f : TdfFont) : ∃ r, fontBytes f = 0x55 :: r := ⟨_, rfl⟩

theorem fontBytes_length (f : TdfFont) (h : WfTdf f) : 213 ≤ (fontBytes f).length := by
  have w := wf_facts f h
  have hl : (u16s (encOffs 0 f.table)).length = 188 := by
    have : ∀ l : List Nat, (u16s l).length = 2 * l.length := by
      intro l; induction l with
      | nil => rfl
      | cons x xs ih => simp [u16s, u16le, ih]; omega
    rw [this, encOffs_length, w.tlen]
  have := w.nameLen
  simp [fontBytes, indicator, u16le, hl]
  omega

/-- all fonts of a bundle, concatenated -/
def bundleBytes : List TdfFont → List Nat
  | [] => []
  | f :: fs => fontBytes f ++ bundleBytes fs


theorem readFont_fontBytes (f : TdfFont) (h : WfTdf f) (tail : List Nat) :
    readFont (fontBytes f ++ tail) = .ok (f, tail) := by
  have w := wf_facts f h
  have hlen : ¬ ((fontBytes f ++ tail).length < 213) := by
    have := fontBytes_length f h
    simp only [List.length_append]; omega
  unfold readFont
  rw [if_neg hlen]
  unfold fontBytes
  simp only [indicator, List.cons_append, List.nil_append, List.append_assoc]
  simp only [ne_eq, not_true_eq_false, if_false, gt_iff_lt, Nat.lt_irrefl]
  generalize hY : f.ftype :: asU8 f.spaces :: (u16le (encData f.table).length ++
      (u16s (encOffs 0 f.table) ++ (encData f.table ++ tail))) = Y
  have hname : nameBytes 12 (f.name ++ (List.replicate (12 - f.name.length) 0 ++ 0 :: 0 :: 0 :: 0 :: Y)) = some f.name := by
    rw [← List.append_assoc]; exact nameBytes_field f.name _ w.nameLen w.nameNoNul
  have hdrop : List.drop 16 (f.name ++ (List.replicate (12 - f.name.length) 0 ++ 0 :: 0 :: 0 :: 0 :: Y)) = Y := by
    have e : f.name ++ (List.replicate (12 - f.name.length) 0 ++ 0 :: 0 :: 0 :: 0 :: Y) =
        (f.name ++ List.replicate (12 - f.name.length) 0 ++ [0, 0, 0, 0]) ++ Y := by simp [List.append_assoc]
    have l : (f.name ++ List.replicate (12 - f.name.length) 0 ++ [0, 0, 0, 0]).length = 16 := by
      have := w.nameLen; simp; omega
    rw [e, ← l, List.drop_left]
  rw [hname, hdrop, ← hY]
  simp only
  rw [if_neg (by have := w.ty; omega)]
  have hsp : ((asU8 f.spaces : Nat) : Int) = f.spaces := asU8_id _ w.sp0 (by have := w.sp40; omega)
  rw [if_neg (by have := w.sp40; omega)]
  simp only [u16le, List.cons_append, List.nil_append]
  have hoffs : readU16s 94 (u16s (encOffs 0 f.table) ++ (encData f.table ++ tail)) =
      some (encOffs 0 f.table, encData f.table ++ tail) := by
    have := readU16s_u16s (encOffs 0 f.table) (encData f.table ++ tail) (encOffs_lt 0 f.table)
    rw [encOffs_length, w.tlen] at this
    exact this
  rw [hoffs]
  simp only
  have hbs : (encData f.table).length % 256 + 256 * ((encData f.table).length / 256 % 256) = (encData f.table).length := by
    have := w.size; omega
  rw [hbs]
  have hg := readGlyphs_enc (f.ftype == 2) (encData f.table).length (by have := w.size; omega) f.table w.table [] tail (by simp)
  simp only [List.nil_append, List.length_nil] at hg
  rw [hg]
  simp only [List.drop_left]
  have hlossy : lossyBytes f.name = f.name := by
    obtain ⟨cs, hcs, he⟩ := (validUtf8_iff f.name).mp w.nameValid
    rw [he]
    unfold lossyBytes lossy
    rw [lossyAux_encodeAll cs hcs _ (Nat.le_refl _)]
  rw [hlossy, hsp]



theorem bundleData_eq (fs : List TdfFont) (h : ∀ f ∈ fs, WfTdf f) : bundleData fs = .ok (bundleBytes fs) := by
  induction fs with
  | nil => rfl
  | cons f fs ih =>
    simp only [bundleData, addFontData_eq f (h f (List.mem_cons_self ..)),
      ih (fun g hg => h g (List.mem_cons_of_mem _ hg)), bundleBytes]

theorem readFonts_stop (fuel : Nat) (tail : List Nat) (h : tail = [] ∨ ∃ t, tail = 0 :: t) :
    readFonts fuel tail = .ok [] := by
  cases fuel with
  | zero => rfl
  | succ n =>
    rcases h with rfl | ⟨t, rfl⟩
    · rfl
    · simp [readFonts]

theorem readFonts_bundle (fs : List TdfFont) (h : ∀ f ∈ fs, WfTdf f) (tail : List Nat)
    (ht : tail = [] ∨ ∃ t, tail = 0 :: t) :
    ∀ fuel, fs.length ≤ fuel → readFonts fuel (bundleBytes fs ++ tail) = .ok fs := by
  induction fs with
  | nil => intro fuel _; simp only [bundleBytes, List.nil_append]; exact readFonts_stop fuel tail ht
  | cons f fs ih =>
    intro fuel hf
    cases fuel with
    | zero => simp at hf
    | succ n =>
      obtain ⟨r, hr⟩ := fontBytes_head f
      have hrd := readFont_fontBytes f (h f (List.mem_cons_self ..)) (bundleBytes fs ++ tail)
      simp only [bundleBytes, List.append_assoc]
      rw [hr] at hrd ⊢
      simp only [List.cons_append, readFonts]
      rw [if_neg (by omega)]
      simp only [List.cons_append] at hrd
      rw [hrd]
      simp only
      rw [ih (fun g hg => h g (List.mem_cons_of_mem _ hg)) n (by simp at hf; omega)]

theorem bundleBytes_length (fs : List TdfFont) (h : ∀ f ∈ fs, WfTdf f) : 213 * fs.length ≤ (bundleBytes fs).length := by
  induction fs with
  | nil => simp [bundleBytes]
  | cons f fs ih =>
    have := fontBytes_length f (h f (List.mem_cons_self ..))
    have := ih (fun g hg => h g (List.mem_cons_of_mem _ hg))
    simp [bundleBytes]; omega

theorem fileHeader_eq : fileHeader = 19 :: (idBytes ++ [0x1A]) := rfl
theorem idBytes_length : idBytes.length = 18 := by decide

/-- reading a file that consists of the header, well-formed fonts, and nothing or a 0 byte -/
theorem fromTdf_bundle (fs : List TdfFont) (hne : fs ≠ []) (h : ∀ f ∈ fs, WfTdf f) (tail : List Nat)
    (ht : tail = [] ∨ ∃ t, tail = 0 :: t) :
    fromTdf (fileHeader ++ bundleBytes fs ++ tail) = .ok fs := by
  have hl := bundleBytes_length fs h
  have hpos : 1 ≤ fs.length := by
    cases fs with
    | nil => exact absurd rfl hne
    | cons _ _ => simp
  unfold fromTdf
  have hlen : ¬ ((fileHeader ++ bundleBytes fs ++ tail).length < 233) := by
    simp [fileHeader_eq, idBytes_length]; omega
  rw [if_neg hlen]
  simp only [fileHeader_eq, List.cons_append, List.append_assoc, List.nil_append]
  simp only [ne_eq, not_true_eq_false, if_false]
  have htake : List.take 18 (idBytes ++ 26 :: (bundleBytes fs ++ tail)) = idBytes := by
    rw [← idBytes_length, List.take_left]
  have hdrop : List.drop 18 (idBytes ++ 26 :: (bundleBytes fs ++ tail)) = 26 :: (bundleBytes fs ++ tail) := by
    rw [← idBytes_length, List.drop_left]
  rw [htake, hdrop]
  simp only [ne_eq, not_true_eq_false, if_false]
  apply readFonts_bundle fs h tail ht
  simp; omega

end IcyVerif.Tdf
